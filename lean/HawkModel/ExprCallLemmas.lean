import HawkModel.ExprBlockLemmas

/-! the block simulation for an arbitrary relation family, and its use for a by-reference call whose body is a block
program (`evalCallByRefBlk`). The property theorem is in `Props/C08.lean`. -/

namespace Hawk.Expr
open FloatOps

variable {F : Type} [FloatOps F]

/-- what the block simulation needs from a relation family indexed by the parser context -/
structure BlockRel (X : Ext F) (ρ : Nat → Ref) (R : PCtx → Env F → SState F → Prop) : Prop where
  sim : ∀ ctx, Chain ctx → SimulatesOn (InScope ctx) (envStorage X) (scopedStorage (F := F)) (resolve ρ ctx) (R ctx)
  enter : ∀ ctx, Chain ctx → ∀ k hi, lclsSize ctx + k ≤ hi → ∀ env s, R ctx env s →
    R ((lclsSize ctx, k) :: ctx) (resetLcls env (lclsSize ctx) hi) (s.1, nilFrame :: s.2)
  exit : ∀ ctx o k env s, R ((o, k) :: ctx) env s → R ctx env (s.1, s.2.tail)

theorem sim_ex_gen (X : Ext F) (ρ : Nat → Ref) {R : PCtx → Env F → SState F → Prop} (H : BlockRel X ρ R)
    (ctx : PCtx) (hc : Chain ctx)
    (e : Expr SRef F) (he : e.AllRefs (InScope ctx)) (env : Env F) (s : SState F) (h : R ctx env s)
    (g₂ : Val F × Env F → Except Err (Env F × List (Val F)))
    (g₁ : Val F × SState F → Except Err (SState F × List (Val F)))
    (hg : ∀ v env' s', R ctx env' s' → SimS (R ctx) (g₂ (v, env')) (g₁ (v, s'))) :
    SimS (R ctx) (eval X (envStorage X) (e.map (resolve ρ ctx)) env >>= g₂)
      (eval X scopedStorage e s >>= g₁) := by
  have hs := eval_sim_on X (H.sim ctx hc) e he env s h
  cases hres : eval X scopedStorage e s with
  | error err =>
    rw [hres] at hs
    simp only [Sim] at hs
    rw [hs]
    simp [SimS]
  | ok p =>
    obtain ⟨v, s'⟩ := p
    rw [hres] at hs
    obtain ⟨env', h1, h2⟩ := hs
    rw [h1]
    simpa using hg v env' s' h2

theorem block_sim_gen (X : Ext F) (ρ : Nat → Ref) {R : PCtx → Env F → SState F → Prop} (H : BlockRel X ρ R)
    (s : SStmt F) :
    ∀ (ctx : PCtx), Chain ctx → s.WS ctx → ∀ env st tr, R ctx env st →
      SimS (R ctx) (run X (compile ρ s ctx) (env, tr)) (srun X s (st, tr)) := by
  induction s with
  | skip => intro ctx _ _ env st tr h; exact ⟨env, rfl, h⟩
  | ex e =>
    intro ctx hc hws env st tr h
    simp only [compile, run, srun]
    exact sim_ex_gen X ρ H ctx hc e hws env st h _ _ (fun v env' s' h' => ⟨env', rfl, h'⟩)
  | seq a b iha ihb =>
    intro ctx hc hws env st tr h
    simp only [compile, run, srun]
    exact SimS.bind (iha ctx hc hws.1 env st tr h) (fun env' s' tr' h' => ihb ctx hc hws.2 env' s' tr' h')
  | blk k body ih =>
    intro ctx hc hws env st tr h
    have hc' : Chain ((lclsSize ctx, k) :: ctx) := ⟨rfl, hc⟩
    have hent := H.enter ctx hc k (lclsSize ctx + k) (Nat.le_refl _) env st h
    have hrun : run X (compile ρ (.blk k body) ctx) (env, tr) =
        run X (compile ρ body ((lclsSize ctx, k) :: ctx)) (resetLcls env (lclsSize ctx) (lclsSize ctx + k), tr) := by
      by_cases hk : k = 0
      · subst hk
        simp [compile, run, resetLcls_empty]
      · have : (0 : Nat) ≠ k := fun h => hk h.symm
        simp [compile, run, this]
    rw [hrun]
    have hb := ih _ hc' hws _ _ tr hent
    simp only [srun]
    cases hres : srun X body ((st.1, nilFrame :: st.2), tr) with
    | error err =>
      rw [hres] at hb
      simp only [SimS] at hb
      rw [hb]
      simp [SimS]
    | ok p =>
      obtain ⟨s', tr'⟩ := p
      rw [hres] at hb
      obtain ⟨env', h1, h2⟩ := hb
      rw [h1]
      exact ⟨env', rfl, H.exit ctx _ _ env' s' h2⟩
  | rep n body ih =>
    intro ctx hc hws env st tr h
    simp only [compile, run, srun]
    exact iter_sim _ _ (fun env' s' tr' h' => ih ctx hc hws env' s' tr' h') n env st tr h
  | ite c t f iht ihf =>
    intro ctx hc hws env st tr h
    simp only [compile, run, srun]
    refine sim_ex_gen X ρ H ctx hc c hws.1 env st h _ _ (fun v env' s' h' => ?_)
    by_cases hb : toBool v = true
    · simpa [hb] using iht ctx hc hws.2.1 env' s' tr h'
    · simpa [hb] using ihf ctx hc hws.2.2 env' s' tr h'

/-- the outermost block, for a relation family -/
theorem block_top_sim_gen (X : Ext F) (ρ : Nat → Ref) {R : PCtx → Env F → SState F → Prop} (H : BlockRel X ρ R)
    (k : Nat) (body : SStmt F) (hws : body.WS [(0, k)]) (env : Env F) (σ : Store F) (tr : List (Val F))
    (h0 : R [] env (σ, [])) :
    SimS (R []) (run X (compileTop ρ k body) (env, tr)) (srun X (.blk k body) ((σ, []), tr)) := by
  have hc' : Chain [((0 : Nat), k)] := ⟨rfl, trivial⟩
  have hrun : ∃ hi, k ≤ hi ∧ run X (compileTop ρ k body) (env, tr) =
      run X (compile ρ body [(0, k)]) (resetLcls env 0 hi, tr) := by
    by_cases hN : max k (maxLcls body [(0, k)]) > 0
    · exact ⟨max k (maxLcls body [(0, k)]), by omega, by simp [compileTop, run, hN]⟩
    · have hk : k = 0 := by omega
      subst hk
      have hm' : maxLcls body [(0, 0)] = 0 := by omega
      refine ⟨0, by omega, ?_⟩
      rw [resetLcls_empty]
      simp [compileTop, run, hm']
  obtain ⟨hi, hhi, hr⟩ := hrun
  rw [hr]
  have hent : R [(0, k)] (resetLcls env 0 hi) (σ, [nilFrame]) :=
    H.enter [] trivial k hi (by simpa [lclsSize] using hhi) env (σ, []) h0
  have hb := block_sim_gen X ρ H body [(0, k)] hc' hws _ _ tr hent
  simp only [srun]
  cases hres : srun X body ((σ, [nilFrame]), tr) with
  | error err =>
    rw [hres] at hb
    simp only [SimS] at hb
    rw [hb]
    simp [SimS]
  | ok p =>
    obtain ⟨s', tr'⟩ := p
    rw [hres] at hb
    obtain ⟨env', h1, h2⟩ := hb
    rw [h1]
    exact ⟨env', rfl, H.exit [] _ _ env' s' h2⟩

/-! ## the callee of a by-reference call: parameters as non-locals, shared parts untouched -/

/-- `BRel` for the placement of the non-locals on the parameters, plus: named variables and globals are untouched -/
def BRelA (N : String → Option (Cell F)) (G : Nat → Cell F) (ctx : PCtx) (env : Env F) (s : SState F) : Prop :=
  BRel argπ ctx env s ∧ env.named = N ∧ env.gbl = G

omit [FloatOps F] in
theorem offFrame_argπ : OffFrame argπ := by
  intro i n
  simp [argπ, Ref.base]

omit [FloatOps F] in
theorem resolve_argπ_plain (ctx : PCtx) (r : SRef) :
    (∃ i, resolve argπ ctx r = .plain (.arg i)) ∨ (∃ n, resolve argπ ctx r = .plain (.lcl n)) := by
  cases r with
  | loc up idx => exact Or.inr ⟨_, rfl⟩
  | oth i => exact Or.inl ⟨i, rfl⟩

theorem blockRel_A (X : Ext F) (N : String → Option (Cell F)) (G : Nat → Cell F) :
    BlockRel X argπ (BRelA N G) := by
  constructor
  · intro ctx hc
    have base := block_simulates X argπ noAlias_argπ offFrame_argπ ctx hc
    constructor
    · intro r hr env s h
      obtain ⟨hb, hN, hG⟩ := h
      have := base.read r hr env s hb
      cases hres : (scopedStorage (F := F)).read r s with
      | error err => rw [hres] at this; exact this
      | ok p =>
        obtain ⟨v, s'⟩ := p
        rw [hres] at this
        obtain ⟨e', hc', hb'⟩ := this
        refine ⟨e', hc', hb', ?_⟩
        have hk := (hb.2 r hr).2
        rcases resolve_argπ_plain ctx r with ⟨i, hi⟩ | ⟨n, hn⟩
        · rw [hi] at hc' hk
          obtain ⟨w, hw⟩ := hk
          simp [envStorage, envRead, hw] at hc'
          rw [← hc'.2]; exact ⟨hN, hG⟩
        · rw [hn] at hc' hk
          obtain ⟨w, hw⟩ := hk
          simp [envStorage, envRead, hw] at hc'
          rw [← hc'.2]; exact ⟨hN, hG⟩
    · intro r hr v env s h
      obtain ⟨hb, hN, hG⟩ := h
      have := base.write r hr v env s hb
      cases hres : (scopedStorage (F := F)).write r v s with
      | error err => rw [hres] at this; exact this
      | ok s' =>
        rw [hres] at this
        obtain ⟨e', hc', hb'⟩ := this
        refine ⟨e', hc', hb', ?_⟩
        have hk := (hb.2 r hr).2
        rcases resolve_argπ_plain ctx r with ⟨i, hi⟩ | ⟨n, hn⟩
        · rw [hi] at hc' hk
          obtain ⟨w, hw⟩ := hk
          simp [envStorage, envWrite, hw] at hc'
          rw [← hc']; exact ⟨by simpa [Env.setTop] using hN, by simpa [Env.setTop] using hG⟩
        · rw [hn] at hc' hk
          obtain ⟨w, hw⟩ := hk
          simp [envStorage, envWrite, hw] at hc'
          rw [← hc']; exact ⟨by simpa [Env.setTop] using hN, by simpa [Env.setTop] using hG⟩
  · intro ctx hc k hi hhi env s h
    exact ⟨brel_enter argπ offFrame_argπ ctx hc k hi hhi env s h.1, h.2.1, h.2.2⟩
  · intro ctx o k env s h
    exact ⟨brel_exit argπ ctx o k env s h.1, h.2.1, h.2.2⟩

theorem byref_block_sim (X : Ext F) (π : Nat → Ref) (hπ : NoAlias π) (n k : Nat) (body : SStmt F)
    (hws : body.WS [(0, k)]) (garbage : Nat → Cell F)
    (env : Env F) (σ : Store F) (tr : List (Val F)) (h : Holds π env σ) (hnil : ∀ i, n ≤ i → σ i = .nil) :
    match srun X (.blk k body) ((σ, []), tr) with
    | .ok (st', tr') => ∃ env',
        evalCallByRefBlk X ((List.range n).map π) (compileTop argπ k body) garbage env tr = .ok (env', tr') ∧
        (∀ i, i < n → Good env' (π i) (st'.1 i)) ∧ (∀ i, n ≤ i → Good env' (π i) (σ i))
    | .error err =>
        evalCallByRefBlk X ((List.range n).map π) (compileTop argπ k body) garbage env tr = .error err := by
  obtain ⟨e1, hp, hh1⟩ := pushArgs_holds π hπ σ (List.range n) env h
  let callee : Env F :=
    { named := e1.named, gbl := e1.gbl, lcl := garbage,
      arg := fun i => .sc (((List.range n).map σ).getD i .nil) }
  have hrel : BRelA e1.named e1.gbl [] callee (σ, []) := by
    refine ⟨⟨rfl, fun r hr => ?_⟩, rfl, rfl⟩
    cases r with
    | loc up idx => obtain ⟨o, k', hk, _⟩ := hr; simp at hk
    | oth i =>
      have ha : callee.arg i = .sc (σ i) := by
        show Cell.sc (((List.range n).map σ).getD i .nil) = _
        rw [getD_map_range σ n i hnil]
      simp [resolve, den, Good, argπ, Env.peek, Kinded, Env.top, ha]
  have sim := block_top_sim_gen X argπ (blockRel_A X e1.named e1.gbl) k body hws callee σ tr hrel
  cases hres : srun X (.blk k body) ((σ, []), tr) with
  | error err =>
    rw [hres] at sim
    simp only [SimS] at sim
    unfold evalCallByRefBlk
    rw [hp]
    simp only [ok_bind]
    rw [show run X (compileTop argπ k body) _ = _ from sim]
    rfl
  | ok p =>
    obtain ⟨st', tr'⟩ := p
    rw [hres] at sim
    simp only [SimS] at sim
    obtain ⟨c', hc, ⟨hb', hN, hG⟩⟩ := sim
    have hA : ∀ i, c'.arg i = .sc (st'.1 i) := fun i => arg_of_good c' i (st'.1 i) (hb'.2 (.oth i) trivial)
    obtain ⟨e2, cb, g1, g2⟩ := copyBackAll_holds X.flexmap π hπ σ st'.1 c'.arg hA n 0 e1
      (fun i hi => absurd hi (Nat.not_lt_zero i)) (fun i _ => hh1 i)
    have hback : ({ named := c'.named, gbl := c'.gbl, lcl := e1.lcl, arg := e1.arg } : Env F) = e1 := by
      rw [hN, hG]
    refine ⟨e2, ?_, fun i hi => g1 i (by omega), fun i hi => g2 i (by omega)⟩
    rw [← List.range_eq_range'] at cb
    unfold evalCallByRefBlk
    rw [hp]
    simp only [ok_bind]
    rw [show run X (compileTop argπ k body) _ = _ from hc]
    simp only [ok_bind]
    rw [hback, cb]
    rfl

end Hawk.Expr
