import HawkModel.Props.C04
import HawkModel.Props.C15
import HawkModel.ReadIoStack
/-!
# C04, the layers below `rio.c`: bytes → characters → records

`std.c:hawk_rio_console` READ asks `hawk_sio_getoochars (sio, buf, size)` (= `hawk_tio_readuchars`, `size` = the 2048
characters of `hawk_rio_arg_t.in.u.buf`) once per call of the handler; tio decodes the bytes that `read(2)` delivered in
whatever pieces, through its own staging buffer, keeping an incomplete multi-byte sequence at the end of a piece for the
next one.  READ_BYTES / `getbline` asks `hawk_sio_getbchars` (= `hawk_tio_readbchars`).

The tio model and its chunk-independence theorem are C15's (`HawkModel/Tio.lean`, `Props/C15.lean`); the record reader
is C04's (`HawkModel/ReadIo.lean`).  Here the two are composed: `tioChunks` (`HawkModel/ReadIoStack.lean`, run by the driver
for the kinds that read through std.c) is the sequence of chunks the handler returns
to `hawk_rtx_readio` - each one the result of one `hawk_tio_readuchars` - and the theorems say that the records read
through both layers are the records of the decoded text, for **every** partition of the bytes into reads, every
capacity of tio's staging buffer that holds one character, and every request size (2048 in the C) - so in particular
with a multi-byte sequence split by a read boundary and with a record, a separator or a CR LF pair lying across the
2048-character edge.
-/
namespace Hawk.ReadIo
open Hawk.Gen Hawk.Utf8

/-- the chunks, joined, are what C15's caller loop collects; and none is empty -/
theorem tioChunks_spec (cfg : Tio.Cfg) (size : Nat) :
    ∀ (n : Nat) (st : Tio.InSt), Tio.pending st = n →
      ((tioChunks cfg size st).1.flatten, (tioChunks cfg size st).2) = Tio.readAll cfg size st ∧
      ∀ c ∈ (tioChunks cfg size st).1, c ≠ [] := by
  intro n
  induction n using Nat.strongRecOn with
  | ind n ih =>
    intro st hn
    rw [tioChunks, Tio.readAll]
    rcases hr : Tio.readUchars cfg size st with ⟨st', r⟩
    cases r with
    | n out =>
      cases out with
      | nil => simp
      | cons o out =>
        simp only
        by_cases h : Tio.pending st' < Tio.pending st
        · simp only [h, dite_true]
          obtain ⟨i1, i2⟩ := ih (Tio.pending st') (by omega) st' rfl
          constructor
          · rw [← i1]; simp
          · intro c hc
            simp only [List.mem_cons] at hc
            rcases hc with hc | hc
            · subst hc; simp
            · exact i2 c hc
        · simp [h]
    | err e => simp
    | fault f => simp

theorem tioByteChunks_spec (cfg : Tio.Cfg) (size : Nat) :
    ∀ (n : Nat) (st : Tio.InSt), Tio.pending st = n →
      ((tioByteChunks cfg size st).1.flatten, (tioByteChunks cfg size st).2) = Tio.readAllBytes cfg size st ∧
      ∀ c ∈ (tioByteChunks cfg size st).1, c ≠ [] := by
  intro n
  induction n using Nat.strongRecOn with
  | ind n ih =>
    intro st hn
    rw [tioByteChunks, Tio.readAllBytes]
    rcases hr : Tio.readBchars cfg size st with ⟨st', out⟩
    cases out with
    | nil => simp
    | cons o out =>
      simp only
      by_cases h : Tio.pending st' < Tio.pending st
      · simp only [h, dite_true]
        obtain ⟨i1, i2⟩ := ih (Tio.pending st') (by omega) st' rfl
        constructor
        · rw [← i1]; simp
        · intro c hc
          simp only [List.mem_cons] at hc
          rcases hc with hc | hc
          · subst hc; simp
          · exact i2 c hc
      · simp [h]

theorem flatten_map_toChars (L : List (List Nat)) : (L.map toChars).flatten = toChars L.flatten := by
  show (L.map (List.map Char.ofNat)).flatten = L.flatten.map Char.ofNat
  rw [List.map_flatten]

theorem flatten_map_byteUnits (L : List (List UInt8)) : (L.map byteUnits).flatten = byteUnits L.flatten := by
  show (L.map (List.map fun b => Char.ofNat b.toNat)).flatten = L.flatten.map fun b => Char.ofNat b.toNat
  rw [List.map_flatten]

theorem noEmpty_map {α : Type} (f : List α → List Char) (hf : ∀ l, l ≠ [] → f l ≠ []) (L : List (List α))
    (h : ∀ c ∈ L, c ≠ []) : NoEmpty (L.map f) := by
  intro c hc
  simp only [List.mem_map] at hc
  obtain ⟨l, hl, rfl⟩ := hc
  exact hf l (h l hl)

/-- **Bytes → characters → records, for all partitions of the bytes.**  A text of 16-bit characters, encoded by a
character manager that satisfies `CodecOk` (utf8, utf16, mb8: `Hawk.C15.managers_ok`), arrives in any pieces (none empty:
an empty `read(2)` is the end of the file); tio's staging buffer has any capacity that holds one character; the console
handler asks for any number `size ≥ 1` of characters per READ (2048 in the C).  In newline, single-character and
paragraph mode the records `hawk_rtx_readio` produces from what the handler returns are the records of the text. -/
theorem records_from_bytes_chunk_independent {cm : Cmgr} {dom : Nat → Prop} {maxlen : Nat} (hok : CodecOk cm dom maxlen)
    (mode : Mode) (hm : mode.isAuto) (cfg : Tio.Cfg) (hT : cfg.cm = cm) (hl : cfg.legacy = false) (hc : maxlen ≤ cfg.capa)
    (size : Nat) (hs : 1 ≤ size) (cs : List Nat) (hb : Dom dom cs) (chunks : List (List UInt8))
    (hne : ∀ c ∈ chunks, c ≠ []) (hj : chunks.flatten = encodeAllC cm cs) :
    (tioChunks cfg size (Tio.start chunks)).2 = .eof ∧
    readAll mode {} ((tioChunks cfg size (Tio.start chunks)).1.map toChars) = specAll mode (toChars cs) := by
  obtain ⟨h1, h2⟩ := tioChunks_spec cfg size _ (Tio.start chunks) rfl
  have h3 := Hawk.C15.tio_read_chunk_independent hok cfg hT hl hc size hs cs hb chunks hne hj
  rw [h3] at h1
  simp only [Prod.mk.injEq] at h1
  refine ⟨h1.2, ?_⟩
  rw [records_chunk_independent mode hm _ (noEmpty_map toChars (by intro l hl; simpa [toChars] using hl) _ h2)]
  rw [flatten_map_toChars, h1.1]

/-- two ways the same bytes can arrive (different `read(2)` boundaries, staging capacities, request sizes) give the same
records -/
theorem records_from_bytes_same_for_all_schedules {cm : Cmgr} {dom : Nat → Prop} {maxlen : Nat} (hok : CodecOk cm dom maxlen)
    (mode : Mode) (hm : mode.isAuto) (cfg₁ cfg₂ : Tio.Cfg)
    (h₁ : cfg₁.cm = cm ∧ cfg₁.legacy = false ∧ maxlen ≤ cfg₁.capa) (h₂ : cfg₂.cm = cm ∧ cfg₂.legacy = false ∧ maxlen ≤ cfg₂.capa)
    (size₁ size₂ : Nat) (hs₁ : 1 ≤ size₁) (hs₂ : 1 ≤ size₂) (cs : List Nat) (hb : Dom dom cs)
    (ch₁ ch₂ : List (List UInt8)) (hne₁ : ∀ c ∈ ch₁, c ≠ []) (hne₂ : ∀ c ∈ ch₂, c ≠ [])
    (hj₁ : ch₁.flatten = encodeAllC cm cs) (hj₂ : ch₂.flatten = ch₁.flatten) :
    readAll mode {} ((tioChunks cfg₁ size₁ (Tio.start ch₁)).1.map toChars) =
      readAll mode {} ((tioChunks cfg₂ size₂ (Tio.start ch₂)).1.map toChars) := by
  rw [(records_from_bytes_chunk_independent hok mode hm cfg₁ h₁.1 h₁.2.1 h₁.2.2 size₁ hs₁ cs hb ch₁ hne₁ hj₁).2,
    (records_from_bytes_chunk_independent hok mode hm cfg₂ h₂.1 h₂.2.1 h₂.2.2 size₂ hs₂ cs hb ch₂ hne₂ (hj₂.trans hj₁)).2]

/-- the same with a `Stable` regex RS (missing: unstable matchers, `unstable_counterexample`) -/
theorem records_from_bytes_chunk_independent_regex_partial {cm : Cmgr} {dom : Nat → Prop} {maxlen : Nat}
    (hok : CodecOk cm dom maxlen) (m : Matcher) (hS : Stable m) (cfg : Tio.Cfg) (hT : cfg.cm = cm) (hl : cfg.legacy = false)
    (hc : maxlen ≤ cfg.capa) (size : Nat) (hs : 1 ≤ size) (cs : List Nat) (hb : Dom dom cs) (chunks : List (List UInt8))
    (hne : ∀ c ∈ chunks, c ≠ []) (hj : chunks.flatten = encodeAllC cm cs) :
    readAll (.regex m) {} ((tioChunks cfg size (Tio.start chunks)).1.map toChars) = specAll (.regex m) (toChars cs) := by
  obtain ⟨h1, h2⟩ := tioChunks_spec cfg size _ (Tio.start chunks) rfl
  have h3 := Hawk.C15.tio_read_chunk_independent hok cfg hT hl hc size hs cs hb chunks hne hj
  rw [h3] at h1
  simp only [Prod.mk.injEq] at h1
  rw [records_chunk_independent_regex_partial m hS _ (noEmpty_map toChars (by intro l hl; simpa [toChars] using hl) _ h2)]
  rw [flatten_map_toChars, h1.1]

/-- **The byte reader (`getbline`) through `hawk_tio_readbchars`**: arbitrary bytes - valid text or not -, any partition,
any capacity ≥ 1, any request size ≥ 1: the records are those of the bytes. -/
theorem byte_records_chunk_independent (mode : Mode) (hm : mode.isAuto) (cfg : Tio.Cfg) (hc : 1 ≤ cfg.capa)
    (size : Nat) (hs : 1 ≤ size) (chunks : List (List UInt8)) (hne : ∀ c ∈ chunks, c ≠ []) :
    (tioByteChunks cfg size (Tio.start chunks)).2 = true ∧
    readAll mode {} ((tioByteChunks cfg size (Tio.start chunks)).1.map byteUnits) = specAll mode (byteUnits chunks.flatten) := by
  obtain ⟨h1, h2⟩ := tioByteChunks_spec cfg size _ (Tio.start chunks) rfl
  have h3 := Hawk.C15.tio_read_bytes_identity cfg hc size hs chunks hne
  rw [h3] at h1
  simp only [Prod.mk.injEq] at h1
  refine ⟨h1.2, ?_⟩
  rw [records_chunk_independent mode hm _ (noEmpty_map byteUnits (by intro l hl; simpa [byteUnits] using hl) _ h2)]
  rw [flatten_map_byteUnits, h1.1]

/-- **Several files through all layers**: every file a byte string arriving in its own pieces; the program sees the
records of each file's text with NR, FNR, FILENAME as `specChain` says - the end of a file ends the record whatever
the last `read(2)` of the file held. -/
theorem console_from_bytes_eq_spec {cm : Cmgr} {dom : Nat → Prop} {maxlen : Nat} (hok : CodecOk cm dom maxlen)
    (mode : Mode) (hm : mode.isAuto) (cfg : Tio.Cfg) (hT : cfg.cm = cm) (hl : cfg.legacy = false) (hc : maxlen ≤ cfg.capa)
    (size : Nat) (hs : 1 ≤ size)
    (files : List (String × List Nat × List (List UInt8)))
    (hfiles : ∀ f ∈ files, Dom dom f.2.1 ∧ (∀ c ∈ f.2.2, c ≠ []) ∧ f.2.2.flatten = encodeAllC cm f.2.1)
    (hne : files ≠ []) :
    runConsole mode (openConsole [] (files.map fun f => (f.1, (tioChunks cfg size (Tio.start f.2.2)).1.map toChars))) =
      specChain mode 0 (files.map fun f => (f.1, toChars f.2.1)) := by
  cases files with
  | nil => exact absurd rfl hne
  | cons f fs =>
    simp only [List.map_cons]
    rw [console_records_eq_spec mode hm]
    congr 1
    have key : ∀ g ∈ f :: fs, (delivered ((tioChunks cfg size (Tio.start g.2.2)).1.map toChars)) = toChars g.2.1 := by
      intro g hg
      obtain ⟨gb, gne, gj⟩ := hfiles g hg
      obtain ⟨h1, h2⟩ := tioChunks_spec cfg size _ (Tio.start g.2.2) rfl
      have h3 := Hawk.C15.tio_read_chunk_independent hok cfg hT hl hc size hs g.2.1 gb g.2.2 gne gj
      rw [h3] at h1
      simp only [Prod.mk.injEq] at h1
      rw [delivered_of_noEmpty (noEmpty_map toChars (by intro l hl; simpa [toChars] using hl) _ h2), flatten_map_toChars, h1.1]
    simp only [fileChars, List.map_cons, List.map_map]
    rw [key f (by simp)]
    congr 1
    apply List.map_congr_left
    intro g hg
    simp only [Function.comp]
    rw [key g (by simp [hg])]

/-- non-vacuity: `é\n` (c3 a9 0a) delivered as c3 | a9 0a - the sequence split by the read boundary - through a
three-byte staging buffer, one character asked for per READ: the hypotheses are satisfied and the record is `é` -/
example :
    readAll .dflt {} ((tioChunks { capa := 3 } 1 (Tio.start [[0xC3], [0xA9, 0x0A]])).1.map toChars) =
      specAll .dflt (toChars [0xE9, 0x0A]) :=
  (records_from_bytes_chunk_independent Hawk.C15.managers_ok.1 .dflt rfl { capa := 3 } rfl rfl (by decide) 1 (by decide)
    [0xE9, 0x0A] (by intro c hc; simp at hc; rcases hc with rfl | rfl <;> decide) [[0xC3], [0xA9, 0x0A]] (by decide) (by decide)).2

end Hawk.ReadIo
