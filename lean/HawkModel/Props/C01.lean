import HawkModel.CrashLemmas
import HawkModel.CrashTables
/-!
# C01 — No script or input can crash or wedge the embedding process  (PARTIAL by design, see DESIGN.md §5 C01)

What is proved here: the *guards* at the crash-prone sites named in the property anchors are sufficient, for all
operand values, and the facts about the C text they rest on are re-extracted from the working tree on every check
(`extract/fnc_dispatch.py`, `loops.py`, `div_sites.py`, `flag_sites.py`, `stack_sites.py`, and since round 5 `arg_sites.py`,
`switch_sites.py`, `subscript_sites.py`, `retry_sites.py` over the dominating-facts walker `c01_paths.py` → `HawkModel/Gen/*.lean`;
criteria and their soundness lemmas for the round-5 tables are in `HawkModel/CrashTables.lean`).  Memory safety of
the interpreter as a whole is NOT proved: it is exhibited by the sanitizer campaign of `vlib/props/c01.py`
(sampling).  The evidence file separates the two (`obligations/discharged` vs `evaluations`).

Model totality: every function of `HawkModel/Crash.lean` is a total Lean definition (no `partial def`, no fuel);
the only non-structural recursion, `powLoop`, is accepted with the measure `e` — so "spins inside one statement" is
impossible for the modelled operations, and `pow_loop_bounded` gives the explicit bound.

Round 5 adds: `arg_index_below_arity`, `subscripts_in_range`, `retry_measure_decreases`, `fmt_number_scan_bounded` (model of the
repaired fmt.c digit loop; needs patches/c01-fmt-width-precision-overflow.diff), `switch_total`.

Trusted (not proved): a builtin is never entered with fewer arguments than the minimum of its function-table entry (parse.c /
run.c check the spec); "dominated by a comparison" is syntactic (c01_paths.py); an argument declared `r`/`R` in a builtin's argument spec arrives as a HAWK_VAL_REF
(`run.c` `__eval_call`/`get_reference`); the translators; `valtoint`/`valtonum` return in-range integers.
-/
namespace Hawk.Crash
open Hawk.Gen

/-! ## failures carry a non-zero error number -/
/-- HAWK_ENOERR is 0; no model failure maps to it -/
theorem err_num_ne_zero (e : Err) : e.num ≠ 0 := by cases e <;> decide

/-! ## tagged values are type-tested before they are dereferenced as a concrete value struct -/

/-- For every cast `(hawk_val_X_t*)v` in lib/fnc.c, lib/mod-str.c, lib/mod-hawk.c (one table row each), every type
    tag under which control reaches the cast denotes a heap object of exactly that struct.  A row reached under a
    CHAR/BCHR/INT tag (immediate value encoded in the pointer bits) or under another struct's tag makes this false. -/
theorem tagged_value_dispatch : ∀ r ∈ FncDispatch.rows, rowOk r = true := by decide

/-- the shape of the repaired defect is rejected by the criterion: a BCHR immediate cast to hawk_val_mbs_t* -/
example : rowOk ⟨"fnc.c", "index_or_rindex", 578, .mbs, "a0", "guard", [.bchr_, .mbs_]⟩ = false := by decide
example : FncDispatch.rows.length ≥ 20 := by decide
example : (FncDispatch.rows.filter fun r => r.via == "guard").length ≥ 10 := by decide

/-- immediates never look like object pointers: the type test `HAWK_GET_VAL_TYPE` decides INT/CHAR/BCHR from the
    word alone, without reading `v_type` through it (the `heap` argument is ignored), for every encodable value -/
theorem immediates_decided_without_deref (h h' : FncDispatch.Tag) :
    (∀ i : Int, Vtr.getValType (Vtr.encodeInt i) h = .int_ ∧ Vtr.getValType (Vtr.encodeInt i) h' = .int_) ∧
    (∀ c : Nat, Vtr.getValType (Vtr.encodeChar c) h = .char_) ∧
    (∀ b : Nat, Vtr.getValType (Vtr.encodeBchr b) h = .bchr_) ∧
    (∀ w : Nat, w % 4 = 0 → Vtr.getValType w h = h) := by
  refine ⟨fun i => ?_, fun c => ?_, fun b => ?_, fun w hw => ?_⟩
  · simp [Vtr.getValType, Vtr.typeBits_encodeInt]
  · simp [Vtr.getValType, Vtr.typeBits_encodeChar]
  · simp [Vtr.getValType, Vtr.typeBits_encodeBchr]
  · simp [Vtr.getValType, Vtr.typeBits_aligned w hw]

/-- small integers survive the pointer encoding -/
theorem vtr_int_roundtrip (i : Int) (h : -Vtr.INTMAX ≤ i ∧ i ≤ Vtr.INTMAX) : Vtr.decodeInt (Vtr.encodeInt i) = i :=
  Vtr.decode_encode i h

/-! ## IGNORECASE indexes the two-element arrays in range -/

/-- every value any store into `rtx->gbl.ignorecase` can write (table `FlagSites.writes`, for every number the
    script can assign: any integer, any float incl. NaN) is a valid index of every array that is indexed by the
    flag (table `FlagSites.uses`: gbl.fs[], gbl.rs[], hawk_val_rex_t.code[]) -/
theorem flag_index_range :
    ∀ w ∈ FlagSites.writes, ∀ u ∈ FlagSites.uses, ∀ v : Num, IndexOk (storeValue w.shape v) u.len := by
  have key : ∀ w ∈ FlagSites.writes, ∀ u ∈ FlagSites.uses, ∀ x ∈ storedValues w.shape, IndexOk x u.len := by decide
  intro w hw u hu v
  exact key w hw u hu _ (storeValue_mem w.shape v)

/-- hence after any history of stores (the first one is `init_rtx`'s) the flag is a valid index everywhere -/
theorem flag_index_range_reachable (hist : List (FlagSites.Write × Num)) (hne : hist ≠ [])
    (hall : ∀ p ∈ hist, p.1 ∈ FlagSites.writes) :
    ∀ u ∈ FlagSites.uses, IndexOk (storeValue (hist.getLast hne).1.shape (hist.getLast hne).2) u.len := by
  intro u hu
  exact flag_index_range _ (hall _ (List.getLast_mem hne)) u hu _

/-- the unrepaired computation `(l > 0)? 1: (l < 0)? -1: 0` is rejected: -1 is not an index -/
example : ¬ IndexOk (storeValue .intSign (.int (-1))) 2 := by decide
example : FlagSites.uses.length ≥ 4 ∧ FlagSites.writes.length ≥ 3 := by decide

/-! ## integer division and remainder never reach the machine operation with a trapping operand pair -/

/-- (1) every `/` and `%` on hawk_int_t operands in `eval_binop_*` (run.c) and `fold_constants_for_binop` (parse.c)
    is dominated by facts that exclude a zero divisor and the pair (INT_MIN, −1): the syntactic criterion holds on
    every extracted row, and the criterion is sound for all operand values;
    (2) the transcribed evaluators and folder never trap, for all operand values. -/
theorem div_guards :
    (∀ r ∈ DivSites.rows, r.script = true → guardsOk r.facts = true) ∧
    (∀ (fs : List DivSites.Fact) (n d : Int), guardsOk fs = true → (∀ f ∈ fs, factHolds n d f = true) →
        (machDiv n d).isSome ∧ (machMod n d).isSome) ∧
    (∀ l1 l2 : Int, evalDiv l1 l2 ≠ .trap ∧ evalIdiv l1 l2 ≠ .trap ∧ evalMod l1 l2 ≠ .trap ∧
        foldDiv l1 l2 ≠ .trap ∧ foldIdiv l1 l2 ≠ .trap ∧ foldMod l1 l2 ≠ .trap) := by
  refine ⟨by decide, ?_, ?_⟩
  · intro fs n d hg hh
    have := guardsOk_sound hg hh
    exact ⟨(machDiv_isSome_iff n d).2 this, (machMod_isSome_iff n d).2 this⟩
  · intro l1 l2
    exact ⟨evalDiv_ne_trap _ _, evalIdiv_ne_trap _ _, evalMod_ne_trap _ _,
           foldDiv_ne_trap _ _, foldIdiv_ne_trap _ _, foldMod_ne_trap _ _⟩

/-- a zero divisor is reported as an error with a non-zero number, at run time and in the folder -/
theorem div_by_zero_is_error (l : Int) :
    evalDiv l 0 = .err .divby0 ∧ evalIdiv l 0 = .err .divby0 ∧ evalMod l 0 = .err .divby0 ∧
    foldDiv l 0 = .err .divby0 ∧ foldIdiv l 0 = .err .divby0 ∧ foldMod l 0 = .err .divby0 := by
  simp [evalDiv, evalIdiv, evalMod, foldDiv, foldIdiv, foldMod]

/-- folding an integer division gives what evaluating it gives -/
theorem fold_matches_eval (l r : Int) :
    foldDiv l r = evalDiv l r ∧ foldIdiv l r = evalIdiv l r ∧ foldMod l r = evalMod l r :=
  ⟨foldDiv_eq_evalDiv l r, foldIdiv_eq_evalIdiv l r, foldMod_eq_evalMod l r⟩

/-- non-vacuity: the machine operation really traps on the two excluded pairs, and the criterion rejects an
    unguarded row and a row guarded against zero only (the state of the code before the repair) -/
example : machDiv 1 0 = none ∧ machMod INT_MIN (-1) = none ∧ machDiv INT_MIN (-1) = none := by decide
example : guardsOk [] = false ∧ guardsOk [⟨false, [.dEq 0]⟩] = false := by decide
example : (DivSites.rows.filter (·.script)).length ≥ 8 := by decide
example : evalDiv INT_MIN (-1) = .flt INT_MIN (-1) ∧ evalIdiv INT_MIN (-1) = .int INT_MIN ∧ evalMod INT_MIN (-1) = .int 0 := by
  decide

/-! ## substr / index / rindex / match: the region handed on lies inside the subject -/

/-- for every subject length (below 2^63, as any allocated string is), every start/boundary/count the script can
    pass (any in-range integer, or absent), the (offset, length) region handed to the copier (substr), the finder
    (index/rindex) or the matcher (match) satisfies `offset + length ≤ subject length`; offsets are non-negative -/
theorem index_bounds (len : Nat) (hl : Int.ofNat len ≤ INT_MAX) :
    (∀ (lindex : Int) (lcount : Option Int),
        0 ≤ (substrRegion len lindex lcount).1 ∧ 0 ≤ (substrRegion len lindex lcount).2 ∧
        (substrRegion len lindex lcount).1 + (substrRegion len lindex lcount).2 ≤ Int.ofNat len) ∧
    (∀ (b : Option Int) (rindex : Bool), (∀ x, b = some x → InRange x) →
        ∀ off n, indexRegion len b rindex = some (off, n) → off + n ≤ len) ∧
    (∀ start : Int, InRange start → ∀ off n, matchRegion len start = some (off, n) → off + n ≤ len) :=
  ⟨fun lindex lcount => substrRegion_bounds len lindex lcount hl,
   fun b rindex hb => indexRegion_bounds len b rindex hb,
   fun start hs => matchRegion_bounds len start hs⟩

/-- non-vacuity: regions are produced and the clamps are exercised -/
example : substrRegion 5 0 (some 2) = (0, 2) ∧ substrRegion 5 4 none = (3, 2) ∧ substrRegion 5 100 (some 3) = (5, 0)
    ∧ substrRegion 5 (-7) (some (-1)) = (0, 0) := by decide
example : indexRegion 6 none false = some (0, 6) ∧ indexRegion 6 (some 3) false = some (2, 4)
    ∧ indexRegion 6 (some (-2)) true = some (0, 5) ∧ indexRegion 6 (some 7) false = none
    ∧ indexRegion 6 (some (-9)) false = none := by decide
example : matchRegion 3 1 = some (0, 3) ∧ matchRegion 3 4 = some (3, 0) ∧ matchRegion 3 5 = none
    ∧ matchRegion 3 (-1) = some (2, 1) ∧ matchRegion 3 (-10) = none := by decide

/-! ## every unbounded loop polls the halt request once per iteration -/

set_option maxRecDepth 100000 in
/-- every loop of run.c / fnc.c / mod-str.c / mod-hawk.c / mod-math.c / val.c / rec.c / misc.c whose iteration
    count is decided by script control flow (`script`) or by a script-supplied number (`count`) passes a halt poll
    point (ON_STATEMENT, run_statement(), or a loop condition on rtx->exit_level) on every iteration -/
theorem halt_polled : ∀ r ∈ Loops.rows, (r.cls = .script ∨ r.cls = .count) → r.polled = true := by decide

set_option maxRecDepth 100000 in
/-- the only `while (1)`-shaped loops that evaluate no script code are the four grow-and-retry loops of the
    printf engine (hawk_rtx_format / hawk_rtx_formatmbs; termination is C12's concern) -/
theorem retry_loops_known : ∀ r ∈ Loops.rows, r.cls = .retry →
    r.file = "run.c" ∧ (r.fn = "hawk_rtx_format" ∨ r.fn = "hawk_rtx_formatmbs") := by decide

example : (Loops.rows.filter fun r => r.cls == .script).length ≥ 4 := by decide
example : ∃ r ∈ Loops.rows, r.fn = "run_while" ∧ r.cls = .script ∧ r.polled = true := by decide

/-- integer exponentiation: the square-and-multiply loop of `pow_int_by_uint` runs at most 64 times for any 64-bit
    exponent and computes `base ^ exp` modulo 2^64 — what repeated multiplication in hawk_uint_t gives -/
theorem pow_loop_bounded (b e : Nat) (he : e < 2 ^ 64) :
    (powLoop 1 b e).2 ≤ 64 ∧ (powLoop 1 b e).1 % M64 = b ^ e % M64 := by
  refine ⟨powLoop_iters 64 1 b e he, ?_⟩
  have := powLoop_val e 1 b
  simpa using this

/-! ## pushes onto the run-time stack stay inside the reserved room -/

set_option maxRecDepth 100000 in
/-- every HAWK_RTX_STACK_PUSH of run.c (an unchecked store into rtx->stack) follows an availability test whose reservation
    has one of the accepted shapes (`stackRowOk`), and for the call frame the reservation is sufficient for every
    combination of named-parameter and actual-argument counts — variadic functions included, since the padding loop does
    not look at `fun->variadic` either -/
theorem stack_reserved :
    (∀ r ∈ StackSites.rows, stackRowOk r = true) ∧ (∀ funN callN : Nat, evalcallPushes funN callN ≤ evalcallReserve funN callN) := by
  refine ⟨by decide, ?_⟩
  intro f c
  unfold evalcallPushes evalcallReserve
  split <;> omega

/-- a reservation that leaves out the padding for some functions is rejected, and would be insufficient -/
example : stackRowOk ⟨"hawk_rtx_evalcall", 1, "stack_req", 0, "(4+call->nargs)",
    [⟨["!fun->variadic", "(fun->nargs>call->nargs)", "fun"], "(fun->nargs-call->nargs)"⟩], 4, [⟨"padto", "fun->nargs", ["fun"]⟩]⟩ = false := by decide
example : ¬ (4 + 1 + (7 - 1) ≤ 4 + 1 + 0) := by decide
example : StackSites.rows.length ≥ 5 := by decide

/-! ## argument indices of the builtins stay below the arity their function-table entry guarantees -/

set_option maxRecDepth 100000 in
/-- (1) every `hawk_rtx_getarg(rtx, I)` of lib/fnc.c, mod-str.c, mod-hawk.c, mod-math.c (table `ArgSites.rows`, regenerated
    from the sources) has its index below the number of arguments known present at the site: the minimum argument count
    of the function-table entries that reach the function (`ArgSites.specs`, same run), or a dominating comparison of
    the actual count (`if (nargs >= 3)`, `for (i = 0; i < nargs; i++)`, `(++i >= nargs)? nil : …`);
    (2) every function-table entry is consistent (min ≤ max);
    (3) the criterion is sound: the cell read lies inside the frame of the call for every frame base, actual count and
    run-time offset that satisfy the spec and the dominating comparison. -/
theorem arg_index_below_arity :
    (∀ r ∈ ArgSites.rows, argRowOk r = true) ∧
    (∀ s ∈ ArgSites.specs, s.min ≤ s.max) ∧
    (∀ r ∈ ArgSites.rows, ∀ base nargs x : Nat, (r.sym = "" → x = 0 ∧ r.specMin ≤ nargs) →
        (0 < r.pathMin → r.pathMin + x ≤ nargs) → argCell base (r.idx + x) < argEnd base nargs) := by
  have h1 : ∀ r ∈ ArgSites.rows, argRowOk r = true := by decide
  refine ⟨h1, by decide, ?_⟩
  intro r hr base nargs x hs hp
  exact argRowOk_sound r (h1 r hr) base nargs x hs hp

/-- non-vacuity: the third argument read without looking at the count is rejected when the spec promises two (the shape
    `a2 = hawk_rtx_getarg(rtx, 2)` in a {2,3} builtin), accepted under `nargs >= 3`; the tables are populated -/
example : argRowOk ⟨"fnc.c", "hawk_fnc_substr", 764, "2", 2, "", 2, 0⟩ = false
    ∧ argRowOk ⟨"fnc.c", "hawk_fnc_substr", 764, "2", 2, "", 2, 3⟩ = true
    ∧ argRowOk ⟨"mod-hawk.c", "fnc_map", 381, "i", 0, "i", 0, 0⟩ = false := by decide
set_option maxRecDepth 100000 in
example : ArgSites.rows.length ≥ 60 ∧ ArgSites.specs.length ≥ 100 := by decide
set_option maxRecDepth 100000 in
example : (ArgSites.rows.filter fun r => r.sym != "").length ≥ 4 ∧ (ArgSites.rows.filter fun r => r.specMin < r.pathMin).length ≥ 10 := by decide

/-! ## subscripts into arrays of declared length stay inside them -/

/-- the functions that contain a subscript the translator cannot bound syntactically (count-down loops over a table, free-list
    slots `cache[--count]`, the dispatch tables indexed by a node type / opcode stored in a bit-field, the input buffer
    position `buf[pos++]` bounded by `len`, gc generations): the campaign's sanitizer is what covers these.  A new
    unclassified subscript in any other function breaks `subscripts_in_range`. -/
def openSubscriptFunctions : List (String × String) := [
  ("mod-hawk.c", "fnc_gc_get_pressure"),
  ("mod-hawk.c", "fnc_gc_get_threshold"),
  ("mod-hawk.c", "fnc_gc_set_threshold"),
  ("parse.c", "adjust_static_globals"),
  ("parse.c", "assign_to_opcode"),
  ("parse.c", "classify_ident"),
  ("parse.c", "flush_out"),
  ("parse.c", "get_char"),
  ("parse.c", "hawk_initgbls"),
  ("parse.c", "parse_primary_ident"),
  ("parse.c", "put_char"),
  ("parse.c", "query_module"),
  ("parse.c", "unget_char"),
  ("rio.c", "find_rio_in"),
  ("rio.c", "hawk_rtx_clearallios"),
  ("rio.c", "hawk_rtx_closeio"),
  ("rio.c", "hawk_rtx_closio_read"),
  ("rio.c", "hawk_rtx_closio_write"),
  ("rio.c", "hawk_rtx_flushallios"),
  ("rio.c", "hawk_rtx_flushio"),
  ("rio.c", "hawk_rtx_nextio_read"),
  ("rio.c", "hawk_rtx_nextio_write"),
  ("rio.c", "hawk_rtx_readio"),
  ("rio.c", "hawk_rtx_readiobytes"),
  ("rio.c", "prepare_for_write_io_data"),
  ("run.c", "__cmp_val"),
  ("run.c", "defaultify_globals"),
  ("run.c", "eval_assignment"),
  ("run.c", "eval_binary"),
  ("run.c", "eval_expression0"),
  ("run.c", "fini_rtx"),
  ("run.c", "hawk_rtx_format"),
  ("run.c", "hawk_rtx_formatmbs"),
  ("run.c", "hawk_rtx_open"),
  ("run.c", "init_rtx"),
  ("tree.c", "print_expr"),
  ("val.c", "gc_collect_garbage_auto"),
  ("val.c", "gc_collect_garbage_in_generation"),
  ("val.c", "hawk_get_val_type_name"),
  ("val.c", "hawk_rtx_freevalbcstr"),
  ("val.c", "hawk_rtx_freevaloocstr"),
  ("val.c", "hawk_rtx_getvalbcstrwithcmgr"),
  ("val.c", "hawk_rtx_getvaloocstrwithcmgr"),
  ("val.c", "hawk_rtx_getvaltypename"),
  ("val.c", "hawk_rtx_makefltval"),
  ("val.c", "hawk_rtx_makeintval"),
  ("val.c", "hawk_rtx_makerefval"),
  ("val.c", "make_mbs_val"),
  ("val.c", "make_str_val")]

set_option maxRecDepth 1000000 in
/-- (1) every subscript into an array of declared length in run.c / fnc.c / val.c / rec.c / rio.c / misc.c / parse.c / tree.c /
    mod-str.c / mod-hawk.c (table `SubscriptSites.rows`, regenerated) that the translator classifies — a constant index, a 0/1
    index (the IGNORECASE flag, a comparison), an index dominated by `i < h` / `i mod h` / `i & (h-1)`, an index of an enum
    type with h proper values — satisfies the bound of its class;
    (2) the unclassified ones lie in the listed functions only;
    (3) every table indexed by an enum-typed value has exactly as many entries as the enum has proper values;
    (4) the bound is sound: every index value the class admits is a cell of the array. -/
theorem subscripts_in_range :
    (∀ r ∈ SubscriptSites.rows, r.cls ≠ .open → subRowOk r = true) ∧
    (∀ r ∈ SubscriptSites.rows, r.cls = .open → (r.file, r.fn) ∈ openSubscriptFunctions) ∧
    (∀ r ∈ SubscriptSites.rows, r.cls = .enumT → r.h = r.len) ∧
    (∀ r ∈ SubscriptSites.rows, subRowOk r = true → ∀ v, subAdmits r v → v < r.len) := by
  refine ⟨by decide +kernel, by decide +kernel, by decide +kernel, ?_⟩
  intro r _ h v hv
  exact subRowOk_sound r h v hv

/-- non-vacuity: an index known only to be below 3 into a two-cell array (the unrepaired IGNORECASE shape), an off-by-one constant
    and an unclassified index are rejected -/
example : subRowOk ⟨"rec.c", "split_record", 258, "rtx->gbl.fs", 2, "i", .below, 3⟩ = false
    ∧ subRowOk ⟨"run.c", "f", 1, "buf", 64, "64", .lit, 64⟩ = false ∧ subRowOk ⟨"run.c", "f", 1, "buf", 64, "i", .open, 0⟩ = false := by decide
set_option maxRecDepth 1000000 in
example : SubscriptSites.rows.length ≥ 400 ∧ (SubscriptSites.rows.filter fun r => r.cls == .below).length ≥ 40
    ∧ (SubscriptSites.rows.filter fun r => r.cls == .open).length ≤ 120 := by decide +kernel

/-! ## retry-after-failure loops give up -/

/-- (1) every loop of arr.c / ecs-imp.h / val.c / rec.c / misc.c / htb.c / rbt.c that retries a failing attempt
    (`do { if (attempt succeeded) break; if (X <= M) give up; step X; } while (1)`, table `RetrySites.rows`, regenerated) has
    the give-up test `X <= M` on its loop variable and one of the steps known to lower it (halve what is above the floor,
    decrement);
    (2) such a step strictly lowers the variable and keeps it at or above the floor, for all values;
    (3) hence the loop, all attempts failing, gives up after at most `X - M + 1` attempts — it cannot spin inside a statement. -/
theorem retry_measure_decreases :
    (∀ r ∈ RetrySites.rows, retryRowOk r = true) ∧
    (∀ (s : RetrySites.Shape), s ≠ .other → ∀ m c : Nat, m < c → retryStep s m c < c ∧ m ≤ retryStep s m c) ∧
    (∀ (s : RetrySites.Shape) (hs : s ≠ .other) (m c : Nat), failingAttempts s hs m c ≤ c - m + 1) :=
  ⟨by decide, retryStep_decreases, failingAttempts_le⟩

/-- non-vacuity: the table contains the capacity back-off of hawk_arr_insert; a step the translator does not know is rejected;
    and the "round the half up" step really has a fixed point above the floor, from which the give-up test is never reached -/
example : ∃ r ∈ RetrySites.rows, r.fn = "hawk_arr_insert" ∧ r.shape = .halveAbove := by decide
example : retryRowOk ⟨"arr.c", "hawk_arr_insert", 356, "hawk_arr_setcapa", "capa", "mincapa", "(capa<=mincapa)", "(mincapa+(((capa-mincapa)+1)/2))", .other⟩ = false := by decide
example (m : Nat) : m + ((m + 1) - m + 1) / 2 = m + 1 ∧ ¬ (m + 1 ≤ m) := roundUp_step_stuck m
example : RetrySites.rows.length ≥ 3 := by decide

/-! ## a width or precision scanned from a format keeps the recomposed specifier inside its buffer (needs patches/c01-fmt-width-precision-overflow.diff) -/

/-- fmt.c fmt_outv scans the digits of a width / precision into an int; for a floating-point conversion the specifier is
    composed back, from the scanned numbers, into a buffer sized by the length of the original specifier.  With the
    repaired loop (`scanNum`), for every digit string: the scan either refuses the number (echoed as an invalid format) or
    yields a value that fits in an int and whose decimal form needs no more digits than were scanned (`m < 10 ^ #digits`) —
    so the composed specifier is never longer than the original one. -/
theorem fmt_number_scan_bounded (ds : List Nat) (hd : ∀ d ∈ ds, d < 10) (m : Nat) (h : scanNum ds 0 = some m) :
    m ≤ INT32_MAX ∧ m < 10 ^ ds.length := by
  have := scanNum_bounds ds 0 m (by decide) hd h
  simpa using this

/-- non-vacuity and the defect: the repaired scan accepts 2^31-1 and refuses 2^31; the unrepaired loop wrapped 2^31 to
    -2^31, which printed as an unsigned 128-bit number has 39 digits where 10 were scanned -/
example : scanNum [2, 1, 4, 7, 4, 8, 3, 6, 4, 7] 0 = some 2147483647 ∧ scanNum [2, 1, 4, 7, 4, 8, 3, 6, 4, 8] 0 = none
    ∧ scanNum [0, 0, 2, 0] 0 = some 20 := by decide
example : scanNumWrap [2, 1, 4, 7, 4, 8, 3, 6, 4, 8] 0 = -2147483648 := by decide
example : ¬ ((2 : Int) ^ 128 - 2147483648 < 10 ^ 10) := by decide

/-! ## no switch over an enum falls off for a value it forgot -/

/-- the one switch that is selective by design: set_global acts on the special variables that need a side effect and
    falls through to the common store for the others -/
def selectiveSwitches : List (String × String × String) := [("run.c", "set_global", "hawk_gbl_id_t")]

set_option maxRecDepth 100000 in
/-- (1) every `switch` of run.c / val.c / fnc.c / tree.c / parse.c / misc.c / rec.c / rio.c / mod-str.c / mod-hawk.c whose
    labels are enumerators (table `SwitchSites.rows`, regenerated) names every value of its enum, or has a `default:`,
    or is followed by an error exit — except the switches listed in `selectiveSwitches`;
    (2) for the value-type and node-type enums there is no exception;
    (3) the counts in the table are consistent;
    (4) the criterion is sound: a switch with no value missing, or with a default, takes an arm for every enum value. -/
theorem switch_total :
    (∀ r ∈ SwitchSites.rows, switchRowOk r = true ∨ (r.file, r.fn, r.enum) ∈ selectiveSwitches) ∧
    (∀ r ∈ SwitchSites.rows, (r.enum = "hawk_val_type_t" ∨ r.enum = "hawk_nde_type_t") → switchRowOk r = true) ∧
    (∀ r ∈ SwitchSites.rows, r.nCovered + r.missing = r.nEnum) ∧
    (∀ (dom labels : List Nat) (d : Bool), missingOf dom labels = 0 ∨ d = true → ∀ v ∈ dom, dispatch labels d v ≠ .falloff) := by
  refine ⟨by decide, by decide, by decide, dispatch_total⟩

/-- non-vacuity: a value-type switch that forgot one type and has no default is rejected; such a switch really falls off -/
example : switchRowOk ⟨"val.c", "hawk_rtx_valtobool", 1837, "vtype", "hawk_val_type_t", 12, 11, 1, 0, false, .none, .value⟩ = false := by decide
example : dispatch [0, 1, 2] false 3 = .falloff ∧ dispatch [0, 1, 2] true 3 = .dflt ∧ dispatch [0, 1, 2] false 1 = .label 1 := by decide
set_option maxRecDepth 100000 in
example : SwitchSites.rows.length ≥ 60 ∧ (SwitchSites.rows.filter fun r => r.enum == "hawk_val_type_t").length ≥ 15
    ∧ (SwitchSites.rows.filter fun r => r.dflt == .error).length ≥ 30 := by decide

end Hawk.Crash
