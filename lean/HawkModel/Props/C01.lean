import HawkModel.CrashLemmas
/-!
# C01 — No script or input can crash or wedge the embedding process  (PARTIAL by design, see DESIGN.md §5 C01)

What is proved here: the *guards* at the crash-prone sites named in the property anchors are sufficient, for all
operand values, and the facts about the C text they rest on are re-extracted from the working tree on every check
(`extract/fnc_dispatch.py`, `loops.py`, `div_sites.py`, `flag_sites.py`, `stack_sites.py` → `HawkModel/Gen/*.lean`).  Memory safety of
the interpreter as a whole is NOT proved: it is exhibited by the sanitizer campaign of `vlib/props/c01.py`
(sampling).  The evidence file separates the two (`obligations/discharged` vs `evaluations`).

Model totality: every function of `HawkModel/Crash.lean` is a total Lean definition (no `partial def`, no fuel);
the only non-structural recursion, `powLoop`, is accepted with the measure `e` — so "spins inside one statement" is
impossible for the modelled operations, and `pow_loop_bounded` gives the explicit bound.

Trusted (not proved): an argument declared `r`/`R` in a builtin's argument spec arrives as a HAWK_VAL_REF
(`run.c` `__eval_call`/`get_reference`); the translators; `valtoint`/`valtonum` return in-range integers.
-/
namespace Hawk.Crash
open Hawk.Gen

/-! ## failures carry a non-zero error number -/
/-- HAWK_ENOERR is 0; no model failure maps to it -/
theorem err_num_ne_zero (e : Err) : e.num ≠ 0 := by cases e <;> decide

/-! ## tagged values are type-tested before they are dereferenced as a concrete value struct -/

/-- For every cast `(hawk_val_X_t*)v` in lib/fnc.c, lib/mod-str.c, lib/mod-hawk.c (one table row each), every type
    tag under which control reaches the cast denotes a heap object of exactly that struct.  A row reached under a
    CHAR/BCHR/INT tag (immediate value encoded in the pointer bits) or under another struct's tag makes this false. -/
theorem tagged_value_dispatch : ∀ r ∈ FncDispatch.rows, rowOk r = true := by decide

/-- the shape of the repaired defect is rejected by the criterion: a BCHR immediate cast to hawk_val_mbs_t* -/
example : rowOk ⟨"fnc.c", "index_or_rindex", 578, .mbs, "a0", "guard", [.bchr_, .mbs_]⟩ = false := by decide
example : FncDispatch.rows.length ≥ 20 := by decide
example : (FncDispatch.rows.filter fun r => r.via == "guard").length ≥ 10 := by decide

/-- immediates never look like object pointers: the type test `HAWK_GET_VAL_TYPE` decides INT/CHAR/BCHR from the
    word alone, without reading `v_type` through it (the `heap` argument is ignored), for every encodable value -/
theorem immediates_decided_without_deref (h h' : FncDispatch.Tag) :
    (∀ i : Int, Vtr.getValType (Vtr.encodeInt i) h = .int_ ∧ Vtr.getValType (Vtr.encodeInt i) h' = .int_) ∧
    (∀ c : Nat, Vtr.getValType (Vtr.encodeChar c) h = .char_) ∧
    (∀ b : Nat, Vtr.getValType (Vtr.encodeBchr b) h = .bchr_) ∧
    (∀ w : Nat, w % 4 = 0 → Vtr.getValType w h = h) := by
  refine ⟨fun i => ?_, fun c => ?_, fun b => ?_, fun w hw => ?_⟩
  · simp [Vtr.getValType, Vtr.typeBits_encodeInt]
  · simp [Vtr.getValType, Vtr.typeBits_encodeChar]
  · simp [Vtr.getValType, Vtr.typeBits_encodeBchr]
  · simp [Vtr.getValType, Vtr.typeBits_aligned w hw]

/-- small integers survive the pointer encoding -/
theorem vtr_int_roundtrip (i : Int) (h : -Vtr.INTMAX ≤ i ∧ i ≤ Vtr.INTMAX) : Vtr.decodeInt (Vtr.encodeInt i) = i :=
  Vtr.decode_encode i h

/-! ## IGNORECASE indexes the two-element arrays in range -/

/-- every value any store into `rtx->gbl.ignorecase` can write (table `FlagSites.writes`, for every number the
    script can assign: any integer, any float incl. NaN) is a valid index of every array that is indexed by the
    flag (table `FlagSites.uses`: gbl.fs[], gbl.rs[], hawk_val_rex_t.code[]) -/
theorem flag_index_range :
    ∀ w ∈ FlagSites.writes, ∀ u ∈ FlagSites.uses, ∀ v : Num, IndexOk (storeValue w.shape v) u.len := by
  have key : ∀ w ∈ FlagSites.writes, ∀ u ∈ FlagSites.uses, ∀ x ∈ storedValues w.shape, IndexOk x u.len := by decide
  intro w hw u hu v
  exact key w hw u hu _ (storeValue_mem w.shape v)

/-- hence after any history of stores (the first one is `init_rtx`'s) the flag is a valid index everywhere -/
theorem flag_index_range_reachable (hist : List (FlagSites.Write × Num)) (hne : hist ≠ [])
    (hall : ∀ p ∈ hist, p.1 ∈ FlagSites.writes) :
    ∀ u ∈ FlagSites.uses, IndexOk (storeValue (hist.getLast hne).1.shape (hist.getLast hne).2) u.len := by
  intro u hu
  exact flag_index_range _ (hall _ (List.getLast_mem hne)) u hu _

/-- the unrepaired computation `(l > 0)? 1: (l < 0)? -1: 0` is rejected: -1 is not an index -/
example : ¬ IndexOk (storeValue .intSign (.int (-1))) 2 := by decide
example : FlagSites.uses.length ≥ 4 ∧ FlagSites.writes.length ≥ 3 := by decide

/-! ## integer division and remainder never reach the machine operation with a trapping operand pair -/

/-- (1) every `/` and `%` on hawk_int_t operands in `eval_binop_*` (run.c) and `fold_constants_for_binop` (parse.c)
    is dominated by facts that exclude a zero divisor and the pair (INT_MIN, −1): the syntactic criterion holds on
    every extracted row, and the criterion is sound for all operand values;
    (2) the transcribed evaluators and folder never trap, for all operand values. -/
theorem div_guards :
    (∀ r ∈ DivSites.rows, r.script = true → guardsOk r.facts = true) ∧
    (∀ (fs : List DivSites.Fact) (n d : Int), guardsOk fs = true → (∀ f ∈ fs, factHolds n d f = true) →
        (machDiv n d).isSome ∧ (machMod n d).isSome) ∧
    (∀ l1 l2 : Int, evalDiv l1 l2 ≠ .trap ∧ evalIdiv l1 l2 ≠ .trap ∧ evalMod l1 l2 ≠ .trap ∧
        foldDiv l1 l2 ≠ .trap ∧ foldIdiv l1 l2 ≠ .trap ∧ foldMod l1 l2 ≠ .trap) := by
  refine ⟨by decide, ?_, ?_⟩
  · intro fs n d hg hh
    have := guardsOk_sound hg hh
    exact ⟨(machDiv_isSome_iff n d).2 this, (machMod_isSome_iff n d).2 this⟩
  · intro l1 l2
    exact ⟨evalDiv_ne_trap _ _, evalIdiv_ne_trap _ _, evalMod_ne_trap _ _,
           foldDiv_ne_trap _ _, foldIdiv_ne_trap _ _, foldMod_ne_trap _ _⟩

/-- a zero divisor is reported as an error with a non-zero number, at run time and in the folder -/
theorem div_by_zero_is_error (l : Int) :
    evalDiv l 0 = .err .divby0 ∧ evalIdiv l 0 = .err .divby0 ∧ evalMod l 0 = .err .divby0 ∧
    foldDiv l 0 = .err .divby0 ∧ foldIdiv l 0 = .err .divby0 ∧ foldMod l 0 = .err .divby0 := by
  simp [evalDiv, evalIdiv, evalMod, foldDiv, foldIdiv, foldMod]

/-- folding an integer division gives what evaluating it gives -/
theorem fold_matches_eval (l r : Int) :
    foldDiv l r = evalDiv l r ∧ foldIdiv l r = evalIdiv l r ∧ foldMod l r = evalMod l r :=
  ⟨foldDiv_eq_evalDiv l r, foldIdiv_eq_evalIdiv l r, foldMod_eq_evalMod l r⟩

/-- non-vacuity: the machine operation really traps on the two excluded pairs, and the criterion rejects an
    unguarded row and a row guarded against zero only (the state of the code before the repair) -/
example : machDiv 1 0 = none ∧ machMod INT_MIN (-1) = none ∧ machDiv INT_MIN (-1) = none := by decide
example : guardsOk [] = false ∧ guardsOk [⟨false, [.dEq 0]⟩] = false := by decide
example : (DivSites.rows.filter (·.script)).length ≥ 8 := by decide
example : evalDiv INT_MIN (-1) = .flt INT_MIN (-1) ∧ evalIdiv INT_MIN (-1) = .int INT_MIN ∧ evalMod INT_MIN (-1) = .int 0 := by
  decide

/-! ## substr / index / rindex / match: the region handed on lies inside the subject -/

/-- for every subject length (below 2^63, as any allocated string is), every start/boundary/count the script can
    pass (any in-range integer, or absent), the (offset, length) region handed to the copier (substr), the finder
    (index/rindex) or the matcher (match) satisfies `offset + length ≤ subject length`; offsets are non-negative -/
theorem index_bounds (len : Nat) (hl : Int.ofNat len ≤ INT_MAX) :
    (∀ (lindex : Int) (lcount : Option Int),
        0 ≤ (substrRegion len lindex lcount).1 ∧ 0 ≤ (substrRegion len lindex lcount).2 ∧
        (substrRegion len lindex lcount).1 + (substrRegion len lindex lcount).2 ≤ Int.ofNat len) ∧
    (∀ (b : Option Int) (rindex : Bool), (∀ x, b = some x → InRange x) →
        ∀ off n, indexRegion len b rindex = some (off, n) → off + n ≤ len) ∧
    (∀ start : Int, InRange start → ∀ off n, matchRegion len start = some (off, n) → off + n ≤ len) :=
  ⟨fun lindex lcount => substrRegion_bounds len lindex lcount hl,
   fun b rindex hb => indexRegion_bounds len b rindex hb,
   fun start hs => matchRegion_bounds len start hs⟩

/-- non-vacuity: regions are produced and the clamps are exercised -/
example : substrRegion 5 0 (some 2) = (0, 2) ∧ substrRegion 5 4 none = (3, 2) ∧ substrRegion 5 100 (some 3) = (5, 0)
    ∧ substrRegion 5 (-7) (some (-1)) = (0, 0) := by decide
example : indexRegion 6 none false = some (0, 6) ∧ indexRegion 6 (some 3) false = some (2, 4)
    ∧ indexRegion 6 (some (-2)) true = some (0, 5) ∧ indexRegion 6 (some 7) false = none
    ∧ indexRegion 6 (some (-9)) false = none := by decide
example : matchRegion 3 1 = some (0, 3) ∧ matchRegion 3 4 = some (3, 0) ∧ matchRegion 3 5 = none
    ∧ matchRegion 3 (-1) = some (2, 1) ∧ matchRegion 3 (-10) = none := by decide

/-! ## every unbounded loop polls the halt request once per iteration -/

set_option maxRecDepth 100000 in
/-- every loop of run.c / fnc.c / mod-str.c / mod-hawk.c / mod-math.c / val.c / rec.c / misc.c whose iteration
    count is decided by script control flow (`script`) or by a script-supplied number (`count`) passes a halt poll
    point (ON_STATEMENT, run_statement(), or a loop condition on rtx->exit_level) on every iteration -/
theorem halt_polled : ∀ r ∈ Loops.rows, (r.cls = .script ∨ r.cls = .count) → r.polled = true := by decide

set_option maxRecDepth 100000 in
/-- the only `while (1)`-shaped loops that evaluate no script code are the four grow-and-retry loops of the
    printf engine (hawk_rtx_format / hawk_rtx_formatmbs; termination is C12's concern) -/
theorem retry_loops_known : ∀ r ∈ Loops.rows, r.cls = .retry →
    r.file = "run.c" ∧ (r.fn = "hawk_rtx_format" ∨ r.fn = "hawk_rtx_formatmbs") := by decide

example : (Loops.rows.filter fun r => r.cls == .script).length ≥ 4 := by decide
example : ∃ r ∈ Loops.rows, r.fn = "run_while" ∧ r.cls = .script ∧ r.polled = true := by decide

/-- integer exponentiation: the square-and-multiply loop of `pow_int_by_uint` runs at most 64 times for any 64-bit
    exponent and computes `base ^ exp` modulo 2^64 — what repeated multiplication in hawk_uint_t gives -/
theorem pow_loop_bounded (b e : Nat) (he : e < 2 ^ 64) :
    (powLoop 1 b e).2 ≤ 64 ∧ (powLoop 1 b e).1 % M64 = b ^ e % M64 := by
  refine ⟨powLoop_iters 64 1 b e he, ?_⟩
  have := powLoop_val e 1 b
  simpa using this

/-! ## pushes onto the run-time stack stay inside the reserved room -/

set_option maxRecDepth 100000 in
/-- every HAWK_RTX_STACK_PUSH of run.c (an unchecked store into rtx->stack) follows an availability test whose reservation
    has one of the accepted shapes (`stackRowOk`), and for the call frame the reservation is sufficient for every
    combination of named-parameter and actual-argument counts — variadic functions included, since the padding loop does
    not look at `fun->variadic` either -/
theorem stack_reserved :
    (∀ r ∈ StackSites.rows, stackRowOk r = true) ∧ (∀ funN callN : Nat, evalcallPushes funN callN ≤ evalcallReserve funN callN) := by
  refine ⟨by decide, ?_⟩
  intro f c
  unfold evalcallPushes evalcallReserve
  split <;> omega

/-- a reservation that leaves out the padding for some functions is rejected, and would be insufficient -/
example : stackRowOk ⟨"hawk_rtx_evalcall", 1, "stack_req", 0, "(4+call->nargs)",
    [⟨["!fun->variadic", "(fun->nargs>call->nargs)", "fun"], "(fun->nargs-call->nargs)"⟩], 4, [⟨"padto", "fun->nargs", ["fun"]⟩]⟩ = false := by decide
example : ¬ (4 + 1 + (7 - 1) ≤ 4 + 1 + 0) := by decide
example : StackSites.rows.length ≥ 5 := by decide

end Hawk.Crash
