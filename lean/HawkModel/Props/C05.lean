import HawkModel.RioLemmas
/-!
# C05 — everything printed is delivered once, in order, and streams are closed

English property: *All characters produced by print and printf for the console, files and pipes reach the
corresponding stream handler exactly once and in program order, however few characters the handler accepts per
call, and are flushed by the time the run returns.  Each named stream is opened once, reused while open, and closed
exactly once — by close() or at the latest when the runtime is closed — and a handler failure shows up as a
negative return value or a run error, never as lost data reported as success.*

Model: `HawkModel/Rio.lean` (`rio.c` write side + `run_print`/`run_printf`/`fnc_close`/`fnc_fflush` + end-of-run flush
+ teardown), with the three repairs of `patches/` applied.  The handler is an arbitrary function
`ρ : Nat → Reply` from the handler call number to its reply; every theorem quantifies over all `ρ` and over
all histories: lists of API calls (`exec`) and lists of statements (`runStmts`, `loop`, `runProgram`).
The vocabulary (`delivered`, `opens`, `closes`, `eofPending`, `NoWriteAfterEof`, `flushedSinceWrite`,
`AllAccept`, `FailedBetween`, `stmtPayload`, `progPayload`) is defined in `HawkModel/RioLemmas.lean`.
-/
namespace Hawk.Rio.C05
open Hawk.Rio

/-! ## vocabulary specific to the statements below -/

/-- the text the history intends to write to key `k`: the payloads of its writes to `k`, in program order -/
def intended (k : Key) : List Op → List Char
  | [] => []
  | .write ok name _ d :: os => (if ok.key name = k then d else []) ++ intended k os
  | _ :: os => intended k os

/-- the writes of a history to key `k`, each paired with the value `hawk_rtx_writeio*` returned for it -/
def writesTo (k : Key) : List Op → List Int → List (List Char × Int)
  | .write ok name _ d :: os, r :: rs => if ok.key name = k then (d, r) :: writesTo k os rs else writesTo k os rs
  | _ :: os, _ :: rs => writesTo k os rs
  | _, _ => []

/-! ## (a) exactly once, in order, however few characters the handler takes per call -/

/-- generalisation of (a) over the start state -/
theorem exec_allAccept {ρ : Nat → Reply} (hρ : AllAccept ρ) (ops : List Op) (s : St) (hn : NoFlags s) (k : Key) :
    delivered k (exec ρ s ops).1.log = delivered k s.log ++ intended k ops := by
  induction ops generalizing s with
  | nil => simp [exec, intended]
  | cons o os ih =>
    have hn' := step_noFlags hρ hn o
    simp only [exec]
    rw [ih _ hn']
    cases o with
    | write ok name b d =>
      obtain ⟨d', -, hdel, hfull, -⟩ := writeio_delivers ρ s ok name b d
      have := hfull (writeio_allAccept hρ hn ok name b d).1
      simp only [step, intended]
      rw [hdel k, this, List.append_assoc]
    | flush ok name => simp [step, intended, flushio, flushLoop_delivered]
    | next ok name => simp [step, intended, nextioWrite_delivered]
    | close name opt => simp [step, intended, closeio_delivered]
    | read ik name fuel => simp [step, intended, readio_delivered]
    | flushall => simp [step, intended, flushall, flushallLoop_delivered]

/-- **(a)** If the handler never fails and never reports end of stream — but accepts as few characters per
call as it likes — then for every stream key the concatenation of the slices it accepted equals the
concatenation of the payloads written to that key, in program order; for every history of
write/flush/next/close/read/flushall calls. -/
theorem write_exactly_once_in_order {ρ : Nat → Reply} (hρ : AllAccept ρ) (ops : List Op) (k : Key) :
    delivered k (exec ρ St.init ops).1.log = intended k ops := by
  simpa [St.init, delivered] using exec_allAccept hρ ops St.init noFlags_init k

/-- **(a), language level.** Under such a handler a program delivers, per stream key, exactly the text of
the `print` (items joined by OFS, then ORS) and `printf` statements it executed, in program order: `n` is the
number of statements executed (all of them unless a run error — e.g. `nextofile` without console output —
aborted the program, or `Cfg.readFuel` is too small for a getline).  Flushing at the end of the run and
closing at teardown add nothing. -/
theorem program_delivers_exactly_once_in_order {ρ : Nat → Reply} (hρ : AllAccept ρ) (cfg : Cfg) (prog : List Stmt) :
    ∃ n, n ≤ prog.length ∧ ((runProgram ρ cfg prog).2 = false → n = prog.length) ∧
      ∀ k, delivered k (runProgram ρ cfg prog).1.log = progPayload cfg k (prog.take n) := by
  obtain ⟨n, h1, h2, h3⟩ := runStmts_allAccept hρ cfg prog St.init noFlags_init
  refine ⟨n, h1, fun hf => h2 ?_, fun k => ?_⟩
  · simpa [runProgram, loop, flushallFails_allAccept hρ] using hf
  simp only [runProgram, loop, clearall, flushall, clearLoop_delivered, flushallLoop_delivered]
  simpa [St.init, delivered] using h3 k

/-! ## (b) failures surface; success means complete delivery; end of stream is latched -/

/-- **(b)** One write, any handler: what the handler accepted during the call is a prefix `d` of the payload,
appended to what the key had received before (nothing is duplicated, reordered or sent to another key); the
call returns 1, 0 or -1; and it returns 1 (success) only if the whole payload was accepted. -/
theorem write_result_sound (ρ : Nat → Reply) (s : St) (ok : OutKind) (name : String) (bytes : Bool) (data : List Char) :
    ∃ d, d <+: data ∧
      (∀ k, delivered k (writeio ρ s ok name bytes data).1.log = delivered k s.log ++ (if ok.key name = k then d else [])) ∧
      ((writeio ρ s ok name bytes data).2 = 1 → d = data) ∧
      ((writeio ρ s ok name bytes data).2 = 1 ∨ (writeio ρ s ok name bytes data).2 = 0 ∨ (writeio ρ s ok name bytes data).2 = -1) :=
  writeio_delivers ρ s ok name bytes data

/-- **(b), history level.** For every handler and every history: what a key received is the concatenation,
in program order, of one prefix per write to that key, and the prefix is the whole payload for every write
that returned 1.  So data can be missing only from writes that did not report success. -/
theorem acked_writes_fully_delivered (ρ : Nat → Reply) (ops : List Op) (s : St) (k : Key) :
    ∃ ds : List (List Char),
      Pointwise (fun d (pr : List Char × Int) => d <+: pr.1 ∧ (pr.2 = 1 → d = pr.1)) ds (writesTo k ops (exec ρ s ops).2) ∧
      delivered k (exec ρ s ops).1.log = delivered k s.log ++ ds.flatten := by
  induction ops generalizing s with
  | nil => exact ⟨[], by simpa [writesTo, exec] using Pointwise.nil, by simp [exec]⟩
  | cons o os ih =>
    obtain ⟨ds, hf, hd⟩ := ih (step ρ s o).1
    simp only [exec]
    cases o with
    | write ok name b d =>
      obtain ⟨d', hpre, hdel, hfull, -⟩ := writeio_delivers ρ s ok name b d
      by_cases hk : ok.key name = k
      · refine ⟨d' :: ds, ?_, ?_⟩
        · simp only [writesTo, hk, if_true]
          exact Pointwise.cons ⟨hpre, hfull⟩ hf
        · rw [hd]; simp only [step]; rw [hdel k]; simp [hk]
      · refine ⟨ds, ?_, ?_⟩
        · simpa only [writesTo, hk, if_false] using hf
        · rw [hd]; simp only [step]; rw [hdel k]; simp [hk]
    | flush ok name => exact ⟨ds, by simpa [writesTo] using hf, by rw [hd]; simp [step, flushio, flushLoop_delivered]⟩
    | next ok name => exact ⟨ds, by simpa [writesTo] using hf, by rw [hd]; simp [step, nextioWrite_delivered]⟩
    | close name opt => exact ⟨ds, by simpa [writesTo] using hf, by rw [hd]; simp [step, closeio_delivered]⟩
    | read ik name fuel => exact ⟨ds, by simpa [writesTo] using hf, by rw [hd]; simp [step, readio_delivered]⟩
    | flushall => exact ⟨ds, by simpa [writesTo] using hf, by rw [hd]; simp [step, flushall, flushallLoop_delivered]⟩

/-- **(b)** A handler failure (of OPEN or of any WRITE) during a write makes the write return -1. -/
theorem write_fail_returns_minus_one (ρ : Nat → Reply) (s : St) (ok : OutKind) (name : String) (bytes : Bool)
    (data : List Char) (h : FailedBetween ρ s (writeio ρ s ok name bytes data).1) :
    (writeio ρ s ok name bytes data).2 = -1 :=
  (writeio_fail ρ s ok name bytes data).2 h

/-- **(b)** A WRITE answered "end of stream" ends the re-offer loop with 0. -/
theorem write_eof_returns_zero (ρ : Nat → Reply) (sid : Nat) (key : Key) (bytes : Bool) (rem : List Char) (s : St)
    (h : EofIn ρ s.calls (writeLoop ρ sid key bytes rem s).1.calls) : (writeLoop ρ sid key bytes rem s).2 = 0 :=
  writeLoop_eof ρ sid key bytes rem s h

/-- **(b)** A write that returns 0 leaves the stream in the chain with `out.eof` (or `out.eos`) latched … -/
theorem write_zero_latches (ρ : Nat → Reply) (s : St) (ok : OutKind) (name : String) (bytes : Bool) (data : List Char)
    (hz : (writeio ρ s ok name bytes data).2 = 0) :
    ∃ y ∈ (writeio ρ s ok name bytes data).1.chain, y.key = ok.key name ∧ (y.outEof = true ∨ y.outEos = true) :=
  writeio_zero ρ s ok name bytes data hz

/-- … and while the flag stands, in any reachable state, a write to that stream returns 0 without calling
the handler at all (state and log unchanged). -/
theorem write_after_eof_is_silent (ρ : Nat → Reply) (ops : List Op) (ok : OutKind) (name : String) (bytes : Bool)
    (data : List Char) {x : Strm} (hx : x ∈ (exec ρ St.init ops).1.chain) (hk : x.key = ok.key name)
    (hflag : x.outEof = true ∨ x.outEos = true) :
    writeio ρ (exec ρ St.init ops).1 ok name bytes data = ((exec ρ St.init ops).1, 0) :=
  writeio_silent ρ (exec_inv ρ ops Inv.init).nodup ok name bytes data hx hk hflag

/-- **(b)** In every reachable log no WRITE is issued to a stream after it answered "end of stream", until a
successful NEXT re-arms it or it is fully closed (and possibly reopened). -/
theorem no_write_after_eof (ρ : Nat → Reply) (ops : List Op) : NoWriteAfterEof (exec ρ St.init ops).1.log :=
  (exec_inv ρ ops Inv.init).nowae

/-- **(b), language level.** In every state whatever, if any handler call made by a statement fails, the
statement raises a run error or returns -1: print/printf (OPEN, WRITE, and printf's FLUSH), close (CLOSE),
fflush (FLUSH, also when another stream of the same name flushed fine), getline (OPEN, READ), nextofile (NEXT). -/
theorem handler_failure_surfaces (ρ : Nat → Reply) (cfg : Cfg) (s : St) (st : Stmt)
    (h : FailedBetween ρ s (stmt ρ cfg s st).1) :
    (stmt ρ cfg s st).2 = .runerr ∨ (stmt ρ cfg s st).2 = .val (-1) :=
  (stmt_fail ρ cfg s st).2 h

/-- without `HAWK_TOLERANT` a failing print/printf/nextofile is a run error (the program is aborted and
`hawk_rtx_loop` fails) -/
theorem print_failure_is_run_error (ρ : Nat → Reply) (cfg : Cfg) (hc : cfg.tolerant = false) (s : St)
    (ok : OutKind) (name : String) (bytes : Bool) (items : Option (List (List Char)))
    (h : FailedBetween ρ s (stmt ρ cfg s (.print ok name bytes items)).1) :
    (stmt ρ cfg s (.print ok name bytes items)).2 = .runerr := by
  rcases handler_failure_surfaces ρ cfg s _ h with h | h
  · exact h
  · exfalso
    simp only [stmt, hc] at h
    split at h <;> simp at h

/-- **(b), language level: never success with bytes missing.** After any program prefix and for any handler:
if a `print` neither raised a run error nor returned -1, and its stream is not at "end of stream" afterwards
(the handler answered 0 to a WRITE, or NEXT found no further stream — the designed way to make output stop),
then the stream received, during the statement, exactly the items joined by OFS followed by ORS. -/
theorem print_success_is_complete (ρ : Nat → Reply) (cfg : Cfg) (pre : List Stmt) (ok : OutKind) (name : String)
    (bytes : Bool) (items : Option (List (List Char))) :
    let s := (runStmts ρ cfg pre St.init).1
    let r := stmt ρ cfg s (.print ok name bytes items)
    (r.2 = .unit ∨ r.2 = .val 0) →
    (∀ y ∈ r.1.chain, y.key = ok.key name → y.outEof = false ∧ y.outEos = false) →
    ∀ k, delivered k r.1.log = delivered k s.log ++ stmtPayload cfg k (.print ok name bytes items) := by
  intro s r hres hclear
  exact stmt_print_success ρ cfg s (runStmts_inv ρ cfg pre Inv.init) ok name bytes items hres hclear

/-- the same for `printf` (in any state) -/
theorem printf_success_is_complete (ρ : Nat → Reply) (cfg : Cfg) (s : St) (ok : OutKind) (name : String)
    (bytes : Bool) (data : List Char) :
    let r := stmt ρ cfg s (.printf ok name bytes data)
    (r.2 = .unit ∨ r.2 = .val 0) →
    (∀ y ∈ r.1.chain, y.key = ok.key name → y.outEof = false ∧ y.outEos = false) →
    ∀ k, delivered k r.1.log = delivered k s.log ++ stmtPayload cfg k (.printf ok name bytes data) := by
  intro r hres hclear
  exact stmt_printf_success ρ cfg s ok name bytes data hres hclear

/-! ## (c) every stream is opened once, reused while open, closed exactly once -/

/-- **(c)** In every state reachable by API calls, for every handler: the chain has at most one node per key,
and for every key `#OPEN − #full CLOSE` is 1 if the key is in the chain and 0 otherwise.  (Holding in every
reachable state, this means opens and full closes of a key alternate strictly: never a second OPEN while open,
never a second full CLOSE.) -/
theorem open_close_balanced (ρ : Nat → Reply) (ops : List Op) (k : Key) :
    let s := (exec ρ St.init ops).1
    (keys s.chain).Nodup ∧
    (k ∈ keys s.chain → opens k s.log = closes k s.log + 1) ∧
    (k ∉ keys s.chain → opens k s.log = closes k s.log) := by
  intro s
  have h := exec_inv ρ ops Inv.init
  refine ⟨h.nodup, fun hk => ?_, fun hk => ?_⟩
  · rw [h.balance k, count_eq_one_of_mem_nodup h.nodup hk]
  · rw [h.balance k, List.count_eq_zero_of_not_mem hk]; rfl

/-- **(c), language level**: the same in every state reachable by executing statements. -/
theorem open_close_balanced_program (ρ : Nat → Reply) (cfg : Cfg) (prog : List Stmt) (k : Key) :
    let s := (runStmts ρ cfg prog St.init).1
    (keys s.chain).Nodup ∧
    (k ∈ keys s.chain → opens k s.log = closes k s.log + 1) ∧
    (k ∉ keys s.chain → opens k s.log = closes k s.log) := by
  intro s
  have h := runStmts_inv ρ cfg prog Inv.init
  refine ⟨h.nodup, fun hk => ?_, fun hk => ?_⟩
  · rw [h.balance k, count_eq_one_of_mem_nodup h.nodup hk]
  · rw [h.balance k, List.count_eq_zero_of_not_mem hk]; rfl

/-- **(c)** Closing the runtime after any history empties the chain, and every key has then been fully closed
exactly as often as it was opened (together with `open_close_balanced`: each opened stream got exactly one
full close — by `close()` or by `hawk_rtx_clearallios`). -/
theorem clearall_closes_everything (ρ : Nat → Reply) (ops : List Op) (k : Key) :
    (clearall ρ (exec ρ St.init ops).1).chain = [] ∧
    opens k (clearall ρ (exec ρ St.init ops).1).log = closes k (clearall ρ (exec ρ St.init ops).1).log := by
  have h := clearall_inv ρ (exec_inv ρ ops Inv.init)
  refine ⟨h.2, ?_⟩
  rw [h.1.balance k, h.2]; simp

/-- **(c), language level**: after `hawk_rtx_loop` + `hawk_rtx_close` the chain is empty and every key is balanced. -/
theorem program_closes_everything (ρ : Nat → Reply) (cfg : Cfg) (prog : List Stmt) (k : Key) :
    (runProgram ρ cfg prog).1.chain = [] ∧
    opens k (runProgram ρ cfg prog).1.log = closes k (runProgram ρ cfg prog).1.log := by
  have h := clearall_inv ρ (flushall_inv ρ (runStmts_inv ρ cfg prog Inv.init))
  refine ⟨h.2, ?_⟩
  have := h.1.balance k
  rw [h.2] at this
  simpa [runProgram, loop] using this

/-- the repaired half-close logic: closing the same end of a two-way pipe twice does not drop the node;
the second request finds no such end (returns -1, no handler call). -/
theorem rwpipe_same_end_twice (ρ : Nat → Reply) (s : St) (name : String) (r : Bool) (x : Strm)
    (hchain : s.chain = [x]) (hn : x.key.name = name) (hm : x.key.mask = .rw)
    (hst : x.rwcstate = (if r then .rd else .wr)) :
    closeio ρ s name (some r) = (s, -1) := by
  cases r <;> simp_all [closeio, closeHit, closeMode]

/-! ## (d) flushed by the time the run returns -/

/-- **(d)** `hawk_rtx_flushallios`, in any state: the chain is unchanged and for every stream in it a FLUSH call
follows its last WRITE call. -/
theorem flushall_flushes_everything (ρ : Nat → Reply) (s : St) :
    (flushall ρ s).chain = s.chain ∧ ∀ x ∈ s.chain, flushedSinceWrite x.sid (flushall ρ s).log = true :=
  ⟨flushallLoop_chain ρ _ s, fun x hx => flushallLoop_flushes ρ _ s x hx⟩

/-- **(d)** When `hawk_rtx_loop` returns — normally or by a run error — every stream still open has been sent a
FLUSH after the last WRITE it received.  (What happens when that FLUSH fails: `final_flush_failure_surfaces`.) -/
theorem flushed_at_return (ρ : Nat → Reply) (cfg : Cfg) (prog : List Stmt) :
    ∀ x ∈ (loop ρ cfg prog).1.chain, flushedSinceWrite x.sid (loop ρ cfg prog).1.log = true := by
  intro x hx
  have := flushall_flushes_everything ρ (runStmts ρ cfg prog St.init).1
  simp only [loop] at hx ⊢
  rw [this.1] at hx
  exact this.2 x hx

/-- **(d)/(b)** (repair `rio-final-flush-failure-fails-the-run`) The FLUSH that `hawk_rtx_loop` sends to the `i`-th
open stream at the end of the run is handler call number `calls + i`.  If that stream has a write side and the call
fails, `hawk_rtx_loop` does not report success: output that could not be written is not lost silently. -/
theorem final_flush_failure_surfaces (ρ : Nat → Reply) (cfg : Cfg) (prog : List Stmt) (i : Nat) (x : Strm)
    (hx : (runStmts ρ cfg prog St.init).1.chain[i]? = some x) (hw : x.hasWriteSide = true)
    (hf : ρ ((runStmts ρ cfg prog St.init).1.calls + i) = .fail) :
    (loop ρ cfg prog).2 = true := by
  simp [loop, flushallFails_of hx hw hf]

/-- the number of handler calls the final flush makes: one per open stream -/
theorem final_flush_calls (ρ : Nat → Reply) (s : St) : (flushall ρ s).calls = s.calls + s.chain.length :=
  flushallLoop_calls ρ s.chain s

/-- (repair `rio-close-reports-unwritten-output`) `close()` of a stream that has a write side first sends FLUSH;
if that fails the stream is closed all the same — a file or one-way pipe leaves the chain — but the result is -1 -/
theorem close_reports_flush_failure (ρ : Nat → Reply) (s : St) (name : String) (x : Strm)
    (hx : s.chain.find? (closeHit name none) = some x) (hw : x.key.mask = .wr)
    (hf : ρ s.calls = .fail) (hc : ρ (s.calls + 1) ≠ .fail) :
    (closeio ρ s name none).2 = -1 ∧ (closeio ρ s name none).1.chain = s.chain.eraseP (closeHit name none) := by
  simp only [closeio, hx, preFlush, Strm.hasWriteSide, hw, closeReq, closeMode]
  simp only [decide_true, Bool.true_or, if_true, emit_calls, hf, Reply.isFail]
  cases hr : ρ (s.calls + 1) with
  | fail => exact absurd hr hc
  | eof => simp
  | accept k => simp

/-! ## the console read loop (getline at the end of a console stream asks the handler for the NEXT stream)

A handler that answers READ→0, NEXT→1, READ→0, NEXT→1, … keeps `hawk_rtx_readio` in its loop forever.  The model
bounds the loop by `fuel` (`Op.read … fuel`, `Cfg.readFuel`); running out yields the result `-2` / `SRes.hang` =
"the C has not returned", and `runStmts` stops there (its flag is then `true`).  All theorems above hold for every
fuel, i.e. also for the prefix of such an endless run (safety: (b), (c), `no_write_after_eof`; the statements about
`loop`/`runProgram` then describe a return the C never reaches).  The two theorems below say that the fuel is
nothing but that bound. -/

/-- once a read returns (result ≠ -2), more fuel changes neither the result nor the state nor the log -/
theorem read_result_independent_of_fuel (ρ : Nat → Reply) (fuel extra : Nat) (s : St) (ik : InKind) (name : String)
    (h : (readio ρ fuel s ik name).2 ≠ -2) : readio ρ (fuel + extra) s ik name = readio ρ fuel s ik name := by
  induction extra with
  | zero => rfl
  | succ e ih =>
    rw [← Nat.add_assoc, readio_fuel_mono ρ (fuel + e) s ik name (by rw [ih]; exact h), ih]

/-- running out of fuel means the loop made `fuel` handler calls without ending, none of them failing, and —
from 2 turns on — only the console can do that (other inputs return 0 at their first EOF) -/
theorem read_out_of_fuel_is_endless_next (ρ : Nat → Reply) (con : Bool) (sid : Nat) (key : Key) (fuel : Nat) (eof : Bool)
    (s : St) (h : (readLoop ρ con sid key fuel eof s).2 = -2) :
    (readLoop ρ con sid key fuel eof s).1.calls = s.calls + fuel ∧ (2 ≤ fuel → con = true) ∧
    ¬ FailedIn ρ s.calls (readLoop ρ con sid key fuel eof s).1.calls := by
  refine ⟨(readLoop_hang_calls ρ con sid key fuel eof s h).1, (readLoop_hang_calls ρ con sid key fuel eof s h).2, fun hf => ?_⟩
  have := (readLoop_fail ρ con sid key fuel eof s).2 hf
  rw [h] at this
  exact absurd this (by decide)

/-! ## non-vacuity -/

/-- the hypotheses of `final_flush_failure_surfaces` are satisfiable: one print, the final FLUSH (call 3) fails -/
example : (loop (fun i => if i = 3 then .fail else .accept 9) {} [.print .file "f" false (some [['a']])]).2 = true := by
  simp [loop, runStmts, stmt, writePieces, printPieces, printPieces.go, writeio, prepareWrite, findKey, St.init, writeLoop,
    flushallFails, Strm.hasWriteSide, OutKind.key, OutKind.mask, Reply.isFail]

/-- the hypotheses of `close_reports_flush_failure` are satisfiable -/
example : let s := (exec (fun _ => .accept 9) St.init [.write .file "f" false ['a']]).1
    ∃ x, s.chain.find? (closeHit "f" none) = some x ∧ x.key.mask = .wr := by
  simp [exec, step, writeio, prepareWrite, findKey, St.init, writeLoop, closeHit, closeMode, OutKind.key, OutKind.mask]

/-- the console loop really goes round: READ→eof, NEXT→ok, READ→record returns 1 after three calls … -/
example : (readio (fun i => if i = 1 then .eof else .accept 0) 8 St.init .console "").2 = 1 ∧
    (readio (fun i => if i = 1 then .eof else .accept 0) 8 St.init .console "").1.calls = 4 := by
  simp [readio, readRec, readLoop, findKey, St.init, InKind.isConsole]

/-- … and an endless handler exhausts any fuel (here 3) -/
example : (readio (fun i => if i % 2 = 1 then .eof else .accept 0) 3 St.init .console "").2 = -2 := by
  simp [readio, readRec, readLoop, findKey, St.init, InKind.isConsole]


/-- a handler that takes one character per call satisfies `AllAccept` -/
example : AllAccept (fun _ => .accept 0) := fun _ => ⟨0, rfl⟩

/-- `FailedBetween` is satisfiable by a reachable statement execution: a getline whose OPEN fails -/
example : FailedBetween (fun _ => .fail) St.init (stmt (fun _ => .fail) {} St.init (.getline .file "f")).1 :=
  ⟨0, by decide, by decide, rfl⟩

/-- a stream with `out.eof` set is reachable: one WRITE answered "end of stream" -/
example : ∃ x ∈ (exec (fun i => if i = 0 then .accept 0 else .eof) St.init [.write .file "f" false ['a']]).1.chain,
    x.outEof = true := by
  simp [exec, step, writeio, prepareWrite, findKey, St.init, writeLoop, modifyFirst, hasKey, OutKind.key]

/-- the hypotheses of `print_success_is_complete` are met by a one-character-at-a-time handler -/
example : let r := stmt (fun _ => .accept 0) {} St.init (.print .file "f" false (some [['a', 'b']]))
    r.2 = .unit ∧ ∀ y ∈ r.1.chain, y.key = OutKind.file.key "f" → y.outEof = false ∧ y.outEos = false := by
  simp [stmt, writePieces, printPieces, printPieces.go, writeio, prepareWrite, findKey, St.init, writeLoop, hasKey, OutKind.key]

/-- the hypotheses of `rwpipe_same_end_twice` are met after `close(cmd, "r")` on a two-way pipe -/
example : ∃ x, (exec (fun _ => .accept 0) St.init [.write .rwpipe "c" false [], .close "c" (some true)]).1.chain = [x]
    ∧ x.key.name = "c" ∧ x.key.mask = .rw ∧ x.rwcstate = .rd := by
  simp [exec, step, writeio, prepareWrite, findKey, St.init, writeLoop, closeio, closeReq, preFlush, Strm.hasWriteSide,
    closeHit, closeMode, modifyFirst, OutKind.key, OutKind.mask]

end Hawk.Rio.C05
