import HawkModel.HtbLemmas
import HawkModel.ForIn
/-!
# C16 (hash-table and for-in half) — maps behave as dictionaries; hash-table iteration visits every pair exactly once;
# `for (k in m)` visits exactly the keys present when the loop started

Property theorems only (helpers live in HtbLemmas.lean / ForIn.lean).  Models: `HawkModel/Htb.lean`
(transcription of lib/htb.c) and `HawkModel/ForIn.lean` (transcription of run_forin in lib/run.c).
Everything is stated for an arbitrary hash function, value-copier kind, value-length function and sizer
callback (`Cfg`), for every allocator behaviour, and for every history from `hawk_htb_init`.
-/
namespace Hawk.Htb

/-! ## the ideal dictionary -/

abbrev Dict := Nat → Option Nat

def Dict.empty : Dict := fun _ => none
def Dict.set (d : Dict) (k v : Nat) : Dict := fun x => if x = k then some v else d x
def Dict.erase (d : Dict) (k : Nat) : Dict := fun x => if x = k then none else d x

/-- what the ideal dictionary does and answers for the four insertion flavours -/
def specIns (d : Dict) (k v : Nat) : Opt → Dict × Except Err Pair
  | .upsert => (d.set k v, .ok (k, v))
  | .update => match d k with
    | some _ => (d.set k v, .ok (k, v))
    | none => (d, .error .enoent)
  | .ensert => match d k with
    | some w => (d, .ok (k, w))
    | none => (d.set k v, .ok (k, v))
  | .insert => match d k with
    | some _ => (d, .error .eexist)
    | none => (d.set k v, .ok (k, v))

/-- the ideal dictionary's side of hawk_htb_cbsert: the callback `f` sees the stored value (if any) and
    decides: refuse, keep the pair, or replace/create it with the value it built -/
def specCb (d : Dict) (k : Nat) (f : Option Nat → CbAns) : Dict × Except Err Pair :=
  match d k with
  | some w =>
    match f (some w) with
    | .fail => (d, .error .ecb)
    | .keep => (d, .ok (k, w))
    | .fresh v => (d.set k v, .ok (k, v))
  | none =>
    match f none with
    | .fresh v => (d.set k v, .ok (k, v))
    | _ => (d, .error .ecb)

def specDel (d : Dict) (k : Nat) : Dict × Except Err Unit :=
  match d k with
  | some _ => (d.erase k, .ok ())
  | none => (d, .error .enoent)

def specSearch (d : Dict) (k : Nat) : Except Err Pair :=
  match d k with
  | some v => .ok (k, v)
  | none => .error .enoent

/-- abstraction: the dictionary a table stands for, read the way the C reads it (hash, chain scan) -/
def abs (c : Cfg) (t : Htb) : Dict := find c t

/-! ## one-step refinement (each also preserves the invariant) -/

theorem init_wf (c : Cfg) (capa factor : Nat) : WF c (init capa factor) := by
  unfold init
  refine ⟨by simp, by simp only; split <;> omega, ?_, ?_, ?_⟩
  · intro i b hb p hp
    have := List.mem_of_getElem? hb
    rw [List.mem_replicate] at this; rw [this.2] at hp; simp at hp
  · intro i b hb
    have := List.mem_of_getElem? hb
    rw [List.mem_replicate] at this; rw [this.2]; simp
  · simp only; rw [← List.length_flatten, List.flatten_replicate_nil]; rfl

theorem init_abs (c : Cfg) (capa factor : Nat) : abs c (init capa factor) = Dict.empty := by
  funext k
  apply Option.ext; intro v
  unfold abs
  rw [← mem_pairs_iff (init_wf c capa factor), pairs_eq (init_wf c capa factor)]
  simp [init, Dict.empty, List.flatten_replicate_nil]

theorem find_of_chainFind {c : Cfg} {t : Htb} {k : Nat} {p : Pair}
    (hf : chainFind k (bucketAt t (c.hash k % t.capa)) = some p) : abs c t k = some p.2 := by
  simp [abs, find, hf]

theorem changeVal_refines (c : Cfg) (t : Htb) (h : WF c t) (k old v : Nat) (o : Oracle)
    (hf : chainFind k (bucketAt t (c.hash k % t.capa)) = some (k, old)) :
    let r := changeVal c t (c.hash k % t.capa) k old v o
    WF c r.tb ∧ ((abs c r.tb = (abs c t).set k v ∧ r.ret = .ok (k, v)) ∨
                 (r.ret = .error .enomem ∧ r.tb = t ∧ false ∈ o)) := by
  have hi := h.idx k
  have hbi := bucketAt_eq hi
  -- facts about the table with the value replaced
  have hwf' : WF c { t with buckets := t.buckets.set (c.hash k % t.capa) (chainSet k v (bucketAt t (c.hash k % t.capa))) } := by
    have := h.set hi (chainSet k v (bucketAt t (c.hash k % t.capa))) t.size ?_ ?_ ?_
    · exact this
    · intro p hp
      have : p.1 ∈ (chainSet k v (bucketAt t (c.hash k % t.capa))).map Prod.fst := List.mem_map.mpr ⟨p, hp, rfl⟩
      rw [chainSet_keys] at this
      rcases List.mem_map.mp this with ⟨q, hq, hqp⟩
      rw [← hqp]; exact h.place _ _ hbi q hq
    · rw [chainSet_keys]; exact h.nodup _ _ hbi
    · rw [chainSet_length]
  have habs' : abs c { t with buckets := t.buckets.set (c.hash k % t.capa) (chainSet k v (bucketAt t (c.hash k % t.capa))) }
      = (abs c t).set k v := by
    funext k'
    have := find_set c t (c.hash k % t.capa) (chainSet k v (bucketAt t (c.hash k % t.capa))) t.size hi k'
    simp only [abs, Dict.set]
    rw [this, chainFind_chainSet]
    by_cases hk : k' = k
    · subst hk; simp [hf]
    · rw [if_neg hk, if_neg hk]
      by_cases hb : c.hash k' % t.capa = c.hash k % t.capa
      · rw [if_pos hb, find, hb]
      · rw [if_neg hb]
  have hsame : old = v → abs c t = (abs c t).set k v := by
    intro e; funext k'
    simp only [Dict.set]
    by_cases hk : k' = k
    · subst hk; rw [if_pos rfl, find_of_chainFind hf, e]
    · rw [if_neg hk]
  intro r
  simp only [r, changeVal]
  split
  · split
    · rename_i e; exact ⟨h, Or.inl ⟨hsame e, rfl⟩⟩
    · exact ⟨hwf', Or.inl ⟨habs', rfl⟩⟩
  · split
    · exact ⟨hwf', Or.inl ⟨habs', rfl⟩⟩
    · split
      · rename_i o' ho; exact ⟨h, Or.inr ⟨rfl, rfl, next_false_mem ho⟩⟩
      · exact ⟨hwf', Or.inl ⟨habs', rfl⟩⟩

/-- insert / upsert / update / ensert: the invariant is kept, and either the call did and returned
    exactly what the ideal dictionary does, or the allocator refused a request, the call reported
    ENOMEM and the dictionary is unchanged (a rehash or a disabled threshold may have happened) -/
theorem insertG_refines (c : Cfg) (t : Htb) (h : WF c t) (k v : Nat) (opt : Opt) (o : Oracle) :
    let r := insertG c t k v opt o
    WF c r.tb ∧ ((abs c r.tb, r.ret) = specIns (abs c t) k v opt ∨
                 (r.ret = .error .enomem ∧ abs c r.tb = abs c t ∧ false ∈ o)) := by
  intro r
  simp only [r, insertG]
  cases hf : chainFind k (bucketAt t (c.hash k % t.capa)) with
  | some p =>
    have ⟨_, hpk⟩ := chainFind_some hf
    have hp : p = (k, p.2) := by cases p; simp_all
    have hd : abs c t k = some p.2 := find_of_chainFind hf
    rw [hp] at hf
    have hcv := changeVal_refines c t h k p.2 v o hf
    simp only at hcv
    cases opt with
    | upsert =>
      simp only [specIns]
      refine ⟨hcv.1, ?_⟩
      rcases hcv.2 with ⟨ha, hr⟩ | ⟨hr, ht, ho⟩
      · left; rw [ha, hr]
      · right; exact ⟨hr, by rw [ht], ho⟩
    | update =>
      simp only [specIns, hd]
      refine ⟨hcv.1, ?_⟩
      rcases hcv.2 with ⟨ha, hr⟩ | ⟨hr, ht, ho⟩
      · left; rw [ha, hr]
      · right; exact ⟨hr, by rw [ht], ho⟩
    | ensert => simp only [specIns, hd]; exact ⟨h, Or.inl (by rw [← hp])⟩
    | insert => simp only [specIns, hd]; exact ⟨h, Or.inl trivial⟩
  | none =>
    have hd : abs c t k = none := by simp [abs, find, hf]
    by_cases hu : opt = .update
    · subst hu; simp only [if_pos, specIns, hd]; exact ⟨h, Or.inl trivial⟩
    · rw [if_neg hu]
      -- the table after the optional reorganization
      generalize hr : (if t.threshold > 0 ∧ t.size ≥ t.threshold then reorganize c t o else (t, false, o)) = rr
      have hw1 : WF c rr.1 := by rw [← hr]; split; exact reorganize_wf h o; exact h
      have ha1 : abs c rr.1 = abs c t := by
        funext k'; rw [← hr]; unfold abs; split; exact reorganize_find h o k'; rfl
      have hsz : rr.1.size = t.size := by rw [← hr]; split; exact reorganize_size o; rfl
      have ho1 : false ∈ rr.2.2 → false ∈ o := by rw [← hr]; split; exact reorganize_orc o; exact id
      have hc1 : (if rr.2.1 = true then c.hash k % rr.1.capa else c.hash k % t.capa) = c.hash k % rr.1.capa := by
        split
        · rfl
        · rename_i hb
          have : rr.1.capa = t.capa := by
            rw [← hr] at hb ⊢; split
            · rename_i hc; rw [if_pos hc] at hb; exact reorganize_capa_of_fail o (by simpa using hb)
            · rfl
          rw [this]
      simp only [hc1]
      cases hn : rr.2.2.next with
      | mk b o2 =>
        cases b with
        | false =>
          simp only
          exact ⟨hw1, Or.inr ⟨trivial, ha1, ho1 (next_false_mem hn)⟩⟩
        | true =>
          simp only
          have hi := hw1.idx k
          have hbi := bucketAt_eq hi
          have hnone : chainFind k (bucketAt rr.1 (c.hash k % rr.1.capa)) = none := by
            have : abs c rr.1 k = none := by rw [ha1]; exact hd
            simp only [abs, find, Option.map_eq_none_iff] at this; exact this
          have hwf' := hw1.set hi ((k, v) :: bucketAt rr.1 (c.hash k % rr.1.capa)) (rr.1.size + 1) ?_ ?_ ?_
          · refine ⟨hwf', Or.inl ?_⟩
            have hspec : specIns (abs c t) k v opt = ((abs c t).set k v, .ok (k, v)) := by
              cases opt <;> simp_all [specIns]
            rw [hspec]
            congr 1
            funext k'
            have := find_set c rr.1 (c.hash k % rr.1.capa) ((k, v) :: bucketAt rr.1 (c.hash k % rr.1.capa)) (rr.1.size + 1) hi k'
            simp only [abs, Dict.set]
            rw [this]
            by_cases hk : k' = k
            · subst hk; simp [chainFind_cons_eq]
            · rw [if_neg hk, chainFind_cons_ne hk]
              have : find c rr.1 k' = find c t k' := congrFun ha1 k'
              by_cases hb : c.hash k' % rr.1.capa = c.hash k % rr.1.capa
              · rw [if_pos hb, ← this, find, hb]
              · rw [if_neg hb, this]
          · intro p hp
            rcases List.mem_cons.mp hp with hp | hp
            · rw [hp]
            · exact hw1.place _ _ hbi p hp
          · simp only [List.map_cons, List.nodup_cons]
            exact ⟨chainFind_none.mp hnone, hw1.nodup _ _ hbi⟩
          · simp only [List.length_cons]; omega

/-- the table with the value under an existing key replaced in its chain -/
theorem setVal_table (c : Cfg) (t : Htb) (h : WF c t) (k old v : Nat)
    (hf : chainFind k (bucketAt t (c.hash k % t.capa)) = some (k, old)) :
    WF c { t with buckets := t.buckets.set (c.hash k % t.capa) (chainSet k v (bucketAt t (c.hash k % t.capa))) } ∧
    abs c { t with buckets := t.buckets.set (c.hash k % t.capa) (chainSet k v (bucketAt t (c.hash k % t.capa))) }
      = (abs c t).set k v := by
  have hi := h.idx k
  have hbi := bucketAt_eq hi
  constructor
  · have := h.set hi (chainSet k v (bucketAt t (c.hash k % t.capa))) t.size ?_ ?_ ?_
    · exact this
    · intro p hp
      have : p.1 ∈ (chainSet k v (bucketAt t (c.hash k % t.capa))).map Prod.fst := List.mem_map.mpr ⟨p, hp, rfl⟩
      rw [chainSet_keys] at this
      rcases List.mem_map.mp this with ⟨q, hq, hqp⟩
      rw [← hqp]; exact h.place _ _ hbi q hq
    · rw [chainSet_keys]; exact h.nodup _ _ hbi
    · rw [chainSet_length]
  · funext k'
    have := find_set c t (c.hash k % t.capa) (chainSet k v (bucketAt t (c.hash k % t.capa))) t.size hi k'
    simp only [abs, Dict.set]
    rw [this, chainFind_chainSet]
    by_cases hk : k' = k
    · subst hk; simp [hf]
    · rw [if_neg hk, if_neg hk]
      by_cases hb : c.hash k' % t.capa = c.hash k % t.capa
      · rw [if_pos hb, find, hb]
      · rw [if_neg hb]

/-- the table with a pair for a missing key linked at the head of its chain -/
theorem addNew_table (c : Cfg) (t : Htb) (h : WF c t) (k v : Nat) (hd : abs c t k = none) :
    WF c { t with buckets := t.buckets.set (c.hash k % t.capa) ((k, v) :: bucketAt t (c.hash k % t.capa)), size := t.size + 1 } ∧
    abs c { t with buckets := t.buckets.set (c.hash k % t.capa) ((k, v) :: bucketAt t (c.hash k % t.capa)), size := t.size + 1 }
      = (abs c t).set k v := by
  have hi := h.idx k
  have hbi := bucketAt_eq hi
  have hnone : chainFind k (bucketAt t (c.hash k % t.capa)) = none := by
    simp only [abs, find, Option.map_eq_none_iff] at hd; exact hd
  constructor
  · refine h.set hi ((k, v) :: bucketAt t (c.hash k % t.capa)) (t.size + 1) ?_ ?_ ?_
    · intro p hp
      rcases List.mem_cons.mp hp with hp | hp
      · rw [hp]
      · exact h.place _ _ hbi p hp
    · simp only [List.map_cons, List.nodup_cons]
      exact ⟨chainFind_none.mp hnone, h.nodup _ _ hbi⟩
    · simp only [List.length_cons]; omega
  · funext k'
    have := find_set c t (c.hash k % t.capa) ((k, v) :: bucketAt t (c.hash k % t.capa)) (t.size + 1) hi k'
    simp only [abs, Dict.set]
    rw [this]
    by_cases hk : k' = k
    · subst hk; simp [chainFind_cons_eq]
    · rw [if_neg hk, chainFind_cons_ne hk]
      by_cases hb : c.hash k' % t.capa = c.hash k % t.capa
      · rw [if_pos hb, find, hb]
      · rw [if_neg hb]

/-- the optional reorganization at the start of an insertion of a missing key: invariant and dictionary are
    kept, the oracle only loses answers, and the bucket index used afterwards is the right one for the
    (possibly new) capacity — whether or not `hc` was recomputed -/
theorem maybeReorg_facts (c : Cfg) (t : Htb) (h : WF c t) (k : Nat) (o : Oracle) :
    let rr := if t.threshold > 0 ∧ t.size ≥ t.threshold then reorganize c t o else (t, false, o)
    WF c rr.1 ∧ abs c rr.1 = abs c t ∧ (false ∈ rr.2.2 → false ∈ o) ∧
    (if rr.2.1 = true then c.hash k % rr.1.capa else c.hash k % t.capa) = c.hash k % rr.1.capa := by
  intro rr
  refine ⟨?_, ?_, ?_, ?_⟩
  · simp only [rr]; split; exact reorganize_wf h o; exact h
  · funext k'; simp only [rr]; unfold abs; split; exact reorganize_find h o k'; rfl
  · simp only [rr]; split; exact reorganize_orc o; exact id
  · split
    · rfl
    · rename_i hb
      have : rr.1.capa = t.capa := by
        simp only [rr] at hb ⊢; split
        · rename_i hc; rw [if_pos hc] at hb; exact reorganize_capa_of_fail o (by simpa using hb)
        · rfl
      rw [this]

/-- hawk_htb_cbsert: the invariant is kept, and either the call did and returned exactly what the ideal
    dictionary does with that callback, or the allocator refused the callback's hawk_htb_allocpair, the
    call failed with ENOMEM and the dictionary is unchanged -/
theorem cbsert_refines (c : Cfg) (t : Htb) (h : WF c t) (k : Nat) (f : Option Nat → CbAns) (o : Oracle) :
    let r := cbsert c t k f o
    WF c r.tb ∧ ((abs c r.tb, r.ret) = specCb (abs c t) k f ∨
                 (r.ret = .error .enomem ∧ abs c r.tb = abs c t ∧ false ∈ o)) := by
  intro r
  simp only [r, cbsert]
  cases hf : chainFind k (bucketAt t (c.hash k % t.capa)) with
  | some p =>
    have ⟨_, hpk⟩ := chainFind_some hf
    have hp : p = (k, p.2) := by cases p; simp_all
    have hd : abs c t k = some p.2 := find_of_chainFind hf
    simp only [specCb, hd]
    cases hans : f (some p.2) with
    | fail => exact ⟨h, Or.inl rfl⟩
    | keep => simp only; exact ⟨h, Or.inl (by rw [← hp])⟩
    | fresh v =>
      simp only
      rw [hp] at hf
      have hsv := setVal_table c t h k p.2 v hf
      cases hn : o.next with
      | mk b o' =>
        cases b with
        | false => exact ⟨h, Or.inr ⟨rfl, rfl, next_false_mem hn⟩⟩
        | true => simp only; exact ⟨hsv.1, Or.inl (by rw [hsv.2])⟩
  | none =>
    have hd : abs c t k = none := by simp [abs, find, hf]
    have hm := maybeReorg_facts c t h k o
    simp only at hm
    generalize (if t.threshold > 0 ∧ t.size ≥ t.threshold then reorganize c t o else (t, false, o)) = rr at hm
    obtain ⟨hw1, ha1, ho1, hc1⟩ := hm
    simp only [specCb, hd, hc1]
    have hd1 : abs c rr.1 k = none := by rw [ha1]; exact hd
    have hadd := fun v => addNew_table c rr.1 hw1 k v hd1
    cases hans : f none with
    | fail => simp only; exact ⟨hw1, Or.inl (by rw [ha1])⟩
    | keep => simp only; exact ⟨hw1, Or.inl (by rw [ha1])⟩
    | fresh v =>
      simp only
      cases hn : rr.2.2.next with
      | mk b o2 =>
        cases b with
        | false => exact ⟨hw1, Or.inr ⟨rfl, ha1, ho1 (next_false_mem hn)⟩⟩
        | true => simp only; exact ⟨(hadd v).1, Or.inl (by rw [(hadd v).2, ha1])⟩

/-- delete: the invariant is kept and the call does and returns exactly what the ideal dictionary does -/
theorem delete_refines (c : Cfg) (t : Htb) (h : WF c t) (k : Nat) :
    let r := delete c t k
    WF c r.1 ∧ (abs c r.1, r.2.1) = specDel (abs c t) k := by
  intro r
  simp only [r, delete]
  have hi := h.idx k
  have hbi := bucketAt_eq hi
  cases hf : chainFind k (bucketAt t (c.hash k % t.capa)) with
  | none =>
    have hd : abs c t k = none := by simp [abs, find, hf]
    simp only [specDel, hd]; exact ⟨h, trivial⟩
  | some p =>
    have hd : abs c t k = some p.2 := find_of_chainFind hf
    simp only [specDel, hd]
    have hlen := chainDel_length hf
    have hwf' := h.set hi (chainDel k (bucketAt t (c.hash k % t.capa))) (t.size - 1) ?_ ?_ ?_
    · refine ⟨hwf', ?_⟩
      congr 1
      funext k'
      have := find_set c t (c.hash k % t.capa) (chainDel k (bucketAt t (c.hash k % t.capa))) (t.size - 1) hi k'
      simp only [abs, Dict.erase]
      rw [this, chainFind_chainDel _ _ _ (h.nodup _ _ hbi)]
      by_cases hk : k' = k
      · subst hk; simp
      · rw [if_neg hk, if_neg hk]
        by_cases hb : c.hash k' % t.capa = c.hash k % t.capa
        · rw [if_pos hb, find, hb]
        · rw [if_neg hb]
    · intro q hq; exact h.place _ _ hbi q (chainDel_mem hq)
    · exact ((chainDel_sublist k _).map Prod.fst).nodup (h.nodup _ _ hbi)
    · have hs := h.size
      have := sum_length_set hi ([] : Chain)
      rw [← bucketAt_getElem hi] at this
      simp only [List.length_nil] at this
      omega

/-- search returns what the ideal dictionary holds -/
theorem search_refines (c : Cfg) (t : Htb) (k : Nat) : search c t k = specSearch (abs c t) k := by
  unfold search specSearch abs find
  cases hf : chainFind k (bucketAt t (c.hash k % t.capa)) with
  | none => rfl
  | some p =>
    have ⟨_, hk⟩ := chainFind_some hf
    cases p; simp_all

/-- clear: invariant kept, dictionary empty, size field back to 0 -/
theorem clear_refines (c : Cfg) (t : Htb) (h : WF c t) :
    WF c (clear t).1 ∧ abs c (clear t).1 = Dict.empty ∧ (clear t).1.size = 0 := by
  have hb : (clear t).1.buckets = List.replicate t.capa [] := by
    simp [clear, h.len]
  have hs : (clear t).1.size = 0 := by
    simp only [clear]; rw [h.size_pairs]; omega
  have hw : WF c (clear t).1 := by
    refine ⟨by rw [hb]; simp [clear], h.pos, ?_, ?_, ?_⟩
    · intro i b hib p hp
      rw [hb] at hib
      have := List.mem_of_getElem? hib
      rw [List.mem_replicate] at this; rw [this.2] at hp; simp at hp
    · intro i b hib
      rw [hb] at hib
      have := List.mem_of_getElem? hib
      rw [List.mem_replicate] at this; rw [this.2]; simp
    · rw [hs, hb, ← List.length_flatten, List.flatten_replicate_nil]; rfl
  refine ⟨hw, ?_, hs⟩
  funext k
  apply Option.ext; intro v
  unfold abs
  rw [← mem_pairs_iff hw, pairs_eq hw, hb]
  simp [Dict.empty, List.flatten_replicate_nil]

/-! ## histories -/

inductive Op where
  | ins (opt : Opt) (k v : Nat) (o : Oracle)
  | cbsert (k : Nat) (f : Option Nat → CbAns) (o : Oracle)
  | delete (k : Nat)
  | search (k : Nat)
  | clear

/-- what a call lets its caller see -/
inductive Ret where
  | pair (r : Except Err Pair)
  | code (r : Except Err Unit)

def step (c : Cfg) (t : Htb) : Op → Htb × Ret
  | .ins opt k v o => let r := insertG c t k v opt o; (r.tb, .pair r.ret)
  | .cbsert k f o => let r := cbsert c t k f o; (r.tb, .pair r.ret)
  | .delete k => let r := delete c t k; (r.1, .code r.2.1)
  | .search k => (t, .pair (search c t k))
  | .clear => ((clear t).1, .code (.ok ()))

def specStep (d : Dict) : Op → Dict × Ret
  | .ins opt k v _ => let r := specIns d k v opt; (r.1, .pair r.2)
  | .cbsert k f _ => let r := specCb d k f; (r.1, .pair r.2)
  | .delete k => let r := specDel d k; (r.1, .code r.2)
  | .search k => (d, .pair (specSearch d k))
  | .clear => (Dict.empty, .code (.ok ()))

/-- table and visible results after a history -/
def run (c : Cfg) (t : Htb) : List Op → Htb × List Ret
  | [] => (t, [])
  | op :: ops => let s := step c t op; let r := run c s.1 ops; (r.1, s.2 :: r.2)

def specRun (d : Dict) : List Op → Dict × List Ret
  | [] => (d, [])
  | op :: ops => let s := specStep d op; let r := specRun s.1 ops; (r.1, s.2 :: r.2)

/-- one step of the ideal dictionary, which may refuse an allocating call when the allocator refuses -/
inductive SpecStep : Dict → Op → Ret → Dict → Prop
  | ideal (d : Dict) (op : Op) : SpecStep d op (specStep d op).2 (specStep d op).1
  | refused (d : Dict) (opt : Opt) (k v : Nat) (o : Oracle) :
      false ∈ o → SpecStep d (.ins opt k v o) (.pair (.error .enomem)) d
  | refusedCb (d : Dict) (k : Nat) (f : Option Nat → CbAns) (o : Oracle) :
      false ∈ o → SpecStep d (.cbsert k f o) (.pair (.error .enomem)) d

inductive SpecRun : Dict → List Op → List Ret → Dict → Prop
  | nil (d : Dict) : SpecRun d [] [] d
  | cons {d d' d'' : Dict} {op : Op} {r : Ret} {ops : List Op} {rs : List Ret} :
      SpecStep d op r d' → SpecRun d' ops rs d'' → SpecRun d (op :: ops) (r :: rs) d''

theorem step_wf (c : Cfg) (t : Htb) (h : WF c t) (op : Op) : WF c (step c t op).1 := by
  cases op with
  | ins opt k v o => exact (insertG_refines c t h k v opt o).1
  | cbsert k f o => exact (cbsert_refines c t h k f o).1
  | delete k => exact (delete_refines c t h k).1
  | search k => exact h
  | clear => exact (clear_refines c t h).1

theorem step_refines (c : Cfg) (t : Htb) (h : WF c t) (op : Op) :
    SpecStep (abs c t) op (step c t op).2 (abs c (step c t op).1) := by
  cases op with
  | ins opt k v o =>
    rcases (insertG_refines c t h k v opt o).2 with he | ⟨hr, ha, ho⟩
    · have := SpecStep.ideal (abs c t) (.ins opt k v o)
      simp only [specStep, ← he] at this
      exact this
    · simp only [step, hr, ha]; exact SpecStep.refused _ _ _ _ _ ho
  | cbsert k f o =>
    rcases (cbsert_refines c t h k f o).2 with he | ⟨hr, ha, ho⟩
    · have := SpecStep.ideal (abs c t) (.cbsert k f o)
      simp only [specStep, ← he] at this
      exact this
    · simp only [step, hr, ha]; exact SpecStep.refusedCb _ _ _ _ ho
  | delete k =>
    have he := (delete_refines c t h k).2
    have := SpecStep.ideal (abs c t) (.delete k)
    simp only [specStep, ← he] at this
    exact this
  | search k =>
    have := SpecStep.ideal (abs c t) (.search k)
    simp only [specStep, ← search_refines] at this
    exact this
  | clear =>
    have := SpecStep.ideal (abs c t) .clear
    simp only [specStep] at this
    simp only [step, (clear_refines c t h).2.1]
    exact this

theorem run_wf (c : Cfg) (t : Htb) (h : WF c t) (ops : List Op) : WF c (run c t ops).1 := by
  induction ops generalizing t with
  | nil => exact h
  | cons op ops ih => exact ih _ (step_wf c t h op)

theorem run_refines (c : Cfg) (t : Htb) (h : WF c t) (ops : List Op) :
    SpecRun (abs c t) ops (run c t ops).2 (abs c (run c t ops).1) := by
  induction ops generalizing t with
  | nil => exact SpecRun.nil _
  | cons op ops ih => exact SpecRun.cons (step_refines c t h op) (ih _ (step_wf c t h op))

/-- no allocator refusal anywhere in the op -/
def Op.calm : Op → Prop
  | .ins _ _ _ o => false ∉ o
  | .cbsert _ _ o => false ∉ o
  | _ => True

theorem step_refines_exact (c : Cfg) (t : Htb) (h : WF c t) (op : Op) (hc : op.calm) :
    (abs c (step c t op).1, (step c t op).2) = specStep (abs c t) op := by
  cases op with
  | ins opt k v o =>
    rcases (insertG_refines c t h k v opt o).2 with he | ⟨_, _, ho⟩
    · simp only [step, specStep, ← he]
    · exact absurd ho hc
  | cbsert k f o =>
    rcases (cbsert_refines c t h k f o).2 with he | ⟨_, _, ho⟩
    · simp only [step, specStep, ← he]
    · exact absurd ho hc
  | delete k =>
    have he := (delete_refines c t h k).2
    simp only [step, specStep, ← he]
  | search k => simp only [step, specStep, search_refines]
  | clear => simp only [step, specStep, (clear_refines c t h).2.1]

theorem run_refines_exact (c : Cfg) (t : Htb) (h : WF c t) (ops : List Op) (hc : ∀ op ∈ ops, op.calm) :
    (abs c (run c t ops).1, (run c t ops).2) = specRun (abs c t) ops := by
  induction ops generalizing t with
  | nil => rfl
  | cons op ops ih =>
    have hstep := step_refines_exact c t h op (hc _ (by simp))
    have := ih _ (step_wf c t h op) (fun op' hop => hc op' (by simp [hop]))
    simp only [run, specRun]
    rw [← hstep]
    simp only
    rw [← this]

/-! ## every reachable state: invariant, refinement, iteration -/

/-- **structure invariant** — after any history from `hawk_htb_init`, for any hash function and allocator
    behaviour: the bucket array has `capa > 0` slots, every pair sits in the bucket its hash selects,
    no chain holds a key twice, and the `size` field is the sum of the chain lengths -/
theorem reachable_wf (c : Cfg) (capa factor : Nat) (ops : List Op) : WF c (run c (init capa factor) ops).1 :=
  run_wf c _ (init_wf c capa factor) ops

/-- `size` = Σ bucket lengths in every reachable state -/
theorem reachable_size_eq_sum (c : Cfg) (capa factor : Nat) (ops : List Op) :
    let t := (run c (init capa factor) ops).1
    t.size = (t.buckets.map List.length).sum ∧ t.buckets.length = t.capa :=
  ⟨(reachable_wf c capa factor ops).size, (reachable_wf c capa factor ops).len⟩

/-- keys are unique across the whole table in every reachable state -/
theorem reachable_keys_unique (c : Cfg) (capa factor : Nat) (ops : List Op) :
    ((pairs (run c (init capa factor) ops).1).map Prod.fst).Nodup :=
  pairs_keys_nodup (reachable_wf c capa factor ops)

/-- every pair of a reachable table sits in the bucket selected by its hash and the current capacity
    (in particular after every rehash) -/
theorem reachable_placement (c : Cfg) (capa factor : Nat) (ops : List Op) (i : Nat) (b : Chain) (p : Pair) :
    let t := (run c (init capa factor) ops).1
    t.buckets[i]? = some b → p ∈ b → c.hash p.1 % t.capa = i :=
  fun hb hp => (reachable_wf c capa factor ops).place i b hb p hp

/-- **dictionary refinement** — the visible results of any history are those of the ideal dictionary
    started empty (which may refuse an allocating call only when the allocator refuses), and the final
    table stands for the ideal dictionary's final state -/
theorem reachable_refines (c : Cfg) (capa factor : Nat) (ops : List Op) :
    SpecRun Dict.empty ops (run c (init capa factor) ops).2 (abs c (run c (init capa factor) ops).1) := by
  have := run_refines c _ (init_wf c capa factor) ops
  rw [init_abs] at this; exact this

/-- without allocator refusals the results are *exactly* the ideal dictionary's, deterministically -/
theorem reachable_refines_exact (c : Cfg) (capa factor : Nat) (ops : List Op) (hc : ∀ op ∈ ops, op.calm) :
    (abs c (run c (init capa factor) ops).1, (run c (init capa factor) ops).2) = specRun Dict.empty ops := by
  have := run_refines_exact c _ (init_wf c capa factor) ops hc
  rw [init_abs] at this; exact this

/-- the n-th call of getfirstpair/getnextpair/getnextpair/… returns the n-th pair of the bucket
    traversal and NULL from call number `size` on: the iteration ends after exactly `size` pairs -/
theorem iter_nth (c : Cfg) (t : Htb) (h : WF c t) (n : Nat) :
    (iterSeq t n).map (·.cur) = (pairs t)[n]? := by
  have := itOk_seq h n
  rw [← List.head?_drop]
  cases hs : iterSeq t n with
  | none => rw [hs] at this; simp only [ItOk] at this; rw [this]; rfl
  | some it => rw [hs] at this; simp only [ItOk] at this; rw [this]; rfl

/-- a walk whose walker never says STOP hands over every pair of the traversal; any walk hands over
    a prefix of it -/
theorem walk_spec (t : Htb) (f : Pair → Bool) : walk t (fun _ => true) = pairs t ∧ walk t f <+: pairs t :=
  ⟨walkList_all _, walkList_prefix f _⟩

/-- the traversal is a permutation of any duplicate-free association list that represents the same
    dictionary -/
theorem pairs_perm_assoc (c : Cfg) (t : Htb) (h : WF c t) (d : List Pair) (hd : (d.map Prod.fst).Nodup)
    (hm : ∀ k v, (k, v) ∈ d ↔ abs c t k = some v) : (pairs t).Perm d := by
  rw [List.perm_ext_iff_of_nodup (nodup_of_map _ (pairs_keys_nodup h)) (nodup_of_map _ hd)]
  intro p; cases p with
  | mk k v => rw [mem_pairs_iff h, hm]; rfl

/-- **iteration visits every pair exactly once** — in every state reachable by any history (rehashes
    and failed rehashes included): the iterator and the walk enumerate the same list; it has exactly
    `size` entries, no key twice, and its entries are exactly the pairs of the dictionary the table
    stands for -/
theorem reachable_iteration (c : Cfg) (capa factor : Nat) (ops : List Op) :
    let t := (run c (init capa factor) ops).1
    (∀ n, (iterSeq t n).map (·.cur) = (pairs t)[n]?) ∧
    walk t (fun _ => true) = pairs t ∧
    (pairs t).length = t.size ∧
    ((pairs t).map Prod.fst).Nodup ∧
    (∀ k v, (k, v) ∈ pairs t ↔ abs c t k = some v) := by
  intro t
  have h : WF c t := reachable_wf c capa factor ops
  exact ⟨iter_nth c t h, walkList_all _, h.size_pairs.symm, pairs_keys_nodup h, mem_pairs_iff h⟩

/-! ## non-vacuity: histories with rehashes and with a failed rehash are covered -/

private def cId : Cfg := { hash := id }
private def cConst : Cfg := { hash := fun _ => 7, vinline := true, vlen := fun v => v % 3 + 1 }

/-- three inserts from capacity 1 rehash twice (1 → 2 → 4) -/
example : (run cId (init 1 75) [.ins .insert 1 10 [], .ins .insert 2 20 [], .ins .insert 3 30 []]).1
    = { buckets := [[], [(1, 10)], [(2, 20)], [(3, 30)]], size := 3, capa := 4, threshold := 3, factor := 75 } := by
  decide

/-- a refused rehash allocation disables the threshold, the insertion still happens -/
example : (run cId (init 1 75) [.ins .insert 1 10 [], .ins .insert 2 20 [false], .ins .insert 3 30 []]).1
    = { buckets := [[(3, 30), (2, 20), (1, 10)]], size := 3, capa := 1, threshold := 0, factor := 75 } := by
  decide

/-- all keys colliding, an in-place value change and a delete in the middle of the chain -/
example : (run cConst (init 2 100) [.ins .insert 1 10 [], .ins .insert 2 20 [], .ins .insert 3 30 [],
      .ins .upsert 2 21 [], .delete 1]).1
    = { buckets := [[], [], [], [(3, 30), (2, 21)]], size := 2, capa := 4, threshold := 4, factor := 100 } := by
  decide

/-- cbsert with an "append" callback: creates the pair, then replaces it in the middle of a collision chain;
    a refusing callback changes nothing -/
example :
    let add (v : Nat) : Option Nat → CbAns := fun | none => .fresh v | some w => .fresh (w + v)
    (run cConst (init 4 100) [.cbsert 1 (add 10) [], .cbsert 2 (add 20) [], .cbsert 3 (add 30) [], .cbsert 2 (add 5) [],
      .cbsert 2 (fun _ => .fail) [], .cbsert 3 (fun _ => .keep) []])
    = ({ buckets := [[], [], [], [(3, 30), (2, 25), (1, 10)]], size := 3, capa := 4, threshold := 4, factor := 100 },
       [.pair (.ok (1, 10)), .pair (.ok (2, 20)), .pair (.ok (3, 30)), .pair (.ok (2, 25)), .pair (.error .ecb), .pair (.ok (3, 30))]) := by
  rfl

end Hawk.Htb

/-! # `for (k in m)` -/
namespace Hawk.ForIn

variable {σ κ : Type}

/-- a statement that leaves the snapshot stack as it found it -/
def Bal (body : St σ κ → St σ κ × Exit) : Prop := ∀ s, (body s).1.stack = s.stack

/-- core lemma: with `done` snapshot entries consumed and `ks` still ahead, the stack-reading loop of the C
    is the plain recursion over `ks` -/
theorem iter_eq_spec (L : Loop σ κ) (hb : Bal L.body) (pre : List κ) (ks : List κ) :
    ∀ (fuel : Nat) (done : List κ) (u : σ) (acc : List κ), ks.length ≤ fuel →
      iter L fuel (pre.length + done.length) ⟨u, pre ++ done ++ ks⟩ acc
        = loopSpec L ks ⟨u, pre ++ done ++ ks⟩ acc := by
  induction ks with
  | nil =>
    intro fuel done u acc _
    cases fuel with
    | zero => rfl
    | succ f =>
      have : (pre ++ done ++ ([] : List κ))[pre.length + done.length]? = none := by
        apply List.getElem?_eq_none; simp
      simp only [iter, this, loopSpec]
  | cons k ks ih =>
    intro fuel done u acc hf
    cases fuel with
    | zero => simp at hf
    | succ f =>
      have hget : (pre ++ done ++ k :: ks)[pre.length + done.length]? = some k := by
        rw [← List.length_append, List.getElem?_append_right (Nat.le_refl _)]; simp
      simp only [iter, hget, loopSpec]
      cases L.assign k u with
      | none => rfl
      | some u' =>
        simp only
        have hst := hb ⟨u', pre ++ done ++ k :: ks⟩
        simp only at hst
        have hr : (L.body ⟨u', pre ++ done ++ k :: ks⟩).1
            = ⟨(L.body ⟨u', pre ++ done ++ k :: ks⟩).1.user, pre ++ (done ++ [k]) ++ ks⟩ := by
          have : pre ++ (done ++ [k]) ++ ks = pre ++ done ++ k :: ks := by simp
          rw [this]
          generalize L.body ⟨u', pre ++ done ++ k :: ks⟩ = B at hst ⊢
          cases B with
          | mk B1 e => cases B1 with
            | mk uu st => dsimp only at hst ⊢; rw [hst]
        have hidx : pre.length + done.length + 1 = pre.length + (done ++ [k]).length := by simp; omega
        have hih := ih f (done ++ [k]) (L.body ⟨u', pre ++ done ++ k :: ks⟩).1.user (k :: acc) (by simp at hf; omega)
        rw [← hidx, ← hr] at hih
        cases (L.body ⟨u', pre ++ done ++ k :: ks⟩).2 <;> simp only [hih]

theorem loopSpec_stack (L : Loop σ κ) (hb : Bal L.body) (ks : List κ) :
    ∀ (s : St σ κ) (acc : List κ), (loopSpec L ks s acc).st.stack = s.stack := by
  induction ks with
  | nil => intro s acc; rfl
  | cons k ks ih =>
    intro s acc
    simp only [loopSpec]
    cases L.assign k s.user with
    | none => rfl
    | some u =>
      simp only
      have hst := hb { s with user := u }
      simp only at hst
      cases (L.body { s with user := u }).2 <;> simp only [ih, hst]

/-- **the loop is a fold over the entry-time key list.**  For every body that leaves the snapshot stack
    balanced (every statement does: `exec_balanced`) — whatever else it does to the state, deleting,
    adding, resetting or replacing the iterated container included — `run_forin` behaves exactly like
    the recursion over the list of keys the container had on entry, and restores the stack. -/
theorem runForIn_eq_spec (L : Loop σ κ) (hb : Bal L.body) (s : St σ κ) (ks : List κ)
    (hk : L.coll s.user = .keys ks) :
    runForIn L s =
      let r := loopSpec L ks { s with stack := s.stack ++ ks } []
      { r with st := { r.st with stack := s.stack } } := by
  have h1 := iter_eq_spec L hb s.stack ks ks.length [] s.user [] (Nat.le_refl _)
  simp only [List.length_nil, Nat.add_zero, List.append_nil] at h1
  have h2 := loopSpec_stack L hb ks { s with stack := s.stack ++ ks } []
  simp only [runForIn, hk, h1, h2, List.take_left']

/-- the fuel of `iter` (number of snapshot entries) is never what stops the loop: more fuel changes nothing -/
theorem fuel_irrelevant (L : Loop σ κ) (hb : Bal L.body) (s : St σ κ) (ks : List κ) (extra : Nat) :
    iter L (ks.length + extra) s.stack.length { s with stack := s.stack ++ ks } []
      = iter L ks.length s.stack.length { s with stack := s.stack ++ ks } [] := by
  have h1 := iter_eq_spec L hb s.stack ks ks.length [] s.user [] (Nat.le_refl _)
  have h2 := iter_eq_spec L hb s.stack ks (ks.length + extra) [] s.user [] (Nat.le_add_right _ _)
  simp only [List.length_nil, Nat.add_zero, List.append_nil] at h1 h2
  rw [h1, h2]

theorem loopSpec_visited_prefix (L : Loop σ κ) (ks : List κ) :
    ∀ (s : St σ κ) (acc : List κ), ∃ v, (loopSpec L ks s acc).visited = acc.reverse ++ v ∧ v <+: ks := by
  induction ks with
  | nil => intro s acc; exact ⟨[], by simp [loopSpec], List.prefix_refl _⟩
  | cons k ks ih =>
    intro s acc
    simp only [loopSpec]
    cases L.assign k s.user with
    | none => exact ⟨[], by simp, List.nil_prefix⟩
    | some u =>
      simp only
      have stop : ∃ v, (k :: acc).reverse = acc.reverse ++ v ∧ v <+: k :: ks :=
        ⟨[k], by simp, by simp [List.prefix_cons_iff]⟩
      have go : ∃ v, (loopSpec L ks (L.body { s with user := u }).1 (k :: acc)).visited = acc.reverse ++ v ∧ v <+: k :: ks := by
        rcases ih (L.body { s with user := u }).1 (k :: acc) with ⟨v, hv, hp⟩
        exact ⟨k :: v, by simp [hv], (List.prefix_cons_inj k).mpr hp⟩
      cases (L.body { s with user := u }).2 <;> first | exact go | exact stop

theorem loopSpec_visited_all (L : Loop σ κ) (ks : List κ)
    (hgo : ∀ s, (L.body s).2 = .none ∨ (L.body s).2 = .cont) (has : ∀ k u, L.assign k u ≠ none) :
    ∀ (s : St σ κ) (acc : List κ), (loopSpec L ks s acc).visited = acc.reverse ++ ks ∧ (loopSpec L ks s acc).exit = .none := by
  induction ks with
  | nil => intro s acc; simp [loopSpec]
  | cons k ks ih =>
    intro s acc
    simp only [loopSpec]
    cases ha : L.assign k s.user with
    | none => exact absurd ha (has _ _)
    | some u =>
      simp only
      rcases hgo { s with user := u } with h | h <;> rw [h] <;> simp only <;>
        (have := ih (L.body { s with user := u }).1 (k :: acc); simpa using this)

/-- **`for (k in m)` visits exactly the keys present when the loop started.**  `ks` is the key list of the
    container in its iteration order *at loop entry*.  Whatever the (balanced) body does, the keys assigned
    to the loop variable form a prefix of `ks`; the snapshot stack is restored -/
theorem forin_visits_prefix (L : Loop σ κ) (hb : Bal L.body) (s : St σ κ) (ks : List κ)
    (hk : L.coll s.user = .keys ks) :
    (runForIn L s).visited <+: ks ∧ (runForIn L s).st.stack = s.stack := by
  rw [runForIn_eq_spec L hb s ks hk]
  rcases loopSpec_visited_prefix L ks { s with stack := s.stack ++ ks } [] with ⟨v, hv, hp⟩
  simp only [hv, List.reverse_nil, List.nil_append]
  exact ⟨hp, trivial⟩

/-- … and it is all of `ks`, each key once and in order, unless an iteration ends in
    break / return / exit / an error: if every run of the body ends normally or with `continue`, the loop
    variable takes exactly the entry-time key sequence -/
theorem forin_visits_all (L : Loop σ κ) (hb : Bal L.body) (s : St σ κ) (ks : List κ)
    (hk : L.coll s.user = .keys ks)
    (hgo : ∀ s, (L.body s).2 = .none ∨ (L.body s).2 = .cont) (has : ∀ k u, L.assign k u ≠ none) :
    (runForIn L s).visited = ks ∧ (runForIn L s).exit = .none := by
  rw [runForIn_eq_spec L hb s ks hk]
  have := loopSpec_visited_all L ks hgo has { s with stack := s.stack ++ ks } []
  simpa using this

/-- run_forin itself is balanced when its body is: nested loops may share the stack -/
theorem runForIn_balanced (L : Loop σ κ) (hb : Bal L.body) (s : St σ κ) : (runForIn L s).st.stack = s.stack := by
  cases hk : L.coll s.user with
  | nil => simp [runForIn, hk]
  | other => simp [runForIn, hk]
  | keys ks => exact (forin_visits_prefix L hb s ks hk).2

/-- every statement of the language (any nesting of loops, calls, deletes, resets, reassignments) is balanced -/
theorem exec_balanced (st : Stmt) : Bal (exec st) := by
  induction st with
  | forin x m b ih => intro s; exact runForIn_balanced (loopOf x m (exec b)) ih s
  | seq a b iha ihb =>
    intro s; simp only [exec]; split
    · rw [ihb, iha]
    · exact iha s
  | ifeq x k b ih => intro s; simp only [exec]; split; exact ih s; rfl
  | call b ih => intro s; exact ih s
  | del m k => intro s; simp only [exec]; split <;> rfl
  | delcur m x => intro s; simp only [exec]; split <;> rfl
  | reset m => intro s; simp only [exec]; split <;> rfl
  | _ => intro s; rfl

/-- language level, no side condition: for any loop body written in the statement language, the loop
    variable of `for (K_x in M_m) body` runs through a prefix of the key list `M_m` had at entry, and
    through all of it when no iteration ends in break/return/exit -/
theorem forin_stmt_visits (x m : Nat) (b : Stmt) (s : S) (ks : List Nat) (hk : (s.user.var m).coll = .keys ks) :
    let r := runForIn (loopOf x m (exec b)) s
    exec (.forin x m b) s = (r.st, r.exit) ∧ r.visited <+: ks ∧ r.st.stack = s.stack ∧
    ((∀ s', (exec b s').2 = .none ∨ (exec b s').2 = .cont) → r.visited = ks ∧ r.exit = .none) := by
  intro r
  have hp := forin_visits_prefix (loopOf x m (exec b)) (exec_balanced b) s ks hk
  refine ⟨rfl, hp.1, hp.2, fun hgo => ?_⟩
  exact forin_visits_all (loopOf x m (exec b)) (exec_balanced b) s ks hk hgo (by intro k u; simp [loopOf])

/-! non-vacuity: a body that deletes the whole array and adds new keys still sees 1, 5, 9 -/
example :
    let prog := Stmt.seq (.newarr 0) (.seq (.set 0 5 1) (.seq (.set 0 1 1) (.seq (.set 0 9 1)
      (.forin 0 0 (.seq (.emit 0) (.seq (.reset 0) (.setcur 0 0 1)))))))
    let r := exec prog ⟨U.init, []⟩
    r.1.user.out.reverse = [1, 5, 9] ∧ r.1.user.var 0 = .arr [(10, 1)] ∧ r.1.stack = [] := by
  decide

/-! non-vacuity of the error exits: a for-in over a scalar inside a running loop aborts both loops with `err`,
    after one visit, and the shared snapshot stack is back to empty -/
example :
    let prog := Stmt.seq (.set 0 1 1) (.seq (.set 0 2 1) (.seq (.scalar 1) (.forin 0 0 (.seq (.emit 0) (.forin 1 1 .skip)))))
    let r := exec prog ⟨U.init, []⟩
    r.2 = .err ∧ r.1.user.out = [1] ∧ r.1.stack = [] := by
  decide

end Hawk.ForIn
