import HawkModel.ArrLemmas
import HawkModel.HeapLemmas
import HawkModel.HeapPosLemmas
/-!
# C19 — Sparse arrays stay consistent and every operation terminates

Property theorems only (helpers live in ArrLemmas/HeapLemmas).  Model: `HawkModel/Arr.lean`
(transcription of lib/arr.c).  Termination of every operation, for every index and every
allocator oracle, is carried by the fact that all model functions are total Lean definitions
(`dblLoop`, `retryCapa`, `siftUpLoop`, `siftDownLoop` are accepted with explicit decreasing
measures) together with `growth_reaches_index` below, which says the doubling loop's result is
large enough — the C loop it mirrors ends exactly when that inequality holds.
-/
namespace Hawk.Arr

inductive Op where
  | insert (pos v : Nat) (o : Oracle)
  | upsert (pos v : Nat) (o : Oracle)
  | update (pos v : Nat) (o : Oracle)
  | delete (index count : Nat)
  | uplete (index count : Nat)
  | clear
  | setcapa (capa : Nat) (o : Oracle)

def step (a : Arr) : Op → Arr
  | .insert p v o => (insert a p v o).arr
  | .upsert p v o => (upsert a p v o).arr
  | .update p v o => (update a p v o).arr
  | .delete i c => (delete a i c).1
  | .uplete i c => (uplete a i c).1
  | .clear => (clear a).1
  | .setcapa c o => (setcapa a c o).1

/-- every state reachable from the empty array by any history -/
def run (ops : List Op) : Arr := ops.foldl step empty

/-! ## growth terminates and is sufficient -/

/-- the doubling loop (which Lean accepted as terminating for every `bound`) yields a capacity
    beyond the requested index: growth to any index completes -/
theorem growth_reaches_index (a : Arr) (pos : Nat) (h : a.size ≤ a.capa) :
    pos < wantCapa a pos ∧ a.size < wantCapa a pos := by
  have := minCapa_le_wantCapa a pos h
  unfold minCapa at this; split at this <;> omega

/-- the retry loop ends: it either obtains a capacity between the minimum and the wish, or
    reports failure — for every oracle -/
theorem retry_bounds (a : Arr) (pos : Nat) (o : Oracle) (h : a.size ≤ a.capa) :
    match (retryCapa (wantCapa a pos) (minCapa a pos) o).1 with
    | some c => minCapa a pos ≤ c ∧ c ≤ wantCapa a pos ∧ c ≤ maxCapa
    | none => True := by
  cases hr : retryCapa (wantCapa a pos) (minCapa a pos) o with
  | mk r o' =>
    cases r with
    | none => trivial
    | some c => exact retryCapa_some _ _ _ _ _ (minCapa_le_wantCapa a pos h) hr

/-! ## one-step specifications -/

/-- insert: on success the slot table is the list-level spec (gap padded with empties beyond the
    end, tail shifted inside), the return value is the position; on failure nothing observable
    changed and no style callback ran: the data stays with the caller -/
theorem insert_spec (a : Arr) (pos v : Nat) (o : Oracle) (h : WF a) :
    let r := insert a pos v o
    (r.ret = .ok pos ∧ abs r.arr = insSlots (abs a) pos v ∧
        r.arr.size = (if pos > a.size then pos + 1 else a.size + 1) ∧ r.arr.tally = a.tally + 1 ∧ r.evs = [] ∧
        r.arr.size ≤ r.arr.capa)
    ∨ (r.ret = .error .enomem ∧ r.arr = a ∧ r.evs = [])
    ∨ (r.ret = .error .einval ∧ r.arr = a ∧ r.evs = [] ∧ r.orc = o ∧ maxCapa ≤ pos) := by
  intro r
  simp only [r, insert]
  by_cases hfar : pos ≥ maxCapa
  · right; right; simp [hfar]
  rw [if_neg hfar]
  cases o.next with
  | mk b o1 =>
    cases b with
    | false => right; left; simp
    | true =>
      simp only
      split
      · rename_i hneed
        cases hr : retryCapa (wantCapa a pos) (minCapa a pos) o1 with
        | mk rc o2 =>
          cases rc with
          | none => right; left; simp
          | some c =>
            have hb := retryCapa_some _ _ _ _ _ (minCapa_le_wantCapa a pos h.size_le_capa) hr
            have hm : pos < c ∧ a.size < c := by
              have := hb.1; unfold minCapa at this; split at this <;> omega
            simp only
            rw [if_neg (by omega)]
            left; simp [abs]; split <;> omega
      · left; simp [abs]; split <;> omega

/-- with an allocator that never refuses, insert always succeeds -/
theorem insert_succeeds (a : Arr) (pos v : Nat) (h : WF a) (hfit : minCapa a pos ≤ maxCapa) :
    (insert a pos v []).ret = .ok pos := by
  have hpos : ¬ pos ≥ maxCapa := by unfold minCapa at hfit; split at hfit <;> omega
  simp only [insert, Oracle.next, if_neg hpos]
  split
  · obtain ⟨c, hc⟩ := retryCapa_nil (wantCapa a pos) (minCapa a pos) hfit (minCapa_le_wantCapa a pos h.size_le_capa)
    have hb := retryCapa_some _ _ _ _ _ (minCapa_le_wantCapa a pos h.size_le_capa) hc
    rw [hc]
    have hm : pos < c ∧ a.size < c := by
      have := hb.1; unfold minCapa at this; split at this <;> omega
    simp only
    rw [if_neg (by omega)]
  · rfl

theorem update_spec (a : Arr) (pos v : Nat) (o : Oracle) :
    let r := update a pos v o
    (pos < a.size ∧ r.ret = .ok pos ∧ abs r.arr = (abs a).set pos (some v) ∧ r.arr.size = a.size)
    ∨ (r.arr = a ∧ (r.ret = .error .einval ∧ a.size ≤ pos ∨ r.ret = .error .enomem)) := by
  intro r
  simp only [r, update]
  by_cases hp : pos ≥ a.size
  · right; simp [hp]
  · simp only [hp, if_false]
    cases hc : a.slots.getD pos none with
    | none =>
      simp only
      cases o.next with
      | mk b o1 => cases b <;> simp [abs]; omega
    | some c =>
      simp only
      by_cases hcv : c = v
      · left; subst hcv
        refine ⟨by omega, by simp, ?_, by simp⟩
        simp only [abs, if_true]
        by_cases hlt : pos < a.slots.length
        · rw [List.getD_eq_getElem?_getD, List.getElem?_eq_getElem hlt] at hc
          simp at hc
          rw [← hc, List.set_getElem_self]
        · rw [List.set_eq_of_length_le (by omega)]
      · simp only [hcv, if_false]
        cases o.next with
        | mk b o1 => cases b <;> simp [abs]; omega

theorem delete_spec (a : Arr) (index count : Nat) (h : WF a) :
    let r := delete a index count
    let n := min count (a.size - index)
    abs r.1 = (abs a).take index ++ (abs a).drop (index + n) ∧ r.2.1 = n ∧ r.1.size = a.size - n := by
  intro r n
  simp only [r, n, delete, abs]
  have hs := h.size_eq
  by_cases hi : index ≥ a.size
  · simp only [hi, if_true]
    have : min count (a.size - index) = 0 := by omega
    rw [this]
    refine ⟨?_, rfl, by omega⟩
    rw [Nat.add_zero, List.take_append_drop]
  · simp only [hi, if_false]
    by_cases hc : count > a.size - index
    · simp only [hc, if_true]
      have : min count (a.size - index) = a.size - index := by omega
      rw [this]
      rw [if_neg (by omega)]
      simp
    · simp only [hc, if_false]
      have : min count (a.size - index) = count := by omega
      rw [this]
      by_cases hz : count = 0
      · subst hz; simp
      · simp only [hz, if_false]
        simp

theorem uplete_spec (a : Arr) (index count : Nat) :
    let r := uplete a index count
    let n := if index ≥ a.size then 0 else min count (a.size - index)
    abs r.1 = (abs a).take index ++ List.replicate n none ++ (abs a).drop (index + n)
    ∧ r.2.1 = n ∧ r.1.size = a.size := by
  intro r n
  simp only [r, n, uplete, abs]
  by_cases hi : index ≥ a.size
  · simp [hi]
  · simp only [hi, if_false]
    by_cases hc : count > a.size - index
    · have : min count (a.size - index) = a.size - index := by omega
      simp [hc, this]
    · have : min count (a.size - index) = count := by omega
      simp [hc, this]

/-! ## reads: the value last stored, no shifting except by insert/delete -/

/-- upsert never shifts: it stores v at pos and leaves every other index as it was -/
theorem upsert_read (a : Arr) (pos v : Nat) (o : Oracle) (h : WF a)
    (hok : (upsert a pos v o).ret = .ok pos) :
    read (upsert a pos v o).arr pos = some v ∧
    ∀ j, j ≠ pos → read (upsert a pos v o).arr j = read a j := by
  unfold upsert at *
  by_cases hp : pos < a.size
  · simp only [hp, if_true] at *
    have hu := update_spec a pos v o
    simp only at hu
    rcases hu with ⟨_, _, habs, _⟩ | ⟨_, he⟩
    · simp only [read, abs] at *
      rw [habs]
      have hl : pos < a.slots.length := by have := h.size_eq; omega
      refine ⟨by simp [List.getD_eq_getElem?_getD, hl], ?_⟩
      intro j hj
      simp [List.getD_eq_getElem?_getD, List.getElem?_set, Ne.symm hj]
    · rcases he with ⟨he, _⟩ | he <;> rw [he] at hok <;> cases hok
  · have hl : pos ≥ a.slots.length := by have := h.size_eq; omega
    simp only [hp, if_false] at *
    have hi := insert_spec a pos v o h
    simp only at hi
    rcases hi with ⟨_, habs, _⟩ | ⟨he, _⟩ | ⟨he, _⟩
    · simp only [read, abs] at *
      rw [habs]
      simp only [insSlots, hl, if_true, ge_iff_le]
      refine ⟨?_, ?_⟩
      · simp [List.getD_eq_getElem?_getD, List.getElem?_append_right, hl]
      · intro j hj
        simp only [List.getD_eq_getElem?_getD]
        by_cases hjl : j < a.slots.length
        · rw [List.append_assoc, List.getElem?_append_left hjl]
        · have hjl' : a.slots.length ≤ j := by omega
          rw [List.append_assoc, List.getElem?_append_right hjl']
          rw [List.getElem?_eq_none_iff.mpr hjl']
          by_cases hjr : j - a.slots.length < pos - a.slots.length
          · rw [List.getElem?_append_left (by simpa using hjr)]
            simp [List.getElem?_replicate, hjr]
          · rw [List.getElem?_append_right (by simp; omega)]
            have : j - a.slots.length - (List.replicate (pos - a.slots.length) (none : Option Nat)).length ≠ 0 := by
              simp; omega
            simp only [List.length_replicate] at *
            rw [List.getElem?_singleton]
            simp [this]
    · rw [he] at hok; cases hok
    · rw [he] at hok; cases hok

/-- update and uplete keep every other index in place -/
theorem update_frame (a : Arr) (pos v : Nat) (o : Oracle) (j : Nat) (hj : j ≠ pos) :
    read (update a pos v o).arr j = read a j := by
  have hu := update_spec a pos v o
  simp only at hu
  rcases hu with ⟨_, _, habs, _⟩ | ⟨he, _⟩
  · simp only [read, abs] at *
    rw [habs]; simp [List.getD_eq_getElem?_getD, List.getElem?_set, Ne.symm hj]
  · rw [he]

theorem uplete_frame (a : Arr) (index count j : Nat) (h : WF a) (hj : j < index ∨ index + count ≤ j) :
    read (uplete a index count).1 j = read a j := by
  have hu := uplete_spec a index count
  simp only at hu
  obtain ⟨habs, _, _⟩ := hu
  simp only [read, abs] at *
  rw [habs]
  simp only [List.getD_eq_getElem?_getD]
  by_cases hi : index ≥ a.size
  · simp [hi]
  · simp only [hi, if_false]
    have hsz := h.size_eq
    generalize hn : min count (a.size - index) = n
    have hnc : n ≤ count := by omega
    have hni : index + n ≤ a.slots.length := by omega
    rcases hj with hj | hj
    · by_cases hjl : j < a.slots.length
      · rw [List.append_assoc, List.getElem?_append_left (by simp; omega)]
        rw [List.getElem?_take_of_lt hj]
      · rw [List.getElem?_eq_none_iff.mpr (by simp; omega), List.getElem?_eq_none_iff.mpr (by omega)]
    · by_cases hjl : j < a.slots.length
      · have hil : index ≤ a.slots.length := by omega
        have hlen : (List.take index a.slots ++ List.replicate n (none : Option Nat)).length = index + n := by
          simp [Nat.min_eq_left hil]
        have hle : (List.take index a.slots ++ List.replicate n (none : Option Nat)).length ≤ j := by
          rw [hlen]; omega
        rw [List.getElem?_append_right hle, hlen, List.getElem?_drop]
        have hidx : index + n + (j - (index + n)) = j := by omega
        rw [hidx]
      · rw [List.getElem?_eq_none_iff.mpr (by simp; omega), List.getElem?_eq_none_iff.mpr (by omega)]

/-! ## bookkeeping invariant for every reachable state -/

theorem insert_wf (a : Arr) (pos v : Nat) (o : Oracle) (h : WF a) : WF (insert a pos v o).arr := by
  have hs := insert_spec a pos v o h
  simp only at hs
  rcases hs with ⟨_, habs, hsz, ht, _, hc⟩ | ⟨_, he, _⟩ | ⟨_, he, _⟩
  · simp only [abs] at habs
    refine ⟨?_, ?_, hc⟩
    · rw [hsz, habs, length_insSlots, ← h.size_eq]
    · rw [ht, habs, occupied_insSlots, h.tally_eq]
  · rw [he]; exact h
  · rw [he]; exact h

theorem upsert_wf (a : Arr) (pos v : Nat) (o : Oracle) (h : WF a) : WF (upsert a pos v o).arr := by
  unfold upsert; split
  · exact update_wf a pos v o h
  · exact insert_wf a pos v o h

theorem step_wf (a : Arr) (op : Op) (h : WF a) : WF (step a op) := by
  cases op with
  | insert p v o => exact insert_wf a p v o h
  | upsert p v o => exact upsert_wf a p v o h
  | update p v o => exact update_wf a p v o h
  | delete i c => exact delete_wf a i c h
  | uplete i c => exact uplete_wf a i c h
  | clear => exact clear_wf a
  | setcapa c o => exact setcapa_wf a c o h

/-- size = number of cells in use (last used index + 1), tally = number of occupied cells,
    size ≤ capa — in every state reachable by any history and any allocator behaviour -/
theorem reachable_wf (ops : List Op) : WF (run ops) := by
  unfold run
  have : ∀ (a : Arr), WF a → WF (ops.foldl step a) := by
    induction ops with
    | nil => intro a h; exact h
    | cons op ops ih => intro a h; exact ih _ (step_wf a op h)
  exact this empty ⟨rfl, rfl, Nat.le_refl _⟩

/-- after clear everything reads as empty and the size is 0 -/
theorem clear_spec (a : Arr) : abs (clear a).1 = [] ∧ (clear a).1.size = 0 ∧ (clear a).1.tally = 0 := by
  simp [clear, abs]

/-! ## the table always fits the machine word, and growth asks the allocator only logarithmically often -/

theorem step_fits (a : Arr) (op : Op) (hw : WF a) (h : Fits a) : Fits (step a op) := by
  cases op with
  | insert p v o => exact insert_fits a p v o hw h
  | upsert p v o =>
    simp only [step, upsert]; split
    · simp only [Fits]; rw [update_capa]; exact h
    · exact insert_fits a p v o hw h
  | update p v o => simp only [step, Fits]; rw [update_capa]; exact h
  | delete i c => simp only [step, Fits]; rw [delete_capa]; exact h
  | uplete i c => simp only [step, Fits]; rw [uplete_capa]; exact h
  | clear => simp only [step, clear, Fits]; exact h
  | setcapa c o => exact setcapa_fits a c o h

/-- in every reachable state the capacity is one whose table size fits the word: no request for a wrapped-around
    (possibly zero) number of bytes is ever made -/
theorem reachable_fits (ops : List Op) : Fits (run ops) := by
  unfold run
  have : ∀ (a : Arr), WF a → Fits a → Fits (ops.foldl step a) := by
    induction ops with
    | nil => intro a _ h; exact h
    | cons op ops ih => intro a hw h; exact ih _ (step_wf a op hw) (step_fits a op hw h)
  exact this empty ⟨rfl, rfl, by simp [empty]⟩ (by simp [Fits, empty])

/-- a position no table can hold is refused at once: nothing changes, the allocator is not asked -/
theorem insert_far_refused (a : Arr) (pos v : Nat) (o : Oracle) (h : maxCapa ≤ pos) :
    (insert a pos v o).ret = .error .einval ∧ (insert a pos v o).arr = a ∧ (insert a pos v o).orc = o := by
  simp [insert, h]

/-- the retry loop asks the allocator at most log2(wish - minimum) + 2 times — for every allocator behaviour -/
theorem retry_requests_logarithmic (a : Arr) (pos : Nat) (o : Oracle) :
    o.length ≤ (retryCapa (wantCapa a pos) (minCapa a pos) o).2.length +
      (Nat.log2 (wantCapa a pos - minCapa a pos) + 2) :=
  retryCapa_requests _ _ _


/-! ## heap operations keep the heap order (dense arrays, integer comparator) and the contents -/

/-- a heap history: push / delete-at-index / update-at-index -/
inductive HOp where
  | push (v : Nat)
  | del (i : Nat)
  | upd (i v : Nat)

def hstep (l : List Nat) : HOp → List Nat
  | .push v => pushheap l v
  | .del i => (deleteheap l i).1
  | .upd i v => (updateheap l i v).1

theorem hstep_heap (l : List Nat) (op : HOp) (h : HeapOrd l) : HeapOrd (hstep l op) := by
  cases op with
  | push v => exact pushheap_heap l v h
  | del i =>
    by_cases hi : i < l.length
    · exact deleteheap_heap l i h hi
    · simp only [hstep, deleteheap, hi, dite_false]; exact h
  | upd i v =>
    by_cases hi : i < l.length
    · exact updateheap_heap l i v h hi
    · simp only [hstep, updateheap, hi, dite_false]; exact h

/-- the heap order holds after every history of heap operations starting from the empty array -/
theorem reachable_heap (ops : List HOp) : HeapOrd (ops.foldl hstep []) := by
  have : ∀ l, HeapOrd l → HeapOrd (ops.foldl hstep l) := by
    induction ops with
    | nil => intro l h; exact h
    | cons op ops ih => intro l h; exact ih _ (hstep_heap l op h)
  exact this [] (by intro i _ hi; simp at hi)

/-- heap operations neither lose nor duplicate elements -/
theorem heap_contents (l : List Nat) (v i : Nat) (hi : i < l.length) :
    (pushheap l v).Perm (v :: l) ∧ (l[i] :: (deleteheap l i).1).Perm l ∧
    (updateheap l i v).1.Perm (l.set i v) :=
  ⟨pushheap_perm l v, deleteheap_perm l i hi, updateheap_perm l i v hi⟩

theorem ex_heap : HeapOrd [9, 5, 7, 1] := by
  intro i h0 hl
  have : i = 1 ∨ i = 2 ∨ i = 3 := by simp at hl; omega
  rcases this with h | h | h <;> subst h <;> simp [hparent]
example : HeapOrd (hstep [9, 5, 7, 1] (.upd 3 8)) := hstep_heap _ _ ex_heap

/-! ## non-vacuity: a concrete well-formed state with capacity 64 on which an insert at index 128
    (gap far beyond twice the capacity — the case in which the unrepaired doubling loop never
    returned) meets the hypotheses of the theorems above and succeeds -/
def ex64 : Arr := { slots := [some 1], size := 1, tally := 1, capa := 64 }
example : WF ex64 := ⟨rfl, rfl, by decide⟩
example : (insert ex64 128 7 []).ret = .ok 128 := insert_succeeds ex64 128 7 ⟨rfl, rfl, by decide⟩ (by decide)
example : read (upsert ex64 128 7 []).arr 128 = some 7 :=
  (upsert_read ex64 128 7 [] ⟨rfl, rfl, by decide⟩
    (by unfold upsert; rw [if_neg (by decide)]; exact insert_succeeds ex64 128 7 ⟨rfl, rfl, by decide⟩ (by decide))).1

/-! ## heap with position back-pointers (`heap_pos_offset`): after every history each item's position field names
    the slot it is in, and the keys evolve exactly as in the key-only heap above (so the order theorem carries over) -/

/-- the same histories on items `(key, pos)`; `arr->heap_pos_offset` is set -/
def pstep (l : List Item) : HOp → List Item
  | .push k => pushheapP l k
  | .del i => (deleteheapP l i).1
  | .upd i k => (updateheapP l i k).1

/-- refinement: forgetting the position fields, the heap with back-pointers is the heap without -/
theorem pstep_refines (l : List Item) (op : HOp) : keys (pstep l op) = hstep (keys l) op := by
  cases op with
  | push k => exact pushheapP_keys l k
  | del i => exact (deleteheapP_keys l i).1
  | upd i k => exact (updateheapP_keys l i k).1

/-- the destroyed item reported to the freeer is the same in both -/
theorem pstep_freed (l : List Item) (i k : Nat) :
    (deleteheapP l i).2 = (deleteheap (keys l) i).2 ∧ (updateheapP l i k).2 = (updateheap (keys l) i k).2 :=
  ⟨(deleteheapP_keys l i).2, (updateheapP_keys l i k).2⟩

theorem pstep_pos (l : List Item) (op : HOp) (h : PosOk l) : PosOk (pstep l op) := by
  cases op with
  | push k => exact pushheapP_posOk l k h
  | del i => exact deleteheapP_posOk l i h
  | upd i k => exact updateheapP_posOk l i k h

theorem pfold_keys (ops : List HOp) (l : List Item) : keys (ops.foldl pstep l) = ops.foldl hstep (keys l) := by
  induction ops generalizing l with
  | nil => rfl
  | cons op ops ih => simp only [List.foldl_cons]; rw [ih, pstep_refines]

theorem pfold_pos (ops : List HOp) (l : List Item) (h : PosOk l) : PosOk (ops.foldl pstep l) := by
  induction ops generalizing l with
  | nil => exact h
  | cons op ops ih => exact ih _ (pstep_pos l op h)

/-- after every history: every item knows its slot, and the keys are in heap order -/
theorem reachable_pos_heap (ops : List HOp) :
    PosOk (ops.foldl pstep []) ∧ HeapOrd (keys (ops.foldl pstep [])) := by
  refine ⟨pfold_pos ops [] (by intro i hi; simp at hi), ?_⟩
  rw [pfold_keys]; exact reachable_heap ops

/-- non-vacuity: a three-item heap whose back-pointers are right; deleting the root really moves an item (the last
    one goes to slot 0 and its position field is rewritten from 2 to 0) and the theorem applies to it -/
theorem ex_pos : PosOk [(9, 0), (5, 1), (7, 2)] := by
  intro i hi
  have : i = 0 ∨ i = 1 ∨ i = 2 := by simp at hi; omega
  rcases this with h | h | h <;> subst h <;> rfl
example : pstep [(9, 0), (5, 1), (7, 2)] (.del 0) = [(7, 0), (5, 1)] := by
  simp [pstep, deleteheapP, stamp, siftDownP, cmp]
  rw [siftDownLoopP]; simp [pickChildP, cmp, stamp]
example : PosOk (pstep [(9, 0), (5, 1), (7, 2)] (.del 0)) := pstep_pos _ _ ex_pos

end Hawk.Arr
