import HawkModel.FmtLemmas
/-!
# C12 — printf and sprintf format like C

Model: `HawkModel.Fmt` (`format` = `hawk_rtx_format` / `hawk_rtx_formatmbs` with `fmt_uintmax` and the fmt.c float
specifier pass), reference: `Hawk.Fmt.CSpec` (ISO C 7.21.6.1).  A specification is written
`'%' :: specText fl w p c` = flags `fl` (any sequence of flag characters, any order, repeats allowed), width `w`
(none / digits / `*` with its argument), precision `p` (none / `.`digits / `.*` with its argument), conversion `c`;
`cspec fl w p c` is how C reads it.  `cfg` ranges over both formatters (`cfg.mbs`), every scratch buffer size
(`cfg.tmpLen`) and the CONVFMT/OFMT entry (`cfg.valMode`).  Widths, precisions and values are unbounded.
The model follows the repaired code (patches/c12-format-like-c.diff).
-/
namespace Hawk.Fmt.C12
open Hawk.Fmt

/-! ## integer conversions -/

/-- `d i o u x X` with any flags, width and precision (literal or `*`, negative `*` included) and any 64-bit value:
sprintf returns exactly what ISO C prescribes for the `intmax_t` / `uintmax_t` argument -/
theorem format_int_eq_C (cfg : Cfg) (fl : Str) (w : WSpec) (p : PSpec) (wf : SpecWF fl w p) (c : Char)
    (hc : c = 'd' ∨ c = 'i' ∨ c = 'o' ∨ c = 'u' ∨ c = 'x' ∨ c = 'X')
    (a : Arg) (ha : -9223372036854775808 ≤ a.toInt ∧ a.toInt < 9223372036854775808) :
    format cfg ('%' :: specText fl w p c) (w.args ++ p.args ++ [a]) =
      .ok [.text (CSpec.render (cspec fl w p c) a.toInt)] := by
  have h := parseSpec_int cfg fl w p wf c hc a ha [] []
  have := format_spec_ok cfg (specText fl w p c) [] _ _ _ h
  simpa [format, formatGo, Except.map] using this

/-! ## %c and %s -/

/-- `%c` of an integer (its low 16 resp. 8 bits as a character code), a float, a character or a non-empty string
(first character; hawk-specific): the character padded to the field width as C does -/
theorem format_char_eq_C (cfg : Cfg) (fl : Str) (w : WSpec) (p : PSpec) (wf : SpecWF fl w p)
    (a : Arg) (ch : Char) (ha : a.chrOf cfg.mbs = (ch, 1)) :
    format cfg ('%' :: specText fl w p 'c') (w.args ++ p.args ++ [a]) =
      .ok [.text (CSpec.renderChar (cspec fl w p 'c') ch)] := by
  have h := parseSpec_char cfg fl w p wf a ch ha [] []
  have := format_spec_ok cfg (specText fl w p 'c') [] _ _ _ h
  simpa [format, formatGo, Except.map] using this

/-- `%s`: the string (for a number: its text) cut to the precision and padded to the field width as C does -/
theorem format_str_eq_C (cfg : Cfg) (hv : cfg.valMode = false) (fl : Str) (w : WSpec) (p : PSpec) (wf : SpecWF fl w p) (a : Arg) :
    format cfg ('%' :: specText fl w p 's') (w.args ++ p.args ++ [a]) =
      .ok [.text (CSpec.renderStr (cspec fl w p 's') a.strOf)] := by
  have h := parseSpec_str cfg hv fl w p wf a [] []
  have := format_spec_ok cfg (specText fl w p 's') [] _ _ _ h
  simpa [format, formatGo, Except.map] using this

/-! ## %%, unknown and incomplete specifications -/

/-- `%%` (also with flags, width, precision in between) yields one percent sign and takes no argument for itself -/
theorem percent_percent (cfg : Cfg) (fl : Str) (w : WSpec) (p : PSpec) (wf : SpecWF fl w p) (rest : Str) (more : List Arg) :
    format cfg ('%' :: specText fl w p '%' ++ rest) (w.args ++ p.args ++ more) =
      (format cfg rest more).map ([Piece.text ['%']] ++ ·) :=
  format_spec_ok cfg (specText fl w p '%') rest _ _ _ (parseSpec_percent cfg fl w p wf rest more)

/-- a specification whose conversion character hawk does not know (e.g. `%y`, `%ld`, `%5.2F`) is copied through
unchanged, and formatting goes on behind it -/
theorem unknown_copied_through (cfg : Cfg) (fl : Str) (w : WSpec) (p : PSpec) (wf : SpecWF fl w p) (c : Char)
    (hce : isConvEnd c) (hk : isKnownConv c = false) (rest : Str) (more : List Arg) :
    format cfg ('%' :: specText fl w p c ++ rest) (w.args ++ p.args ++ more) =
      (format cfg rest more).map ([Piece.text ('%' :: specText fl w p c)] ++ ·) :=
  format_spec_ok cfg (specText fl w p c) rest _ _ _ (parseSpec_unknown cfg fl w p wf c hce hk rest more)

/-- a specification cut off by the end of the format is copied through unchanged -/
theorem incomplete_copied_through (cfg : Cfg) (fl : Str) (w : WSpec) (p : PSpec) (wf : SpecWF fl w p) (more : List Arg) :
    format cfg ('%' :: (fl ++ w.text ++ p.text)) (w.args ++ p.args ++ more) =
      .ok [.text ('%' :: (fl ++ w.text ++ p.text))] := by
  have h := parseSpec_incomplete cfg fl w p wf more
  have := format_spec_ok cfg (fl ++ w.text ++ p.text) [] _ _ _ (by simpa using h)
  simpa [format, formatGo, Except.map] using this

/-! ## float conversions: the specification handed to libc -/

/-- `e E f g G`: hawk does not format the number itself; libc `snprintf` is called with the `long double` value and the
specification `libcSpecOf fl w p c` = the user's flags in a fixed order (`0` dropped when `-` is there), the width and
precision as numbers with `*` substituted (negative `*` width = `-` flag + absolute value, negative `*` precision =
omitted), the `L` modifier and the conversion character. Digit generation is libc's. -/
theorem float_spec_passthrough (cfg : Cfg) (fl : Str) (w : WSpec) (p : PSpec) (wf : SpecWF fl w p) (c : Char)
    (hc : c = 'e' ∨ c = 'E' ∨ c = 'f' ∨ c = 'g' ∨ c = 'G') (a : Arg) :
    format cfg ('%' :: specText fl w p c) (w.args ++ p.args ++ [a]) = .ok [.libc (libcSpecOf fl w p c) a] := by
  have h := parseSpec_float cfg fl w p wf c hc a [] []
  have := format_spec_ok cfg (specText fl w p c) [] _ _ _ h
  simpa [format, formatGo, Except.map] using this

/-- CONVFMT / OFMT go through the same function with the number as the only argument: a float specification is handed to
libc in the same way, and `%s` is formatted as `%g` -/
theorem convfmt_same_rule (tmpLen : Nat) (fl : Str) (w : WSpec) (p : PSpec) (wf : SpecWF fl w p) (c : Char)
    (hc : c = 'e' ∨ c = 'E' ∨ c = 'f' ∨ c = 'g' ∨ c = 'G') (a : Arg) (hw : w.args = []) (hp : p.args = []) :
    format { tmpLen := tmpLen, valMode := true } ('%' :: specText fl w p c) [a] = .ok [.libc (libcSpecOf fl w p c) a] ∧
    format { tmpLen := tmpLen, valMode := true } ('%' :: specText fl w p 's') [a] = .ok [.libc (libcSpecOf fl w p 'g') a] := by
  constructor
  · have := float_spec_passthrough { tmpLen := tmpLen, valMode := true } fl w p wf c hc a
    simpa [hw, hp] using this
  · have h := parseSpec_str_valmode { tmpLen := tmpLen, valMode := true } rfl fl w p wf a [] []
    have := format_spec_ok _ (specText fl w p 's') [] _ _ _ h
    simpa [format, formatGo, Except.map, hw, hp] using this

/-! ## the whole format string -/

/-- every kind of specification is a segment that behaves the same whatever follows it -/
theorem seg_int_ok (cfg : Cfg) (fl : Str) (w : WSpec) (p : PSpec) (wf : SpecWF fl w p) (c : Char)
    (hc : c = 'd' ∨ c = 'i' ∨ c = 'o' ∨ c = 'u' ∨ c = 'x' ∨ c = 'X')
    (a : Arg) (ha : -9223372036854775808 ≤ a.toInt ∧ a.toInt < 9223372036854775808) :
    (Seg.spec (specText fl w p c) (w.args ++ p.args ++ [a]) [.text (CSpec.render (cspec fl w p c) a.toInt)]).Ok cfg := by
  intro rest more
  simpa using parseSpec_int cfg fl w p wf c hc a ha rest more

theorem seg_char_ok (cfg : Cfg) (fl : Str) (w : WSpec) (p : PSpec) (wf : SpecWF fl w p) (a : Arg) (ch : Char)
    (ha : a.chrOf cfg.mbs = (ch, 1)) :
    (Seg.spec (specText fl w p 'c') (w.args ++ p.args ++ [a]) [.text (CSpec.renderChar (cspec fl w p 'c') ch)]).Ok cfg := by
  intro rest more
  simpa using parseSpec_char cfg fl w p wf a ch ha rest more

theorem seg_str_ok (cfg : Cfg) (hv : cfg.valMode = false) (fl : Str) (w : WSpec) (p : PSpec) (wf : SpecWF fl w p) (a : Arg) :
    (Seg.spec (specText fl w p 's') (w.args ++ p.args ++ [a]) [.text (CSpec.renderStr (cspec fl w p 's') a.strOf)]).Ok cfg := by
  intro rest more
  simpa using parseSpec_str cfg hv fl w p wf a rest more

theorem seg_float_ok (cfg : Cfg) (fl : Str) (w : WSpec) (p : PSpec) (wf : SpecWF fl w p) (c : Char)
    (hc : c = 'e' ∨ c = 'E' ∨ c = 'f' ∨ c = 'g' ∨ c = 'G') (a : Arg) :
    (Seg.spec (specText fl w p c) (w.args ++ p.args ++ [a]) [.libc (libcSpecOf fl w p c) a]).Ok cfg := by
  intro rest more
  simpa using parseSpec_float cfg fl w p wf c hc a rest more

theorem seg_percent_ok (cfg : Cfg) (fl : Str) (w : WSpec) (p : PSpec) (wf : SpecWF fl w p) :
    (Seg.spec (specText fl w p '%') (w.args ++ p.args) [.text ['%']]).Ok cfg := by
  intro rest more
  exact parseSpec_percent cfg fl w p wf rest more

theorem seg_unknown_ok (cfg : Cfg) (fl : Str) (w : WSpec) (p : PSpec) (wf : SpecWF fl w p) (c : Char)
    (hce : isConvEnd c) (hk : isKnownConv c = false) :
    (Seg.spec (specText fl w p c) (w.args ++ p.args) [.text ('%' :: specText fl w p c)]).Ok cfg := by
  intro rest more
  exact parseSpec_unknown cfg fl w p wf c hce hk rest more

/-- composition: for a format made of literal text (without `%`) and specifications of the kinds above, the result is the
concatenation, in order, of the literal characters and of what each specification yields on its own arguments; arguments
are consumed in order and surplus arguments are ignored -/
theorem format_composition (cfg : Cfg) (segs : List Seg) (h : ∀ s ∈ segs, s.Ok cfg) (more : List Arg) :
    format cfg (segs.flatMap Seg.text) (segs.flatMap Seg.args ++ more) = .ok (segs.flatMap Seg.out) :=
  format_segments cfg segs h more

/-- … and the same followed by a specification cut off by the end of the format -/
theorem format_composition_incomplete (cfg : Cfg) (segs : List Seg) (h : ∀ s ∈ segs, s.Ok cfg)
    (fl : Str) (w : WSpec) (p : PSpec) (wf : SpecWF fl w p) (more : List Arg) :
    format cfg (segs.flatMap Seg.text ++ '%' :: (fl ++ w.text ++ p.text)) (segs.flatMap Seg.args ++ (w.args ++ p.args ++ more)) =
      .ok (segs.flatMap Seg.out ++ [.text ('%' :: (fl ++ w.text ++ p.text))]) := by
  have gen : ∀ (tf : Str) (ta : List Arg) (res : List Piece), format cfg tf ta = .ok res →
      format cfg (segs.flatMap Seg.text ++ tf) (segs.flatMap Seg.args ++ ta) = .ok (segs.flatMap Seg.out ++ res) := by
    intro tf ta res htail
    induction segs with
    | nil => simpa using htail
    | cons s r ih =>
      have ihr := ih (fun x hx => h x (by simp [hx]))
      have hs := h s (by simp)
      cases s with
      | lit t =>
        simp only [List.flatMap_cons, Seg.text, Seg.args, Seg.out, List.nil_append, List.append_assoc]
        rw [format_lit_append cfg t hs, ihr]
        simp [Except.map]
      | spec t a o =>
        simp only [List.flatMap_cons, Seg.text, Seg.args, Seg.out, List.append_assoc]
        rw [format_spec_ok cfg t _ _ _ o (hs _ _), ihr]
        simp [Except.map]
  exact gen _ _ _ (incomplete_copied_through cfg fl w p wf more)

/-- a conversion that needs an argument when none is left makes the whole call fail (HAWK_EFMTARG) -/
theorem missing_argument_fails (cfg : Cfg) (fl : Str) (w : WSpec) (p : PSpec) (wf : SpecWF fl w p) (c : Char)
    (hc : isIntConv c = true ∨ isFltConv c = true ∨ c = 'c' ∨ c = 's') (hce : isConvEnd c) (rest : Str) :
    format cfg ('%' :: specText fl w p c ++ rest) (w.args ++ p.args) = .error .efmtarg := by
  have h := parseSpec_noarg cfg fl w p wf c hc hce rest
  rw [List.append_nil] at h
  exact format_spec_err cfg _ _ _ h

/-! ## number → string: hawk_rtx_valtostr (val.c) -/

/-- the text of an integer is what `%d` gives, for the duplicating and the string-buffer output kinds; `strpcat` appends it -/
theorem val_int_to_str_eq_C (v : Int) (buflen : Nat) (pre : Str) :
    valIntToStr v .cpldup buflen pre = .ok (CSpec.render (cspec [] .none .none 'd') v) ∧
    valIntToStr v .strp buflen pre = .ok (CSpec.render (cspec [] .none .none 'd') v) ∧
    valIntToStr v .strpcat buflen pre = .ok (pre ++ CSpec.render (cspec [] .none .none 'd') v) := by
  simp [valIntToStr, intCells_eq, intText_eq_render]

/-- an integer into a caller's buffer of `buflen` cells (kinds cpl and cplcpy): the whole text when it fits together with its
terminator, otherwise the call fails and reports the size needed - never a shortened text -/
theorem val_int_fixed_buffer_whole_or_fail (v : Int) (buflen : Nat) (pre : Str) :
    valIntToStr v .cplcpy buflen pre =
      (if buflen ≤ (CSpec.render (cspec [] .none .none 'd') v).length
       then .einval (some ((CSpec.render (cspec [] .none .none 'd') v).length + 1))
       else .ok (CSpec.render (cspec [] .none .none 'd') v)) ∧
    valIntToStr v .cpl buflen pre = valIntToStr v .cplcpy buflen pre := by
  have hc : intCells v (CSpec.render (cspec [] .none .none 'd') v).length = CSpec.render (cspec [] .none .none 'd') v := by
    have := intCells_eq v
    rwa [intRlen_exact, intText_eq_render] at this
  simp only [valIntToStr, intRlen_exact, intText_eq_render, ge_iff_le, and_true, hc]

/-- the text `t` of a float (what hawk_rtx_format made of CONVFMT/OFMT) into a caller's buffer: whole or not at all -/
theorem val_flt_fixed_buffer_whole_or_fail (t : Str) (buflen : Nat) (pre : Str) :
    (t.length < buflen → deliverFlt t .cplcpy buflen pre = .ok t) ∧
    (buflen ≤ t.length → deliverFlt t .cplcpy buflen pre = .einval (some (t.length + 1))) ∧
    (∀ t', deliverFlt t .cplcpy buflen pre = .ok t' → t' = t ∧ t.length < buflen) ∧
    deliverFlt t .cpl buflen pre = deliverFlt t .cplcpy buflen pre := by
  refine ⟨?_, ?_, ?_, rfl⟩
  · intro h; have : ¬ buflen ≤ t.length := by omega
    simp [deliverFlt, this]
  · intro h; simp [deliverFlt, h]
  · intro t' h
    by_cases hb : buflen ≤ t.length
    · simp [deliverFlt, hb] at h
    · simp only [deliverFlt, hb, if_false, VRes.ok.injEq] at h
      exact ⟨h.symm, by omega⟩

/-- the other output kinds deliver the float text unchanged; `strpcat` appends it to what the buffer holds -/
theorem val_flt_other_kinds (t : Str) (buflen : Nat) (pre : Str) :
    deliverFlt t .cpldup buflen pre = .ok t ∧ deliverFlt t .strp buflen pre = .ok t ∧
    deliverFlt t .strpcat buflen pre = .ok (pre ++ t) := ⟨rfl, rfl, rfl⟩

/-- the text itself (val_flt_to_str since 65b4a33, the POSIX rule): a value that is an exact integer within the range of hawk_int_t
(`iv = some n`) gets the `%d` text of that integer, whatever CONVFMT and OFMT are; every other value is formatted with CONVFMT, or OFMT
when HAWK_RTX_VALTOSTR_PRINT is given, and a float specification in it goes to libc as `libcSpecOf` says (`float_spec_passthrough`;
there is no `*` argument to take) -/
theorem val_flt_to_str_spec (tmpLen : Nat) (print : Bool) (convfmt ofmt : Str) (a : Arg) :
    (∀ n : Int, valFltToPieces tmpLen print convfmt ofmt (some n) a = .ok [.text (CSpec.render (cspec [] .none .none 'd') n)]) ∧
    (∀ (fl : Str) (w : WSpec) (p : PSpec) (_wf : SpecWF fl w p) (c : Char) (_hc : c = 'e' ∨ c = 'E' ∨ c = 'f' ∨ c = 'g' ∨ c = 'G')
       (_hw : w.args = []) (_hp : p.args = []) (_hfmt : (if print then ofmt else convfmt) = '%' :: specText fl w p c),
       valFltToPieces tmpLen print convfmt ofmt none a = .ok [.libc (libcSpecOf fl w p c) a]) := by
  constructor
  · intro n
    simp [valFltToPieces, intCells_eq, intText_eq_render]
  · intro fl w p wf c hc hw hp hfmt
    unfold valFltToPieces valFltPieces valFltFormat
    rw [hfmt]
    exact (convfmt_same_rule tmpLen fl w p wf c hc a hw hp).1

/-- delivery of a float under that rule: the `%d` text of the integer when integral and in range, otherwise the CONVFMT/OFMT text `t` -
unchanged for the duplicating and string-buffer kinds, appended by `strpcat` -/
theorem val_flt_to_str_rule (t : Str) (buflen : Nat) (pre : Str) :
    (∀ n : Int,
      valFltToStr (some n) t .cpldup buflen pre = .ok (CSpec.render (cspec [] .none .none 'd') n) ∧
      valFltToStr (some n) t .strp buflen pre = .ok (CSpec.render (cspec [] .none .none 'd') n) ∧
      valFltToStr (some n) t .strpcat buflen pre = .ok (pre ++ CSpec.render (cspec [] .none .none 'd') n)) ∧
    (valFltToStr none t .cpldup buflen pre = .ok t ∧ valFltToStr none t .strp buflen pre = .ok t ∧
      valFltToStr none t .strpcat buflen pre = .ok (pre ++ t)) := by
  constructor
  · intro n; exact val_int_to_str_eq_C n buflen pre
  · exact ⟨rfl, rfl, rfl⟩

/-- the text a float is converted to: the `%d` text of the integer, or `t` -/
def fltText (iv : Option Int) (t : Str) : Str :=
  match iv with
  | some n => CSpec.render (cspec [] .none .none 'd') n
  | none => t

/-- … and into a caller's buffer (kinds cpl and cplcpy), on both branches: the whole text when it fits with its terminator,
otherwise failure with the size needed - never a shortened text -/
theorem val_flt_to_str_fixed_buffer (iv : Option Int) (t : Str) (buflen : Nat) (pre : Str) :
    valFltToStr iv t .cplcpy buflen pre =
      (if buflen ≤ (fltText iv t).length then .einval (some ((fltText iv t).length + 1)) else .ok (fltText iv t)) ∧
    valFltToStr iv t .cpl buflen pre = valFltToStr iv t .cplcpy buflen pre := by
  cases iv with
  | none => exact ⟨rfl, rfl⟩
  | some n => exact val_int_fixed_buffer_whole_or_fail n buflen pre

/-- strings, characters and nil through the same output kinds (str_to_str): whole or not at all into a caller's buffer -/
theorem str_fixed_buffer_whole_or_fail (s : Str) (buflen : Nat) (pre : Str) :
    (s.length < buflen → strToStr s .cplcpy buflen pre = .ok s) ∧
    (buflen ≤ s.length → strToStr s .cplcpy buflen pre = .einval none) ∧
    strToStr s .cpldup buflen pre = .ok s ∧ strToStr s .strp buflen pre = .ok s ∧
    strToStr s .strpcat buflen pre = .ok (pre ++ s) := by
  refine ⟨?_, ?_, rfl, rfl, rfl⟩
  · intro h; have : ¬ s.length ≥ buflen := by omega
    simp [strToStr, this]
  · intro h; simp [strToStr, h]

/-! ## non-vacuity: the hypotheses are satisfiable by non-trivial specifications, and the reference says what C says -/

example : SpecWF ['#', '0'] (.lit ['8']) .none := ⟨by decide, by simp [WSpec.wf], trivial⟩

/-- `sprintf("%#08x", 42)` = `0x00002a` (the former `00000x2a`) -/
example : format {} "%#08x".toList [.int 42] = .ok [.text "0x00002a".toList] := by
  have := format_int_eq_C {} ['#', '0'] (.lit ['8']) .none ⟨by decide, by simp [WSpec.wf], trivial⟩ 'x' (by simp) (.int 42) (by decide)
  rw [show CSpec.render (cspec ['#', '0'] (.lit ['8']) .none 'x') (Arg.int 42).toInt = "0x00002a".toList from by decide] at this
  simpa [specText, WSpec.text, PSpec.text, WSpec.args, PSpec.args] using this

example : CSpec.render (cspec ['#', '0'] (.lit ['8']) .none 'x') 42 = "0x00002a".toList := by decide
example : CSpec.render (cspec ['+'] .none .none 'u') 42 = "42".toList := by decide
example : CSpec.render (cspec ['+', ' '] .none .none 'd') 42 = "+42".toList := by decide
example : CSpec.render (cspec ['#'] .none .none 'X') 255 = "0XFF".toList := by decide
example : CSpec.render (cspec ['0'] (.star (-7)) (.star (-1)) 'd') (-42) = "-42    ".toList := by decide
example : CSpec.render (cspec ['0'] (.lit ['5']) (.star (-1)) 'd') 42 = "00042".toList := by decide
example : CSpec.render (cspec ['#'] .none (.lit ['0']) 'o') 0 = "0".toList := by decide
example : CSpec.render (cspec [] (.lit ['5']) (.lit []) 'd') 0 = "     ".toList := by decide
example : CSpec.render (cspec [] .none .none 'u') (-1) = "18446744073709551615".toList := by decide
example : libcSpecOf ['0', '+'] (.star (-12)) (.star 3) 'e' = "%+-12.3Le".toList := by
  simp only [libcSpecOf, decimal_eq]; decide
example : libcSpecOf ['-', '0', '#'] .none (.star (-1)) 'g' = "%#-Lg".toList := by
  simp only [libcSpecOf, decimal_eq]; decide
example : isConvEnd 'y' ∧ isKnownConv 'y' = false := by unfold isConvEnd; decide
example : isConvEnd 'l' ∧ isKnownConv 'l' = false := by unfold isConvEnd; decide

example : valIntToStr (-42) .cplcpy 4 [] = .ok "-42".toList := by
  rw [(val_int_fixed_buffer_whole_or_fail (-42) 4 []).1]; decide
example : valIntToStr (-42) .cplcpy 3 [] = .einval (some 4) := by
  rw [(val_int_fixed_buffer_whole_or_fail (-42) 3 []).1]; decide
example : valIntToStr (-9223372036854775808) .strpcat 0 "k=".toList = .ok "k=-9223372036854775808".toList := by
  rw [(val_int_to_str_eq_C _ 0 _).2.2]; decide
example : deliverFlt "0.50".toList .cplcpy 4 [] = .einval (some 5) ∧ deliverFlt "0.50".toList .cplcpy 5 [] = .ok "0.50".toList := by decide
example : valFltToPieces 4096 false "%.3g".toList "%.6g".toList none (.flt 3 []) = .ok [.libc "%.3Lg".toList (.flt 3 [])] := by
  have := (val_flt_to_str_spec 4096 false "%.3g".toList "%.6g".toList (.flt 3 [])).2 [] .none (.lit ['3']) ⟨by decide, trivial, by simp [PSpec.wf]⟩ 'g' (by simp) rfl rfl rfl
  rw [this]
  have : libcSpecOf [] .none (.lit ['3']) 'g' = "%.3Lg".toList := by simp only [libcSpecOf, decimal_eq]; decide
  rw [this]
/-- 1e6 with CONVFMT="%.2e" is "1000000", -0.0 is "0" -/
example : valFltToPieces 4096 false "%.2e".toList "%.6g".toList (some 1000000) (.flt 1000000 []) = .ok [.text "1000000".toList] := by
  rw [(val_flt_to_str_spec 4096 false "%.2e".toList "%.6g".toList (.flt 1000000 [])).1]
  have : CSpec.render (cspec [] .none .none 'd') 1000000 = "1000000".toList := by decide
  rw [this]
example : valFltToStr (some 0) "-0".toList .cpldup 0 [] = .ok "0".toList := by
  rw [((val_flt_to_str_rule "-0".toList 0 []).1 0).1]; decide
example : valFltToStr (some 16777216) [] .cplcpy 8 [] = .einval (some 9) ∧ valFltToStr none "0.50".toList .cplcpy 5 [] = .ok "0.50".toList := by
  constructor
  · rw [(val_flt_to_str_fixed_buffer (some 16777216) [] 8 []).1]; decide
  · decide

end Hawk.Fmt.C12
