import HawkModel.FmtLemmas
import HawkModel.FmtOutLemmas
import HawkModel.Gen.FmtDispatch
/-!
# C12 — printf and sprintf format like C

Model: `HawkModel.Fmt` (`format` = `hawk_rtx_format` / `hawk_rtx_formatmbs` with `fmt_uintmax` and the fmt.c float
specifier pass), reference: `Hawk.Fmt.CSpec` (ISO C 7.21.6.1).  A specification is written
`'%' :: specText fl w p c` = flags `fl` (any sequence of flag characters, any order, repeats allowed), width `w`
(none / digits / `*` with its argument), precision `p` (none / `.`digits / `.*` with its argument), conversion `c`;
`cspec fl w p c` is how C reads it.  `cfg` ranges over both formatters (`cfg.mbs`), every scratch buffer size
(`cfg.tmpLen`) and the CONVFMT/OFMT entry (`cfg.valMode`).  Widths, precisions and values are unbounded.
The model follows the repaired code (patches/c12-format-like-c.diff).
-/
namespace Hawk.Fmt.C12
open Hawk.Fmt

/-! ## integer conversions -/

/-- `d i o u x X` with any flags, width and precision (literal or `*`, negative `*` included) and any 64-bit value:
sprintf returns exactly what ISO C prescribes for the `intmax_t` / `uintmax_t` argument -/
theorem format_int_eq_C (cfg : Cfg) (fl : Str) (w : WSpec) (p : PSpec) (wf : SpecWF fl w p) (c : Char)
    (hc : c = 'd' ∨ c = 'i' ∨ c = 'o' ∨ c = 'u' ∨ c = 'x' ∨ c = 'X')
    (a : Arg) (ha : -9223372036854775808 ≤ a.toInt ∧ a.toInt < 9223372036854775808) :
    format cfg ('%' :: specText fl w p c) (w.args ++ p.args ++ [a]) =
      .ok [.text (CSpec.render (cspec fl w p c) a.toInt)] := by
  have h := parseSpec_int cfg fl w p wf c hc a ha [] []
  have := format_spec_ok cfg (specText fl w p c) [] _ _ _ h
  simpa [format, formatGo, Except.map] using this

/-! ## %c and %s -/

/-- `%c` of an integer (its low 16 resp. 8 bits as a character code), a float, a character or a non-empty string
(first character; hawk-specific): the character padded to the field width as C does -/
theorem format_char_eq_C (cfg : Cfg) (fl : Str) (w : WSpec) (p : PSpec) (wf : SpecWF fl w p)
    (a : Arg) (ch : Char) (ha : a.chrOf cfg.mbs = (ch, 1)) :
    format cfg ('%' :: specText fl w p 'c') (w.args ++ p.args ++ [a]) =
      .ok [.text (CSpec.renderChar (cspec fl w p 'c') ch)] := by
  have h := parseSpec_char cfg fl w p wf a ch ha [] []
  have := format_spec_ok cfg (specText fl w p 'c') [] _ _ _ h
  simpa [format, formatGo, Except.map] using this

/-- `%s`: the string (for a number: its text) cut to the precision and padded to the field width as C does -/
theorem format_str_eq_C (cfg : Cfg) (hv : cfg.valMode = false) (fl : Str) (w : WSpec) (p : PSpec) (wf : SpecWF fl w p) (a : Arg) :
    format cfg ('%' :: specText fl w p 's') (w.args ++ p.args ++ [a]) =
      .ok [.text (CSpec.renderStr (cspec fl w p 's') a.strOf)] := by
  have h := parseSpec_str cfg hv fl w p wf a [] []
  have := format_spec_ok cfg (specText fl w p 's') [] _ _ _ h
  simpa [format, formatGo, Except.map] using this

/-! ## %%, unknown and incomplete specifications -/

/-- `%%` (also with flags, width, precision in between) yields one percent sign and takes no argument for itself -/
theorem percent_percent (cfg : Cfg) (fl : Str) (w : WSpec) (p : PSpec) (wf : SpecWF fl w p) (rest : Str) (more : List Arg) :
    format cfg ('%' :: specText fl w p '%' ++ rest) (w.args ++ p.args ++ more) =
      (format cfg rest more).map ([Piece.text ['%']] ++ ·) :=
  format_spec_ok cfg (specText fl w p '%') rest _ _ _ (parseSpec_percent cfg fl w p wf rest more)

/-- a specification whose conversion character hawk does not know (e.g. `%y`, `%ld`, `%5.2F`) is copied through
unchanged, and formatting goes on behind it -/
theorem unknown_copied_through (cfg : Cfg) (fl : Str) (w : WSpec) (p : PSpec) (wf : SpecWF fl w p) (c : Char)
    (hce : isConvEnd c) (hk : isKnownConv c = false) (rest : Str) (more : List Arg) :
    format cfg ('%' :: specText fl w p c ++ rest) (w.args ++ p.args ++ more) =
      (format cfg rest more).map ([Piece.text ('%' :: specText fl w p c)] ++ ·) :=
  format_spec_ok cfg (specText fl w p c) rest _ _ _ (parseSpec_unknown cfg fl w p wf c hce hk rest more)

/-- a specification cut off by the end of the format is copied through unchanged -/
theorem incomplete_copied_through (cfg : Cfg) (fl : Str) (w : WSpec) (p : PSpec) (wf : SpecWF fl w p) (more : List Arg) :
    format cfg ('%' :: (fl ++ w.text ++ p.text)) (w.args ++ p.args ++ more) =
      .ok [.text ('%' :: (fl ++ w.text ++ p.text))] := by
  have h := parseSpec_incomplete cfg fl w p wf more
  have := format_spec_ok cfg (fl ++ w.text ++ p.text) [] _ _ _ (by simpa using h)
  simpa [format, formatGo, Except.map] using this

/-! ## float conversions: the specification handed to libc -/

/-- `e E f g G`: hawk does not format the number itself; libc `snprintf` is called with the `long double` value and the
specification `libcSpecOf fl w p c` = the user's flags in a fixed order (`0` dropped when `-` is there), the width and
precision as numbers with `*` substituted (negative `*` width = `-` flag + absolute value, negative `*` precision =
omitted), the `L` modifier and the conversion character. Digit generation is libc's. -/
theorem float_spec_passthrough (cfg : Cfg) (fl : Str) (w : WSpec) (p : PSpec) (wf : SpecWF fl w p) (c : Char)
    (hc : c = 'e' ∨ c = 'E' ∨ c = 'f' ∨ c = 'g' ∨ c = 'G') (a : Arg) :
    format cfg ('%' :: specText fl w p c) (w.args ++ p.args ++ [a]) = .ok [.libc (libcSpecOf fl w p c) a] := by
  have h := parseSpec_float cfg fl w p wf c hc a [] []
  have := format_spec_ok cfg (specText fl w p c) [] _ _ _ h
  simpa [format, formatGo, Except.map] using this

/-- CONVFMT / OFMT go through the same function with the number as the only argument: a float specification is handed to
libc in the same way, and `%s` is formatted as `%g` -/
theorem convfmt_same_rule (tmpLen : Nat) (fl : Str) (w : WSpec) (p : PSpec) (wf : SpecWF fl w p) (c : Char)
    (hc : c = 'e' ∨ c = 'E' ∨ c = 'f' ∨ c = 'g' ∨ c = 'G') (a : Arg) (hw : w.args = []) (hp : p.args = []) :
    format { tmpLen := tmpLen, valMode := true } ('%' :: specText fl w p c) [a] = .ok [.libc (libcSpecOf fl w p c) a] ∧
    format { tmpLen := tmpLen, valMode := true } ('%' :: specText fl w p 's') [a] = .ok [.libc (libcSpecOf fl w p 'g') a] := by
  constructor
  · have := float_spec_passthrough { tmpLen := tmpLen, valMode := true } fl w p wf c hc a
    simpa [hw, hp] using this
  · have h := parseSpec_str_valmode { tmpLen := tmpLen, valMode := true } rfl fl w p wf a [] []
    have := format_spec_ok _ (specText fl w p 's') [] _ _ _ h
    simpa [format, formatGo, Except.map, hw, hp] using this

/-! ## the whole format string -/

/-- every kind of specification is a segment that behaves the same whatever follows it -/
theorem seg_int_ok (cfg : Cfg) (fl : Str) (w : WSpec) (p : PSpec) (wf : SpecWF fl w p) (c : Char)
    (hc : c = 'd' ∨ c = 'i' ∨ c = 'o' ∨ c = 'u' ∨ c = 'x' ∨ c = 'X')
    (a : Arg) (ha : -9223372036854775808 ≤ a.toInt ∧ a.toInt < 9223372036854775808) :
    (Seg.spec (specText fl w p c) (w.args ++ p.args ++ [a]) [.text (CSpec.render (cspec fl w p c) a.toInt)]).Ok cfg := by
  intro rest more
  simpa using parseSpec_int cfg fl w p wf c hc a ha rest more

theorem seg_char_ok (cfg : Cfg) (fl : Str) (w : WSpec) (p : PSpec) (wf : SpecWF fl w p) (a : Arg) (ch : Char)
    (ha : a.chrOf cfg.mbs = (ch, 1)) :
    (Seg.spec (specText fl w p 'c') (w.args ++ p.args ++ [a]) [.text (CSpec.renderChar (cspec fl w p 'c') ch)]).Ok cfg := by
  intro rest more
  simpa using parseSpec_char cfg fl w p wf a ch ha rest more

theorem seg_str_ok (cfg : Cfg) (hv : cfg.valMode = false) (fl : Str) (w : WSpec) (p : PSpec) (wf : SpecWF fl w p) (a : Arg) :
    (Seg.spec (specText fl w p 's') (w.args ++ p.args ++ [a]) [.text (CSpec.renderStr (cspec fl w p 's') a.strOf)]).Ok cfg := by
  intro rest more
  simpa using parseSpec_str cfg hv fl w p wf a rest more

theorem seg_float_ok (cfg : Cfg) (fl : Str) (w : WSpec) (p : PSpec) (wf : SpecWF fl w p) (c : Char)
    (hc : c = 'e' ∨ c = 'E' ∨ c = 'f' ∨ c = 'g' ∨ c = 'G') (a : Arg) :
    (Seg.spec (specText fl w p c) (w.args ++ p.args ++ [a]) [.libc (libcSpecOf fl w p c) a]).Ok cfg := by
  intro rest more
  simpa using parseSpec_float cfg fl w p wf c hc a rest more

theorem seg_percent_ok (cfg : Cfg) (fl : Str) (w : WSpec) (p : PSpec) (wf : SpecWF fl w p) :
    (Seg.spec (specText fl w p '%') (w.args ++ p.args) [.text ['%']]).Ok cfg := by
  intro rest more
  exact parseSpec_percent cfg fl w p wf rest more

theorem seg_unknown_ok (cfg : Cfg) (fl : Str) (w : WSpec) (p : PSpec) (wf : SpecWF fl w p) (c : Char)
    (hce : isConvEnd c) (hk : isKnownConv c = false) :
    (Seg.spec (specText fl w p c) (w.args ++ p.args) [.text ('%' :: specText fl w p c)]).Ok cfg := by
  intro rest more
  exact parseSpec_unknown cfg fl w p wf c hce hk rest more

/-- composition: for a format made of literal text (without `%`) and specifications of the kinds above, the result is the
concatenation, in order, of the literal characters and of what each specification yields on its own arguments; arguments
are consumed in order and surplus arguments are ignored -/
theorem format_composition (cfg : Cfg) (segs : List Seg) (h : ∀ s ∈ segs, s.Ok cfg) (more : List Arg) :
    format cfg (segs.flatMap Seg.text) (segs.flatMap Seg.args ++ more) = .ok (segs.flatMap Seg.out) :=
  format_segments cfg segs h more

/-- … and the same followed by a specification cut off by the end of the format -/
theorem format_composition_incomplete (cfg : Cfg) (segs : List Seg) (h : ∀ s ∈ segs, s.Ok cfg)
    (fl : Str) (w : WSpec) (p : PSpec) (wf : SpecWF fl w p) (more : List Arg) :
    format cfg (segs.flatMap Seg.text ++ '%' :: (fl ++ w.text ++ p.text)) (segs.flatMap Seg.args ++ (w.args ++ p.args ++ more)) =
      .ok (segs.flatMap Seg.out ++ [.text ('%' :: (fl ++ w.text ++ p.text))]) := by
  have gen : ∀ (tf : Str) (ta : List Arg) (res : List Piece), format cfg tf ta = .ok res →
      format cfg (segs.flatMap Seg.text ++ tf) (segs.flatMap Seg.args ++ ta) = .ok (segs.flatMap Seg.out ++ res) := by
    intro tf ta res htail
    induction segs with
    | nil => simpa using htail
    | cons s r ih =>
      have ihr := ih (fun x hx => h x (by simp [hx]))
      have hs := h s (by simp)
      cases s with
      | lit t =>
        simp only [List.flatMap_cons, Seg.text, Seg.args, Seg.out, List.nil_append, List.append_assoc]
        rw [format_lit_append cfg t hs, ihr]
        simp [Except.map]
      | spec t a o =>
        simp only [List.flatMap_cons, Seg.text, Seg.args, Seg.out, List.append_assoc]
        rw [format_spec_ok cfg t _ _ _ o (hs _ _), ihr]
        simp [Except.map]
  exact gen _ _ _ (incomplete_copied_through cfg fl w p wf more)

/-- a conversion that needs an argument when none is left makes the whole call fail (HAWK_EFMTARG) -/
theorem missing_argument_fails (cfg : Cfg) (fl : Str) (w : WSpec) (p : PSpec) (wf : SpecWF fl w p) (c : Char)
    (hc : isIntConv c = true ∨ isFltConv c = true ∨ c = 'c' ∨ c = 's') (hce : isConvEnd c) (rest : Str) :
    format cfg ('%' :: specText fl w p c ++ rest) (w.args ++ p.args) = .error .efmtarg := by
  have h := parseSpec_noarg cfg fl w p wf c hc hce rest
  rw [List.append_nil] at h
  exact format_spec_err cfg _ _ _ h

/-! ## number → string: hawk_rtx_valtostr (val.c) -/

/-- the text of an integer is what `%d` gives, for the duplicating and the string-buffer output kinds; `strpcat` appends it -/
theorem val_int_to_str_eq_C (v : Int) (buflen : Nat) (pre : Str) :
    valIntToStr v .cpldup buflen pre = .ok (CSpec.render (cspec [] .none .none 'd') v) ∧
    valIntToStr v .strp buflen pre = .ok (CSpec.render (cspec [] .none .none 'd') v) ∧
    valIntToStr v .strpcat buflen pre = .ok (pre ++ CSpec.render (cspec [] .none .none 'd') v) := by
  simp [valIntToStr, intCells_eq, intText_eq_render]

/-- an integer into a caller's buffer of `buflen` cells (kinds cpl and cplcpy): the whole text when it fits together with its
terminator, otherwise the call fails and reports the size needed - never a shortened text -/
theorem val_int_fixed_buffer_whole_or_fail (v : Int) (buflen : Nat) (pre : Str) :
    valIntToStr v .cplcpy buflen pre =
      (if buflen ≤ (CSpec.render (cspec [] .none .none 'd') v).length
       then .einval (some ((CSpec.render (cspec [] .none .none 'd') v).length + 1))
       else .ok (CSpec.render (cspec [] .none .none 'd') v)) ∧
    valIntToStr v .cpl buflen pre = valIntToStr v .cplcpy buflen pre := by
  have hc : intCells v (CSpec.render (cspec [] .none .none 'd') v).length = CSpec.render (cspec [] .none .none 'd') v := by
    have := intCells_eq v
    rwa [intRlen_exact, intText_eq_render] at this
  simp only [valIntToStr, intRlen_exact, intText_eq_render, ge_iff_le, and_true, hc]

/-- the text `t` of a float (what hawk_rtx_format made of CONVFMT/OFMT) into a caller's buffer: whole or not at all -/
theorem val_flt_fixed_buffer_whole_or_fail (t : Str) (buflen : Nat) (pre : Str) :
    (t.length < buflen → deliverFlt t .cplcpy buflen pre = .ok t) ∧
    (buflen ≤ t.length → deliverFlt t .cplcpy buflen pre = .einval (some (t.length + 1))) ∧
    (∀ t', deliverFlt t .cplcpy buflen pre = .ok t' → t' = t ∧ t.length < buflen) ∧
    deliverFlt t .cpl buflen pre = deliverFlt t .cplcpy buflen pre := by
  refine ⟨?_, ?_, ?_, rfl⟩
  · intro h; have : ¬ buflen ≤ t.length := by omega
    simp [deliverFlt, this]
  · intro h; simp [deliverFlt, h]
  · intro t' h
    by_cases hb : buflen ≤ t.length
    · simp [deliverFlt, hb] at h
    · simp only [deliverFlt, hb, if_false, VRes.ok.injEq] at h
      exact ⟨h.symm, by omega⟩

/-- the other output kinds deliver the float text unchanged; `strpcat` appends it to what the buffer holds -/
theorem val_flt_other_kinds (t : Str) (buflen : Nat) (pre : Str) :
    deliverFlt t .cpldup buflen pre = .ok t ∧ deliverFlt t .strp buflen pre = .ok t ∧
    deliverFlt t .strpcat buflen pre = .ok (pre ++ t) := ⟨rfl, rfl, rfl⟩

/-- the text itself (val_flt_to_str since 65b4a33, the POSIX rule): a value that is an exact integer within the range of hawk_int_t
(`iv = some n`) gets the `%d` text of that integer, whatever CONVFMT and OFMT are; every other value is formatted with CONVFMT, or OFMT
when HAWK_RTX_VALTOSTR_PRINT is given, and a float specification in it goes to libc as `libcSpecOf` says (`float_spec_passthrough`;
there is no `*` argument to take) -/
theorem val_flt_to_str_spec (tmpLen : Nat) (print : Bool) (convfmt ofmt : Str) (a : Arg) :
    (∀ n : Int, valFltToPieces tmpLen print convfmt ofmt (some n) a = .ok [.text (CSpec.render (cspec [] .none .none 'd') n)]) ∧
    (∀ (fl : Str) (w : WSpec) (p : PSpec) (_wf : SpecWF fl w p) (c : Char) (_hc : c = 'e' ∨ c = 'E' ∨ c = 'f' ∨ c = 'g' ∨ c = 'G')
       (_hw : w.args = []) (_hp : p.args = []) (_hfmt : (if print then ofmt else convfmt) = '%' :: specText fl w p c),
       valFltToPieces tmpLen print convfmt ofmt none a = .ok [.libc (libcSpecOf fl w p c) a]) := by
  constructor
  · intro n
    simp [valFltToPieces, intCells_eq, intText_eq_render]
  · intro fl w p wf c hc hw hp hfmt
    unfold valFltToPieces valFltPieces valFltFormat
    rw [hfmt]
    exact (convfmt_same_rule tmpLen fl w p wf c hc a hw hp).1

/-- delivery of a float under that rule: the `%d` text of the integer when integral and in range, otherwise the CONVFMT/OFMT text `t` -
unchanged for the duplicating and string-buffer kinds, appended by `strpcat` -/
theorem val_flt_to_str_rule (t : Str) (buflen : Nat) (pre : Str) :
    (∀ n : Int,
      valFltToStr (some n) t .cpldup buflen pre = .ok (CSpec.render (cspec [] .none .none 'd') n) ∧
      valFltToStr (some n) t .strp buflen pre = .ok (CSpec.render (cspec [] .none .none 'd') n) ∧
      valFltToStr (some n) t .strpcat buflen pre = .ok (pre ++ CSpec.render (cspec [] .none .none 'd') n)) ∧
    (valFltToStr none t .cpldup buflen pre = .ok t ∧ valFltToStr none t .strp buflen pre = .ok t ∧
      valFltToStr none t .strpcat buflen pre = .ok (pre ++ t)) := by
  constructor
  · intro n; exact val_int_to_str_eq_C n buflen pre
  · exact ⟨rfl, rfl, rfl⟩

/-- the text a float is converted to: the `%d` text of the integer, or `t` -/
def fltText (iv : Option Int) (t : Str) : Str :=
  match iv with
  | some n => CSpec.render (cspec [] .none .none 'd') n
  | none => t

/-- … and into a caller's buffer (kinds cpl and cplcpy), on both branches: the whole text when it fits with its terminator,
otherwise failure with the size needed - never a shortened text -/
theorem val_flt_to_str_fixed_buffer (iv : Option Int) (t : Str) (buflen : Nat) (pre : Str) :
    valFltToStr iv t .cplcpy buflen pre =
      (if buflen ≤ (fltText iv t).length then .einval (some ((fltText iv t).length + 1)) else .ok (fltText iv t)) ∧
    valFltToStr iv t .cpl buflen pre = valFltToStr iv t .cplcpy buflen pre := by
  cases iv with
  | none => exact ⟨rfl, rfl⟩
  | some n => exact val_int_fixed_buffer_whole_or_fail n buflen pre

/-- strings, characters and nil through the same output kinds (str_to_str): whole or not at all into a caller's buffer -/
theorem str_fixed_buffer_whole_or_fail (s : Str) (buflen : Nat) (pre : Str) :
    (s.length < buflen → strToStr s .cplcpy buflen pre = .ok s) ∧
    (buflen ≤ s.length → strToStr s .cplcpy buflen pre = .einval none) ∧
    strToStr s .cpldup buflen pre = .ok s ∧ strToStr s .strp buflen pre = .ok s ∧
    strToStr s .strpcat buflen pre = .ok (pre ++ s) := by
  refine ⟨?_, ?_, rfl, rfl, rfl⟩
  · intro h; have : ¬ s.length ≥ buflen := by omega
    simp [strToStr, this]
  · intro h; simp [strToStr, h]

/-! ## float conversions below the specifier: fmt.c's output buffer and the `snprintf` protocol (libc = a parameter) -/

/-- the `while (1)` loop around `snprintf` in `fmt_outv`, for ANY text `t` libc renders (of a length an `int` can hold), any buffer
capacity and history: it ends after one call or two, the buffer then holds the whole text `t` (nothing cut), its capacity covers
the text and is at most `max (2 * capa) |t|`, and it is a heap block exactly when it was one before or a second call was needed -/
theorem float_out_one_or_two_calls (t : Str) (capa : Nat) (heap : Bool) (calls : Nat) (h : t.length ≤ 2147483647) :
    ∃ capa' heap' k, outLoop t capa heap calls = .ok capa' heap' (calls + k) t ∧ (k = 1 ∨ k = 2) ∧
      t.length ≤ capa' ∧ capa ≤ capa' ∧ capa' ≤ max (capa * 2) t.length ∧ (heap' = true ↔ (heap = true ∨ k = 2)) := by
  by_cases hc : t.length ≤ capa
  · exact ⟨capa, heap, 1, outLoop_fits t capa heap calls h hc, Or.inl rfl, hc, Nat.le_refl _, by omega, by simp⟩
  · exact ⟨max (capa * 2) t.length, true, 2, outLoop_grows t capa heap calls h (by omega), Or.inr rfl, by omega, by omega, Nat.le_refl _, by simp⟩

/-- whatever libc's renderer `render` is (any floating type `F`, any specifier text, any value): the text it produces reaches
hawk's output complete and unchanged, however long it is (up to `INT_MAX` characters, the limit of `snprintf`'s return value) -/
theorem float_out_delivers_untruncated {F : Type} (render : Str → F → Str) (spec : Str) (v : F)
    (hlen : (render spec v).length ≤ 2147483647) (hnul : '\x00' ∉ render spec v) :
    deliver (render spec v) = some (render spec v) := by
  unfold deliver
  obtain ⟨capa', heap', k, hk, -⟩ := float_out_one_or_two_calls (render spec v) 63 false 0 hlen
  rw [hk]
  simp [cstrOf_noNul _ hnul]

/-- a text longer than `INT_MAX` makes `snprintf` return a negative value: the conversion fails (`goto oops`), nothing is put out -/
theorem float_out_int_overflow_fails (t : Str) (h : t.length > 2147483647) : deliver t = none := by
  unfold deliver
  rw [outLoop_overflow t 63 false 0 h]

/-- the text handed to libc denotes the conversion the user wrote. With `s = cspec fl w p c` — ISO C's reading of the user's
specification, `*` arguments taken in order, a negative `*` width read as the `-` flag and its absolute value, a negative `*` precision
as omitted — the text is `denoteText s w p`: the flags of `s` as a set, each once, in the order ` # + - 0` (`0` only without `-`, where C
ignores it anyway; a `*` width of 0 adds a `0` that has no effect without a width), the width of `s`, a period and the precision of `s`
when `s` has one, `L`, the conversion character. Nothing else of the user's text survives and nothing is added. -/
theorem float_spec_denotes (cfg : Cfg) (fl : Str) (w : WSpec) (p : PSpec) (wf : SpecWF fl w p) (c : Char)
    (hc : c = 'e' ∨ c = 'E' ∨ c = 'f' ∨ c = 'g' ∨ c = 'G') (a : Arg) :
    format cfg ('%' :: specText fl w p c) (w.args ++ p.args ++ [a]) = .ok [.libc (denoteText (cspec fl w p c) w p) a] := by
  rw [← libcSpecOf_denotes]
  exact float_spec_passthrough cfg fl w p wf c hc a

/-- "compose back the format specifier" into `fb.fmt` with the room checks of the code (`composeInto`: the two numbers are cut to
the cells that are left, the single characters are stored unchecked): whenever the recomposed specifier fits the buffer, it is
written whole, i.e. it is `recompose` — the text of `float_spec_passthrough`. (It fits when width and precision are written back no
longer than they were read; a value that wrapped around in `int n` is not — see patches/c12-fmt-width-precision-overflow.diff.) -/
theorem float_spec_written_whole_if_room (capa : Nat) (st : CState) (conv : Char) (h : (recompose st conv).length ≤ capa) :
    composeInto capa st conv = recompose st conv := composeInto_eq capa st conv h

/-- … and it does fit, for every specifier run.c builds from a well-formed specification (any flags, repeated or not, literal or `*`
width and precision of any size, both formatters: `chsz` = 1 or 2 bytes per format character): the specifier handed to libc is never
longer than the one hawk built (each flag is written back once, numbers without leading zeros, `z` becomes `L`), so the recomposition
is written whole into `fb.fmt` and the final NUL stays inside the buffer. This is the invariant an `int n` that wraps around breaks. -/
theorem float_spec_fits_buffer (tmpLen : Nat) (fl : Str) (w : WSpec) (p : PSpec) (wf : SpecWF fl w p) (c : Char) (chsz : Nat) (hch : 1 ≤ chsz) :
    (libcSpecOf fl w p c).length ≤ fmtCapa (chsz * ('%' :: fl ++ w.fbuText tmpLen ++ p.fbuText tmpLen ++ ['z', c]).length) ∧
    composeInto (fmtCapa (chsz * ('%' :: fl ++ w.fbuText tmpLen ++ p.fbuText tmpLen ++ ['z', c]).length)) (libcState fl w p) c =
      libcSpecOf fl w p c := by
  have hl := libcSpecOf_length_le tmpLen fl w p wf c
  have hcap : ∀ n, n ≤ fmtCapa (chsz * n) := by
    intro n
    have : n ≤ chsz * n := Nat.le_mul_of_pos_left n hch
    unfold fmtCapa; split <;> omega
  have hfit := Nat.le_trans hl (hcap _)
  refine ⟨hfit, ?_⟩
  rw [← recompose_libcState fl w p wf c] at hfit ⊢
  exact composeInto_eq _ _ _ hfit

/-- the float branch of fmt_outv end to end, libc being any `render`: for a specifier fmt.c accepts (`fmtcScan`) and whose
recomposition fits `fb.fmt`, what is put out is exactly libc's rendering of the recomposed specifier — hawk adds nothing around it
and cuts nothing off, so sign, padding and alignment are those of the C library for that specifier -/
theorem float_out_is_libc {F : Type} (render : Str → F → Str) (chsz : Nat) (body : Str) (v : F) (st : CState) (conv : Char)
    (hs : fmtcScan body {} = some (st, conv))
    (hroom : (recompose st conv).length ≤ fmtCapa (chsz * (body.length + 1)))
    (hlen : (render (recompose st conv) v).length ≤ 2147483647) (hnul : '\x00' ∉ render (recompose st conv) v) :
    fmtcFloatOut render chsz ('%' :: body) v = some (some (render (recompose st conv) v)) := by
  unfold fmtcFloatOut
  simp only [hs, Option.map_some, List.length_cons]
  rw [composeInto_eq _ _ _ hroom, float_out_delivers_untruncated render _ v hlen hnul]

/-! ## the scratch buffers of the two formatters of one runtime (`rtx->format.tmp`, `rtx->formatmbs.tmp`) -/

/-- an integer conversion as the formatter meets it -/
def OpOk (o : IntOp) : Prop :=
  (o.c = 'd' ∨ o.c = 'i' ∨ o.c = 'o' ∨ o.c = 'u' ∨ o.c = 'x' ∨ o.c = 'X') ∧ (o.precGiven = false → o.prec = -1) ∧ -1 ≤ o.prec ∧
  (-9223372036854775808 ≤ o.l ∧ o.l < 9223372036854775808)

/-- for every sequence of integer conversions by the wide and the byte-string formatter of one runtime, from any buffer lengths:
every call into fmt.c passes a size that the formatter's OWN scratch buffer has at that moment (the callee writes up to that many
cells) — whatever the field widths and precisions, also across the growth steps -/
theorem scratch_calls_within_buffer (s : Scratch) (ops : List IntOp) :
    ∀ x ∈ seqRun s ops, ∀ p ∈ x.2, p.1 ≤ p.2 := by
  induction ops generalizing s with
  | nil => intro x hx; simp [seqRun] at hx
  | cons o r ih =>
    intro x hx
    simp only [seqRun, List.mem_cons] at hx
    rcases hx with rfl | hx
    · intro p hp
      exact emitIntTmpOf_within _ _ _ p (by simpa [seqStep, emitIntTmp] using hp)
    · exact ih _ x hx

/-- a conversion by one formatter leaves the other formatter's buffer as it was and never shrinks its own -/
theorem scratch_other_formatter_untouched (s : Scratch) (o : IntOp) :
    (seqStep s o.mbs o.flags o.width o.precGiven o.prec o.c o.l).1.get (!o.mbs) = s.get (!o.mbs) ∧
    s.get o.mbs ≤ (seqStep s o.mbs o.flags o.width o.precGiven o.prec o.c o.l).1.get o.mbs := by
  have hm := emitIntTmpOf_mono
  cases hb : o.mbs <;> simp [seqStep, Scratch.get, Scratch.set, emitIntTmp, hm]

/-- the texts of such a sequence do not depend on what came before (buffers enlarged by either formatter, in any order): each is
what C gives for that specification alone -/
theorem scratch_history_independent (s : Scratch) (ops : List IntOp) (h : ∀ o ∈ ops, OpOk o) :
    (seqRun s ops).map (·.1) = ops.map fun o => CSpec.render ⟨o.flags, o.width, precOpt o.prec, o.c⟩ o.l := by
  induction ops generalizing s with
  | nil => simp [seqRun]
  | cons o r ih =>
    obtain ⟨hc, hpg, hp1, hl⟩ := h o (by simp)
    simp only [seqRun, List.map_cons, seqStep]
    rw [emitInt_eq_render _ _ _ _ _ _ _ hc hpg hp1 hl, ih _ (fun o' ho' => h o' (by simp [ho']))]

/-! ## tie: the conversion dispatch regenerated from lib/run.c and lib/fmt.c (extract/fmt_dispatch.py → Gen/FmtDispatch.lean) -/

/-- the branch `Fmt.dispatch` takes for a conversion character (its `if` chain, in its order) -/
def handlerOf (c : Char) : String :=
  if isIntConv c then "int" else if isFltConv c then "flt" else if c == 'c' then "chr"
  else if c == 's' ∨ isExtConv c then "str" else "other"

/-- every row (character, handler) of the dispatch chains of hawk_rtx_format and hawk_rtx_formatmbs, as regenerated from the
source, is the branch the model takes, and a character in neither chain goes to the model's copy-through branch: the two
formatters and the model dispatch alike -/
theorem dispatch_table_tie :
    (∀ r ∈ Gen.dispatchWide, handlerOf r.1 = r.2) ∧ (∀ r ∈ Gen.dispatchByte, handlerOf r.1 = r.2) ∧
    (∀ c, c ∉ Gen.dispatchWide.map (·.1) → handlerOf c = "other") ∧ (∀ c, c ∉ Gen.dispatchByte.map (·.1) → handlerOf c = "other") := by
  refine ⟨by decide, by decide, ?_, ?_⟩ <;>
  · intro c hc
    simp [Gen.dispatchWide, Gen.dispatchByte] at hc
    simp [handlerOf, isIntConv, isFltConv, isExtConv, hc]

/-- what a row (label, base, fmt_uint, UPPERCASE, ZEROLEAD under `#`, prefix under `#` and a nonzero value, sign flags) of the
regenerated `switch (fmt[i])` of the integer branch says about the conversion character `c` -/
def SwitchRowOk (r : Option Char × Nat × Bool × Bool × Bool × Option String × Bool) (c : Char) : Prop :=
  ∀ (flags : Flags) (l : Int), convOf flags c l =
    (r.2.1, r.2.2.2.1, (r.2.2.2.2.1 && flags.hash), (r.2.2.2.2.2.2 && flags.plus), (r.2.2.2.2.2.2 && flags.space), r.2.2.1,
     if l ≠ 0 ∧ flags.hash = true then r.2.2.2.2.2.1.map String.toList else none)

/-- the model's `convOf` is the regenerated `switch (fmt[i])` of both formatters, row by row; the `default` row covers `d` and `i` -/
theorem int_switch_table_tie :
    (∀ r ∈ Gen.intSwitchWide, match r.1 with | some c => SwitchRowOk r c | none => SwitchRowOk r 'd' ∧ SwitchRowOk r 'i') ∧
    (∀ r ∈ Gen.intSwitchByte, match r.1 with | some c => SwitchRowOk r c | none => SwitchRowOk r 'd' ∧ SwitchRowOk r 'i') := by
  constructor <;>
  · intro r hr
    simp only [Gen.intSwitchWide, Gen.intSwitchByte, List.mem_cons, List.not_mem_nil, or_false] at hr
    rcases hr with rfl | rfl | rfl | rfl | rfl | rfl | rfl <;>
      simp only [SwitchRowOk] <;> (try constructor) <;> intro flags l <;>
      obtain ⟨sp, hs, ze, pl, mi⟩ := flags <;>
      by_cases hl : l = 0 <;> cases hs <;> cases pl <;> cases sp <;> simp [convOf, hl]

/-- the bit of fmt.c's `flagc` a FLAGC_ name stands for, in the model's state -/
def flagBit (st : CState) (n : String) : Bool :=
  if n == "SPACE" then st.space else if n == "SHARP" then st.sharp else if n == "SIGN" then st.sign
  else if n == "LEFTADJ" then st.leftadj else if n == "ZEROPAD" then st.zeropad else false

/-- "compose back the format specifier" writes the flag characters in the order regenerated from fmt.c (`Gen.recomposeFlags`), each
when its `flagc` bit is set, then width, period, precision, `L` and the conversion character: `recompose` is that code -/
theorem recompose_flag_order_tie (st : CState) (conv : Char) :
    recompose st conv = ['%'] ++ (Gen.recomposeFlags.filterMap fun r => if flagBit st r.1 then some r.2 else none)
      ++ (if st.width then decimal st.w else []) ++ (if st.dot then ['.'] else []) ++ (if st.precision then decimal st.p else [])
      ++ ['L', conv] := by
  obtain ⟨dot, sharp, space, sign, leftadj, zeropad, width, precision, lenmod, w, p⟩ := st
  cases sharp <;> cases space <;> cases sign <;> cases leftadj <;> cases zeropad <;>
    simp [recompose, Gen.recomposeFlags, flagBit]

/-- over the regenerated table: every character either formatter sends to its integer branch (other than hawk's binary extension
`b B`) formats any 64-bit value exactly as ISO C prescribes, for all flags, widths and precisions -/
theorem table_int_rows_like_C (cfg : Cfg) :
    ∀ r ∈ (if cfg.mbs then Gen.dispatchByte else Gen.dispatchWide), r.2 = "int" → r.1 ≠ 'b' → r.1 ≠ 'B' →
    ∀ (fl : Str) (w : WSpec) (p : PSpec), SpecWF fl w p → ∀ (a : Arg), (-9223372036854775808 ≤ a.toInt ∧ a.toInt < 9223372036854775808) →
      format cfg ('%' :: specText fl w p r.1) (w.args ++ p.args ++ [a]) = .ok [.text (CSpec.render (cspec fl w p r.1) a.toInt)] := by
  intro r hr hk hb hB fl w p wf a ha
  have hc : r.1 = 'd' ∨ r.1 = 'i' ∨ r.1 = 'o' ∨ r.1 = 'u' ∨ r.1 = 'x' ∨ r.1 = 'X' := by
    cases hm : cfg.mbs <;> simp only [hm, if_true, if_false, Bool.false_eq_true] at hr <;>
    simp only [Gen.dispatchWide, Gen.dispatchByte, List.mem_cons, List.not_mem_nil, or_false] at hr <;>
    rcases hr with rfl | rfl | rfl | rfl | rfl | rfl | rfl | rfl | rfl | rfl | rfl | rfl | rfl | rfl | rfl | rfl | rfl | rfl | rfl <;>
    simp_all
  exact format_int_eq_C cfg fl w p wf r.1 hc a ha

/-- over the regenerated tables: every character either formatter sends to its float branch is a case label of the branch of
fmt_outv that calls `snprintf`, and the specifier handed down is `libcSpecOf` (see `float_spec_passthrough`) -/
theorem table_flt_rows_to_libc (cfg : Cfg) :
    ∀ r ∈ (if cfg.mbs then Gen.dispatchByte else Gen.dispatchWide), r.2 = "flt" → r.1 ∈ Gen.fmtcFloatCases ∧
    ∀ (fl : Str) (w : WSpec) (p : PSpec), SpecWF fl w p → ∀ (a : Arg),
      format cfg ('%' :: specText fl w p r.1) (w.args ++ p.args ++ [a]) = .ok [.libc (libcSpecOf fl w p r.1) a] := by
  intro r hr hk
  have hc : r.1 = 'e' ∨ r.1 = 'E' ∨ r.1 = 'f' ∨ r.1 = 'g' ∨ r.1 = 'G' := by
    cases hm : cfg.mbs <;> simp only [hm, if_true, if_false, Bool.false_eq_true] at hr <;>
    simp only [Gen.dispatchWide, Gen.dispatchByte, List.mem_cons, List.not_mem_nil, or_false] at hr <;>
    rcases hr with rfl | rfl | rfl | rfl | rfl | rfl | rfl | rfl | rfl | rfl | rfl | rfl | rfl | rfl | rfl | rfl | rfl | rfl | rfl <;>
    simp_all
  refine ⟨?_, fun fl w p wf a => float_spec_passthrough cfg fl w p wf r.1 hc a⟩
  rcases hc with h | h | h | h | h <;> rw [h] <;> decide

/-! ## non-vacuity: the hypotheses are satisfiable by non-trivial specifications, and the reference says what C says -/

example : SpecWF ['#', '0'] (.lit ['8']) .none := ⟨by decide, by simp [WSpec.wf], trivial⟩

/-- `sprintf("%#08x", 42)` = `0x00002a` (the former `00000x2a`) -/
example : format {} "%#08x".toList [.int 42] = .ok [.text "0x00002a".toList] := by
  have := format_int_eq_C {} ['#', '0'] (.lit ['8']) .none ⟨by decide, by simp [WSpec.wf], trivial⟩ 'x' (by simp) (.int 42) (by decide)
  rw [show CSpec.render (cspec ['#', '0'] (.lit ['8']) .none 'x') (Arg.int 42).toInt = "0x00002a".toList from by decide] at this
  simpa [specText, WSpec.text, PSpec.text, WSpec.args, PSpec.args] using this

example : CSpec.render (cspec ['#', '0'] (.lit ['8']) .none 'x') 42 = "0x00002a".toList := by decide
example : CSpec.render (cspec ['+'] .none .none 'u') 42 = "42".toList := by decide
example : CSpec.render (cspec ['+', ' '] .none .none 'd') 42 = "+42".toList := by decide
example : CSpec.render (cspec ['#'] .none .none 'X') 255 = "0XFF".toList := by decide
example : CSpec.render (cspec ['0'] (.star (-7)) (.star (-1)) 'd') (-42) = "-42    ".toList := by decide
example : CSpec.render (cspec ['0'] (.lit ['5']) (.star (-1)) 'd') 42 = "00042".toList := by decide
example : CSpec.render (cspec ['#'] .none (.lit ['0']) 'o') 0 = "0".toList := by decide
example : CSpec.render (cspec [] (.lit ['5']) (.lit []) 'd') 0 = "     ".toList := by decide
example : CSpec.render (cspec [] .none .none 'u') (-1) = "18446744073709551615".toList := by decide
example : libcSpecOf ['0', '+'] (.star (-12)) (.star 3) 'e' = "%+-12.3Le".toList := by
  simp only [libcSpecOf, decimal_eq]; decide
example : libcSpecOf ['-', '0', '#'] .none (.star (-1)) 'g' = "%#-Lg".toList := by
  simp only [libcSpecOf, decimal_eq]; decide
example : isConvEnd 'y' ∧ isKnownConv 'y' = false := by unfold isConvEnd; decide
example : isConvEnd 'l' ∧ isKnownConv 'l' = false := by unfold isConvEnd; decide

example : valIntToStr (-42) .cplcpy 4 [] = .ok "-42".toList := by
  rw [(val_int_fixed_buffer_whole_or_fail (-42) 4 []).1]; decide
example : valIntToStr (-42) .cplcpy 3 [] = .einval (some 4) := by
  rw [(val_int_fixed_buffer_whole_or_fail (-42) 3 []).1]; decide
example : valIntToStr (-9223372036854775808) .strpcat 0 "k=".toList = .ok "k=-9223372036854775808".toList := by
  rw [(val_int_to_str_eq_C _ 0 _).2.2]; decide
example : deliverFlt "0.50".toList .cplcpy 4 [] = .einval (some 5) ∧ deliverFlt "0.50".toList .cplcpy 5 [] = .ok "0.50".toList := by decide
example : valFltToPieces 4096 false "%.3g".toList "%.6g".toList none (.flt 3 []) = .ok [.libc "%.3Lg".toList (.flt 3 [])] := by
  have := (val_flt_to_str_spec 4096 false "%.3g".toList "%.6g".toList (.flt 3 [])).2 [] .none (.lit ['3']) ⟨by decide, trivial, by simp [PSpec.wf]⟩ 'g' (by simp) rfl rfl rfl
  rw [this]
  have : libcSpecOf [] .none (.lit ['3']) 'g' = "%.3Lg".toList := by simp only [libcSpecOf, decimal_eq]; decide
  rw [this]
/-- 1e6 with CONVFMT="%.2e" is "1000000", -0.0 is "0" -/
example : valFltToPieces 4096 false "%.2e".toList "%.6g".toList (some 1000000) (.flt 1000000 []) = .ok [.text "1000000".toList] := by
  rw [(val_flt_to_str_spec 4096 false "%.2e".toList "%.6g".toList (.flt 1000000 [])).1]
  have : CSpec.render (cspec [] .none .none 'd') 1000000 = "1000000".toList := by decide
  rw [this]
example : valFltToStr (some 0) "-0".toList .cpldup 0 [] = .ok "0".toList := by
  rw [((val_flt_to_str_rule "-0".toList 0 []).1 0).1]; decide
example : valFltToStr (some 16777216) [] .cplcpy 8 [] = .einval (some 9) ∧ valFltToStr none "0.50".toList .cplcpy 5 [] = .ok "0.50".toList := by
  constructor
  · rw [(val_flt_to_str_fixed_buffer (some 16777216) [] 8 []).1]; decide
  · decide

/-- the wide `%300000d` followed by the byte-string `%200000d` of one runtime: both operations satisfy the hypotheses -/
example : OpOk ⟨false, {}, 300000, false, -1, 'd', 42⟩ ∧ OpOk ⟨true, {}, 200000, false, -1, 'd', 42⟩ := by
  unfold OpOk; decide
/-- … the wide one enlarges `format.tmp` only; the byte-string one then grows its own buffer from 4096 cells -/
example : tmpT1 4096 300000 = 300000 ∧ tmpT1 4096 200000 = 200000 ∧ tmpT1 4096 4097 = 12288 ∧ tmpT1 12288 12289 = 20480 := by decide
/-- a renderer whose text does not fit the 63 cells of `fb.out.sbuf` (hypotheses of `float_out_delivers_untruncated`) -/
example : deliver (List.replicate 64 '7') = some (List.replicate 64 '7') :=
  float_out_delivers_untruncated (fun _ (_ : Unit) => List.replicate 64 '7') [] () (by decide) (by decide)
example : outLoop (List.replicate 64 '7') 63 false 0 = .ok 126 true 2 (List.replicate 64 '7') :=
  outLoop_grows _ 63 false 0 (by decide) (by decide)
/-- `%+12.3Le` (13 characters) fits the 31 cells of `fb.fmt.sbuf`: the hypothesis of `float_spec_written_whole_if_room` -/
example : (recompose { sign := true, width := true, w := 12, dot := true, precision := true, p := 3 } 'e').length ≤ fmtCapa 16 := by
  simp [recompose, decimal, revDigits, fmtCapa]

/-- `%0*.*e` with the arguments -12 and 3: C reads flags {0, -}, width 12, precision 3 — the text for libc says the same -/
example : denoteText (cspec ['0'] (.star (-12)) (.star 3) 'e') (.star (-12)) (.star 3) = "%-12.3Le".toList := by
  rw [← libcSpecOf_denotes]; simp [libcSpecOf, decimal, revDigits]; decide

end Hawk.Fmt.C12
