import HawkModel.DepthLemmas
import HawkModel.Gen.CallGraph
/-!
  C14 - "Configured limits turn runaway nesting and recursion into errors".

  Graph half (over `Gen.CallGraph`, regenerated from the sources by extract/callgraph.py on every check):
    * `stack_bounded_of_cut_cycles`  generic, proved once: in a call graph whose plain (unchecked) calls are
      acyclic, every call stack the guards allow is at most (sum of the limits + 1) * |V| frames deep.
    * `plain_calls_acyclic`          generic: the certificate (plain calls go up in the node numbering) excludes
      every closed walk of plain calls.
    * `unguarded_acyclic`, `hawk_plain_calls_acyclic`, `hawk_stack_bounded_partial`: the instance for libhawk.
      PARTIAL: residual edges (unguarded recursion cycles, `Gen.residualGroups` - none are left in the current tree;
      a new one is real, see `residual_walks_closed` + `closed_walk_unbounded`, and breaks `residual_groups_known`),
      and the classes beyond the first `nLimitClasses` are assumptions with the reason given in
      extract/callgraph.py - in particular `tree-depth`: destructor and deparser recurse as deep as the parse tree,
      which the parser bounds; every call site of those is pinned by `residual_edges_known`.
    * `defaults_positive`, `cli_limits_enforced`, `model_defaults_match`.
  Behavioural half (over the counter arithmetic of `Depth`): `guard_threshold`, `descend_iff_fits`,
  `stack_guard_threshold`, `reject_iff_exceeds`, `reject_names_exceeded_limit`, `within_limit_unaffected`,
  `accept_downward_closed`, `peak_formula`.
-/
namespace Hawk.Props.C14
open Hawk.Depth
open Hawk.Gen

/-! ## generic graph theorems -/

/-- (1) Every call stack that the abstract machine can reach - calls along edges of the graph, made by the running
    function, refused when the counter of the edge's cut class has reached its limit - has at most
    (Σ limits + 1) · |V| frames, provided the plain edges go upwards in the node numbering (hence are acyclic),
    no residual edge is present and classes are in range.  For all operation histories. -/
theorem stack_bounded_of_cut_cycles (g : Graph) (hg : g.Good) (root : Nat) (ops : List Op) (s : St)
    (h : run g root St.init ops = some s) :
    s.stack.length ≤ (sumLimits g.limit g.nClasses + 1) * g.nNodes :=
  stack_bounded hg h

/-- the counters of the machine are exactly the number of frames entered through each cut class, and never
    exceed the configured limit -/
theorem counters_track_frames (g : Graph) (root : Nat) (ops : List Op) (s : St)
    (h : run g root St.init ops = some s) (c : Nat) (hc : 2 ≤ c) :
    s.ctr c = clsCount c s.stack ∧ clsCount c s.stack ≤ g.limit c := by
  have hi := inv_run ops St.init s (inv_init g) h
  exact ⟨hi.ctr c hc, hi.lim c hc⟩

/-- every counter returns to its entry value on every exit path: whenever the machine is back at the stack it had
    at some earlier moment - after evaluations that finished, or that were abandoned by unwinding (an error, `exit`) -
    each counter holds what it held then.  A counter that is left too high by an early exit is excluded by the
    machine; `counters_balanced_in_code` checks the corresponding idiom in the C sources. -/
theorem counters_balanced (g : Graph) (root : Nat) (ops1 ops2 : List Op) (s1 s2 : St)
    (h1 : run g root St.init ops1 = some s1) (h2 : run g root s1 ops2 = some s2)
    (hs : s2.stack = s1.stack) (c : Nat) (hc : 2 ≤ c) : s2.ctr c = s1.ctr c := by
  have i1 := inv_run ops1 St.init s1 (inv_init g) h1
  have i2 := inv_run ops2 s1 s2 i1 h2
  rw [i2.ctr c hc, i1.ctr c hc, hs]

/-- "the subgraph of plain calls is acyclic": with the certificate, no non-empty stack of plain calls returns to
    the function it started from -/
theorem plain_calls_acyclic (n : Nat) (es : List Edge) (hO : Ordered n es) (s : List Edge) (hne : s ≠ [])
    (hc : Chain s) (hm : ∀ e ∈ s, e ∈ es ∧ e.cls = 0) : bottom 0 s ≠ top 0 s :=
  Nat.ne_of_lt (plain_chain_increasing hO s hne hc hm)

/-- soundness of the executable certificate check -/
theorem certificate_sound (n : Nat) (es : List Edge) (h : orderedCheck n es = true) : Ordered n es :=
  orderedCheck_sound h

/-- the converse direction of (1): a closed walk of edges of one class that carries no limit (plain or residual)
    yields call stacks of every length on which no limit check ever fires -/
theorem closed_walk_unbounded (es : List Edge) (c : Nat) (w : List Nat) (h : closedWalkCheck es c w = true) (k : Nat) :
    Chain (spin w c k) ∧ (∀ e ∈ spin w c k, e ∈ es ∧ e.cls = c) ∧ (spin w c k).length = k :=
  ⟨spin_chain w c k, spin_mem h k, spin_length w c k⟩

/-! ## the instance: libhawk as extracted -/

/-- (2) the certificate for the extracted graph: every plain, non-residual call goes up in the node order -/
theorem unguarded_acyclic : Ordered CallGraph.nNodes CallGraph.edges :=
  orderedCheck_sound (by decide +kernel)

theorem classes_in_range : ∀ e ∈ CallGraph.edges, Edge.cls e < CallGraph.classNames.length + 2 := by
  have h : (CallGraph.edges.all fun (e : Edge) => decide (e.cls < CallGraph.classNames.length + 2)) = true := by decide +kernel
  intro e he
  simpa using (List.all_eq_true.mp h) e he

/-- no recursion through plain calls only: a stack of plain calls of libhawk never returns to its first function -/
theorem hawk_plain_calls_acyclic (s : List Edge) (hne : s ≠ []) (hc : Chain s)
    (hm : ∀ e ∈ s, e ∈ CallGraph.edges ∧ e.cls = 0) : bottom 0 s ≠ top 0 s :=
  plain_calls_acyclic _ _ unguarded_acyclic s hne hc hm

/-- libhawk's recursive call graph without the residual (known unguarded) cycles, under limits `L` per class -/
def hawkGraph (L : Nat → Nat) : Graph :=
  { nNodes := CallGraph.nNodes, edges := dropResidual CallGraph.edges, nClasses := CallGraph.classNames.length, limit := L }

theorem hawkGraph_good (L : Nat → Nat) : (hawkGraph L).Good := by
  constructor
  · exact unguarded_acyclic.sublist (fun e he => (mem_dropResidual he).1)
  · intro e he
    have := mem_dropResidual he
    exact ⟨this.2, classes_in_range e this.1⟩

/-- PARTIAL (bounded native stack in frames): whatever finite limits are configured for the cut classes, every call
    stack over the recursive functions of libhawk that avoids the residual edges has at most
    (Σ limits + 1) · |V| frames.  Missing for the full property: the residual groups (unguarded recursion in the
    statement parser / statement runner / tree destructor / deparser / value destructor) - see
    `residual_walks_closed`; the assumption classes (`classNames` beyond the first `nLimitClasses`) are trusted;
    frames are counted, not bytes. -/
theorem hawk_stack_bounded_partial (L : Nat → Nat) (root : Nat) (ops : List Op) (s : St)
    (h : run (hawkGraph L) root St.init ops = some s) :
    s.stack.length ≤ (sumLimits L CallGraph.classNames.length + 1) * CallGraph.nNodes :=
  stack_bounded (hawkGraph_good L) h

/-- the negation of the full property on the extracted graph: every walk listed by the extractor really is a closed
    walk of residual edges - with `closed_walk_unbounded`, an unbounded recursion that no limit check stops -/
theorem residual_walks_closed : ∀ w ∈ CallGraph.residualWitness, closedWalkCheck CallGraph.edges 1 w = true := by
  have h : (CallGraph.residualWitness.all fun w => closedWalkCheck CallGraph.edges 1 w) = true := by decide +kernel
  intro w hw
  exact (List.all_eq_true.mp h) w hw

theorem residual_unbounded (w : List Nat) (hw : w ∈ CallGraph.residualWitness) (k : Nat) :
    ∃ s : List Edge, Chain s ∧ (∀ e ∈ s, e ∈ CallGraph.edges ∧ e.cls = 1) ∧ s.length = k :=
  ⟨spin w 1 k, closed_walk_unbounded _ 1 w (residual_walks_closed w hw) k⟩

/-- one witness per residual group, and no residual edge without a group -/
theorem residual_accounted :
    CallGraph.residualWitness.length = CallGraph.residualGroups.length ∧
    ((CallGraph.edges.any fun (e : Edge) => e.cls == 1) = true → CallGraph.residualGroups ≠ []) := by
  decide +kernel

/-- the unguarded recursion cycles that are known findings (KNOWN_FINDINGS.txt carries the same names);
    a new unguarded cycle - e.g. a guard removed - makes this theorem fail -/
def knownUnguarded : List String := []

theorem residual_groups_known : ∀ g ∈ CallGraph.residualGroups, g ∈ knownUnguarded := by decide

/-- ids (crc32 of `caller -> callee [case label] (arguments) #occurrence`, see `CallGraph.residualSites`) of the call
    sites that make up the known unguarded cycles.  `residual_groups_known` cannot see a recursive call that is added
    inside a function which already is on a known cycle (e.g. hawk_clrpt following one more field); this table does.
    Regenerate with `python3 extract/callgraph.py --sites` after a reviewed change; removing sites (a repair) needs no
    update. -/
def knownResidualSiteIds : List Nat := [
  27057555, 164522915, 300311399, 472273140, 519682834, 657953312, 717221731, 744145359,
  770135888, 802894717, 826162348, 848992113, 891567567, 1085377227, 1108807182, 1149179490,
  1185593408, 1203528065, 1249646398, 1256039768, 1270940016, 1307742785, 1340184560, 1403368870,
  1429209767, 1476495419, 1485087434, 1509651496, 1569036070, 1628821084, 1656803284, 1791931288,
  1824372499, 1845846751, 1968928514, 2004557919, 2123206196, 2135141319, 2146829993, 2185566364,
  2306183753, 2310903865, 2358858287, 2377967218, 2580352888, 2599256474, 2658383315, 2713726608,
  2720964984, 2722429466, 2781423069, 2817749248, 2826561837, 2862186312, 3002420710, 3012024355,
  3070625408, 3125925725, 3171627600, 3175074940, 3233990904, 3286730014, 3375188986, 3393763215,
  3403435554, 3425467926, 3447424282, 3502668978, 3569176767, 3613736371, 3662180466, 3674715529,
  3731263283, 3834863945, 3849371412, 3863673469, 3875493651, 3960007458, 4048297145, 4067150916,
  4074445382, 4169799292
]

theorem residual_edges_known : ∀ i ∈ CallGraph.residualSiteIds, i ∈ knownResidualSiteIds := by decide +kernel

/-- the structural side of `counters_balanced`: in the C sources no `return`/`goto` lies between a `depth.X++` and the
    `depth.X--` that undoes it, in any function that holds both (flag 0 in the extracted table = an early exit that
    leaves the counter too high for the rest of the life of the runtime) -/
theorem counters_balanced_in_code : ∀ r ∈ CallGraph.incDecPairs, r.2.2 ≠ 0 := by decide +kernel

/-- the table is not empty: the two run-time counters and the parse-time ones are in it, paired -/
theorem counter_pairs_present :
    (CallGraph.incDecPairs.filter fun r => r.2.2 == 1).length ≥ 5 ∧
    (CallGraph.incDecPairs.any fun r => r.2.1 == "depth.expr" && r.2.2 == 1) = true ∧
    (CallGraph.incDecPairs.any fun r => r.2.1 == "depth.block" && r.2.2 == 1) = true := by decide +kernel

/-- (3) the limits that the guards of the code read are finite (> 0) under the CLI defaults, and the value-stack
    limit has a positive default not below its positive minimum -/
theorem defaults_positive :
    (∀ i, i < 5 → CallGraph.classNames.getD i "" ∈ CallGraph.limitsRead → 0 < CallGraph.cliDefaults.getD i 0) ∧
    0 < CallGraph.stackLimitMin ∧ CallGraph.stackLimitMin ≤ CallGraph.stackLimitDefault := by
  decide

/-- every limit the command-line tool sets is read by some guard of the library (an option that is stored but never
    compared with a counter limits nothing) -/
theorem cli_limits_enforced :
    ∀ i, i < 7 → 0 < CallGraph.cliDefaults.getD i 0 → CallGraph.classNames.getD i "" ∈ CallGraph.limitsRead := by
  decide

/-- the constants of the arithmetic model are the ones found in the sources -/
theorem model_defaults_match :
    [Limits.cli.incl, Limits.cli.blockParse, Limits.cli.blockRun, Limits.cli.exprParse, Limits.cli.exprRun] =
      CallGraph.cliDefaults.take 5 ∧
    CallGraph.classNames.take 5 = ["incl", "block_parse", "block_run", "expr_parse", "expr_run"] ∧
    stackDfl = CallGraph.stackLimitDefault ∧ stackMin = CallGraph.stackLimitMin := by
  decide

/-! ## behavioural half: counter arithmetic -/

/-- the depth guard `if (limit > 0 && counter >= limit) error` lets level c+1 be entered iff unlimited or c < limit -/
theorem guard_threshold (limit c : Nat) : guardOk limit c = true ↔ limit = 0 ∨ c < limit :=
  guardOk_iff limit c

/-- n nested levels starting from counter value c pass all their checks iff they fit under the limit -/
theorem descend_iff_fits (limit n c : Nat) : descend limit n c = true ↔ n = 0 ∨ limit = 0 ∨ c + n ≤ limit :=
  descend_iff limit n c

/-- the value-stack guard `if (stack_limit - stack_top < req) error` -/
theorem stack_guard_threshold (limit top req : Nat) (h : top ≤ limit) :
    stackOk limit top req = true ↔ top + req ≤ limit :=
  stackOk_iff limit top req h

/-- the effective value-stack limit is never below HAWK_MIN_RTX_STACK_LIMIT, whatever option or pragma is given -/
theorem stack_limit_clamped (l : Limits) : stackMin ≤ effStack l := effStack_ge l

/-- the counter value reached, as a function of the nesting n: closed form of the request list of every family -/
theorem peak_formula (f : Family) (k : Kind) (n : Nat) : peak k (requests f n) = peakOf f k n :=
  peak_requests f k n

/-- the modelled checks stop the run iff some counter is asked for more than its configured limit:
    for every family, nesting and configuration -/
theorem reject_iff_exceeds (l : Limits) (f : Family) (n : Nat) :
    (∃ k, outcome l f n = .stopped k) ↔ ∃ k, ¬ within l k (peakOf f k n) := by
  simp only [outcome]
  constructor
  · rintro ⟨k, h⟩
    cases hv : verdict l (requests f n) with
    | ok => rw [hv] at h; cases h
    | err k' =>
      rw [hv] at h
      refine ⟨k', ?_⟩
      rw [← peak_requests]
      exact verdict_err_peak hv
  · rintro ⟨k, hk⟩
    cases hv : verdict l (requests f n) with
    | ok =>
      exfalso
      have := (verdict_ok_iff_peak l _).mp hv k
      rw [peak_requests] at this
      exact hk this
    | err k' => exact ⟨k', rfl⟩

/-- and the error reported names a limit that really is exceeded -/
theorem reject_names_exceeded_limit (l : Limits) (f : Family) (n : Nat) (k : Kind)
    (h : outcome l f n = .stopped k) : ¬ within l k (peakOf f k n) := by
  simp only [outcome] at h
  cases hv : verdict l (requests f n) with
  | ok => rw [hv] at h; cases h
  | err k' =>
    rw [hv] at h
    cases h
    rw [← peak_requests]
    exact verdict_err_peak hv

/-- a program within all limits is not affected by the checks: it prints what it prints without limits -/
theorem within_limit_unaffected (l : Limits) (f : Family) (n : Nat)
    (h : ∀ k, within l k (peakOf f k n)) : outcome l f n = .printed (output f n) := by
  have : verdict l (requests f n) = .ok := by
    rw [verdict_ok_iff_peak]
    intro k; rw [peak_requests]; exact h k
  simp [outcome, this]

/-- histories: a first phase that stayed within the limits and was left by `exit` d calls deep does not change what
    the second phase is allowed to do - the run behaves like the second phase alone -/
theorem phase_two_unaffected (l : Limits) (d n : Nat)
    (h : ∀ k, within l k (peakOf (.exitRec d) k 0)) : outcome l (.exitRec d) n = outcome l .recur n := by
  let P : List Req := [⟨Kind.blockParse, 1⟩, ⟨Kind.blockParse, 2⟩, ⟨Kind.exprParse, 1⟩, ⟨Kind.exprParse, 2⟩, ⟨Kind.exprParse, 3⟩]
  let A : List Req := [⟨Kind.blockRun, 1⟩, ⟨Kind.exprRun, 1⟩, ⟨Kind.exprRun, 2⟩, ⟨Kind.exprRun, 3⟩]
  have e1 : ∀ m, requests (.exitRec d) m = P ++ (((A ++ recurFrom d 0) ++ A) ++ recurFrom m 0) := fun _ => rfl
  have e2 : requests .recur n = P ++ (A ++ recurFrom n 0) := rfl
  have h0 : verdict l (requests (.exitRec d) 0) = .ok := by
    rw [verdict_ok_iff_peak]; intro k; rw [peak_requests]; exact h k
  rw [e1] at h0
  have hP := verdict_ok_left l _ _ h0
  rw [verdict_skip l _ _ hP] at h0
  have hAD := verdict_ok_left l _ _ (verdict_ok_left l _ _ h0)
  have hv : verdict l (requests (.exitRec d) n) = verdict l (requests .recur n) := by
    rw [e1, e2, verdict_skip l _ _ hP, verdict_skip l _ _ hP, List.append_assoc, verdict_skip l _ _ hAD]
  simp only [outcome, hv, output]

/-- acceptance is downward closed in the nesting depth -/
theorem accept_downward_closed (l : Limits) (f : Family) (m n : Nat) (hmn : m ≤ n)
    (h : ∀ k, within l k (peakOf f k n)) : ∀ k, within l k (peakOf f k m) :=
  fun k => within_mono (peakOf_mono f k hmn) (h k)

/-! ## non-vacuity -/

/-- a graph with a guarded self-recursion and a plain call: reachable stacks exist, the bound is meaningful -/
def demo : Graph := { nNodes := 2, edges := [(0, 1, 0), (1, 0, 2)], nClasses := 1, limit := fun _ => 3 }

example : demo.Good := by
  constructor
  · exact orderedCheck_sound (by decide)
  · decide

example : ∃ s, run demo 0 St.init [.call (0, 1, 0), .call (1, 0, 2), .call (0, 1, 0)] = some s ∧ s.stack.length = 3 := by
  refine ⟨_, rfl, rfl⟩

/-- the guard really refuses: the 4th guarded call is not possible with limit 3 -/
example : run demo 0 St.init
    [.call (0, 1, 0), .call (1, 0, 2), .call (0, 1, 0), .call (1, 0, 2), .call (0, 1, 0), .call (1, 0, 2),
     .call (0, 1, 0), .call (1, 0, 2)] = none := by decide

/-- the extracted graph is not trivial: it has guarded edges of the expression and block limits -/
example : (CallGraph.edges.any fun (e : Edge) => e.cls == 5) = true ∧ (CallGraph.edges.any fun (e : Edge) => e.cls == 3) = true := by decide +kernel

/-- CLI defaults: 48 parentheses pass, 49 are stopped by the parse-time expression limit -/
example : outcome Limits.cli .paren 48 = .printed (some "1") ∧ outcome Limits.cli .paren 49 = .stopped .exprParse := by
  constructor
  · apply within_limit_unaffected; intro k; cases k <;> simp [within, peakOf, Limits.of, Limits.cli, effStack, pragmaValue, stackDfl, stackMin]
  · decide

/-- CLI defaults: a 300 000-term chain is stopped by the run-time expression limit; 100 terms run -/
example : ¬ within Limits.cli .exprRun (peakOf .leftBin .exprRun 300000) ∧
    (∀ k, within Limits.cli k (peakOf .leftBin k 100)) := by
  constructor
  · simp [within, peakOf, Limits.of, Limits.cli]
  · intro k; cases k <;> simp [within, peakOf, Limits.of, Limits.cli, effStack, pragmaValue, stackDfl, stackMin]

end Hawk.Props.C14
