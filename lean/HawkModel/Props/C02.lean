import HawkModel.AwkLemmas
/-!
# C02 — POSIX awk programs behave as they do in the reference awks: theorems about the reference interpreter

The correspondence check (`vlib/props/c02.py`) ties the Lean interpreter `Hawk.Awk.runWith` to hawk and to
gawk/mawk on generated programs.  The theorems below carry the "for all inputs" part for the pieces of the
semantics that are new in this property: the range-pattern automaton, the BEGIN/main/END phase driver with
`exit`, the NR/FNR/NF/$0 effects of the four getline forms, the uninitialised value, and the integer
number↔string conversions.
-/
namespace Hawk.Awk.C02
open Hawk.Awk

/-! ## num_str_roundtrip -/

/-- number → string → number is the identity on every integer (for constant strings and for strings
that came from input alike) -/
theorem num_str_roundtrip_num (i : Int) :
    toNum (.str (intToStr i)) = some i ∧ toNum (.strnum (intToStr i)) = some i := by
  have key : strToNum (intToStr i) = some i := by
    unfold strToNum intToStr
    rw [String.toList_ofList]
    cases i with
    | ofNat n =>
      show Option.map (·.value) (scanNum (natDigits n)) = _
      rw [scanNum_canonNat _ (natDigits_canon n), parseNat_natDigits]
      rfl
    | negSucc n =>
      show Option.map (·.value) (scanNum ('-' :: natDigits (n + 1))) = _
      rw [scanNum_neg_canonNat _ (natDigits_canon (n + 1)), parseNat_natDigits]
      simp only [Option.map_some]
      congr 1
  exact ⟨key, key⟩

/-- string → number → string is the identity on canonical decimal numerals (`0`, `17`, `-4`; no sign `+`,
no leading zeros, no `-0`) -/
theorem num_str_roundtrip_str (s : String) (h : CanonInt s.toList) :
    ∃ i, toNum (.str s) = some i ∧ toStr (.num i) = s := by
  rcases h with h | ⟨t, ht, hc, h0⟩
  · refine ⟨(parseNat s.toList : Nat), ?_, ?_⟩
    · show strToNum s = _
      unfold strToNum
      rw [scanNum_canonNat _ h]; rfl
    · show intToStr _ = s
      unfold intToStr
      show String.ofList (natDigits (parseNat s.toList)) = s
      rw [natDigits_parseNat _ h, String.ofList_toList]
  · have hpos := parseNat_pos t hc h0
    obtain ⟨m, hm⟩ : ∃ m, parseNat t = m + 1 := ⟨parseNat t - 1, by omega⟩
    refine ⟨Int.negSucc m, ?_, ?_⟩
    · show strToNum s = _
      unfold strToNum
      rw [ht, scanNum_neg_canonNat _ hc, hm]
      simp only [Option.map_some]
      congr 1
    · show intToStr _ = s
      unfold intToStr
      show String.ofList ('-' :: natDigits (m + 1)) = s
      rw [← hm, natDigits_parseNat _ hc, ← ht, String.ofList_toList]

/-- non-vacuity: the numerals the profile uses are canonical -/
example : CanonInt "-40".toList := by
  refine Or.inr ⟨"40".toList, rfl, ⟨by decide, by decide, by decide⟩, by decide⟩

example : toNum (.str (intToStr (-7))) = some (-7) := (num_str_roundtrip_num (-7)).1

/-! ## uninit_is_zero_and_empty -/

theorem lookup_snoc (l : Assoc) (k : String) (v : Val) (h : l.lookup k = none) :
    (l ++ [(k, v)]).lookup k = some v := by
  induction l with
  | nil => simp [List.lookup_cons]
  | cons a t ih =>
    obtain ⟨k', v'⟩ := a
    simp only [List.cons_append, List.lookup_cons] at h ⊢
    cases hk : (k == k') with
    | true => simp [hk] at h
    | false =>
      simp only [hk] at h ⊢
      exact ih h

/-- an uninitialised value is 0 as a number, "" as a string, false as a condition, and compares equal to
both 0 and ""; an unbound variable and a missing array element evaluate to it -/
theorem uninit_is_zero_and_empty :
    toNum .uninit = some 0 ∧ toStr .uninit = "" ∧ toBool .uninit = some false ∧
    cmpVals .uninit (.num 0) = some .eq ∧ cmpVals .uninit (.str "") = some .eq ∧
    cmpVals .uninit .uninit = some .eq ∧
    (∀ fuel x s, s.locals.lookup x = none → s.globals.lookup x = none → readSpecial x s = none →
        unsupportedSpecials.contains x = false → eval (fuel + 1) (.var x) s = .ok .uninit s) ∧
    (∀ id key s, id < s.arrays.length → (getArr id s).lookup key = none →
        ∃ s', readLoc (.elem id key) s = .ok .uninit s' ∧ (getArr id s').lookup key = some .uninit) := by
  refine ⟨rfl, rfl, rfl, by decide, by decide, by decide, ?_, ?_⟩
  · intro fuel x s hl hg hs hu
    have hu' : ¬ x ∈ unsupportedSpecials := by simpa using hu
    simp [eval, readVar, hl, hg, hs, hu']
  · intro id key s hid h
    refine ⟨{ s with arrays := s.arrays.set id (getArr id s ++ [(key, .uninit)]) }, ?_, ?_⟩
    · simp only [readLoc, h]
    · simp only [getArr, List.getElem?_set_self hid, Option.getD_some]
      exact lookup_snoc _ _ _ h

/-! ## range_automaton_spec -/

/-- truth value of the begin pattern on record `k` (false beyond the input) -/
def bAt (l : List (Bool × Bool)) (k : Nat) : Bool := ((l[k]?).map (·.1)).getD false
/-- truth value of the end pattern on record `k` -/
def eAt (l : List (Bool × Bool)) (k : Nat) : Bool := ((l[k]?).map (·.2)).getD false
/-- does the range rule fire on record `i` when the automaton starts in state `o`? -/
def firesAt (o : Bool) (l : List (Bool × Bool)) (i : Nat) : Bool := ((rangeRun o l)[i]?).getD false

/-- POSIX `pattern1, pattern2`: record `i` is selected iff some record `j ≤ i` matches the begin pattern and
no record in `[j, i)` matches the end pattern.  (A record that matches both opens and closes the range on
itself; the end pattern is inclusive.) -/
def PosixRange (l : List (Bool × Bool)) (i : Nat) : Prop :=
  ∃ j, j ≤ i ∧ bAt l j = true ∧ ∀ k, j ≤ k → k < i → eAt l k = false

@[simp] theorem bAt_zero (b e : Bool) (t) : bAt ((b, e) :: t) 0 = b := rfl
@[simp] theorem bAt_succ (p : Bool × Bool) (t) (k : Nat) : bAt (p :: t) (k + 1) = bAt t k := rfl
@[simp] theorem eAt_zero (b e : Bool) (t) : eAt ((b, e) :: t) 0 = e := rfl
@[simp] theorem eAt_succ (p : Bool × Bool) (t) (k : Nat) : eAt (p :: t) (k + 1) = eAt t k := rfl
@[simp] theorem firesAt_zero (o b e : Bool) (t) : firesAt o ((b, e) :: t) 0 = (rangeStep o b e).1 := rfl
@[simp] theorem firesAt_succ (o b e : Bool) (t) (i : Nat) :
    firesAt o ((b, e) :: t) (i + 1) = firesAt (rangeStep o b e).2 t i := rfl

/-- generalisation over the initial state of the automaton -/
theorem range_automaton_gen (l : List (Bool × Bool)) :
    ∀ (o : Bool) (i : Nat), i < l.length →
      (firesAt o l i = true ↔ ((o = true ∧ ∀ k, k < i → eAt l k = false) ∨ PosixRange l i)) := by
  induction l with
  | nil => intro o i hi; simp at hi
  | cons p t ih =>
    obtain ⟨b, e⟩ := p
    intro o i hi
    cases i with
    | zero =>
      simp only [firesAt_zero]
      constructor
      · intro h
        cases o with
        | true => exact Or.inl ⟨rfl, fun k hk => absurd hk (Nat.not_lt_zero k)⟩
        | false =>
          cases b with
          | true => exact Or.inr ⟨0, Nat.le_refl 0, rfl, fun k _ hk => absurd hk (Nat.not_lt_zero k)⟩
          | false => simp [rangeStep] at h
      · intro h
        rcases h with ⟨ho, _⟩ | ⟨j, hj, hb, _⟩
        · subst ho; simp [rangeStep]
        · have : j = 0 := by omega
          subst this
          simp only [bAt_zero] at hb
          subst hb
          cases o <;> simp [rangeStep]
    | succ i =>
      have hi' : i < t.length := by simpa using hi
      simp only [firesAt_succ]
      rw [ih _ i hi']
      constructor
      · intro h
        rcases h with ⟨ho, hk⟩ | ⟨j, hj, hb, hk⟩
        · -- the range is open after record 0: either it was open before or record 0 opened it; record 0 did not close it
          have he : e = false := by
            cases o <;> cases b <;> cases e <;> simp [rangeStep] at ho <;> rfl
          have hob : o = true ∨ b = true := by
            cases o <;> cases b <;> simp [rangeStep] at ho <;> simp
          rcases hob with ho' | hb'
          · refine Or.inl ⟨ho', ?_⟩
            intro k hk'
            cases k with
            | zero => simpa using he
            | succ k => simpa using hk k (by omega)
          · refine Or.inr ⟨0, Nat.zero_le _, by simpa using hb', ?_⟩
            intro k _ hk'
            cases k with
            | zero => simpa using he
            | succ k => simpa using hk k (by omega)
        · refine Or.inr ⟨j + 1, by omega, by simpa using hb, ?_⟩
          intro k hjk hk'
          cases k with
          | zero => omega
          | succ k => simpa using hk k (by omega) (by omega)
      · intro h
        rcases h with ⟨ho, hk⟩ | ⟨j, hj, hb, hk⟩
        · have he : e = false := by simpa using hk 0 (by omega)
          refine Or.inl ⟨by subst ho; subst he; simp [rangeStep], ?_⟩
          intro k hk'
          simpa using hk (k + 1) (by omega)
        · cases j with
          | zero =>
            have hb' : b = true := by simpa using hb
            have he : e = false := by simpa using hk 0 (Nat.le_refl 0) (by omega)
            refine Or.inl ⟨by subst hb'; subst he; cases o <;> simp [rangeStep], ?_⟩
            intro k hk'
            simpa using hk (k + 1) (by omega) (by omega)
          | succ j =>
            refine Or.inr ⟨j, by omega, by simpa using hb, ?_⟩
            intro k hjk hk'
            simpa using hk (k + 1) (by omega) (by omega)

/-- **range_automaton_spec.**  For every sequence of (begin-pattern, end-pattern) truth values, one per record,
the range automaton started closed fires exactly on the POSIX ranges. -/
theorem range_automaton_spec (l : List (Bool × Bool)) (i : Nat) (hi : i < l.length) :
    firesAt false l i = true ↔ PosixRange l i := by
  rw [range_automaton_gen l false i hi]
  constructor
  · intro h
    rcases h with ⟨h, _⟩ | h
    · exact absurd h (by decide)
    · exact h
  · exact Or.inr

/-- the rule fires once per record: the output of the automaton is as long as the input -/
theorem rangeRun_length (o : Bool) (l : List (Bool × Bool)) : (rangeRun o l).length = l.length := by
  induction l generalizing o with
  | nil => rfl
  | cons p t ih => obtain ⟨b, e⟩ := p; simp [rangeRun, ih]

/-- the lazily evaluating, monadic automaton used by the interpreter (`patFires`) computes `rangeStep`
whenever the two patterns are pure computations -/
theorem rangeStepM_pure (o b e : Bool) :
    rangeStepM (m := Id) o (pure b) (pure e) = pure (rangeStep o b e) := by
  cases o <;> cases b <;> rfl

/-- tie to the interpreter: on a record where the begin/end patterns evaluate (without changing the state) to
`bv`/`ev`, rule `i` with pattern `b, e` fires iff `rangeStep` says so and stores `rangeStep`'s next state -/
theorem patFires_range (fuel i : Nat) (b e : Expr) (s : St) (bv ev : Bool)
    (hb : evalBool fuel b s = .ok bv s) (he : evalBool fuel e s = .ok ev s) :
    patFires fuel i (.range b e) s =
      .ok (rangeStep (s.ranges.getD i false) bv ev).1
          { s with ranges := s.ranges.set i (rangeStep (s.ranges.getD i false) bv ev).2 } := by
  simp only [patFires, rangeStepM, bind, M.bind, getS, modifyS, pure, M.pure]
  cases ho : s.ranges.getD i false <;> cases bv <;> simp [hb, he, rangeStep, M.bind, M.pure]

/-- non-vacuity: a record matching both patterns is a one-record range; the end record is inclusive; the
begin pattern is ignored while the range is open -/
example : rangeRun false [(true, true), (false, false), (true, false), (true, false), (false, true), (false, false)]
    = [true, false, true, true, true, false] := by decide

/-! ## driver_phases -/

/-- `exit` in a BEGIN action: the main input is not read (the main phase `Mn` does not occur in the result),
the END actions run on the state BEGIN left, with the status of that `exit` -/
theorem driver_phases_exit_in_begin (B Mn E : M Unit) (s0 s1 : St) (c : Option Int)
    (hB : B s0 = .exit c s1) :
    drive B Mn E s0 = finishEnd E (clearLocals s1) (statusAfter 0 c) := by
  simp [drive, hB]

/-- normal end of input: END actions run after the main phase, status 0 so far -/
theorem driver_phases_normal (B Mn E : M Unit) (s0 s1 s2 : St)
    (hB : B s0 = .ok () s1) (hM : Mn s1 = .ok () s2) :
    drive B Mn E s0 = finishEnd E s2 0 := by
  simp [drive, hB, hM]

/-- `exit` in a main rule: END actions still run, with the status of that `exit` -/
theorem driver_phases_exit_in_main (B Mn E : M Unit) (s0 s1 s2 : St) (c : Option Int)
    (hB : B s0 = .ok () s1) (hM : Mn s1 = .exit c s2) :
    drive B Mn E s0 = finishEnd E (clearLocals s2) (statusAfter 0 c) := by
  simp [drive, hB, hM]

/-- `exit` inside END terminates the program: nothing runs afterwards; `exit expr` replaces the status,
a bare `exit` keeps the status of the earlier `exit expr` -/
theorem driver_phases_exit_in_end (E : M Unit) (s s' : St) (status : Int) (c : Option Int)
    (hE : E s = .exit c s') :
    finishEnd E s status = .ok (s', statusAfter status c) := by
  simp [finishEnd, hE]

theorem driver_phases_end_normal (E : M Unit) (s s' : St) (status : Int)
    (hE : E s = .ok () s') :
    finishEnd E s status = .ok (s', status) := by
  simp [finishEnd, hE]

/-- the exit status is the value of the last executed `exit expr` (0 if there was none) -/
theorem driver_phases_status_last (c1 c2 : Option Int) :
    statusAfter (statusAfter 0 c1) c2 = (c2.or c1).getD 0 := by
  cases c1 <;> cases c2 <;> rfl

/-- an `exit` in one BEGIN/END action skips the remaining actions of that kind -/
theorem driver_phases_exit_skips_rest (fuel : Nat) (a : List Stmt) (rest : List (List Stmt)) (s s' : St)
    (c : Option Int) (h : execList fuel a s = .exit c s') :
    runActions fuel (a :: rest) s = .exit c s' := by
  simp [runActions, bind, M.bind, h]

/-- actions of one kind run in source order -/
theorem driver_phases_actions_in_order (fuel : Nat) (a : List Stmt) (rest : List (List Stmt)) (s s' : St)
    (h : execList fuel a s = .ok .norm s') :
    runActions fuel (a :: rest) s = runActions fuel rest s' := by
  simp [runActions, bind, M.bind, h]

/-- the statement `exit expr` aborts with the numeric value of `expr`; a bare `exit` aborts without a status -/
theorem driver_phases_exit_stmt (fuel : Nat) (e : Expr) (s s' : St) (v : Val) (n : Int)
    (he : eval fuel e s = .ok v s') (hn : toNum v = some n) :
    exec (fuel + 1) (.exit (some e)) s = .exit (some n) s' ∧
    exec (fuel + 1) (.exit none) s = .exit none s := by
  constructor
  · rw [exec]
    simp [bind, M.bind, he, numVal, liftOpt, hn, pure, M.pure]
  · simp [exec]

/-- at end of input the main loop stops normally (and then `drive` runs END) -/
theorem driver_phases_eof (fuel budget : Nat) (rules : List Rule) (s s' : St)
    (h : getlineMain s = (none, s')) :
    mainLoop fuel rules (budget + 1) s = .ok () s' := by
  simp [mainLoop, h]

/-- `next` abandons the remaining rules for the current record -/
theorem driver_phases_next (fuel i : Nat) (r : Rule) (body : List Stmt) (rest : List Rule) (s s1 s2 : St)
    (hb : r.body = some body) (hp : patFires fuel i r.pat s = .ok true s1)
    (hx : execList fuel body s1 = .ok .next s2) :
    runRules fuel i (r :: rest) s = .ok () s2 := by
  simp [runRules, bind, M.bind, hp, hb, hx, pure, M.pure]

/-- the whole program: exit status is reduced modulo 256 and standard output is what the phases printed -/
theorem driver_phases_run (fuel : Nat) (p : Prog) (inv : Invocation) (s : St) (status : Int)
    (h : drive (runActions fuel p.begins)
          (if p.rules.isEmpty && p.ends.isEmpty then pure ()
           else mainLoop fuel p.rules (totalRecords (initStateInv p inv).pending + 1))
          (runActions fuel p.ends) (initStateInv p inv) = .ok (s, status))
    (hf : s.fault = false) :
    runInv fuel p inv =
      .ok { stdout := s.out, status := (status % 256).toNat, files := s.outFiles } := by
  simp only [runInv]
  rw [h]
  simp [hf]

/-- non-vacuity of the phase theorems: a BEGIN phase that exits with status 3, a main phase that would print,
an END phase that prints "e" -/
example :
    drive (fun s => .exit (some 3) s) (fun s => .ok () { s with out := s.out ++ "main" })
        (fun s => .ok () { s with nr := 7 }) {} = .ok ({ nr := 7 }, 3) := by
  rw [driver_phases_exit_in_begin _ _ _ _ _ _ rfl]
  rfl

/-! ## getline_counters -/

/-- all remaining operands are files (no `var=value` assignment is pending) -/
def filesOnly (pending : List Pend) : Prop := ∀ p ∈ pending, p.isFile = true

/-- the main-input reader delivers a record: NR grows by one, FNR becomes the record's number within its
file (old FNR + 1 in the current file, 1 in a newly opened file), and `$0`/fields are untouched.  (A pending
command-line assignment may assign NR, FNR or any variable: see `operand_assignment_when_reached`.) -/
theorem readMain_some (pending : List Pend) (hp : filesOnly pending) :
    ∀ (isOpen : Bool) (s s' : St) (r : String), readMain pending isOpen s = (some r, s') →
      s'.nr = s.nr + 1 ∧ (s'.fnr = s.fnr + 1 ∨ s'.fnr = 1) ∧ s'.rec0 = s.rec0 ∧ s'.fields = s.fields ∧
      s'.out = s.out ∧ s'.locals = s.locals ∧ s'.globals = s.globals := by
  induction pending with
  | nil => intro isOpen s s' r h; simp [readMain] at h
  | cons p rest ih =>
    have hrest : filesOnly rest := fun q hq => hp q (by simp [hq])
    cases p with
    | assign x v => exact absurd (hp (.assign x v) (by simp)) (by simp [Pend.isFile])
    | file name recs =>
      intro isOpen s s' r h
      cases recs with
      | nil =>
        simp only [readMain] at h
        have := ih hrest false _ s' r h
        cases isOpen <;> simp_all
      | cons r0 rs =>
        simp only [readMain] at h
        cases isOpen <;> simp at h <;> obtain ⟨_, h2⟩ := h <;> subst h2 <;> simp

/-- at end of input nothing is counted and the record is untouched -/
theorem readMain_none (pending : List Pend) (hp : filesOnly pending) :
    ∀ (isOpen : Bool) (s s' : St), readMain pending isOpen s = (none, s') →
      s'.nr = s.nr ∧ s'.rec0 = s.rec0 ∧ s'.fields = s.fields := by
  induction pending with
  | nil => intro isOpen s s' h; simp [readMain] at h; subst h; simp
  | cons p rest ih =>
    have hrest : filesOnly rest := fun q hq => hp q (by simp [hq])
    cases p with
    | assign x v => exact absurd (hp (.assign x v) (by simp)) (by simp [Pend.isFile])
    | file name recs =>
      intro isOpen s s' h
      cases recs with
      | nil =>
        simp only [readMain] at h
        have := ih hrest false _ s' h
        cases isOpen <;> simp_all
      | cons r0 rs =>
        simp only [readMain] at h
        cases isOpen <;> simp at h

/-- within the current file FNR grows by exactly one -/
theorem readMain_same_file (name : String) (r : String) (rs : List String) (rest) (s : St) :
    readMain (.file name (r :: rs) :: rest) true s =
      (some r, { s with pending := .file name rs :: rest, headOpen := true, nr := s.nr + 1, fnr := s.fnr + 1 }) := by
  simp [readMain]

/-- **getline_counters (plain `getline`).**  On success NR and FNR are incremented, `$0` is the new record and
the fields (hence NF) are the new record's fields; at end of input 0 is returned and `$0`, NF, NR are unchanged. -/
theorem getline_counters_plain (fuel : Nat) (s : St) (hp : filesOnly s.pending) :
    (∀ r s1 fl, getlineMain s = (some r, s1) → splitBy s1.fs r = some fl →
      eval (fuel + 1) (.getline none none) s =
        .ok (.num 1) { s1 with rec0 := r, rec0num := looksNumeric r, fields := fl.map mkInput } ∧
      s1.nr = s.nr + 1 ∧ (s1.fnr = s.fnr + 1 ∨ s1.fnr = 1)) ∧
    (∀ s1, getlineMain s = (none, s1) →
      eval (fuel + 1) (.getline none none) s = .ok (.num 0) s1 ∧
      s1.nr = s.nr ∧ s1.rec0 = s.rec0 ∧ s1.fields = s.fields) := by
  constructor
  · intro r s1 fl h hs
    have hm := readMain_some _ hp _ _ _ _ h
    refine ⟨?_, hm.1, hm.2.1⟩
    simp [eval, h, setRecord, setRecordAs, hs, bind, M.bind, pure, M.pure]
  · intro s1 h
    have hm := readMain_none _ hp _ _ _ h
    refine ⟨?_, hm⟩
    simp [eval, h]

/-- assigning an ordinary global variable changes neither the record nor the counters -/
theorem writeVar_frame (x : String) (v : Val) (s s' : St)
    (hl : s.locals.lookup x = none) (hs : writeSpecial x v = none) (hu : unsupportedSpecials.contains x = false)
    (h : writeVar x v s = .ok () s') :
    s'.rec0 = s.rec0 ∧ s'.fields = s.fields ∧ s'.nr = s.nr ∧ s'.fnr = s.fnr ∧
    s'.globals = setAssoc x (.val v) s.globals := by
  have hu' : ¬ x ∈ unsupportedSpecials := by simpa using hu
  cases hg : s.globals.lookup x with
  | none => simp [writeVar, hl, hs, hu', hg] at h; subst h; simp
  | some c =>
    cases c with
    | arr id => simp [writeVar, hl, hs, hu', hg] at h
    | val v0 => simp [writeVar, hl, hs, hu', hg] at h; subst h; simp
    | fresh => simp [writeVar, hl, hs, hu', hg] at h; subst h; simp

/-- assigning an ordinary global scalar succeeds and only updates `globals` -/
theorem writeVar_global (x : String) (v : Val) (s : St)
    (hl : s.locals.lookup x = none) (hs : writeSpecial x v = none) (hu : unsupportedSpecials.contains x = false)
    (harr : ∀ id, s.globals.lookup x ≠ some (.arr id)) :
    writeVar x v s = .ok () { s with globals := setAssoc x (.val v) s.globals } := by
  have hu' : ¬ x ∈ unsupportedSpecials := by simpa using hu
  cases hg : s.globals.lookup x with
  | none => simp [writeVar, hl, hs, hu', hg]
  | some c =>
    cases c with
    | arr id => exact absurd hg (harr id)
    | val v0 => simp [writeVar, hl, hs, hu', hg]
    | fresh => simp [writeVar, hl, hs, hu', hg]

/-- **getline_counters (`getline var`).**  NR and FNR are incremented, `var` receives the record (as a value from
input), `$0` and the fields (NF) are left alone. -/
theorem getline_counters_var (fuel : Nat) (x : String) (s s1 : St) (r : String)
    (hl : s.locals.lookup x = none) (hs : ∀ v, writeSpecial x v = none)
    (hu : unsupportedSpecials.contains x = false)
    (harr : ∀ id, s.globals.lookup x ≠ some (.arr id))
    (hp : filesOnly s.pending)
    (h : getlineMain s = (some r, s1)) :
    ∃ s2, eval (fuel + 2) (.getline (some (.var x)) none) s = .ok (.num 1) s2 ∧
      s2.nr = s.nr + 1 ∧ (s2.fnr = s.fnr + 1 ∨ s2.fnr = 1) ∧ s2.rec0 = s.rec0 ∧ s2.fields = s.fields ∧
      s2.globals = setAssoc x (.val (mkInput r)) s.globals := by
  have hm := readMain_some _ hp _ _ _ _ h
  have hloc : s1.locals = s.locals := hm.2.2.2.2.2.1
  have hglob : s1.globals = s.globals := hm.2.2.2.2.2.2
  have hw := writeVar_global x (mkInput r) s1 (by rw [hloc]; exact hl) (hs _) hu (by rw [hglob]; exact harr)
  refine ⟨{ s1 with globals := setAssoc x (.val (mkInput r)) s1.globals }, ?_, ?_⟩
  · rw [eval]
    simp [evalLoc, touchLoc, bind, M.bind, pure, M.pure, h, writeLoc, hw]
  · simp [hm.1, hm.2.1, hm.2.2.1, hm.2.2.2.1, hglob]

/-- opening a file for reading touches no counter and no record state -/
theorem openReader_frame (name content : String) (s s1 : St) (r : String) (h : openReader name content s = .got r s1) :
    s1.nr = s.nr ∧ s1.fnr = s.fnr ∧ s1.rec0 = s.rec0 ∧ s1.fields = s.fields ∧ s1.fs = s.fs := by
  unfold openReader at h
  split at h
  · simp at h
  · simp at h; obtain ⟨_, h2⟩ := h; subst h2; simp

/-- reading a record of a named file touches no counter and no record state -/
theorem readFile_frame (name : String) (s s1 : St) (r : String) (h : readFile name s = .got r s1) :
    s1.nr = s.nr ∧ s1.fnr = s.fnr ∧ s1.rec0 = s.rec0 ∧ s1.fields = s.fields ∧ s1.fs = s.fs := by
  unfold readFile at h
  split at h
  · simp at h
  · simp at h; obtain ⟨_, h2⟩ := h; subst h2; simp
  · split at h
    · exact openReader_frame _ _ _ _ _ h
    · split at h
      · simp at h
      · split at h
        · simp at h
        · exact openReader_frame _ _ _ _ _ h

/-- **getline_counters (`getline < file`).**  `$0` and the fields are replaced; NR and FNR do not change. -/
theorem getline_counters_file (fuel : Nat) (fe : Expr) (s s0 s1 : St) (fv : Val) (r : String) (fl : List String)
    (hf : eval fuel fe s = .ok fv s0) (h : readFile (toStr fv) s0 = .got r s1)
    (hs : splitBy s1.fs r = some fl) :
    eval (fuel + 1) (.getline none (some fe)) s =
      .ok (.num 1) { s1 with rec0 := r, rec0num := looksNumeric r, fields := fl.map mkInput } ∧
    s1.nr = s0.nr ∧ s1.fnr = s0.fnr := by
  have hm := readFile_frame _ _ _ _ h
  refine ⟨?_, hm.1, hm.2.1⟩
  rw [eval]
  simp [bind, M.bind, hf, h, setRecord, setRecordAs, hs, pure, M.pure]

/-- **getline_counters (`getline var < file`).**  Only `var` changes: NR, FNR, `$0` and the fields stay. -/
theorem getline_counters_var_file (fuel : Nat) (fe : Expr) (x : String) (s s0 s1 : St) (fv : Val) (r : String)
    (hf : eval (fuel + 1) fe s = .ok fv s0) (h : readFile (toStr fv) s0 = .got r s1)
    (hl : s1.locals.lookup x = none) (hs : ∀ v, writeSpecial x v = none)
    (hu : unsupportedSpecials.contains x = false)
    (harr : ∀ id, s1.globals.lookup x ≠ some (.arr id)) :
    eval (fuel + 2) (.getline (some (.var x)) (some fe)) s =
      .ok (.num 1) { s1 with globals := setAssoc x (.val (mkInput r)) s1.globals } ∧
    s1.nr = s0.nr ∧ s1.fnr = s0.fnr ∧ s1.rec0 = s0.rec0 ∧ s1.fields = s0.fields := by
  have hm := readFile_frame _ _ _ _ h
  have hw := writeVar_global x (mkInput r) s1 hl (hs _) hu harr
  refine ⟨?_, hm.1, hm.2.1, hm.2.2.1, hm.2.2.2.1⟩
  rw [eval]
  simp only [bind, M.bind, hf]
  simp [evalLoc, touchLoc, bind, M.bind, pure, M.pure, h, writeLoc, hw]

/-- a failed open returns -1 and changes nothing -/
theorem getline_counters_nofile (fuel : Nat) (fe : Expr) (s s0 : St) (fv : Val)
    (hf : eval fuel fe s = .ok fv s0) (h : readFile (toStr fv) s0 = .noFile) :
    eval (fuel + 1) (.getline none (some fe)) s = .ok (.num (-1)) s0 := by
  rw [eval]
  simp [bind, M.bind, hf, h]

/-- non-vacuity: the hypotheses of the getline theorems are satisfiable -/
example : getlineMain { pending := [.file "f" ["a b", "c"]], headOpen := false } =
    (some "a b", { pending := [.file "f" ["c"]], headOpen := true, filename := "f", nr := 1, fnr := 1 }) := by
  simp [getlineMain, readMain]

example : readFile "f" { fsys := [], readers := [("f", ["l1", "l2"])] } =
    .got "l1" { fsys := [], readers := [("f", ["l2"])] } := by
  simp [readFile, List.lookup, setAssoc]

/-- non-vacuity: an ordinary variable name satisfies the side conditions of the getline/uninit theorems -/
example : (∀ v, writeSpecial "line" v = none) ∧ readSpecial "line" {} = none ∧
    unsupportedSpecials.contains "line" = false ∧ (({} : St).locals.lookup "line" = none) ∧
    (∀ id, ({} : St).globals.lookup "line" ≠ some (.arr id)) := by
  refine ⟨fun v => by simp [writeSpecial], by simp [readSpecial], by decide, rfl, fun id => by simp⟩

/-- non-vacuity: `getline line` on a two-record file: NR = FNR = 1 afterwards, `$0` untouched, `line` set -/
example : ∃ s2, eval 2 (.getline (some (.var "line")) none) { pending := [.file "f" ["a b", "c"]] } = .ok (.num 1) s2 ∧
    s2.nr = 1 ∧ s2.rec0 = "" ∧ s2.globals = [("line", .val (mkInput "a b"))] := by
  obtain ⟨s2, h1, h2, _, h4, _, h6⟩ :=
    getline_counters_var 0 "line" { pending := [.file "f" ["a b", "c"]] }
      { pending := [.file "f" ["c"]], headOpen := true, filename := "f", nr := 1, fnr := 1 } "a b"
      rfl (fun v => by simp [writeSpecial]) (by decide) (fun id => by simp)
      (by intro p hp; simp at hp; subst hp; rfl)
      (by simp [getlineMain, readMain])
  exact ⟨s2, h1, by simpa using h2, h4, by simpa [setAssoc] using h6⟩

/-! ## command-line assignments (`-v var=value`, `-F fs`, `var=value` operands) -/

theorem toStr_mkInput (v : String) : toStr (mkInput v) = v := by
  unfold mkInput; split <;> rfl

theorem lookup_setAssoc {β} (x : String) (c : β) (l : List (String × β)) : (setAssoc x c l).lookup x = some c := by
  induction l with
  | nil => simp [setAssoc, List.lookup_cons]
  | cons a t ih =>
    obtain ⟨k, b⟩ := a
    simp only [setAssoc]
    split
    · simp [List.lookup_cons]
    · next hne =>
      have : (x == k) = false := by
        cases hxk : (x == k) with
        | false => rfl
        | true => simp at hxk; subst hxk; simp at hne
      simp [List.lookup_cons, this, ih]

/-- a command-line assignment to an ordinary variable stores the value — a numeric string when it looks numeric —
in the GLOBAL variable, whatever function locals are active, and changes nothing else -/
theorem cmdline_assign_ordinary (x v : String) (s : St)
    (hs : ∀ w, writeSpecial x w = none) (hu : unsupportedSpecials.contains x = false)
    (harr : ∀ id, s.globals.lookup x ≠ some (.arr id)) :
    assignGlobal x v s = { s with globals := setAssoc x (.val (mkInput v)) s.globals } := by
  have h := writeVar_global x (mkInput v) { s with locals := [] } rfl (hs _) hu harr
  simp [assignGlobal, h]

/-- a command-line assignment to OFS / FS sets the separator itself (this is the path `hawk -v OFS=:` takes) -/
theorem cmdline_assign_separators (v : String) (s : St) :
    assignGlobal "OFS" v s = { s with ofs := v } ∧ assignGlobal "FS" v s = { s with fs := v } := by
  constructor <;>
    simp [assignGlobal, writeVar, writeSpecial, unsupportedSpecials, modifyS, toStr_mkInput, List.lookup]

/-- `-v` assignments are carried out in command-line order before the first BEGIN action; `-F` sets FS; the
`var=value` operands are still pending (not carried out) when BEGIN starts -/
theorem cmdline_before_begin (p : Prog) (inv : Invocation) :
    (∀ x v t s, applyVars ((x, v) :: t) s = applyVars t (assignGlobal x v s)) ∧
    (initStateInv p { inv with vars := [] }).fs = inv.fsOpt.getD " " ∧
    ((operandFiles inv.operands).isEmpty = false →
      (initStateInv p { inv with vars := [] }).pending = inv.operands.map operandPend) := by
  refine ⟨fun _ _ _ _ => rfl, rfl, ?_⟩
  intro h
  simp [initStateInv, applyVars, h]

/-- the value of `-v x=v` is what `x` evaluates to in BEGIN -/
theorem cmdline_v_visible_in_begin (fuel : Nat) (x v : String) (s : St)
    (hl : s.locals.lookup x = none)
    (hs : ∀ w, writeSpecial x w = none) (hr : ∀ t, readSpecial x t = none)
    (hu : unsupportedSpecials.contains x = false)
    (harr : ∀ id, s.globals.lookup x ≠ some (.arr id)) :
    eval (fuel + 1) (.var x) (assignGlobal x v s) = .ok (mkInput v) (assignGlobal x v s) := by
  rw [cmdline_assign_ordinary x v s hs hu harr]
  have hu' : ¬ x ∈ unsupportedSpecials := by simpa using hu
  simp [eval, readVar, hl, hr, hu', lookup_setAssoc]

/-- non-vacuity: `awk -v n=7 'BEGIN { … n … }'` — n evaluates to the numeric string 7 in BEGIN -/
example : eval 1 (.var "n") (assignGlobal "n" "7" {}) = .ok (mkInput "7") (assignGlobal "n" "7" {}) :=
  cmdline_v_visible_in_begin 0 "n" "7" {} rfl (fun w => by simp [writeSpecial]) (fun t => by simp [readSpecial])
    (by decide) (fun id => by simp)

/-- a `var=value` operand is carried out exactly when the reader reaches it — after the records of the files before
it, before the file after it is opened, and before END when it is the last operand -/
theorem operand_assignment_when_reached (x v : String) (rest : List Pend) (isOpen : Bool) (s : St) :
    readMain (.assign x v :: rest) isOpen s = readMain rest false (assignGlobal x v s) ∧
    readMain [.assign x v] isOpen s = (none, { assignGlobal x v s with pending := [], headOpen := false }) := by
  constructor <;> simp [readMain]

/-- non-vacuity: `awk '…' n=7 f` — the first record of f is delivered with n already set, NR = 1 -/
example : getlineMain { pending := [.assign "n" "7", .file "f" ["r1"]] } =
    (some "r1", { globals := [("n", .val (.strnum "7"))], pending := [.file "f" []], headOpen := true,
                  filename := "f", nr := 1, fnr := 1 }) := by
  have h : assignGlobal "n" "7" ({ pending := [.assign "n" "7", .file "f" ["r1"]] } : St) =
      { pending := [.assign "n" "7", .file "f" ["r1"]], globals := [("n", .val (.strnum "7"))] } := by
    rw [cmdline_assign_ordinary "n" "7" _ (fun w => by simp [writeSpecial]) (by decide) (fun id => by simp)]
    have : mkInput "7" = .strnum "7" := by decide
    simp [setAssoc, this]
  simp [getlineMain, readMain, h]

/-! ## determinism / totality with fuel -/

/-- every evaluator function is a total Lean function defined by structural recursion on the fuel; running
out of fuel is reported as the distinct error `Err.fuel` (never a truncated result) -/
theorem fuel_exhaustion_is_reported (e : Expr) (st : Stmt) (l : List Stmt) (s : St) :
    eval 0 e s = .err .fuel ∧ exec 0 st s = .err .fuel ∧ execList 0 l s = .err .fuel ∧
    (∀ fuel rules, mainLoop fuel rules 0 s = .err .fuel) := by
  refine ⟨?_, ?_, ?_, ?_⟩ <;> simp [eval, exec, execList, mainLoop]

/-- the interpreter is a function: equal programs and inputs give equal outcomes (determinism) -/
theorem run_deterministic (fuel : Nat) (p : Prog) (files : List File) (stdin : String) (extra : List File)
    (o1 o2 : Except Err Outcome)
    (h1 : runWith fuel p files stdin extra = o1) (h2 : runWith fuel p files stdin extra = o2) : o1 = o2 := by
  rw [← h1, ← h2]

/-! ## input pipes (`cmd | getline`): the remaining two rows of the getline table -/

/-- reading a record from an input pipe touches no counter and no record state -/
theorem readCmd_frame (cmd : String) (s s1 : St) (r : String) (h : readCmd cmd s = .got r s1) :
    s1.nr = s.nr ∧ s1.fnr = s.fnr ∧ s1.rec0 = s.rec0 ∧ s1.fields = s.fields ∧ s1.fs = s.fs := by
  unfold readCmd at h
  split at h
  · simp at h
  · simp at h; obtain ⟨_, h2⟩ := h; subst h2; simp
  · split at h
    · simp at h
    · exact openReader_frame _ _ _ _ _ h
    · split at h
      · exact openReader_frame _ _ _ _ _ h
      · split at h
        · simp at h
        · split at h
          · simp at h
          · exact openReader_frame _ _ _ _ _ h

/-- **getline_counters (`cmd | getline`).**  `$0` and the fields (NF) are replaced by the next record of the command's
output; NR and FNR do not change.  (POSIX tabulates NR as set by this form; gawk 5.2, mawk 1.3.4 and hawk all leave
it alone — `awk 'BEGIN { "echo a" | getline; print NR }'` prints 0 in all three — and the property is agreement with
the reference awks, which the exhaustive getline-table cases of the check confirm on every run.) -/
theorem getline_counters_cmd (fuel : Nat) (ce : Expr) (s s0 s1 : St) (cv : Val) (r : String) (fl : List String)
    (hf : eval fuel ce s = .ok cv s0) (h : readCmd (toStr cv) s0 = .got r s1)
    (hs : splitBy s1.fs r = some fl) :
    eval (fuel + 1) (.getlineCmd none ce) s =
      .ok (.num 1) { s1 with rec0 := r, rec0num := looksNumeric r, fields := fl.map mkInput } ∧
    s1.nr = s0.nr ∧ s1.fnr = s0.fnr := by
  have hm := readCmd_frame _ _ _ _ h
  refine ⟨?_, hm.1, hm.2.1⟩
  rw [eval]
  simp [bind, M.bind, hf, h, setRecord, setRecordAs, hs, pure, M.pure]

/-- **getline_counters (`cmd | getline var`).**  Only `var` changes: NR, FNR, `$0` and the fields stay. -/
theorem getline_counters_var_cmd (fuel : Nat) (ce : Expr) (x : String) (s s0 s1 : St) (cv : Val) (r : String)
    (hf : eval (fuel + 1) ce s = .ok cv s0) (h : readCmd (toStr cv) s0 = .got r s1)
    (hl : s1.locals.lookup x = none) (hs : ∀ v, writeSpecial x v = none)
    (hu : unsupportedSpecials.contains x = false)
    (harr : ∀ id, s1.globals.lookup x ≠ some (.arr id)) :
    eval (fuel + 2) (.getlineCmd (some (.var x)) ce) s =
      .ok (.num 1) { s1 with globals := setAssoc x (.val (mkInput r)) s1.globals } ∧
    s1.nr = s0.nr ∧ s1.fnr = s0.fnr ∧ s1.rec0 = s0.rec0 ∧ s1.fields = s0.fields := by
  have hm := readCmd_frame _ _ _ _ h
  have hw := writeVar_global x (mkInput r) s1 hl (hs _) hu harr
  refine ⟨?_, hm.1, hm.2.1, hm.2.2.1, hm.2.2.2.1⟩
  rw [eval]
  simp only [bind, M.bind, hf]
  simp [evalLoc, touchLoc, bind, M.bind, pure, M.pure, h, writeLoc, hw]

/-- at end of file every redirected form returns 0 and changes neither the record nor a counter -/
theorem getline_eof_changes_nothing (fuel : Nat) (fe : Expr) (s s0 s1 : St) (fv : Val)
    (hf : eval fuel fe s = .ok fv s0) :
    (readFile (toStr fv) s0 = .eof s1 → eval (fuel + 1) (.getline none (some fe)) s = .ok (.num 0) s1) ∧
    (readCmd (toStr fv) s0 = .eof s1 → eval (fuel + 1) (.getlineCmd none fe) s = .ok (.num 0) s1) ∧
    (readFile (toStr fv) s0 = .eof s1 ∨ readCmd (toStr fv) s0 = .eof s1 →
      s1.nr = s0.nr ∧ s1.fnr = s0.fnr ∧ s1.rec0 = s0.rec0 ∧ s1.fields = s0.fields ∧ s1.globals = s0.globals) := by
  refine ⟨?_, ?_, ?_⟩
  · intro h; rw [eval]; simp [bind, M.bind, hf, h]
  · intro h; rw [eval]; simp [bind, M.bind, hf, h]
  · have ho : ∀ key content (t : St), openReader key content s0 = .eof t →
        t.nr = s0.nr ∧ t.fnr = s0.fnr ∧ t.rec0 = s0.rec0 ∧ t.fields = s0.fields ∧ t.globals = s0.globals := by
      intro key content t h
      unfold openReader at h
      split at h
      · simp at h; subst h; simp
      · simp at h
    rintro (h | h)
    · unfold readFile at h
      split at h
      · simp at h; subst h; simp
      · simp at h
      · split at h
        · exact ho _ _ _ h
        · split at h
          · simp at h
          · split at h
            · simp at h
            · exact ho _ _ _ h
    · unfold readCmd at h
      split at h
      · simp at h; subst h; simp
      · simp at h
      · split at h
        · simp at h
        · exact ho _ _ _ h
        · split at h
          · exact ho _ _ _ h
          · split at h
            · simp at h
            · split at h
              · simp at h
              · exact ho _ _ _ h

/-- non-vacuity: `"echo a b" | getline` delivers the record `a b`; a second read is at end of file -/
example : readCmd "echo a b" {} = .got "a b" { readers := [("echo a b", [])] } ∧
    readCmd "echo a b" { readers := [("echo a b", [])] } = .eof { readers := [("echo a b", [])] } := by
  constructor
  · rfl
  · simp [readCmd, List.lookup]

/-! ## strnum comparison rules -/

/-- POSIX comparison rules for numeric strings, for all strings and numbers: a numeric string from input compares
NUMERICALLY with a number, with another numeric string and with an uninitialised value, but as a STRING with a
string constant; a string constant compares as a string even with a number (the number is converted). -/
theorem strnum_comparison_rules (s t : String) (i x y : Int) (hx : strToNum s = some x) (hy : strToNum t = some y) :
    cmpVals (.strnum s) (.num i) = some (cmpInt x i) ∧
    cmpVals (.num i) (.strnum s) = some (cmpInt i x) ∧
    cmpVals (.strnum s) (.strnum t) = some (cmpInt x y) ∧
    cmpVals (.strnum s) .uninit = some (cmpInt x 0) ∧
    cmpVals (.strnum s) (.str t) = some (cmpChars s.toList t.toList) ∧
    cmpVals (.str s) (.strnum t) = some (cmpChars s.toList t.toList) ∧
    cmpVals (.str s) (.num i) = some (cmpChars s.toList (intToStr i).toList) ∧
    cmpVals (.str s) (.str t) = some (cmpChars s.toList t.toList) := by
  simp [cmpVals, isNumeric, toNum, toStr, hx, hy]

/-- non-vacuity: the field `10` is greater than the number 9 but, as a string, smaller than the constant "9" -/
example : cmpVals (.strnum "10") (.num 9) = some .gt ∧ cmpVals (.strnum "10") (.str "9") = some .lt := by decide

theorem cmpChars_swap (a b : List Char) : cmpChars b a = (cmpChars a b).swap := by
  induction a generalizing b with
  | nil => cases b <;> simp [cmpChars, Ordering.swap]
  | cons c as ih =>
    cases b with
    | nil => simp [cmpChars, Ordering.swap]
    | cons d bs =>
      simp only [cmpChars]
      by_cases h1 : c.toNat < d.toNat
      · have h2 : ¬ d.toNat < c.toNat := by omega
        simp [h1, h2, Ordering.swap]
      · by_cases h2 : d.toNat < c.toNat
        · simp [h1, h2, Ordering.swap]
        · simp [h1, h2, ih]

theorem cmpInt_swap (x y : Int) : cmpInt y x = (cmpInt x y).swap := by
  unfold cmpInt
  by_cases h1 : x < y
  · have h2 : ¬ y < x := by omega
    simp [h1, h2, Ordering.swap]
  · by_cases h2 : y < x
    · simp [h1, h2, Ordering.swap]
    · simp [h1, h2, Ordering.swap]

/-- comparison is antisymmetric for ALL pairs of values: swapping the operands swaps the outcome (so `a < b` iff
`b > a`, `a == b` iff `b == a`), whichever of the numeric / string rules applies -/
theorem cmpVals_swap (a b : Val) : cmpVals b a = (cmpVals a b).map Ordering.swap := by
  unfold cmpVals
  by_cases h : (isNumeric a && isNumeric b) = true
  · have h' : (isNumeric b && isNumeric a) = true := by simpa [Bool.and_comm] using h
    simp only [h, h', if_true]
    cases toNum a <;> cases toNum b <;> simp
    exact cmpInt_swap _ _
  · have hf : (isNumeric a && isNumeric b) = false := by simpa using h
    have hf' : (isNumeric b && isNumeric a) = false := by rw [Bool.and_comm]; exact hf
    simp only [hf, hf', Bool.false_eq_true, if_false, Option.map_some]
    rw [cmpChars_swap (toStr a).toList (toStr b).toList]

/-- the six operators are three complementary pairs on every outcome, and exactly one of `<`, `==`, `>` holds -/
theorem cmpHolds_complement (o : Ordering) :
    cmpHolds .ge o = !cmpHolds .lt o ∧ cmpHolds .le o = !cmpHolds .gt o ∧ cmpHolds .ne o = !cmpHolds .eq o ∧
    ((cmpHolds .lt o && !cmpHolds .eq o && !cmpHolds .gt o) || (!cmpHolds .lt o && cmpHolds .eq o && !cmpHolds .gt o) ||
     (!cmpHolds .lt o && !cmpHolds .eq o && cmpHolds .gt o)) = true := by
  cases o <;> decide

/-! ## output streams: ordering across redirections, reading back -/

theorem lookup_setAssoc_ne {β} (x k : String) (c : β) (l : List (String × β)) (h : (k == x) = false) :
    (setAssoc x c l).lookup k = l.lookup k := by
  induction l with
  | nil => simp [setAssoc, List.lookup_cons, h]
  | cons a t ih =>
    obtain ⟨k', b⟩ := a
    simp only [setAssoc]
    split
    · next heq =>
      have : k' = x := by simpa using heq
      subst this
      simp [List.lookup_cons, h]
    · simp only [List.lookup_cons]
      cases hk : (k == k') <;> simp [ih]

/-- a successful write in append mode (`>>`, or any write to a stream that is already open) appends the text to the
file's content and touches neither standard output nor any other file -/
theorem emitStream_append_ok (key name text : String) (s s' : St)
    (h : emitStream true key name text s = .ok () s') :
    s'.outFiles = setAssoc name ((s.outFiles.lookup name).getD "" ++ text) s.outFiles ∧ s'.out = s.out := by
  unfold emitStream at h
  repeat' split at h
  all_goals first
    | contradiction
    | (simp at h; done)
    | (simp at h; subst h; simp)

/-- a write to a stream that is already open appends — `>` and `>>` are the same operation there (the file is
truncated only when `>` OPENS it) -/
theorem emitStream_open_same (key name text : String) (s : St) (ho : s.openOuts.contains key = true) :
    emitStream false key name text s = emitStream true key name text s := by
  have ho' : key ∈ s.openOuts := by simpa using ho
  unfold emitStream
  simp [ho']

/-- `>` on a file that is not open (first use, or after close) discards what the file held; `>>` keeps it -/
theorem emitStream_opening (key name text : String) (s s1 s2 : St) (ho : s.openOuts.contains key = false)
    (h1 : emitStream false key name text s = .ok () s1) (h2 : emitStream true key name text s = .ok () s2) :
    s1.outFiles.lookup name = some text ∧
    s2.outFiles.lookup name = some ((s.outFiles.lookup name).getD "" ++ text) ∧
    s1.openOuts = key :: s.openOuts ∧ s2.openOuts = key :: s.openOuts := by
  unfold emitStream at h1 h2
  simp only [ho, Bool.false_eq_true, if_false] at h1 h2
  repeat' split at h1
  all_goals first
    | contradiction
    | (simp at h1; done)
    | skip
  all_goals repeat' split at h2
  all_goals first
    | contradiction
    | (simp at h2; done)
    | (simp at h1 h2; subst h1; subst h2; simp [lookup_setAssoc])

/-- a sequence of `print … >> file` statements (texts already formatted), files in any interleaving -/
def emitSeq : List (String × String) → M Unit
  | [] => pure ()
  | (n, t) :: rest => do emitTo true n t; emitSeq rest

def concatTexts : List String → String
  | [] => ""
  | t :: rest => t ++ concatTexts rest

/-- **output ordering across redirections.**  For every sequence of writes to any number of files in any
interleaving: afterwards each file holds its previous content followed by exactly the texts written to IT, in program
order — writes to other files in between never reorder, drop or duplicate anything — and standard output is
untouched. -/
theorem output_order_across_redirections (ops : List (String × String)) (s s' : St)
    (h : emitSeq ops s = .ok () s') (name : String) :
    (s'.outFiles.lookup name).getD "" =
      (s.outFiles.lookup name).getD "" ++ concatTexts ((ops.filter (fun o => o.1 == name)).map (·.2)) ∧
    s'.out = s.out := by
  induction ops generalizing s with
  | nil =>
    simp [emitSeq, pure, M.pure] at h
    subst h
    simp [concatTexts]
  | cons o rest ih =>
    obtain ⟨n, t⟩ := o
    simp only [emitSeq, bind, M.bind] at h
    split at h
    · next u s1 h1 =>
      have ha := emitStream_append_ok n n t s s1 (by simpa [emitTo] using h1)
      have hr := ih s1 h
      refine ⟨?_, hr.2.trans ha.2⟩
      rw [hr.1, ha.1]
      cases hn : (n == name) with
      | true =>
        have : n = name := by simpa using hn
        subst this
        simp [List.filter_cons, concatTexts, lookup_setAssoc, String.append_assoc]
      | false =>
        have hn' : (name == n) = false := by
          cases hq : (name == n) with
          | false => rfl
          | true => simp at hq; subst hq; simp at hn
        simp [List.filter_cons, hn, lookup_setAssoc_ne _ _ _ _ hn']
    · simp at h
    · simp at h

/-- non-vacuity: `print "1" >> "a"; print "2" >> "b"; print "3" >> "a"` succeeds and leaves `13` in a, `2` in b -/
example : ∃ s', emitSeq [("a", "1"), ("b", "2"), ("a", "3")] {} = .ok () s' ∧
    (s'.outFiles.lookup "a").getD "" = "13" ∧ (s'.outFiles.lookup "b").getD "" = "2" := by
  have h : ∃ s', emitSeq [("a", "1"), ("b", "2"), ("a", "3")] {} = .ok () s' := ⟨_, rfl⟩
  obtain ⟨s', h⟩ := h
  refine ⟨s', h, ?_, ?_⟩
  · have := (output_order_across_redirections _ _ _ h "a").1
    simpa [concatTexts] using this
  · have := (output_order_across_redirections _ _ _ h "b").1
    simpa [concatTexts] using this

/-- `close` of an open output stream or reader returns 0 and the stream is gone afterwards (so the next `>`
truncates again and the next `getline <` starts from the beginning); `close` of anything else returns -1 and
changes nothing -/
theorem close_spec (key : String) (s : St) :
    (s.openOuts.contains key = true ∨ (s.readers.lookup key).isSome = true →
      ∃ s', closeStream key s = .ok (.num 0) s' ∧ s'.openOuts.contains key = false ∧ s'.outFiles = s.outFiles ∧
        s'.out = s.out) ∧
    (s.openOuts.contains key = false → (s.readers.lookup key).isSome = false →
      closeStream key s = .ok (.num (-1)) s) := by
  constructor
  · intro h
    have hc : (s.openOuts.contains key || (s.readers.lookup key).isSome) = true := by
      rcases h with h | h <;> simp only [h, Bool.true_or, Bool.or_true]
    refine ⟨{ s with openOuts := s.openOuts.filter (· != key), readers := delAssoc key s.readers }, ?_, ?_, rfl, rfl⟩
    · unfold closeStream
      rw [if_pos hc]
    · simp [List.mem_filter]
  · intro h1 h2
    have hc : ¬ (s.openOuts.contains key || (s.readers.lookup key).isSome) = true := by
      simp only [h1, h2, Bool.or_false]; exact Bool.false_ne_true
    unfold closeStream
    rw [if_neg hc]

/-- **reading back.**  A file the program wrote (and that is not an input file) can be read back with
`getline < name` exactly when no open output stream — `>`/`>>` on the file or a `| "cat > name"` pipe — still writes
it: the reader then starts at the first record of precisely the content the model holds for the file.  While a writer
is open the model refuses (`busy` = outside the profile) instead of guessing what buffering lets a reader see. -/
theorem readback_spec (name content : String) (s : St)
    (hr : s.readers.lookup name = none) (hf : s.fsys.find? (fun f => f.name == name) = none)
    (hc : s.outFiles.lookup name = some content) :
    (s.openOuts.any (writesTo name) = false → readFile name s = openReader name content s) ∧
    (s.openOuts.any (writesTo name) = true → readFile name s = .busy) := by
  constructor <;> intro hw <;> simp [readFile, hr, hf, hc, hw]

/-- non-vacuity: `print "x" > "o"; close("o"); getline < "o"` reads the record `x` back -/
example : ∃ s1 s2, emitTo false "o" "x\n" {} = .ok () s1 ∧ closeStream "o" s1 = .ok (.num 0) s2 ∧
    (∃ s3, readFile "o" s2 = .got "x" s3) ∧ readFile "o" s1 = .busy := by
  refine ⟨_, _, rfl, rfl, ⟨_, rfl⟩, rfl⟩

/-- a pipe to `cat > name` is a stream of its own (keyed by the command text) on the file `name`: opening it
truncates the file, later writes append, and the same file cannot be written through a second stream at the same
time (outside the profile) -/
theorem pipe_stream_spec (name text : String) (s : St) (hv : validOutName name = true) :
    pipeTarget ("cat > " ++ name) = some name ∧
    emitPipe ("cat > " ++ name) text s = emitStream false ("cat > " ++ name) name text s := by
  have hp : pipeTarget ("cat > " ++ name) = some name := by
    unfold pipeTarget
    have : ("cat > " ++ name).toList = "cat > ".toList ++ name.toList := by simp
    simp [this, hv]
  exact ⟨hp, by simp [emitPipe, hp]⟩

/-- redirected output never reaches standard output and never touches the record, the counters or a variable:
whatever branch a successful write to a file or pipe stream takes, only the stream table and the file contents change -/
theorem emitStream_frame (ap : Bool) (key name text : String) (s s' : St)
    (h : emitStream ap key name text s = .ok () s') :
    s'.out = s.out ∧ s'.nr = s.nr ∧ s'.fnr = s.fnr ∧ s'.rec0 = s.rec0 ∧ s'.fields = s.fields ∧
    s'.globals = s.globals ∧ s'.readers = s.readers := by
  unfold emitStream at h
  repeat' split at h
  all_goals first
    | contradiction
    | (simp at h; done)
    | (simp at h; subst h; simp)

/-- the key spaces of the stream table do not collide: a valid output FILE name (letters, digits, `.`, `_`) is never
read as a pipe command, so `print > "f"` and `print | "cat > f"` are always two different streams (the model then
refuses the second one while the first is open — `two output streams on one file`) -/
theorem stream_keys_disjoint (n : String) (h : validOutName n = true) :
    pipeTarget n = none ∧ cmdSource n = none := by
  have hall : ∀ c ∈ n.toList, (c.isAlphanum || c == '.' || c == '_') = true := by
    simp only [validOutName, Bool.and_eq_true, List.all_eq_true] at h
    exact h.2
  have hsp : ¬ ' ' ∈ n.toList := fun hm => by
    have := hall _ hm
    revert this; decide
  have hpre : ∀ pre : List Char, ' ' ∈ pre → pre.isPrefixOf n.toList = false := by
    intro pre hm
    cases hp : pre.isPrefixOf n.toList with
    | false => rfl
    | true =>
      obtain ⟨t, ht⟩ := List.isPrefixOf_iff_prefix.mp hp
      exact absurd (by rw [← ht]; exact List.mem_append_left _ hm) hsp
  constructor
  · unfold pipeTarget
    simp only [hpre "cat > ".toList (by decide), Bool.false_eq_true, if_false]
  · unfold cmdSource
    simp only [hpre "cat ".toList (by decide), hpre "echo ".toList (by decide), Bool.false_eq_true, if_false]

example : validOutName "o2.out" = true ∧ pipeTarget "cat > o2.out" = some "o2.out" := by decide

/-! ## record / field coherence -/

/-- `$0` is the fields joined with OFS -/
def Rebuilt (s : St) : Prop := s.rec0 = joinWith s.ofs (s.fields.map toStr)

theorem map_toStr_mkInput (fl : List String) : (fl.map mkInput).map toStr = fl := by
  induction fl with
  | nil => rfl
  | cons a t ih => simp [toStr_mkInput, ih]

/-- **record/field coherence after each of the three writes that touch the record**, for all states and values:
* `$i = v` (i ≥ 1): NF grows to at least i (never shrinks), `$i` holds the value, and `$0` IS the fields joined with
  the current OFS;
* `NF = n`: exactly n fields remain (padded with empty strings or truncated) and `$0` is rebuilt the same way;
* `$0 = r` (also every getline form that sets `$0`): `$0` is r verbatim and the fields are exactly the split of r
  with the current FS — no rebuild;
and NF always reads as the number of fields.
Partial: stated per write operation; not lifted to an invariant over arbitrary statement sequences, because between a
`$0 = r` (split with the FS of that moment) and the next field write the program may change FS or OFS, after which
neither `fields = split $0` nor `$0 = join fields` is supposed to hold (POSIX: the new FS applies to the next record). -/
theorem record_field_coherence_partial (s s' : St) :
    (∀ i v, 1 ≤ i → setField i v s = .ok () s' →
        Rebuilt s' ∧ s'.fields.length = max s.fields.length i ∧ s'.fields[i - 1]? = some (fieldVal v) ∧ s'.ofs = s.ofs) ∧
    (∀ n, setNF n s = .ok () s' → Rebuilt s' ∧ (s'.fields.length : Int) = n) ∧
    (∀ num r, setRecordAs num r s = .ok () s' →
        s'.rec0 = r ∧ splitBy s.fs r = some (s'.fields.map toStr) ∧ s'.fs = s.fs) ∧
    readSpecial "NF" s = some (.num s.fields.length) := by
  refine ⟨?_, ?_, ?_, ?_⟩
  · intro i v hi h
    have h0 : (i == 0) = false := by
      cases hq : (i == 0) with
      | false => rfl
      | true => simp at hq; omega
    unfold setField at h
    simp only [h0, Bool.false_eq_true, if_false] at h
    split at h
    · simp at h
    · simp only [Res.ok.injEq, true_and] at h
      subst h
      by_cases hl : s.fields.length < i
      · simp [Rebuilt, rebuild, hl]
        constructor
        · omega
        · have : i - 1 < (s.fields ++ List.replicate (i - s.fields.length) (Val.str "")).length := by
            simp; omega
          simp [List.getElem?_set_self this]
      · simp [Rebuilt, rebuild, hl]
        constructor
        · omega
        · have : i - 1 < s.fields.length := by omega
          simp [List.getElem?_set_self this]
  · intro n h
    unfold setNF at h
    split at h
    · simp at h
    · next hn =>
      simp only [Res.ok.injEq, true_and] at h
      subst h
      have hn' : 0 ≤ n := by
        simp only [Bool.or_eq_true, decide_eq_true_eq, not_or] at hn; omega
      by_cases hl : s.fields.length < n.toNat
      · simp [Rebuilt, rebuild, hl]; omega
      · simp [Rebuilt, rebuild, hl]; omega
  · intro num r h
    unfold setRecordAs at h
    split at h
    · simp at h
    · next fl hfl =>
      simp only [Res.ok.injEq, true_and] at h
      subst h
      refine ⟨rfl, ?_, rfl⟩
      show splitBy s.fs r = some ((fl.map mkInput).map toStr)
      rw [map_toStr_mkInput]; exact hfl
  · simp [readSpecial]

/-- non-vacuity: `$3 = "c"` on the record `a b` gives NF = 3 and `$0 = "a b c"` -/
example : ∃ s', setField 3 (.str "c") { rec0 := "a b", fields := [.str "a", .str "b"] } = .ok () s' ∧
    s'.rec0 = "a b c" ∧ s'.fields.length = 3 := by
  refine ⟨_, rfl, by decide, by decide⟩

end Hawk.Awk.C02
