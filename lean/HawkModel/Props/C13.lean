import HawkModel.StrFnLemmas
/-!
# C13 — String builtins satisfy their defining equations

Property theorems only (helpers and the specification vocabulary — `Occurs`, `substrLo/Hi`, `matchSeq`,
`render`, `NonOverlapping`, `NoAdjacentEmpty`, `FromEngine`, `joinWith`, `charMatcher` — live in
StrFnLemmas.lean; the model, a transcription of lib/fnc.c, lib/misc-imp.h and lib/utl-str.c, in StrFn.lean).

Generic part: any element type `α` (characters or bytes) and ANY regular-expression engine, which enters only
as a `Matcher α` = a function (subject, start offset) ↦ reported match, bundled with the interface law that
the match lies inside the subject at or after the start offset.  Typed part: the value-kind dispatch of each
builtin (`fnSubstr`, `fnIndex`, `fnSplit`, `fnSubst`, `fnMatch`, `fnCase`, `fnLength`) over `Val` and the
interpreter state `State σ` (RSTART, RLENGTH, by-reference target, by-reference array, `rest` = everything
else), for an arbitrary `Env` (codec, number formatting, regex compiler, case maps, space classes).

* substr   : `substr_spec`, `substr_get`, `substr_in_range`, `substr_start_before`, `substr_kind`, `toInt_truncates`
* index    : `index_first_occurrence_or_zero`, `index_two_args`, `index_empty_pattern`,
             `rindex_last_occurrence_or_zero`, `index_kind`
* split    : `split_join`, `split_empty`, `split_blank`, `split_dispatch_single_char`, `split_frame`
* sub/gsub : `gsub_leftmost_nonoverlapping`, `matchSeq_wellformed`, `sub_first_match`, `gsub_char`,
             `expand_amp/_bs_amp/_bs_bs_amp/_bs_bs_bs_amp/_other/_bs_other/_no_amp`, `subst_result`, `subst_frame`,
             `subst0_spec` (two-argument form: target $0, NF follows)
* match    : `matchCore_spec`, `matchCore_default`, `match_sets_rstart_rlength`, `match_array`, `match_frame`
* case/len : `tolower_idempotent`, `case_preserves_length`, `mapCase_length`, `mapCase_idempotent`, `length_spec`
* mod-str.c: `trim_spec`, `trim_kind`, `compact_keeps_nonspace` (normspace), `charAt_spec`, `subchar_spec`,
             `tocharcode_fromcharcode`, `frombcharcode_spec`, `isClass_spec`, `isclass_kind`, `tombs_frommbs`, `tonum_spec`
* IGNORECASE: `index_ignorecase`, `split_ignorecase_id` (the regex-driven builtins only switch to the other compilation
             of the pattern, which is an arbitrary `Matcher` in every theorem above)

Frame ("none of them changes anything but its documented target"): length, substr, index, rindex, tolower and
toupper are pure functions of their arguments in the model (no state in their type); `subst_frame`,
`split_frame`, `match_frame` cover the three that write.  The correspondence run checks the same on the real
interpreter (every call dumps T, A, RSTART, RLENGTH, NF, $0, a sentinel and a signature of all other globals).
-/
set_option linter.unusedSectionVars false
set_option linter.unusedVariables false
namespace Hawk.StrFn
variable {α : Type} [DecidableEq α]

/-! ## index / rindex -/

/-- index(s, p [, start]): 0 for a start before the string; otherwise the result is the 1-based position of the
    first occurrence of `p` at or after the start position, or 0 when there is none there.  Holds for every
    pattern, the empty one included (it occurs at every position up to length+1). -/
theorem index_first_occurrence_or_zero (s p : List α) (start : Option Int) :
    let b := indexBoundary false s.length start
    let r := indexCore false s p start
    (b ≤ 0 → r = 0) ∧
    (1 ≤ b →
      (r = 0 ∧ ∀ i : Nat, b - 1 ≤ (i : Int) → ¬ Occurs p s i) ∨
      (∃ i : Nat, r = (i : Int) + 1 ∧ b - 1 ≤ (i : Int) ∧ Occurs p s i ∧
        ∀ j : Nat, b - 1 ≤ (j : Int) → j < i → ¬ Occurs p s j)) := by
  intro b r
  have hr : r = if b ≤ 0 ∨ b > (s.length : Int) + 1 then 0
      else match find (s.drop (b.toNat - 1)) p with
        | some i => ((b.toNat - 1 + i : Nat) : Int) + 1
        | none => 0 := indexCore_index s p start
  clear_value b r
  refine ⟨?_, ?_⟩
  · intro hb
    rw [hr, if_pos (Or.inl hb)]
  · intro hb
    by_cases hbn : b > (s.length : Int) + 1
    · left
      refine ⟨?_, ?_⟩
      · rw [hr, if_pos (Or.inr hbn)]
      · intro i hi ho
        have := ho.1
        omega
    · have hcond : ¬ (b ≤ 0 ∨ b > (s.length : Int) + 1) := by omega
      rw [if_neg hcond] at hr
      cases hf : find (s.drop (b.toNat - 1)) p with
      | none =>
        left
        rw [hf] at hr
        refine ⟨hr, ?_⟩
        intro i hi ho
        have hk : b.toNat - 1 ≤ i := by omega
        have := find_none p _ hf (i - (b.toNat - 1)) (by simp only [List.length_drop]; have := ho.1; omega)
        apply this
        rw [List.drop_drop]
        have : b.toNat - 1 + (i - (b.toNat - 1)) = i := by omega
        rw [this]; exact ho.2
      | some i' =>
        right
        rw [hf] at hr
        obtain ⟨h1, h2, h3⟩ := find_some p _ i' hf
        rw [List.drop_drop] at h2
        simp only [List.length_drop] at h1
        refine ⟨b.toNat - 1 + i', hr, by omega, ⟨prefix_drop_bound (by omega) h2, h2⟩, ?_⟩
        intro j hj hji ho
        have hk : b.toNat - 1 ≤ j := by omega
        apply h3 (j - (b.toNat - 1)) (by omega)
        rw [List.drop_drop]
        have : b.toNat - 1 + (j - (b.toNat - 1)) = j := by omega
        rw [this]; exact ho.2

/-- two-argument index: the classical statement -/
theorem index_two_args (s p : List α) :
    let r := indexCore false s p none
    (r = 0 ∧ ∀ i, ¬ Occurs p s i) ∨
    (∃ i : Nat, r = (i : Int) + 1 ∧ Occurs p s i ∧ ∀ j, j < i → ¬ Occurs p s j) := by
  have h := (index_first_occurrence_or_zero s p none).2 (by simp [indexBoundary])
  simp only [indexBoundary] at h
  rcases h with ⟨h1, h2⟩ | ⟨i, h1, h2, h3, h4⟩
  · left; exact ⟨h1, fun i => h2 i (by simp)⟩
  · right; exact ⟨i, h1, h3, fun j hj => h4 j (by simp) hj⟩

/-- the empty pattern is found at the start position itself, for every start position inside the string or
    right behind it (so index("", "") = 1, as in gawk and mawk) -/
theorem index_empty_pattern (s : List α) (start : Option Int) :
    let b := indexBoundary false s.length start
    indexCore false s [] start = if 1 ≤ b ∧ b ≤ (s.length : Int) + 1 then b else 0 := by
  intro b
  have hr : indexCore false s [] start = if b ≤ 0 ∨ b > (s.length : Int) + 1 then 0
      else match find (s.drop (b.toNat - 1)) ([] : List α) with
        | some i => ((b.toNat - 1 + i : Nat) : Int) + 1
        | none => 0 := indexCore_index s [] start
  clear_value b
  rw [hr]
  by_cases hc : b ≤ 0 ∨ b > (s.length : Int) + 1
  · rw [if_pos hc, if_neg (show ¬ (1 ≤ b ∧ b ≤ (s.length : Int) + 1) by omega)]
  · rw [if_neg hc, if_pos (show 1 ≤ b ∧ b ≤ (s.length : Int) + 1 by omega)]
    have hf : find (s.drop (b.toNat - 1)) ([] : List α) = some 0 := by
      cases s.drop (b.toNat - 1) <;> simp [find, List.isPrefixOf]
    rw [hf]
    simp only
    omega

theorem rindex_last_occurrence_or_zero (s p : List α) (start : Option Int) (hp : p ≠ []) :
    let b := indexBoundary true s.length start
    let r := indexCore true s p start
    let w := s.take b.toNat          -- the window: the first b characters
    ((b ≤ 0 ∨ b > (s.length : Int)) → r = 0) ∧
    (1 ≤ b → b ≤ (s.length : Int) →
      (r = 0 ∧ ∀ i : Nat, ¬ Occurs p w i) ∨
      (∃ i : Nat, r = (i : Int) + 1 ∧ Occurs p w i ∧ ∀ j : Nat, i < j → ¬ Occurs p w j)) := by
  intro b r w
  have hplen : 0 < p.length := List.length_pos_iff.2 hp
  have hr : r = if b ≤ 0 ∨ b > (s.length : Int) + 0 then 0
      else match rfind w p with
        | some i => (i : Int) + 1
        | none => 0 := indexCore_rindex s p start
  clear_value r
  refine ⟨?_, ?_⟩
  · intro hb
    rw [hr, if_pos (by omega)]
  · intro hb1 hb2
    rw [if_neg (by omega)] at hr
    unfold rfind at hr
    rw [if_neg (by omega)] at hr
    by_cases hlen : w.length < p.length
    · left
      rw [if_pos hlen] at hr
      refine ⟨hr, ?_⟩
      intro i ho
      have := ho.1; omega
    · rw [if_neg hlen] at hr
      cases hf : rfindFrom w p (w.length - p.length) with
      | none =>
        left
        rw [hf] at hr
        refine ⟨hr, ?_⟩
        intro i ho
        exact rfindFrom_none w p _ hf i (by have := ho.1; omega) ho.2
      | some i' =>
        right
        rw [hf] at hr
        obtain ⟨h1, h2, h3⟩ := rfindFrom_some w p _ i' hf
        refine ⟨i', hr, ⟨by omega, h2⟩, ?_⟩
        intro j hj ho
        exact h3 j hj (by have := ho.1; omega) ho.2

/-! ## substr -/

/-- substr(s, start [, len]) is the clamped 1-based character range [lo, hi) -/
theorem substr_spec (s : List α) (start : Int) (len : Option Int) :
    substr s start len =
      (s.drop (substrLo s.length start - 1).toNat).take (substrHi s.length start len - substrLo s.length start).toNat := by
  simp only [substr]
  rw [substrCount_eq, substrIndex_eq]

/-- pointwise form: the result has hi - lo characters and its k-th character is character lo + k of the subject -/
theorem substr_get (s : List α) (start : Int) (len : Option Int) :
    (substr s start len).length = (substrHi s.length start len - substrLo s.length start).toNat ∧
    ∀ k, k < (substrHi s.length start len - substrLo s.length start).toNat →
      (substr s start len)[k]? = s[(substrLo s.length start - 1).toNat + k]? := by
  have hb := substr_bounds s.length start len
  rw [substr_spec]
  refine ⟨?_, ?_⟩
  · simp only [List.length_take, List.length_drop]; omega
  · intro k hk
    rw [List.getElem?_take_of_lt hk, List.getElem?_drop]

/-- in range (1 ≤ start, 0 ≤ len) this is exactly the POSIX definition: at most `len` characters from position `start` -/
theorem substr_in_range (s : List α) (start len : Int) (h1 : 1 ≤ start) (h2 : 0 ≤ len) :
    substr s start (some len) = (s.drop (start - 1).toNat).take len.toNat := by
  rw [substr_spec]
  simp only [substrLo, substrHi]
  by_cases hs : start ≤ (s.length : Int) + 1
  · have e1 : (min (max start 1) ((s.length : Int) + 1) - 1).toNat = (start - 1).toNat := by omega
    rw [e1]
    by_cases hl : start + len ≤ (s.length : Int) + 1
    · have e2 : (min (min (max start 1) (↑s.length + 1) + max len 0) (↑s.length + 1) - min (max start 1) (↑s.length + 1)).toNat = len.toNat := by omega
      rw [e2]
    · have e2 : (min (min (max start 1) (↑s.length + 1) + max len 0) (↑s.length + 1) - min (max start 1) (↑s.length + 1)).toNat = s.length - (start - 1).toNat := by omega
      rw [e2]
      rw [List.take_of_length_le (by simp only [List.length_drop]; omega), List.take_of_length_le (by simp only [List.length_drop]; omega)]
  · rw [List.drop_of_length_le (by omega), List.drop_of_length_le (by omega)]
    simp

/-- a start before the string counts as position 1 and does NOT shorten the length (the gawk reading; the
    one-true-awk reading would take max(start+len,1)-1 as the end) -/
theorem substr_start_before (s : List α) (start : Int) (len : Option Int) (h : start ≤ 1) :
    substr s start len = substr s 1 len := by
  rw [substr_spec, substr_spec]
  have e1 : substrLo s.length start = substrLo s.length 1 := by simp only [substrLo]; omega
  have e2 : substrHi s.length start len = substrHi s.length 1 len := by
    cases len <;> simp only [substrHi, substrLo] <;> omega
  rw [e1, e2]

/-! ## split -/

/-- split on a single non-blank character: the pieces re-joined with that character rebuild the
    string, there is exactly one piece more than occurrences of the character, and no piece contains it
    (so the decomposition is the unique one) -/
theorem split_join (isSp : α → Bool) (blank c : α) (hc : c ≠ blank) (s : List α) (hs : s ≠ []) :
    List.intercalate [c] (splitChars isSp blank [c] s) = s ∧
    (splitChars isSp blank [c] s).length = s.count c + 1 ∧
    ∀ t ∈ splitChars isSp blank [c] s, c ∉ t := by
  rw [← joinWith_eq_intercalate]
  exact piecesLoop_single (tokChars_dec isSp blank [c]) c (tokChars_single isSp blank c hc) s.length s 0 rfl (Or.inr hs)

/-- the empty string has no pieces (not one empty piece) -/
theorem split_empty (isSp : α → Bool) (blank : α) (delim : List α) :
    splitChars isSp blank delim [] = [] := by
  have h : tokChars isSp blank delim [] = ([], none) := by
    simp only [tokChars]
    cases delimMode isSp blank delim <;> simp [tokEmpty, tokSpaces, tokNoSpaces, tokComposite, nextOrNull, trimRight]
  unfold splitChars
  rw [piecesLoop_unfold, h]
  simp

/-! ## replacement template (`&`, `\&`, `\\&`, `\\\&`) -/

section template
variable (bs amp : α) (mat : List α)

/-- `&` stands for the matched text -/
theorem expand_amp (h : bs ≠ amp) (t : List α) :
    expand bs amp mat (amp :: t) = mat ++ expand bs amp mat t := by
  have h' : amp ≠ bs := fun e => h e.symm
  rcases t with _ | ⟨b, _ | ⟨c, _ | ⟨d, r⟩⟩⟩ <;> simp [expand, h']

/-- `\&` is a literal `&` -/
theorem expand_bs_amp (h : bs ≠ amp) (t : List α) :
    expand bs amp mat (bs :: amp :: t) = amp :: expand bs amp mat t := by
  have h' : amp ≠ bs := fun e => h e.symm
  rcases t with _ | ⟨c, _ | ⟨d, r⟩⟩ <;> simp [expand, h, h']

/-- `\\&` is a literal backslash followed by the matched text -/
theorem expand_bs_bs_amp (h : bs ≠ amp) (t : List α) :
    expand bs amp mat (bs :: bs :: amp :: t) = bs :: (mat ++ expand bs amp mat t) := by
  have h' : amp ≠ bs := fun e => h e.symm
  rcases t with _ | ⟨d, r⟩ <;> simp [expand, h, h']

/-- `\\\&` is a literal `\&` -/
theorem expand_bs_bs_bs_amp (t : List α) :
    expand bs amp mat (bs :: bs :: bs :: amp :: t) = bs :: amp :: expand bs amp mat t := by
  simp [expand]

/-- any other character stands for itself -/
theorem expand_other (a : α) (h1 : a ≠ amp) (h2 : a ≠ bs) (t : List α) :
    expand bs amp mat (a :: t) = a :: expand bs amp mat t := by
  rcases t with _ | ⟨b, _ | ⟨c, _ | ⟨d, r⟩⟩⟩ <;> simp [expand, h1, h2]

/-- a backslash that does not start one of the three escapes above is a literal backslash -/
theorem expand_bs_other (h : bs ≠ amp) (t : List α)
    (h1 : ∀ r, t ≠ amp :: r) (h2 : ∀ r, t ≠ bs :: amp :: r) (h3 : ∀ r, t ≠ bs :: bs :: amp :: r) :
    expand bs amp mat (bs :: t) = bs :: expand bs amp mat t := by
  rcases t with _ | ⟨b, _ | ⟨c, _ | ⟨d, r⟩⟩⟩
  · simp [expand, h]
  · have : b ≠ amp := fun e => h1 [] (by rw [e])
    simp [expand, h, this]
  · have hb : b ≠ amp := fun e => h1 [c] (by rw [e])
    have hc : ¬ (b = bs ∧ c = amp) := fun ⟨e1, e2⟩ => h2 [] (by rw [e1, e2])
    simp [expand, h, hb]
    intro e1 e2; exact absurd ⟨e1, e2⟩ hc
  · have hb : b ≠ amp := fun e => h1 (c :: d :: r) (by rw [e])
    have hc : ¬ (b = bs ∧ c = amp) := fun ⟨e1, e2⟩ => h2 (d :: r) (by rw [e1, e2])
    have hd : ¬ (b = bs ∧ c = bs ∧ d = amp) := fun ⟨e1, e2, e3⟩ => h3 r (by rw [e1, e2, e3])
    simp [expand, h, hb]
    rw [if_neg hd, if_neg hc]

/-- a template without `&` is copied unchanged (backslashes included) -/
theorem expand_no_amp (t : List α) (h : ∀ x ∈ t, x ≠ amp) : expand bs amp mat t = t := by
  fun_induction expand bs amp mat t <;> simp_all

end template

/-! ## sub / gsub -/

/-- gsub/sub compute exactly the declarative substitution: the output is the subject with the matches of
    `matchSeq` (leftmost match at or after the cursor, an empty match directly after the previous match
    skipped, at most `limit` of them) replaced by the expanded template and everything between them copied;
    the returned count is the number of those matches.  For EVERY matcher obeying the interface law. -/
theorem gsub_leftmost_nonoverlapping (m : Matcher α) (bs amp : α) (s repl : List α) (limit : Option Nat) :
    substitute m bs amp s repl limit =
      (render bs amp s repl (matchSeq m s limit 0 none 0) 0, (matchSeq m s limit 0 none 0).length) := by
  unfold substitute
  rw [substLoop_render m bs amp s repl limit _ 0 none 0 [] rfl]
  simp

/-- the replaced matches lie inside the subject, go left to right without overlapping, none is an empty
    match glued to the end of the previous one, each is the engine's answer from a cursor not before the end
    of the previous match, and there are at most `limit` of them -/
theorem matchSeq_wellformed (m : Matcher α) (s : List α) (limit : Option Nat) :
    NonOverlapping s.length 0 (matchSeq m s limit 0 none 0) ∧
    NoAdjacentEmpty none (matchSeq m s limit 0 none 0) ∧
    FromEngine m s 0 (matchSeq m s limit 0 none 0) ∧
    (∀ lim, limit = some lim → (matchSeq m s limit 0 none 0).length ≤ lim) := by
  obtain ⟨h1, h2, h3, h4⟩ := matchSeq_props m s limit _ 0 none 0 rfl
  refine ⟨h1, h2, h3, ?_⟩
  intro lim hl
  have := h4 lim hl
  omega

/-- sub (limit 1) replaces the first match only -/
theorem sub_first_match (m : Matcher α) (bs amp : α) (s repl : List α) :
    substitute m bs amp s repl (some 1) =
      match m.run s 0 with
      | none => (s, 0)
      | some (p, l) => (s.take p ++ expand bs amp ((s.drop p).take l) repl ++ s.drop (p + l), 1) := by
  rw [gsub_leftmost_nonoverlapping]
  have hseq : matchSeq m s (some 1) 0 none 0 = match m.run s 0 with
      | none => []
      | some x => [x] := by
    rw [matchSeq_unfold]
    simp only [Nat.zero_le, if_true, belowLimit, Nat.lt_one_iff]
    cases hm : m.run s 0 with
    | none => simp
    | some pl =>
      obtain ⟨p, l⟩ := pl
      simp only [decide_true, if_true]
      have hnext : ∀ c pe, matchSeq m s (some 1) c pe 1 = [] := by
        intro c pe
        rw [matchSeq_unfold]
        simp [belowLimit]
      by_cases hl : l = 0 <;> simp [hl, hnext]
  rw [hseq]
  cases hm : m.run s 0 with
  | none => simp [render]
  | some pl =>
    obtain ⟨p, l⟩ := pl
    simp [render]

/-! ## match -/

/-- match(): what is reported is exactly the engine's match on the suffix from the (adjusted) start, shifted
    back to positions of the whole subject: RSTART = start + p, RLENGTH = l, and the reported range lies inside
    the subject; (0, -1) exactly when the start is out of range or the engine finds nothing -/
theorem matchCore_spec (m : Matcher α) (s : List α) (start : Int) :
    let st := matchStart s.length start
    (matchCore m s start = (0, -1) ∧
       (st ≤ 0 ∨ st > (s.length : Int) + 1 ∨ m.run (s.drop (st.toNat - 1)) 0 = none)) ∨
    (∃ p l : Nat, 1 ≤ st ∧ st ≤ (s.length : Int) + 1 ∧ m.run (s.drop (st.toNat - 1)) 0 = some (p, l) ∧
       matchCore m s start = (st + p, (l : Int)) ∧ st + p + l ≤ (s.length : Int) + 1) := by
  intro st
  have hdef : matchCore m s start =
      if st > (s.length : Int) + 1 ∨ st ≤ 0 then (0, -1)
      else match m.run (s.drop (st.toNat - 1)) 0 with
        | none => (0, -1)
        | some (p, l) => (((st.toNat - 1 + p : Nat) : Int) + 1, (l : Int)) := rfl
  clear_value st
  by_cases hc : st > (s.length : Int) + 1 ∨ st ≤ 0
  · left
    rw [hdef, if_pos hc]
    exact ⟨rfl, by omega⟩
  · rw [if_neg hc] at hdef
    cases hm : m.run (s.drop (st.toNat - 1)) 0 with
    | none =>
      left
      rw [hm] at hdef
      exact ⟨hdef, Or.inr (Or.inr rfl)⟩
    | some pl =>
      obtain ⟨p, l⟩ := pl
      right
      rw [hm] at hdef
      have hin := m.inside _ 0 p l hm
      simp only [List.length_drop] at hin
      refine ⟨p, l, by omega, by omega, rfl, ?_, by omega⟩
      rw [hdef]
      simp only [Prod.mk.injEq, and_true]
      omega

/-- two-argument match(s, r): the engine's match on the whole subject, 1-based -/
theorem matchCore_default (m : Matcher α) (s : List α) :
    matchCore m s 1 = match m.run s 0 with
      | none => (0, -1)
      | some (p, l) => ((p : Int) + 1, (l : Int)) := by
  have hdef : matchCore m s 1 =
      if matchStart s.length 1 > (s.length : Int) + 1 ∨ matchStart s.length 1 ≤ 0 then (0, -1)
      else match m.run (s.drop ((matchStart s.length 1).toNat - 1)) 0 with
        | none => (0, -1)
        | some (p, l) => ((((matchStart s.length 1).toNat - 1 + p : Nat) : Int) + 1, (l : Int)) := rfl
  have h1 : matchStart s.length 1 = 1 := by simp [matchStart]
  rw [hdef, h1, if_neg (by omega)]
  simp

variable {σ : Type}

/-- match() sets RSTART to the value it returns and RLENGTH to the length of the match it reports, both
    being exactly `matchCore` of the subject (bytes for a byte string, characters otherwise) -/
theorem match_sets_rstart_rlength (E : Env) (a0 : Val) (pat : Pat) (start : Option Val) (wantArr : Bool)
    (st st' : State σ) (r : Val) (h : fnMatch E a0 pat start wantArr st = some (r, st')) :
    st'.rstart = r ∧
    ∃ stv : Int, startArg start = some stv ∧
      (match a0 with
       | .mbs b => r = .int (matchCore (pat.regex E).b b stv).1 ∧ st'.rlength = .int (matchCore (pat.regex E).b b stv).2
       | v => r = .int (matchCore (pat.regex E).c (v.toStr E) stv).1 ∧
              st'.rlength = .int (matchCore (pat.regex E).c (v.toStr E) stv).2) := by
  unfold fnMatch at h
  cases hs : startArg start with
  | none => simp [hs] at h
  | some stv =>
    simp only [hs, Option.some.injEq, Prod.mk.injEq] at h
    obtain ⟨h1, h2⟩ := h
    subst h2 h1
    refine ⟨rfl, stv, rfl, ?_⟩
    cases a0 <;> simp [matchTriple]

/-- the array form reports the same match: A[0] is the matched text (the characters RSTART .. RSTART+RLENGTH-1
    of the subject), A[0,"start"] = RSTART, A[0,"length"] = RLENGTH; an empty array when nothing matched -/
theorem match_array (E : Env) (a0 : Val) (pat : Pat) (start : Option Val)
    (st st' : State σ) (r : Val) (h : fnMatch E a0 pat start true st = some (r, st')) :
    ∃ stv, startArg start = some stv ∧
      let t := matchTriple E (pat.regex E) a0 stv
      st'.coll = (if t.1 = 0 then .map []
        else .map [(['0'], t.2.2), (['0'] ++ subsep ++ "start".toList, st'.rstart),
                   (['0'] ++ subsep ++ "length".toList, st'.rlength)]) := by
  unfold fnMatch at h
  cases hs : startArg start with
  | none => simp [hs] at h
  | some stv =>
    simp only [hs, Option.some.injEq, Prod.mk.injEq] at h
    obtain ⟨h1, h2⟩ := h
    subst h2
    exact ⟨stv, rfl, by simp⟩

/-- frame: match changes RSTART and RLENGTH (and the array argument when one is passed) and nothing else -/
theorem match_frame (E : Env) (a0 : Val) (pat : Pat) (start : Option Val) (wantArr : Bool)
    (st st' : State σ) (r : Val) (h : fnMatch E a0 pat start wantArr st = some (r, st')) :
    st'.target = st.target ∧ st'.rest = st.rest ∧ (wantArr = false → st'.coll = st.coll) := by
  unfold fnMatch at h
  cases hs : startArg start with
  | none => simp [hs] at h
  | some stv =>
    simp only [hs, Option.some.injEq, Prod.mk.injEq] at h
    obtain ⟨h1, h2⟩ := h
    subst h2
    refine ⟨rfl, rfl, ?_⟩
    intro hw; simp [hw]

/-- frame: sub/gsub change only their target variable, and only when something was replaced -/
theorem subst_frame (E : Env) (limit : Option Nat) (pat : Pat) (a1 : Val) (st : State σ) :
    (fnSubst E limit pat a1 st).2.rstart = st.rstart ∧ (fnSubst E limit pat a1 st).2.rlength = st.rlength ∧
    (fnSubst E limit pat a1 st).2.coll = st.coll ∧ (fnSubst E limit pat a1 st).2.rest = st.rest ∧
    ((fnSubst E limit pat a1 st).1 = .int 0 → (fnSubst E limit pat a1 st).2 = st) := by
  unfold fnSubst
  by_cases hb : st.target.isBytes = true
  · simp only [hb, if_true]
    generalize substitute (pat.regex E).b 92 38 (st.target.toBcs E) (a1.toBcs E) limit = res
    obtain ⟨out, cnt⟩ := res
    simp only
    by_cases hc : cnt > 0
    · simp only [hc, if_true, true_and, Val.int.injEq]
      intro h; omega
    · simp [hc]
  · simp only [hb, Bool.false_eq_true, if_false]
    generalize substitute (pat.regex E).c '\\' '&' (st.target.toStr E) (a1.toStr E) limit = res
    obtain ⟨out, cnt⟩ := res
    simp only
    by_cases hc : cnt > 0
    · simp only [hc, if_true, true_and, Val.int.injEq]
      intro h; omega
    · simp [hc]

/-- sub/gsub: the returned number is the count of `substitute` and the new target is its text, as a byte
    string when the target was a byte string/character and as a string otherwise -/
theorem subst_result (E : Env) (limit : Option Nat) (pat : Pat) (a1 : Val) (st : State σ) :
    if st.target.isBytes then
      (fnSubst E limit pat a1 st).1 = .int (substitute (pat.regex E).b 92 38 (st.target.toBcs E) (a1.toBcs E) limit).2 ∧
      ((substitute (pat.regex E).b 92 38 (st.target.toBcs E) (a1.toBcs E) limit).2 > 0 →
        (fnSubst E limit pat a1 st).2.target = .mbs (substitute (pat.regex E).b 92 38 (st.target.toBcs E) (a1.toBcs E) limit).1)
    else
      (fnSubst E limit pat a1 st).1 = .int (substitute (pat.regex E).c '\\' '&' (st.target.toStr E) (a1.toStr E) limit).2 ∧
      ((substitute (pat.regex E).c '\\' '&' (st.target.toStr E) (a1.toStr E) limit).2 > 0 →
        (fnSubst E limit pat a1 st).2.target = .str (substitute (pat.regex E).c '\\' '&' (st.target.toStr E) (a1.toStr E) limit).1) := by
  unfold fnSubst
  by_cases hb : st.target.isBytes = true
  · simp only [hb, if_true]
    generalize substitute (pat.regex E).b 92 38 (st.target.toBcs E) (a1.toBcs E) limit = res
    obtain ⟨out, cnt⟩ := res
    simp only [true_and]
    intro hc; simp [hc]
  · simp only [hb, Bool.false_eq_true, if_false]
    generalize substitute (pat.regex E).c '\\' '&' (st.target.toStr E) (a1.toStr E) limit = res
    obtain ⟨out, cnt⟩ := res
    simp only [true_and]
    intro hc; simp [hc]

/-- frame: split/splita change only the array variable; the return value is the number of pieces -/
theorem split_frame (E : Env) (useArray : Bool) (a0 : Val) (sep : Sep) (st st' : State σ) (r : Val)
    (h : fnSplit E useArray a0 sep st = some (r, st')) :
    st'.rstart = st.rstart ∧ st'.rlength = st.rlength ∧ st'.target = st.target ∧ st'.rest = st.rest ∧
    ∃ ps, splitPieces E a0 sep = some ps ∧ r = .int ps.length ∧
      st'.coll = (if useArray then .array (numberFrom 1 ps)
                  else .map ((numberFrom 1 ps).map fun (k, v) => (intRepr k, v))) := by
  unfold fnSplit at h
  cases hp : splitPieces E a0 sep with
  | none => simp [hp] at h
  | some ps =>
    simp only [hp, Option.some.injEq, Prod.mk.injEq] at h
    obtain ⟨h1, h2⟩ := h
    subst h2
    exact ⟨rfl, rfl, rfl, rfl, ps, rfl, h1.symm, rfl⟩

/-! ## length, tolower, toupper -/

/-- length(v) is the number of bytes of a byte value and the number of characters of the text of any other value -/
theorem length_spec (E : Env) (v : Val) :
    fnLength E v = if v.isBytes then .int (v.toBcs E).length else .int (v.toStr E).length := by
  cases v <;> simp [fnLength, Val.isBytes, Val.toBcs, Val.toStr]

theorem mapCase_length (f : α → α) (s : List α) : (mapCase f s).length = s.length := by
  simp [mapCase]

theorem mapCase_idempotent (f : α → α) (hf : ∀ c, f (f c) = f c) (s : List α) :
    mapCase f (mapCase f s) = mapCase f s := by
  simp [mapCase, hf]

/-- tolower/toupper keep the length (as measured by length()) and the byte/character kind -/
theorem case_preserves_length (E : Env) (upper : Bool) (v : Val) :
    fnLength E (fnCase E upper v) = fnLength E v ∧ (fnCase E upper v).isBytes = v.isBytes := by
  cases v <;> simp [fnCase, fnLength, mapCase, Val.isBytes, Val.toStr]

/-- tolower ∘ tolower = tolower (and likewise toupper) for an idempotent case map -/
theorem tolower_idempotent (E : Env) (upper : Bool)
    (hc : ∀ c, (if upper then E.upperC else E.lowerC) ((if upper then E.upperC else E.lowerC) c) = (if upper then E.upperC else E.lowerC) c)
    (hb : ∀ b, (if upper then E.upperB else E.lowerB) ((if upper then E.upperB else E.lowerB) b) = (if upper then E.upperB else E.lowerB) b)
    (v : Val) :
    fnCase E upper (fnCase E upper v) = fnCase E upper v := by
  cases v <;> simp [fnCase, mapCase, Val.toStr, hc, hb]

/-- substr keeps to the byte/character kind of its first argument and applies `substr` to its text with the
    numeric arguments truncated toward zero -/
theorem substr_kind (E : Env) (a0 a1 : Val) (a2 : Option Val) (r : Val) (h : fnSubstr E a0 a1 a2 = some r) :
    ∃ st ln, a1.toInt = some st ∧ optInt a2 = some ln ∧
      r = if a0.isBytes then .mbs (substr (a0.toBcs E) st ln) else .str (substr (a0.toStr E) st ln) := by
  unfold fnSubstr at h
  split at h
  · rename_i st ln h1 h2
    refine ⟨st, ln, h1, h2, ?_⟩
    split at h <;> simp_all
  · simp at h

/-- index/rindex compare bytes when the subject is a byte string/character and characters otherwise -/
theorem index_kind (E : Env) (rindex : Bool) (a0 a1 : Val) (a2 : Option Val) (r : Val)
    (h : fnIndex E rindex a0 a1 a2 = some r) :
    ∃ st, optInt a2 = some st ∧
      r = if a0.isBytes then .int (indexCore rindex (a0.toBcs E) (a1.toBcs E) st)
          else .int (indexCore rindex (a0.toStr E) (a1.toStr E) st) := by
  unfold fnIndex at h
  split at h
  · rename_i st h1
    refine ⟨st, h1, ?_⟩
    split at h <;> simp_all
  · simp at h

/-- fractional numeric arguments are truncated toward zero: 1.5 ↦ 1, 2.7 ↦ 2, -1.5 ↦ -1 -/
theorem toInt_truncates : (Val.flt 15 1).toInt = some 1 ∧ (Val.flt 27 1).toInt = some 2 ∧ (Val.flt (-15) 1).toInt = some (-1) := by
  decide

/-- non-vacuity of the matcher interface and an end-to-end instance: with the engine for a one-character
    pattern `c`, gsub replaces every occurrence of `c` by the expanded template, leaves all other
    characters, and returns the number of occurrences -/
theorem gsub_char (c bs amp : α) (s repl : List α) :
    substitute (charMatcher c) bs amp s repl none =
      (s.flatMap (fun x => if x = c then expand bs amp [c] repl else [x]), s.count c) := by
  unfold substitute
  rw [substLoop_char c bs amp s repl _ 0 none 0 [] rfl (Nat.zero_le _)]
  simp

/-- split in blank mode (separator " ", the default FS): every piece is non-empty and free of space
    characters, and the pieces in order are exactly the non-space characters of the string - i.e. the
    maximal runs of non-blanks, leading and trailing blanks stripped -/
theorem split_blank (isSp : α → Bool) (blank : α) (hb : isSp blank = true) (s : List α) :
    (∀ t ∈ splitChars isSp blank [blank] s, t ≠ [] ∧ ∀ x ∈ t, isSp x = false) ∧
    (splitChars isSp blank [blank] s).flatten = s.filter (fun x => !isSp x) := by
  have hstep : ∀ s, tokChars isSp blank [blank] s = tokSpaces isSp s := by
    intro s; simp only [tokChars, delimMode_blank isSp blank hb]
  exact piecesLoop_blank isSp (tokChars_dec isSp blank [blank]) hstep s.length s 0 rfl (Or.inl rfl)

/-- split(s, A, c) with a string subject and a one-character, non-blank separator value runs the
    single-character tokeniser on the characters (so `split_join` applies to what the builtin stores) -/
theorem split_dispatch_single_char (E : Env) (s : List Char) (c : Char) :
    splitPieces E (.str s) (.val (.str [c])) = some ((splitChars E.spaceC ' ' [c] s).map Val.str) ∧
    splitPieces E (.str s) (.val (.chr c)) = some ((splitChars E.spaceC ' ' [c] s).map Val.str) ∧
    splitPieces E (.str s) .fs = some ((splitChars E.spaceC ' ' [' '] s).map Val.str) := by
  refine ⟨?_, ?_, ?_⟩ <;> simp [splitPieces, Val.toStr, Val.isBytes]

/-! ## non-vacuity: the hypotheses above are satisfiable and the statements say what they should on concrete data -/

example : substr [1, 2, 3, 4, 5] 0 (some 2) = [1, 2] := by decide
example : substr [1, 2, 3, 4, 5] (-1) (some 3) = [1, 2, 3] := by decide
example : substr [1, 2, 3, 4, 5] 4 (some 9) = [4, 5] := by decide
example : substr [1, 2, 3, 4, 5] 2 none = [2, 3, 4, 5] := by decide
example : indexCore false [1, 2, 3, 2, 3] [2, 3] none = 2 := by decide
example : indexCore false [1, 2, 3, 2, 3] [2, 3] (some (-2)) = 4 := by decide
example : indexCore true [1, 2, 3, 2, 3] [2, 3] none = 4 := by decide
example : indexCore false ([] : List Nat) [] none = 1 := by decide
example : indexCore false [1, 2, 3] [] (some 4) = 4 := by decide
example : indexCore false [1, 2, 3] [] (some 5) = 0 := by decide
example : indexCore true ([] : List Nat) [] none = 0 := by decide
example : Occurs [2, 3] [1, 2, 3] 1 := ⟨by decide, by decide⟩

example : List.intercalate [0] (splitChars (fun x => x == 9) 9 [0] [1, 0, 0, 2]) = [1, 0, 0, 2] :=
  (split_join (fun x => x == 9) 9 0 (by decide) [1, 0, 0, 2] (by decide)).1
example : (splitChars (fun x => x == 9) 9 [0] [1, 0, 0, 2]).length = 3 :=
  (split_join (fun x => x == 9) 9 0 (by decide) [1, 0, 0, 2] (by decide)).2.1

example : (substitute (charMatcher 7) 92 38 [7, 1, 7, 7] [38, 38] none) = ([7, 7, 1, 7, 7, 7, 7], 3) := by
  have h : expand (92 : Nat) 38 [7] [38, 38] = [7, 7] := by
    rw [expand_amp _ _ _ (by decide), expand_amp _ _ _ (by decide)]; simp [expand]
  rw [gsub_char]
  simp [h]

example : expand 92 38 [7] [92, 92, 92, 38, 92, 92, 38, 92, 38, 38, 1, 92] = [92, 38, 92, 7, 38, 7, 1, 92] := by
  rw [expand_bs_bs_bs_amp, expand_bs_bs_amp _ _ _ (by decide), expand_bs_amp _ _ _ (by decide),
    expand_amp _ _ _ (by decide), expand_other _ _ _ 1 (by decide) (by decide),
    expand_bs_other _ _ _ (by decide) [] (by simp) (by simp) (by simp)]
  simp [expand]

/-- the ASCII byte case maps satisfy the idempotence hypothesis of `tolower_idempotent` -/
example : (∀ b, asciiLower (asciiLower b) = asciiLower b) ∧ (∀ b, asciiUpper (asciiUpper b) = asciiUpper b) :=
  ⟨asciiLower_idem, asciiUpper_idem⟩

/-- a matcher that never matches satisfies the interface law; sub/gsub then return the subject and 0 -/
example (s repl : List Nat) :
    substitute ⟨fun _ _ => none, by intro s k p l h; simp at h⟩ 92 38 s repl none = (s, 0) := by
  rw [gsub_leftmost_nonoverlapping, matchSeq_unfold]
  simp [belowLimit, render]

/-! ## the str:: functions of mod-str.c and the IGNORECASE variants -/

/-- str::normspace (hawk_compact_xchars) keeps exactly the non-space characters, in order -/
theorem compact_keeps_nonspace (isSp : α → Bool) (s : List α) :
    (compact isSp s).filter (fun x => !isSp x) = s.filter (fun x => !isSp x) := by
  unfold compact
  have hf := compactAux_filter isSp s false false
  cases hr : compactAux isSp false false s with
  | mk o f =>
    rw [hr] at hf
    simp only at hf ⊢
    cases f with
    | false => simpa using hf
    | true =>
      simp only [if_true]
      have := compactAux_flag isSp s false false (fun _ => rfl) (by rw [hr])
      rw [hr] at this
      rcases this with ⟨h1, h2⟩ | ⟨o', c, h1, h2⟩
      · simp at h2
      · simp only at h1
        subst h1
        rw [List.dropLast_concat]
        rw [← hf]
        simp [h2]

example : compact (fun x => x == 0) [0, 0, 1, 0, 0, 2, 3, 0] = [1, 0, 2, 3] := by decide
example : compact (fun x => x == 0 || x == 9) [9, 1, 9, 0, 2, 0] = [1, 9, 2] := by decide

/-- str::trim / ltrim / rtrim: the subject is (spaces) ++ result ++ (spaces), nothing but spaces is removed and
    only on the requested sides, and the result does not begin (left) / end (right) with a space -/
theorem trim_spec (isSp : α → Bool) (left right : Bool) (s : List α) :
    ∃ a b, s = a ++ trimChars isSp left right s ++ b ∧
      (∀ x ∈ a, isSp x = true) ∧ (∀ x ∈ b, isSp x = true) ∧
      (left = false → a = []) ∧ (right = false → b = []) ∧
      (left = true → ∀ x, (trimChars isSp left right s).head? = some x → isSp x = false) ∧
      (right = true → ∀ x, (trimChars isSp left right s).getLast? = some x → isSp x = false) := by
  cases left with
  | false =>
    cases right with
    | false => exact ⟨[], [], by simp [trimChars], by simp, by simp, by simp, by simp, by simp, by simp⟩
    | true =>
      obtain ⟨b, hb1, hb2⟩ := trimRight_append isSp s
      refine ⟨[], b, by simpa [trimChars] using hb1, by simp, hb2, by simp, by simp, by simp, ?_⟩
      intro _ x hx
      exact trimRight_last isSp s x (by simpa [trimChars] using hx)
  | true =>
    have ha := List.takeWhile_append_dropWhile (p := isSp) (l := s)
    have hmem : ∀ x ∈ s.takeWhile isSp, isSp x = true := mem_takeWhile_true isSp s
    have hhead : ∀ x, (s.dropWhile isSp).head? = some x → isSp x = false := by
      intro x hx
      cases hd : s.dropWhile isSp with
      | nil => rw [hd] at hx; simp at hx
      | cons a r =>
        rw [hd] at hx; simp only [List.head?_cons, Option.some.injEq] at hx; subst hx
        exact dropWhile_head_false isSp s a r hd
    cases right with
    | false =>
      refine ⟨s.takeWhile isSp, [], by simpa [trimChars] using ha.symm, hmem, by simp, by simp, by simp, ?_, by simp⟩
      intro _ x hx
      exact hhead x (by simpa [trimChars] using hx)
    | true =>
      obtain ⟨b, hb1, hb2⟩ := trimRight_append isSp (s.dropWhile isSp)
      refine ⟨s.takeWhile isSp, b, ?_, hmem, hb2, by simp, by simp, ?_, ?_⟩
      · simp only [trimChars, if_true]
        rw [List.append_assoc, ← hb1]; exact ha.symm
      · intro _ x hx
        simp only [trimChars, if_true] at hx
        -- the head of the right-trimmed list is the head of the list (it is a prefix) whenever it is non-empty
        cases ht : trimRight isSp (s.dropWhile isSp) with
        | nil => rw [ht] at hx; simp at hx
        | cons y r =>
          rw [ht] at hx; simp only [List.head?_cons, Option.some.injEq] at hx; subst hx
          apply hhead
          rw [hb1, ht]; simp
      · intro _ x hx
        exact trimRight_last isSp _ x (by simpa [trimChars] using hx)

example : trimChars (fun x => x == 0) true true [0, 0, 1, 0, 2, 0] = [1, 0, 2] := by decide
example : trimChars (fun x => x == 0) true false [0, 0, 1, 0, 2, 0] = [1, 0, 2, 0] := by decide
example : trimChars (fun x => x == 0) false true [0, 0, 1, 0, 2, 0] = [0, 0, 1, 0, 2] := by decide
example : trimChars (fun x => x == 0) true true [0, 0] = ([] : List Nat) := by decide

/-- str::subchar / str::tocharcode: a character is returned exactly for positions 1..length, and it is the
    character substr(s, pos, 1) consists of -/
theorem charAt_spec (s : List α) (pos : Int) :
    (∀ c, charAt s pos = some c ↔ (1 ≤ pos ∧ pos ≤ (s.length : Int) ∧ s[(pos - 1).toNat]? = some c)) ∧
    (1 ≤ pos → substr s pos (some 1) = (charAt s pos).toList) := by
  refine ⟨?_, ?_⟩
  · intro c
    unfold charAt
    simp only
    by_cases h : 0 ≤ pos - 1 ∧ pos - 1 < (s.length : Int)
    · rw [if_pos h]
      constructor
      · intro hc; exact ⟨by omega, by omega, hc⟩
      · intro hc; exact hc.2.2
    · rw [if_neg h]
      constructor
      · intro hc; simp at hc
      · intro ⟨h1, h2, _⟩; omega
  · intro hp
    rw [substr_in_range s pos 1 hp (by omega)]
    unfold charAt
    simp only
    by_cases h : 0 ≤ pos - 1 ∧ pos - 1 < (s.length : Int)
    · rw [if_pos h]
      have hlt : (pos - 1).toNat < s.length := by omega
      rw [List.getElem?_eq_getElem hlt]
      simp only [Option.toList_some]
      have : (1 : Int).toNat = 1 := rfl
      rw [this]
      rw [List.take_one]
      simp [List.head?_drop, List.getElem?_eq_getElem hlt]
    · rw [if_neg h]
      simp only [Option.toList_none]
      rw [List.drop_of_length_le (by omega)]
      simp

example : charAt [7, 8, 9] 2 = some 8 := by decide
example : charAt [7, 8, 9] 0 = none ∧ charAt [7, 8, 9] 4 = none := by decide

/-- the is* class tests: 1 exactly for a non-empty text all of whose characters are in the class -/
theorem isClass_spec (p : α → Bool) (s : List α) :
    isClass p s = true ↔ s ≠ [] ∧ ∀ x ∈ s, p x = true := by
  cases s <;> simp [isClass]

example : isClass (fun x => x < 5) [1, 2] = true ∧ isClass (fun x => x < 5) [1, 7] = false ∧
    isClass (fun x => x < 5) ([] : List Nat) = false := by decide

/-- index/rindex under IGNORECASE are the case-sensitive search on the folded subject and pattern (so every
    index theorem above holds "up to case"), and with the identity folding they are index/rindex themselves -/
theorem index_ignorecase (fold : α → α) (rindex : Bool) (s p : List α) (start : Option Int) :
    indexCoreIc fold rindex s p start = indexCore rindex (s.map fold) (p.map fold) start ∧
    indexCoreIc id rindex s p start = indexCore rindex s p start := by
  simp [indexCoreIc]

example : indexCoreIc (fun x => x % 10) false [11, 22, 33] [2, 13] none = 2 := by decide

/-- the case-folding tokeniser with the identity folding is the plain one (IGNORECASE only changes which
    characters count as the delimiter), and the empty subject still has no pieces -/
theorem split_ignorecase_id (isSp : α → Bool) (blank : α) (delim s : List α) :
    tokCharsIc isSp blank id delim s = tokChars isSp blank delim s ∧
    splitCharsIc isSp blank id delim [] = [] := by
  refine ⟨?_, ?_⟩
  · simp only [tokCharsIc, tokChars, tokNoSpacesIc, tokNoSpaces, tokCompositeIc, tokComposite, List.map_id, id]
  · have h : tokCharsIc isSp blank id delim [] = ([], none) := by
      simp only [tokCharsIc]
      cases delimMode isSp blank delim <;>
        simp [tokEmpty, tokSpaces, tokNoSpacesIc, tokCompositeIc, nextOrNull, trimRight]
    unfold splitCharsIc
    rw [piecesLoop_unfold, h]
    simp

example : splitCharsIc (fun x => x == 0) 0 (fun x => x % 10) [5] [1, 15, 2, 25, 3] = [[1], [2], [3]] := by
  unfold splitCharsIc
  rw [piecesLoop_unfold]; simp [tokCharsIc, delimMode, delimScan, tokNoSpacesIc]
  rw [piecesLoop_unfold]; simp [tokCharsIc, delimMode, delimScan, tokNoSpacesIc]
  rw [piecesLoop_unfold]; simp [tokCharsIc, delimMode, delimScan, tokNoSpacesIc]

variable {σ : Type}

/-- str::subchar and str::tocharcode pick the character at the position out of the bytes of a byte value and
    out of the characters of the text of any other value; nil outside -/
theorem subchar_spec (E : Env) (a0 a1 : Val) (r : Val) (h : fnSubchar E a0 a1 = some r) :
    ∃ pos, a1.toInt = some pos ∧
      r = (if a0.isBytes then (match charAt (a0.toBcs E) pos with | some b => Val.bchr b | none => Val.nil)
           else (match charAt (a0.toStr E) pos with | some c => Val.chr c | none => Val.nil)) := by
  unfold fnSubchar at h
  cases hp : a1.toInt with
  | none => simp [hp] at h
  | some pos =>
    simp only [hp] at h
    refine ⟨pos, rfl, ?_⟩
    split at h
    · rename_i hb; simp only [Option.some.injEq] at h; subst h; rw [if_pos hb]; rfl
    · rename_i hb; simp only [Option.some.injEq] at h; subst h; rw [if_neg hb]; rfl

example : fnSubchar toyEnv (.str ['a', 'b']) (.int 2) = some (.chr 'b') ∧
    fnSubchar toyEnv (.mbs [97, 98]) (.flt 15 1) = some (.bchr 97) ∧
    fnSubchar toyEnv (.str ['a', 'b']) (.int 3) = some .nil := by decide

/-- str::tocharcode of str::fromcharcode gives the codes back (two or more codes; valid 16-bit character codes) -/
theorem tocharcode_fromcharcode (E : Env) (codes : List Int) (h2 : 2 ≤ codes.length)
    (hv : ∀ c ∈ codes, validCharCode c = true) (i : Nat) (hi : i < codes.length) :
    ∃ v, fnFromcharcode (codes.map Val.int) = some v ∧
      fnTocharcode E v (some (.int (i + 1))) = some (.int codes[i]) := by
  have hall : allInts (codes.map Val.int) = some codes := by
    clear h2 hv hi
    induction codes with
    | nil => rfl
    | cons c r ih => simp [allInts, Val.toInt, ih]
  have hvalid : codes.all validCharCode = true := by
    rw [List.all_eq_true]; exact hv
  refine ⟨.str (codes.map fun c => Char.ofNat c.toNat), ?_, ?_⟩
  · unfold fnFromcharcode
    rw [hall]
    simp only [hvalid, if_true]
    match codes, h2 with
    | _ :: _ :: _, _ => rfl
  · have hc : validCharCode codes[i] = true := hv _ (List.getElem_mem hi)
    have hnat : (Char.ofNat codes[i].toNat).toNat = codes[i].toNat := by
      unfold validCharCode at hc
      simp only [decide_eq_true_eq] at hc
      have hvs : codes[i].toNat.isValidChar := by
        unfold Nat.isValidChar; omega
      simp [Char.ofNat, hvs, Char.ofNatAux, Char.toNat]
    have hnn : 0 ≤ codes[i] := by
      unfold validCharCode at hc
      simp only [decide_eq_true_eq] at hc
      omega
    simp only [fnTocharcode, optInt, Val.toInt, Option.map_some, Val.isBytes, Val.toStr, Option.getD_some,
      Bool.false_eq_true, if_false]
    have : charAt (codes.map fun c => Char.ofNat c.toNat) ((i : Int) + 1) = some (Char.ofNat codes[i].toNat) := by
      unfold charAt
      simp only [List.length_map]
      rw [if_pos (by omega)]
      have e : ((i : Int) + 1 - 1).toNat = i := by omega
      rw [e]
      simp [hi]
    rw [this]
    simp only [hnat]
    congr 2
    omega

example : ∃ v, fnFromcharcode [.int 72, .int 233] = some v ∧ fnTocharcode toyEnv v (some (.int 2)) = some (.int 233) := by
  have := tocharcode_fromcharcode toyEnv [72, 233] (by decide) (by decide) 1 (by decide)
  simpa using this

/-- str::tombs yields a byte string and str::frommbs a string for every kind of value; an unknown encoding name
    gives the empty result; a byte string / string passes through unchanged; and frommbs undoes tombs on any
    string the codec round-trips -/
theorem tombs_frommbs (E : Env) (v : Val) (s : List Char) (b : List UInt8) :
    (∃ x, fnTombs E v .absent = .mbs x) ∧ (∃ y, fnFrommbs E v .absent = .str y) ∧
    fnTombs E v .unknown = .mbs [] ∧ fnFrommbs E v .unknown = .str [] ∧
    fnTombs E v .utf8 = fnTombs E v .absent ∧ fnFrommbs E v .utf8 = fnFrommbs E v .absent ∧
    fnTombs E (.mbs b) .absent = .mbs b ∧ fnFrommbs E (.str s) .absent = .str s ∧
    (E.dec (E.enc s) = s → fnFrommbs E (fnTombs E (.str s) .absent) .absent = .str s) := by
  refine ⟨?_, ?_, by simp [fnTombs], by simp [fnFrommbs], by simp [fnTombs], by simp [fnFrommbs],
    by simp [fnTombs], by simp [fnFrommbs], ?_⟩
  · cases v <;> simp [fnTombs]
  · cases v <;> simp [fnFrommbs]
  · intro h; simp [fnTombs, fnFrommbs, Val.toBcs, Val.toStr, h]

example : fnFrommbs toyEnv (fnTombs toyEnv (.str ['a', 'b']) .absent) .absent = .str ['a', 'b'] :=
  (tombs_frommbs toyEnv .nil ['a', 'b'] []).2.2.2.2.2.2.2.2 (by decide)

/-- str::tonum returns a number as it is whatever the base says, nil as 0, and for a string kind the value of its
    sign-and-digits text in the base -/
theorem tonum_spec (E : Env) (base : Option Val) :
    (∀ i, fnTonum E (.int i) base = some (.int i)) ∧ (∀ m e, fnTonum E (.flt m e) base = some (.flt m e)) ∧
    fnTonum E .nil base = some (.int 0) ∧
    (∀ s bv, optInt base = some bv → 0 ≤ bv.getD 0 →
      fnTonum E (.str s) base = (simpleNum (bv.getD 0).toNat (s.map Char.toNat)).map Val.int) := by
  refine ⟨fun _ => rfl, fun _ _ => rfl, rfl, ?_⟩
  intro s bv hb h0
  simp only [fnTonum, hb, Val.isBytes, Val.toStr]
  rw [if_neg (by omega)]
  simp

example : fnTonum toyEnv (.str "ff".toList) (some (.int 16)) = some (.int 255) ∧
    fnTonum toyEnv (.str "-12".toList) none = some (.int (-12)) ∧
    fnTonum toyEnv (.mbs [49, 48, 49]) (some (.int 2)) = some (.int 5) ∧
    fnTonum toyEnv (.int 12) (some (.int 16)) = some (.int 12) := by decide

/-- str::trim/ltrim/rtrim/normspace keep to the byte/character kind of their argument and work on its text -/
theorem trim_kind (E : Env) (left right : Bool) (v : Val) :
    fnTrim E left right v = (if v.isBytes then .mbs (trimChars E.spaceB left right (v.toBcs E))
                             else .str (trimChars E.spaceC left right (v.toStr E))) ∧
    fnNormspace E v = (if v.isBytes then .mbs (compact E.spaceB (v.toBcs E)) else .str (compact E.spaceC (v.toStr E))) ∧
    fnTrimFlags E v none = some (fnTrim E true true v) ∧
    fnTrimFlags E v (some (.int 1)) = some (fnNormspace E v) ∧ fnTrimFlags E v (some (.int 0)) = some (fnTrim E true true v) := by
  refine ⟨rfl, rfl, rfl, ?_, ?_⟩ <;> simp [fnTrimFlags, optInt, Val.toInt]

example : fnTrim toyEnv true true (.str " a b ".toList) = .str "a b".toList ∧
    fnNormspace toyEnv (.mbs [32, 97, 32, 32, 98, 32]) = .mbs [97, 32, 98] := by decide

/-- the class tests answer 1/0 on the bytes of a byte value and on the characters of the text of any other -/
theorem isclass_kind (E : Env) (pc : Char → Bool) (pb : UInt8 → Bool) (v : Val) :
    fnIsClass E pc pb v = .int (if (if v.isBytes then isClass pb (v.toBcs E) else isClass pc (v.toStr E)) then 1 else 0) := by
  unfold fnIsClass
  split <;> rfl

example : fnIsClass toyEnv (fun c => c.isAlpha) (fun b => 97 ≤ b) (.str ['a', 'b']) = .int 1 ∧
    fnIsClass toyEnv (fun c => c.isAlpha) (fun b => 97 ≤ b) .nil = .int 0 := by decide

/-- str::frombcharcode: one code gives a byte character (REPAIR), otherwise a byte string of the codes -/
theorem frombcharcode_spec (a b : Nat) (ha : a < 256) (hb : b < 256) :
    fnFrombcharcode [.int a] = some (.bchr (UInt8.ofNat a)) ∧
    fnFrombcharcode [.int a, .int b] = some (.mbs [UInt8.ofNat a, UInt8.ofNat b]) ∧
    fnFrombcharcode [] = some (.mbs []) ∧ fnFromcharcode [] = some (.str []) := by
  refine ⟨?_, ?_, rfl, rfl⟩
  · simp [fnFrombcharcode, allInts, Val.toInt]; omega
  · simp [fnFrombcharcode, allInts, Val.toInt]; omega

example : fnFrombcharcode [.int 65] = some (.bchr 65) := by decide

/-- two-argument sub/gsub (target $0): the count and the new record are those of `substitute` on the record's
    characters (so `gsub_leftmost_nonoverlapping` and `sub_first_match` describe them), the record is left alone
    when nothing was replaced, and NF becomes the number of blank-separated fields of the resulting record
    (`split_blank` describes those).  Nothing else is returned, i.e. nothing else is written. -/
theorem subst0_spec (E : Env) (limit : Option Nat) (pat : Pat) (a1 : Val) (rec0 : List Char) :
    let r := substitute (pat.regex E).c '\\' '&' rec0 (a1.toStr E) limit
    (fnSubst0 E limit pat a1 rec0).1 = .int r.2 ∧
    (fnSubst0 E limit pat a1 rec0).2.1 = (if r.2 > 0 then r.1 else rec0) ∧
    (fnSubst0 E limit pat a1 rec0).2.2 = (splitChars E.spaceC ' ' [' '] (fnSubst0 E limit pat a1 rec0).2.1).length ∧
    (r.2 = 0 → (fnSubst0 E limit pat a1 rec0).2.1 = rec0) := by
  intro r
  unfold fnSubst0
  generalize hr : substitute (pat.regex E).c '\\' '&' rec0 (a1.toStr E) limit = res at r
  obtain ⟨out, cnt⟩ := res
  simp only [r, true_and]
  intro h; simp [h]

example : fnSubst0 toyEnv none (.rex ['x']) (.str ['y']) "a b".toList = (.int 0, "a b".toList, 2) := by
  have h := subst0_spec toyEnv none (.rex ['x']) (.str ['y']) "a b".toList
  have hs : substitute (Pat.regex toyEnv (.rex ['x'])).c '\\' '&' "a b".toList ((Val.str ['y']).toStr toyEnv) none
      = ("a b".toList, 0) := by
    rw [gsub_leftmost_nonoverlapping, matchSeq_unfold]
    simp [belowLimit, render, Pat.regex, toyEnv]
  simp only [hs] at h
  obtain ⟨h1, h2, h3, _⟩ := h
  have h2' : (fnSubst0 toyEnv none (.rex ['x']) (.str ['y']) "a b".toList).2.1 = "a b".toList := by simpa using h2
  rw [h2'] at h3
  have hn : (splitChars toyEnv.spaceC ' ' [' '] "a b".toList).length = 2 := by
    unfold splitChars
    rw [piecesLoop_unfold]; simp [tokChars, delimMode, delimScan, tokSpaces, nextOrNull, toyEnv]
    rw [piecesLoop_unfold]; simp [tokChars, delimMode, delimScan, tokSpaces, nextOrNull, toyEnv]
  ext <;> simp_all

end Hawk.StrFn
