import HawkModel.ReadIoLemmas
/-!
# C04 — records depend only on the input bytes, not on how they arrive

"The sequence of records, and the NR, FNR and FILENAME seen with each, produced from a given list of input files
is the same however the underlying reads are split into chunks and however short each read is, in every
record-separator mode; and the end of an input file always ends the current record."

Model: `HawkModel/ReadIo.lean` (`hawk_rtx_readio`, `match_long_rs`, console chain with the repair of
`patches/c04-console-file-end-ends-record.diff`).  Specification: `specRecord`/`specAll`/`specChain` in
`HawkModel/ReadIoLemmas.lean` — functions of the characters only.

* a *chunking* of a character sequence `s` is a `cs : Stream` with `cs.flatten = s` and no empty chunk (an empty
  chunk is the handler returning 0, i.e. end of input);
* newline / single character / paragraph mode: proved without hypotheses;
* regular expression mode: proved for `Stable` matchers only (`…_partial`); literal separators are stable;
  `ab(cd)?` is not, and for it the property is false of the model and of the code (known finding
  `regex-rs-unstable`).
-/
namespace Hawk.ReadIo

/-- no read returns 0 before the end of the input -/
def NoEmpty (cs : Stream) : Prop := ∀ c ∈ cs, c ≠ []

instance (cs : Stream) : Decidable (NoEmpty cs) := by unfold NoEmpty; infer_instance

theorem wf_init : WF {} := by intro h; cases h

theorem pending_init (cs : Stream) (hne : NoEmpty cs) : pending {} cs = cs.flatten := by
  simp [pending, delivered_of_noEmpty hne]

theorem modeOK_of_auto {mode : Mode} (hm : mode.isAuto) : ModeOK mode := by
  cases mode <;> simp_all [ModeOK, Mode.isAuto]

theorem modeProg_of_auto {mode : Mode} (hm : mode.isAuto) : ModeProg mode := by
  cases mode <;> simp_all [ModeProg, Mode.isAuto]

/-! ## one stream -/

/-- **Main result.** In newline, single-character and paragraph mode the records read from a stream are the records
of its characters, whatever the chunking. -/
theorem records_chunk_independent (mode : Mode) (hm : mode.isAuto) (cs : Stream) (hne : NoEmpty cs) :
    readAll mode {} cs = specAll mode cs.flatten := by
  rw [readAll_spec (modeOK_of_auto hm) _ {} cs rfl wf_init, pending_init cs hne]

/-- the same, stated without the specification: two chunkings of the same characters give the same records;
in particular every chunking agrees with the single read `[s]` -/
theorem records_same_for_all_chunkings (mode : Mode) (hm : mode.isAuto) (cs cs' : Stream)
    (hne : NoEmpty cs) (hne' : NoEmpty cs') (h : cs.flatten = cs'.flatten) :
    readAll mode {} cs = readAll mode {} cs' := by
  rw [records_chunk_independent mode hm cs hne, records_chunk_independent mode hm cs' hne', h]

/-- chunk independence holds from every state the reader can be in, not only at the start: what is returned by one
call is the first record of the characters still pending, and the rest stays pending -/
theorem readRecord_depends_on_pending_only (mode : Mode) (hm : mode.isAuto) (st : InState) (cs : Stream) (hwf : WF st) :
    (readRecord mode st cs).1 = (specRecord mode (pending st cs)).1 ∧
    pending (readRecord mode st cs).2.1 (readRecord mode st cs).2.2 = (specRecord mode (pending st cs)).2 ∧
    WF (readRecord mode st cs).2.1 :=
  readRecord_spec (modeOK_of_auto hm) st cs hwf

/-- every record consumes at least one character, so `specAll` is the plain iteration of `specRecord` (its guard,
and the guard of `readAll`, never fires in these modes) -/
theorem spec_unfolds (mode : Mode) (hm : mode.isAuto) (t : List Char) :
    specAll mode t =
      match (specRecord mode t).1 with
      | none => []
      | some r => r :: specAll mode (specRecord mode t).2 :=
  specAll_eq (modeProg_of_auto hm) t

/-- **Regex RS, partial.** Chunk independence for a regular-expression RS whose matcher is `Stable`.
Missing for the full property: matchers that are not stable — there the statement is false, see
`unstable_counterexample`. -/
theorem records_chunk_independent_regex_partial (m : Matcher) (hS : Stable m) (cs : Stream) (hne : NoEmpty cs) :
    readAll (.regex m) {} cs = specAll (.regex m) cs.flatten := by
  rw [readAll_spec (mode := .regex m) hS _ {} cs rfl wf_init, pending_init cs hne]

theorem records_same_for_all_chunkings_regex_partial (m : Matcher) (hS : Stable m) (cs cs' : Stream)
    (hne : NoEmpty cs) (hne' : NoEmpty cs') (h : cs.flatten = cs'.flatten) :
    readAll (.regex m) {} cs = readAll (.regex m) {} cs' := by
  rw [records_chunk_independent_regex_partial m hS cs hne, records_chunk_independent_regex_partial m hS cs' hne', h]

/-- a literal multi-character RS is stable (and makes progress), so it is covered -/
theorem stable_of_literal (w : List Char) : Stable (litMatcher w) := stable_litMatcher w

theorem progress_of_literal (w : List Char) (hw : w ≠ []) : Progress (litMatcher w) := progress_litMatcher hw

theorem records_chunk_independent_literal (w : List Char) (cs : Stream) (hne : NoEmpty cs) :
    readAll (.regex (litMatcher w)) {} cs = specAll (.regex (litMatcher w)) cs.flatten :=
  records_chunk_independent_regex_partial _ (stable_of_literal w) cs hne

/-- `ab(cd)?` is not stable: `abc` has the match `ab`, which ends before the end of the text, and appending `d`
changes it to `abcd` -/
theorem abcd_not_stable : ¬ Stable abcdMatcher := by
  intro h
  have := (h ['a', 'b', 'c'] ['d'] 0 2 (by decide)).mp (by decide)
  revert this
  decide

/-- **The property is false for RS = `ab(cd)?`** (of the model, and — replayed by the check through the chunking
console handler — of the code): the characters `xabcd` read as `xabc`,`d` give the records `x`,`cd`; read in one
piece they give the single record `x`. -/
theorem unstable_counterexample :
    ∃ cs cs' : Stream, NoEmpty cs ∧ NoEmpty cs' ∧ cs.flatten = cs'.flatten ∧
      readAll (.regex abcdMatcher) {} cs ≠ readAll (.regex abcdMatcher) {} cs' := by
  refine ⟨[['x', 'a', 'b', 'c'], ['d']], [['x', 'a', 'b', 'c', 'd']], by decide, by decide, by decide, ?_⟩
  have h1 : readAll (.regex abcdMatcher) {} [['x', 'a', 'b', 'c'], ['d']] = [['x'], ['c', 'd']] := by
    rw [readAll_cons_of (r := ['x']) (st' := ⟨['x', 'a', 'b', 'c'], 3, false⟩) (cs' := [['d']]) (by decide) (by decide)]
    rw [readAll_cons_of (r := ['c', 'd']) (st' := ⟨['d'], 1, true⟩) (cs' := []) (by decide) (by decide)]
    rw [readAll_nil_of (st' := ⟨['d'], 1, true⟩) (cs' := []) (by decide)]
  have h2 : readAll (.regex abcdMatcher) {} [['x', 'a', 'b', 'c', 'd']] = [['x']] := by
    rw [readAll_cons_of (r := ['x']) (st' := ⟨['x', 'a', 'b', 'c', 'd'], 5, true⟩) (cs' := []) (by decide) (by decide)]
    rw [readAll_nil_of (st' := ⟨['x', 'a', 'b', 'c', 'd'], 5, true⟩) (cs' := []) (by decide)]
  rw [h1, h2]
  decide

/-! ## the specification in plain terms -/

/-- **Single-character RS, declaratively**: no record contains RS, and writing the records back, each followed by RS,
reproduces the input (plus one RS at the very end if the input did not end with one): the records are the pieces
between the separators, and a final piece without terminator is a record iff it is not empty. -/
theorem spec_single_is_split (rs : Char) :
    ∀ (n : Nat) (t : List Char), t.length = n →
      (∀ r ∈ specAll (.single rs) t, rs ∉ r) ∧
      (specAll (.single rs) t).flatMap (· ++ [rs]) = terminated rs t := by
  intro n
  induction n using Nat.strongRecOn with
  | ind n ih =>
    intro t hn
    have hp : ModeProg (.single rs) := trivial
    rw [specAll_eq hp t]
    have hrun := runAuto_single_char rs t [] loc0
    simp only [specRecord]
    cases hr : runAuto (.single rs) ([], loc0) t with
    | found r rest =>
      rw [hr] at hrun
      obtain ⟨a, h1, h2, h3⟩ := hrun
      simp only [List.nil_append] at h3
      subst h3
      have hlen : rest.length < n := by rw [← hn, h1]; simp; omega
      obtain ⟨i1, i2⟩ := ih rest.length hlen rest rfl
      simp only
      refine ⟨?_, ?_⟩
      · intro x hx
        simp only [List.mem_cons] at hx
        rcases hx with hx | hx
        · subst hx; exact h2
        · exact i1 x hx
      · simp only [List.flatMap_cons, i2]
        unfold terminated
        subst h1
        by_cases hre : rest = []
        · subst hre; simp
        · have : (r ++ rs :: rest).getLast? = rest.getLast? := by
            rw [List.getLast?_append, List.getLast?_cons_of_ne_nil hre] 
            cases h : rest.getLast? with
            | none => simp [List.getLast?_eq_none_iff] at h; exact absurd h hre
            | some x => simp
          simp [hre, this]
          split <;> simp
    | more s =>
      obtain ⟨r, l⟩ := s
      rw [hr] at hrun
      obtain ⟨h1, h2⟩ := hrun
      simp only [List.nil_append] at h2
      subst h2
      simp only
      by_cases hre : r = []
      · subst hre
        simp [terminated]
      · simp only [hre, if_false]
        have : specAll (.single rs) [] = [] := by
          rw [specAll_eq hp]; simp [specRecord, runAuto]
        rw [this]
        refine ⟨by intro x hx; simp at hx; subst hx; exact h1, ?_⟩
        have hl : r.getLast? ≠ some rs := by
          intro h
          exact h1 (List.mem_of_getLast? h)
        simp [terminated, hre, hl]

/-- **Newline mode, declaratively**: the records are the lines (pieces between newlines, a final piece without
newline being a record iff it is not empty), and every line that *was* terminated by a newline has one CR before
that newline removed. A final line without newline keeps its CR. -/
theorem spec_newline_is_lines_with_cr_stripped :
    ∀ (n : Nat) (t : List Char), t.length = n →
      specAll .dflt t =
        if t = [] ∨ t.getLast? = some '\n' then (specAll (.single '\n') t).map stripCR
        else (specAll (.single '\n') t).dropLast.map stripCR ++ (specAll (.single '\n') t).getLast?.toList := by
  intro n
  induction n using Nat.strongRecOn with
  | ind n ih =>
    intro t hn
    have hp : ModeProg (.single '\n') := trivial
    have hp' : ModeProg .dflt := trivial
    rw [specAll_eq hp t, specAll_eq hp' t]
    have hrun := runAuto_single_char '\n' t [] loc0
    have hrel := runAuto_dflt_vs_single t [] '\x00' 0 (by simp)
    have e0 : (([], loc0) : AState) = ([], ⟨'\x00', 0⟩) := rfl
    simp only [specRecord]
    rw [e0]
    cases hr : runAuto (.single '\n') ([], ⟨'\x00', 0⟩) t with
    | found r rest =>
      rw [e0, hr] at hrun
      rw [hr] at hrel
      simp only at hrel
      rw [hrel]
      obtain ⟨a, h1, h2, h3⟩ := hrun
      simp only [List.nil_append] at h3
      subst h3
      have hlen : rest.length < n := by rw [← hn, h1]; simp; omega
      have i1 := ih rest.length hlen rest rfl
      simp only
      rw [i1]
      subst h1
      by_cases hre : rest = []
      · subst hre
        have : specAll (.single '\n') [] = [] := by rw [specAll_eq hp]; simp [specRecord, runAuto]
        simp [this]
      · have hl : (r ++ '\n' :: rest).getLast? = rest.getLast? := by
          rw [List.getLast?_append, List.getLast?_cons_of_ne_nil hre]
          cases h : rest.getLast? with
          | none => simp [List.getLast?_eq_none_iff] at h; exact absurd h hre
          | some x => simp
        have hS := specAll_single_ne_nil '\n' rest hre
        simp only [hre, false_or, hl, List.append_eq_nil_iff, and_false, reduceCtorEq]
        by_cases hc : rest.getLast? = some '\n'
        · simp [hc]
        · simp only [hc, if_false]
          rw [List.dropLast_cons_of_ne_nil hS, List.getLast?_cons_of_ne_nil hS]
          simp
    | more s =>
      obtain ⟨r, l⟩ := s
      rw [e0, hr] at hrun
      rw [hr] at hrel
      simp only at hrel
      rw [hrel]
      obtain ⟨h1, h2⟩ := hrun
      simp only [List.nil_append] at h2
      subst h2
      simp only
      by_cases hre : r = []
      · subst hre; simp
      · have : specAll (.single '\n') [] = [] := by rw [specAll_eq hp]; simp [specRecord, runAuto]
        have this' : specAll .dflt [] = [] := by rw [specAll_eq hp']; simp [specRecord, runAuto]
        have hl : r.getLast? ≠ some '\n' := fun h => h1 (List.mem_of_getLast? h)
        simp [hre, this, this', hl]

/-! ## several files -/

/-- **The console chain.** For every list of files and every chunking of each, the program sees exactly: the records of
the first file (each file split on its own characters), with NR counting on, FNR restarting at 1 and FILENAME the
file's name; then those of the second file; and so on. -/
theorem console_records_eq_spec (mode : Mode) (hm : mode.isAuto) (f : String × Stream) (fs : List (String × Stream)) :
    runConsole mode (openConsole [] (f :: fs)) = specChain mode 0 (fileChars (f :: fs)) := by
  obtain ⟨name, cs⟩ := f
  rw [runConsole_spec (modeOK_of_auto hm) (modeProg_of_auto hm) _ _ rfl rfl wf_init]
  simp [openConsole, specRest, fileChars, specChain, pending, delivered]

/-- with no file argument the records of standard input are seen, FILENAME empty -/
theorem console_stdin_eq_spec (mode : Mode) (hm : mode.isAuto) (stdin : Stream) :
    runConsole mode (openConsole stdin []) = number 0 0 "" (specAll mode (delivered stdin)) := by
  rw [runConsole_spec (modeOK_of_auto hm) (modeProg_of_auto hm) _ _ rfl rfl wf_init]
  simp [openConsole, specRest, fileChars, specChain, pending]

/-- the same for a stable, progressing regex RS -/
theorem console_records_eq_spec_regex_partial (m : Matcher) (hS : Stable m) (hP : Progress m)
    (f : String × Stream) (fs : List (String × Stream)) :
    runConsole (.regex m) (openConsole [] (f :: fs)) = specChain (.regex m) 0 (fileChars (f :: fs)) := by
  obtain ⟨name, cs⟩ := f
  rw [runConsole_spec (mode := .regex m) hS hP _ _ rfl rfl wf_init]
  simp [openConsole, specRest, fileChars, specChain, pending, delivered]

/-- NR shifted by `k` -/
def shiftNr (k : Nat) (s : Seen) : Seen := { s with nr := s.nr + k }

theorem number_shift (k nr fnr : Nat) (name : String) (rs : List Record) :
    number (nr + k) fnr name rs = (number nr fnr name rs).map (shiftNr k) := by
  induction rs generalizing nr fnr with
  | nil => rfl
  | cons r rs ih =>
    simp only [number, List.map_cons, shiftNr]
    rw [← ih]
    simp [Nat.add_right_comm]

theorem specChain_shift (mode : Mode) (k nr : Nat) (fs : List (String × List Char)) :
    specChain mode (nr + k) fs = (specChain mode nr fs).map (shiftNr k) := by
  induction fs generalizing nr with
  | nil => rfl
  | cons f fs ih =>
    obtain ⟨name, s⟩ := f
    simp only [specChain, List.map_append]
    rw [number_shift, ← ih]
    simp [Nat.add_right_comm]

/-- **The end of an input file ends the current record**: what is seen from `f :: fs` is what is seen from `f` alone
followed by what is seen from `fs` alone (NR shifted by the number of records of `f`): no record, FNR or FILENAME of
a later file depends on how the earlier file ended, with or without a trailing separator. -/
theorem file_end_ends_record (mode : Mode) (hm : mode.isAuto) (f g : String × Stream) (fs : List (String × Stream)) :
    runConsole mode (openConsole [] (f :: g :: fs)) =
      runConsole mode (openConsole [] [f]) ++
        (runConsole mode (openConsole [] (g :: fs))).map (shiftNr (runConsole mode (openConsole [] [f])).length) := by
  rw [console_records_eq_spec mode hm f (g :: fs), console_records_eq_spec mode hm f [],
    console_records_eq_spec mode hm g fs]
  obtain ⟨name, cs⟩ := f
  simp only [fileChars, List.map_cons, List.map_nil, specChain, List.append_nil, number_length, Nat.zero_add,
    List.map_append]
  rw [← number_shift, ← specChain_shift]
  simp [Nat.add_comm]

/-- every record the program sees lies within one file: it is one of the records of the file FILENAME names -/
theorem record_within_one_file (mode : Mode) (nr : Nat) (files : List (String × List Char)) :
    ∀ s ∈ specChain mode nr files, ∃ f ∈ files, s.filename = f.1 ∧ s.rb ∈ specAll mode f.2 := by
  induction files generalizing nr with
  | nil => intro s hs; simp [specChain] at hs
  | cons f fs ih =>
    obtain ⟨name, t⟩ := f
    intro s hs
    simp only [specChain, List.mem_append] at hs
    rcases hs with hs | hs
    · refine ⟨(name, t), by simp, ?_⟩
      have : ∀ (rs : List Record) (nr fnr : Nat), s ∈ number nr fnr name rs → s.filename = name ∧ s.rb ∈ rs := by
        intro rs
        induction rs with
        | nil => intro nr fnr h; simp [number] at h
        | cons r rs ih2 =>
          intro nr fnr h
          simp only [number, List.mem_cons] at h
          rcases h with h | h
          · subst h; simp
          · obtain ⟨a, b⟩ := ih2 _ _ h
            exact ⟨a, by simp [b]⟩
      exact this _ _ _ hs
    · obtain ⟨f, hf, h⟩ := ih _ s hs
      exact ⟨f, by simp [hf], h⟩

/-! ## statements that abandon a stream in mid-buffer: `nextfile` -/

/-- **`nextfile` drops the rest of the file, whatever of it had already been read into the buffer**: after it the program
sees exactly the records of the next file (split on its own characters, FNR from 1, NR going on) and of the files after
it — nothing that the read buffer or the handler still held of the abandoned file. -/
theorem nextfile_drops_rest_of_file (mode : Mode) (hm : mode.isAuto) (con : Console) (name : String) (cs : Stream)
    (fs : List (String × Stream)) (he : con.eos = false) (hf : con.files = (name, cs) :: fs) :
    ∃ c2, nextFile con = some c2 ∧
      runConsole mode c2 =
        number con.nr 0 name (specAll mode (delivered cs)) ++
          specChain mode (con.nr + (specAll mode (delivered cs)).length) (fileChars fs) := by
  refine ⟨{ con with st := { buf := [], pos := 0, eof := false }, cur := cs, files := fs, fnr := 0, filename := name },
    (by simp [nextFile, he, hf]), ?_⟩
  rw [runConsole_spec (modeOK_of_auto hm) (modeProg_of_auto hm) _ _ rfl
    (show ({ con with st := { buf := [], pos := 0, eof := false }, cur := cs, files := fs, fnr := 0, filename := name } : Console).eos = false
      from he) (by intro h; cases h)]
  simp [specRest, pending_fresh]

/-- with no further file `nextfile` ends the input (the main loop stops, END runs) -/
theorem nextfile_without_further_file (con : Console) (hf : con.files = []) : nextFile con = none := by
  simp [nextFile, hf]

/-- **A program that uses `nextfile` (at any records it likes) sees the same records for every chunking of every file.** -/
theorem script_chunk_independent (mode : Mode) (hm : mode.isAuto) (nf : Seen → Bool)
    (f g : String × Stream) (fs gs : List (String × Stream)) (h : fileChars (f :: fs) = fileChars (g :: gs)) :
    runScript mode nf (openConsole [] (f :: fs)) = runScript mode nf (openConsole [] (g :: gs)) := by
  obtain ⟨n1, c1⟩ := f
  obtain ⟨n2, c2⟩ := g
  simp only [fileChars, List.map_cons, List.cons.injEq, Prod.mk.injEq] at h
  obtain ⟨⟨hn, hd⟩, hr⟩ := h
  apply runScript_view (modeOK_of_auto hm) nf _ _ _ rfl wf_init wf_init
  simp [Console.view, openConsole, pending, hd, hn, fileChars, hr]

/-- the same from any two reader states holding the same characters (in the buffer, in the handler, in the files to come) -/
theorem script_depends_on_characters_only (mode : Mode) (hm : mode.isAuto) (nf : Seen → Bool) (c1 c2 : Console)
    (w1 : WF c1.st) (w2 : WF c2.st) (hv : c1.view = c2.view) : runScript mode nf c1 = runScript mode nf c2 :=
  runScript_view (modeOK_of_auto hm) nf _ c1 c2 rfl w1 w2 hv

/-- regex RS: the same under `Stable` (missing: unstable matchers, see `unstable_counterexample`) -/
theorem script_chunk_independent_regex_partial (m : Matcher) (hS : Stable m) (nf : Seen → Bool) (c1 c2 : Console)
    (w1 : WF c1.st) (w2 : WF c2.st) (hv : c1.view = c2.view) :
    runScript (.regex m) nf c1 = runScript (.regex m) nf c2 :=
  runScript_view (mode := .regex m) hS nf _ c1 c2 rfl w1 w2 hv

/-- non-vacuity: one read has put all of `a\nb\nc\n` into the buffer; after the first record `nextfile` is executed; the next
record is `d` of f2 with FNR 1 — `b` and `c`, though buffered, are not seen -/
example :
    let c0 := openConsole [] [("f1", [['a', '\n', 'b', '\n', 'c', '\n']]), ("f2", [['d', '\n']])]
    let c1 := (readRecordConsole .dflt c0).2
    (pending c1.st c1.cur = ['b', '\n', 'c', '\n']) ∧
    ((nextFile c1).map fun c2 => ((readRecordConsole .dflt c2).1, (readRecordConsole .dflt c2).2.nr,
      (readRecordConsole .dflt c2).2.fnr, (readRecordConsole .dflt c2).2.filename)) = some (some ['d'], 2, 1, "f2") := by
  decide

/-- non-vacuity of the view hypothesis: two different chunkings are two consoles with the same view -/
example : (openConsole [] [("f1", [['a', '\n'], ['b']]), ("f2", [['c']])]).view =
    (openConsole [] [("f1", [['a'], ['\n', 'b']]), ("f2", [['c']])]).view := by
  simp [Console.view, openConsole, pending, delivered, fileChars]

/-! ## non-vacuity and concrete readings -/

/-- the hypotheses of the regex theorems are satisfiable by a matcher that does find separators -/
example : Stable (litMatcher ['a', 'b']) ∧ Progress (litMatcher ['a', 'b']) ∧
    litMatcher ['a', 'b'] ['x', 'a', 'b', 'y'] = some (1, 2) :=
  ⟨stable_of_literal _, progress_of_literal _ (by decide), by decide⟩

/-- CR LF split across two reads: the CR that arrived with the first read is dropped from the record buffer -/
example : readRecord .dflt {} [['a', '\r'], ['\n', 'b']] = (some ['a'], ⟨['\n', 'b'], 1, false⟩, []) := by decide

/-- paragraph mode: leading newlines skipped, the blank-line run ends the record, CR before NL dropped -/
example : (readRecord (.para false) {} [['\n', 'a', '\r'], ['\n', 'b', '\n'], ['\n', '\n', 'c']]).1 = some ['a', '\n', 'b'] := by
  decide

/-- the repaired chain on the files of the reproducer: `a2` ends with its file -/
example : (readRecordConsole .dflt
    (readRecordConsole .dflt (openConsole [] [("f1", [['a', '1', '\n', 'a', '2']]), ("f2", [['b', '1', '\n']])])).2).1
    = some ['a', '2'] := by decide

/-- what the unrepaired std.c handler did (it opened the next file inside one READ, so `rio.c` saw one stream):
for f1 = `a1\na2`, f2 = `b1\n` the second record was `a2b1` -/
theorem unrepaired_chain_joins_records :
    unrepairedRecords .dflt [("f1", [['a', '1', '\n', 'a', '2']]), ("f2", [['b', '1', '\n']])] =
      [['a', '1'], ['a', '2', 'b', '1']] := by
  unfold unrepairedRecords
  rw [records_chunk_independent .dflt rfl _ (by decide)]
  rw [specAll_cons_of (r := ['a', '1']) (rest := ['a', '2', 'b', '1', '\n']) (by decide) (by decide)]
  rw [specAll_cons_of (r := ['a', '2', 'b', '1']) (rest := []) (by decide) (by decide)]
  rw [specAll_nil_of (rest := []) (by decide)]

/-! ## RS / FS, CONVFMT and IGNORECASE assigned in any order: the separator in force is the one fixed at the last assignment

Model: `set_separator` (run.c, with `patches/c04-rs-fs-text-fixed-at-assignment.diff`), `resolve_rs` / `resolve_brs`
and the dispatch of `hawk_rtx_readio` / `hawk_rtx_readiobytes`, `split_record`'s `how`.  `ok` (which texts
`hawk_rtx_buildrex` accepts) and the conversion of values to texts (`Val.text`, `Val.btext`: any functions of CONVFMT)
are arbitrary. -/

/-- **The way of reading is the one fixed at the last RS assignment** (and the way of splitting the one fixed at the
last FS assignment): after every history of assignments to RS, FS, CONVFMT and IGNORECASE - values of any type, any
CONVFMT texts, failing assignments included - the character reader, the byte reader and `split_record` go by the
text the value had under the CONVFMT *of the assignment*, whatever CONVFMT is now; and when that text calls for a
regular expression it is the one compiled from that very text. -/
theorem mode_fixed_at_last_assignment (ok : List Char → Bool) (ops : List SepOp) :
    selRead (env0.run ok ops) =
      specSel (sepText (last0.run ok ops).rs) (env0.run ok ops).ignorecase (sepText (last0.run ok ops).rs) ∧
    selReadBytes (env0.run ok ops) =
      specSel (sepText (last0.run ok ops).rs) (env0.run ok ops).ignorecase (sepBText (last0.run ok ops).rs) ∧
    howSplit (env0.run ok ops) = specHow (env0.run ok ops).ignorecase (sepText (last0.run ok ops).fs) := by
  obtain ⟨_, h2, h3⟩ := tracks_run ok ops env0 last0 tracks_init
  generalize env0.run ok ops = e at *
  generalize last0.run ok ops = l at *
  refine ⟨?_, ?_, ?_⟩
  · unfold selRead
    rw [h2]
    have : (sepOf false l.rs).text = sepText l.rs := by unfold sepOf sepText; split <;> rfl
    rw [this]
    apply selOfText_sepOf
    intro x y r hx
    unfold sepText at hx
    split at hx
    · cases hx
    · rename_i hn
      simp only [Option.some.injEq] at hx
      exact ⟨by simpa using hn, by simp [isRexText, hx]⟩
  · unfold selReadBytes
    rw [h2]
    have : (sepOf false l.rs).btext = sepBText l.rs := by unfold sepOf sepBText; split <;> rfl
    rw [this]
    apply selOfText_sepOf
    intro x y r hx
    unfold sepBText at hx
    split at hx
    · cases hx
    · rename_i hn
      simp only [Option.some.injEq] at hx
      exact ⟨by simpa using hn, by simp [isRexText, hx]⟩
  · unfold howSplit
    rw [h3]
    by_cases hn : l.fs.1.isNil = true
    · simp [sepOf, sepText, hn, howOfText, specHow]
    · have e1 : (sepOf true l.fs).text = some (l.fs.1.text l.fs.2) := by simp [sepOf, hn]
      have e2 : (sepOf true l.fs).rex =
          if isRexText true (l.fs.1.text l.fs.2) (l.fs.1.btext l.fs.2) then some (l.fs.1.text l.fs.2) else none := by
        simp [sepOf, hn]
      have e3 : sepText l.fs = some (l.fs.1.text l.fs.2) := by simp [sepText, hn]
      rw [e1, e2, e3]
      generalize l.fs.1.text l.fs.2 = t
      generalize l.fs.1.btext l.fs.2 = b
      simp only [howOfText, specHow]
      by_cases h5 : t.length = 5 ∧ t.head? = some '?'
      · rw [if_pos h5, if_pos h5]
      · rw [if_neg h5, if_neg h5]
        by_cases h1 : t.length ≤ 1
        · rw [if_pos h1, if_pos h1]
        · rw [if_neg h1, if_neg h1]
          have hr : isRexText true t b = true := by
            unfold isRexText
            have hgt : t.length > 1 := by omega
            by_cases h5a : t.length = 5
            · have : t.head? ≠ some '?' := fun h => h5 ⟨h5a, h⟩
              simp [h5a, this]
            · simp [hgt, h5a]
          simp [hr]

/-- **The regex mode is only entered with a compiled regular expression**: no history makes a reader or the splitter
call the matcher with `rtx->gbl.rs[..]` / `fs[..]` null, and the expression used is the one compiled from the text
that selected the mode. -/
theorem regex_mode_only_with_compiled_regex (ok : List Char → Bool) (ops : List SepOp) :
    selRead (env0.run ok ops) ≠ .crash ∧ selReadBytes (env0.run ok ops) ≠ .crash ∧ howSplit (env0.run ok ops) ≠ .crash ∧
    (∀ src ic, selRead (env0.run ok ops) = .regex src ic →
      (env0.run ok ops).rs.rex = some src ∧ (env0.run ok ops).rs.text = some src) := by
  obtain ⟨h1, h2, h3⟩ := mode_fixed_at_last_assignment ok ops
  have nc : ∀ {α : Type} (s : Option (List Char)) (ic : Bool) (t : Option (List α)), specSel s ic t ≠ .crash := by
    intro α s ic t
    match t with
    | none => simp [specSel]
    | some [] => simp [specSel]
    | some [_] => simp [specSel]
    | some (_ :: _ :: _) => simp [specSel]
  refine ⟨by rw [h1]; exact nc _ _ _, by rw [h2]; exact nc _ _ _, ?_, ?_⟩
  · rw [h3]
    unfold specHow
    split
    · simp
    · split
      · simp
      · split <;> simp
  · intro src ic hsel
    obtain ⟨_, t2, _⟩ := tracks_run ok ops env0 last0 tracks_init
    have hr := selOfText_regex _ _ _ _ _ hsel
    refine ⟨hr, ?_⟩
    rw [t2] at hr ⊢
    exact sepOf_rex _ _ _ hr

/-- **Records after any history do not depend on the chunking** (newline, paragraph and single-character ways of
reading): whatever was assigned to RS, FS, CONVFMT and IGNORECASE in whatever order, if the text fixed at the last RS
assignment has at most one character (or RS is nil) the reader has a mode, it is not the regex mode, and two chunkings
of the same characters give the same records. -/
theorem records_after_any_history_chunk_independent (ok : List Char → Bool) (mk : List Char → Bool → Matcher) (crlf : Bool)
    (ops : List SepOp) (hlen : ∀ t, sepText (last0.run ok ops).rs = some t → t.length ≤ 1) :
    ∃ mode, (selRead (env0.run ok ops)).toMode mk crlf = some mode ∧ mode.isAuto = true ∧
      ∀ cs cs' : Stream, NoEmpty cs → NoEmpty cs' → cs.flatten = cs'.flatten → readAll mode {} cs = readAll mode {} cs' := by
  obtain ⟨h1, _, _⟩ := mode_fixed_at_last_assignment ok ops
  rw [h1]
  generalize sepText (last0.run ok ops).rs = tx at *
  match tx, hlen with
  | none, _ => exact ⟨.dflt, rfl, rfl, fun cs cs' a b c => records_same_for_all_chunkings _ rfl cs cs' a b c⟩
  | some [], _ => exact ⟨.para crlf, rfl, rfl, fun cs cs' a b c => records_same_for_all_chunkings _ rfl cs cs' a b c⟩
  | some [ch], _ => exact ⟨.single ch, rfl, rfl, fun cs cs' a b c => records_same_for_all_chunkings _ rfl cs cs' a b c⟩
  | some (x :: y :: r), hlen => have := hlen _ rfl; simp at this

/-- the same with a regex RS whose matchers are `Stable` (missing: unstable matchers, see `unstable_counterexample`):
after every history the reader has a mode - it never meets a null regular expression - and the records do not depend
on the chunking -/
theorem records_after_any_history_regex_partial (ok : List Char → Bool) (mk : List Char → Bool → Matcher) (crlf : Bool)
    (hS : ∀ src ic, Stable (mk src ic)) (ops : List SepOp) :
    ∃ mode, (selRead (env0.run ok ops)).toMode mk crlf = some mode ∧
      ∀ cs cs' : Stream, NoEmpty cs → NoEmpty cs' → cs.flatten = cs'.flatten → readAll mode {} cs = readAll mode {} cs' := by
  obtain ⟨h1, _, _⟩ := mode_fixed_at_last_assignment ok ops
  rw [h1]
  generalize sepText (last0.run ok ops).rs = tx
  match tx with
  | none => exact ⟨.dflt, rfl, fun cs cs' a b c => records_same_for_all_chunkings _ rfl cs cs' a b c⟩
  | some [] => exact ⟨.para crlf, rfl, fun cs cs' a b c => records_same_for_all_chunkings _ rfl cs cs' a b c⟩
  | some [ch] => exact ⟨.single ch, rfl, fun cs cs' a b c => records_same_for_all_chunkings _ rfl cs cs' a b c⟩
  | some (x :: y :: r) =>
    exact ⟨.regex (mk (x :: y :: r) _), rfl, fun cs cs' a b c => records_same_for_all_chunkings_regex_partial _ (hS _ _) cs cs' a b c⟩

/-- the float 2.5 as far as its text goes: `2` under CONVFMT `%d`, `2.5` otherwise -/
def flt25 : Val :=
  ⟨false, fun f => if f = ['%', 'd'] then ['2'] else ['2', '.', '5'], fun f => if f = ['%', 'd'] then [50] else [50, 46, 53]⟩

/-- `BEGIN { CONVFMT = "%d"; RS = 2.5; CONVFMT = "%.6g"; getline x < "FILE" }` -/
def crashHistory : List SepOp := [.convfmt ['%', 'd'], .setRS flt25, .convfmt defaultFmt]

/-- **The unrepaired readers entered the regex mode without a regular expression** (a null pointer dereference in
`match_long_rs`, reproduced by the check on the unchanged tree): the assignment saw the one-character text `2` and
compiled nothing, the read saw `2.5`.  The repaired reader splits at `2`.  The FS twin: `split_record` met a null
`fs`, or split by the text of the day with the expression compiled at the assignment. -/
theorem unrepaired_reader_enters_regex_mode_without_regex :
    selReadUnrepaired (env0.run (fun _ => true) crashHistory) = .crash ∧
    selReadBytesUnrepaired (env0.run (fun _ => true) crashHistory) = .crash ∧
    selRead (env0.run (fun _ => true) crashHistory) = .single '2' ∧
    howSplitUnrepaired (env0.run (fun _ => true) [.convfmt ['%', 'd'], .setFS flt25, .convfmt defaultFmt]) = .crash ∧
    howSplit (env0.run (fun _ => true) [.convfmt ['%', 'd'], .setFS flt25, .convfmt defaultFmt]) = .chars ['2'] ∧
    howSplitUnrepaired (env0.run (fun _ => true) [.setFS flt25, .convfmt ['%', 'd']]) = .chars ['2'] ∧
    howSplit (env0.run (fun _ => true) [.setFS flt25, .convfmt ['%', 'd']]) = .rex ['2', '.', '5'] false := by
  refine ⟨by decide, by decide, by decide, by decide, by decide, by decide, by decide⟩

/-- non-vacuity: histories after which the reader is in each of its modes; a rejected expression changes nothing; a
single character of two bytes is a regular expression for the byte reader -/
example :
    selRead (env0.run (fun _ => true) []) = .dflt ∧
    selRead (env0.run (fun _ => true) [.setRS (strVal []), .convfmt ['%', 'd']]) = .para ∧
    selRead (env0.run (fun _ => true) [.setRS (strVal ['a', 'b']), .ignorecase true, .sameRS]) = .regex ['a', 'b'] true ∧
    selRead (env0.run (fun t => t != ['a', '(']) [.setRS (strVal ['x']), .setRS (strVal ['a', '('])]) = .single 'x' ∧
    selRead (env0.run (fun _ => true) [.setRS (strVal ['x']), .setRS nilVal]) = .dflt ∧
    selReadBytes (env0.run (fun _ => true) [.setRS ⟨false, fun _ => ['é'], fun _ => [195, 169]⟩]) = .regex ['é'] false ∧
    selRead (env0.run (fun _ => true) [.setRS ⟨false, fun _ => ['é'], fun _ => [195, 169]⟩]) = .single 'é' := by
  refine ⟨by decide, by decide, by decide, by decide, by decide, by decide, by decide⟩

end Hawk.ReadIo
