import HawkModel.SedLemmas
import HawkModel.SedParseLemmas
import HawkModel.SedPrint
import HawkModel.SedParseProgress
import HawkModel.SedParseNoInternal
/-!
  C18 — theorems about the reference executor `Hawk.Sed.exec` (HawkModel/Sed.lean), which the
  correspondence check ties to lib/sed.c (hawk-sed CLI) and to GNU `sed --posix`.
  Every theorem quantifies over ALL matchers (the regex engine is a parameter), all states, all inputs.
-/
namespace Hawk.Sed.C18
open Hawk.Sed

/-! ## address ranges -/

/-- `range_spec`: for every kind of second address and every sequence of evaluations (line number, does addr1
    match, does addr2 match, is it the last line) the a1_matched state machine transcribed from `match_address`
    selects exactly the lines of the POSIX ranges (`rangeSpec`: a range opens at a line matching addr1 while closed;
    it is that single line if addr2 is a line number ≤ the current line or `$` on the last line; otherwise it runs
    through the first LATER evaluation matching addr2 — or stops, unselected, at a later evaluation that has passed
    a line-number addr2 —; never closed = extends to the end). -/
theorem range_spec (k : A2Kind) (obs : List RangeObs) :
    rangeRun k false obs = rangeSpec k obs := by
  induction h : obs.length using Nat.strongRecOn generalizing obs with
  | _ n ih =>
    cases obs with
    | nil => simp [rangeRun, rangeSpec]
    | cons o rest =>
      rw [rangeSpec]
      simp only [rangeRun, rangeStep]
      by_cases h1 : o.m1 = true
      · by_cases h2 : oneLine k o = true
        · simp [h1, h2]
          exact ih rest.length (by simp at h; omega) rest rfl
        · simp [h1, h2]
          rw [rangeRun_open]
          congr 1
          exact ih _ (by have := takeBody_length k rest; simp at h; omega) _ rfl
      · simp [h1]
        exact ih rest.length (by simp at h; omega) rest rfl

/-- addr2 is looked at from the NEXT evaluation on: on the opening line only addr1 (and the one-line rule) counts -/
theorem range_open_ignores_addr2 (k : A2Kind) (o : RangeObs) (rest : List RangeObs) (b : Bool) :
    rangeRun k false ({ o with m2 := b } :: rest) = rangeRun k false (o :: rest) := by
  simp [rangeRun, rangeStep, oneLine]

/-- a range that is never closed extends to the end of the input -/
theorem range_extends_to_end (k : A2Kind) (rest : List RangeObs)
    (h : ∀ o ∈ rest, o.m2 = false ∧ passed k o = false) :
    rangeRun k true rest = rest.map fun _ => true := by
  induction rest with
  | nil => simp [rangeRun]
  | cons o r ih =>
    have ho := h o (by simp)
    simp [rangeRun, rangeStep, ho.1, ho.2]
    exact ih fun x hx => h x (by simp [hx])

/-- addr2 a line number ≤ the line on which addr1 matches: exactly that one line, and the range is closed again -/
theorem range_one_line (n : Nat) (o : RangeObs) (h1 : o.m1 = true) (hn : n ≤ o.lineno) :
    rangeStep (.line n) false o = (false, true, true) := by
  simp [rangeStep, h1, oneLine, hn]

/-- while closed, a line not matching addr1 is not selected and leaves the range closed -/
theorem range_closed_stays (k : A2Kind) (o : RangeObs) (h1 : o.m1 = false) :
    rangeStep k false o = (false, false, false) := by
  simp [rangeStep, h1]

/-- the executor's `matchAddress` IS this machine: for a two-address command it evaluates (lazily, as the C does)
    addr2 when the range is open and addr1 when it is closed, and moves `rstate[pc]` / selects / sets c_ready
    exactly as `rangeStep` says -/
theorem matchAddress_is_rangeStep (m : Matcher) (c : Cmd) (pc : Nat) (st st' : St) (sel cr : Bool)
    (h1 : c.a1 ≠ .none) (h2 : c.a2 ≠ .none)
    (h : matchAddress m c pc st = some (st', sel, cr)) :
    ∃ st1 b, matchA m (if st.rstate.getD pc false then c.a2 else c.a1) st = some (st1, b) ∧
      let r := rangeStep c.a2.kind (st.rstate.getD pc false) ⟨st.lineno, b, b, st.input.isEmpty⟩
      st'.rstate = st1.rstate.set pc r.1 ∧ sel = r.2.1 ∧ cr = r.2.2 := by
  unfold matchAddress at h
  simp only [h1, h2, if_false] at h
  split at h
  · cases h
  · rename_i st1 b hm
    refine ⟨st1, b, hm, ?_⟩
    cases h
    simp

/-- `range_spec` end to end: run `sed -n 'addr1,addr2 p'` (any two addresses: line numbers, `$`, non-empty regexes; any
    matcher) on ANY input of newline-terminated lines: the output is exactly the lines of the POSIX ranges
    `rangeSpec`, computed from which lines satisfy addr1 / addr2 — whatever fuel ≥ 2 per cycle and size cap -/
theorem range_print_spec (m : Matcher) (a1 a2 : Addr) (h1 : a1 ≠ .none) (h2 : a2 ≠ .none) (p1 : a1.plain) (p2 : a2.plain)
    (cap fuel : Nat) (input : List Str) (hl : ∀ l ∈ input, endsNl l = true) :
    (exec m [{ a1 := a1, a2 := a2, neg := false, op := .print }] true cap (fuel + 2) input).out =
      selectLines input (rangeSpec a2.kind (obsOf m a1 a2 0 input)) := by
  have := range_print_loop m a1 a2 h1 h2 p1 p2 cap fuel input
    (initSt [{ a1 := a1, a2 := a2, neg := false, op := .print }] input) false input.length
    rfl (by simp [initSt]) rfl (Or.inl rfl) hl (Nat.le_refl _)
  rw [← range_spec]
  simpa [exec, initSt] using this

/-! ## hold-space algebra (on `execCmd`, i.e. for every state, matcher, -n setting) -/

/-- `x;x` is the identity -/
theorem xchg_xchg (m : Matcher) (q cr : Bool) (st : St) :
    execCmd m q .xchg cr (execCmd m q .xchg cr st).1 = (st, .next) := by
  simp [execCmd]

/-- `h;g` leaves the pattern space unchanged (and the hold space equal to it) -/
theorem hold_get (m : Matcher) (q cr : Bool) (st : St) :
    (execCmd m q .get cr (execCmd m q .hold cr st).1).1 = { st with hold := st.ps } := by
  simp [execCmd]

/-- `g;h` leaves the hold space unchanged (and the pattern space equal to it) -/
theorem get_hold (m : Matcher) (q cr : Bool) (st : St) :
    (execCmd m q .hold cr (execCmd m q .get cr st).1).1 = { st with ps := st.hold } := by
  simp [execCmd]

/-- `G` appends newline + hold space to the pattern space: in POSIX terms (buffers without their terminator)
    `ps' = ps ++ "\n" ++ hold`; the hold space is unchanged -/
theorem getAppend_spec (m : Matcher) (q cr : Bool) (st : St) (hh : endsNl st.hold = true) :
    let st' := (execCmd m q .getAppend cr st).1
    body st'.ps = body st.ps ++ '\n' :: body st.hold ∧ st'.hold = st.hold ∧ endsNl st'.ps = true := by
  have hps : termin st.ps = body st.ps ++ ['\n'] := by
    unfold termin body
    by_cases h : endsNl st.ps = true
    · simp [h]; exact (dropLast_of_last (by simpa [endsNl] using h)).symm
    · simp [h]
  have hend : endsNl (termin st.ps ++ st.hold) = true := endsNl_append _ _ hh
  simp only [execCmd]
  refine ⟨?_, by simp, hend⟩
  unfold body at *
  simp only [hend, if_true]
  rw [hps]
  have : st.hold = (if endsNl st.hold then st.hold.dropLast else st.hold) ++ ['\n'] := by
    simp [hh]; exact (dropLast_of_last (by simpa [endsNl] using hh)).symm
  generalize hb : (if endsNl st.hold then st.hold.dropLast else st.hold) = bh at this ⊢
  rw [this]
  simp [List.dropLast_cons_of_ne_nil]

/-- `H` appends newline + pattern space to the hold space; the pattern space is unchanged -/
theorem holdAppend_spec (m : Matcher) (q cr : Bool) (st : St) (hp : endsNl st.ps = true) :
    let st' := (execCmd m q .holdAppend cr st).1
    body st'.hold = body st.hold ++ '\n' :: body st.ps ∧ st'.ps = st.ps ∧ endsNl st'.hold = true := by
  have hps : termin st.hold = body st.hold ++ ['\n'] := by
    unfold termin body
    by_cases h : endsNl st.hold = true
    · simp [h]; exact (dropLast_of_last (by simpa [endsNl] using h)).symm
    · simp [h]
  have hend : endsNl (termin st.hold ++ st.ps) = true := endsNl_append _ _ hp
  simp only [execCmd]
  refine ⟨?_, by simp, hend⟩
  unfold body at *
  simp only [hend, if_true]
  rw [hps]
  have : st.ps = (if endsNl st.ps then st.ps.dropLast else st.ps) ++ ['\n'] := by
    simp [hp]; exact (dropLast_of_last (by simpa [endsNl] using hp)).symm
  generalize hb : (if endsNl st.ps then st.ps.dropLast else st.ps) = bh at this ⊢
  rw [this]
  simp [List.dropLast_cons_of_ne_nil]

/-- on ordinary (newline-terminated) buffers G and H are the plain concatenations the C code performs -/
theorem getAppend_terminated (m : Matcher) (q cr : Bool) (st : St) (hp : endsNl st.ps = true) :
    (execCmd m q .getAppend cr st).1.ps = st.ps ++ st.hold := by
  simp [execCmd, termin, hp]

/-! ## frame lemmas -/

/-- only h, H and x write the hold space -/
theorem hold_frame (m : Matcher) (q cr : Bool) (op : Op) (st : St)
    (h1 : op ≠ .hold) (h2 : op ≠ .holdAppend) (h3 : op ≠ .xchg) :
    (execCmd m q op cr st).1.hold = st.hold := by
  cases op <;> simp_all [execCmd, emitOutput, writeFile]
  all_goals (repeat' split) <;> simp_all

/-- `-n` matters to no command except `n` (whose autoprint it suppresses) -/
theorem quiet_frame (m : Matcher) (cr : Bool) (op : Op) (st : St) (h : op ≠ .next) :
    execCmd m true op cr st = execCmd m false op cr st := by
  cases op <;> simp_all [execCmd, emitOutput]

/-- `-n` only suppresses the autoprint: the end-of-cycle output under -n is the output of a cycle whose pattern
    space is not printed; the append queue is flushed all the same -/
theorem quiet_only_autoprint (st : St) :
    emitOutput true st false = emitOutput false st true ∧
    (emitOutput true st false).appq = [] ∧
    (emitOutput true st false).out = st.appq.foldl emit st.out := by
  simp [emitOutput]

/-- end of cycle on newline-terminated data: the pattern space, then the queued `a` texts in order -/
theorem end_of_cycle_output (st : St) (ho : st.out = [] ∨ endsNl st.out = true) (hp : endsNl st.ps = true)
    (ha : ∀ t ∈ st.appq, endsNl t = true) :
    (emitOutput false st false).out = st.out ++ st.ps ++ st.appq.flatten ∧ (emitOutput false st false).appq = [] := by
  simp only [emitOutput, Bool.not_false, Bool.and_self, if_true, and_true]
  rw [emit_terminated _ _ ho]
  have hgen : ∀ (l : List Str) (o : Str), endsNl o = true → (∀ t ∈ l, endsNl t = true) →
      l.foldl emit o = o ++ l.flatten := by
    intro l
    induction l with
    | nil => simp
    | cons t r ih =>
      intro o ho hl
      simp only [List.foldl_cons, List.flatten_cons]
      rw [emit_terminated _ _ (Or.inr ho), ih _ (endsNl_append _ _ (hl t (by simp))) (fun x hx => hl x (by simp [hx]))]
      simp
  rw [hgen _ _ (endsNl_append _ _ hp) ha]

/-- `y` maps the line body character by character and keeps the terminator: the length never changes -/
theorem trans_length (pairs : List (Char × Char)) (ps : Str) : (doTrans pairs ps).length = ps.length := by
  have := congrArg List.length (trimLine_append ps)
  simp [doTrans] at *
  omega

/-! ## substitution -/

/-- `subst_occurrence`: for every matcher, regex, replacement, flags and pattern space, `do_subst` produces the
    declarative replacement over the non-overlapping leftmost match sequence `matchSeq` of the line body (the line
    terminator is kept): the gaps are copied, exactly the occurrences chosen by the flags are replaced by the expanded
    replacement (`&`, `\1`..`\9`) — the N-th one only (`selOcc N k ↔ k = N`), or every one with `g`
    (`selOcc 0 k`) —, and the returned flag (which sets the `t` flag) says whether a chosen occurrence exists. -/
theorem subst_occurrence (m : Matcher) (re rpl : Str) (g : Bool) (occ : Nat) (ps : Str) :
    doSubst m re rpl g occ ps =
      (render (trimLine ps).1 rpl (selOcc (if g then 0 else occ)) 0 1 (matchSeq m re (trimLine ps).1 0 none) ++ (trimLine ps).2,
       anyFrom (if g then 0 else occ) 1 (matchSeq m re (trimLine ps).1 0 none).length) := by
  simp [doSubst, substLoop_spec]

/-- `subst_occurrence` end to end: `sed 's/re/rpl/flags'` (non-empty regex, any matcher) on ANY input of terminated lines
    writes, line by line, the substituted pattern spaces — which `subst_occurrence` characterises declaratively -/
theorem subst_script_spec (m : Matcher) (re rpl : Str) (g : Bool) (occ : Nat) (hre : re ≠ []) (cap fuel : Nat)
    (input : List Str) (hl : ∀ l ∈ input, endsNl l = true) :
    (exec m [{ op := .subst re rpl g occ false none }] false cap (fuel + 2) input).out =
      (input.map fun l => (doSubst m re rpl g occ l).1).flatten := by
  have := subst_script_loop m re rpl g occ hre cap fuel input
    (initSt [{ op := .subst re rpl g occ false none }] input) input.length rfl rfl (Or.inl rfl) hl (Nat.le_refl _)
  simpa [exec, initSt] using this

/-- a replacement happens iff the wanted occurrence exists: with g at least one match, with N at least N matches -/
theorem subst_replaced_iff (m : Matcher) (re rpl : Str) (g : Bool) (occ : Nat) (ps : Str) (hocc : 1 ≤ occ) :
    (doSubst m re rpl g occ ps).2 = true ↔
      (if g then 1 else occ) ≤ (matchSeq m re (trimLine ps).1 0 none).length := by
  rw [subst_occurrence]
  simp only [anyFrom_iff, selOcc_iff]
  cases g
  · simp only [Bool.false_eq_true, if_false]
    constructor
    · rintro ⟨j, h1, h2, h3⟩; omega
    · intro h; exact ⟨occ, hocc, by omega, Or.inr rfl⟩
  · simp only [if_true]
    constructor
    · rintro ⟨j, h1, h2, _⟩; omega
    · intro h; exact ⟨1, Nat.le_refl _, by omega, by simp⟩

/-- no match: the pattern space is unchanged and nothing is reported as replaced -/
theorem subst_no_match (m : Matcher) (re rpl : Str) (g : Bool) (occ : Nat) (ps : Str)
    (h : matchSeq m re (trimLine ps).1 0 none = []) : doSubst m re rpl g occ ps = (ps, false) := by
  rw [subst_occurrence, h]
  simp [render, anyFrom, trimLine_append]

/-- the text outside the matches is never touched: with nothing chosen the rendering is the identity -/
theorem render_identity (s rpl : Str) (m : Matcher) (re : Str) :
    render s rpl (fun _ => false) 0 1 (matchSeq m re s 0 none) = s := by
  have := render_none s rpl (fun _ => false) 0 1 _ (matchSeq_chain m re s 0 none) (fun _ _ => rfl)
  simpa using this

/-- the match sequence is what POSIX asks for: inside the subject, left to right, non-overlapping -/
theorem matchSeq_ordered (m : Matcher) (re s : Str) : Chain s 0 (matchSeq m re s 0 none) :=
  matchSeq_chain m re s 0 none

/-- an empty regex in `s` means the last regex used at run time (by an address or an `s`): same effect as writing it out -/
theorem subst_empty_regex_reuses_last (m : Matcher) (q cr : Bool) (rex rpl : Str) (g : Bool) (occ : Nat) (p : Bool)
    (w : Option Str) (st : St) (hl : st.lastRe = some rex) (hne : rex ≠ []) :
    execCmd m q (.subst [] rpl g occ p w) cr st = execCmd m q (.subst rex rpl g occ p w) cr st := by
  simp [execCmd, hl, hne]

/-- ... and with no previous regex it is a run-time error (HAWK_SED_ENPREX), the state is left alone -/
theorem subst_empty_regex_no_previous (m : Matcher) (q cr : Bool) (rpl : Str) (g : Bool) (occ : Nat) (p : Bool)
    (w : Option Str) (st : St) (hl : st.lastRe = none) :
    execCmd m q (.subst [] rpl g occ p w) cr st = (st, .fail) := by
  simp [execCmd, hl]

/-- a non-empty regex used by an address or an `s` becomes the last regex -/
theorem last_regex_recorded (m : Matcher) (p : Str) (st st' : St) (b : Bool) (hne : p ≠ [])
    (h : matchA m (.re p) st = some (st', b)) : st'.lastRe = some p := by
  simp [matchA, hne] at h
  rw [← h.1]

/-! ### the `t` flag -/

/-- every command moves the flag exactly as its event says (`s` sets it iff it replaced something; reading a line
    with n / N and taking a `t` branch clear it; nothing else touches it) -/
theorem flag_step (m : Matcher) (q cr : Bool) (op : Op) (st : St) :
    (execCmd m q op cr st).1.substDone = flagStep st.substDone (flagEvent m op st) := by
  cases op <;> simp [execCmd, flagEvent, flagStep, emitOutput, writeFile]
  all_goals (try (repeat' split) <;> simp_all)

/-- the flag `t` tests is set iff a replacement happened since the last input line was read or the last `t`
    was taken: going back through the history, a successful `s` is met before any reset -/
theorem flag_spec (evs : List FlagEv) (f0 : Bool) :
    evs.foldl flagStep f0 = sinceLast evs.reverse f0 := by
  induction evs generalizing f0 with
  | nil => simp [sinceLast]
  | cons e r ih => simp [ih, sinceLast_snoc]

/-- a new cycle starts with the flag cleared (read_line clears subst_done) — see `execLoop`: the state handed to
    `cycleRun` has `substDone := false`; stated here for the first cycle -/
theorem flag_initial (prog : Prog) (input : List Str) : (initSt prog input).substDone = false := rfl

/-! ## end-of-input rules of n, N, D -/

/-- `N` with no next line (POSIX): the pending `a` texts are written, the pattern space is NOT printed
    (it is dropped) and the script ends -/
theorem nextAppend_at_eof (m : Matcher) (q cr : Bool) (st : St) (h : st.input = []) :
    execCmd m q .nextAppend cr st =
      ({ st with out := st.appq.foldl emit st.out, appq := [], ps := [] }, .over) := by
  simp [execCmd, emitOutput, h]

/-- `N` with a next line: pending appends are written, the line is appended to the pattern space, the line number
    advances, the `t` flag is cleared and execution continues with the next command -/
theorem nextAppend_reads (m : Matcher) (q cr : Bool) (st : St) (l : Str) (r : List Str) (h : st.input = l :: r) :
    execCmd m q .nextAppend cr st =
      ({ st with out := st.appq.foldl emit st.out, appq := [], input := r, ps := st.ps ++ l,
                 lineno := st.lineno + 1, substDone := false }, .next) := by
  simp [execCmd, emitOutput, h]

/-- `n` with no next line: the pattern space is printed once (unless -n), the appends follow, the script ends with an
    empty pattern space (so the end-of-cycle autoprint adds nothing) -/
theorem next_at_eof (m : Matcher) (q cr : Bool) (st : St) (h : st.input = []) :
    execCmd m q .next cr st =
      ({ st with out := st.appq.foldl emit (if q then st.out else emit st.out st.ps), appq := [], ps := [] }, .over) := by
  cases q <;> simp [execCmd, emitOutput, h]

/-- `D` on a pattern space without an embedded newline acts like `d` (in the C's representation: the only newline
    is the line terminator at the very end, or there is none) -/
theorem deleteFirst_like_delete (m : Matcher) (q cr : Bool) (st : St)
    (h : afterFirstNl st.ps = none ∨ afterFirstNl st.ps = some []) :
    execCmd m q .deleteFirst cr st = execCmd m q .delete cr st := by
  rcases h with h | h <;> simp [execCmd, h]

/-- `D` otherwise removes the first line and restarts the script without reading input -/
theorem deleteFirst_restarts (m : Matcher) (q cr : Bool) (st : St) (rest : Str)
    (h : afterFirstNl st.ps = some rest) (hne : rest ≠ []) :
    execCmd m q .deleteFirst cr st = ({ st with ps := rest }, .again) := by
  simp [execCmd, h, hne]

/-! ## text queues and q -/

/-- `i` writes at once, `a` queues: a command changes the output / the queue only as follows -/
theorem insert_append_effect (m : Matcher) (q cr : Bool) (t : Str) (st : St) :
    execCmd m q (.insert t) cr st = ({ st with out := emit st.out t }, .next) ∧
    execCmd m q (.append t) cr st = ({ st with appq := st.appq ++ [t] }, .next) := by
  simp [execCmd]

/-- `r file` queues the content of the file behind what is queued already, exactly as `a` queues its text -/
theorem readFile_effect (m : Matcher) (q cr : Bool) (f : Str) (c : Option Str) (st : St) :
    execCmd m q (.readFile f c) cr st = execCmd m q (.append (c.getD [])) cr st := by
  simp [execCmd]

/-- ... and a file that cannot be opened is silently nothing: the flush writes what it would write without it -/
theorem readFile_missing (m : Matcher) (q cr skip : Bool) (f : Str) (st : St) :
    emitOutput q (execCmd m q (.readFile f none) cr st).1 skip = emitOutput q st skip := by
  have h0 : ∀ o : Str, emit o [] = o := fun o => by simp [emit]
  simp [execCmd, emitOutput, List.foldl_append, h0]

/-- `c`: the text is written (even under -n) on a complete selection — one address, the end of a range, or a negated
    command — and not in the middle of a range; the pattern space is deleted and the cycle ends without autoprint text -/
theorem change_effect (m : Matcher) (q cr : Bool) (t : Str) (st : St) :
    execCmd m q (.change t) cr st =
      ({ st with out := if cr then emit st.out t else st.out, ps := [] }, .over) := by
  cases cr <;> simp [execCmd]

/-- `q` with pending appends: `$!N`-free two-command script `a text; q` on any input whose first line is terminated:
    the first line is printed, then the queued text, then sed stops (exit status ok), for every fuel ≥ 3 -/
theorem quit_prints_then_appends (m : Matcher) (cap fuel : Nat) (t l : Str) (rest : List Str)
    (hl : endsNl l = true) :
    let r := exec m [{ op := .append t }, { op := .quit }] false cap (fuel + 3) (l :: rest)
    r.out = emit l t ∧ r.status = .ok := by
  simp [exec, execLoop, initSt, cycleRun, matchAddress, execCmd, emitOutput, finish, emit_nil_out, wfilesOf, initFiles]
  split <;> simp

/-! ## totality -/

/-- `exec_total`: with fuel, execution always returns: a normal end, a run-time error (empty regex with no previous
    regex), or an explicit out-of-fuel report.  (True by construction: `exec` is a total Lean function, structurally
    recursive on the fuel and on the cycle budget; this theorem only names the three outcomes.) -/
theorem exec_total (m : Matcher) (prog : Prog) (q : Bool) (cap fuel : Nat) (input : List Str) :
    (exec m prog q cap fuel input).status = .ok ∨ (exec m prog q cap fuel input).status = .error ∨
    (exec m prog q cap fuel input).status = .outOfFuel := by
  cases (exec m prog q cap fuel input).status <;> simp

/-- scripts from source are rejected at compile time or executed -/
theorem run_total (m : Matcher) (src : List SCmd) (q : Bool) (cap fuel : Nat) (input : List Str) :
    (∃ e, run m src q cap fuel input = .error e ∧ compile src = .error e) ∨
    (∃ prog, compile src = .ok prog ∧ run m src q cap fuel input = .ok (exec m prog q cap fuel input)) := by
  unfold run
  cases h : compile src with
  | error e => exact Or.inl ⟨e, rfl, rfl⟩
  | ok prog => exact Or.inr ⟨prog, rfl, rfl⟩

/-- scripts without backward branches (every b/t jumps forward, no D) never run out of fuel once the fuel per
    cycle exceeds the script length — whatever the input, the matcher and the size cap -/
theorem forward_never_out_of_fuel (m : Matcher) (prog : Prog) (q : Bool) (cap fuel : Nat) (input : List Str)
    (hf : forwardOnly prog) (hfuel : prog.length < fuel) :
    (exec m prog q cap fuel input).status ≠ .outOfFuel :=
  execLoop_forward m prog q cap fuel hf hfuel _ _

/-- the cycle budget of `execLoop` (an artefact of structural recursion) never cuts an execution short:
    every cycle consumes at least one input line, so any budget ≥ the number of remaining lines gives the same result -/
theorem budget_irrelevant (m : Matcher) (prog : Prog) (q : Bool) (cap fuel : Nat) :
    ∀ (b : Nat) (st : St), st.input.length ≤ b →
      execLoop m prog q cap fuel (b + 1) st = execLoop m prog q cap fuel b st := by
  intro b
  induction b with
  | zero =>
    intro st h
    have : st.input = [] := by simpa using h
    simp [execLoop, this]
  | succ b ih =>
    intro st h
    rw [execLoop, execLoop]
    split
    · rfl
    · rename_i l rest hin
      simp only
      split
      · rename_i st2 hc
        apply ih
        have := cycleRun_input_le m prog q cap fuel 0
          { st with input := rest, ps := l, lineno := st.lineno + 1, substDone := false }
        rw [hc] at this
        simp [CycleEnd.st] at this
        rw [emitOutput_input]
        rw [hin] at h
        simp at h
        omega
      · rfl
      · rfl
      · rfl

/-! ## non-vacuity: the hypotheses above are satisfiable, the machine does something -/

/-- `2,3p` evaluated on lines 1..4: lines 2 and 3 -/
example : rangeRun (.line 3) false
    [⟨1, false, false, false⟩, ⟨2, true, false, false⟩, ⟨3, false, true, false⟩, ⟨4, false, false, true⟩]
    = [false, true, true, false] := by decide

/-- `2,3p` when line 3 is swallowed by N (evaluations on lines 1, 2, 4): line 2 only, the range closes unselected -/
example : rangeRun (.line 3) false
    [⟨1, false, false, false⟩, ⟨2, true, false, false⟩, ⟨4, false, false, true⟩] = [false, true, false] := by decide

/-- the end-to-end statement on a concrete script: `sed -n '2,3p'` prints lines 2 and 3 of a four-line input
    (for every matcher, fuel and cap) -/
example (m : Matcher) (cap fuel : Nat) :
    (exec m [{ a1 := .line 2, a2 := .line 3, neg := false, op := .print }] true cap (fuel + 2)
      [['a', '\n'], ['b', '\n'], ['c', '\n'], ['d', '\n']]).out = ['b', '\n', 'c', '\n'] := by
  rw [range_print_spec m (.line 2) (.line 3) (by simp) (by simp) (by simp [Addr.plain]) (by simp [Addr.plain]) cap fuel _
    (by simp [endsNl]), ← range_spec]
  simp [obsOf, addrHolds, rangeRun, rangeStep, oneLine, passed, Addr.kind, selectLines]

/-- `3,1p`: one line -/
example : rangeRun (.line 1) false [⟨3, true, false, false⟩, ⟨4, false, false, true⟩] = [true, false] := by decide

/-- a forward-only script with a forward branch exists (hypothesis of `forward_never_out_of_fuel`) -/
example : forwardOnly [{ op := .print }, { op := .branch 3 }, { op := .delete }, { op := .noop }] := by
  intro i c h
  match i, h with
  | 0, h => cases h; simp
  | 1, h => cases h; simp
  | 2, h => cases h; simp
  | 3, h => cases h; simp
  | n + 4, h => simp at h

/-- ... and a script with a backward branch really can run out of fuel (`:a;ba`) -/
example : (exec (fun _ _ _ => none) [{ op := .noop }, { op := .branch 0 }] false 100 5 [['a', '\n']]).status = .outOfFuel := by
  decide

/-- G on a one-line input: "a\n\n" (hold space starts as the empty line) -/
example : (exec (fun _ _ _ => none) [{ op := .getAppend }] false 100 5 [['a', '\n']]).out = ['a', '\n', '\n'] := by
  decide

/-- `a` and `r` share one queue, flushed in order after the line: a X / r file(R) / a Y on one line -/
example : (exec (fun _ _ _ => none)
    [{ op := .append ['X', '\n'] }, { op := .readFile ['f'] (some ['R', '\n']) }, { op := .readFile ['g'] none },
     { op := .append ['Y', '\n'] }] false 100 9 [['a', '\n']]).out = ['a', '\n', 'X', '\n', 'R', '\n', 'Y', '\n'] := by
  decide

/-- `$!N` then print: an unterminated last line is written as it came, the autoprint supplies no newline -/
example : (exec (fun _ _ _ => none) [{ a1 := .last, neg := true, op := .nextAppend }] false 100 5 [['a', '\n'], ['b']]).out
    = ['a', '\n', 'b'] := by
  decide

/-! ## the script compiler (HawkModel/SedParse.lean = hawk_sed_comp, tied by the dump of harness/sedc_h.c) -/

/-- what hawk_sed_comp accepts is balanced: `{` / `}` nest, the group level never goes below zero and ends at zero -/
theorem parse_balanced (tr : Traits) (s : Str) (cs : List PCmd) (h : parseScript tr s = .ok cs) :
    balanced (cs.map PCmd.toS) 0 = true :=
  compLoop_balanced tr s 0 [] cs h

/-- no label is defined twice in an accepted script (HAWK_SED_ELABDU otherwise); the empty label `:` is no label -/
theorem parse_labels_unique (tr : Traits) (s : Str) (cs : List PCmd) (h : parseScript tr s = .ok cs)
    (name : Str) (hn : name ≠ []) : countLabel (cs.map PCmd.toS) name ≤ 1 := by
  have := compLoop_labels tr s 0 [] cs h name hn
  simpa using this

/-- every accepted command: the first address is not line 0, there is no second address without a first, and
    labels and `}` carry no address -/
theorem parse_well_addressed (tr : Traits) (s : Str) (cs : List PCmd) (h : parseScript tr s = .ok cs) :
    ∀ c ∈ cs, c.wellAddressed :=
  compLoop_forall PCmd.wellAddressed tr (parseCmd_wellAddressed tr) s 0 [] cs h

theorem wellAddressed_good (c : PCmd) (h : c.wellAddressed) : c.toS.good := by
  obtain ⟨h0, h12, hm⟩ := h
  cases c with | mk a1 a2 neg op =>
  refine ⟨?_, ?_⟩
  · cases a1 with
    | line n => rcases n with _ | n
                · simp at h0
                · simp [addrOk, PCmd.toS, PAddr.toAddr]
    | none => simp at h12; simp [addrOk, PCmd.toS, PAddr.toAddr, h12]
    | last => simp [addrOk, PCmd.toS, PAddr.toAddr]
    | re p ic => simp [addrOk, PCmd.toS, PAddr.toAddr]
  · intro hmark
    have : op.isMark = true := by
      rcases hmark with ⟨n, hn⟩ | hr
      · simp only [PCmd.toS] at hn
        rw [toSOp_eq_label] at hn; simp [hn, POp.isMark]
      · simp only [PCmd.toS] at hr
        rw [toSOp_eq_rbrace] at hr; simp [hr, POp.isMark]
    simp at hm
    simp [PCmd.toS, hm this, PAddr.toAddr]

/-- `compile_total`: the compiler is total, and its outcomes are exactly those of the C: a syntax error of
    hawk_sed_comp, a label that does not exist (HAWK_SED_ELABNF of init_command_block_for_exec), or a program.
    In particular an accepted script never fails in brace matching, duplicate labels or address checks later on. -/
theorem compileText_total (tr : Traits) (s : Str) :
    (∃ e, compileText tr s = .error (.inl e)) ∨ compileText tr s = .error (.inr .noLabel) ∨ ∃ p, compileText tr s = .ok p := by
  unfold compileText
  cases hp : parseScript tr s with
  | error e => exact Or.inl ⟨e, rfl⟩
  | ok cs =>
    right
    have hb := parse_balanced tr s cs hp
    have hg : ∀ c ∈ cs.map PCmd.toS, c.good := by
      intro c hc
      obtain ⟨pc, hpc, rfl⟩ := List.mem_map.mp hc
      exact wellAddressed_good pc (parse_well_addressed tr s cs hp pc hpc)
    have hl : ∀ name, name ≠ [] → countLabel (cs.map PCmd.toS) name ≤ 1 := fun n hn => parse_labels_unique tr s cs hp n hn
    have := compileGo_ok_or_noLabel (cs.map PCmd.toS) (cs.map PCmd.toS) 0 hg ⟨0, hb⟩ hl
    simp only [compile, hb]
    rcases this with ⟨p, hp'⟩ | hp'
    · right; exact ⟨p, by simp [hp']⟩
    · left; simp [hp']

/-- `compile_targets_inside`: every branch of a compiled script (b, t, and the skip-branch a `{` is compiled to) goes to the
    end of the script or to the position of a label / `}` command inside it; the program has one command per source command -/
theorem compile_targets_inside (cs : List PCmd) (p : Prog) (h : compile (cs.map PCmd.toS) = .ok p) :
    p.length = cs.length ∧ ∀ k ∈ p, ∀ t, (k.op = .branch t ∨ k.op = .tbranch t) →
      t = cs.length ∨ ∃ c, cs[t]? = some c ∧ c.op.isMark = true := by
  have := compile_targets (cs.map PCmd.toS) p (by
    intro c hc
    obtain ⟨pc, _, rfl⟩ := List.mem_map.mp hc
    exact toS_noRawBranch pc) h
  refine ⟨by simpa using this.1, ?_⟩
  intro k hk t ht
  rcases this.2 k hk t ht with e | ⟨c', hc', hop⟩
  · left; simpa using e
  · right
    simp only [List.getElem?_map] at hc'
    cases hcs : cs[t]? with
    | none => simp [hcs] at hc'
    | some c =>
      simp [hcs] at hc'
      subst hc'
      refine ⟨c, rfl, ?_⟩
      rcases hop with ⟨n, hn⟩ | hr
      · simp only [PCmd.toS] at hn
        rw [toSOp_eq_label] at hn; simp [hn, POp.isMark]
      · simp only [PCmd.toS] at hr
        rw [toSOp_eq_rbrace] at hr; simp [hr, POp.isMark]

/-- ... in particular, from script text: every branch target of a compiled script lies inside the script or at its end -/
theorem compileText_targets_inside (tr : Traits) (s : Str) (p : Prog) (h : compileText tr s = .ok p) :
    ∀ k ∈ p, ∀ t, (k.op = .branch t ∨ k.op = .tbranch t) → t ≤ p.length := by
  unfold compileText at h
  split at h
  · cases h
  · rename_i cs hcs
    split at h
    · cases h
    · rename_i p' hp'
      cases h
      have := compile_targets_inside cs p hp'
      intro k hk t ht
      rcases this.2 k hk t ht with e | ⟨c, hc, _⟩
      · omega
      · have : t < cs.length := by
          rcases Nat.lt_or_ge t cs.length with h | h
          · exact h
          · simp [List.getElem?_eq_none h] at hc
        omega

/-- non-vacuity: scripts are accepted (`p`), and the three outcomes of `compileText_total` all occur -/
example : parseScript {} ['p'] = .ok [{ op := .simple 'p' }] := by
  have h : parseCmd {} ['p'] = .ok ({ op := .simple 'p' }, []) := by rfl
  unfold parseScript compLoop
  simp [h, isSpace, compLoop, Except.map]

example : parseScript {} ['}'] = .error .EGRNBA := by
  have h : parseCmd {} ['}'] = .ok ({ op := .rbrace }, []) := by rfl
  unfold parseScript compLoop
  simp [h, isSpace]

example : compileText {} ['b', 'x'] = .error (.inr .noLabel) := by
  have h : parseCmd {} ['b', 'x'] = .ok ({ op := .branch 'b' (some ['x']) }, []) := by rfl
  unfold compileText parseScript compLoop
  simp [h, isSpace, compLoop, Except.map]
  rfl

/-- `print_parse_roundtrip_partial`: compiling the printed form of a command list gives the command list back, for every list
    of `Plain` commands that hawk_sed_comp's bookkeeping accepts (`accepts`: blocks nest, at most 128 deep, no label twice).
    Plain = one or two addresses (or none) out of `$`, the line numbers 1 .. 2^64-1 and `/regex/` with or without the I
    modifier, for regexes free of backslash, newline, `/`, `[` and `]` (the empty regex included); any negation; the
    argument-less commands q Q = d D p P l h H g G x n N z; `a` `i` `c` with any text ending in a newline (backslashes and
    embedded newlines are escaped by the printer); `r` `R` `w` `W` with any non-empty NUL-free file name (terminators,
    spaces, backslashes and newlines escaped by the printer); `y` with any pair list (printed between `/`, with `/` `\\`
    and newline escaped); `s/re/rpl/flags` with such a regex, a replacement free of backslash, newline and `/`, every
    combination of g p i k and every occurrence number get_subst can produce (1 .. 65535, none with g), no w file;
    `b` `t` with or without a label; `:label`; `{` and `}`.  Every trait setting without -a (with -a `1,2q` is an error).
    MISSING for the full statement: regexes / replacements that need escaping or contain bracket expressions
    (pickup_rex's bracket-state machine has no proved inverse), the `w` flag of `s`, delimiters other than `/`;
    for those the round trip is only exercised on the real compiler (text -> dump, three chunkings), not proved. -/
theorem print_parse_roundtrip_partial (tr : Traits) (hs : tr.strict = false) (cs : List PCmd) (h : ∀ c ∈ cs, c.Plain)
    (ha : accepts cs 0 [] = true) : parseScript tr (printCmds cs) = .ok cs :=
  compLoop_print tr hs cs h 0 [] ha

/-- ... and the program made of it is the resolution of the list itself -/
theorem print_compile_roundtrip_partial (tr : Traits) (hs : tr.strict = false) (cs : List PCmd) (h : ∀ c ∈ cs, c.Plain)
    (ha : accepts cs 0 [] = true) (p : Prog)
    (hp : compile (cs.map PCmd.toS) = .ok p) : compileText tr (printCmds cs) = .ok p := by
  simp [compileText, print_parse_roundtrip_partial tr hs cs h ha, hp]

/-- non-vacuity: `12,$!{` / `a\` X / `bx` / `}` / `:x` is a Plain, accepted list, and its printed form is the expected text -/
def sampleCmds : List PCmd :=
  [⟨.line 12, .last, true, .lbrace⟩, ⟨.none, .none, false, .text 'a' ['X', '\\', '\n']⟩,
   ⟨.last, .none, false, .file 'w' ['f', ';', '1', ' ']⟩, ⟨.re ['a', '.'] true, .re [] false, false, .subst ['b', '*'] ['&', 'x'] true true false true 3 none⟩, ⟨.none, .none, true, .trans [('a', '/'), ('\n', '\\')]⟩,
   ⟨.none, .none, false, .branch 'b' (some ['x'])⟩, ⟨.none, .none, false, .rbrace⟩, ⟨.none, .none, false, .label ['x']⟩]

example : (∀ c ∈ sampleCmds, c.Plain) ∧ accepts sampleCmds 0 [] = true := by
  refine ⟨?_, by decide⟩
  intro c hc
  simp [sampleCmds] at hc
  rcases hc with rfl | rfl | rfl | rfl | rfl | rfl | rfl | rfl <;>
    simp [PCmd.Plain, PAddr.plain, POp.plain, POp.isMark, plainChars, labelName, fileName, plainRe, plainRpl, occOK, endsNl, isLabChar, isCmdTermC, isSpace]

/-- `line_address_roundtrip`: a line-number address printed in decimal is read back by get_address as that number (below 2^64,
    where hawk_oow_t wraps), whatever non-digit text follows.  (The part of the printer round trip for line-number addresses;
    the step of `print_parse_roundtrip_partial` for line-number addresses.) -/
theorem line_address_roundtrip (n : Nat) (hn : n < 2 ^ 64) (t : Str) (ht : ∀ c, t.head? = some c → isDigit c = false) :
    getAddress (toDec n ++ t) = some (.line n, t) :=
  getAddress_print_line n hn t ht

example : getAddress (toDec 42 ++ ['p']) = some (.line 42, ['p']) :=
  line_address_roundtrip 42 (by decide) _ (by intro c h; simp at h; subst h; decide)

/-! ## script delivery (-e pieces, -f files: lib/std-sed.c read_input_stream) and `y` -/

/-- one script fragment: the compiler sees it with a newline supplied if it does not end in one (the empty script is one empty line) -/
theorem deliver_single (f : Str) : deliver [f] = f ++ (if endsNl f then [] else ['\n']) := by
  unfold deliver deliverGo endsNl
  cases h : f.getLast? with
  | none => simp [deliverGo]
  | some c => by_cases hc : c = '\n' <;> simp [deliverGo, hc]

/-- cutting a script between two commands (after a newline) into two -e / -f pieces changes nothing: the pieces are
    compiled exactly as their concatenation (whatever pieces follow, whatever was read before) -/
theorem deliver_cut (f1 f2 : Str) (rest : List Str) (last : Char) (h : endsNl f1 = true) :
    deliverGo (f1 :: f2 :: rest) last = deliverGo ((f1 ++ f2) :: rest) last := by
  unfold endsNl at h
  have h0 : f1.getLast? = some '\n' := by simpa using h
  have h1 : f1.getLast?.getD last = '\n' := by simp [h0]
  cases f2 with
  | nil => simp [deliverGo, h0]
  | cons c r =>
    cases hx : (c :: r).getLast? with
    | none => simp at hx
    | some x =>
      have h2 : (f1 ++ c :: r).getLast? = some x := by simp [List.getLast?_append, hx]
      simp [deliverGo, h0, h2, hx]

/-- a piece that does not end in a newline is separated from the next piece by one: `-e p -e p` is `p\np\n` -/
theorem deliver_separates (f1 : Str) (rest : List Str) (c : Char) (body : Str) (hf : f1 = body ++ [c]) (hc : c ≠ '\n') :
    deliver (f1 :: rest) = f1 ++ '\n' :: deliverGo rest c := by
  subst hf
  simp [deliver, deliverGo, hc]

/-- `y`: each character is replaced by the partner of the FIRST pair whose source it is, all others are kept -/
theorem transChar_spec (pairs : List (Char × Char)) (c : Char) :
    transChar pairs c = ((pairs.find? fun p => p.1 = c).map (·.2)).getD c := by
  induction pairs with
  | nil => simp [transChar]
  | cons p rest ih =>
    obtain ⟨a, b⟩ := p
    unfold transChar
    by_cases h : c = a
    · simp [h]
    · have h' : ¬ a = c := fun e => h e.symm
      simp [h, h', ih]

/-- `y` works character by character on the line body: position i of the result depends on position i of the pattern space only -/
theorem trans_pointwise (pairs : List (Char × Char)) (ps : Str) (i : Nat) (hi : i < (trimLine ps).1.length) :
    (doTrans pairs ps)[i]? = ((trimLine ps).1[i]?).map (transChar pairs) := by
  unfold doTrans
  simp [List.getElem?_append_left, hi]

/-- `progress_guard_dead`: the two tests that make `compLoop`'s recursion well-founded always succeed — a command that
    hawk_sed_comp accepts consumes at least its command character (every reader returns a suffix of what it was given:
    get_address, pickup_rex, get_text, get_label, get_branch_target, get_file, the option loop of get_subst, get_transet),
    and a comment is no longer than the text it stands in.  So the `PErr.internal` branches of `compLoop` are never taken. -/
theorem progress_guard_dead (tr : Traits) (c : Char) (r : Str) :
    (∀ cmd s', parseCmd tr (c :: r) = .ok (cmd, s') → s'.length ≤ r.length) ∧ (skipComment r).length ≤ r.length := by
  refine ⟨?_, skipComment_len r⟩
  intro cmd s' h
  have := parseCmd_len tr (c :: r) cmd s' h
  simp at this; omega

/-- `compiler_never_internal`: the model of hawk_sed_comp never reports `PErr.internal` — no reader produces that value and
    the progress guard is dead — so every error of `parseScript` is an error number of the C compiler (or `unsupported`
    for the cut command) -/
theorem compiler_never_internal (tr : Traits) (s : Str) : parseScript tr s ≠ .error .internal :=
  fun h => compLoop_no_internal tr s 0 [] h

/-! ## round 5, second increment: the executor below command granularity -/

/-- `last regex` bookkeeping of match_a: the regex address that is EVALUATED (addr1 of a closed range or of a one-address
    command, addr2 of an open range) becomes the last regex whether or not it matched — `sel` is not consulted -/
theorem address_regex_recorded (m : Matcher) (c : Cmd) (pc : Nat) (st st' : St) (sel cr : Bool) (p : Str) (hne : p ≠ [])
    (h1 : c.a1 ≠ .none)
    (hev : (if c.a2 ≠ .none ∧ st.rstate.getD pc false = true then c.a2 else c.a1) = .re p)
    (h : matchAddress m c pc st = some (st', sel, cr)) : st'.lastRe = some p := by
  unfold matchAddress at h
  simp only [h1, ↓reduceIte] at h
  by_cases h2 : c.a2 = .none
  · simp only [h2, ↓reduceIte] at h
    simp [h2] at hev
    rw [hev] at h
    simp [matchA, hne] at h
    rw [← h.1]
  · simp only [h2, ↓reduceIte] at h
    simp only [ne_eq, h2, not_false_eq_true, true_and] at hev
    rw [hev] at h
    simp [matchA, hne] at h
    rw [← h.1]

/-- non-vacuity: `/x/p` on a line that does not match (a matcher that never matches): not selected, `x` is the last regex -/
example : (matchAddress (fun _ _ _ => none) { a1 := .re ['x'], op := .print } 0 { input := [], ps := ['a', '\n'] }).map
    (fun r => (r.1.lastRe, r.2.1)) = some (some ['x'], false) := by
  rfl

/-- ... and what is recorded does not depend on the regex engine at all: two matchers that disagree on every match leave the
    same last regex behind (a change that records it "only on a match" breaks this law) -/
theorem last_regex_matcher_independent (m1 m2 : Matcher) (a : Addr) (st : St) :
    (matchA m1 a st).map (·.1.lastRe) = (matchA m2 a st).map (·.1.lastRe) := by
  cases a with
  | re p =>
    by_cases hp : p = []
    · cases hl : st.lastRe <;> simp [matchA, hp, hl]
    · simp [matchA, hp]
  | _ => simp [matchA]

/-- `s` records its (non-empty) regex as the last regex whether or not anything was replaced -/
theorem subst_regex_recorded (m : Matcher) (q cr : Bool) (re rpl : Str) (g : Bool) (occ : Nat) (p : Bool) (w : Option Str)
    (st : St) (hne : re ≠ []) : (execCmd m q (.subst re rpl g occ p w) cr st).1.lastRe = some re := by
  have hw : ∀ (s : St) (f t : Str), (writeFile s f t).lastRe = s.lastRe := by
    intro s f t; unfold writeFile; split <;> rfl
  simp only [execCmd, hne, ↓reduceIte]
  cases p <;> cases w <;> split <;> simp [hw]

/-- the class of "recorded only when matched": `/p/!s//rpl/flags` — on the lines NOT matching p the empty regex of `s` is p —
    runs every cycle exactly like `/p/!s/p/rpl/flags`, for every matcher, state and negation flag -/
theorem empty_subst_after_address (m : Matcher) (q : Bool) (cap fuel : Nat) (p rpl : Str) (neg g : Bool) (occ : Nat) (pf : Bool)
    (w : Option Str) (st : St) (hne : p ≠ []) :
    cycleRun m [{ a1 := .re p, neg := neg, op := .subst [] rpl g occ pf w }] q cap fuel 0 st =
    cycleRun m [{ a1 := .re p, neg := neg, op := .subst p rpl g occ pf w }] q cap fuel 0 st := by
  suffices H : ∀ fuel pc st,
      cycleRun m [{ a1 := .re p, neg := neg, op := .subst [] rpl g occ pf w }] q cap fuel pc st =
      cycleRun m [{ a1 := .re p, neg := neg, op := .subst p rpl g occ pf w }] q cap fuel pc st from H fuel 0 st
  intro fuel
  induction fuel with
  | zero => intro pc st; rfl
  | succ f ih =>
    intro pc st
    cases pc with
    | succ k => simp [cycleRun]
    | zero =>
      have key : ∀ cr, execCmd m q (.subst [] rpl g occ pf w) cr { st with lastRe := some p } =
          execCmd m q (.subst p rpl g occ pf w) cr { st with lastRe := some p } :=
        fun cr => subst_empty_regex_reuses_last m q cr p rpl g occ pf w _ rfl hne
      simp [cycleRun, matchAddress, matchA, hne, key, ih]

/-- `s///g`: every match of the non-overlapping leftmost match sequence is replaced (for any matcher: `Matcher.at` keeps only
    answers obeying the interface law, and `matchSeq_ordered` says the sequence is left-to-right and non-overlapping) -/
theorem subst_global (m : Matcher) (re rpl : Str) (occ : Nat) (ps : Str) :
    (doSubst m re rpl true occ ps).1 =
      render (trimLine ps).1 rpl (fun _ => true) 0 1 (matchSeq m re (trimLine ps).1 0 none) ++ (trimLine ps).2 := by
  rw [subst_occurrence]
  have : selOcc 0 = fun _ => true := by funext k; simp [selOcc]
  simp [this]

/-- the append queue has no capacity: a cycle of ANY number of `a` commands queues all their texts in order
    (hawk keeps the first 16 in an array and the rest in a list: `free_appends` must reset both) -/
theorem appends_all_queued (m : Matcher) (q : Bool) (cap : Nat) (ts : List Str) :
    ∀ (pre : Prog) (st : St) (fuel : Nat), ts.length + 1 ≤ fuel →
      cycleRun m (pre ++ ts.map fun t => { op := .append t }) q cap fuel pre.length st =
        .over { st with appq := st.appq ++ ts } := by
  induction ts with
  | nil =>
    intro pre st fuel hf
    cases fuel with
    | zero => omega
    | succ f => simp [cycleRun]
  | cons t r ih =>
    intro pre st fuel hf
    cases fuel with
    | zero => omega
    | succ f =>
      have hidx : (pre ++ (t :: r).map fun t => ({ op := .append t } : Cmd))[pre.length]? = some { op := .append t } := by simp
      have := ih (pre ++ [{ op := .append t }]) { st with appq := st.appq ++ [t] } f (by simp at hf ⊢; omega)
      simp only [List.length_append, List.length_singleton, List.append_assoc, List.singleton_append] at this
      rw [cycleRun, hidx]
      simp only [matchAddress, execCmd]
      simp [this]

/-- the queue is flushed, entirely, at the end of every cycle: the next cycle starts with an empty queue -/
theorem queue_empty_after_cycle (q : Bool) (st : St) (skip : Bool) : (emitOutput q st skip).appq = [] := rfl

/-- `appends_all_queued` end to end, across cycles: a script of any number of `a` commands (17, 100, ...) writes, for EVERY
    input line, the line and then all the texts in order — nothing is lost in a later cycle, the queue starts empty each time -/
theorem appends_every_cycle (m : Matcher) (cap : Nat) (ts : List Str) (input : List Str) :
    (exec m (ts.map fun t => { op := .append t }) false cap (ts.length + 1) input).out =
      input.foldl (fun o l => ts.foldl emit (emit o l)) [] := by
  have key : ∀ (budget : Nat) (st : St), st.appq = [] → st.input.length ≤ budget →
      (execLoop m (ts.map fun t => { op := .append t }) false cap (ts.length + 1) budget st).out =
        st.input.foldl (fun o l => ts.foldl emit (emit o l)) st.out := by
    intro budget
    induction budget with
    | zero => intro st _ hl; have : st.input = [] := by cases hi : st.input <;> simp_all
              simp [execLoop, finish, this]
    | succ b ih =>
      intro st hq hl
      cases hi : st.input with
      | nil => simp [execLoop, hi, finish]
      | cons l rest =>
        have hc := appends_all_queued m false cap ts [] { st with input := rest, ps := l, lineno := st.lineno + 1, substDone := false }
          (ts.length + 1) (Nat.le_refl _)
        simp only [List.nil_append, List.length_nil] at hc
        rw [execLoop]
        simp only [hi, hc]
        rw [ih]
        · simp [emitOutput, hq]
        · simp [emitOutput]
        · simp [emitOutput, hi] at hl ⊢; omega
  have := key input.length (initSt (ts.map fun t => { op := .append t }) input) rfl (by simp [initSt])
  simpa [exec, initSt] using this

/-- the order of the contributions of one cycle: `i` text at once, `p` copy, `=` line number at the point of the command;
    then, at the end of the cycle, the autoprint and after it the queue (`a` text, `r` file) in the order queued -/
theorem cycle_output_order (m : Matcher) (cap fuel : Nat) (ti ta f : Str) (c : Option Str) (st : St) :
    let prog : Prog := [{ op := .insert ti }, { op := .append ta }, { op := .readFile f c }, { op := .print }, { op := .lineno }]
    let mid := emit (emit (emit st.out ti) st.ps) (toString st.lineno).toList ++ ['\n']
    cycleRun m prog false cap (fuel + 6) 0 st = .over { st with out := mid, appq := st.appq ++ [ta] ++ [c.getD []] } ∧
    (emitOutput false { st with out := mid, appq := st.appq ++ [ta] ++ [c.getD []] } false).out =
      (st.appq ++ [ta, c.getD []]).foldl emit (emit mid st.ps) := by
  constructor
  · simp [cycleRun, matchAddress, execCmd]
  · simp [emitOutput]

/-- hold / pattern space algebra: `x;g` is `h` on the buffers (the pattern space survives, the hold space becomes a copy of it) -/
theorem xchg_get_is_hold (m : Matcher) (q cr : Bool) (st : St) :
    let s2 := (execCmd m q .get cr (execCmd m q .xchg cr st).1).1
    s2.ps = st.ps ∧ s2.hold = st.ps := by
  simp [execCmd]

/-- `x;h` is `g` on the buffers (the hold space survives, the pattern space becomes a copy of it) -/
theorem xchg_hold_is_get (m : Matcher) (q cr : Bool) (st : St) :
    let s2 := (execCmd m q .hold cr (execCmd m q .xchg cr st).1).1
    s2.ps = st.hold ∧ s2.hold = st.hold := by
  simp [execCmd]

end Hawk.Sed.C18
