import HawkModel.RexLemmas
import HawkModel.RexParseLemmas
import HawkModel.RexBracketLemmas
import HawkModel.RexIcaseLemmas
import HawkModel.RexTotalLemmas
/-!
# C06 — regular expressions match leftmost-longest

What is proved here is about the **specification matcher** `Hawk.Rex.matchLL` (an executable POSIX
leftmost-longest matcher over the ERE syntax tree `Re`) with respect to the denotational semantics
`Hawk.Rex.Matches`, and (round 5) about the trees of TRE's FRONT END: `tre-parse.c` is transcribed in
`RexParse.lean` (`Tre.parse`), tied tree-by-tree to the real `tre_parse()`; see the section "the front end of TRE".
TRE's back end (TNFA construction, backtracking and parallel matcher) is *not*
modelled: `vlib/props/c06.py` ties the real engines to `matchLL` by exhaustive bounded enumeration
(every ERE tree up to a size bound × every subject up to a length bound × IGNORECASE × NOTBOL), so
the claim for the implementation is bounded, the claims below are for all patterns and subjects.

`Matches f s r i j` reads: in the whole subject `s`, pattern `r` matches the slice `[i, j)`;
`^` holds only at position 0 and only without NOTBOL, `$` only at `s.length`.
-/
namespace Hawk.Rex

/-! ## the executable matcher computes exactly the denotation -/

/-- `ends` returns exactly the end positions of matches of `r` that start at `i`. -/
theorem ends_sound_complete (f : Flags) (s : List Char) (r : Re) (i e : Nat) :
    e ∈ ends f s r i ↔ Matches f s r i e :=
  mem_ends

/-- every match lies inside the subject and has non-negative length -/
theorem match_inside_subject (f : Flags) (s : List Char) (r : Re) (i e : Nat) (h : Matches f s r i e) :
    i ≤ e ∧ e ≤ s.length :=
  Matches.bounds h

/-- **leftmost-longest.** `matchLL` answers `(st, len)` exactly when `[st, st+len)` is a match, no match
starts at an earlier position, and no match starting at `st` is longer. -/
theorem matchLL_sound_complete (f : Flags) (r : Re) (s : List Char) (st len : Nat) :
    matchLL f r s = some (st, len) ↔
      Matches f s r st (st + len) ∧
      (∀ p e, p < st → ¬ Matches f s r p e) ∧
      (∀ e, Matches f s r st e → e ≤ st + len) :=
  matchLL_some

/-- `matchLL` answers "no match" exactly when no slice of the subject matches. -/
theorem matchLL_none_iff (f : Flags) (r : Re) (s : List Char) :
    matchLL f r s = none ↔ ∀ i e, ¬ Matches f s r i e :=
  matchLL_none

/-- a match is found exactly when one exists -/
theorem matchLL_isSome_iff (f : Flags) (r : Re) (s : List Char) :
    (matchLL f r s).isSome = true ↔ ∃ i e, Matches f s r i e := by
  constructor
  · intro h
    cases hx : matchLL f r s with
    | none => rw [hx] at h; cases h
    | some p =>
      obtain ⟨st, len⟩ := p
      exact ⟨st, st + len, (matchLL_some.1 hx).1⟩
  · rintro ⟨i, e, hm⟩
    cases hx : matchLL f r s with
    | none => exact absurd hm (matchLL_none.1 hx i e)
    | some p => rfl

/-- the leftmost-longest match is unique, so `matchLL` is *the* POSIX answer -/
theorem leftmost_longest_unique (f : Flags) (s : List Char) (r : Re) (a b a' b' : Nat)
    (h : IsLL f s r a b) (h' : IsLL f s r a' b') : a = a' ∧ b = b' :=
  IsLL.unique h h'

/-- the reported match lies inside the subject -/
theorem matchLL_inside (f : Flags) (r : Re) (s : List Char) (st len : Nat)
    (h : matchLL f r s = some (st, len)) : st + len ≤ s.length :=
  (Matches.bounds (matchLL_some.1 h).1).2

/-! ## the denotation is the standard one (algebraic sanity of `Matches`) -/

theorem star_unfold (f : Flags) (s : List Char) (a : Re) (i j : Nat) :
    Matches f s (.star a) i j ↔ (i = j ∧ i ≤ s.length) ∨ ∃ k, Matches f s a i k ∧ Matches f s (.star a) k j := by
  simp only [Matches]
  constructor
  · rintro ⟨hi, h⟩
    cases h with
    | refl _ => exact Or.inl ⟨rfl, hi⟩
    | step hr hkj => exact Or.inr ⟨_, hr, (Matches.bounds hr).2, hkj⟩
  · rintro (⟨rfl, hi⟩ | ⟨k, hr, _, hkj⟩)
    · exact ⟨hi, Iter.refl _⟩
    · have := Matches.bounds hr
      have := Iter.bound (fun _ _ h => (Matches.bounds (r := a) (f := f) h).2) hkj this.2
      exact ⟨by have := Iter.le (fun _ _ h => (Matches.bounds (r := a) (f := f) (s := s) h).1) hkj; omega, Iter.step hr hkj⟩

theorem plus_eq_cat_star (f : Flags) (s : List Char) (a : Re) (i j : Nat) :
    Matches f s (.plus a) i j ↔ Matches f s (.cat a (.star a)) i j := by
  simp only [Matches]
  constructor
  · rintro ⟨k, h1, h2⟩; exact ⟨k, h1, (Matches.bounds h1).2, h2⟩
  · rintro ⟨k, h1, _, h2⟩; exact ⟨k, h1, h2⟩

theorem opt_eq_alt_emp (f : Flags) (s : List Char) (a : Re) (i j : Nat) :
    Matches f s (.opt a) i j ↔ Matches f s (.alt .emp a) i j := by
  simp only [Matches]

theorem grp_transparent (f : Flags) (s : List Char) (a : Re) (i j : Nat) :
    Matches f s (.grp a) i j ↔ Matches f s a i j := by
  simp only [Matches]

/-- `a{0,}` is `a*` -/
theorem rep_zero_inf_eq_star (f : Flags) (s : List Char) (a : Re) (i j : Nat) :
    Matches f s (.rep a 0 none) i j ↔ Matches f s (.star a) i j := by
  simp only [Matches]
  constructor
  · rintro ⟨hi, k, _, _, h⟩; exact ⟨hi, IterN.toIter h⟩
  · rintro ⟨hi, h⟩
    obtain ⟨n, hn⟩ := Iter.toIterN h
    exact ⟨hi, n, Nat.zero_le _, by simp, hn⟩

/-- `a{0}` matches only the empty string -/
theorem rep_zero_zero (f : Flags) (s : List Char) (a : Re) (i j : Nat) :
    Matches f s (.rep a 0 (some 0)) i j ↔ Matches f s .emp i j := by
  simp only [Matches]
  constructor
  · rintro ⟨hi, k, _, hk, h⟩
    have : k = 0 := by have := hk 0 rfl; omega
    subst this
    simp only [IterN] at h
    exact ⟨h, hi⟩
  · rintro ⟨h, hi⟩
    exact ⟨hi, 0, Nat.le_refl _, by simp, h⟩

/-- `a{m+1,n+1}` is `a` followed by `a{m,n}` -/
theorem rep_succ (f : Flags) (s : List Char) (a : Re) (m n : Nat) (i j : Nat) :
    Matches f s (.rep a (m + 1) (some (n + 1))) i j ↔ Matches f s (.cat a (.rep a m (some n))) i j := by
  simp only [Matches]
  constructor
  · rintro ⟨hi, k, hk, hkn, h⟩
    have := hkn (n + 1) rfl
    obtain ⟨k', rfl⟩ : ∃ k', k = k' + 1 := ⟨k - 1, by omega⟩
    obtain ⟨x, hx, hr⟩ := h
    refine ⟨x, hx, (Matches.bounds hx).2, k', by omega, ?_, hr⟩
    intro n' hn'; cases hn'; omega
  · rintro ⟨x, hx, _, k, hk, hkn, hr⟩
    have := hkn n rfl
    have := Matches.bounds hx
    refine ⟨by omega, k + 1, by omega, ?_, x, hx, hr⟩
    intro n' hn'; cases hn'; omega

/-- `a{m+1,}` is `a` followed by `a{m,}` -/
theorem rep_succ_inf (f : Flags) (s : List Char) (a : Re) (m : Nat) (i j : Nat) :
    Matches f s (.rep a (m + 1) none) i j ↔ Matches f s (.cat a (.rep a m none)) i j := by
  simp only [Matches]
  constructor
  · rintro ⟨hi, k, hk, _, h⟩
    obtain ⟨k', rfl⟩ : ∃ k', k = k' + 1 := ⟨k - 1, by omega⟩
    obtain ⟨x, hx, hr⟩ := h
    exact ⟨x, hx, (Matches.bounds hx).2, k', by omega, by simp, hr⟩
  · rintro ⟨x, hx, _, k, hk, _, hr⟩
    have := Matches.bounds hx
    exact ⟨by omega, k + 1, by omega, by simp, x, hx, hr⟩

/-- `a{0,n+1}` is empty or `a` followed by `a{0,n}` -/
theorem rep_zero_succ (f : Flags) (s : List Char) (a : Re) (n : Nat) (i j : Nat) :
    Matches f s (.rep a 0 (some (n + 1))) i j ↔
      Matches f s .emp i j ∨ Matches f s (.cat a (.rep a 0 (some n))) i j := by
  simp only [Matches]
  constructor
  · rintro ⟨hi, k, _, hkn, h⟩
    have := hkn (n + 1) rfl
    cases k with
    | zero => simp only [IterN] at h; exact Or.inl ⟨h, hi⟩
    | succ k =>
      obtain ⟨x, hx, hr⟩ := h
      refine Or.inr ⟨x, hx, (Matches.bounds hx).2, k, Nat.zero_le _, ?_, hr⟩
      intro n' hn'; cases hn'; omega
  · rintro (⟨h, hi⟩ | ⟨x, hx, _, k, _, hkn, hr⟩)
    · exact ⟨hi, 0, Nat.le_refl _, by simp, h⟩
    · have := hkn n rfl
      have := Matches.bounds hx
      refine ⟨by omega, k + 1, Nat.zero_le _, ?_, x, hx, hr⟩
      intro n' hn'; cases hn'; omega

/-! ## IGNORECASE differs only by case folding -/

/-- matching with IGNORECASE is matching the case-folded pattern against the case-folded subject
(all patterns whose bracket expressions list single characters; ranges and named classes:
`icase_range_rule`, `icase_named_rule`) -/
theorem icase_eq_fold (nb ne : Bool) (s : List Char) (r : Re) (h : noRange r = true) (i j : Nat) :
    Matches ⟨true, nb, ne⟩ s r i j ↔ Matches ⟨false, nb, ne⟩ (s.map fold) (foldRe r) i j :=
  matches_icase_fold h

/-- the same for the search result: same start, same length -/
theorem icase_eq_fold_matchLL (nb ne : Bool) (s : List Char) (r : Re) (h : noRange r = true) :
    matchLL ⟨true, nb, ne⟩ r s = matchLL ⟨false, nb, ne⟩ (foldRe r) (s.map fold) :=
  matchLL_congr fun _ _ => matches_icase_fold h

/-- a literal under IGNORECASE: equal after folding -/
theorem icase_chr_rule (c d : Char) : chrEq true c d = (fold c == fold d) := rfl

/-- a bracket range under IGNORECASE contains `d` iff it contains `d`, `tolower d` or `toupper d` -/
theorem icase_range_rule (lo hi d : Char) :
    itemHas true (.range lo hi) d = (inRange lo hi d || inRange lo hi (fold d) || inRange lo hi (upper d)) := by
  simp [itemHas, Bool.or_assoc]

/-- a named class under IGNORECASE contains `d` iff it contains `d`, `tolower d` or `toupper d` -/
theorem icase_named_rule (k : CClass) (d : Char) :
    itemHas true (.named k) d = (k.has d || k.has (fold d) || k.has (upper d)) := by
  simp [itemHas, Bool.or_assoc]

/-- without IGNORECASE nothing is folded -/
theorem case_sensitive_chr (c d : Char) : chrEq false c d = (c == d) := rfl

/-! ## anchors and NOTBOL -/

theorem bol_iff (f : Flags) (s : List Char) (i j : Nat) :
    Matches f s .bol i j ↔ i = 0 ∧ j = 0 ∧ f.notbol = false := by
  simp only [Matches]
  constructor
  · rintro ⟨h1, h2, h3⟩; exact ⟨h2, by omega, h3⟩
  · rintro ⟨h1, h2, h3⟩; exact ⟨by omega, h1, h3⟩

theorem eol_iff (f : Flags) (s : List Char) (i j : Nat) :
    Matches f s .eol i j ↔ i = s.length ∧ j = s.length ∧ f.noteol = false := by
  simp only [Matches]
  constructor
  · rintro ⟨h1, h2, h3⟩; exact ⟨h2, by omega, h3⟩
  · rintro ⟨h1, h2, h3⟩; exact ⟨by omega, h1, h3⟩

/-- with NOTEOL `$` matches nowhere (library API flag; no hawk caller passes it) -/
theorem noteol_eol_never (ic nb : Bool) (s : List Char) (i j : Nat) : ¬ Matches ⟨ic, nb, true⟩ s .eol i j := by
  simp [Matches]

/-- NOTEOL changes nothing for a pattern without `$` -/
theorem noteol_irrelevant_without_eol (ic nb : Bool) (r : Re) (s : List Char) (h : noEol r = true) :
    matchLL ⟨ic, nb, true⟩ r s = matchLL ⟨ic, nb, false⟩ r s :=
  matchLL_congr fun _ _ => matches_noEol h

/-- word assertions (TRE/GNU extension, outside POSIX; semantics transcribed from `CHECK_ASSERTIONS`): they consume
nothing and test the characters around the position *in the subject the matcher is given* -/
theorem wordb_iff (f : Flags) (s : List Char) (k : WordB) (i j : Nat) :
    Matches f s (.wordb k) i j ↔ i = j ∧ i ≤ s.length ∧ wordbHolds s i k = true := by
  simp only [Matches]

/-- `\<` : no word character before, a word character at the position; `\>` the mirror image -/
theorem bow_rule (s : List Char) (i : Nat) : wordbHolds s i .bow = (!prevW s i && nextW s i) := rfl
theorem eow_rule (s : List Char) (i : Nat) : wordbHolds s i .eow = (prevW s i && !nextW s i) := rfl

/-- with NOTBOL `^` matches nowhere -/
theorem notbol_bol_never (ic ne : Bool) (s : List Char) (i j : Nat) : ¬ Matches ⟨ic, true, ne⟩ s .bol i j := by
  simp [Matches]

/-- **NOTBOL semantics.** Matching a proper suffix `s.drop o` (`o > 0`) with NOTBOL is matching inside the
whole subject `s` at positions shifted by `o`: `^` cannot match, `$` still means the end of `s`.
Holds for every pattern without word assertions; with `\<`/`\b` it does NOT hold (the matcher does not see the
character before the suffix: `notbol_suffix_fails_with_word_assertion`). -/
theorem notbol_suffix (ic ne : Bool) (s : List Char) (o : Nat) (ho : 0 < o) (hol : o ≤ s.length) (r : Re)
    (hw : noWordB r = true) (i j : Nat) :
    Matches ⟨ic, true, ne⟩ (s.drop o) r i j ↔ Matches ⟨ic, false, ne⟩ s r (o + i) (o + j) :=
  matches_drop ho hol hw

/-- the restriction is necessary: on the suffix `b` of `ab`, `\<b` matches (position 0 has no previous character),
inside `ab` it does not -/
theorem notbol_suffix_fails_with_word_assertion :
    Matches ⟨false, true, false⟩ (['a', 'b'].drop 1) (.cat (.wordb .bow) (.chr 'b')) 0 1 ∧
    ¬ Matches ⟨false, false, false⟩ ['a', 'b'] (.cat (.wordb .bow) (.chr 'b')) 1 2 := by
  constructor
  · exact (ends_sound_complete _ _ _ _ _).1 (by decide)
  · intro h
    have := (ends_sound_complete _ _ _ _ _).2 h
    revert this
    decide

/-- the search on a suffix with NOTBOL (how `gsub`, `split` and `match` continue after a previous match)
returns the leftmost-longest match of the whole subject among the starts `≥ o` -/
theorem notbol_suffix_matchLL (ic ne : Bool) (s : List Char) (o : Nat) (ho : 0 < o) (hol : o ≤ s.length) (r : Re)
    (hw : noWordB r = true) (st len : Nat) :
    matchLL ⟨ic, true, ne⟩ r (s.drop o) = some (st, len) ↔
      Matches ⟨ic, false, ne⟩ s r (o + st) (o + st + len) ∧
      (∀ p e, o ≤ p → p < o + st → ¬ Matches ⟨ic, false, ne⟩ s r p e) ∧
      (∀ e, Matches ⟨ic, false, ne⟩ s r (o + st) e → e ≤ o + st + len) := by
  rw [matchLL_some]
  unfold IsLL
  constructor
  · rintro ⟨h1, h2, h3⟩
    refine ⟨?_, ?_, ?_⟩
    · have := (matches_drop ho hol hw).1 h1
      rwa [← Nat.add_assoc] at this
    · intro p e hp1 hp2 hm
      have hb := Matches.bounds hm
      obtain ⟨p', rfl⟩ : ∃ p', p = o + p' := ⟨p - o, by omega⟩
      obtain ⟨e', rfl⟩ : ∃ e', e = o + e' := ⟨e - o, by omega⟩
      exact h2 p' e' (by omega) ((matches_drop ho hol hw).2 hm)
    · intro e hm
      have hb := Matches.bounds hm
      obtain ⟨e', rfl⟩ : ∃ e', e = o + e' := ⟨e - o, by omega⟩
      have := h3 e' ((matches_drop ho hol hw).2 hm)
      omega
  · rintro ⟨h1, h2, h3⟩
    refine ⟨?_, ?_, ?_⟩
    · apply (matches_drop ho hol hw).2
      rwa [← Nat.add_assoc]
    · intro p e hp hm
      exact h2 (o + p) (o + e) (by omega) (by omega) ((matches_drop ho hol hw).1 hm)
    · intro e hm
      have := h3 (o + e) ((matches_drop ho hol hw).1 hm)
      omega

/-- NOTBOL changes nothing for a pattern without `^` -/
theorem notbol_irrelevant_without_bol (ic ne : Bool) (r : Re) (s : List Char) (h : noBol r = true) :
    matchLL ⟨ic, true, ne⟩ r s = matchLL ⟨ic, false, ne⟩ r s :=
  matchLL_congr fun _ _ => matches_noBol h

/-! ## the front end of TRE: `tre_parse` (transcribed in `RexParse.lean`, tied tree-by-tree to the real `tre_parse()`)

`Tre.parse cf pat` is a total function (structural recursion); what it answers for a pattern — the tree, or the
`reg_errcode_t` class — is compared with the real `tre_parse()` on every generated pattern by `vlib/props/c06.py`
(P requests).  The theorems below are about the trees: what they mean, that the submatch bookkeeping does not change
the meaning, and that the verified matcher run on the parsed tree returns the leftmost-longest match.  What remains
outside is TRE's automaton construction and its two simulations. -/

open Tre in
/-- every match of a tree lies inside the subject (all trees) -/
theorem ast_match_inside_subject (ic nb ne : Bool) (s : List Char) (a : Ast) (i j : Nat)
    (h : AMatches ic nb ne s a i j) : i ≤ j ∧ j ≤ s.length :=
  AMatches.bounds a h

open Tre in
/-- **the tree denotes the language of its ERE.**  `toRe` turns a `tre_parse` tree into an ERE syntax tree of the
specification (literal leaf → bracket expression over its code range / class, iteration → interval, union → `|`),
and the tree's own meaning `AMatches` (code ranges, classes, assertion bits, `min..max` copies) is the POSIX
denotation `Matches` of that ERE, matched case-sensitively (REG_ICASE is compiled into the tree).
PARTIAL: trees inside `Ast.plain` — no back reference (not regular); a leaf with a negated-class list
(`[^[:alpha:]x]`) must have its code range below the surrogate gap U+D800 (every ASCII/BMP-low pattern); class leaves
cover the full code range (as `tre_parse_bracket_items` makes them).  Round 5b lifted the two former exclusions:
negated-class lists and class leaves under REG_ICASE are now inside (`class_under_icase`, `complRanges_has`). -/
theorem ast_denotation_partial (ic nb ne : Bool) (s : List Char) (a : Ast) (h : a.plain ic = true) :
    ∃ r, toRe ic a = some r ∧ ∀ i j, AMatches ic nb ne s a i j ↔ Matches ⟨false, nb, ne⟩ s r i j :=
  toRe_denotation a h

open Tre in
/-- **REG_ICASE is compiled into the tree as case folding**: for every ASCII pattern character `c` the node `tre_parse`
makes for it (`upper | lower` with one position under REG_ICASE, the plain literal otherwise) matches in any subject
exactly where the specification's literal `c` matches under the same IGNORECASE flag (`fold c == fold d`) — so
"case-insensitive matching differs only by case folding" holds at the leaves of the real parser's trees -/
theorem icase_literal_is_case_folding (icf nb ne : Bool) (s : List Char) (c : Char) (hc : c.toNat < 128) (pos i j : Nat) :
    AMatches icf nb ne s (literalNode ⟨icf, false, false⟩ c.toNat pos) i j ↔ Matches ⟨icf, nb, ne⟩ s (.chr c) i j :=
  literalNode_matches icf nb ne s c hc pos i j

open Tre in
/-- **a named class under REG_ICASE** — TRE tests `c`, `tolower c` and `toupper c` (`tre-match-utils.h`) — is, for every
class and every character, the class `icClose k` tested case-sensitively (`upper`/`lower` become `alpha`, the other
ten classes are closed under case): IGNORECASE on classes "differs only by case folding" -/
theorem class_under_icase (k : CClass) (d : Char) : classHas true k d = (icClose k).has d :=
  classHas_icClose k d

open Tre in
/-- a leaf of a negated bracket with a negated-class list (`[^[:alpha:]x]`): its bracket expression in the
specification accepts exactly the characters in the leaf's code range that are in none of the listed classes -/
theorem negated_class_leaf (ic : Bool) (l : Lit) (hn : l.neg.isEmpty = false) (hc : l.cls = none) (hl : l.lowCodes = true) (d : Char) :
    ∃ ng items, litRe ic l = .cls ng items ∧ clsHas false ng items d = l.has ic d := by
  obtain ⟨ng, items, h1, h2⟩ := litRe_cls (ic := ic) (l := l) (by simp [hn, hc, hl])
  exact ⟨ng, items, h1, h2 d⟩

open Tre in
/-- **the verified matcher on the parsed tree returns the leftmost-longest match** of the tree's language
(same restriction as `ast_denotation_partial`) -/
theorem ast_matcher_leftmost_longest_partial (ic nb ne : Bool) (s : List Char) (a : Ast) (h : a.plain ic = true)
    (st len : Nat) :
    amatchLL ic nb ne a s = some (st, len) ↔
      AMatches ic nb ne s a st (st + len) ∧
      (∀ p e, p < st → ¬ AMatches ic nb ne s a p e) ∧
      (∀ e, AMatches ic nb ne s a st e → e ≤ st + len) := by
  obtain ⟨r, hr, hm⟩ := toRe_denotation (ic := ic) (nb := nb) (ne := ne) (s := s) a h
  unfold amatchLL
  rw [hr]
  simp only [matchLL_some, IsLL, hm]

open Tre in
/-- no match is reported exactly when the tree's language has no match in the subject -/
theorem ast_matcher_none_partial (ic nb ne : Bool) (s : List Char) (a : Ast) (h : a.plain ic = true) :
    amatchLL ic nb ne a s = none ↔ ∀ i e, ¬ AMatches ic nb ne s a i e := by
  obtain ⟨r, hr, hm⟩ := toRe_denotation (ic := ic) (nb := nb) (ne := ne) (s := s) a h
  unfold amatchLL
  rw [hr]
  simp only [matchLL_none, hm]

open Tre in
/-- pattern text → `tre_parse` tree → matcher: when the text parses to a tree inside `Ast.plain`, the answer is the
leftmost-longest match of that tree's language -/
theorem matchText_leftmost_longest_partial (cf : CF) (nb ne : Bool) (pat s : List Char) (p : Parsed)
    (hp : parse cf pat = .ok p) (h : p.ast.plain cf.icase = true) (st len : Nat) :
    matchText cf nb ne pat s = .ok (some (st, len)) ↔
      AMatches cf.icase nb ne s p.ast st (st + len) ∧
      (∀ q e, q < st → ¬ AMatches cf.icase nb ne s p.ast q e) ∧
      (∀ e, AMatches cf.icase nb ne s p.ast st e → e ≤ st + len) := by
  have hmt : matchText cf nb ne pat s = .ok (amatchLL cf.icase nb ne p.ast s) := by
    unfold matchText; rw [hp]
  rw [hmt, ← ast_matcher_leftmost_longest_partial cf.icase nb ne s p.ast h st len]
  constructor
  · intro h; injection h
  · intro h; rw [h]

open Tre in
/-- a rejected pattern is rejected by the whole pipeline with the same class -/
theorem matchText_rejects (cf : CF) (nb ne : Bool) (pat s : List Char) (e : PErr) (hp : parse cf pat = .error e) :
    matchText cf nb ne pat s = .error e := by
  unfold matchText; rw [hp]

open Tre in
/-- `PARSE_MARK_FOR_SUBMATCH` sets the submatch id, counts one more submatch … -/
theorem mark_submatch_id (id : Nat) (r : Ast) : (mark id r).sub = some id ∧ (mark id r).nsub = r.nsub + 1 :=
  ⟨mark_sub id r, mark_nsub id r⟩

open Tre in
/-- … and does not change the language, although it puts an `EMPTY ·` in front of a tree that already is a
submatch (`((a))`) -/
theorem mark_preserves_language (ic nb ne : Bool) (s : List Char) (id : Nat) (r : Ast) (i j : Nat) :
    AMatches ic nb ne s (mark id r) i j ↔ AMatches ic nb ne s r i j :=
  mark_matches id r i j (fun _ _ h => Nat.le_trans (AMatches.bounds r h).1 (AMatches.bounds r h).2)

open Tre in
/-- the submatch bookkeeping never influences what a tree matches -/
theorem submatch_fields_irrelevant (ic nb ne : Bool) (s : List Char) (a : Ast) (sb : Option Nat) (n i j : Nat) :
    AMatches ic nb ne s (a.setSub sb n) i j ↔ AMatches ic nb ne s a i j :=
  AMatches_setSub a sb n i j

open Tre in
/-- an accepted pattern is submatch 0 as a whole (`nofirstsub = 0`) -/
theorem parse_whole_is_submatch_zero (cf : CF) (pat : List Char) (p : Parsed) (hp : parse cf pat = .ok p) :
    p.ast.sub = some 0 ∧ 1 ≤ p.ast.nsub := by
  unfold parse at hp
  split at hp
  · cases hp
  · injection hp with hp
    subst hp
    exact ⟨mark_sub 0 _, by rw [mark_nsub]; omega⟩

open Tre in
/-- **a negated bracket expression is exactly the complement of its items** (`tre_parse_bracket`, the code in which
two defects were found and fixed: 6ef3e2d overlapping items).  For EVERY array of range items (`code_min ≤ code_max`,
in any order): after the sort by `code_min`, the leaves the union loop builds plus the final `curr_min..TRE_CHAR_MAX`
literal contain a code `d` iff no item contains `d`. -/
theorem negated_bracket_complement (pos : Nat) (negs : List CClass) (items : List Item)
    (hh : ∀ it ∈ items, ∃ h, it.hi = some h ∧ it.lo ≤ h) (d : Nat) :
    let r := bracketBuild true pos negs (sortItems items) none 0 0
    inRanges (optRanges (addNode r.1 (.leaf (.lit ⟨r.2.toNat, none, pos, none, negs⟩) none 0))) d ↔
      ¬ ∃ it ∈ items, it.has d := by
  intro r
  obtain ⟨hs, hm⟩ := sortItems_spec items
  have := negated_bracket_is_complement pos negs (sortItems items) hs (fun it hit => hh it ((hm it).1 hit)) d
  simp only at this
  rw [this]
  constructor
  · rintro h ⟨it, hit, hd⟩; exact h ⟨it, (hm it).2 hit, hd⟩
  · rintro h ⟨it, hit, hd⟩; exact h ⟨it, (hm it).1 hit, hd⟩

open Tre in
/-- the sort the negated case relies on (`hawk_qsort` with `tre_compare_items`, modelled by insertion): sorted by
`code_min` and a rearrangement of the same items -/
theorem bracket_items_sorted (l : List Item) :
    (sortItems l).Pairwise (fun a b => a.lo ≤ b.lo) ∧ ∀ y, y ∈ sortItems l ↔ y ∈ l :=
  sortItems_spec l

open Tre in
/-- **the postfix loop never answers STUCK** (first part of "the recursion budget of `Tre.parse` always suffices"):
`PARSE_POSTFIX` run with the budget `parsePiece` gives it (`re.length + 1`) never exhausts it, for every tree and every
text, and what it leaves is never longer than what it got; `tre_parse_bound` (no budget) never answers STUCK either.
Still open: the mutual recursion of `parseRE … parseLiteral` (needs, besides these, that every piece consumes input). -/
theorem postfix_loop_never_stuck (cf : CF) (res : Ast) (re : List Char) :
    postfixOps cf (re.length + 1) res re ≠ .error .stuck ∧
    (∀ a t, postfixOps cf (re.length + 1) res re = .ok (a, t) → t.length ≤ re.length) ∧
    (∀ r, parseBound res r ≠ .error .stuck) :=
  ⟨(postfixOps_spec cf _ res re (Nat.lt_succ_self _)).1, (postfixOps_spec cf _ res re (Nat.lt_succ_self _)).2,
   fun r => (parseBound_spec res r).1⟩

open Tre in
/-- **the bracket loop never answers STUCK**: `tre_parse_bracket` (budget: the text length + 1) never exhausts its
budget, for every text, and what it leaves is never longer than what it got -/
theorem bracket_loop_never_stuck (icase : Bool) (pos : Nat) (re : List Char) :
    parseBracket icase pos re ≠ .error .stuck ∧
    ∀ a rest, parseBracket icase pos re = .ok (a, rest) → rest.length ≤ re.length :=
  parseBracket_spec icase pos re

open Tre in
/-- the backslash atoms (`\\t … \\w … \\b \\< \\x41 \\x{41} \\1`, escaped characters) never answer STUCK and only consume input -/
theorem escape_atoms_never_stuck (cf : CF) (st : St) (e : Char) (t : List Char) :
    escapeAtom cf st e t ≠ .error .stuck ∧
    ∀ a st' rest, escapeAtom cf st e t = .ok (a, st', rest) → rest.length ≤ t.length :=
  escapeAtom_spec cf st e t

/-! ### non-vacuity: concrete trees, error classes, and the pipeline -/
section
open Tre

/-- `a(b|c)*` : catenation of `a` and an iteration of a marked union; positions 0,1,2; two submatches
(the harness prints this tree as `C(L97-97@0:-1:0,I(U(L98-98@1:-1:0,L99-99@2:-1:0):1:1,0,-1,0):-1:1):0:2 nsub=2 npos=3`) -/
example : parseOk {} "a(b|c)*".toList =
    some ⟨.cat (mkLit 97 (some 97) 0) (.iter (.union (mkLit 98 (some 98) 1) (mkLit 99 (some 99) 2) (some 1) 1) 0 (-1) false none 1) (some 0) 2, 2, 3⟩ := by decide +kernel

/-- error classes: EPAREN, EBRACK, EBRACE, BADBR, ERANGE, ECTYPE, ECOLLATE, EESCAPE -/
example : parseErr {} "(a".toList = some .eparen := by decide +kernel
example : parseErr {} "[a".toList = some .ebrack := by decide +kernel
example : parseErr {} "a{1".toList = some .ebrace := by decide +kernel
example : parseErr {} "a{2,1}".toList = some .badbr := by decide +kernel
example : parseErr {} "[b-a]".toList = some .erange := by decide +kernel
example : parseErr {} "[[:foo:]]".toList = some .ectype := by decide +kernel
example : parseErr {} "[[.a.]]".toList = some .ecollate := by decide +kernel
example : parseErr {} "a\\".toList = some .eescape := by decide +kernel
/-- TRE's stacking rules: `*a` and `a**` are accepted (an EMPTY leaf is iterated; iterations nest) -/
example : parseOk {} "a**".toList = some ⟨.iter (mkIter (mkLit 97 (some 97) 0) 0 (-1) false) 0 (-1) false (some 0) 1, 1, 1⟩ := by decide +kernel
example : parseOk {} "*a".toList = some ⟨.cat (mkIter mkEmpty 0 (-1) false) (mkLit 97 (some 97) 0) (some 0) 1, 1, 1⟩ := by decide +kernel
/-- REG_ICASE is compiled into the tree; `((a))` gets an `EMPTY ·` for the second mark -/
example : parseOk { icase := true } "a".toList = some ⟨.union (mkLit 65 (some 65) 0) (mkLit 97 (some 97) 0) (some 0) 1, 1, 1⟩ := by decide +kernel
example : parseOk {} "((a))".toList =
    some ⟨.cat mkEmpty (.cat mkEmpty (.leaf (.lit ⟨97, some 97, 0, none, []⟩) (some 2) 1) (some 1) 2) (some 0) 3, 3, 1⟩ := by decide +kernel

/-- `[^a-cb-e]` (overlapping items, the witness of 6ef3e2d): codes 0..96 and 102.. ; the hypotheses of
`negated_bracket_complement` hold for its items -/
example : parseOk {} "[^a-cb-e]".toList =
    some ⟨.union (.leaf (.lit ⟨0, some 96, 0, none, []⟩) none 0) (.leaf (.lit ⟨102, none, 0, none, []⟩) none 0) (some 0) 1, 1, 1⟩ := by decide +kernel
example : ∀ it ∈ [(⟨97, some 99, none⟩ : Item), ⟨98, some 101, none⟩], ∃ h, it.hi = some h ∧ it.lo ≤ h := by decide

/-- the formerly excluded trees are inside `Ast.plain` now: a negated class list and a class leaf, under REG_ICASE -/
example : ((parseOk { icase := true } "[^[:upper:]x]+[[:lower:]]".toList).map fun p => p.ast.plain true) = some true := by decide +kernel
example : (matchText { icase := true } false false "[^[:digit:]x]+[[:lower:]]".toList "1XaB2".toList).toOption = some (some (2, 2)) := by decide +kernel

/-- the pipeline on a parsed tree inside `Ast.plain` (hypotheses of the `_partial` theorems are satisfiable) -/
example : ((parseOk {} "a(b|c)*d".toList).map fun p => p.ast.plain false) = some true := by decide +kernel
example : (matchText {} false false "a(b|c)*d".toList "xabcbd".toList).toOption = some (some (1, 5)) := by decide +kernel
example : (matchText { icase := true } false false "a[b-c]+".toList "xABCb".toList).toOption = some (some (1, 4)) := by decide +kernel
end

/-! ## non-vacuity: concrete answers (these are the witnesses on which TRE's engines go wrong) -/

/-- `"aaa" ~ /a(a|ab)$/` : POSIX says match at 1, length 2 (hawk's backtracking matcher said no match) -/
example : matchLL {} (.cat (.chr 'a') (.cat (.grp (.alt (.chr 'a') (.cat (.chr 'a') (.chr 'b')))) .eol))
    ['a', 'a', 'a'] = some (1, 2) := by decide

/-- `a(a|ab)(b|)` on `aaab` : POSIX says [0,2) (TRE's parallel matcher says [1,4)) -/
example : matchLL {} (.cat (.chr 'a') (.cat (.grp (.alt (.chr 'a') (.cat (.chr 'a') (.chr 'b')))) (.grp (.alt (.chr 'b') .emp))))
    ['a', 'a', 'a', 'b'] = some (0, 2) := by decide

/-- `"ab" ~ /(ab)*b/` : match at 1, length 1 (the backtracking matcher said no match) -/
example : matchLL {} (.cat (.star (.grp (.cat (.chr 'a') (.chr 'b')))) (.chr 'b')) ['a', 'b'] = some (1, 1) := by decide

/-- `$|` on `a` : the empty alternative matches at 0 (both TRE engines answer 1: finding tre-empty-path-anchor) -/
example : matchLL {} (.alt .eol .emp) ['a'] = some (0, 0) := by decide

/-- `((a{2})?b)*` on `ab` : only the empty match at 0 (TRE's automaton accepts `ab`: finding tre-repeat-position-collision) -/
example : matchLL {} (.star (.grp (.cat (.opt (.grp (.rep (.chr 'a') 2 (some 2)))) (.chr 'b')))) ['a', 'b'] = some (0, 0) := by decide

/-- longest, not first alternative: `a|ab` on `ab` -/
example : matchLL {} (.alt (.chr 'a') (.cat (.chr 'a') (.chr 'b'))) ['a', 'b'] = some (0, 2) := by decide

/-- leftmost beats longer: `b+` on `abbab` -> (1,2); an empty match when nothing else: `b*` on `a` -> (0,0) -/
example : matchLL {} (.plus (.chr 'b')) ['a', 'b', 'b', 'a', 'b'] = some (1, 2) := by decide
example : matchLL {} (.star (.chr 'b')) ['a'] = some (0, 0) := by decide
example : matchLL {} (.chr 'b') ['a'] = none := by decide

/-- bounded repetition -/
example : matchLL {} (.rep (.chr 'a') 2 (some 3)) ['a', 'a', 'a', 'a'] = some (0, 3) := by decide
example : matchLL {} (.rep (.chr 'a') 2 none) ['b', 'a', 'a', 'a'] = some (1, 3) := by decide

/-- IGNORECASE and NOTBOL make a difference -/
example : matchLL {} (.chr 'a') ['A'] = none := by decide
example : matchLL { icase := true } (.chr 'a') ['A'] = some (0, 1) := by decide
example : matchLL {} (.cat .bol (.chr 'a')) ['a'] = some (0, 1) := by decide
example : matchLL { notbol := true } (.cat .bol (.chr 'a')) ['a'] = none := by decide
example : matchLL { icase := true } (.cls true [.chr 'a']) ['A', 'b'] = some (1, 1) := by decide

/-- brackets: a fold must not leak beyond the item (`[a]` does not accept `B` under IGNORECASE), negated
overlapping ranges (`[^a-cb-e]` rejects `d`), a negated named class inside a repeat (`[^[:digit:]]{2}` on `12`) -/
example : matchLL { icase := true } (.cls false [.chr 'a']) ['B'] = none := by decide
example : matchLL { icase := true } (.cls false [.range 'a' 'c']) ['D', 'C'] = some (1, 1) := by decide
example : matchLL {} (.cls true [.range 'a' 'c', .range 'b' 'e']) ['d'] = none := by decide
example : matchLL {} (.rep (.cls true [.named .digit]) 2 (some 2)) ['1', '2'] = none := by decide

/-- NOTEOL, word assertions, the remaining named classes -/
example : matchLL {} (.cat (.chr 'a') .eol) ['a'] = some (0, 1) := by decide
example : matchLL { noteol := true } (.cat (.chr 'a') .eol) ['a'] = none := by decide
example : matchLL {} (.cat (.wordb .bow) (.chr 'b')) ['a', 'b', ' ', 'b'] = some (3, 1) := by decide
example : matchLL {} (.cat (.chr 'a') (.wordb .eow)) ['a', 'a', ' ', 'a'] = some (1, 1) := by decide
example : matchLL {} (.cat (.wordb .wb) (.chr 'b')) ['a', 'b', '-', 'b'] = some (3, 1) := by decide
example : matchLL {} (.cat (.chr 'a') (.wordb .nwb)) ['a', '-', 'a', 'a'] = some (2, 1) := by decide
example : matchLL {} (.plus (.cls false [.named .punct])) ['a', '-', '_', 'b'] = some (1, 2) := by decide
example : matchLL {} (.plus (.cls false [.named .xdigit])) ['z', 'f', 'F', '1', 'g'] = some (1, 3) := by decide

/-- the hypotheses of `notbol_suffix` are satisfiable with a non-trivial match -/
example : Matches ⟨false, true, false⟩ (['x', 'a', 'b'].drop 1) (.cat (.chr 'a') (.cat (.chr 'b') .eol)) 0 2 :=
  (ends_sound_complete _ _ _ _ _).1 (by decide)

end Hawk.Rex
