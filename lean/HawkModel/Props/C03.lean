import HawkModel.RecLemmas
/-!
# C03 — The record, its fields and NF always agree

Property theorems only (helpers live in RecLemmas).  Model: `HawkModel/Rec.lean`, a transcription
of lib/rec.c (with patches/rec-field-spans.diff), the NF case of run.c:set_global, the tokenisers
of lib/misc-imp.h and the positional-reference readers of lib/val.c.

Regular-expression matching is a parameter `m : Matcher`; the theorems hold for every matcher
whose reported matches lie inside the text at or after the search start (`Sane m`, which the
C code itself assumes: it computes `match.ptr - realsub.ptr` and `match.ptr + match.len`).

Reads (`$j` by value, `$j` through a positional reference, `NF`) are functions `Rec → value`
in the model, so they cannot change the state by construction; `reads_change_nothing` records
this for the `Op` alphabet.
-/
namespace Hawk.Rec

def texts (r : Rec) : List Str := r.flds.map Fld.text

/-- the pieces of the whole-record split of `s` under the globals `e` (FS, STRIPRECSPC,
    IGNORECASE) -/
def splitTextsE (m : Matcher) (e : Env) (s : Str) : List Str :=
  texts (splitRecord m e { line := s })

/-- ... when FS is the string `fs`, STRIPRECSPC is `strip` and IGNORECASE is off -/
def splitTexts (m : Matcher) (fs : Str) (strip : Bool) (s : Str) : List Str :=
  splitTextsE m { fs := some fs, strip := strip } s

/-- how the record text was produced last (ghost state, not part of the model) -/
inductive Built where
  | init                               -- no record yet
  | split (e : Env)                    -- whole-record assignment, split under these globals
  | joined (ofs : Str)                 -- rebuilt from the fields with this separator

/-- the record, its fields, the spans and NF agree -/
structure Coherent (m : Matcher) (st : St) (b : Built) : Prop where
  /-- NF is the number of fields -/
  nf_eq : st.r.nf = st.r.flds.length
  /-- every span covers exactly the text of its field's value, in the buffer it points into -/
  spans : ∀ f ∈ st.r.flds, spanText st.r.buf f = f.text ∧ f.len = f.text.length
  /-- the value of `$0` is the record text -/
  d0_eq : st.r.d0 = st.r.line
  /-- the record text is what the last rebuild made it -/
  built : match b with
    | .init => st.r.line = [] ∧ st.r.flds = []
    | .split e => texts st.r = splitTextsE m e st.r.line
    | .joined ofs => st.r.line = ofs.intercalate (texts st.r) ∧ st.r.inw = false ∧
        Laid ofs.length 0 st.r.flds

/-- ghost update: which rebuild an op performs, and with which separator in force -/
def stepB (st : St) (b : Built) : Op → Built
  | .set0 _ => .split st.e
  | .rewrite _ => .split st.e
  | .getline _ => .split st.e
  | .setf i _ =>
    if i = 0 then .split st.e
    else if growFails st.r i then .init          -- ENOMEM: the record is cleared
    else .joined st.e.ofs
  | .setnf n =>
    if n < 0 then b
    else if growFails st.r n.toNat then .init
    else .joined st.e.ofs
  | _ => b

/-- a history run from the empty record, together with the ghost -/
def runG (m : Matcher) (ops : List Op) : St × Built :=
  ops.foldl (fun sb op => (step m sb.1 op, stepB sb.1 sb.2 op)) ({}, .init)

theorem runG_fst (m : Matcher) (ops : List Op) : (runG m ops).1 = run m ops := by
  unfold runG run
  generalize ({} : St) = s0
  generalize Built.init = b0
  induction ops generalizing s0 b0 with
  | nil => rfl
  | cons op ops ih => exact ih _ _

/-- a matcher that never matches (used by the examples that do not split) -/
def colonMatcher' : Matcher := fun _ _ _ _ => none

/-! ## every operation preserves coherence -/

/-- whole-record assignment (`$0 = s`, sub/gsub on `$0`, plain getline, the main loop's read) -/
theorem setrec0_coherent (m : Matcher) (hm : Sane m) (st : St) (b : Built) (s : Str)
    (h : Coherent m st b) :
    Coherent m { st with r := setrec0 m st.e st.r s } (.split st.e) := by
  have hnf0 : (if st.r.flds.length > 0 then (0 : Int) else st.r.nf) = 0 := by
    split
    · rfl
    · rename_i hz; rw [h.nf_eq]; simp at hz; simp [hz]
  have hdep := splitRecord_flds_dep m st.e { clrrec st.r with line := s }
  constructor
  · -- NF
    show (setrec0 m st.e st.r s).nf = _
    unfold setrec0 splitRecord
    dsimp only
    cases fsMode st.e.fsText <;> dsimp only <;> (split <;> simp_all [clrrec])
  · -- spans
    intro f hf
    unfold setrec0 splitRecord at hf ⊢
    dsimp only at hf ⊢
    cases hmode : fsMode st.e.fsText with
    | quoted a b' c d =>
      rw [hmode] at hf
      dsimp only at hf
      have hs := splitLoop_spec (tokQ a b' c d) s.length (tokQ_ok a b' c d _) true s 0 rfl (Nat.zero_le _)
      have := hs.2.2 f (by simpa [clrrec] using hf)
      simp only [Rec.buf, spanText]
      exact ⟨this.2.2.1, this.2.2.2⟩
    | each | blank | char _ | regex =>
      rw [hmode] at hf
      dsimp only at hf
      have hs := splitLoop_spec (roStep (roTok m st.e)) s.length (roTok_ok m hm st.e _) true s 0 rfl (Nat.zero_le _)
      have := hs.2.2 f (by simpa [clrrec] using hf)
      rw [splitLoop_ro_buf] at this
      simp only [Rec.buf, clrrec, spanText]
      exact ⟨this.2.2.1, this.2.2.2⟩
  · rfl
  · show texts (setrec0 m st.e st.r s) = splitTextsE m st.e (setrec0 m st.e st.r s).line
    have hline : (setrec0 m st.e st.r s).line = s := by
      unfold setrec0 splitRecord
      dsimp only
      cases fsMode st.e.fsText <;> rfl
    rw [hline]
    unfold texts splitTextsE texts setrec0
    dsimp only
    rw [hdep]

/-- `$i = s` for i ≥ 1 (recomp_record_fields) -/
theorem setfld_coherent (m : Matcher) (st : St) (b : Built) (i : Nat) (s : Str)
    (h : Coherent m st b) :
    Coherent m { st with r := setfld st.e st.r i s } (.joined st.e.ofs) := by
  have hlen : ∀ f ∈ (recompTexts st.r.flds (i - 1) s).map (fun t => ({ text := t, off := 0, len := t.length } : Fld)),
      f.len = f.text.length := by
    intro f hf
    obtain ⟨t, _, rfl⟩ := List.mem_map.mp hf
    rfl
  have htx : (relayout st.e.ofs.length 0 ((recompTexts st.r.flds (i - 1) s).map
      (fun t => ({ text := t, off := 0, len := t.length } : Fld)))).map Fld.text
      = recompTexts st.r.flds (i - 1) s := by
    rw [relayout_texts]; simp [List.map_map, Function.comp_def]
  constructor
  · show ((recompTexts st.r.flds (i - 1) s).length : Int) = _
    simp [setfld, relayout_length]
  · intro f hf
    have hl := relayout_laid st.e.ofs.length 0 ((recompTexts st.r.flds (i - 1) s).map
      (fun t => ({ text := t, off := 0, len := t.length } : Fld)))
    have hk := relayout_lenok st.e.ofs.length 0 _ hlen
    have := laid_slices' st.e.ofs _ hl hk f hf
    rw [htx] at this
    exact ⟨this, hk f hf⟩
  · rfl
  · refine ⟨?_, rfl, ?_⟩
    · show joinSep st.e.ofs _ = _
      rw [joinSep_eq_intercalate]
      unfold texts setfld
      dsimp only
      rw [htx]
    · exact relayout_laid _ _ _

/-- hawk_rtx_truncrec: `NF = n` with n ≤ NF -/
theorem truncrec_coherent (m : Matcher) (st : St) (b : Built) (n : Nat)
    (h : Coherent m st b) :
    Coherent m { st with r := { truncrec st.e st.r n with nf := ((st.r.flds.take n).length : Int) } }
      (.joined st.e.ofs) := by
  have hsp : (st.r.flds.take n).map (spanText st.r.buf) = (st.r.flds.take n).map Fld.text := by
    apply List.map_congr_left
    intro f hf
    exact (h.spans f (List.mem_of_mem_take hf)).1
  have hlen : ∀ f ∈ st.r.flds.take n, f.len = f.text.length :=
    fun f hf => (h.spans f (List.mem_of_mem_take hf)).2
  constructor
  · show ((st.r.flds.take n).length : Int) = _
    simp [truncrec, relayout_length]
  · intro f hf
    have hl := relayout_laid st.e.ofs.length 0 (st.r.flds.take n)
    have hk := relayout_lenok st.e.ofs.length 0 _ hlen
    have := laid_slices' st.e.ofs _ hl hk f hf
    rw [relayout_texts] at this
    refine ⟨?_, hk f hf⟩
    show slice (joinSep st.e.ofs ((st.r.flds.take n).map (spanText st.r.buf))) f.off f.len = f.text
    rw [hsp]; exact this
  · rfl
  · refine ⟨?_, rfl, relayout_laid _ _ _⟩
    show joinSep st.e.ofs ((st.r.flds.take n).map (spanText st.r.buf)) = _
    rw [hsp, joinSep_eq_intercalate]
    unfold texts truncrec
    dsimp only
    rw [relayout_texts]

/-- `NF = n`, n ≥ 0 (set_global, case HAWK_GBL_NF) -/
theorem setNF_coherent (m : Matcher) (st : St) (b : Built) (n : Int) (r' : Rec)
    (h : Coherent m st b) (hr : setNF st.e st.r n = .ok r') :
    0 ≤ n ∧ Coherent m { st with r := r' } (.joined st.e.ofs) := by
  unfold setNF at hr
  split at hr
  · cases hr
  · rename_i hn
    have hn0 : 0 ≤ n := by omega
    refine ⟨hn0, ?_⟩
    dsimp only at hr
    split at hr
    · rename_i hk
      cases hr
      have := truncrec_coherent m st b n.toNat h
      have e : ((st.r.flds.take n.toNat).length : Int) = n := by
        rw [List.length_take, Nat.min_eq_left hk]; omega
      rw [e] at this
      exact this
    · rename_i hk
      cases hr
      have hc := setfld_coherent m st b n.toNat [] h
      have e : (setfld st.e st.r n.toNat []).nf = n := by
        show ((recompTexts st.r.flds (n.toNat - 1) []).length : Int) = n
        rw [recompTexts_length]; omega
      have : ({ setfld st.e st.r n.toNat [] with nf := n } : Rec) = setfld st.e st.r n.toNat [] := by
        cases hx : setfld st.e st.r n.toNat [] with
        | mk l w i f nf d => rw [hx] at e; simp only at e; subst e; rfl
      rw [this]
      exact hc

/-- the error path of hawk_rtx_setrec (the field table cannot be grown): the cleared record is
    coherent -/
theorem clrrec_coherent (m : Matcher) (st : St) (b : Built) (h : Coherent m st b) :
    Coherent m { st with r := clrrec st.r } .init := by
  refine ⟨?_, (fun f hf => by cases hf), rfl, ⟨rfl, rfl⟩⟩
  show (if st.r.flds.length > 0 then (0 : Int) else st.r.nf) = (([] : List Fld).length : Int)
  split
  · rfl
  · rename_i hz; rw [h.nf_eq]; simp at hz; simp [hz]

/-- every statement of the alphabet preserves coherence -/
theorem step_coherent (m : Matcher) (hm : Sane m) (st : St) (b : Built) (op : Op)
    (h : Coherent m st b) : Coherent m (step m st op) (stepB st b op) := by
  cases op with
  | set0 s => exact setrec0_coherent m hm st b s h
  | rewrite s => exact setrec0_coherent m hm st b s h
  | getline s => exact setrec0_coherent m hm st b s h
  | setf i s =>
    unfold step stepB
    dsimp only
    split
    · exact setrec0_coherent m hm st b s h
    · split
      · exact clrrec_coherent m st b h
      · exact setfld_coherent m st b i s h
  | setnf n =>
    unfold step stepB
    dsimp only
    by_cases hg : 0 ≤ n ∧ growFails st.r n.toNat = true
    · have : ¬ n < 0 := by omega
      simp only [hg, and_self, if_true, this, if_false]
      exact clrrec_coherent m st b h
    · rw [if_neg hg]
      cases hr : setNF st.e st.r n with
      | error e =>
        have : n < 0 := by
          unfold setNF at hr
          split at hr
          · assumption
          · dsimp only at hr; split at hr <;> cases hr
        simp only [this, if_true]
        exact h
      | ok r' =>
        obtain ⟨hn, hc⟩ := setNF_coherent m st b n r' h hr
        have h1 : ¬ n < 0 := by omega
        have h2 : ¬ growFails st.r n.toNat = true := fun hh => hg ⟨hn, hh⟩
        simp only [h1, h2, if_false]
        exact hc
  | ofs x => exact ⟨h.nf_eq, h.spans, h.d0_eq, h.built⟩
  | fs y => exact ⟨h.nf_eq, h.spans, h.d0_eq, h.built⟩
  | strip y => exact ⟨h.nf_eq, h.spans, h.d0_eq, h.built⟩
  | ic y => exact ⟨h.nf_eq, h.spans, h.d0_eq, h.built⟩
  | ofmt x => exact h
  | read j => exact h
  | readnf => exact h

/-- **the invariant**: after any history of statements from the empty record, the record, its
    fields, the spans and NF agree, and the record text is what the last rebuild made it -/
theorem reachable_coherent (m : Matcher) (hm : Sane m) (ops : List Op) :
    Coherent m (runG m ops).1 (runG m ops).2 := by
  unfold runG
  have h0 : Coherent m ({} : St) Built.init :=
    ⟨rfl, (fun f hf => by cases hf), rfl, ⟨rfl, rfl⟩⟩
  generalize ({} : St) = s0 at h0 ⊢
  generalize Built.init = b0 at h0 ⊢
  induction ops generalizing s0 b0 with
  | nil => exact h0
  | cons op ops ih => exact ih _ _ (step_coherent m hm s0 b0 op h0)

/-! ## what the reads return -/

/-- reading `$i` through a positional reference (the span) gives what reading it by value
    gives — for `$0` too -/
theorem val_eq_ref (m : Matcher) (st : St) (b : Built) (h : Coherent m st b) (i : Nat) :
    readRef st.r i = readVal st.r i := by
  unfold readRef readVal
  split
  · exact h.d0_eq.symm
  · cases hf : st.r.flds[i - 1]? with
    | none => rfl
    | some f => exact (h.spans f (List.mem_of_getElem? hf)).1

/-- the truth value taken through a positional reference is "the text is not empty" -/
theorem refbool_eq (m : Matcher) (st : St) (b : Built) (h : Coherent m st b) (i : Nat) :
    readRefBool st.r i = !(readVal st.r i).isEmpty := by
  unfold readRefBool readVal
  split
  · rw [h.d0_eq]; cases st.r.line <;> simp
  · cases hf : st.r.flds[i - 1]? with
    | none => rfl
    | some f =>
      have := (h.spans f (List.mem_of_getElem? hf)).2
      dsimp only
      rw [this]; cases f.text <;> simp

/-- fields beyond NF read as empty, by value and by reference -/
theorem read_beyond_NF (m : Matcher) (st : St) (b : Built) (h : Coherent m st b) (i : Nat)
    (hi : st.r.nf < (i : Int)) : readVal st.r i = [] ∧ readRef st.r i = [] := by
  have hnf := h.nf_eq
  have h1 : readVal st.r i = [] := by
    unfold readVal
    split
    · omega
    · have : st.r.flds[i - 1]? = none := List.getElem?_eq_none (by omega)
      rw [this]
  exact ⟨h1, by rw [val_eq_ref m st b h, h1]⟩

/-- `NF` reads the number of fields -/
theorem readNF_eq (m : Matcher) (st : St) (b : Built) (h : Coherent m st b) :
    readNF st.r = st.r.flds.length := h.nf_eq

/-- after `$i = s` (i ≥ 1): `$i` reads `s`; every other existing field reads what it read
    before; the fields between the old NF and `i` are created empty; NF = max NF i; and the
    same through positional references -/
theorem setfld_reads (m : Matcher) (st : St) (b : Built) (h : Coherent m st b) (i : Nat)
    (hi : 1 ≤ i) (s : Str) :
    let r' := setfld st.e st.r i s
    (readVal r' i = s ∧ readRef r' i = s) ∧
    (∀ j, 1 ≤ j → j ≠ i → j ≤ st.r.flds.length →
        readVal r' j = readVal st.r j ∧ readRef r' j = readVal st.r j) ∧
    (∀ j, st.r.flds.length < j → j < i → readVal r' j = [] ∧ readRef r' j = []) ∧
    r'.nf = max st.r.flds.length i := by
  intro r'
  have hc := setfld_coherent m st b i s h
  have href : ∀ j, readRef r' j = readVal r' j := val_eq_ref m _ _ hc
  have hval : ∀ j, 1 ≤ j → readVal r' j = ((recompTexts st.r.flds (i - 1) s)[j - 1]?).getD [] := by
    intro j hj
    have hne : j ≠ 0 := by omega
    have e := setfld_flds_text st.e st.r i s (j - 1)
    show readVal (setfld st.e st.r i s) j = _
    unfold readVal
    rw [if_neg hne, ← e]
    cases (setfld st.e st.r i s).flds[j - 1]? <;> rfl
  have hold : ∀ j, 1 ≤ j → readVal st.r j = ((st.r.flds[j - 1]?).map Fld.text).getD [] := by
    intro j hj
    have hne : j ≠ 0 := by omega
    unfold readVal
    rw [if_neg hne]
    cases st.r.flds[j - 1]? <;> rfl
  have h1 : readVal r' i = s := by rw [hval i hi, recompTexts_at]; rfl
  have h2 : ∀ j, 1 ≤ j → j ≠ i → j ≤ st.r.flds.length → readVal r' j = readVal st.r j := by
    intro j hj hne hle
    rw [hval j hj, hold j hj, recompTexts_other _ _ _ _ (by omega), if_pos (by omega)]
  have h3 : ∀ j, st.r.flds.length < j → j < i → readVal r' j = [] := by
    intro j hlt hji
    rw [hval j (by omega), recompTexts_other _ _ _ _ (by omega), if_neg (by omega), if_pos (by omega)]
    rfl
  refine ⟨⟨h1, by rw [href, h1]⟩, fun j a b c => ⟨h2 j a b c, by rw [href, h2 j a b c]⟩,
    fun j a b => ⟨h3 j a b, by rw [href, h3 j a b]⟩, ?_⟩
  show ((recompTexts st.r.flds (i - 1) s).length : Int) = _
  rw [recompTexts_length]; omega

/-- after `NF = n` (n ≥ 0): NF reads n; the first min(n, old NF) fields read what they read
    before; every field beyond the old NF reads empty; `$0` is the fields joined by OFS -/
theorem setNF_reads (m : Matcher) (st : St) (b : Built) (h : Coherent m st b) (n : Int) (r' : Rec)
    (hr : setNF st.e st.r n = .ok r') :
    readNF r' = n ∧
    (∀ j : Nat, 1 ≤ j → (j : Int) ≤ n → j ≤ st.r.flds.length →
        readVal r' j = readVal st.r j ∧ readRef r' j = readVal st.r j) ∧
    (∀ j, st.r.flds.length < j → readVal r' j = [] ∧ readRef r' j = []) ∧
    readVal r' 0 = st.e.ofs.intercalate (texts r') ∧ r'.flds.length = n.toNat := by
  obtain ⟨hn, hc⟩ := setNF_coherent m st b n r' h hr
  have href : ∀ j, readRef r' j = readVal r' j := val_eq_ref m _ _ hc
  have hz : readVal r' 0 = st.e.ofs.intercalate (texts r') := by
    show r'.d0 = _
    rw [hc.d0_eq]; exact hc.built.1
  have hold : ∀ j, 1 ≤ j → readVal st.r j = ((st.r.flds[j - 1]?).map Fld.text).getD [] := by
    intro j hj
    have hne : j ≠ 0 := by omega
    unfold readVal
    rw [if_neg hne]
    cases st.r.flds[j - 1]? <;> rfl
  unfold setNF at hr
  rw [if_neg (by omega)] at hr
  dsimp only at hr
  split at hr
  · rename_i hk
    cases hr
    have hval : ∀ j, 1 ≤ j → readVal { truncrec st.e st.r n.toNat with nf := n } j
        = (((st.r.flds.take n.toNat)[j - 1]?).map Fld.text).getD [] := by
      intro j hj
      have hne : j ≠ 0 := by omega
      have e := relayout_getElem? st.e.ofs.length 0 (st.r.flds.take n.toNat) (j - 1)
      unfold readVal
      rw [if_neg hne, ← e]
      show (match (relayout st.e.ofs.length 0 (st.r.flds.take n.toNat))[j - 1]? with
        | some f => f.text | none => []) = _
      cases (relayout st.e.ofs.length 0 (st.r.flds.take n.toNat))[j - 1]? <;> rfl
    have h2 : ∀ j : Nat, 1 ≤ j → (j : Int) ≤ n → j ≤ st.r.flds.length →
        readVal { truncrec st.e st.r n.toNat with nf := n } j = readVal st.r j := by
      intro j hj hjn hle
      rw [hval j hj, hold j hj, List.getElem?_take_of_lt (by omega)]
    have h3 : ∀ j, st.r.flds.length < j → readVal { truncrec st.e st.r n.toNat with nf := n } j = [] := by
      intro j hlt
      rw [hval j (by omega), List.getElem?_eq_none (by simp; omega)]
      rfl
    refine ⟨rfl, fun j a b c => ⟨h2 j a b c, by rw [href, h2 j a b c]⟩,
      fun j a => ⟨h3 j a, by rw [href, h3 j a]⟩, hz, ?_⟩
    show (relayout _ _ _).length = _
    rw [relayout_length, List.length_take]; omega
  · rename_i hk
    cases hr
    have hi : 1 ≤ n.toNat := by omega
    have hs := setfld_reads m st b h n.toNat hi []
    obtain ⟨⟨s1, s1'⟩, s2, s3, s4⟩ := hs
    have hsame : ∀ j, readVal { setfld st.e st.r n.toNat [] with nf := n } j
        = readVal (setfld st.e st.r n.toNat []) j := fun j => rfl
    have h2 : ∀ j : Nat, 1 ≤ j → (j : Int) ≤ n → j ≤ st.r.flds.length →
        readVal { setfld st.e st.r n.toNat [] with nf := n } j = readVal st.r j := by
      intro j hj hjn hle
      rw [hsame]; exact (s2 j hj (by omega) hle).1
    have h3 : ∀ j, st.r.flds.length < j → readVal { setfld st.e st.r n.toNat [] with nf := n } j = [] := by
      intro j hlt
      rw [hsame]
      by_cases hjn : j < n.toNat
      · exact (s3 j hlt hjn).1
      · by_cases hje : j = n.toNat
        · rw [hje]; exact s1
        · have hcc := setfld_coherent m st b n.toNat [] h
          exact (read_beyond_NF m _ _ hcc j (by
            show (setfld st.e st.r n.toNat []).nf < _
            rw [s4]; omega)).1
    refine ⟨rfl, fun j a b c => ⟨h2 j a b c, by rw [href, h2 j a b c]⟩,
      fun j a => ⟨h3 j a, by rw [href, h3 j a]⟩, hz, ?_⟩
    show (relayout _ _ _).length = _
    rw [relayout_length, List.length_map, recompTexts_length]; omega

/-- **one separator on every path**: however `$0` is rebuilt - by `NF = n` (hawk_rtx_truncrec,
    or recomp_record_fields when the record grows) or by `$i = v` (recomp_record_fields) - the
    fields are joined with the same text: the one made of OFS when OFS was last assigned
    (`Env.ofs` = rtx->gbl.ofs, which print uses as well), whatever type of value OFS holds.
    In particular `NF = NF` and `$i = $i` produce the same record text. -/
theorem rebuild_same_separator (m : Matcher) (st : St) (b : Built) (h : Coherent m st b) :
    (∀ n r', setNF st.e st.r n = .ok r' → r'.line = st.e.ofs.intercalate (texts r')) ∧
    (∀ i s, (setfld st.e st.r i s).line = st.e.ofs.intercalate (texts (setfld st.e st.r i s))) ∧
    (∀ i r', 1 ≤ i → i ≤ st.r.flds.length → setNF st.e st.r st.r.flds.length = .ok r' →
        r'.line = (setfld st.e st.r i (readVal st.r i)).line) := by
  have p1 : ∀ n r', setNF st.e st.r n = .ok r' → r'.line = st.e.ofs.intercalate (texts r') :=
    fun n r' hr => (setNF_coherent m st b n r' h hr).2.built.1
  have p2 : ∀ i s, (setfld st.e st.r i s).line = st.e.ofs.intercalate (texts (setfld st.e st.r i s)) :=
    fun i s => (setfld_coherent m st b i s h).built.1
  refine ⟨p1, p2, fun i r' hi hle hr => ?_⟩
  -- both sides are the old texts joined by `ofs`
  have hsp : st.r.flds.map (spanText st.r.buf) = st.r.flds.map Fld.text :=
    List.map_congr_left (fun f hf => (h.spans f hf).1)
  have hl : r'.line = joinSep st.e.ofs (st.r.flds.map Fld.text) := by
    unfold setNF at hr
    rw [if_neg (by omega)] at hr
    dsimp only at hr
    rw [if_pos (by simp)] at hr
    cases hr
    show joinSep st.e.ofs ((st.r.flds.take (st.r.flds.length : Int).toNat).map (spanText st.r.buf)) = _
    have : ((st.r.flds.length : Int)).toNat = st.r.flds.length := by simp
    rw [this, List.take_length, hsp]
  have hr2 : recompTexts st.r.flds (i - 1) (readVal st.r i) = st.r.flds.map Fld.text := by
    have hrv : readVal st.r i = ((st.r.flds[i - 1]?).map Fld.text).getD [] := by
      unfold readVal
      rw [if_neg (by omega)]
      cases st.r.flds[i - 1]? <;> rfl
    have hsome : ∃ f, st.r.flds[i - 1]? = some f := by
      have : i - 1 < st.r.flds.length := by omega
      exact ⟨st.r.flds[i - 1], List.getElem?_eq_getElem this⟩
    obtain ⟨f, hf⟩ := hsome
    apply List.ext_getElem?
    intro k
    by_cases hk : k = i - 1
    · subst hk
      rw [recompTexts_at, hrv, hf, List.getElem?_map, hf]; rfl
    · rw [recompTexts_other _ _ _ _ hk, List.getElem?_map]
      by_cases hkl : k < st.r.flds.length
      · rw [if_pos hkl]
      · rw [if_neg hkl, if_neg (by omega), List.getElem?_eq_none (by omega)]; rfl
  rw [hl]
  show _ = joinSep st.e.ofs (recompTexts st.r.flds (i - 1) (readVal st.r i))
  rw [hr2]

/-- non-vacuity of `rebuild_same_separator`: with three fields and OFS = "-", `NF = NF` and
    `$1 = $1` both give `--x` -/
example :
    let st := run colonMatcher' [.setf 3 ['x'], .ofs ['-']]
    (∃ r', setNF st.e st.r 3 = .ok r' ∧ r'.line = ['-', '-', 'x']) ∧
    (setfld st.e st.r 1 (readVal st.r 1)).line = ['-', '-', 'x'] := by
  refine ⟨⟨_, rfl, by decide⟩, by decide⟩

/-- a negative NF is rejected (EINVAL) and the statement changes nothing -/
theorem setNF_negative_rejected (m : Matcher) (st : St) (n : Int) (hn : n < 0) :
    setNF st.e st.r n = .error .einval ∧ step m st (.setnf n) = st := by
  have : setNF st.e st.r n = .error .einval := by unfold setNF; rw [if_pos hn]
  have hneg : ¬ (0 ≤ n ∧ growFails st.r n.toNat = true) := fun hh => by omega
  exact ⟨this, by simp only [step, this, if_neg hneg]⟩

/-- a field number or an NF the field table cannot be grown to (beyond `maxFlds`) fails with
    ENOMEM; the record is left cleared: no fields, NF = 0, `$0` empty -/
theorem grow_failure_clears (m : Matcher) (st : St) (b : Built) (h : Coherent m st b) (k : Nat)
    (hk : growFails st.r k = true) (hk0 : k ≠ 0) (s : Str) :
    step m st (.setf k s) = { st with r := clrrec st.r } ∧
    step m st (.setnf k) = { st with r := clrrec st.r } ∧
    (clrrec st.r).flds = [] ∧ readNF (clrrec st.r) = 0 ∧ readVal (clrrec st.r) 0 = [] := by
  have hc := clrrec_coherent m st b h
  refine ⟨by simp only [step, if_neg hk0, hk, if_true], ?_, rfl, hc.nf_eq, rfl⟩
  have : (0 : Int) ≤ (k : Int) ∧ growFails st.r (k : Int).toNat = true := ⟨by omega, by simpa using hk⟩
  simp only [step, this, and_self, if_true]

/-- after a whole-record assignment (`$0 = s`, sub/gsub on `$0`, plain getline): `$0` reads `s`,
    the fields are the pieces of the split of `s` under the FS in force, NF is their number;
    by value and through positional references alike -/
theorem setrec0_reads (m : Matcher) (hm : Sane m) (st : St) (b : Built) (h : Coherent m st b) (s : Str) :
    let r' := setrec0 m st.e st.r s
    let pieces := splitTextsE m st.e s
    readVal r' 0 = s ∧ readRef r' 0 = s ∧ texts r' = pieces ∧ readNF r' = pieces.length ∧
    ∀ j, 1 ≤ j → readVal r' j = (pieces[j - 1]?).getD [] ∧ readRef r' j = (pieces[j - 1]?).getD [] := by
  intro r' pieces
  have hc := setrec0_coherent m hm st b s h
  have href : ∀ j, readRef r' j = readVal r' j := val_eq_ref m _ _ hc
  have hline : r'.line = s := by
    show (setrec0 m st.e st.r s).line = s
    unfold setrec0 splitRecord
    dsimp only
    cases fsMode st.e.fsText <;> rfl
  have ht : texts r' = pieces := by
    have := hc.built
    dsimp only at this
    rw [hline] at this
    exact this
  have h0 : readVal r' 0 = s := by
    show r'.d0 = s
    rw [hc.d0_eq]; exact hline
  have hv : ∀ j, 1 ≤ j → readVal r' j = (pieces[j - 1]?).getD [] := by
    intro j hj
    have hne : j ≠ 0 := by omega
    rw [← ht]
    unfold readVal texts
    rw [if_neg hne, List.getElem?_map]
    cases r'.flds[j - 1]? <;> rfl
  refine ⟨h0, by rw [href, h0], ht, ?_, fun j hj => ⟨hv j hj, by rw [href, hv j hj]⟩⟩
  show r'.nf = _
  rw [← ht]
  have := hc.nf_eq
  simpa [texts] using this

/-- merely reading a field or NF changes nothing (trivial by construction: in the model the
    readers are functions of the state) -/
theorem reads_change_nothing (m : Matcher) (st : St) (j : Nat) :
    step m st (.read j) = st ∧ step m st .readnf = st := ⟨rfl, rfl⟩

/-- assigning OFS, FS, STRIPRECSPC or OFMT leaves the record, its fields and NF alone (FS takes
    effect at the next split, OFS at the next rebuild); OFMT does not touch OFS either -/
theorem other_assignments_keep_record (m : Matcher) (st : St) (x : Str) (bb : Bool) :
    (step m st (.ofs x)).r = st.r ∧ (step m st (.fs x)).r = st.r ∧
    (step m st (.strip bb)).r = st.r ∧ step m st (.ofmt x) = st := ⟨rfl, rfl, rfl, rfl⟩

/-! ## "each field reads back the value last given to it or its piece of the last split" -/

/-- statements that neither re-split the record, nor assign `$i`, nor cut the record below `i` -/
def Keeps (i : Nat) : Op → Prop
  | .set0 _ => False
  | .rewrite _ => False
  | .getline _ => False
  | .setf j _ => j ≠ 0 ∧ j ≠ i ∧ j ≤ maxFlds
  | .setnf n => n < 0 ∨ ((i : Int) ≤ n ∧ n.toNat ≤ maxFlds)
  | _ => True

/-- across any number of such statements field `i` keeps its value, by value and by reference -/
theorem field_kept (m : Matcher) (hm : Sane m) (i : Nat) (hi : 1 ≤ i) (v : Str) (ops : List Op) :
    ∀ (st : St) (b : Built), Coherent m st b → readVal st.r i = v → i ≤ st.r.flds.length →
      (∀ op ∈ ops, Keeps i op) →
      readVal (ops.foldl (step m) st).r i = v ∧ readRef (ops.foldl (step m) st).r i = v := by
  induction ops with
  | nil =>
    intro st b hc hv _ _
    exact ⟨hv, by show readRef st.r i = v; rw [val_eq_ref m st b hc, hv]⟩
  | cons op ops ih =>
    intro st b hc hv hle hk
    have hkop := hk op (List.mem_cons_self ..)
    have hk' : ∀ o ∈ ops, Keeps i o := fun o ho => hk o (List.mem_cons_of_mem _ ho)
    have hc' := step_coherent m hm st b op hc
    have key : readVal (step m st op).r i = v ∧ i ≤ (step m st op).r.flds.length := by
      cases op with
      | set0 s => exact absurd hkop (by simp [Keeps])
      | rewrite s => exact absurd hkop (by simp [Keeps])
      | getline s => exact absurd hkop (by simp [Keeps])
      | setf j s =>
        obtain ⟨hj0, hji, hjm⟩ := hkop
        have hs := setfld_reads m st b hc j (by omega) s
        obtain ⟨_, s2, _, s4⟩ := hs
        have hcf := setfld_coherent m st b j s hc
        have hnf := hcf.nf_eq
        have hgf : ¬ growFails st.r j = true := by
          unfold growFails; simp only [decide_eq_true_eq]; omega
        simp only [step, if_neg hj0, if_neg hgf]
        refine ⟨by rw [(s2 i hi (Ne.symm hji) hle).1]; exact hv, ?_⟩
        have : ((setfld st.e st.r j s).flds.length : Int) = max st.r.flds.length j := by
          rw [← s4]; exact hnf.symm
        omega
      | setnf n =>
        have hgf : ¬ (0 ≤ n ∧ growFails st.r n.toNat = true) := by
          rintro ⟨h0, hg⟩
          unfold growFails at hg
          simp only [decide_eq_true_eq] at hg
          rcases hkop with h1 | h1
          · omega
          · omega
        cases hr : setNF st.e st.r n with
        | error e => simp only [step, hr, if_neg hgf]; exact ⟨hv, hle⟩
        | ok r' =>
          have hn : ¬ n < 0 := by
            intro hneg
            rw [(setNF_negative_rejected m st n hneg).1] at hr
            cases hr
          have hin : (i : Int) ≤ n := by
            rcases hkop with h1 | h1
            · exact absurd h1 hn
            · exact h1.1
          obtain ⟨_, s2, _, _, s5⟩ := setNF_reads m st b hc n r' hr
          simp only [step, hr, if_neg hgf]
          exact ⟨by rw [(s2 i hi hin hle).1]; exact hv, by omega⟩
      | ofs x => exact ⟨hv, hle⟩
      | fs y => exact ⟨hv, hle⟩
      | strip y => exact ⟨hv, hle⟩
      | ic y => exact ⟨hv, hle⟩
      | ofmt x => exact ⟨hv, hle⟩
      | read j => exact ⟨hv, hle⟩
      | readnf => exact ⟨hv, hle⟩
    exact ih _ _ hc' key.1 key.2 hk'

theorem run_append (m : Matcher) (a b : List Op) :
    run m (a ++ b) = b.foldl (step m) (run m a) := by
  simp [run, List.foldl_append]

/-- **a field reads back the value last given to it**: after any history, `$i = v`, and then any
    statements that do not re-split the record, assign `$i` again or cut the record below `i`,
    `$i` reads `v` — by value and through a positional reference (`i ≤ maxFlds`: a field number
    whose table size cannot be represented is refused, see `grow_failure_clears`) -/
theorem field_reads_last_assigned (m : Matcher) (hm : Sane m) (ops ops' : List Op) (i : Nat)
    (hi : 1 ≤ i) (him : i ≤ maxFlds) (v : Str) (hk : ∀ op ∈ ops', Keeps i op) :
    readVal (run m (ops ++ [.setf i v] ++ ops')).r i = v ∧
    readRef (run m (ops ++ [.setf i v] ++ ops')).r i = v := by
  rw [run_append, run_append]
  have hc0 := reachable_coherent m hm ops
  rw [runG_fst] at hc0
  have hne : i ≠ 0 := by omega
  have hgf : ¬ growFails (run m ops).r i = true := by
    unfold growFails; simp only [decide_eq_true_eq]; omega
  have hst : [Op.setf i v].foldl (step m) (run m ops)
      = { run m ops with r := setfld (run m ops).e (run m ops).r i v } := by
    simp [step, hne, hgf]
  rw [hst]
  obtain ⟨⟨s1, _⟩, _, _, s4⟩ := setfld_reads m _ _ hc0 i hi v
  have hc1 := setfld_coherent m _ _ i v hc0
  have hnf := hc1.nf_eq
  refine field_kept m hm i hi v ops' _ _ hc1 s1 ?_ hk
  have : ((setfld (run m ops).e (run m ops).r i v).flds.length : Int)
      = max (run m ops).r.flds.length i := by
    rw [← s4]; exact hnf.symm
  show i ≤ (setfld (run m ops).e (run m ops).r i v).flds.length
  omega

/-- **... or its piece of the last whole-record split**: after any history, a whole-record
    assignment of `s` (`$0 = s`; the same for sub/gsub and getline), and then statements that do
    not disturb field `i`, `$i` reads the i-th piece of the split of `s` under the FS then in
    force -/
theorem field_reads_split_piece (m : Matcher) (hm : Sane m) (ops ops' : List Op) (i : Nat)
    (hi : 1 ≤ i) (s : Str) (hk : ∀ op ∈ ops', Keeps i op)
    (hlen : i ≤ (splitTextsE m (run m ops).e s).length) :
    readVal (run m (ops ++ [.set0 s] ++ ops')).r i
      = ((splitTextsE m (run m ops).e s)[i - 1]?).getD [] ∧
    readRef (run m (ops ++ [.set0 s] ++ ops')).r i
      = ((splitTextsE m (run m ops).e s)[i - 1]?).getD [] := by
  rw [run_append, run_append]
  have hc0 := reachable_coherent m hm ops
  rw [runG_fst] at hc0
  have hst : [Op.set0 s].foldl (step m) (run m ops)
      = { run m ops with r := setrec0 m (run m ops).e (run m ops).r s } := by
    simp [step]
  rw [hst]
  obtain ⟨_, _, ht, _, hv⟩ := setrec0_reads m hm _ _ hc0 s
  have hc1 := setrec0_coherent m hm _ _ s hc0
  refine field_kept m hm i hi _ ops' _ _ hc1 (hv i hi).1 ?_ hk
  show i ≤ (setrec0 m (run m ops).e (run m ops).r s).flds.length
  have : (texts (setrec0 m (run m ops).e (run m ops).r s)).length
      = (splitTextsE m (run m ops).e s).length := by rw [ht]
  simp only [texts, List.length_map] at this
  omega

/-- in every reachable state: NF is the number of fields, fields beyond NF read empty, and the
    two ways of reading any `$i` agree -/
theorem reachable_reads (m : Matcher) (hm : Sane m) (ops : List Op) (i : Nat) :
    readNF (run m ops).r = (run m ops).r.flds.length ∧
    readRef (run m ops).r i = readVal (run m ops).r i ∧
    ((run m ops).r.nf < (i : Int) → readVal (run m ops).r i = []) := by
  have hc := reachable_coherent m hm ops
  rw [runG_fst] at hc
  exact ⟨hc.nf_eq, val_eq_ref m _ _ hc i, fun h => (read_beyond_NF m _ _ hc i h).1⟩

/-! ## what the pieces of a whole-record split are (non-regex modes) -/

/-- in every FS mode (blank, single character, empty, regular expression with any sane matcher,
    '?'-quoted) the fields of a whole-record split are pieces of the buffer that follow one
    another without overlapping, and each reads back exactly the characters of its piece -/
theorem split_pieces_in_order (m : Matcher) (hm : Sane m) (e : Env) (r : Rec) (s : Str) :
    let r' := setrec0 m e r s
    InOrder 0 r'.flds ∧ ∀ f ∈ r'.flds, f.off + f.len ≤ r'.buf.length ∧ f.text = slice r'.buf f.off f.len := by
  intro r'
  show InOrder 0 (setrec0 m e r s).flds ∧ ∀ f ∈ (setrec0 m e r s).flds,
    f.off + f.len ≤ (setrec0 m e r s).buf.length ∧ f.text = slice (setrec0 m e r s).buf f.off f.len
  unfold setrec0 splitRecord
  dsimp only
  cases hmode : fsMode e.fsText with
  | quoted a b c d =>
    have hok := tokQ_ok a b c d s.length
    have hs := splitLoop_spec (tokQ a b c d) s.length hok true s 0 rfl (Nat.zero_le _)
    refine ⟨by simpa [clrrec] using splitLoop_inOrder (tokQ a b c d) s.length hok true s 0 rfl (Nat.zero_le _), ?_⟩
    intro f hf
    have := hs.2.2 f (by simpa [clrrec] using hf)
    simp only [Rec.buf, if_true]
    exact ⟨by rw [hs.1]; exact this.2.1, this.2.2.1.symm⟩
  | each | blank | char _ | regex =>
    have hok := roTok_ok m hm e s.length
    have hs := splitLoop_spec (roStep (roTok m e)) s.length hok true s 0 rfl (Nat.zero_le _)
    refine ⟨by simpa [clrrec] using splitLoop_inOrder (roStep (roTok m e)) s.length hok true s 0 rfl (Nat.zero_le _), ?_⟩
    intro f hf
    have := hs.2.2 f (by simpa [clrrec] using hf)
    rw [splitLoop_ro_buf] at this
    simp only [Rec.buf, Bool.false_eq_true, if_false]
    exact ⟨this.2.1, this.2.2.1.symm⟩

/-- FS is a single character other than a blank (also a tab): the pieces joined by that
    character are the text again, and no piece contains the character.  (These two facts
    determine the pieces; the empty text has no pieces.) -/
theorem char_split_law (m : Matcher) (c : Char) (hc : c ≠ ' ') (strip : Bool) (s : Str) :
    ([c] : Str).intercalate (splitTexts m [c] strip s) = s ∧
    ∀ t ∈ splitTexts m [c] strip s, c ∉ t := by
  have hcb : (c == ' ') = false := by simpa using hc
  have e : splitTexts m [c] strip s
      = (splitLoop (roStep (tokChar c)) s.length true s 0).2.map Fld.text := by
    unfold splitTexts splitTextsE texts splitRecord roTok
    simp [fsMode, Env.fsText, hcb]
  obtain ⟨h1, h2⟩ := char_loop_law c s.length true s 0 rfl (Nat.zero_le _)
  rw [e, ← joinSep_eq_intercalate]
  refine ⟨by simpa using h1, fun t ht => ?_⟩
  obtain ⟨f, hf, rfl⟩ := List.mem_map.mp ht
  exact h2 f hf

/-- FS is a single blank (the default): the pieces are exactly the maximal runs of non-space
    characters of the text, in order (`Blanked`: the text is the pieces with runs of blanks,
    tabs and newlines between, before and after them) -/
theorem blank_split_law (m : Matcher) (strip : Bool) (s : Str) :
    Blanked (splitTexts m [' '] strip s) s := by
  have e : splitTexts m [' '] strip s
      = (splitLoop (roStep tokBlank) s.length true s 0).2.map Fld.text := by
    unfold splitTexts splitTextsE texts splitRecord roTok
    simp [fsMode, Env.fsText]
  rw [e]
  have := blank_loop_law s.length true s 0 rfl (Nat.zero_le _) (fun h => by cases h)
  simpa using this

/-- `Blanked` describes the pieces completely: any list of words that lays out the text this way
    is the list of pieces -/
theorem blank_split_unique (m : Matcher) (strip : Bool) (s : Str) (ts : List Str)
    (h : Blanked ts s) : ts = splitTexts m [' '] strip s :=
  blanked_unique ts _ s h (blank_split_law m strip s)

/-- joining the blank-mode fields with single blanks and splitting again gives the same fields
    (`$1 = $1` does not change the fields) -/
theorem blank_resplit (m : Matcher) (strip : Bool) (s : Str) :
    splitTexts m [' '] strip (([' '] : Str).intercalate (splitTexts m [' '] strip s))
      = splitTexts m [' '] strip s := by
  have hw := blanked_words _ s (blank_split_law m strip s)
  have hj := blanked_join _ hw
  rw [joinSep_eq_intercalate] at hj
  exact (blank_split_unique m strip _ _ hj).symm

/-- FS is the empty string: every character is a field -/
theorem each_split_law (m : Matcher) (strip : Bool) (s : Str) :
    splitTexts m [] strip s = s.map (fun c => [c]) := by
  have e : splitTexts m [] strip s
      = (splitLoop (roStep tokEach) s.length true s 0).2.map Fld.text := by
    unfold splitTexts splitTextsE texts splitRecord roTok
    simp [fsMode, Env.fsText]
  rw [e]
  have := each_loop_law s.length true s 0 rfl (Nat.zero_le _) (fun h => by cases h)
  simpa using this

/-! ## non-vacuity -/

/-- a matcher satisfying `Sane`: the first `:` at or after the start (FS = ":+"-like, one
    character at a time) -/
def colonMatcher : Matcher := fun _ _ line start =>
  match (line.drop start).findIdx? (· == ':') with
  | some k => some (start + k, 1)
  | none => none

example : Sane colonMatcher := by
  intro ic fs line start ms ml h
  unfold colonMatcher at h
  split at h
  · rename_i k hk
    cases h
    have := List.findIdx?_eq_some_iff_findIdx_eq.mp hk
    have hlt := this.1
    simp only [List.length_drop] at hlt
    omega
  · cases h

/-- a reachable, non-trivial coherent state: after `$3 = "x"; OFS = "-"; $1 = "ab"; NF = 2` the
    record is `ab-` with two fields at offsets 0 and 3 -/
example : (run colonMatcher [.setf 3 ['x'], .ofs ['-'], .setf 1 ['a', 'b'], .setnf 2]).r =
    { line := ['a', 'b', '-'], linew := [], inw := false,
      flds := [{ text := ['a', 'b'], off := 0, len := 2 }, { text := [], off := 3, len := 0 }],
      nf := 2, d0 := ['a', 'b', '-'] } := by
  decide

/-- the hypotheses of `field_reads_last_assigned` are satisfiable with a non-trivial tail -/
example : ∀ op ∈ [Op.setf 1 ['q'], .ofs [':'], .setnf 2, .read 2, .ofmt []], Keeps 2 op := by
  intro op h
  simp only [List.mem_cons, List.mem_nil_iff, or_false] at h
  rcases h with rfl | rfl | rfl | rfl | rfl <;> simp [Keeps, maxFlds]

end Hawk.Rec
