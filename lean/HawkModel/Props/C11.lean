import HawkModel.CmpLemmas
/-!
# C11 — comparison operators are mutually consistent

Everything is about `cmpVal`, the dispatcher that INTERPRETS the table and routine shapes generated from
lib/run.c (`HawkModel/Gen/CmpTable.lean`), for every parameter instantiation (float order, conversions,
case folding), every `Cfg` (IGNORECASE, NCMPONSTR, FLEXMAP; STRIPSTRSPC only selects the conversion
functions) and all scalar values.  "Finite floats" enters as `FltAsymm` (no two floats are each smaller
than the other: excludes nothing but NaN-like orders) and, for sorting, `FltLaws`.
-/
namespace Hawk.Cmp
variable {F : Type}

/-- the expression `a <op> b` evaluates (without run-time error) to 1 -/
def Holds (P : Params F) (cfg : Cfg) (op : Op) (a b : Val F) : Prop := evalOp P cfg op a b = .ok true

/-! ## the generated table -/

/-- Every item `extract/cmp_table.py` reads out of lib/run.c and lib/hawk.h is what the hand-written model
    uses: the ten indexing enumerators and their values, the stride, for each ordered pair of value types the
    table entry at `lvtype * 10 + rvtype` is the routine named for that pair and its body has the shape the
    model assumes (own code / mirror of which routine / alias of which routine / `__cmp_ensure_not_equal` /
    reject), the inverse-hint table, the `__cmp_ensure_not_equal` results, the hint and test of each of the
    six operators, the polarity of `===`/`!==`; consequently the generated dispatcher is the hand-written one. -/
theorem dispatch_correct :
    Gen.valTypes = Ty.all.map (fun t => (t.cname, t.code)) ∧
    Gen.stride = 10 ∧
    (∀ l r : Ty, Gen.table[l.code * Gen.stride + r.code]? = some (l.code, r.code)) ∧
    Gen.table.length = 100 ∧
    (∀ l r : Ty, Gen.shape l.code r.code = expectedShape l r) ∧
    Gen.inverseTab = Hint.all.map (fun h => h.inv.code) ∧
    Gen.ensureNotEqualTab = Hint.all.map ensureNotEqual ∧
    Gen.binops = Op.all.map (fun o => (o.name, o.hint.code, o.testCode)) ∧
    Gen.teqOps = [("teq", true), ("tne", false)] ∧
    (∀ (F : Type) (P : Params F) (cfg : Cfg) (h : Hint) (a b : Val F), cmpVal P cfg h a b = cmpDirect P cfg h a b) :=
  ⟨by decide, rfl, table_ok, rfl, shape_ok, by decide, by decide, by decide, by decide,
   fun _ P cfg h a b => cmpVal_eq_direct P cfg h a b⟩

/-! ## the three-way result -/

/-- comparing two scalars never fails and yields -1, 0 or 1, whatever hint the caller passes -/
theorem cmp_scalar_total (P : Params F) (cfg : Cfg) (a b : Val F) (ha : a.scalar = true) (hb : b.scalar = true) :
    ∃ n : Int, (n = -1 ∨ n = 0 ∨ n = 1) ∧ ∀ h, cmpVal P cfg h a b = .ok n :=
  scalar_facts0 P cfg a b ha hb

/-- antisymmetry: `cmp b a = -(cmp a b)` (as `hawk_rtx_cmpval` and under any hints) -/
theorem cmp_antisymm (P : Params F) (hP : FltAsymm P) (cfg : Cfg) (a b : Val F)
    (ha : a.scalar = true) (hb : b.scalar = true) (h h' : Hint) :
    cmpVal P cfg h' b a = neg (cmpVal P cfg h a b) := by
  obtain ⟨n, _, h1, h2⟩ := scalar_facts P hP cfg a b ha hb
  rw [h1 h, h2 h']; rfl

/-- each operator evaluates without error on scalars, to the test of the one three-way result -/
theorem ops_defined (P : Params F) (cfg : Cfg) (a b : Val F) (ha : a.scalar = true) (hb : b.scalar = true) :
    ∃ n : Int, (n = -1 ∨ n = 0 ∨ n = 1) ∧ rtxCmpVal P cfg a b = .ok n ∧ ∀ op, evalOp P cfg op a b = .ok (op.test n) := by
  obtain ⟨n, ht, hn⟩ := scalar_facts0 P cfg a b ha hb
  exact ⟨n, ht, hn .none, fun op => by simp [evalOp, hn op.hint]⟩

/-! ## the laws of the property -/

/-- exactly one of `a<b`, `a==b`, `a>b` holds -/
theorem trichotomy (P : Params F) (cfg : Cfg) (a b : Val F) (ha : a.scalar = true) (hb : b.scalar = true) :
    (Holds P cfg .lt a b ∨ Holds P cfg .eq a b ∨ Holds P cfg .gt a b) ∧
    ¬ (Holds P cfg .lt a b ∧ Holds P cfg .eq a b) ∧
    ¬ (Holds P cfg .lt a b ∧ Holds P cfg .gt a b) ∧
    ¬ (Holds P cfg .eq a b ∧ Holds P cfg .gt a b) := by
  obtain ⟨n, ht, _, hop⟩ := ops_defined P cfg a b ha hb
  simp only [Holds, hop, Op.test]
  rcases ht with rfl | rfl | rfl <;> simp

/-- `a<b` iff `b>a` -/
theorem lt_iff_gt_swapped (P : Params F) (hP : FltAsymm P) (cfg : Cfg) (a b : Val F)
    (ha : a.scalar = true) (hb : b.scalar = true) : Holds P cfg .lt a b ↔ Holds P cfg .gt b a := by
  obtain ⟨n, _, h1, h2⟩ := scalar_facts P hP cfg a b ha hb
  simp only [Holds, evalOp, h1, h2, Op.test, Op.hint]
  simp <;> omega

/-- `a>b` iff `b<a` -/
theorem gt_iff_lt_swapped (P : Params F) (hP : FltAsymm P) (cfg : Cfg) (a b : Val F)
    (ha : a.scalar = true) (hb : b.scalar = true) : Holds P cfg .gt a b ↔ Holds P cfg .lt b a :=
  (lt_iff_gt_swapped P hP cfg b a hb ha).symm

/-- `a<=b` iff `a<b` or `a==b` -/
theorem le_iff_lt_or_eq (P : Params F) (cfg : Cfg) (a b : Val F) (ha : a.scalar = true) (hb : b.scalar = true) :
    Holds P cfg .le a b ↔ (Holds P cfg .lt a b ∨ Holds P cfg .eq a b) := by
  obtain ⟨n, _, _, hop⟩ := ops_defined P cfg a b ha hb
  simp only [Holds, hop, Op.test]
  simp <;> omega

/-- `a>=b` iff `a>b` or `a==b` -/
theorem ge_iff_gt_or_eq (P : Params F) (cfg : Cfg) (a b : Val F) (ha : a.scalar = true) (hb : b.scalar = true) :
    Holds P cfg .ge a b ↔ (Holds P cfg .gt a b ∨ Holds P cfg .eq a b) := by
  obtain ⟨n, _, _, hop⟩ := ops_defined P cfg a b ha hb
  simp only [Holds, hop, Op.test]
  simp <;> omega

/-- `a!=b` iff not `a==b` (both evaluate without error) -/
theorem ne_iff_not_eq (P : Params F) (cfg : Cfg) (a b : Val F) (ha : a.scalar = true) (hb : b.scalar = true) :
    Holds P cfg .ne a b ↔ ¬ Holds P cfg .eq a b := by
  obtain ⟨n, _, _, hop⟩ := ops_defined P cfg a b ha hb
  simp only [Holds, hop, Op.test]
  simp

/-- `a==b` iff `b==a` -/
theorem eq_symm (P : Params F) (hP : FltAsymm P) (cfg : Cfg) (a b : Val F)
    (ha : a.scalar = true) (hb : b.scalar = true) : Holds P cfg .eq a b ↔ Holds P cfg .eq b a := by
  obtain ⟨n, _, h1, h2⟩ := scalar_facts P hP cfg a b ha hb
  simp only [Holds, evalOp, h1, h2, Op.test, Op.hint]
  simp

/-- `a===b` implies `a==b`.  Strings: `===` compares the texts (case-insensitively under IGNORECASE) while `==`
    compares two flagged numeric strings as numbers, so the implication needs the flags to be the ones hawk
    assigns (`NstrOK`) and, only when IGNORECASE is on, the case-insensitivity of number parsing (`FoldNum`;
    with IGNORECASE off it is a theorem: `foldNum_of_exact`).  The check evaluates `FoldNum` on the real
    conversions for every pool pair the real `===` accepts. -/
theorem teq_implies_eq (P : Params F) (hP : FltAsymm P) (cfg : Cfg)
    (hF : cfg.ignorecase = true → FoldNum P cfg) (a b : Val F)
    (ha : a.scalar = true) (hb : b.scalar = true) (hwa : NstrOK P a) (hwb : NstrOK P b)
    (ht : teqVal P cfg a b = true) : Holds P cfg .eq a b := by
  have hF' : FoldNum P cfg := by
    cases hi : cfg.ignorecase
    · exact foldNum_of_exact P hP cfg hi
    · exact hF hi
  simp [Holds, evalOp, teq_cmp_zero P cfg hF' a b ha hb hwa hwb ht, Op.test]

/-! ## asort / asorti -/

/-- `x ≤ y` under `hawk_rtx_cmpval`, the relation asort sorts by -/
def Le (P : Params F) (cfg : Cfg) (x y : Val F) : Prop := LeC (cmpVal P cfg .none) x y

/-- on values of one kind — all numbers, all plain strings (the property's two kinds), and also all flagged
    numeric strings, all byte strings, all characters, all byte characters — `hawk_rtx_cmpval` never fails and
    is a total preorder -/
theorem cmp_total_preorder_on_kind (P : Params F) (hL : FltLaws P) (cfg : Cfg) (k : Kind) :
    TotalPreorderOn (cmpVal P cfg .none) (fun v : Val F => v.hasKind k = true) :=
  kind_tpo P hL cfg k

/-- asort/asorti return a permutation of their input (whatever the comparator does), the return value is the
    number of elements, and a nil or empty source gives an empty destination -/
theorem asort_perm {α : Type} (P : Params F) (cfg : Cfg) (val : α → Val F) (src : Option (List α)) (rv : Nat) (out : List α)
    (h : asortBy P cfg val src = .ok (rv, out)) :
    rv = out.length ∧ out.Perm (src.getD []) := by
  cases src with
  | none => simp [asortBy] at h; obtain ⟨rfl, rfl⟩ := h; simp
  | some elems =>
    simp only [asortBy] at h
    cases ho : isort (fun x y => cmpVal P cfg .none (val x) (val y)) elems with
    | error e => simp [ho] at h
    | ok o =>
      simp only [ho] at h
      cases h
      exact ⟨rfl, isort_perm _ elems _ ho⟩

/-- for a source whose elements are all of one kind, asort succeeds and its result is non-decreasing:
    every earlier element is `≤` every later one under `hawk_rtx_cmpval` -/
theorem asort_sorted_on_kind {α : Type} (P : Params F) (hL : FltLaws P) (cfg : Cfg) (val : α → Val F) (k : Kind)
    (elems : List α) (hk : ∀ x ∈ elems, (val x).hasKind k = true) :
    ∃ out, asortBy P cfg val (some elems) = .ok (elems.length, out) ∧ out.Perm elems ∧
      out.Pairwise (fun x y => Le P cfg (val x) (val y)) := by
  have hT : TotalPreorderOn (fun x y => cmpVal P cfg .none (val x) (val y)) (fun x => (val x).hasKind k = true) := by
    have h0 := kind_tpo P hL cfg k
    exact ⟨fun x y hx hy => h0.ok _ _ hx hy, fun x y hx hy => h0.total _ _ hx hy,
           fun x y z hx hy hz => h0.trans _ _ _ hx hy hz⟩
  obtain ⟨out, ho, hp, hs⟩ := isort_sorted _ _ hT elems hk
  refine ⟨out, ?_, hp, hs⟩
  simp [asortBy, ho, hp.length_eq]

/-- The tie between the part of `hawk_qsortx` that is not transcribed (quicksort path, `nmemb >= 7`) and the model:
    two non-decreasing arrangements of the same one-kind multiset agree position by position up to `cmp = 0`.
    So checking "the real output is element-wise comparator-equal to the model's `isort` output" is the same as
    checking "the real output is a sorted permutation". -/
theorem sorted_perm_unique (P : Params F) (hL : FltLaws P) (cfg : Cfg) (k : Kind) (l1 l2 : List (Val F))
    (hk : ∀ x ∈ l1, x.hasKind k = true) (hp : l1.Perm l2)
    (h1 : l1.Pairwise (Le P cfg)) (h2 : l2.Pairwise (Le P cfg)) (i : Nat) (hi1 : i < l1.length) (hi2 : i < l2.length) :
    cmpVal P cfg .none l1[i] l2[i] = .ok 0 := by
  have hT := kind_tpo P hL cfg k
  have hk2 : ∀ x ∈ l2, x.hasKind k = true := fun x hx => hk x (hp.mem_iff.mpr hx)
  obtain ⟨n, hn, hn0⟩ := sorted_perm_pointwise _ _ hT l1 l2 hk hp h1 h2 i hi1 hi2
  obtain ⟨m, hm, hm0⟩ := sorted_perm_pointwise _ _ hT l2 l1 hk2 hp.symm h2 h1 i hi2 hi1
  have hs1 := hasKind_scalar _ k (hk _ (List.getElem_mem hi1))
  have hs2 := hasKind_scalar _ k (hk2 _ (List.getElem_mem hi2))
  have := cmp_antisymm P hL.toAsymm cfg l1[i] l2[i] hs1 hs2 .none .none
  rw [hn, hm] at this
  simp only [neg] at this
  cases this
  rw [hn]; congr; omega

/-! ## asort / asorti on the source containers themselves -/

/-- whatever the comparator (default or user function, consistent or not), whatever the source (nil, map with any
    keys, array with any occupied slots) and whichever variable receives it: the result of asort is a permutation of
    the source's values, that of asorti a permutation of the source's subscripts, and the return value is their number -/
theorem asort_src_perm (c : Val F → Val F → Except Err Int) (sortKeys : Bool) (src : Src F) (rv : Nat) (out : List (Val F))
    (h : fncAsortSrc c sortKeys src = .ok (rv, out)) :
    rv = out.length ∧ out.Perm (src.elems sortKeys) := by
  have key : ∀ l : List (Val F), (match isort c l with
      | .ok o => (Except.ok (o.length, o) : Except Err (Nat × List (Val F)))
      | .error e => .error e) = .ok (rv, out) → rv = out.length ∧ out.Perm l := by
    intro l hl
    cases ho : isort c l with
    | error e => simp [ho] at hl
    | ok o =>
      simp only [ho] at hl
      cases hl
      exact ⟨rfl, isort_perm _ l _ ho⟩
  cases src with
  | nil => simp [fncAsortSrc] at h; obtain ⟨rfl, rfl⟩ := h; simp [Src.elems, Src.subscripts, Src.values]
  | map ps => exact key _ h
  | arr sl => exact key _ h

/-- the subscripts asorti sorts for an array are exactly the NUMBERS of its occupied slots (slot 0, gaps and deleted
    elements included in the count of positions), as integers -/
theorem asorti_array_subscripts (sl : List (Option (Val F))) (v : Val F) :
    v ∈ (Src.arr sl).subscripts ↔ ∃ j w, v = .int (j : Nat) ∧ sl[j]? = some (some w) := by
  simp only [Src.subscripts, List.mem_map]
  constructor
  · rintro ⟨⟨j, w⟩, hm, rfl⟩
    exact ⟨j, w, rfl, by simpa using (mem_occupied sl 0 j w).mp hm⟩
  · rintro ⟨j, w, rfl, h⟩
    exact ⟨(j, w), (mem_occupied sl 0 j w).mpr ⟨Nat.zero_le _, by simpa using h⟩, rfl⟩

/-- the subscripts of a map are its keys as plain (unflagged) strings -/
theorem asorti_map_subscripts (ps : List (Str × Val F)) :
    (Src.map ps).subscripts = ps.map (fun p => Val.str p.1 0) := rfl

/-- asorti with the default comparator ALWAYS succeeds and returns the subscripts in non-decreasing order: the keys
    of a map are all plain strings, the slot numbers of an array all integers -/
theorem asorti_sorted (P : Params F) (hL : FltLaws P) (cfg : Cfg) (src : Src F) :
    ∃ out, fncAsortSrc (cmpVal P cfg .none) true src = .ok (src.subscripts.length, out) ∧
      out.Perm src.subscripts ∧ out.Pairwise (Le P cfg) := by
  have key : ∀ (k : Kind) (l : List (Val F)), (∀ x ∈ l, x.hasKind k = true) →
      ∃ out, isort (cmpVal P cfg .none) l = .ok out ∧ out.Perm l ∧ out.Pairwise (Le P cfg) :=
    fun k l hk => isort_sorted _ _ (kind_tpo P hL cfg k) l hk
  cases src with
  | nil => exact ⟨[], rfl, List.Perm.refl _, List.Pairwise.nil⟩
  | map ps =>
    obtain ⟨out, ho, hp, hs⟩ := key .str ((Src.map ps).subscripts) (by
      intro x hx; simp only [Src.subscripts, List.mem_map] at hx; obtain ⟨p, _, rfl⟩ := hx; rfl)
    exact ⟨out, by simp [fncAsortSrc, Src.elems, ho, hp.length_eq], hp, hs⟩
  | arr sl =>
    obtain ⟨out, ho, hp, hs⟩ := key .num ((Src.arr sl).subscripts) (by
      intro x hx; simp only [Src.subscripts, List.mem_map] at hx; obtain ⟨p, _, rfl⟩ := hx; rfl)
    exact ⟨out, by simp [fncAsortSrc, Src.elems, ho, hp.length_eq], hp, hs⟩

/-- asort with the default comparator on a source whose values are all of one kind: succeeds, permutation, non-decreasing -/
theorem asort_src_sorted_on_kind (P : Params F) (hL : FltLaws P) (cfg : Cfg) (k : Kind) (src : Src F)
    (hk : ∀ x ∈ src.values, x.hasKind k = true) :
    ∃ out, fncAsortSrc (cmpVal P cfg .none) false src = .ok (src.values.length, out) ∧
      out.Perm src.values ∧ out.Pairwise (Le P cfg) := by
  obtain ⟨out, ho, hp, hs⟩ := isort_sorted _ _ (kind_tpo P hL cfg k) src.values hk
  cases src with
  | nil => simp [Src.values, isort, isortAux] at ho; subst ho; exact ⟨[], rfl, List.Perm.refl _, List.Pairwise.nil⟩
  | map ps => exact ⟨out, by simp [fncAsortSrc, Src.elems, ho, hp.length_eq], hp, hs⟩
  | arr sl => exact ⟨out, by simp [fncAsortSrc, Src.elems, ho, hp.length_eq], hp, hs⟩

/-- a user comparator written with the language's own `<` and `>` (`(a<b)? -1: ((a>b)? 1: 0)`) IS `hawk_rtx_cmpval` on
    scalars, so `asort(src, dst, ucmp)` sorts by the same relation -/
theorem userCmp3_eq_cmp (P : Params F) (cfg : Cfg) (a b : Val F) (ha : a.scalar = true) (hb : b.scalar = true) :
    userCmp3 P cfg a b = cmpVal P cfg .none a b := userCmp3_eq_cmp' P cfg a b ha hb

/-- any user comparator that is a total preorder on the source's elements gives a result sorted by that comparator -/
theorem asort_user_sorted (c : Val F → Val F → Except Err Int) (S : Val F → Prop) (hT : TotalPreorderOn c S)
    (sortKeys : Bool) (src : Src F) (hS : ∀ x ∈ src.elems sortKeys, S x) :
    ∃ out, fncAsortSrc c sortKeys src = .ok ((src.elems sortKeys).length, out) ∧
      out.Perm (src.elems sortKeys) ∧ out.Pairwise (LeC c) := by
  obtain ⟨out, ho, hp, hs⟩ := isort_sorted c S hT (src.elems sortKeys) hS
  cases src with
  | nil =>
    have : out = [] := by
      have := hp.length_eq; cases sortKeys <;> simp [Src.elems, Src.subscripts, Src.values] at this <;> exact this
    subst this
    exact ⟨[], by cases sortKeys <;> simp [fncAsortSrc, Src.elems, Src.subscripts, Src.values], hp, hs⟩
  | map ps => exact ⟨out, by simp [fncAsortSrc, ho, hp.length_eq], hp, hs⟩
  | arr sl => exact ⟨out, by simp [fncAsortSrc, ho, hp.length_eq], hp, hs⟩

/-- an array with slot 0 in use, a gap and a deleted element: asorti yields the slot numbers 0, 2, 5 -/
example : fncAsortSrc (cmpVal exampleParams ⟨false, false, true⟩ .none) true
    (.arr [some (.int 50), none, some (.int 30), none, none, some (.int 10)]) = .ok (3, [.int 0, .int 2, .int 5]) := rfl

example : fncAsortSrc (cmpVal exampleParams ⟨false, false, true⟩ .none) false
    (.arr [some (.int 50), none, some (.int 30), none, none, some (.int 10)]) = .ok (3, [.int 10, .int 30, .int 50]) := rfl

example : fncAsortSrc (userCmp3 exampleParams ⟨false, false, true⟩) true
    (.map [([57], .int 1), ([49, 48], .int 2)]) = .ok (2, [.str [49, 48] 0, .str [57] 0]) := rfl

/-! ## non-vacuity: the hypotheses are satisfiable, and "one kind" cannot be dropped -/

def exLower (c : Nat) : Nat := if 65 ≤ c ∧ c ≤ 90 then c + 32 else c

/-- a lawful instance: integers as floats; a string converts through its case-folded text:
    one decimal digit, "10", or "e"/"E" read as the float 3 -/
def exampleParams : Params Int where
  lt := fun x y => decide (x < y)
  ofInt := id
  lower := exLower
  blower := exLower
  intToStr := fun _ => [48]
  fltToStr := fun _ => [48]
  intToBcs := fun _ => [48]
  fltToBcs := fun _ => [48]
  strToNum := fun s => match s.map exLower with
    | [101] => .flt 3
    | [c] => if 48 ≤ c ∧ c ≤ 57 then .int (c - 48) else .notnum
    | [49, 48] => .int 10
    | _ => .notnum
  strToFlt := fun s => match s.map exLower with | [101] => (3, true) | [c] => ((c : Int) - 48, true) | [49, 48] => (10, true) | _ => (0, false)
  strToInt := fun s => match s.map exLower with | [c] => (c : Int) - 48 | [49, 48] => 10 | _ => 0
  bcsToNum := fun _ => .notnum
  bcsToFlt := fun _ => (0, false)
  encode := id

example : FltLaws exampleParams :=
  ⟨fun x y h => by simp [exampleParams] at *; omega,
   fun x y z h1 h2 => by simp [exampleParams] at *; omega,
   fun i j => rfl⟩

/-- the float type the correspondence driver computes with (`Dy`: every finite hawk_flt_t exactly, as
    mantissa * 2^exponent, plus the infinities) satisfies the three `FltLaws` as soon as NaN is excluded,
    which is the property's "finite float" proviso -/
theorem driver_float_order_lawful :
    (∀ x y : Dy, Dy.lt x y = true → Dy.lt y x = false) ∧
    (∀ x y z : Dy, x ≠ .nan → y ≠ .nan → z ≠ .nan → Dy.lt x y = false → Dy.lt y z = false → Dy.lt x z = false) ∧
    (∀ i j : Int, Dy.lt (Dy.ofInt i) (Dy.ofInt j) = decide (i < j)) :=
  ⟨Dy.lt_asymm, Dy.lt_negTrans, Dy.ofInt_lt⟩

example : CaseInsensitiveParse exampleParams := by
  intro s t h
  simp only [exampleParams] at h ⊢
  simp [h]

/-- `teq_implies_eq` is not vacuous under IGNORECASE: "E" === "e" (both flagged as float strings) and so "E" == "e" -/
example : Holds exampleParams ⟨true, false, true⟩ .eq (.str [69] 2) (.str [101] 2) :=
  teq_implies_eq exampleParams (fun x y h => by simp [exampleParams] at *; omega) ⟨true, false, true⟩
    (fun hi => foldNum_of_caseInsensitiveParse _ (fun x y h => by simp [exampleParams] at *; omega) _ hi
      (by intro s t h; simp only [exampleParams] at h ⊢; simp [h]))
    _ _ rfl rfl (Or.inr (Or.inr ⟨rfl, 3, rfl⟩)) (Or.inr (Or.inr ⟨rfl, 3, rfl⟩)) rfl

/-- with numeric-string flags mixed with plain strings the comparator is NOT transitive (the same holds for
    POSIX awk's strnum rule), which is why the sortedness half of the property is about inputs of one kind:
    `"10"` (flagged) `≤` `"5"` (plain, string comparison) `≤` `"9"` (flagged, string comparison) but
    `"10"` (flagged) `>` `"9"` (flagged, numeric comparison) -/
theorem mixed_flag_strings_not_transitive :
    let cfg : Cfg := ⟨false, false, true⟩
    let a : Val Int := .str [49, 48] 1
    let b : Val Int := .str [53] 0
    let c : Val Int := .str [57] 1
    Le exampleParams cfg a b ∧ Le exampleParams cfg b c ∧ ¬ Le exampleParams cfg a c := by
  refine ⟨⟨-1, rfl, by decide⟩, ⟨-1, rfl, by decide⟩, ?_⟩
  rintro ⟨n, hn, h0⟩
  have : cmpVal exampleParams ⟨false, false, true⟩ .none (.str [49, 48] 1) (.str [57] 1) = .ok 1 := rfl
  rw [this] at hn; cases hn; omega

example : Holds exampleParams ⟨true, false, true⟩ .eq (.str [97] 0) (.char 65) := rfl
example : Holds exampleParams ⟨false, false, true⟩ .lt (.int 3) (.flt 4) := rfl
example : (Val.str [49, 48] 1 : Val Int).hasKind .nstr = true := rfl

end Hawk.Cmp
