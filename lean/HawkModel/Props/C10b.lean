/-
  C10 (extension): the error number, the retry levels and the nested evaluation stack.
  Property theorems + non-vacuity examples only (models and helper lemmas: HawkModel/OomRetry.lean).
  Every theorem is for ALL heap states (`State`, containing `Gc`), ALL failure schedules (`Oracle`)
  and ALL work trees (`Work`), by induction on the tree (`exec_spec`, `exec_err`).
-/
import HawkModel.OomRetry
import HawkModel.OomLemmas

namespace Hawk.Oom

attribute [local simp] requests_append grants_append frees_append requests_cons grants_cons frees_cons
  requests_nil grants_nil frees_nil rtxAlloc_nil rtxAlloc_true rtxAlloc_false

/-! ## the property theorems -/

/-- **retry_at_most_once_per_level** — for every work tree, heap state and failure schedule:
    `goto retry` (makemapval/makearrval) is taken at most once per container built, gc_calloc_val goes
    to its second request at most once per invocation (one invocation per gcval node, at most two per
    container node), and the total number of allocator requests is bounded by an explicit linear
    function of the tree: nothing loops. -/
theorem retry_at_most_once_per_level (w : Work) (s : State) (o : Oracle) :
    let r := exec w s o
    r.ctrRetries ≤ w.containers ∧
    r.gcRetries ≤ w.gcvals + 2 * w.containers ∧
    requests r.evs ≤ 6 * w.containers + 2 * w.gcvals + w.allocs + w.ivals := by
  have h := exec_spec w s o
  exact ⟨h.2.2.1, h.2.1, h.1⟩

/-- the `goto retry` is really taken (table refused twice: 1 retry, 4 requests, failure), and the
    bounds 6 requests / 2 second requests of gc_calloc_val per container are attained (on a success) -/
example : (exec .container s0 [true, false, true, false]).ctrRetries = 1 ∧
    requests (exec .container s0 [true, false, true, false]).evs = 4 := by decide
example : requests (exec .container s0 [false, true, false, false, true, true]).evs = 6 ∧
    (exec .container s0 [false, true, false, false, true, true]).gcRetries = 2 ∧
    (exec .container s0 [false, true, false, false, true, true]).ok = true := by decide

/-- **exec_failure_sets_enomem** — every failure in the model comes from a refused request
    (see `exec_failure_needs_refusal`), and whenever a tree fails, at whatever depth, the rtx's
    error number is HAWK_ENOMEM when control is back at the top: no step on the way up clears or
    overwrites it. -/
theorem exec_failure_sets_enomem (w : Work) (s : State) (o : Oracle)
    (hf : (exec w s o).ok = false) : (exec w s o).st.gem.errnum = .enomem :=
  (exec_spec w s o).2.2.2.1 hf

/-- non-vacuity: a failure three frames down, after a completed sibling, with a stale other error -/
example : (exec (.call (.seq .gcval (.call (.call .container))))
    { s0 with gem := { errnum := .other 7 } } [true, true, false, true, false]).ok = false := by decide

/-- **exec_errnum_exact** — "the only failure source is allocation", precisely: for every tree, state
    and schedule (a) a tree only fails after some request was refused, and (b) when control is back at
    the top the rtx error number is HAWK_ENOMEM iff some request on the way was refused — otherwise it
    is exactly what it was before.  (So ENOMEM is never lost on a failure path, never invented, but it
    DOES stay behind when a refusal was absorbed by a retry: the success paths do not reset it.) -/
theorem exec_errnum_exact (w : Work) (s : State) (o : Oracle) :
    let r := exec w s o
    grants r.evs ≤ requests r.evs ∧
    (r.ok = false → grants r.evs < requests r.evs) ∧
    r.st.gem.errnum = if grants r.evs = requests r.evs then s.gem.errnum else .enomem := by
  intro r
  obtain ⟨h1, h2, h3⟩ := exec_err w s o
  refine ⟨h1, h2, ?_⟩
  simp only [r]
  rw [h3]
  split <;> rfl


/-- **exec_failure_needs_refusal** — if the allocator grants every request, every tree succeeds and
    the error number is untouched: no spurious ENOMEM. -/
theorem exec_failure_needs_refusal (w : Work) (s : State) (o : Oracle) (hg : o.all id = true) :
    (exec w s o).ok = true ∧ (exec w s o).st.gem = s.gem := by
  have h := (exec_spec w s o).2.2.2.2.1 hg
  exact ⟨h.1, h.2.1⟩

example : ([true, true, true] : Oracle).all id = true := by decide
/-- the hypothesis matters: ONE refusal that is absorbed by a retry still leaves HAWK_ENOMEM behind on
    the rtx although the call succeeded (the C never resets errnum on the success path) -/
example : (exec .gcval s0 [false]).ok = true ∧ (exec .gcval s0 [false]).st.gem.errnum = .enomem := by decide

/-- a call frame fails exactly when its body does -/
theorem exec_call_ok (w : Work) (s : State) (o : Oracle) : (exec (.call w) s o).ok = (exec w s o).ok := by
  simp only [exec]
  cases h : (exec w s o).ok <;> simp [h]

/-- **api_propagates_enomem** (hawk_rtx_loop / hawk_rtx_callfun) — the API returns HAWK_NULL iff the
    evaluation failed or the final flush failed; when the evaluation failed the rtx error number is
    HAWK_ENOMEM even if the flush fails too (flush_ios_at_end saves and restores the error);
    with an allocator that grants everything and a clean flush the call succeeds and the error
    number is not modified. -/
theorem api_propagates_enomem (w : Work) (s : State) (o : Oracle) (fl : Option Errnum) :
    let a := apiCall w s o fl
    (a.retNull = true ↔ ((exec w s o).ok = false ∨ fl.isSome = true)) ∧
    ((exec w s o).ok = false → a.rtx.gem.errnum = .enomem) ∧
    (o.all id = true → fl = none → a.retNull = false ∧ a.rtx.gem = s.gem) := by
  intro a
  have hc := exec_call_ok w s o
  have hs := exec_spec (.call w) s o
  have h4 := hs.2.2.2.1
  have h5 := hs.2.2.2.2.1
  simp only [a, apiCall]
  cases hok : (exec (.call w) s o).ok with
  | false =>
    rw [hok] at hc
    have he := h4 hok
    refine ⟨?_, ?_, ?_⟩
    · simp [← hc]
    · intro _; simpa using he
    · intro hg; have := (h5 hg).1; rw [hok] at this; cases this
  | true =>
    rw [hok] at hc
    cases fl with
    | none =>
      refine ⟨?_, ?_, ?_⟩
      · simp [flushAllIos, ← hc]
      · intro hk; rw [← hc] at hk; cases hk
      · intro hg _; simpa [flushAllIos] using (h5 hg).2.1
    | some e =>
      refine ⟨?_, ?_, ?_⟩
      · simp [flushAllIos, ← hc]
      · intro hk; rw [← hc] at hk; cases hk
      · intro _ hn; cases hn

/-- non-vacuity: evaluation fails AND the flush fails with another error: ENOMEM survives -/
example : (apiCall (.seq .alloc .container) s0 [true, false, false] (some (.other 3))).retNull = true ∧
    (apiCall (.seq .alloc .container) s0 [true, false, false] (some (.other 3))).rtx.gem.errnum = .enomem := by
  decide

/-- **open_propagates_enomem** (hawk_rtx_open, the place where the library itself calls
    hawk_rtx_errortohawk) — HAWK_NULL is returned iff initialisation failed, and then both the rtx
    and the hawk object carry HAWK_ENOMEM; on success the hawk object's error number is not modified. -/
theorem open_propagates_enomem (w : Work) (s : State) (hawk : Gem) (o : Oracle) :
    let a := rtxOpen w s hawk o
    (a.retNull = true ↔ (exec w s o).ok = false) ∧
    (a.retNull = true → a.rtx.gem.errnum = .enomem ∧ a.hawk.errnum = .enomem) ∧
    (a.retNull = false → a.hawk = hawk) ∧
    (o.all id = true → a.retNull = false ∧ a.rtx.gem = s.gem ∧ a.hawk = hawk) := by
  intro a
  have hc := exec_call_ok w s o
  have hs := exec_spec (.call w) s o
  have h4 := hs.2.2.2.1
  have h5 := hs.2.2.2.2.1
  simp only [a, rtxOpen]
  cases hok : (exec (.call w) s o).ok with
  | false =>
    rw [hok] at hc
    have he := h4 hok
    refine ⟨by simp [← hc], ?_, by simp, ?_⟩
    · intro _; simpa [errorToHawk] using he
    · intro hg; have := (h5 hg).1; rw [hok] at this; cases this
  | true =>
    rw [hok] at hc
    refine ⟨by simp [← hc], by simp, by simp, ?_⟩
    intro hg; simpa using (h5 hg).2.1

example : (rtxOpen (.seq .container .gcval) s0 { errnum := .noerr } [true, true, false, false]).retNull = true ∧
    (rtxOpen (.seq .container .gcval) s0 { errnum := .noerr } [true, true, false, false]).hawk.errnum = .enomem := by
  decide

/-- **exec_balanced** — for every tree, state and schedule, failed or not: every granted block is either
    given back (gc_free_val / frame unwinding), or owned by a value a COMPLETED step returned, or linked
    into rtx->vmgr.ichunk (released by hawk_rtx_close); a failed step owns nothing, so `owned` never
    exceeds what the tree's completed steps can hold, and equals it on success. -/
theorem exec_balanced (w : Work) (s : State) (o : Oracle) :
    let r := exec w s o
    grants r.evs + s.ichunks = frees r.evs + r.owned + r.st.ichunks ∧
    s.ichunks ≤ r.st.ichunks ∧ r.owned ≤ w.blocks ∧ (r.ok = true → r.owned = w.blocks) := by
  have h := exec_spec w s o
  exact ⟨h.2.2.2.2.2.1, h.2.2.2.2.2.2.2.2, h.2.2.2.2.2.2.2.1, h.2.2.2.2.2.2.1⟩

/-- **exec_failure_balanced** — (1) a failed constructor (any leaf: plain allocation, gc_calloc_val,
    makemapval/makearrval, makeintval) leaves `grants = frees` and the chunk list unchanged: nothing of
    a half-built value survives (`makeval_retry_bounded`, here with the error number and for every leaf);
    (2) a failed call frame — whatever completed inside it — leaves nothing but the int chunks it linked. -/
theorem exec_failure_balanced (w : Work) (s : State) (o : Oracle) :
    ((w = .alloc ∨ w = .gcval ∨ w = .container ∨ (∃ b, w = .ival b)) → (exec w s o).ok = false →
      grants (exec w s o).evs = frees (exec w s o).evs ∧ (exec w s o).st.ichunks = s.ichunks ∧
      (exec w s o).st.ifree = s.ifree) ∧
    ((exec (.call w) s o).ok = false →
      (exec (.call w) s o).owned = 0 ∧
      grants (exec (.call w) s o).evs + s.ichunks = frees (exec (.call w) s o).evs + (exec (.call w) s o).st.ichunks) := by
  constructor
  · intro hw hf
    rcases hw with rfl | rfl | rfl | ⟨b, rfl⟩
    · have h := alloc_ok s o
      have hb := h.1.2.2.2.2.2.1
      simp only [exec] at hf ⊢
      have := h.2.1 hf
      refine ⟨by omega, h.2.2, ?_⟩
      rcases o with _ | ⟨b, o⟩
      · simp [plainAlloc]
      · cases b <;> simp [plainAlloc]
    · have h := gcCallocValE_spec s o
      simp only at h
      simp only [exec] at hf ⊢
      have := h.2.2.2.2.2.1 hf
      exact ⟨by omega, h.2.2.2.2.2.2.1, h.2.2.2.2.2.2.2.1⟩
    · have h := makeContainerE_spec s o
      simp only at h
      simp only [exec] at hf ⊢
      exact ⟨(h.2.2.2.2.1 hf).1, h.2.2.2.2.2.1, h.2.2.2.2.2.2.1⟩
    · have h := ival_ok b s o
      have hb := h.1.2.2.2.2.2.1
      simp only [exec] at hf ⊢
      have hi := h.2 hf
      have ho := h.1.2.2.2.2.2.2.2.1
      exact ⟨by omega, hi.2, hi.1⟩
  · intro hf
    have hc := exec_call_ok w s o
    rw [hf] at hc
    have h := (exec_spec (.call w) s o).2.2.2.2.2.1
    have h0 : (exec (.call w) s o).owned = 0 := by
      simp only [exec]; simp [← hc]
    exact ⟨h0, by omega⟩

/-- non-vacuity of (2): the first container completes (2 blocks), the second fails in a nested frame;
    the outer frame gives the two blocks back -/
example : (exec (.call (.seq .container (.call .container))) s0 [true, true, true, false, true, false]).ok = false ∧
    grants (exec (.call (.seq .container (.call .container))) s0 [true, true, true, false, true, false]).evs = 4 ∧
    frees (exec (.call (.seq .container (.call .container))) s0 [true, true, true, false, true, false]).evs = 4 := by
  decide
/-- without the frame the completed sibling keeps its blocks (and `exec_balanced` accounts for them) -/
example : (exec (.seq .container .container) s0 [true, true, true, false, true, false]).ok = false ∧
    (exec (.seq .container .container) s0 [true, true, true, false, true, false]).owned = 2 := by decide

/-- **makeintval_no_retry** — hawk_rtx_makeintval: at most ONE request, no collection and no second
    attempt (unlike gc_calloc_val); a refusal returns NULL with ENOMEM and leaves free list and chunk
    list unchanged; a non-empty free list or a small integer makes no request at all. -/
theorem makeintval_no_retry (small : Bool) (s : State) (o : Oracle) :
    let r := makeIntVal small s o
    requests r.evs ≤ 1 ∧ collects r.evs = 0 ∧ r.gcRetries = 0 ∧
    (r.ok = false → r.st.gem.errnum = .enomem ∧ r.st.ifree = s.ifree ∧ r.st.ichunks = s.ichunks) ∧
    ((small = true ∨ s.ifree > 0) → r.ok = true ∧ r.evs = [] ∧ r.st.gem = s.gem) ∧
    (r.ok = true → small = false → s.ifree = 0 → r.st.ifree = chunkSize - 1 ∧ r.st.ichunks = s.ichunks + 1) := by
  intro r
  simp only [r]
  cases small
  · by_cases hf : s.ifree = 0
    · rcases o with _ | ⟨b, o⟩
      · simp [makeIntVal, hf, collects]
      · cases b <;> simp [makeIntVal, hf, collects]
    · have : s.ifree > 0 := by omega
      simp [makeIntVal, hf, collects, requests]
  · simp [makeIntVal, collects, requests]

example : (makeIntVal false s0 [false]).ok = false := by decide

/-- **single_refusal_absorbed_gcval** — with at most one refusal in the whole schedule, a tree made only
    of gc_calloc_val steps (in any nesting) always succeeds: the refusal is absorbed by the full
    collection and the second request (lifts `gc_calloc_single_refusal` to sequences and frames). -/
theorem single_refusal_absorbed_gcval (w : Work) (hw : w.onlyGcval = true) :
    ∀ (s : State) (o : Oracle), o.count false ≤ 1 →
      (exec w s o).ok = true ∧ (exec w s o).rest.count false ≤ o.count false := by
  induction w with
  | alloc => simp [Work.onlyGcval] at hw
  | container => simp [Work.onlyGcval] at hw
  | ival b => simp [Work.onlyGcval] at hw
  | gcval =>
    intro s o ho
    have h := gcCallocValE_spec s o
    simp only at h
    simpa [exec] using h.2.2.2.2.2.2.2.2.2 ho
  | seq a b iha ihb =>
    simp only [Work.onlyGcval, Bool.and_eq_true] at hw
    intro s o ho
    obtain ⟨a1, a2⟩ := iha hw.1 s o ho
    obtain ⟨b1, b2⟩ := ihb hw.2 (exec a s o).st (exec a s o).rest (by omega)
    simp only [exec, a1, Bool.not_true, Bool.false_eq_true, if_false]
    exact ⟨b1, by omega⟩
  | call b ih =>
    simp only [Work.onlyGcval] at hw
    intro s o ho
    obtain ⟨b1, b2⟩ := ih hw s o ho
    simp only [exec, b1, if_true]
    exact ⟨trivial, b2⟩

example : (Work.seq .gcval (.call (.seq .gcval .gcval))).onlyGcval = true ∧
    ([true, false, true, true] : Oracle).count false ≤ 1 := by decide
/-- two refusals are not absorbed -/
example : (exec .gcval s0 [false, false]).ok = false := by decide

end Hawk.Oom
