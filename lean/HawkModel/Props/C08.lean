import HawkModel.ExprLemmas
import HawkModel.ExprBlockLemmas
import HawkModel.ExprCallLemmas
import HawkModel.Gen.OpTables
/-!
# Property C08 - an expression's value does not depend on where its operands are stored

"Evaluating an expression yields the same value and type, or the same error, whether its operands are
written as literals (and possibly folded at parse time) or are read from undeclared variables, declared
globals, locals, function parameters, by-reference parameters, or map and array elements; `x op= y`
behaves as `x = x op y`, and the increment and decrement forms as the corresponding add-and-assign."

All theorems hold for every float implementation (`FloatOps F`) and every `Ext` (string/number conversion,
comparison, matching, FLEXMAP setting).  The model (`HawkModel/Expr.lean`) follows the code with the repairs of
this round applied (zero and minus-one divisor guards in the folder and the evaluator, `float \ integer` folding reading
the float view: `patches/fold-idiv-flt-int`).

The storage layer below the expressions (`HawkModel/ExprBlock.lean`, round 5): the flat frame of block-level locals
as `parse_block` lays it out and `run_block0` resets it, proved to simulate lexically scoped locals for every program of
the model language, every placement of the non-locals and every garbage left in the frame by earlier blocks, loop
iterations and calls (`block_locals_scoped`, `block_frame_top`, `block_placement_independent`, `byref_block_call`,
`fresh_local_reads_nil`); the dispatch tables and the block constants are generated (`ref_dispatch_matches`,
`expr_dispatch_matches`, `block_tables_match`).

Two clauses hold only with a side condition, and the condition is necessary (witness theorems below):
* `fold_expr_error_partial`: a parse-time folding error is the run-time error of the folded operator
  application - but the parser reports it even when the run time would never evaluate that application
  (`fold_eager_error_witness`: `0 && (1 / 0)`), as gawk does.
* `compound_assign_partial`: `x op= y` is `x = x op y` when `y` does not itself assign to `x`;
  `eval_assignment` evaluates `y` before it reads `x` (`compound_assign_order_witness`: `x += (x = 5)`), as gawk does.
-/
set_option linter.unusedSectionVars false
set_option linter.unusedSimpArgs false
namespace Hawk.Expr
open FloatOps Hawk.Gen.OpTables
variable {F : Type} [FloatOps F]

/-! ## generated tables against the model (T) -/

/-- the model's operator type lists `hawk_binop_type_t` in declaration order -/
theorem binop_enum_matches : BinOp.all.map BinOp.cname = binopEnum := by decide

/-- the model's assignment operator type lists `hawk_assop_type_t` in declaration order -/
theorem assop_enum_matches : AssOp.all.map AssOp.cname = assopEnum := by decide

/-- every case of `evalBinop` transcribes the function `eval_binary` dispatches to for that opcode,
and the opcodes with a NULL table entry are exactly the ones `eval` handles on the operand nodes -/
theorem binop_table_matches : BinOp.all.map BinOp.cfun = evalBinaryTable := by decide

/-- a compound assignment applies, through `eval_assignment`'s own table, the very function that
`eval_binary` applies for the corresponding binary operator -/
theorem assop_maps_to_binop : ∀ a ∈ AssOp.all, a ≠ .none →
    evalAssignTable[AssOp.all.idxOf a]? = some ((assopToBinop a).cfun) ∧
    evalBinaryTable[BinOp.all.idxOf (assopToBinop a)]? = some ((assopToBinop a).cfun) ∧
    ((assopToBinop a).cfun).isSome = true ∧
    (assopToBinop a).cname = a.cname := by decide

/-- the parser maps the assignment tokens to the assignment opcodes in enum order -/
theorem parse_assop_table_matches : parseAssopTable = assopEnum ∧ assnTokens = assopEnum := by decide

/-- `eval_incpre` and `eval_incpst` use +1 / -1 (integer and float) exactly as `incDelta`;
`eval_assignment` evaluates the right-hand side first, as `eval` does -/
theorem incdec_table_matches :
    incpre = [IncOp.plus, IncOp.minus].map (fun o => (o.cname, incDelta o, incDelta o)) ∧
    incpst = incpre ∧ incopEnum = [IncOp.plus, IncOp.minus].map IncOp.cname ∧ assignRhsFirst = true := by decide

/-! ## the folder against the evaluator -/

/-- the literal value a successful fold stores into the node -/
def FoldResult.value? : FoldResult F → Option (Val F)
  | .int l => some (.int l)
  | .flt r => some (.flt r)
  | _ => none

/-- whenever `fold_constants_for_binop` folds, the run-time operator on the two literal values yields exactly
the folded value (same type, same number) - for every operator, every pair of literal nodes, whatever the
inactive views of the nodes contain -/
theorem fold_sound (X : Ext F) (op : BinOp) (a b : LitNode F) (v : Val F)
    (h : (foldBinop op a b).value? = some v) : evalBinop X op a.val b.val = .ok v := by
  have hs := foldBinop_spec X op a b
  cases hf : foldBinop op a b with
  | int l => rw [hf] at h hs; simp [FoldResult.value?] at h; subst h; exact hs
  | flt r => rw [hf] at h hs; simp [FoldResult.value?] at h; subst h; exact hs
  | nofold => rw [hf] at h; simp [FoldResult.value?] at h
  | error e => rw [hf] at h; simp [FoldResult.value?] at h
  | crash => rw [hf] at h; simp [FoldResult.value?] at h

/-- the folder fails the parse only where the run-time operator fails with the same error -/
theorem fold_error_matches (X : Ext F) (op : BinOp) (a b : LitNode F) (e : Err)
    (h : foldBinop op a b = .error e) : evalBinop X op a.val b.val = .error e := by
  have hs := foldBinop_spec X op a b
  rw [h] at hs; exact hs

/-- the only error the folder reports is division by zero -/
theorem fold_error_is_divby0 (op : BinOp) (a b : LitNode F) (e : Err)
    (h : foldBinop op a b = .error e) : e = .divby0 := by
  rcases a with ⟨ta, ia, fa⟩
  rcases b with ⟨tb, ib, fb⟩
  cases ta <;> cases tb <;> cases op <;> simp [foldBinop] at h
  all_goals
    by_cases hb : ib = 0
    · simp [hb] at h; exact h.symm
    · by_cases h1 : ib = -1
      · by_cases h2 : ia = INT_MIN
        · simp [hb, h1, h2] at h
        · obtain ⟨m, hm⟩ := cmod_isSome ia ib hb (fun hh => h2 hh.1)
          obtain ⟨q, hq⟩ := cdiv_isSome ia ib hb (fun hh => h2 hh.1)
          rw [h1] at hm hq
          by_cases hm0 : m = 0 <;> simp [h1, h2, hm, hq, hm0] at h
      · obtain ⟨m, hm⟩ := cmod_isSome' ia ib hb h1
        obtain ⟨q, hq⟩ := cdiv_isSome' ia ib hb h1
        by_cases hm0 : m = 0 <;> simp [hb, h1, hm, hq, hm0] at h

/-- the folder performs no unguarded `/` or `%`: the partial machine division is defined wherever it is used -/
theorem fold_total (op : BinOp) (a b : LitNode F) : foldBinop op a b ≠ .crash :=
  foldBinop_ne_crash op a b

/-- the run-time integer `/`, `\`, `%` (and every other table operator) never execute a trapping division either -/
theorem eval_total (X : Ext F) (op : BinOp) (l r : Val F)
    (hcmp : ∀ c, X.cmp c l r ≠ .error .crash) : evalBinop X op l r ≠ .error .crash :=
  evalBinop_ne_crash X op l r hcmp

/-- the literal folding of `parse_unary` always folds, and to the value `eval_unary` computes -/
theorem fold_unary_sound (X : Ext F) (op : UnrOp) (a : LitNode F) :
    ∃ v, (foldUnary op a).value? = some v ∧ evalUnary X op a.val = .ok v := by
  have hs := foldUnary_spec X op a
  cases hf : foldUnary op a with
  | int l => rw [hf] at hs; exact ⟨_, rfl, hs⟩
  | flt r => rw [hf] at hs; exact ⟨_, rfl, hs⟩
  | nofold => rw [hf] at hs; exact hs.elim
  | error e => rw [hf] at hs; exact hs.elim
  | crash => rw [hf] at hs; exact hs.elim

/-- whole expressions: if the parse (with folding, through any nesting of parentheses, unary and binary
operators, conditionals and assignments) succeeds, the folded tree evaluates exactly like the unfolded one -
same value or same error, same final state - under every storage and from every state -/
theorem fold_expr_sound {S R : Type} (X : Ext F) (st : Storage S R F) (e e' : Expr R F)
    (h : foldExpr e = .ok e') (s : S) : eval X st e' s = eval X st e s :=
  foldExpr_sound X st e e' h s

theorem FoldFails.spec {R : Type} {e : Expr R F} {op : BinOp} {l r : Expr R F} {a b : LitNode F} {err : Err}
    (h : FoldFails e op l r a b err) :
    foldExpr l = .ok (.lit a) ∧ foldExpr r = .ok (.lit b) ∧ foldBinop op a b = .error err := by
  induction h with
  | here h1 h2 h3 => exact ⟨h1, h2, h3⟩
  | un _ ih => exact ih
  | binL _ ih => exact ih
  | binR _ ih => exact ih
  | cndC _ ih => exact ih
  | cndT _ ih => exact ih
  | cndF _ ih => exact ih
  | asg _ ih => exact ih

/-- a parse-time folding error is division by zero, it stems from one operator application `l op r` inside
the expression whose operands are constant (they evaluate to the literal values `a`, `b` from every state
without changing it), and the run time fails with the same error when it evaluates that application.
PARTIAL with respect to the English property: the parser reports the error even if the run time would never
evaluate `l op r` (see `fold_eager_error_witness`). -/
theorem fold_expr_error_partial {S R : Type} (X : Ext F) (st : Storage S R F) (e : Expr R F) (err : Err)
    (h : foldExpr e = .error err) :
    err = .divby0 ∧ ∃ op l r a b, FoldFails e op l r a b err ∧
      (∀ s, eval X st l s = .ok (a.val, s)) ∧ (∀ s, eval X st r s = .ok (b.val, s)) ∧
      (∀ s, eval X st (.bin op l r) s = .error err) := by
  obtain ⟨op, l, r, a, b, hf⟩ := foldExpr_error e err h
  obtain ⟨h1, h2, h3⟩ := hf.spec
  have hl : ∀ s, eval X st l s = .ok (a.val, s) := fun s => by
    rw [← foldExpr_sound X st l _ h1 s]; simp [eval]
  have hr : ∀ s, eval X st r s = .ok (b.val, s) := fun s => by
    rw [← foldExpr_sound X st r _ h2 s]; simp [eval]
  have he := fold_error_matches X op a b err h3
  have hd := fold_error_is_divby0 op a b err h3
  subst hd
  refine ⟨rfl, op, l, r, a, b, hf, hl, hr, fun s => ?_⟩
  cases op <;> first | (simp [evalBinop] at he; done) | simp [eval, hl, hr, he]

/-- the side condition of `fold_expr_error_partial` is necessary: `0 && (1 / 0)` fails to parse with
"divide by zero" although its evaluation yields 0 without dividing -/
theorem fold_eager_error_witness (X : Ext F) (σ : Store F) :
    let e : Expr Nat F := .bin .land (.lit (LitNode.mkInt 0)) (.bin .div (.lit (LitNode.mkInt 1)) (.lit (LitNode.mkInt 0)))
    foldExpr e = .error .divby0 ∧ eval X slotStorage e σ = .ok (.int 0, σ) := by
  simp [foldExpr, foldBinNode, foldBinop, LitNode.mkInt, BinOp.viaParseBinary, eval, LitNode.val, toBool]

/-! ## storage independence -/

/-- THE PLACEMENT THEOREM.  Let `e` be an expression over abstract operand slots, `σ` the slot values, and
`π`, `π'` two placements of the slots on variable references - plain named variables, globals, locals,
parameters, elements of maps or arrays, in any mixture - that do not alias.  If the environments store `σ`
under the respective placement, then evaluating `e` placed by `π` and `e` placed by `π'` gives what the
reference semantics on bare slots gives: the same value, or the same error; and both final environments
store the same final slot values (assignments, compound assignments, increments land in the right place). -/
theorem storage_independent (X : Ext F) (π π' : Nat → Ref) (hπ : NoAlias π) (hπ' : NoAlias π')
    (e : Expr Nat F) (env env' : Env F) (σ : Store F) (h : Holds π env σ) (h' : Holds π' env' σ) :
    match eval X slotStorage e σ with
    | .ok (v, σ') => ∃ env₁ env₁',
        eval X (envStorage X) (e.map π) env = .ok (v, env₁) ∧
        eval X (envStorage X) (e.map π') env' = .ok (v, env₁') ∧
        Holds π env₁ σ' ∧ Holds π' env₁' σ'
    | .error err =>
        eval X (envStorage X) (e.map π) env = .error err ∧
        eval X (envStorage X) (e.map π') env' = .error err := by
  have s1 := eval_sim X (env_simulates X π hπ) e env σ h
  have s2 := eval_sim X (env_simulates X π' hπ') e env' σ h'
  cases hres : eval X slotStorage e σ with
  | error err => rw [hres] at s1 s2; exact ⟨s1, s2⟩
  | ok p =>
    obtain ⟨v, σ'⟩ := p
    rw [hres] at s1 s2
    obtain ⟨e1, a1, b1⟩ := s1
    obtain ⟨e2, a2, b2⟩ := s2
    exact ⟨e1, e2, a1, a2, b1, b2⟩

/-- every accessor returns the stored value: reading a slot through any well-kinded reference
(`eval_named`, `eval_gbl`, `eval_lcl`, `eval_arg`, `eval_indexed` on a map or an array) yields the slot value -/
theorem read_returns_stored (X : Ext F) (π : Nat → Ref) (env : Env F) (σ : Store F) (h : Holds π env σ) (i : Nat) :
    ∃ env₁, eval X (envStorage X) (.var (π i)) env = .ok (σ i, env₁) := by
  obtain ⟨e', h1, _, _⟩ := envRead_good env (π i) (σ i) (h i)
  exact ⟨e', by simpa [eval, envStorage] using h1⟩

/-- BY-REFERENCE PARAMETERS.  Calling `function f(&p0, .., &p(n-1)) { return e }` with the variables placed by `π`
as arguments gives the value (or error) of `e` on the bare slots, and after the call the argument variables hold
the final slot values (copy-back in `hawk_rtx_evalcall`); every other slot's variable is unchanged. -/
theorem byref_independent (X : Ext F) (π : Nat → Ref) (hπ : NoAlias π) (n : Nat) (e : Expr Nat F)
    (env : Env F) (σ : Store F) (h : Holds π env σ) (hnil : ∀ i, n ≤ i → σ i = .nil) :
    match eval X slotStorage e σ with
    | .ok (v, σ') => ∃ env', evalCallByRef X ((List.range n).map π) (e.map argπ) env = .ok (v, env') ∧
        (∀ i, i < n → Good env' (π i) (σ' i)) ∧ (∀ i, n ≤ i → Good env' (π i) (σ i))
    | .error err => evalCallByRef X ((List.range n).map π) (e.map argπ) env = .error err :=
  byref_sim X π hπ n e env σ h hnil

/-- LITERAL OPERANDS.  Writing the operands selected by `L` (none of them an assignment target) as literals of
their values, parsing the result (which folds constant sub-expressions) and evaluating it gives exactly what
evaluating the original expression over the slots gives - provided the parse succeeds
(for a failing parse see `fold_expr_error_partial`). -/
theorem literal_placement (X : Ext F) (L : Nat → Bool) (σ : Store F) (e e' : Expr Nat F)
    (hL : ∀ i, L i = true → i ∉ e.targets) (hf : foldExpr (substLit L σ e) = .ok e') :
    eval X slotStorage e' σ = eval X slotStorage e σ := by
  rw [foldExpr_sound X slotStorage _ e' hf σ]
  exact substLit_sound X L σ e hL σ (fun _ _ => rfl)

/-! ## compound assignment, increment, decrement -/

/-- `x op= y` evaluates like `x = x op y` on the bare slots: same value or error, same final store -
for every compound operator, when `y` contains no assignment to `x`.
PARTIAL: without the side condition the two differ (`compound_assign_order_witness`). -/
theorem compound_assign_partial (X : Ext F) (op : AssOp) (hop : op ≠ .none) (x : Nat) (y : Expr Nat F)
    (hx : x ∉ y.targets) (σ : Store F) :
    eval X slotStorage (.asg op x y) σ =
      eval X slotStorage (.asg .none x (.bin (assopToBinop op) (.var x) y)) σ :=
  compound_assign_slots X op hop x y hx σ

/-- the same under every placement: both forms give the same value (or error) and final environments that
store the same slot values -/
theorem compound_assign_placed_partial (X : Ext F) (π : Nat → Ref) (hπ : NoAlias π) (op : AssOp) (hop : op ≠ .none)
    (x : Nat) (y : Expr Nat F) (hx : x ∉ y.targets) (env : Env F) (σ : Store F) (h : Holds π env σ) :
    match eval X slotStorage (.asg op x y) σ with
    | .ok (v, σ') => ∃ env₁ env₂,
        eval X (envStorage X) ((Expr.asg op x y).map π) env = .ok (v, env₁) ∧
        eval X (envStorage X) ((Expr.asg .none x (.bin (assopToBinop op) (.var x) y)).map π) env = .ok (v, env₂) ∧
        Holds π env₁ σ' ∧ Holds π env₂ σ'
    | .error err =>
        eval X (envStorage X) ((Expr.asg op x y).map π) env = .error err ∧
        eval X (envStorage X) ((Expr.asg .none x (.bin (assopToBinop op) (.var x) y)).map π) env = .error err := by
  have s1 := eval_sim X (env_simulates X π hπ) (.asg op x y) env σ h
  have s2 := eval_sim X (env_simulates X π hπ) (.asg .none x (.bin (assopToBinop op) (.var x) y)) env σ h
  rw [← compound_assign_slots X op hop x y hx σ] at s2
  cases hres : eval X slotStorage (.asg op x y) σ with
  | error err => rw [hres] at s1 s2; exact ⟨s1, s2⟩
  | ok p =>
    obtain ⟨v, σ'⟩ := p
    rw [hres] at s1 s2
    obtain ⟨e1, a1, b1⟩ := s1
    obtain ⟨e2, a2, b2⟩ := s2
    exact ⟨e1, e2, a1, a2, b1, b2⟩

/-- the side condition is necessary: with `x = 1`, `x += (x = 5)` yields 10 but `x = x + (x = 5)` yields 6 -/
theorem compound_assign_order_witness (X : Ext F) :
    let σ : Store F := fun _ => .int 1
    let y : Expr Nat F := .asg .none 0 (.lit (LitNode.mkInt 5))
    (eval X slotStorage (.asg .plus 0 y) σ).map (·.1) = .ok (.int 10) ∧
    (eval X slotStorage (.asg .none 0 (.bin .plus (.var 0) y)) σ).map (·.1) = .ok (.int 6) := by
  simp [eval, assopToBinop, evalBinop, evalPlus, toNum, LitNode.mkInt, LitNode.val, Store.set, wrap64, Except.map]

/-- `++x` / `--x` is `x += 1` / `x += -1`: same value, same final state, under every storage -/
theorem inc_dec_pre {S R : Type} (X : Ext F) (st : Storage S R F) (op : IncOp) (x : R) (s : S) :
    eval X st (.incpre op x) s = eval X st (.asg .plus x (.lit (LitNode.mkInt (incDelta op)))) s := by
  cases h : st.read x s with
  | error e => simp [eval, h]
  | ok p =>
    obtain ⟨left, s1⟩ := p
    have := evalPlus_inc X op left
    simp [eval, h, assopToBinop, LitNode.mkInt, LitNode.val] at this ⊢
    simp [this]

/-- `x++` / `x--` leaves the state that `x += 1` / `x += -1` leaves, and its value is the old value of `x`
converted to a number (what unary `+` yields) -/
theorem inc_dec_post {S R : Type} (X : Ext F) (st : Storage S R F) (op : IncOp) (x : R) (s : S) :
    eval X st (.incpst op x) s =
      (do let (old, _) ← st.read x s
          let (_, s') ← eval X st (.asg .plus x (.lit (LitNode.mkInt (incDelta op)))) s
          let v ← evalUnary X .plus old
          pure (v, s')) := by
  cases h : st.read x s with
  | error e => simp [eval, h]
  | ok p =>
    obtain ⟨left, s1⟩ := p
    have h1 := evalPlus_inc X op left
    have h2 := evalUnary_plus_incOld X left
    simp [eval, h, assopToBinop, LitNode.mkInt, LitNode.val] at h1 ⊢
    simp [h1, h2]

/-! ## non-vacuity -/

/-- a mixed placement: a named variable, a map element, an array element, a parameter, then globals -/
def mixedπ : Nat → Ref
  | 0 => .plain (.named "x")
  | 1 => .idx (.named "m") (.s "k")
  | 2 => .idx (.lcl 0) (.i 3)
  | 3 => .plain (.arg 0)
  | i + 4 => .plain (.gbl i)

theorem noAlias_mixedπ : NoAlias mixedπ := by
  intro i j h
  match i, j with
  | 0, 0 | 1, 1 | 2, 2 | 3, 3 => exact absurd rfl h
  | 0, 1 | 0, 2 | 0, 3 | 1, 0 | 1, 2 | 1, 3 | 2, 0 | 2, 1 | 2, 3 | 3, 0 | 3, 1 | 3, 2 =>
    simp [mixedπ, Indep, Ref.base]
  | 0, j + 4 | 1, j + 4 | 2, j + 4 | 3, j + 4 | i + 4, 0 | i + 4, 1 | i + 4, 2 | i + 4, 3 =>
    simp [mixedπ, Indep, Ref.base]
  | i + 4, j + 4 =>
    have : i ≠ j := fun hh => h (by rw [hh])
    simp [mixedπ, Indep, Ref.base, this]

/-- an environment storing arbitrary slot values under the mixed placement -/
def mixedEnv (σ : Store F) : Env F where
  named := fun n => if n = "x" then some (.sc (σ 0))
                    else if n = "m" then some (.map (fun k => if k = "k" then some (σ 1) else none)) else none
  gbl := fun i => .sc (σ (i + 4))
  lcl := fun i => if i = 0 then .arr (fun k => if k = 3 then some (σ 2) else none) else .sc .nil
  arg := fun i => if i = 0 then .sc (σ 3) else .sc .nil

/-- the hypotheses of `storage_independent` are satisfiable by a placement that uses five different kinds of
storage at once, for arbitrary slot values -/
theorem holds_mixed (σ : Store F) : Holds mixedπ (mixedEnv σ) σ := by
  intro i
  match i with
  | 0 => simp [Good, mixedπ, mixedEnv, Env.peek, Kinded, Env.top]
  | 1 => simp [Good, mixedπ, mixedEnv, Env.peek, Kinded, Env.top, Key.str]
  | 2 => simp [Good, mixedπ, mixedEnv, Env.peek, Kinded, Env.top]
  | 3 => simp [Good, mixedπ, mixedEnv, Env.peek, Kinded, Env.top]
  | i + 4 => simp [Good, mixedπ, mixedEnv, Env.peek, Kinded, Env.top]

/-- the all-globals placement and an environment for it -/
example (σ : Store F) : NoAlias (fun i => Ref.plain (.gbl i)) ∧
    Holds (fun i => Ref.plain (.gbl i))
      ({ named := fun _ => none, gbl := fun i => .sc (σ i), lcl := fun _ => .sc .nil, arg := fun _ => .sc .nil } : Env F) σ := by
  refine ⟨fun i j h => by simp [Indep, Ref.base, h], fun i => ?_⟩
  simp [Good, Env.peek, Kinded, Env.top]

/-- the folder does fold, and does report errors: the statements above are not about an inert function -/
example : foldBinop (F := F) .idiv (LitNode.mkInt 7) (LitNode.mkInt 2) = .int 3 := by
  simp [foldBinop, LitNode.mkInt, cdiv, INT_MIN]
example : foldBinop (F := F) .mod (LitNode.mkInt 1) (LitNode.mkInt 0) = .error .divby0 := by
  simp [foldBinop, LitNode.mkInt]
example : foldBinop (F := F) .idiv (LitNode.mkInt INT_MIN) (LitNode.mkInt (-1)) = .int INT_MIN := by
  simp [foldBinop, LitNode.mkInt, INT_MIN, wrap64]
example : foldBinop (F := F) .mod (LitNode.mkInt INT_MIN) (LitNode.mkInt (-1)) = .int 0 := by
  simp [foldBinop, LitNode.mkInt, INT_MIN]
/-- the bare machine division has no value there -/
example : cdiv INT_MIN (-1) = none ∧ cmod INT_MIN (-1) = none ∧ cmod 1 0 = none := by
  simp [cdiv, cmod, INT_MIN]

/-! ## the storage layer: generated dispatch tables and block constants against the model (T) -/

/-- every kind of variable reference of the model is served by the evaluator and the assigner the model transcribes
for it: `__evaluator[type - HAWK_NDE_GRP]` of `eval_expression0` and the `switch (var->type)` of `do_assignment` -/
theorem ref_dispatch_matches (r : Ref) :
    (r.nde, r.evaluator) ∈ ndeEvaluator ∧ (r.nde, r.assigner) ∈ assignDispatch := by
  cases r with
  | plain b => cases b <;> simp only [Ref.nde, Ref.evaluator, Ref.assigner] <;> decide
  | idx b k => cases b <;> simp only [Ref.nde, Ref.evaluator, Ref.assigner] <;> decide

/-- every expression constructor of the model is dispatched to the evaluator transcribed in that case of `eval` -/
theorem expr_dispatch_matches : ∀ p ∈ exprCtorDispatch, p ∈ ndeEvaluator := by decide

/-- `run` and `compile` use the conditions, the loop bounds and the counters that `run_block0` and `parse_block` use:
push when `nlcls > 0`, else reset when `nlcls != org_nlcls`, over `[outer_nlcls, outer_nlcls + org_nlcls)`;
`org_nlcls` = locals declared in the block, `outer_nlcls` = size of `parse.lcls` at block entry,
`nlcls` = `nlcls_max` for the outermost block and 0 for nested ones -/
theorem block_tables_match :
    blockConds = ["nlcls>0", "nlcls!=org_nlcls"] ∧ blockResetLo = "outer_nlcls" ∧
    blockResetHi = ["outer_nlcls", "org_nlcls"] ∧
    parseBlockFields = [("org_nlcls", "tmp-nlcls_outer"), ("outer_nlcls", "nlcls_outer"),
                        ("nlcls", "hawk->parse.nlcls_max-nlcls_outer"), ("nlcls", "0")] ∧
    parseBlockOuter = "HAWK_ARR_SIZE(hawk->parse.lcls)" := by decide

/-! ## the storage layer: block-level locals in the flat frame (`parse_block` / `run_block0`) -/

/-- BLOCK-LEVEL LOCALS.  Take any statement `s` of the model language (expression statements, sequences, nested blocks
declaring locals, loops re-entering their body `n` times, conditionals) that stands in a parser context `ctx` the parser
can build (`Chain`) and refers only to variables in scope (`WS`), any placement `ρ` of the non-local variables on named
variables / globals / parameters / map and array elements (no aliasing, not in the frame), and ANY environment `env`
that stores the scoped state `st` on the slots of the open blocks - the slots above them hold arbitrary garbage, the
history of earlier blocks, iterations and calls.  Then running the parser's output on the flat frame (`run`: slots
`outer_nlcls + i`, reset of `[outer_nlcls, outer_nlcls + org_nlcls)` on every entry) produces exactly the trace of
expression values (or the error) of the lexically scoped semantics (`srun`: a fresh all-nil frame per block entry),
and the final environment again stores the final scoped state. -/
theorem block_locals_scoped (X : Ext F) (ρ : Nat → Ref) (hρ : NoAlias ρ) (hoff : OffFrame ρ) (s : SStmt F)
    (ctx : PCtx) (hc : Chain ctx) (hws : s.WS ctx) (env : Env F) (st : SState F) (tr : List (Val F))
    (h : BRel ρ ctx env st) :
    match srun X s (st, tr) with
    | .ok (st', tr') => ∃ env', run X (compile ρ s ctx) (env, tr) = .ok (env', tr') ∧ BRel ρ ctx env' st'
    | .error err => run X (compile ρ s ctx) (env, tr) = .error err := by
  have := block_sim X ρ hρ hoff s ctx hc hws env st tr h
  cases hres : srun X s (st, tr) with
  | error err => rw [hres] at this; exact this
  | ok p => obtain ⟨st', tr'⟩ := p; rw [hres] at this; exact this

/-- EVALUATION COMMUTES WITH PLACEMENT, FOR PROGRAMS.  The same source statement, with its non-local variables placed by
two different placements `ρ`, `ρ'` (named variables, globals, parameters, map / array elements, in any mixture), run
from two environments that store the same scoped state - each with its own garbage in the dead frame slots - yields
the same trace of expression values and final environments that again store one and the same scoped state; or both
runs fail with the same error. -/
theorem block_placement_independent (X : Ext F) (ρ ρ' : Nat → Ref) (hρ : NoAlias ρ) (hoff : OffFrame ρ)
    (hρ' : NoAlias ρ') (hoff' : OffFrame ρ') (s : SStmt F) (ctx : PCtx) (hc : Chain ctx) (hws : s.WS ctx)
    (env env' : Env F) (st : SState F) (tr : List (Val F)) (h : BRel ρ ctx env st) (h' : BRel ρ' ctx env' st) :
    (∃ e₁ e₁' tr' st', run X (compile ρ s ctx) (env, tr) = .ok (e₁, tr') ∧
        run X (compile ρ' s ctx) (env', tr) = .ok (e₁', tr') ∧ BRel ρ ctx e₁ st' ∧ BRel ρ' ctx e₁' st') ∨
    (∃ err, run X (compile ρ s ctx) (env, tr) = .error err ∧ run X (compile ρ' s ctx) (env', tr) = .error err) := by
  have a := block_sim X ρ hρ hoff s ctx hc hws env st tr h
  have b := block_sim X ρ' hρ' hoff' s ctx hc hws env' st tr h'
  cases hres : srun X s (st, tr) with
  | error err =>
    rw [hres] at a b
    exact Or.inr ⟨err, a, b⟩
  | ok p =>
    obtain ⟨st', tr'⟩ := p
    rw [hres] at a b
    obtain ⟨e1, a1, a2⟩ := a
    obtain ⟨e2, b1, b2⟩ := b
    exact Or.inl ⟨e1, e2, tr', st', a1, b1, a2, b2⟩

/-- THE OUTERMOST BLOCK.  The body block of a function / BEGIN / action with `k` locals of its own, compiled with
`nlcls = nlcls_max`: from ANY environment that stores the non-locals `σ` (whatever the stack held before - a previous
call of the same function included), the run gives the trace (or error) of the scoped semantics started with no frame
at all, and the non-locals end up with the scoped run's final values. -/
theorem block_frame_top (X : Ext F) (ρ : Nat → Ref) (hρ : NoAlias ρ) (hoff : OffFrame ρ) (k : Nat) (body : SStmt F)
    (hws : body.WS [(0, k)]) (env : Env F) (σ : Store F) (tr : List (Val F)) (h : Holds ρ env σ) :
    match srun X (.blk k body) ((σ, []), tr) with
    | .ok (st', tr') => ∃ env', run X (compileTop ρ k body) (env, tr) = .ok (env', tr') ∧ Holds ρ env' st'.1
    | .error err => run X (compileTop ρ k body) (env, tr) = .error err := by
  have := block_top_sim X ρ hρ hoff k body hws env σ tr h
  cases hres : srun X (.blk k body) ((σ, []), tr) with
  | error err => rw [hres] at this; exact this
  | ok p => obtain ⟨st', tr'⟩ := p; rw [hres] at this; exact this

/-- BY-REFERENCE PARAMETERS OF A FUNCTION WITH BLOCK-LEVEL LOCALS.  Calling `function f(&p0, .., &p(n-1)) BODY`, where
BODY is any block program over the parameters and its own (nested) locals, with the variables placed by `π` as arguments
(caller's locals included), from a stack whose region above the caller's frame holds ANY `garbage` (earlier calls of the
same or other functions): the call yields the trace (or error) of the scoped semantics of BODY over the bare slots,
afterwards the argument variables hold the final parameter values (copy-back), every other slot's variable is unchanged. -/
theorem byref_block_call (X : Ext F) (π : Nat → Ref) (hπ : NoAlias π) (n k : Nat) (body : SStmt F)
    (hws : body.WS [(0, k)]) (garbage : Nat → Cell F)
    (env : Env F) (σ : Store F) (tr : List (Val F)) (h : Holds π env σ) (hnil : ∀ i, n ≤ i → σ i = .nil) :
    match srun X (.blk k body) ((σ, []), tr) with
    | .ok (st', tr') => ∃ env',
        evalCallByRefBlk X ((List.range n).map π) (compileTop argπ k body) garbage env tr = .ok (env', tr') ∧
        (∀ i, i < n → Good env' (π i) (st'.1 i)) ∧ (∀ i, n ≤ i → Good env' (π i) (σ i))
    | .error err =>
        evalCallByRefBlk X ((List.range n).map π) (compileTop argπ k body) garbage env tr = .error err :=
  byref_block_sim X π hπ n k body hws garbage env σ tr h hnil

/-- its hypotheses are satisfiable: two arguments placed on globals, a body with a nested block and a loop -/
example : NoAlias (fun i => Ref.plain (.gbl i)) ∧
    Holds (fun i => Ref.plain (.gbl i))
      ({ named := fun _ => none, gbl := fun i => .sc (if i < 2 then .int 7 else .nil), lcl := fun _ => .sc .nil,
         arg := fun _ => .sc .nil } : Env F) (fun i => if i < 2 then .int 7 else .nil) ∧
    (∀ i, 2 ≤ i → (fun i => if i < 2 then Val.int 7 else (.nil : Val F)) i = .nil) ∧
    (SStmt.rep 2 (.blk 1 (.ex (.asg .plus (.oth 0) (.incpst .plus (.loc 0 0))))) : SStmt F).WS [(0, 1)] := by
  refine ⟨fun i j h => by simp [Indep, Ref.base, h], fun i => by simp [Good, Env.peek, Kinded, Env.top], ?_, ?_⟩
  · intro i hi
    have : ¬ i < 2 := by omega
    simp [this]
  · simp only [SStmt.WS, Expr.AllRefs, InScope, lclsSize]
    exact ⟨trivial, ⟨1, 1, by simp, by omega⟩⟩

/-- A FRESH LOCAL IS NIL, WHATEVER THE HISTORY.  Entering a nested block with `k` locals and reading its `idx`-th local
yields nil on the flat frame - for every context, every enclosing state and every garbage in the slot. -/
theorem fresh_local_reads_nil (X : Ext F) (ρ : Nat → Ref) (hρ : NoAlias ρ) (hoff : OffFrame ρ) (ctx : PCtx)
    (hc : Chain ctx) (k idx : Nat) (hi : idx < k) (env : Env F) (st : SState F) (tr : List (Val F))
    (h : BRel ρ ctx env st) :
    ∃ env', run X (compile ρ (.blk k (.ex (.var (.loc 0 idx)))) ctx) (env, tr) = .ok (env', tr ++ [.nil]) ∧
      BRel ρ ctx env' st := by
  have hws : (SStmt.blk k (.ex (.var (.loc 0 idx))) : SStmt F).WS ctx := by
    simp only [SStmt.WS, Expr.AllRefs, InScope]
    exact ⟨lclsSize ctx, k, by simp, hi⟩
  have := block_sim X ρ hρ hoff _ ctx hc hws env st tr h
  have hs : srun X (.blk k (.ex (.var (.loc 0 idx)))) (st, tr) = .ok (st, tr ++ [.nil]) := by
    obtain ⟨σ, fr⟩ := st
    simp [srun, eval, scopedStorage, nilFrame, bind, Except.bind, pure, Except.pure]
  rw [hs] at this
  exact this

/-- the bounds of the reset loop matter: with `outer_nlcls = org_nlcls = 1`, bounds `[outer, org)` touch nothing (the
garbage 40 stays in slot 1), the bounds `[outer, outer + org)` of `run_block0` clear it -/
theorem reset_range_witness : ∃ env : Env F, env.lcl 1 = .sc (.int 40) ∧
    (resetLcls env 1 1).lcl 1 = .sc (.int 40) ∧ (resetLcls env 1 (1 + 1)).lcl 1 = .sc .nil :=
  ⟨{ named := fun _ => none, gbl := fun _ => .sc .nil, lcl := fun _ => .sc (.int 40), arg := fun _ => .sc .nil },
   rfl, by simp [resetLcls], by simp [resetLcls]⟩

/-- the hypotheses of `block_locals_scoped` are satisfiable by a non-trivial state: two open blocks with one local each
(values 7 and "a"), the non-locals on globals, and garbage (40) in every frame slot above the open blocks -/
example (σ : Store F) :
    NoAlias (fun i => Ref.plain (.gbl i)) ∧ OffFrame (fun i => Ref.plain (.gbl i)) ∧ Chain [(1, 1), (0, 1)] ∧
    (SStmt.seq (.blk 2 (.ex (.asg .plus (.loc 0 1) (.var (.loc 1 0))))) (.rep 3 (.blk 1 (.ex (.incpst .plus (.loc 0 0)))))
      : SStmt F).WS [(1, 1), (0, 1)] ∧
    BRel (fun i => Ref.plain (.gbl i)) [(1, 1), (0, 1)]
      ({ named := fun _ => none, gbl := fun i => .sc (σ i),
         lcl := fun j => if j = 0 then .sc (.str "a") else if j = 1 then .sc (.int 7) else .sc (.int 40),
         arg := fun _ => .sc .nil } : Env F)
      (σ, [fun _ => .int 7, fun _ => .str "a"]) := by
  refine ⟨fun i j h => by simp [Indep, Ref.base, h], fun i n => by simp [Ref.base], ⟨rfl, rfl, trivial⟩, ?_, rfl, ?_⟩
  · simp only [SStmt.WS, Expr.AllRefs, InScope, lclsSize]
    refine ⟨⟨⟨2, 2, by simp, by omega⟩, ⟨1, 1, by simp, by omega⟩⟩, ⟨2, 1, by simp, by omega⟩⟩
  · intro r hr
    cases r with
    | oth i => simp [resolve, den, Good, Env.peek, Kinded, Env.top]
    | loc up idx =>
      obtain ⟨o, k, hk, hi⟩ := hr
      match up, hk with
      | 0, hk =>
        simp at hk; obtain ⟨h1, h2⟩ := hk; subst h1; subst h2
        have : idx = 0 := by omega
        subst this
        simp [resolve, slotOf, den, good_lcl]
      | 1, hk =>
        simp at hk; obtain ⟨h1, h2⟩ := hk; subst h1; subst h2
        have : idx = 0 := by omega
        subst this
        simp [resolve, slotOf, den, good_lcl]
      | n + 2, hk => simp at hk

end Hawk.Expr
