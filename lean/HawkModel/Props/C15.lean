import HawkModel.TioLemmas
import HawkModel.TioWriteLemmas
/-!
# C15 — text passes through unchanged

Theorems about the executable models `HawkModel/Utf8.lean` (lib/utf8.c, conversion loops of lib/utl.c) and
`HawkModel/Tio.lean` (staging buffers of lib/tio.c), for the table `T = Hawk.Gen.utf8Table` that
extract/utf8_table.py generates from the C source and for the 16-bit `hawk_uch_t` of the checked build.

What the C code was found to do, and is modelled to do:
* surrogates U+D800..U+DFFF are ordinary 3-byte characters in both directions (`decode_encode` covers them);
* the decoder does **not** use the `lower` column: overlong forms are accepted and decoded
  (`overlong_is_accepted`), so `encode_decode` carries the shortest-form hypothesis;
* 4-byte forms are accepted and truncated to 16 bits (`four_byte_is_truncated`) — outside the BMP, outside the property;
* ill-formed input under HAWK_TIO_IGNOREECERR becomes one '?' per undecodable byte; without the flag the read fails.
The model follows the two repairs patches/tio-illseq-oob.diff and patches/tio-shift-overlap.diff
(`Cfg.legacy = false`); `legacy_*` below exhibit the defects of the unrepaired code on concrete inputs.
-/
namespace Hawk.C15
open Hawk.Gen Hawk.Utf8 Hawk.Tio

/-! ## the codec -/

/-- decode ∘ encode = id on every value of the character type (surrogates included), whatever follows the character -/
theorem decode_encode (c : Nat) (hc : c < 65536) (t : List UInt8) :
    utf8ToUc T (encode T c ++ t) = .ok ((encode T c).length, c) ∧
    decode T (encode T c) = .ok (.ok c (encode T c).length) ∧
    1 ≤ (encode T c).length ∧ (encode T c).length ≤ 3 := by
  refine ⟨dec_enc_append c hc t, ?_, enc_len c hc⟩
  have h := dec_enc_append c hc []
  simp only [List.append_nil] at h
  have h1 := (enc_len c hc).1
  unfold decode classify
  rw [h]
  simp only
  rw [if_neg (by omega), if_neg (by omega)]

/-- the encoder in arithmetic: one, two or three bytes by range, nothing special for U+D800..U+DFFF -/
theorem encode_spec (c : Nat) (hc : c < 65536) :
    encode T c =
      if c < 0x80 then [UInt8.ofNat c]
      else if c < 0x800 then [UInt8.ofNat (0xC0 + c / 64), UInt8.ofNat (0x80 + c % 64)]
      else [UInt8.ofNat (0xE0 + c / 4096), UInt8.ofNat (0x80 + c / 64 % 64), UInt8.ofNat (0x80 + c % 64)] :=
  encode_eq_spec c hc

/-- encode ∘ decode = id on what the decoder accepts **in shortest form** (the encoder would use as many bytes) -/
theorem encode_decode (s : List UInt8) (n w : Nat) (h : utf8ToUc T s = .ok (n, w)) (hn0 : n ≠ 0) (hn : n ≤ s.length)
    (hshort : (encode T w).length = n) : encode T w = s.take n :=
  encode_decode_T s n w h hn0 hn hshort

/-- the shortest-form hypothesis of `encode_decode` cannot be dropped: the C decoder accepts the overlong C0 80 -/
theorem overlong_is_accepted : utf8ToUc T [0xC0, 0x80] = .ok (2, 0) ∧ encode T 0 = [0x00] := ⟨rfl, rfl⟩

/-- a 4-byte form (U+10000) is accepted and its value truncated to 16 bits -/
theorem four_byte_is_truncated : utf8ToUc T [0xF0, 0x90, 0x80, 0x80] = .ok (4, 0) := rfl

/-- the decoder never reads at an index ≥ the size it is given, for every table and every non-empty input;
its verdict is one of: a character of n ≤ size bytes below 2^16, "n > size bytes needed", illegal -/
theorem decode_in_bounds (tbl : List Utf8Row) (s : List UInt8) (hs : s ≠ []) :
    ∃ d, decode tbl s = .ok d ∧
      match d with
      | .ok c n => n ≠ 0 ∧ n ≤ s.length ∧ c < uchMod
      | .incomplete n => n > s.length
      | .illegal => True := by
  obtain ⟨⟨n, w⟩, h⟩ := utf8ToUc_ok tbl s hs
  have hw := utf8ToUc_w_lt tbl s n w h
  refine ⟨classify s.length (n, w), by simp [decode, h], ?_⟩
  unfold classify
  by_cases h0 : n = 0
  · simp [h0]
  · by_cases h1 : n > s.length
    · simp [h0, h1]
    · simp [h0, h1]; omega

/-- the bounds check of the model is real: with size 0 the C would read utf8[0] -/
theorem decode_of_nothing_faults : decode T [] = .error .oobRead := rfl

/-- a truncated character is reported as incomplete (return value > size), never as a shorter character -/
theorem decode_truncated (c : Nat) (hc : c < 65536) (p q : List UInt8) (hpq : p ++ q = encode T c) (hp : p ≠ []) (hq : q ≠ []) :
    decode T p = .ok (.incomplete (encode T c).length) := by
  have h := dec_prefix c hc p q hpq hp hq
  have hl : p.length < (encode T c).length := by
    have := congrArg List.length hpq
    have : 0 < q.length := List.length_pos_iff.mpr hq
    simp at *; omega
  have h1 := (enc_len c hc).1
  unfold decode classify
  rw [h]
  simp only
  rw [if_neg (by omega), if_pos (by omega)]

/-- the encoder stores exactly the bytes it reports and never more than `size` of them -/
theorem encode_in_bounds (c : Nat) (hc : c < 65536) (size : Nat) :
    (ucToUtf8 T c size).ret = (encode T c).length ∧
    match (ucToUtf8 T c size).bytes with
    | some b => b = encode T c ∧ b.length ≤ size
    | none => size < (encode T c).length := by
  rw [ucToUtf8_size c hc size]
  split <;> simp_all

/-! ## whole strings -/

/-- decoding a well-formed BMP string (hawk_conv_bchars_to_uchars_with_cmgr, either mode) gives back its characters,
consumes every byte and reports success; so `length` of the text is its number of characters -/
theorem decodeAll_encodeAll (all : Bool) (cs : List Nat) (hb : BMP cs) (wcap : Nat) (hw : cs.length ≤ wcap) :
    convBtoU T all wcap (encodeAll T cs) = .ok (0, (encodeAll T cs).length, cs) :=
  convBtoU_wf all cs hb wcap hw

/-- characters to bytes (hawk_conv_uchars_to_bchars_with_cmgr): with enough room everything is converted, in order -/
theorem encodeAll_converts (ws : List Nat) (hb : BMP ws) (rem : Nat) (hr : (encodeAll T ws).length ≤ rem) :
    convUtoB T ws rem = (0, ws.length, encodeAll T ws) := by
  obtain ⟨x, k, bs, h, hk, hbs, hlen, hx⟩ := convUtoB_bmp ws hb rem
  rcases hx with ⟨rfl, rfl⟩ | ⟨rfl, c, rest, hd, hlt⟩
  · rw [h, hbs]; simp
  · exfalso
    have hsplit : encodeAll T ws = bs ++ encodeAll T (c :: rest) := by
      rw [hbs, ← hd, ← encodeAll_append, List.take_append_drop]
    have : (encodeAll T ws).length = bs.length + (encodeAll T (c :: rest)).length := by rw [hsplit]; simp
    have := encodeAll_length_pos c rest (hb c (List.mem_of_mem_drop (by rw [hd]; simp)))
    omega

/-- the conversion loop used by tio on arbitrary bytes, for every table: no out-of-bounds read, no more characters than
room, no more bytes consumed than given, and a verdict among ok / illegal / incomplete -/
theorem convUpto_in_bounds (tbl : List Utf8Row) (stopper wcap : Nat) (s : List UInt8) :
    ∃ x mlen out, convUpto tbl stopper wcap s = .ok (x, mlen, out) ∧ out.length ≤ wcap ∧ out.length ≤ mlen ∧
      mlen ≤ s.length ∧ (x = 0 ∨ x = -1 ∨ x = -3) := by
  obtain ⟨x, mlen, out, h, h1, h2, h3, h4, _⟩ := convUpto_total tbl stopper s.length s wcap (Nat.le_refl _)
  exact ⟨x, mlen, out, h, h1, h2, h3, h4⟩

/-! ## tio read side -/

/-- **chunk independence**: a well-formed BMP byte string, delivered by the input handler in any chunks (none empty),
through a staging buffer of any capacity ≥ 3 and read with any request size ≥ 1, with or without IGNOREECERR,
comes out as exactly its characters, and the loop ends with "end of input" -/
theorem tio_read_chunk_independent (cfg : Cfg) (hT : cfg.tbl = T) (hl : cfg.legacy = false) (hc : 3 ≤ cfg.capa)
    (size : Nat) (hs : 1 ≤ size) (cs : List Nat) (hb : BMP cs) (chunks : List (List UInt8))
    (hne : ∀ c ∈ chunks, c ≠ []) (hj : chunks.flatten = encodeAll T cs) :
    readAll cfg size (start chunks) = (cs, .eof) :=
  readAll_wf cfg ⟨hT, hl, hc⟩ size hs cs.length (start chunks) cs (Nat.le_refl _) (inv_start chunks cs hb hne hj)

/-- hence: re-encoding what was read reproduces the input bytes, and the number of characters read is the
character count of the text -/
theorem tio_read_reencodes (cfg : Cfg) (hT : cfg.tbl = T) (hl : cfg.legacy = false) (hc : 3 ≤ cfg.capa)
    (size : Nat) (hs : 1 ≤ size) (cs : List Nat) (hb : BMP cs) (chunks : List (List UInt8))
    (hne : ∀ c ∈ chunks, c ≠ []) (hj : chunks.flatten = encodeAll T cs) :
    encodeAll T (readAll cfg size (start chunks)).1 = chunks.flatten ∧
    (readAll cfg size (start chunks)).1.length = cs.length := by
  rw [tio_read_chunk_independent cfg hT hl hc size hs cs hb chunks hne hj]
  exact ⟨hj.symm, rfl⟩

/-- and: two chunkings, capacities and request sizes of the same well-formed bytes read the same -/
theorem tio_read_two_schedules (cfg₁ cfg₂ : Cfg) (h₁ : cfg₁.tbl = T ∧ cfg₁.legacy = false ∧ 3 ≤ cfg₁.capa)
    (h₂ : cfg₂.tbl = T ∧ cfg₂.legacy = false ∧ 3 ≤ cfg₂.capa) (size₁ size₂ : Nat) (hs₁ : 1 ≤ size₁) (hs₂ : 1 ≤ size₂)
    (cs : List Nat) (hb : BMP cs) (ch₁ ch₂ : List (List UInt8)) (hne₁ : ∀ c ∈ ch₁, c ≠ []) (hne₂ : ∀ c ∈ ch₂, c ≠ [])
    (hj₁ : ch₁.flatten = encodeAll T cs) (hj₂ : ch₂.flatten = ch₁.flatten) :
    readAll cfg₁ size₁ (start ch₁) = readAll cfg₂ size₂ (start ch₂) := by
  rw [tio_read_chunk_independent cfg₁ h₁.1 h₁.2.1 h₁.2.2 size₁ hs₁ cs hb ch₁ hne₁ hj₁,
    tio_read_chunk_independent cfg₂ h₂.1 h₂.2.1 h₂.2.2 size₂ hs₂ cs hb ch₂ hne₂ (hj₂.trans hj₁)]

/-- **arbitrary bytes, every table**: one `tio_read_uchars` call neither reads out of bounds (no fault) nor stores more
than `bufsize` characters, keeps cursor ≤ length ≤ capacity, and consumes at least one byte per character returned -/
theorem tio_read_in_bounds (cfg : Cfg) (hl : cfg.legacy = false) (bufsize : Nat) (hb : 1 ≤ bufsize) (st : InSt)
    (hs : st.cur ≤ st.buf.length ∧ st.buf.length ≤ cfg.capa) :
    ∃ st' r, readU cfg bufsize st = (st', r) ∧ (st'.cur ≤ st'.buf.length ∧ st'.buf.length ≤ cfg.capa) ∧
      (match r with | .n out => out.length ≤ bufsize | .err _ => True | .fault _ => False) ∧
      pending st' + r.count ≤ pending st := by
  obtain ⟨st', r, h, hs', hr, hp⟩ := readU_safe cfg hl bufsize hb st hs
  refine ⟨st', r, h, hs', ?_, hp⟩
  cases r <;> simp [RetOk] at hr <;> simp [hr]

/-- `hawk_tio_readuchars` on arbitrary bytes: at most `size` characters, staging buffer within bounds -/
theorem tio_readuchars_in_bounds (cfg : Cfg) (hl : cfg.legacy = false) (size : Nat) (st : InSt)
    (hs : st.cur ≤ st.buf.length ∧ st.buf.length ≤ cfg.capa) :
    ∃ st' r, readUchars cfg size st = (st', r) ∧ (st'.cur ≤ st'.buf.length ∧ st'.buf.length ≤ cfg.capa) ∧
      (match r with | .n out => out.length ≤ size | .err _ => True | .fault _ => False) := by
  obtain ⟨st', r, h, hs', hr, _⟩ := readLoop_safe cfg hl size size st [] (by simp) hs (by simp)
  refine ⟨st', r, h, hs', ?_⟩
  cases r <;> simp [RetOk] at hr <;> simp [hr]

/-- reading arbitrary bytes to the end is total and deterministic: the caller's loop ends with "end of input" or with the
conversion error, never with a fault and never without progress -/
theorem tio_read_total (cfg : Cfg) (hl : cfg.legacy = false) (size : Nat) (chunks : List (List UInt8)) :
    (readAll cfg size (start chunks)).2 = .eof ∨ ∃ e, (readAll cfg size (start chunks)).2 = .err e :=
  readAll_safe cfg hl size _ (start chunks) (Nat.le_refl _) ⟨by simp [start], by simp [start]⟩

/-- the unrepaired code stored a character beyond the caller's room: one character of room, "a" then an illegal byte -/
theorem legacy_stores_out_of_bounds :
    convPart { capa := 32, legacy := true } 1 { buf := [0x61, 0xFF] } =
      .done { buf := [0x61, 0xFF], cur := 2 } (.n [0x61, 0x3F]) := by
  have h2 : convUpto T 0x0A 0 [0xFF] = .ok (-1, 0, []) := by
    rw [convUpto_step T 0x0A 0 [0xFF] 0 0 (by simp) rfl]; rfl
  have h1 : convUpto T 0x0A 1 [0x61, 0xFF] = .ok (-1, 1, [0x61]) := by
    rw [convUpto_step T 0x0A 1 [0x61, 0xFF] 1 0x61 (by simp) rfl]
    simp only [show ([0x61, 0xFF] : List UInt8).drop 1 = [0xFF] by rfl, show (1 - 1) = 0 by rfl, h2]
    rfl
  exact convPart_x1_ign { capa := 32, legacy := true } 1 { buf := [0x61, 0xFF] } 1 [0x61] h1 rfl (Or.inl rfl)

/-- the repaired code leaves the illegal byte for the next call instead -/
theorem repaired_keeps_within_room :
    convPart { capa := 32 } 1 { buf := [0x61, 0xFF] } = .done { buf := [0x61, 0xFF], cur := 1 } (.n [0x61]) := by
  have h2 : convUpto T 0x0A 0 [0xFF] = .ok (-1, 0, []) := by
    rw [convUpto_step T 0x0A 0 [0xFF] 0 0 (by simp) rfl]; rfl
  have h1 : convUpto T 0x0A 1 [0x61, 0xFF] = .ok (-1, 1, [0x61]) := by
    rw [convUpto_step T 0x0A 1 [0x61, 0xFF] 1 0x61 (by simp) rfl]
    simp only [show ([0x61, 0xFF] : List UInt8).drop 1 = [0xFF] by rfl, show (1 - 1) = 0 by rfl, h2]
    rfl
  exact convPart_x1_full { capa := 32 } 1 { buf := [0x61, 0xFF] } 1 [0x61] h1 rfl rfl (by simp)

/-- the unrepaired code moved an incomplete tail with memcpy over overlapping ranges: "\n" consumed, E2 82 waiting -/
theorem legacy_overlapping_copy :
    convPart { capa := 32, legacy := true } 8 { buf := [0x0A, 0xE2, 0x82], cur := 1 } =
      .done { buf := [0x0A, 0xE2, 0x82], cur := 1 } (.fault .overlap) := by
  have h1 : convUpto T 0x0A 8 [0xE2, 0x82] = .ok (-3, 0, []) := by
    rw [convUpto_step T 0x0A 8 [0xE2, 0x82] 3 0 (by simp) rfl]; rfl
  unfold convPart
  simp only [show ([0x0A, 0xE2, 0x82] : List UInt8).drop 1 = [0xE2, 0x82] by rfl]
  rw [h1]
  rfl

/-! ## tio write side

The output handler is adversarial (`Reply`: accept 1 ≤ k ≤ offered bytes, accept nothing, fail; an exhausted script
accepts everything).  `o.sink` = the slices it accepted, `o.buf` = what is staged, `o.all` = accepted followed by staged. -/

/-- **`hawk_tio_flush`, every handler script**: the slices accepted by this call followed by what stays staged are exactly
the bytes that were staged, in order (nothing lost, nothing handed out twice); each slice lies within the staged bytes;
-1 is returned only with an undelivered remainder still staged; otherwise the count returned plus what stays staged is what
was staged; and unless the handler fails the call does not fail -/
theorem tio_flush_exactly_once (o : OutSt) :
    (flush o).1.all = o.all ∧
    (∃ extra, (flush o).1.sink = o.sink ++ extra ∧ extra.flatten ++ (flush o).1.buf = o.buf ∧
        ∀ ch ∈ extra, ch.length ≤ o.buf.length) ∧
    ((flush o).2 = none → (flush o).1.buf ≠ []) ∧
    (∀ c, (flush o).2 = some c → c + (flush o).1.buf.length = o.buf.length) ∧
    ((∀ x ∈ o.script, x ≠ .fail) → (flush o).2 ≠ none) := by
  obtain ⟨h1, h2, _, _, h5, h6, h7⟩ := flush_spec o
  exact ⟨h1, h2, h5, fun c hc => (h6 c hc).1, h7⟩

/-- **a later successful flush delivers exactly the rest**: from any state (for instance the one a failed flush or write
left behind), a flush that does not return -1, with a handler that never answers 0, leaves nothing staged: what the
handler has then accepted, in total, is everything that was accepted or staged before — once, in order -/
theorem tio_flush_completes (o : OutSt) (hz : ∀ x ∈ o.script, x ≠ .zero) (c : Nat) (hr : (flush o).2 = some c) :
    (flush o).1.buf = [] ∧ (flush o).1.sink.flatten = o.all ∧ c = o.buf.length := by
  obtain ⟨h1, _, _, _, _, h6, _⟩ := flush_spec o
  obtain ⟨h2, h3⟩ := h6 c hr
  have hb := h3 hz
  refine ⟨hb, ?_, by rw [hb] at h2; simpa using h2⟩
  rw [← h1]; simp [OutSt.all, hb]

/-- **every sequence of write calls, every handler script** (`hawk_tio_writeuchars` with BMP characters,
`hawk_tio_writebchars`, `hawk_tio_flush`; the caller goes on after failures): there are parts `ps`, one per call, with
`ps[i]` a prefix of the bytes call `i` was asked to write and all of them when call `i` reported success, such that accepted
followed by staged is the concatenation of the parts.  So what the handler accepted is a prefix of that text — every byte at
most once and in order —, a call that lost part of its text reported failure, every accepted slice and the staging buffer
stay within the capacity, and no call faults or hangs -/
theorem tio_write_exactly_once (cfg : Cfg) (hT : cfg.tbl = T) (hc : 3 ≤ cfg.capa) (ops : List WOp) (hb : ∀ op ∈ ops, op.bmp)
    (script : List Reply) :
    ∃ ps, PartsOk ops (runOps cfg ops { script := script }).2 ps ∧
      (runOps cfg ops { script := script }).1.all = ps.flatten ∧
      (runOps cfg ops { script := script }).1.sink.flatten <+: ps.flatten ∧
      (∀ ch ∈ (runOps cfg ops { script := script }).1.sink, ch.length ≤ cfg.capa) ∧
      (runOps cfg ops { script := script }).1.buf.length ≤ cfg.capa := by
  obtain ⟨ps, h1, h2, _⟩ := runOps_spec cfg hT hc ops { script := script } hb (by simp)
  have hall : (runOps cfg ops { script := script }).1.all = ps.flatten := by simpa [OutSt.all] using h2.all
  refine ⟨ps, h1, hall, ?_, h2.sinkOk (by intro ch h; simp at h), h2.len⟩
  rw [← hall]; exact ⟨_, rfl⟩

/-- when every call reported success the parts are the whole texts: accepted followed by staged is the text written so far,
and what the handler accepted is a prefix of it -/
theorem tio_write_success_is_text (cfg : Cfg) (hT : cfg.tbl = T) (hc : 3 ≤ cfg.capa) (ops : List WOp) (hb : ∀ op ∈ ops, op.bmp)
    (script : List Reply) (hok : ∀ ok ∈ (runOps cfg ops { script := script }).2, ok = true) :
    (runOps cfg ops { script := script }).1.all = (ops.map WOp.text).flatten ∧
    (runOps cfg ops { script := script }).1.sink.flatten <+: (ops.map WOp.text).flatten := by
  obtain ⟨ps, h1, h2, h3, _⟩ := tio_write_exactly_once cfg hT hc ops hb script
  have := partsOk_all ops _ ps h1 hok
  rw [this] at h2 h3
  exact ⟨h2, h3⟩

/-- and after a final flush that does not fail (handler never answering 0 from then on) the handler has accepted exactly
the text written, once and in order -/
theorem tio_write_final_flush (cfg : Cfg) (hT : cfg.tbl = T) (hc : 3 ≤ cfg.capa) (ops : List WOp) (hb : ∀ op ∈ ops, op.bmp)
    (script : List Reply) (hok : ∀ ok ∈ (runOps cfg ops { script := script }).2, ok = true)
    (hz : ∀ x ∈ (runOps cfg ops { script := script }).1.script, x ≠ .zero) (c : Nat)
    (hr : (flush (runOps cfg ops { script := script }).1).2 = some c) :
    (flush (runOps cfg ops { script := script }).1).1.sink.flatten = (ops.map WOp.text).flatten ∧
    (flush (runOps cfg ops { script := script }).1).1.buf = [] := by
  obtain ⟨h1, h2, _⟩ := tio_flush_completes _ hz c hr
  exact ⟨by rw [h2]; exact (tio_write_success_is_text cfg hT hc ops hb script hok).1, h1⟩

/-- a handler that always accepts something (at least one byte per call, however few): every call succeeds -/
theorem tio_write_accepting_handler (cfg : Cfg) (hT : cfg.tbl = T) (hc : 3 ≤ cfg.capa) (ops : List WOp) (hb : ∀ op ∈ ops, op.bmp)
    (script : List Reply) (ha : ∀ x ∈ script, isAcc x) : ∀ ok ∈ (runOps cfg ops { script := script }).2, ok = true := by
  obtain ⟨_, _, _, h⟩ := runOps_spec cfg hT hc ops { script := script } hb (by simp)
  exact h ha (by simp; omega)

/-- **write-side round trip**: any sequence of `hawk_tio_writeuchars` calls with BMP characters, against a handler that always
accepts something, succeeds; the bytes accepted followed by the bytes still staged are the encoding of all characters in
order, whatever the segmentation, the capacity (≥ 3), the flush policy and the sizes the handler accepts; every accepted
slice is within the capacity -/
theorem tio_write_roundtrip (cfg : Cfg) (hT : cfg.tbl = T) (hc : 3 ≤ cfg.capa) (segs : List (List Nat)) (hb : BMP segs.flatten)
    (script : List Reply) (ha : ∀ x ∈ script, isAcc x) :
    (writeMany cfg segs { script := script }).2 = true ∧
    (writeMany cfg segs { script := script }).1.all = encodeAll T segs.flatten ∧
    ∀ ch ∈ (writeMany cfg segs { script := script }).1.sink, ch.length ≤ cfg.capa := by
  have hbm : ∀ op ∈ segs.map WOp.u, op.bmp := by
    intro op hop
    obtain ⟨ws, hws, rfl⟩ := List.mem_map.mp hop
    exact fun c hc' => hb c (List.mem_flatten.mpr ⟨ws, hws, hc'⟩)
  have hok := tio_write_accepting_handler cfg hT hc _ hbm script ha
  obtain ⟨h1, _⟩ := tio_write_success_is_text cfg hT hc _ hbm script hok
  obtain ⟨_, _, _, _, h4, _⟩ := tio_write_exactly_once cfg hT hc _ hbm script
  refine ⟨by simpa [writeMany, List.all_eq_true] using hok, ?_, h4⟩
  simp only [writeMany]
  rw [h1, encodeAll_flatten]

/-- written text read back, through any chunking of the written bytes, is the text -/
theorem tio_write_then_read (wcfg rcfg : Cfg) (hwT : wcfg.tbl = T) (hwc : 3 ≤ wcfg.capa) (hrT : rcfg.tbl = T)
    (hrl : rcfg.legacy = false) (hrc : 3 ≤ rcfg.capa) (size : Nat) (hs : 1 ≤ size) (segs : List (List Nat))
    (hb : BMP segs.flatten) (chunks : List (List UInt8)) (hne : ∀ c ∈ chunks, c ≠ [])
    (hj : chunks.flatten = (writeMany wcfg segs {}).1.all) :
    readAll rcfg size (start chunks) = (segs.flatten, .eof) :=
  tio_read_chunk_independent rcfg hrT hrl hrc size hs segs.flatten hb chunks hne
    (hj.trans (tio_write_roundtrip wcfg hwT hwc segs hb [] (by intro x h; simp at h)).2.1)

/-- the defect seeded as C05-r2s2 on a concrete run of the model of the *correct* code: "hello world\n" staged, the handler
takes 5 bytes and then fails — the flush returns -1 with exactly the 7 undelivered bytes staged, and the next flush hands out
exactly those (the changed code handed out 12) -/
theorem flush_short_write_then_failure :
    flush { buf := [0x68, 0x65, 0x6C, 0x6C, 0x6F, 0x20, 0x77, 0x6F, 0x72, 0x6C, 0x64, 0x0A], script := [.acc 4, .fail] } =
      ({ buf := [0x20, 0x77, 0x6F, 0x72, 0x6C, 0x64, 0x0A], sink := [[0x68, 0x65, 0x6C, 0x6C, 0x6F]], script := [], ncalls := 2 }, none) ∧
    flush { buf := [0x20, 0x77, 0x6F, 0x72, 0x6C, 0x64, 0x0A], sink := [[0x68, 0x65, 0x6C, 0x6C, 0x6F]], script := [], ncalls := 2 } =
      ({ buf := [], sink := [[0x68, 0x65, 0x6C, 0x6C, 0x6F], [0x20, 0x77, 0x6F, 0x72, 0x6C, 0x64, 0x0A]], script := [], ncalls := 3 }, some 7) := by
  constructor <;> rfl

/-! ## bytes -/

/-- byte-mode reads (`hawk_tio_readbchars`, behind byte-mode getline) return exactly the bytes supplied, for every
chunking, capacity ≥ 1 and request size ≥ 1 -/
theorem tio_read_bytes_identity (cfg : Cfg) (hc : 1 ≤ cfg.capa) (size : Nat) (hs : 1 ≤ size) (chunks : List (List UInt8))
    (hne : ∀ c ∈ chunks, c ≠ []) : readAllBytes cfg size (start chunks) = (chunks.flatten, true) := by
  have := readAllBytes_spec cfg hc size hs _ (start chunks) (Nat.le_refl _) hne
  simpa [remaining, start] using this

/-- byte output (`hawk_tio_writebchars`): any sequence of byte writes against a handler that always accepts something hands
out / stages exactly the bytes written, in order, every accepted slice within the capacity, whatever the capacity (≥ 1), the
segmentation, the flush policy and the sizes the handler accepts (failing handlers: `tio_write_exactly_once`) -/
theorem tio_write_bytes_identity (cfg : Cfg) (hc : 1 ≤ cfg.capa) (segs : List (List UInt8)) (script : List Reply)
    (ha : ∀ x ∈ script, isAcc x) :
    (segs.foldl (fun o bs => (writeBchars cfg bs o).1) ({ script := script } : OutSt)).all = segs.flatten ∧
    ∀ ch ∈ (segs.foldl (fun o bs => (writeBchars cfg bs o).1) ({ script := script } : OutSt)).sink, ch.length ≤ cfg.capa := by
  have key : ∀ (segs : List (List UInt8)) (o : OutSt), SinkOk cfg o → o.buf.length < cfg.capa → (∀ x ∈ o.script, isAcc x) →
      (segs.foldl (fun o bs => (writeBchars cfg bs o).1) o).all = o.all ++ segs.flatten ∧
      SinkOk cfg (segs.foldl (fun o bs => (writeBchars cfg bs o).1) o) := by
    intro segs
    induction segs with
    | nil => intro o hs _ _; simp [hs]
    | cons bs rest ih =>
      intro o hs hl hacc
      obtain ⟨p, h1, _, h3, _, h5⟩ := writeBchars_spec cfg hc bs o (by omega)
      obtain ⟨a, b, c⟩ := h5 hacc hl
      obtain ⟨h6, h7⟩ := ih _ (h1.sinkOk hs) b c
      simp only [List.foldl_cons]
      exact ⟨by rw [h6, h1.all, h3 a]; simp, h7⟩
  obtain ⟨h1, h2⟩ := key segs { script := script } (by intro ch h; simp at h) (by simp; omega) ha
  exact ⟨by simpa [OutSt.all] using h1, h2⟩

/-- the byte-string value operations are list operations in the model (tied to val.c/run.c/fnc.c only by the language-level
runs): the concatenation / substr program of the check returns its operands -/
theorem bytes_concat_substr_identity (x sep : List UInt8) :
    ((x ++ sep ++ x).take x.length = x) ∧ ((x ++ sep ++ x).drop (x.length + sep.length) = x) := by
  constructor
  · simp
  · rw [← List.length_append, List.drop_left]

/-! ## the hypotheses are satisfiable (non-vacuity) -/

/-- "\n€\n" delivered as "\n E2 82" + "AC \n": the situation in which the unrepaired code made the overlapping copy -/
example : readAll { capa := 32 } 8 (start [[0x0A, 0xE2, 0x82], [0xAC, 0x0A]]) = ([0x0A, 0x20AC, 0x0A], .eof) :=
  tio_read_chunk_independent { capa := 32 } rfl rfl (by decide) 8 (by decide) [0x0A, 0x20AC, 0x0A]
    (by intro c hc; simp at hc; rcases hc with rfl | rfl | rfl <;> decide)
    [[0x0A, 0xE2, 0x82], [0xAC, 0x0A]] (by intro c hc; simp at hc; rcases hc with rfl | rfl <;> simp) rfl

/-- a surrogate is an ordinary character for this codec -/
example : encode T 0xD800 = [0xED, 0xA0, 0x80] ∧ utf8ToUc T [0xED, 0xA0, 0x80] = .ok (3, 0xD800) := ⟨rfl, rfl⟩

example : (writeMany { capa := 32 } [[0x41, 0x20AC], [0x0A]] { script := [.acc 0, .acc 2] }).1.all = [0x41, 0xE2, 0x82, 0xAC, 0x0A] :=
  (tio_write_roundtrip { capa := 32 } rfl (by decide) [[0x41, 0x20AC], [0x0A]]
    (by intro c hc; simp at hc; rcases hc with rfl | rfl | rfl <;> decide) [.acc 0, .acc 2]
    (by intro x hx; simp at hx; rcases hx with rfl | rfl <;> trivial)).2.1

end Hawk.C15
