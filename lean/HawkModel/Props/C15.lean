import HawkModel.TioLemmas
import HawkModel.TioWriteLemmas
/-!
# C15 — text passes through unchanged

Theorems about the executable models `HawkModel/Utf8.lean` (lib/utf8.c, conversion loops of lib/utl.c) and
`HawkModel/Tio.lean` (staging buffers of lib/tio.c), for the table `T = Hawk.Gen.utf8Table` that
extract/utf8_table.py generates from the C source and for the 16-bit `hawk_uch_t` of the checked build.

What the C code was found to do, and is modelled to do:
* surrogates U+D800..U+DFFF are ordinary 3-byte characters in both directions (`decode_encode` covers them);
* the decoder does **not** use the `lower` column: overlong forms are accepted and decoded
  (`overlong_is_accepted`), so `encode_decode` carries the shortest-form hypothesis;
* 4-byte forms are accepted and truncated to 16 bits (`four_byte_is_truncated`) — outside the BMP, outside the property;
* ill-formed input under HAWK_TIO_IGNOREECERR becomes one '?' per undecodable byte; without the flag the read fails.
The model follows the two repairs patches/tio-illseq-oob.diff and patches/tio-shift-overlap.diff
(`Cfg.legacy = false`); `legacy_*` below exhibit the defects of the unrepaired code on concrete inputs.
-/
namespace Hawk.C15
open Hawk.Gen Hawk.Utf8 Hawk.Tio

/-! ## the codec -/

/-- decode ∘ encode = id on every value of the character type (surrogates included), whatever follows the character -/
theorem decode_encode (c : Nat) (hc : c < 65536) (t : List UInt8) :
    utf8ToUc T (encode T c ++ t) = .ok ((encode T c).length, c) ∧
    decode T (encode T c) = .ok (.ok c (encode T c).length) ∧
    1 ≤ (encode T c).length ∧ (encode T c).length ≤ 3 := by
  refine ⟨dec_enc_append c hc t, ?_, enc_len c hc⟩
  have h := dec_enc_append c hc []
  simp only [List.append_nil] at h
  have h1 := (enc_len c hc).1
  unfold decode classify
  rw [h]
  simp only
  rw [if_neg (by omega), if_neg (by omega)]

/-- the encoder in arithmetic: one, two or three bytes by range, nothing special for U+D800..U+DFFF -/
theorem encode_spec (c : Nat) (hc : c < 65536) :
    encode T c =
      if c < 0x80 then [UInt8.ofNat c]
      else if c < 0x800 then [UInt8.ofNat (0xC0 + c / 64), UInt8.ofNat (0x80 + c % 64)]
      else [UInt8.ofNat (0xE0 + c / 4096), UInt8.ofNat (0x80 + c / 64 % 64), UInt8.ofNat (0x80 + c % 64)] :=
  encode_eq_spec c hc

/-- encode ∘ decode = id on what the decoder accepts **in shortest form** (the encoder would use as many bytes) -/
theorem encode_decode (s : List UInt8) (n w : Nat) (h : utf8ToUc T s = .ok (n, w)) (hn0 : n ≠ 0) (hn : n ≤ s.length)
    (hshort : (encode T w).length = n) : encode T w = s.take n :=
  encode_decode_T s n w h hn0 hn hshort

/-- the shortest-form hypothesis of `encode_decode` cannot be dropped: the C decoder accepts the overlong C0 80 -/
theorem overlong_is_accepted : utf8ToUc T [0xC0, 0x80] = .ok (2, 0) ∧ encode T 0 = [0x00] := ⟨rfl, rfl⟩

/-- a 4-byte form (U+10000) is accepted and its value truncated to 16 bits -/
theorem four_byte_is_truncated : utf8ToUc T [0xF0, 0x90, 0x80, 0x80] = .ok (4, 0) := rfl

/-- the decoder never reads at an index ≥ the size it is given, for every table and every non-empty input;
its verdict is one of: a character of n ≤ size bytes below 2^16, "n > size bytes needed", illegal -/
theorem decode_in_bounds (tbl : List Utf8Row) (s : List UInt8) (hs : s ≠ []) :
    ∃ d, decode tbl s = .ok d ∧
      match d with
      | .ok c n => n ≠ 0 ∧ n ≤ s.length ∧ c < uchMod
      | .incomplete n => n > s.length
      | .illegal => True := by
  obtain ⟨⟨n, w⟩, h⟩ := utf8ToUc_ok tbl s hs
  have hw := utf8ToUc_w_lt tbl s n w h
  refine ⟨classify s.length (n, w), by simp [decode, h], ?_⟩
  unfold classify
  by_cases h0 : n = 0
  · simp [h0]
  · by_cases h1 : n > s.length
    · simp [h0, h1]
    · simp [h0, h1]; omega

/-- the bounds check of the model is real: with size 0 the C would read utf8[0] -/
theorem decode_of_nothing_faults : decode T [] = .error .oobRead := rfl

/-- a truncated character is reported as incomplete (return value > size), never as a shorter character -/
theorem decode_truncated (c : Nat) (hc : c < 65536) (p q : List UInt8) (hpq : p ++ q = encode T c) (hp : p ≠ []) (hq : q ≠ []) :
    decode T p = .ok (.incomplete (encode T c).length) := by
  have h := dec_prefix c hc p q hpq hp hq
  have hl : p.length < (encode T c).length := by
    have := congrArg List.length hpq
    have : 0 < q.length := List.length_pos_iff.mpr hq
    simp at *; omega
  have h1 := (enc_len c hc).1
  unfold decode classify
  rw [h]
  simp only
  rw [if_neg (by omega), if_pos (by omega)]

/-- the encoder stores exactly the bytes it reports and never more than `size` of them -/
theorem encode_in_bounds (c : Nat) (hc : c < 65536) (size : Nat) :
    (ucToUtf8 T c size).ret = (encode T c).length ∧
    match (ucToUtf8 T c size).bytes with
    | some b => b = encode T c ∧ b.length ≤ size
    | none => size < (encode T c).length := by
  rw [ucToUtf8_size c hc size]
  split <;> simp_all

/-! ## whole strings -/

/-- decoding a well-formed BMP string (hawk_conv_bchars_to_uchars_with_cmgr, either mode) gives back its characters,
consumes every byte and reports success; so `length` of the text is its number of characters -/
theorem decodeAll_encodeAll {cm : Cmgr} {dom : Nat → Prop} {maxlen : Nat} (hok : CodecOk cm dom maxlen) (all : Bool) (cs : List Nat) (hb : Dom dom cs) (wcap : Nat)
    (hw : cs.length ≤ wcap) : convBtoU cm all wcap (encodeAllC cm cs) = .ok (0, (encodeAllC cm cs).length, cs) :=
  convBtoU_wf hok all cs hb wcap hw

/-- characters to bytes (hawk_conv_uchars_to_bchars_with_cmgr): with enough room everything is converted, in order -/
theorem encodeAll_converts {cm : Cmgr} {dom : Nat → Prop} {maxlen : Nat} (hok : CodecOk cm dom maxlen) (ws : List Nat) (hb : Dom dom ws) (rem : Nat)
    (hr : (encodeAllC cm ws).length ≤ rem) : convUtoB cm ws rem = (0, ws.length, encodeAllC cm ws) := by
  obtain ⟨x, k, bs, h, hk, hbs, hlen, hx⟩ := convUtoB_bmp hok ws hb rem
  rcases hx with ⟨rfl, rfl⟩ | ⟨rfl, c, rest, hd, hlt⟩
  · rw [h, hbs]; simp
  · exfalso
    have hsplit : encodeAllC cm ws = bs ++ encodeAllC cm (c :: rest) := by
      rw [hbs, ← hd, ← encodeAllC_append, List.take_append_drop]
    have : (encodeAllC cm ws).length = bs.length + (encodeAllC cm (c :: rest)).length := by rw [hsplit]; simp
    have := encodeAll_length_pos cm c rest
    omega

/-- the conversion loop used by tio on arbitrary bytes, for every character manager whose decoder stays in bounds
(`decoders_in_bounds`: utf8 with any table, utf16, mb8): no out-of-bounds read, no more characters than
room, no more bytes consumed than given, and a verdict among ok / illegal / incomplete -/
theorem convUpto_in_bounds (cm : Cmgr) (hdec : DecTotal cm) (stopper wcap : Nat) (s : List UInt8) :
    ∃ x mlen out, convUpto cm stopper wcap s = .ok (x, mlen, out) ∧ out.length ≤ wcap ∧ out.length ≤ mlen ∧
      mlen ≤ s.length ∧ (x = 0 ∨ x = -1 ∨ x = -3) := by
  obtain ⟨x, mlen, out, h, h1, h2, h3, h4, _⟩ := convUpto_total cm hdec stopper s.length s wcap (Nat.le_refl _)
  exact ⟨x, mlen, out, h, h1, h2, h3, h4⟩

/-! ## tio read side -/

/-- **chunk independence**: a well-formed BMP byte string, delivered by the input handler in any chunks (none empty),
through a staging buffer of any capacity ≥ 3 and read with any request size ≥ 1, with or without IGNOREECERR,
comes out as exactly its characters, and the loop ends with "end of input" -/
theorem tio_read_chunk_independent {cm : Cmgr} {dom : Nat → Prop} {maxlen : Nat} (hok : CodecOk cm dom maxlen) (cfg : Cfg) (hT : cfg.cm = cm) (hl : cfg.legacy = false)
    (hc : maxlen ≤ cfg.capa) (size : Nat) (hs : 1 ≤ size) (cs : List Nat) (hb : Dom dom cs) (chunks : List (List UInt8))
    (hne : ∀ c ∈ chunks, c ≠ []) (hj : chunks.flatten = encodeAllC cm cs) :
    readAll cfg size (start chunks) = (cs, .eof) :=
  readAll_wf hok cfg ⟨hT, hl, hc⟩ size hs cs.length (start chunks) cs (Nat.le_refl _) (inv_start chunks cs hb hne hj)

/-- hence: re-encoding what was read reproduces the input bytes, and the number of characters read is the
character count of the text -/
theorem tio_read_reencodes {cm : Cmgr} {dom : Nat → Prop} {maxlen : Nat} (hok : CodecOk cm dom maxlen) (cfg : Cfg) (hT : cfg.cm = cm) (hl : cfg.legacy = false) (hc : maxlen ≤ cfg.capa)
    (size : Nat) (hs : 1 ≤ size) (cs : List Nat) (hb : Dom dom cs) (chunks : List (List UInt8))
    (hne : ∀ c ∈ chunks, c ≠ []) (hj : chunks.flatten = encodeAllC cm cs) :
    encodeAllC cm (readAll cfg size (start chunks)).1 = chunks.flatten ∧
    (readAll cfg size (start chunks)).1.length = cs.length := by
  rw [tio_read_chunk_independent hok cfg hT hl hc size hs cs hb chunks hne hj]
  exact ⟨hj.symm, rfl⟩

/-- and: two chunkings, capacities and request sizes of the same well-formed bytes read the same -/
theorem tio_read_two_schedules {cm : Cmgr} {dom : Nat → Prop} {maxlen : Nat} (hok : CodecOk cm dom maxlen) (cfg₁ cfg₂ : Cfg) (h₁ : cfg₁.cm = cm ∧ cfg₁.legacy = false ∧ maxlen ≤ cfg₁.capa)
    (h₂ : cfg₂.cm = cm ∧ cfg₂.legacy = false ∧ maxlen ≤ cfg₂.capa) (size₁ size₂ : Nat) (hs₁ : 1 ≤ size₁) (hs₂ : 1 ≤ size₂)
    (cs : List Nat) (hb : Dom dom cs) (ch₁ ch₂ : List (List UInt8)) (hne₁ : ∀ c ∈ ch₁, c ≠ []) (hne₂ : ∀ c ∈ ch₂, c ≠ [])
    (hj₁ : ch₁.flatten = encodeAllC cm cs) (hj₂ : ch₂.flatten = ch₁.flatten) :
    readAll cfg₁ size₁ (start ch₁) = readAll cfg₂ size₂ (start ch₂) := by
  rw [tio_read_chunk_independent hok cfg₁ h₁.1 h₁.2.1 h₁.2.2 size₁ hs₁ cs hb ch₁ hne₁ hj₁,
    tio_read_chunk_independent hok cfg₂ h₂.1 h₂.2.1 h₂.2.2 size₂ hs₂ cs hb ch₂ hne₂ (hj₂.trans hj₁)]

/-- **arbitrary bytes, every character manager whose decoder stays in bounds** (utf8 with any table, utf16, mb8): one `tio_read_uchars` call neither reads out of bounds (no fault) nor stores more
than `bufsize` characters, keeps cursor ≤ length ≤ capacity, and consumes at least one byte per character returned -/
theorem tio_read_in_bounds (cfg : Cfg) (hdec : DecTotal cfg.cm) (hl : cfg.legacy = false) (bufsize : Nat) (hb : 1 ≤ bufsize) (st : InSt)
    (hs : st.cur ≤ st.buf.length ∧ st.buf.length ≤ cfg.capa) :
    ∃ st' r, readU cfg bufsize st = (st', r) ∧ (st'.cur ≤ st'.buf.length ∧ st'.buf.length ≤ cfg.capa) ∧
      (match r with | .n out => out.length ≤ bufsize | .err _ => True | .fault _ => False) ∧
      pending st' + r.count ≤ pending st := by
  obtain ⟨st', r, h, hs', hr, hp⟩ := readU_safe cfg hdec hl bufsize hb st hs
  refine ⟨st', r, h, hs', ?_, hp⟩
  cases r <;> simp [RetOk] at hr <;> simp [hr]

/-- `hawk_tio_readuchars` on arbitrary bytes: at most `size` characters, staging buffer within bounds -/
theorem tio_readuchars_in_bounds (cfg : Cfg) (hdec : DecTotal cfg.cm) (hl : cfg.legacy = false) (size : Nat) (st : InSt)
    (hs : st.cur ≤ st.buf.length ∧ st.buf.length ≤ cfg.capa) :
    ∃ st' r, readUchars cfg size st = (st', r) ∧ (st'.cur ≤ st'.buf.length ∧ st'.buf.length ≤ cfg.capa) ∧
      (match r with | .n out => out.length ≤ size | .err _ => True | .fault _ => False) := by
  obtain ⟨st', r, h, hs', hr, _⟩ := readLoop_safe cfg hdec hl size size st [] (by simp) hs (by simp)
  refine ⟨st', r, h, hs', ?_⟩
  cases r <;> simp [RetOk] at hr <;> simp [hr]

/-- reading arbitrary bytes to the end is total and deterministic: the caller's loop ends with "end of input" or with the
conversion error, never with a fault and never without progress -/
theorem tio_read_total (cfg : Cfg) (hdec : DecTotal cfg.cm) (hl : cfg.legacy = false) (size : Nat) (chunks : List (List UInt8)) :
    (readAll cfg size (start chunks)).2 = .eof ∨ ∃ e, (readAll cfg size (start chunks)).2 = .err e :=
  readAll_safe cfg hdec hl size _ (start chunks) (Nat.le_refl _) ⟨by simp [start], by simp [start]⟩

/-- the unrepaired code stored a character beyond the caller's room: one character of room, "a" then an illegal byte -/
theorem legacy_stores_out_of_bounds :
    convPart { capa := 32, legacy := true } 1 { buf := [0x61, 0xFF] } =
      .done { buf := [0x61, 0xFF], cur := 2 } (.n [0x61, 0x3F]) := by
  have h2 : convUpto (utf8Cmgr T) 0x0A 0 [0xFF] = .ok (-1, 0, []) := by
    rw [convUpto_step (utf8Cmgr T) 0x0A 0 [0xFF] 0 0 (by simp) rfl]; rfl
  have h1 : convUpto (utf8Cmgr T) 0x0A 1 [0x61, 0xFF] = .ok (-1, 1, [0x61]) := by
    rw [convUpto_step (utf8Cmgr T) 0x0A 1 [0x61, 0xFF] 1 0x61 (by simp) rfl]
    simp only [show ([0x61, 0xFF] : List UInt8).drop 1 = [0xFF] by rfl, show (1 - 1) = 0 by rfl, h2]
    rfl
  exact convPart_x1_ign { capa := 32, legacy := true } 1 { buf := [0x61, 0xFF] } 1 [0x61] h1 rfl (Or.inl rfl)

/-- the repaired code leaves the illegal byte for the next call instead -/
theorem repaired_keeps_within_room :
    convPart { capa := 32 } 1 { buf := [0x61, 0xFF] } = .done { buf := [0x61, 0xFF], cur := 1 } (.n [0x61]) := by
  have h2 : convUpto (utf8Cmgr T) 0x0A 0 [0xFF] = .ok (-1, 0, []) := by
    rw [convUpto_step (utf8Cmgr T) 0x0A 0 [0xFF] 0 0 (by simp) rfl]; rfl
  have h1 : convUpto (utf8Cmgr T) 0x0A 1 [0x61, 0xFF] = .ok (-1, 1, [0x61]) := by
    rw [convUpto_step (utf8Cmgr T) 0x0A 1 [0x61, 0xFF] 1 0x61 (by simp) rfl]
    simp only [show ([0x61, 0xFF] : List UInt8).drop 1 = [0xFF] by rfl, show (1 - 1) = 0 by rfl, h2]
    rfl
  exact convPart_x1_full { capa := 32 } 1 { buf := [0x61, 0xFF] } 1 [0x61] h1 rfl rfl (by simp)

/-- the unrepaired code moved an incomplete tail with memcpy over overlapping ranges: "\n" consumed, E2 82 waiting -/
theorem legacy_overlapping_copy :
    convPart { capa := 32, legacy := true } 8 { buf := [0x0A, 0xE2, 0x82], cur := 1 } =
      .done { buf := [0x0A, 0xE2, 0x82], cur := 1 } (.fault .overlap) := by
  have h1 : convUpto (utf8Cmgr T) 0x0A 8 [0xE2, 0x82] = .ok (-3, 0, []) := by
    rw [convUpto_step (utf8Cmgr T) 0x0A 8 [0xE2, 0x82] 3 0 (by simp) rfl]; rfl
  unfold convPart
  simp only [show ([0x0A, 0xE2, 0x82] : List UInt8).drop 1 = [0xE2, 0x82] by rfl]
  rw [h1]
  rfl

/-! ## tio write side

The output handler is adversarial (`Reply`: accept 1 ≤ k ≤ offered bytes, accept nothing, fail; an exhausted script
accepts everything).  `o.sink` = the slices it accepted, `o.buf` = what is staged, `o.all` = accepted followed by staged. -/

/-- **`hawk_tio_flush`, every handler script**: the slices accepted by this call followed by what stays staged are exactly
the bytes that were staged, in order (nothing lost, nothing handed out twice); each slice lies within the staged bytes;
-1 is returned only with an undelivered remainder still staged; otherwise the count returned plus what stays staged is what
was staged; and unless the handler fails the call does not fail -/
theorem tio_flush_exactly_once (o : OutSt) :
    (flush o).1.all = o.all ∧
    (∃ extra, (flush o).1.sink = o.sink ++ extra ∧ extra.flatten ++ (flush o).1.buf = o.buf ∧
        ∀ ch ∈ extra, ch.length ≤ o.buf.length) ∧
    ((flush o).2 = none → (flush o).1.buf ≠ []) ∧
    (∀ c, (flush o).2 = some c → c + (flush o).1.buf.length = o.buf.length) ∧
    ((∀ x ∈ o.script, x ≠ .fail) → (flush o).2 ≠ none) := by
  obtain ⟨h1, h2, _, _, h5, h6, h7⟩ := flush_spec o
  exact ⟨h1, h2, h5, fun c hc => (h6 c hc).1, h7⟩

/-- **a later successful flush delivers exactly the rest**: from any state (for instance the one a failed flush or write
left behind), a flush that does not return -1, with a handler that never answers 0, leaves nothing staged: what the
handler has then accepted, in total, is everything that was accepted or staged before — once, in order -/
theorem tio_flush_completes (o : OutSt) (hz : ∀ x ∈ o.script, x ≠ .zero) (c : Nat) (hr : (flush o).2 = some c) :
    (flush o).1.buf = [] ∧ (flush o).1.sink.flatten = o.all ∧ c = o.buf.length := by
  obtain ⟨h1, _, _, _, _, h6, _⟩ := flush_spec o
  obtain ⟨h2, h3⟩ := h6 c hr
  have hb := h3 hz
  refine ⟨hb, ?_, by rw [hb] at h2; simpa using h2⟩
  rw [← h1]; simp [OutSt.all, hb]

/-- **every sequence of write calls, every handler script** (`hawk_tio_writeuchars` with characters of the manager's domain,
`hawk_tio_writebchars`, `hawk_tio_flush`; the caller goes on after failures): there are parts `ps`, one per call, with
`ps[i]` a prefix of the bytes call `i` was asked to write and all of them when call `i` reported success, such that accepted
followed by staged is the concatenation of the parts.  So what the handler accepted is a prefix of that text — every byte at
most once and in order —, a call that lost part of its text reported failure, every accepted slice and the staging buffer
stay within the capacity, and no call faults or hangs -/
theorem tio_write_exactly_once {cm : Cmgr} {dom : Nat → Prop} {maxlen : Nat} (hok : CodecOk cm dom maxlen) (cfg : Cfg) (hT : cfg.cm = cm) (hc : maxlen ≤ cfg.capa)
    (hc1 : 1 ≤ cfg.capa) (ops : List WOp) (hb : ∀ op ∈ ops, op.bmp dom)
    (script : List Reply) :
    ∃ ps, PartsOk cm ops (runOps cfg ops { script := script }).2 ps ∧
      (runOps cfg ops { script := script }).1.all = ps.flatten ∧
      (runOps cfg ops { script := script }).1.sink.flatten <+: ps.flatten ∧
      (∀ ch ∈ (runOps cfg ops { script := script }).1.sink, ch.length ≤ cfg.capa) ∧
      (runOps cfg ops { script := script }).1.buf.length ≤ cfg.capa := by
  obtain ⟨ps, h1, h2, _⟩ := runOps_spec hok cfg hT hc ops { script := script } hb hc1 (by simp)
  have hall : (runOps cfg ops { script := script }).1.all = ps.flatten := by simpa [OutSt.all] using h2.all
  refine ⟨ps, h1, hall, ?_, h2.sinkOk (by intro ch h; simp at h), h2.len⟩
  rw [← hall]; exact ⟨_, rfl⟩

/-- when every call reported success the parts are the whole texts: accepted followed by staged is the text written so far,
and what the handler accepted is a prefix of it -/
theorem tio_write_success_is_text {cm : Cmgr} {dom : Nat → Prop} {maxlen : Nat} (hok : CodecOk cm dom maxlen) (cfg : Cfg) (hT : cfg.cm = cm) (hc : maxlen ≤ cfg.capa)
    (hc1 : 1 ≤ cfg.capa) (ops : List WOp) (hb : ∀ op ∈ ops, op.bmp dom)
    (script : List Reply) (hall : ∀ ok ∈ (runOps cfg ops { script := script }).2, ok = true) :
    (runOps cfg ops { script := script }).1.all = (ops.map (WOp.text cm)).flatten ∧
    (runOps cfg ops { script := script }).1.sink.flatten <+: (ops.map (WOp.text cm)).flatten := by
  obtain ⟨ps, h1, h2, h3, _⟩ := tio_write_exactly_once hok cfg hT hc hc1 ops hb script
  have := partsOk_all cm ops _ ps h1 hall
  rw [this] at h2 h3
  exact ⟨h2, h3⟩

/-- and after a final flush that does not fail (handler never answering 0 from then on) the handler has accepted exactly
the text written, once and in order -/
theorem tio_write_final_flush {cm : Cmgr} {dom : Nat → Prop} {maxlen : Nat} (hok : CodecOk cm dom maxlen) (cfg : Cfg) (hT : cfg.cm = cm) (hc : maxlen ≤ cfg.capa)
    (hc1 : 1 ≤ cfg.capa) (ops : List WOp) (hb : ∀ op ∈ ops, op.bmp dom)
    (script : List Reply) (hall : ∀ ok ∈ (runOps cfg ops { script := script }).2, ok = true)
    (hz : ∀ x ∈ (runOps cfg ops { script := script }).1.script, x ≠ .zero) (c : Nat)
    (hr : (flush (runOps cfg ops { script := script }).1).2 = some c) :
    (flush (runOps cfg ops { script := script }).1).1.sink.flatten = (ops.map (WOp.text cm)).flatten ∧
    (flush (runOps cfg ops { script := script }).1).1.buf = [] := by
  obtain ⟨h1, h2, _⟩ := tio_flush_completes _ hz c hr
  exact ⟨by rw [h2]; exact (tio_write_success_is_text hok cfg hT hc hc1 ops hb script hall).1, h1⟩

/-- a handler that always accepts something (at least one byte per call, however few): every call succeeds -/
theorem tio_write_accepting_handler {cm : Cmgr} {dom : Nat → Prop} {maxlen : Nat} (hok : CodecOk cm dom maxlen) (cfg : Cfg) (hT : cfg.cm = cm) (hc : maxlen ≤ cfg.capa)
    (hc1 : 1 ≤ cfg.capa) (ops : List WOp) (hb : ∀ op ∈ ops, op.bmp dom)
    (script : List Reply) (ha : ∀ x ∈ script, isAcc x) : ∀ ok ∈ (runOps cfg ops { script := script }).2, ok = true := by
  obtain ⟨_, _, _, h⟩ := runOps_spec hok cfg hT hc ops { script := script } hb hc1 (by simp)
  exact h ha (by simp; omega)

/-- **write-side round trip**: any sequence of `hawk_tio_writeuchars` calls with BMP characters, against a handler that always
accepts something, succeeds; the bytes accepted followed by the bytes still staged are the encoding of all characters in
order, whatever the segmentation, the capacity (≥ 3), the flush policy and the sizes the handler accepts; every accepted
slice is within the capacity -/
theorem tio_write_roundtrip {cm : Cmgr} {dom : Nat → Prop} {maxlen : Nat} (hok : CodecOk cm dom maxlen) (cfg : Cfg) (hT : cfg.cm = cm) (hc : maxlen ≤ cfg.capa) (hc1 : 1 ≤ cfg.capa)
    (segs : List (List Nat)) (hb : Dom dom segs.flatten) (script : List Reply) (ha : ∀ x ∈ script, isAcc x) :
    (writeMany cfg segs { script := script }).2 = true ∧
    (writeMany cfg segs { script := script }).1.all = encodeAllC cm segs.flatten ∧
    ∀ ch ∈ (writeMany cfg segs { script := script }).1.sink, ch.length ≤ cfg.capa := by
  have hbm : ∀ op ∈ segs.map WOp.u, op.bmp dom := by
    intro op hop
    obtain ⟨ws, hws, rfl⟩ := List.mem_map.mp hop
    exact fun c hc' => hb c (List.mem_flatten.mpr ⟨ws, hws, hc'⟩)
  have hall := tio_write_accepting_handler hok cfg hT hc hc1 _ hbm script ha
  obtain ⟨h1, _⟩ := tio_write_success_is_text hok cfg hT hc hc1 _ hbm script hall
  obtain ⟨_, _, _, _, h4, _⟩ := tio_write_exactly_once hok cfg hT hc hc1 _ hbm script
  refine ⟨by simpa [writeMany, List.all_eq_true] using hall, ?_, h4⟩
  simp only [writeMany]
  rw [h1, encodeAll_flatten]

/-- written text read back, through any chunking of the written bytes, is the text -/
theorem tio_write_then_read {cm : Cmgr} {dom : Nat → Prop} {maxlen : Nat} (hok : CodecOk cm dom maxlen) (wcfg rcfg : Cfg) (hwT : wcfg.cm = cm) (hwc : maxlen ≤ wcfg.capa) (hwc1 : 1 ≤ wcfg.capa)
    (hrT : rcfg.cm = cm) (hrl : rcfg.legacy = false) (hrc : maxlen ≤ rcfg.capa) (size : Nat) (hs : 1 ≤ size) (segs : List (List Nat))
    (hb : Dom dom segs.flatten) (chunks : List (List UInt8)) (hne : ∀ c ∈ chunks, c ≠ [])
    (hj : chunks.flatten = (writeMany wcfg segs {}).1.all) :
    readAll rcfg size (start chunks) = (segs.flatten, .eof) :=
  tio_read_chunk_independent hok rcfg hrT hrl hrc size hs segs.flatten hb chunks hne
    (hj.trans (tio_write_roundtrip hok wcfg hwT hwc hwc1 segs hb [] (by intro x h; simp at h)).2.1)

/-- the defect seeded as C05-r2s2 on a concrete run of the model of the *correct* code: "hello world\n" staged, the handler
takes 5 bytes and then fails — the flush returns -1 with exactly the 7 undelivered bytes staged, and the next flush hands out
exactly those (the changed code handed out 12) -/
theorem flush_short_write_then_failure :
    flush { buf := [0x68, 0x65, 0x6C, 0x6C, 0x6F, 0x20, 0x77, 0x6F, 0x72, 0x6C, 0x64, 0x0A], script := [.acc 4, .fail] } =
      ({ buf := [0x20, 0x77, 0x6F, 0x72, 0x6C, 0x64, 0x0A], sink := [[0x68, 0x65, 0x6C, 0x6C, 0x6F]], script := [], ncalls := 2 }, none) ∧
    flush { buf := [0x20, 0x77, 0x6F, 0x72, 0x6C, 0x64, 0x0A], sink := [[0x68, 0x65, 0x6C, 0x6C, 0x6F]], script := [], ncalls := 2 } =
      ({ buf := [], sink := [[0x68, 0x65, 0x6C, 0x6C, 0x6F], [0x20, 0x77, 0x6F, 0x72, 0x6C, 0x64, 0x0A]], script := [], ncalls := 3 }, some 7) := by
  constructor <;> rfl

/-- `hawk_tio_writebchars` with a null-terminated source (behind hawk_sio_putbcstr), repaired, **every handler script**: what
entered "accepted followed by staged" is a prefix of the bytes before the first NUL and all of them when the call reported
success; a failure is EIOERR (the handler failed) or EBUFFULL (it left the buffer full); accepted slices and the staging
buffer stay within the capacity — in particular nothing is stored beyond the buffer -/
theorem tio_write_cstr_exactly_once (cfg : Cfg) (hl : cfg.legacy = false) (bs : List UInt8) (o : OutSt) (h : o.buf.length ≤ cfg.capa)
    (hs : ∀ ch ∈ o.sink, ch.length ≤ cfg.capa) :
    ∃ p, (writeBcstr cfg bs o).1.all = o.all ++ p ∧ p <+: bs.takeWhile (· ≠ 0) ∧
      ((writeBcstr cfg bs o).2 = none → p = bs.takeWhile (· ≠ 0)) ∧
      ((writeBcstr cfg bs o).2 = none ∨ (writeBcstr cfg bs o).2 = some (.inl .eioerr) ∨ (writeBcstr cfg bs o).2 = some (.inl .ebuffull)) ∧
      (writeBcstr cfg bs o).1.buf.length ≤ cfg.capa ∧ ∀ ch ∈ (writeBcstr cfg bs o).1.sink, ch.length ≤ cfg.capa := by
  obtain ⟨p, hg, h1, h2, h3⟩ := writeBcstr_spec cfg hl bs o h
  exact ⟨p, hg.all, h1, h2, h3, hg.len, hg.sinkOk hs⟩

/-- the unrepaired loop went on after a flush in which the handler accepted nothing and stored the next byte beyond the
buffer (capacity 2, "abc", the handler answers 0); the repaired one fails with HAWK_EBUFFULL -/
theorem legacy_cstr_write_stores_beyond_buffer :
    (writeBcstr { capa := 2, legacy := true } [0x61, 0x62, 0x63] { script := [.zero] }).2 = some (.inr .oobWrite) ∧
    (writeBcstr { capa := 2 } [0x61, 0x62, 0x63] { script := [.zero] }).2 = some (.inl .ebuffull) := by
  constructor <;> rfl

/-! ## bytes -/

/-- byte-mode reads (`hawk_tio_readbchars`, behind byte-mode getline) return exactly the bytes supplied, for every
chunking, capacity ≥ 1 and request size ≥ 1 -/
theorem tio_read_bytes_identity (cfg : Cfg) (hc : 1 ≤ cfg.capa) (size : Nat) (hs : 1 ≤ size) (chunks : List (List UInt8))
    (hne : ∀ c ∈ chunks, c ≠ []) : readAllBytes cfg size (start chunks) = (chunks.flatten, true) := by
  have := readAllBytes_spec cfg hc size hs _ (start chunks) (Nat.le_refl _) hne
  simpa [remaining, start] using this

/-- byte output (`hawk_tio_writebchars`): any sequence of byte writes against a handler that always accepts something hands
out / stages exactly the bytes written, in order, every accepted slice within the capacity, whatever the capacity (≥ 1), the
segmentation, the flush policy and the sizes the handler accepts (failing handlers: `tio_write_exactly_once`) -/
theorem tio_write_bytes_identity (cfg : Cfg) (hc : 1 ≤ cfg.capa) (segs : List (List UInt8)) (script : List Reply)
    (ha : ∀ x ∈ script, isAcc x) :
    (segs.foldl (fun o bs => (writeBchars cfg bs o).1) ({ script := script } : OutSt)).all = segs.flatten ∧
    ∀ ch ∈ (segs.foldl (fun o bs => (writeBchars cfg bs o).1) ({ script := script } : OutSt)).sink, ch.length ≤ cfg.capa := by
  have key : ∀ (segs : List (List UInt8)) (o : OutSt), SinkOk cfg o → o.buf.length < cfg.capa → (∀ x ∈ o.script, isAcc x) →
      (segs.foldl (fun o bs => (writeBchars cfg bs o).1) o).all = o.all ++ segs.flatten ∧
      SinkOk cfg (segs.foldl (fun o bs => (writeBchars cfg bs o).1) o) := by
    intro segs
    induction segs with
    | nil => intro o hs _ _; simp [hs]
    | cons bs rest ih =>
      intro o hs hl hacc
      obtain ⟨p, h1, _, h3, _, h5⟩ := writeBchars_spec cfg hc bs o (by omega)
      obtain ⟨a, b, c⟩ := h5 hacc hl
      obtain ⟨h6, h7⟩ := ih _ (h1.sinkOk hs) b c
      simp only [List.foldl_cons]
      exact ⟨by rw [h6, h1.all, h3 a]; simp, h7⟩
  obtain ⟨h1, h2⟩ := key segs { script := script } (by intro ch h; simp at h) (by simp; omega) ha
  exact ⟨by simpa [OutSt.all] using h1, h2⟩

/-- the byte-string value operations are list operations in the model (tied to val.c/run.c/fnc.c only by the language-level
runs): the concatenation / substr program of the check returns its operands -/
theorem bytes_concat_substr_identity (x sep : List UInt8) :
    ((x ++ sep ++ x).take x.length = x) ∧ ((x ++ sep ++ x).drop (x.length + sep.length) = x) := by
  constructor
  · simp
  · rw [← List.length_append, List.drop_left]

/-! ## the three built-in character managers (lib/utl-cmgr.c: utf8, utf16, mb8)

The read-side and write-side theorems above are stated for any `hawk_cmgr_t` satisfying `CodecOk` (the encoder reports a
too small buffer by its return value and stores nothing then; the decoder undoes the encoder whatever follows and answers
"incomplete" for a proper prefix of an encoding) resp. `DecTotal` (the decoder never reads beyond the size it is given).
Here the three managers are shown to satisfy them, so "text passes through unchanged" also holds for a console or file
opened with `--console-encoding`/`setioattr(…, "codepage", …)` utf16 or mb8 — for utf16 after the two repairs
patches/utf16-incomplete.diff and patches/utf16-small-buffer.diff (`utf16_legacy_*` show the unrepaired behaviour). -/

/-- utf8 on every 16-bit value (≤ 3 bytes), mb8 on 0..255 (1 byte), utf16 on the non-surrogate 16-bit values (2 bytes) -/
theorem managers_ok :
    CodecOk (utf8Cmgr T) (fun c => c < 65536) 3 ∧ CodecOk mb8Cmgr (fun c => c < 256) 1 ∧ CodecOk (utf16Cmgr false) utf16Dom 2 :=
  ⟨codecOk_utf8, codecOk_mb8, codecOk_utf16⟩

/-- every built-in decoder stays within the size it is given and gives a verdict (utf8 with any table; utf16 repaired or not) -/
theorem decoders_in_bounds (tbl : List Utf8Row) (legacy : Bool) :
    DecTotal (utf8Cmgr tbl) ∧ DecTotal mb8Cmgr ∧ DecTotal (utf16Cmgr legacy) :=
  ⟨decTotal_utf8 tbl, decTotal_mb8, decTotal_utf16 legacy⟩

/-- mb8: one byte is one character below 256, both ways; a character ≥ 256 is refused (return 0), an empty buffer is
reported by the return value 1 > 0 -/
theorem mb8_roundtrip (c : Nat) (t : List UInt8) :
    (c < 256 → encodeC mb8Cmgr c = [UInt8.ofNat c] ∧ mb8ToUc (UInt8.ofNat c :: t) = .ok (1, c)) ∧
    (256 ≤ c → ∀ size, 0 < size → ucToMb8 c size = ⟨0, none⟩) ∧ ucToMb8 c 0 = ⟨1, none⟩ ∧
    (∀ b : UInt8, mb8ToUc (b :: t) = .ok (1, b.toNat) ∧ encodeC mb8Cmgr b.toNat = [b]) := by
  refine ⟨fun hc => ⟨encodeC_mb8 c hc, ?_⟩, fun hc size hs => ?_, by simp [ucToMb8], fun b => ⟨by simp [mb8ToUc, rd], ?_⟩⟩
  · have := codecOk_mb8.dec_enc c hc t
    rw [encodeC_mb8 c hc] at this
    simpa using this
  · simp [ucToMb8, show size ≠ 0 by omega, show c > 255 by omega]
  · rw [encodeC_mb8 _ b.toNat_lt]; simp

/-- utf16 (16-bit characters, host byte order): a non-surrogate value is its two bytes, both ways; a surrogate code unit is
encoded but refused by the decoder (the pair branches are not compiled for 16-bit `hawk_uch_t`); one byte of a unit is
"incomplete" (2 > 1), and a buffer of fewer than two bytes is reported by the return value with nothing stored -/
theorem utf16_roundtrip (c : Nat) (hc : c < 65536) (t : List UInt8) :
    encodeC (utf16Cmgr false) c = [UInt8.ofNat (c % 256), UInt8.ofNat (c / 256)] ∧
    ((c < 0xD800 ∨ c > 0xDFFF) → utf16ToUc false (UInt8.ofNat (c % 256) :: UInt8.ofNat (c / 256) :: t) = .ok (2, c)) ∧
    ((0xD800 ≤ c ∧ c ≤ 0xDFFF) → utf16ToUc false (UInt8.ofNat (c % 256) :: UInt8.ofNat (c / 256) :: t) = .ok (0, 0)) ∧
    (∀ b : UInt8, utf16ToUc false [b] = .ok (2, 0)) ∧
    (∀ size, size < 2 → ucToUtf16 false c size = ⟨2, none⟩) := by
  refine ⟨encodeC_utf16 c hc, fun hd => ?_, fun hd => ?_, fun b => by simp [utf16ToUc], fun size hs => ?_⟩
  · have := codecOk_utf16.dec_enc c ⟨hc, hd⟩ t
    rw [encodeC_utf16 c hc] at this
    simpa using this
  · have h1 : c % 256 + 256 * (c / 256 % 256) = c := by omega
    have h2 : ¬ (c < 55296 ∨ 57343 < c) := by omega
    simp [utf16ToUc, rd, h1, h2]
  · simp [ucToUtf16, show c ≤ 65535 by omega, show ¬ 2 ≤ size by omega]

/-- the unrepaired utf16 decoder called one byte of a two-byte unit *illegal* (return 0) instead of incomplete: tio then
replaces it by '?' instead of waiting for the other byte, so a read boundary inside a unit corrupts well-formed text -/
theorem utf16_legacy_incomplete_is_illegal (b : UInt8) :
    utf16ToUc true [b] = .ok (0, 0) ∧ utf16ToUc false [b] = .ok (2, 0) := by
  constructor <;> simp [utf16ToUc]

/-- the unrepaired utf16 encoder stored its two bytes whatever room it was given: with one byte of room, one byte lands
beyond the buffer (the repaired one returns 2 > 1 and stores nothing) -/
theorem utf16_legacy_stores_beyond_buffer (c : Nat) (hc : c < 65536) :
    (ucToUtf16 true c 1).bytes = some [UInt8.ofNat (c % 256), UInt8.ofNat (c / 256)] ∧ (ucToUtf16 false c 1).bytes = none := by
  constructor <;> simp [ucToUtf16, show c ≤ 65535 by omega]

/-- `hawk_get_cmgr_by_bcstr` / `_by_ucstr`: the three names select their managers, anything else (including other letter
cases) selects none -/
theorem cmgr_by_name :
    cmgrByName "utf8" = some .utf8 ∧ cmgrByName "utf16" = some .utf16 ∧ cmgrByName "mb8" = some .mb8 ∧
    cmgrByName "UTF8" = none ∧ cmgrByName "" = none ∧ cmgrByName "utf-8" = none ∧
    (∀ id, ∃ name, cmgrByName name = some id) := by
  refine ⟨by decide, by decide, by decide, by decide, by decide, by decide, fun id => ?_⟩
  cases id
  · exact ⟨"utf8", by decide⟩
  · exact ⟨"utf16", by decide⟩
  · exact ⟨"mb8", by decide⟩

/-- text through a utf16 console: every chunking (also through the middle of a unit), capacity ≥ 2 -/
theorem tio_read_chunk_independent_utf16 (cfg : Cfg) (hT : cfg.cm = utf16Cmgr false) (hl : cfg.legacy = false) (hc : 2 ≤ cfg.capa)
    (size : Nat) (hs : 1 ≤ size) (cs : List Nat) (hb : Dom utf16Dom cs) (chunks : List (List UInt8))
    (hne : ∀ c ∈ chunks, c ≠ []) (hj : chunks.flatten = encodeAllC (utf16Cmgr false) cs) :
    readAll cfg size (start chunks) = (cs, .eof) :=
  tio_read_chunk_independent codecOk_utf16 cfg hT hl hc size hs cs hb chunks hne hj

/-- text through an mb8 console -/
theorem tio_read_chunk_independent_mb8 (cfg : Cfg) (hT : cfg.cm = mb8Cmgr) (hl : cfg.legacy = false) (hc : 1 ≤ cfg.capa)
    (size : Nat) (hs : 1 ≤ size) (cs : List Nat) (hb : Dom (fun c => c < 256) cs) (chunks : List (List UInt8))
    (hne : ∀ c ∈ chunks, c ≠ []) (hj : chunks.flatten = encodeAllC mb8Cmgr cs) :
    readAll cfg size (start chunks) = (cs, .eof) :=
  tio_read_chunk_independent codecOk_mb8 cfg hT hl hc size hs cs hb chunks hne hj

/-- the utf8 instance in its original wording: BMP characters, capacity ≥ 3 -/
theorem tio_read_chunk_independent_utf8 (cfg : Cfg) (hT : cfg.cm = utf8Cmgr T) (hl : cfg.legacy = false) (hc : 3 ≤ cfg.capa)
    (size : Nat) (hs : 1 ≤ size) (cs : List Nat) (hb : BMP cs) (chunks : List (List UInt8))
    (hne : ∀ c ∈ chunks, c ≠ []) (hj : chunks.flatten = encodeAll T cs) :
    readAll cfg size (start chunks) = (cs, .eof) :=
  tio_read_chunk_independent codecOk_utf8 cfg hT hl hc size hs cs hb chunks hne hj

/-- the write side for the three managers: exactly once, in order, for every handler script -/
theorem tio_write_exactly_once_builtin (id : CmgrId) (cfg : Cfg) (hT : cfg.cm = cmgrById id) (hc : 3 ≤ cfg.capa)
    (ops : List WOp) (script : List Reply)
    (hb : ∀ op ∈ ops, op.bmp (match id with | .utf8 => fun c => c < 65536 | .utf16 => utf16Dom | .mb8 => fun c => c < 256)) :
    ∃ ps, PartsOk (cmgrById id) ops (runOps cfg ops { script := script }).2 ps ∧
      (runOps cfg ops { script := script }).1.all = ps.flatten ∧
      (runOps cfg ops { script := script }).1.sink.flatten <+: ps.flatten := by
  cases id with
  | utf8 => obtain ⟨ps, h1, h2, h3, _⟩ := tio_write_exactly_once codecOk_utf8 cfg hT hc (by omega) ops hb script; exact ⟨ps, h1, h2, h3⟩
  | utf16 => obtain ⟨ps, h1, h2, h3, _⟩ := tio_write_exactly_once codecOk_utf16 cfg hT (by omega) (by omega) ops hb script; exact ⟨ps, h1, h2, h3⟩
  | mb8 => obtain ⟨ps, h1, h2, h3, _⟩ := tio_write_exactly_once codecOk_mb8 cfg hT (by omega) (by omega) ops hb script; exact ⟨ps, h1, h2, h3⟩

/-! ## bytes ↔ text conversion of values (lib/gem.c duplicating converters behind lib/val.c)

`hawk_rtx_makestrvalwithbchars`, `hawk_rtx_valtoucstrdupwithcmgr`, `mbs_to_str`, … convert with `all = 1` (one '?' per
undecodable byte); `hawk_rtx_makembsvalwithuchars`, `hawk_rtx_valtobcstrdupwithcmgr`, … fail with HAWK_EECERR on a
character the manager refuses.  Both run the conversion loop twice (count, then fill a block of exactly that size). -/

/-- **arbitrary bytes to text, every manager**: no out-of-bounds read, the filling pass never overruns the block the counting
pass sized and fills it exactly, at most one character per byte; with `all` (what val.c uses) the conversion cannot fail -/
theorem bytes_to_text_in_bounds (cm : Cmgr) (hdec : DecTotal cm) (all : Bool) (s : List UInt8) :
    (∃ out, dupBtoU cm all s = .ok (.ok out) ∧ out.length ≤ s.length) ∨ (all = false ∧ dupBtoU cm all s = .ok .eecerr) :=
  dupBtoU_spec cm hdec all s

/-- the counting pass and the filling pass of bytes → text agree on arbitrary input -/
theorem bytes_to_text_two_passes (cm : Cmgr) (hdec : DecTotal cm) (all : Bool) (s : List UInt8) :
    ∃ x m k, convBtoUCount cm all s = .ok (x, m, k) ∧ (x = 0 ∨ x = -1 ∨ x = -3) ∧
      (x = 0 → ∃ out, convBtoU cm all k s = .ok (0, m, out) ∧ out.length = k) := by
  obtain ⟨x, m, k, h, hx, _, _, _, hc⟩ := convBtoU_two_passes cm hdec all s.length s (Nat.le_refl _)
  exact ⟨x, m, k, h, hx, hc⟩

/-- **text ↔ bytes round trip of values**: characters the manager carries convert to their encoding, which converts back to
the characters; so a text string passed through a byte string (and a well-formed byte string through a text string) is
unchanged, for utf8, utf16 and mb8 alike -/
theorem text_bytes_roundtrip {cm : Cmgr} {dom : Nat → Prop} {maxlen : Nat} (hok : CodecOk cm dom maxlen) (all : Bool)
    (ws : List Nat) (hb : Dom dom ws) :
    dupUtoB cm ws = .ok (encodeAllC cm ws) ∧ dupBtoU cm all (encodeAllC cm ws) = .ok (.ok ws) :=
  ⟨dupUtoB_dom hok ws hb, dupBtoU_wf hok all ws hb⟩

/-- a character the manager does not carry (≥ 256 for mb8) is refused with HAWK_EECERR, never converted to something else -/
theorem text_to_bytes_refuses {cm : Cmgr} {dom : Nat → Prop} {maxlen : Nat} (hok : CodecOk cm dom maxlen) (pre post : List Nat)
    (c : Nat) (hb : Dom dom pre) (hc : (cm.uctobc c bcsizeMax).ret = 0) : dupUtoB cm (pre ++ c :: post) = .eecerr :=
  dupUtoB_refuses hok pre post c hb hc

/-! ## the hypotheses are satisfiable (non-vacuity) -/

/-- "\n€\n" delivered as "\n E2 82" + "AC \n": the situation in which the unrepaired code made the overlapping copy -/
example : readAll { capa := 32 } 8 (start [[0x0A, 0xE2, 0x82], [0xAC, 0x0A]]) = ([0x0A, 0x20AC, 0x0A], .eof) :=
  tio_read_chunk_independent_utf8 { capa := 32 } rfl rfl (by decide) 8 (by decide) [0x0A, 0x20AC, 0x0A]
    (by intro c hc; simp at hc; rcases hc with rfl | rfl | rfl <;> decide)
    [[0x0A, 0xE2, 0x82], [0xAC, 0x0A]] (by intro c hc; simp at hc; rcases hc with rfl | rfl <;> simp) rfl

/-- "A€\n" in utf16 delivered with a boundary inside the second unit: the case the unrepaired decoder corrupted -/
example : readAll { capa := 32, cm := utf16Cmgr false } 8 (start [[0x41, 0x00, 0xAC], [0x20, 0x0A, 0x00]]) = ([0x41, 0x20AC, 0x0A], .eof) :=
  tio_read_chunk_independent_utf16 { capa := 32, cm := utf16Cmgr false } rfl rfl (by decide) 8 (by decide) [0x41, 0x20AC, 0x0A]
    (by intro c hc; simp at hc; rcases hc with rfl | rfl | rfl <;> (unfold utf16Dom; omega))
    [[0x41, 0x00, 0xAC], [0x20, 0x0A, 0x00]] (by intro c hc; simp at hc; rcases hc with rfl | rfl <;> simp) rfl

example : readAll { capa := 32, cm := mb8Cmgr } 8 (start [[0x41, 0xE9], [0x0A]]) = ([0x41, 0xE9, 0x0A], .eof) :=
  tio_read_chunk_independent_mb8 { capa := 32, cm := mb8Cmgr } rfl rfl (by decide) 8 (by decide) [0x41, 0xE9, 0x0A]
    (by intro c hc; simp at hc; rcases hc with rfl | rfl | rfl <;> decide)
    [[0x41, 0xE9], [0x0A]] (by intro c hc; simp at hc; rcases hc with rfl | rfl <;> simp) rfl

/-- a surrogate is an ordinary character for the utf8 codec -/
example : encode T 0xD800 = [0xED, 0xA0, 0x80] ∧ utf8ToUc T [0xED, 0xA0, 0x80] = .ok (3, 0xD800) := ⟨rfl, rfl⟩

example : (writeMany { capa := 32 } [[0x41, 0x20AC], [0x0A]] { script := [.acc 0, .acc 2] }).1.all = [0x41, 0xE2, 0x82, 0xAC, 0x0A] :=
  (tio_write_roundtrip codecOk_utf8 { capa := 32 } rfl (by decide) (by decide) [[0x41, 0x20AC], [0x0A]]
    (by intro c hc; simp at hc; rcases hc with rfl | rfl | rfl <;> decide) [.acc 0, .acc 2]
    (by intro x hx; simp at hx; rcases hx with rfl | rfl <;> trivial)).2.1

/-- "Aé" to bytes and back under each manager; '€' is refused by mb8 -/
example : dupUtoB (utf8Cmgr T) [0x41, 0xE9] = .ok [0x41, 0xC3, 0xA9] ∧ dupUtoB mb8Cmgr [0x41, 0xE9] = .ok [0x41, 0xE9] ∧
    dupUtoB (utf16Cmgr false) [0x41, 0xE9] = .ok [0x41, 0x00, 0xE9, 0x00] ∧ dupUtoB mb8Cmgr [0x41, 0x20AC] = .eecerr := by
  refine ⟨?_, ?_, ?_, ?_⟩
  · exact (text_bytes_roundtrip codecOk_utf8 true [0x41, 0xE9] (by intro c h; simp at h; rcases h with rfl | rfl <;> decide)).1
  · exact (text_bytes_roundtrip codecOk_mb8 true [0x41, 0xE9] (by intro c h; simp at h; rcases h with rfl | rfl <;> decide)).1
  · exact (text_bytes_roundtrip codecOk_utf16 true [0x41, 0xE9]
      (by intro c h; simp at h; rcases h with rfl | rfl <;> (unfold utf16Dom; omega))).1
  · exact text_to_bytes_refuses codecOk_mb8 [0x41] [] 0x20AC (by intro c h; simp at h; subst h; decide) rfl

end Hawk.C15
