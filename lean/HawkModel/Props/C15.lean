import HawkModel.TioLemmas
/-!
# C15 — text passes through unchanged

Theorems about the executable models `HawkModel/Utf8.lean` (lib/utf8.c, conversion loops of lib/utl.c) and
`HawkModel/Tio.lean` (staging buffers of lib/tio.c), for the table `T = Hawk.Gen.utf8Table` that
extract/utf8_table.py generates from the C source and for the 16-bit `hawk_uch_t` of the checked build.

What the C code was found to do, and is modelled to do:
* surrogates U+D800..U+DFFF are ordinary 3-byte characters in both directions (`decode_encode` covers them);
* the decoder does **not** use the `lower` column: overlong forms are accepted and decoded
  (`overlong_is_accepted`), so `encode_decode` carries the shortest-form hypothesis;
* 4-byte forms are accepted and truncated to 16 bits (`four_byte_is_truncated`) — outside the BMP, outside the property;
* ill-formed input under HAWK_TIO_IGNOREECERR becomes one '?' per undecodable byte; without the flag the read fails.
The model follows the two repairs patches/tio-illseq-oob.diff and patches/tio-shift-overlap.diff
(`Cfg.legacy = false`); `legacy_*` below exhibit the defects of the unrepaired code on concrete inputs.
-/
namespace Hawk.C15
open Hawk.Gen Hawk.Utf8 Hawk.Tio

/-! ## the codec -/

/-- decode ∘ encode = id on every value of the character type (surrogates included), whatever follows the character -/
theorem decode_encode (c : Nat) (hc : c < 65536) (t : List UInt8) :
    utf8ToUc T (encode T c ++ t) = .ok ((encode T c).length, c) ∧
    decode T (encode T c) = .ok (.ok c (encode T c).length) ∧
    1 ≤ (encode T c).length ∧ (encode T c).length ≤ 3 := by
  refine ⟨dec_enc_append c hc t, ?_, enc_len c hc⟩
  have h := dec_enc_append c hc []
  simp only [List.append_nil] at h
  have h1 := (enc_len c hc).1
  unfold decode classify
  rw [h]
  simp only
  rw [if_neg (by omega), if_neg (by omega)]

/-- the encoder in arithmetic: one, two or three bytes by range, nothing special for U+D800..U+DFFF -/
theorem encode_spec (c : Nat) (hc : c < 65536) :
    encode T c =
      if c < 0x80 then [UInt8.ofNat c]
      else if c < 0x800 then [UInt8.ofNat (0xC0 + c / 64), UInt8.ofNat (0x80 + c % 64)]
      else [UInt8.ofNat (0xE0 + c / 4096), UInt8.ofNat (0x80 + c / 64 % 64), UInt8.ofNat (0x80 + c % 64)] :=
  encode_eq_spec c hc

/-- encode ∘ decode = id on what the decoder accepts **in shortest form** (the encoder would use as many bytes) -/
theorem encode_decode (s : List UInt8) (n w : Nat) (h : utf8ToUc T s = .ok (n, w)) (hn0 : n ≠ 0) (hn : n ≤ s.length)
    (hshort : (encode T w).length = n) : encode T w = s.take n :=
  encode_decode_T s n w h hn0 hn hshort

/-- the shortest-form hypothesis of `encode_decode` cannot be dropped: the C decoder accepts the overlong C0 80 -/
theorem overlong_is_accepted : utf8ToUc T [0xC0, 0x80] = .ok (2, 0) ∧ encode T 0 = [0x00] := ⟨rfl, rfl⟩

/-- a 4-byte form (U+10000) is accepted and its value truncated to 16 bits -/
theorem four_byte_is_truncated : utf8ToUc T [0xF0, 0x90, 0x80, 0x80] = .ok (4, 0) := rfl

/-- the decoder never reads at an index ≥ the size it is given, for every table and every non-empty input;
its verdict is one of: a character of n ≤ size bytes below 2^16, "n > size bytes needed", illegal -/
theorem decode_in_bounds (tbl : List Utf8Row) (s : List UInt8) (hs : s ≠ []) :
    ∃ d, decode tbl s = .ok d ∧
      match d with
      | .ok c n => n ≠ 0 ∧ n ≤ s.length ∧ c < uchMod
      | .incomplete n => n > s.length
      | .illegal => True := by
  obtain ⟨⟨n, w⟩, h⟩ := utf8ToUc_ok tbl s hs
  have hw := utf8ToUc_w_lt tbl s n w h
  refine ⟨classify s.length (n, w), by simp [decode, h], ?_⟩
  unfold classify
  by_cases h0 : n = 0
  · simp [h0]
  · by_cases h1 : n > s.length
    · simp [h0, h1]
    · simp [h0, h1]; omega

/-- the bounds check of the model is real: with size 0 the C would read utf8[0] -/
theorem decode_of_nothing_faults : decode T [] = .error .oobRead := rfl

/-- a truncated character is reported as incomplete (return value > size), never as a shorter character -/
theorem decode_truncated (c : Nat) (hc : c < 65536) (p q : List UInt8) (hpq : p ++ q = encode T c) (hp : p ≠ []) (hq : q ≠ []) :
    decode T p = .ok (.incomplete (encode T c).length) := by
  have h := dec_prefix c hc p q hpq hp hq
  have hl : p.length < (encode T c).length := by
    have := congrArg List.length hpq
    have : 0 < q.length := List.length_pos_iff.mpr hq
    simp at *; omega
  have h1 := (enc_len c hc).1
  unfold decode classify
  rw [h]
  simp only
  rw [if_neg (by omega), if_pos (by omega)]

/-- the encoder stores exactly the bytes it reports and never more than `size` of them -/
theorem encode_in_bounds (c : Nat) (hc : c < 65536) (size : Nat) :
    (ucToUtf8 T c size).ret = (encode T c).length ∧
    match (ucToUtf8 T c size).bytes with
    | some b => b = encode T c ∧ b.length ≤ size
    | none => size < (encode T c).length := by
  rw [ucToUtf8_size c hc size]
  split <;> simp_all

/-! ## whole strings -/

/-- decoding a well-formed BMP string (hawk_conv_bchars_to_uchars_with_cmgr, either mode) gives back its characters,
consumes every byte and reports success; so `length` of the text is its number of characters -/
theorem decodeAll_encodeAll (all : Bool) (cs : List Nat) (hb : BMP cs) (wcap : Nat) (hw : cs.length ≤ wcap) :
    convBtoU T all wcap (encodeAll T cs) = .ok (0, (encodeAll T cs).length, cs) :=
  convBtoU_wf all cs hb wcap hw

/-- characters to bytes (hawk_conv_uchars_to_bchars_with_cmgr): with enough room everything is converted, in order -/
theorem encodeAll_converts (ws : List Nat) (hb : BMP ws) (rem : Nat) (hr : (encodeAll T ws).length ≤ rem) :
    convUtoB T ws rem = (0, ws.length, encodeAll T ws) := by
  obtain ⟨x, k, bs, h, hk, hbs, hlen, hx⟩ := convUtoB_bmp ws hb rem
  rcases hx with ⟨rfl, rfl⟩ | ⟨rfl, c, rest, hd, hlt⟩
  · rw [h, hbs]; simp
  · exfalso
    have hsplit : encodeAll T ws = bs ++ encodeAll T (c :: rest) := by
      rw [hbs, ← hd, ← encodeAll_append, List.take_append_drop]
    have : (encodeAll T ws).length = bs.length + (encodeAll T (c :: rest)).length := by rw [hsplit]; simp
    have := encodeAll_length_pos c rest (hb c (List.mem_of_mem_drop (by rw [hd]; simp)))
    omega

/-- the conversion loop used by tio on arbitrary bytes, for every table: no out-of-bounds read, no more characters than
room, no more bytes consumed than given, and a verdict among ok / illegal / incomplete -/
theorem convUpto_in_bounds (tbl : List Utf8Row) (stopper wcap : Nat) (s : List UInt8) :
    ∃ x mlen out, convUpto tbl stopper wcap s = .ok (x, mlen, out) ∧ out.length ≤ wcap ∧ out.length ≤ mlen ∧
      mlen ≤ s.length ∧ (x = 0 ∨ x = -1 ∨ x = -3) := by
  obtain ⟨x, mlen, out, h, h1, h2, h3, h4, _⟩ := convUpto_total tbl stopper s.length s wcap (Nat.le_refl _)
  exact ⟨x, mlen, out, h, h1, h2, h3, h4⟩

/-! ## tio read side -/

/-- **chunk independence**: a well-formed BMP byte string, delivered by the input handler in any chunks (none empty),
through a staging buffer of any capacity ≥ 3 and read with any request size ≥ 1, with or without IGNOREECERR,
comes out as exactly its characters, and the loop ends with "end of input" -/
theorem tio_read_chunk_independent (cfg : Cfg) (hT : cfg.tbl = T) (hl : cfg.legacy = false) (hc : 3 ≤ cfg.capa)
    (size : Nat) (hs : 1 ≤ size) (cs : List Nat) (hb : BMP cs) (chunks : List (List UInt8))
    (hne : ∀ c ∈ chunks, c ≠ []) (hj : chunks.flatten = encodeAll T cs) :
    readAll cfg size (start chunks) = (cs, .eof) :=
  readAll_wf cfg ⟨hT, hl, hc⟩ size hs cs.length (start chunks) cs (Nat.le_refl _) (inv_start chunks cs hb hne hj)

/-- hence: re-encoding what was read reproduces the input bytes, and the number of characters read is the
character count of the text -/
theorem tio_read_reencodes (cfg : Cfg) (hT : cfg.tbl = T) (hl : cfg.legacy = false) (hc : 3 ≤ cfg.capa)
    (size : Nat) (hs : 1 ≤ size) (cs : List Nat) (hb : BMP cs) (chunks : List (List UInt8))
    (hne : ∀ c ∈ chunks, c ≠ []) (hj : chunks.flatten = encodeAll T cs) :
    encodeAll T (readAll cfg size (start chunks)).1 = chunks.flatten ∧
    (readAll cfg size (start chunks)).1.length = cs.length := by
  rw [tio_read_chunk_independent cfg hT hl hc size hs cs hb chunks hne hj]
  exact ⟨hj.symm, rfl⟩

/-- and: two chunkings, capacities and request sizes of the same well-formed bytes read the same -/
theorem tio_read_two_schedules (cfg₁ cfg₂ : Cfg) (h₁ : cfg₁.tbl = T ∧ cfg₁.legacy = false ∧ 3 ≤ cfg₁.capa)
    (h₂ : cfg₂.tbl = T ∧ cfg₂.legacy = false ∧ 3 ≤ cfg₂.capa) (size₁ size₂ : Nat) (hs₁ : 1 ≤ size₁) (hs₂ : 1 ≤ size₂)
    (cs : List Nat) (hb : BMP cs) (ch₁ ch₂ : List (List UInt8)) (hne₁ : ∀ c ∈ ch₁, c ≠ []) (hne₂ : ∀ c ∈ ch₂, c ≠ [])
    (hj₁ : ch₁.flatten = encodeAll T cs) (hj₂ : ch₂.flatten = ch₁.flatten) :
    readAll cfg₁ size₁ (start ch₁) = readAll cfg₂ size₂ (start ch₂) := by
  rw [tio_read_chunk_independent cfg₁ h₁.1 h₁.2.1 h₁.2.2 size₁ hs₁ cs hb ch₁ hne₁ hj₁,
    tio_read_chunk_independent cfg₂ h₂.1 h₂.2.1 h₂.2.2 size₂ hs₂ cs hb ch₂ hne₂ (hj₂.trans hj₁)]

/-- **arbitrary bytes, every table**: one `tio_read_uchars` call neither reads out of bounds (no fault) nor stores more
than `bufsize` characters, keeps cursor ≤ length ≤ capacity, and consumes at least one byte per character returned -/
theorem tio_read_in_bounds (cfg : Cfg) (hl : cfg.legacy = false) (bufsize : Nat) (hb : 1 ≤ bufsize) (st : InSt)
    (hs : st.cur ≤ st.buf.length ∧ st.buf.length ≤ cfg.capa) :
    ∃ st' r, readU cfg bufsize st = (st', r) ∧ (st'.cur ≤ st'.buf.length ∧ st'.buf.length ≤ cfg.capa) ∧
      (match r with | .n out => out.length ≤ bufsize | .err _ => True | .fault _ => False) ∧
      pending st' + r.count ≤ pending st := by
  obtain ⟨st', r, h, hs', hr, hp⟩ := readU_safe cfg hl bufsize hb st hs
  refine ⟨st', r, h, hs', ?_, hp⟩
  cases r <;> simp [RetOk] at hr <;> simp [hr]

/-- `hawk_tio_readuchars` on arbitrary bytes: at most `size` characters, staging buffer within bounds -/
theorem tio_readuchars_in_bounds (cfg : Cfg) (hl : cfg.legacy = false) (size : Nat) (st : InSt)
    (hs : st.cur ≤ st.buf.length ∧ st.buf.length ≤ cfg.capa) :
    ∃ st' r, readUchars cfg size st = (st', r) ∧ (st'.cur ≤ st'.buf.length ∧ st'.buf.length ≤ cfg.capa) ∧
      (match r with | .n out => out.length ≤ size | .err _ => True | .fault _ => False) := by
  obtain ⟨st', r, h, hs', hr, _⟩ := readLoop_safe cfg hl size size st [] (by simp) hs (by simp)
  refine ⟨st', r, h, hs', ?_⟩
  cases r <;> simp [RetOk] at hr <;> simp [hr]

/-- reading arbitrary bytes to the end is total and deterministic: the caller's loop ends with "end of input" or with the
conversion error, never with a fault and never without progress -/
theorem tio_read_total (cfg : Cfg) (hl : cfg.legacy = false) (size : Nat) (chunks : List (List UInt8)) :
    (readAll cfg size (start chunks)).2 = .eof ∨ ∃ e, (readAll cfg size (start chunks)).2 = .err e :=
  readAll_safe cfg hl size _ (start chunks) (Nat.le_refl _) ⟨by simp [start], by simp [start]⟩

/-- the unrepaired code stored a character beyond the caller's room: one character of room, "a" then an illegal byte -/
theorem legacy_stores_out_of_bounds :
    convPart { capa := 32, legacy := true } 1 { buf := [0x61, 0xFF] } =
      .done { buf := [0x61, 0xFF], cur := 2 } (.n [0x61, 0x3F]) := by
  have h2 : convUpto T 0x0A 0 [0xFF] = .ok (-1, 0, []) := by
    rw [convUpto_step T 0x0A 0 [0xFF] 0 0 (by simp) rfl]; rfl
  have h1 : convUpto T 0x0A 1 [0x61, 0xFF] = .ok (-1, 1, [0x61]) := by
    rw [convUpto_step T 0x0A 1 [0x61, 0xFF] 1 0x61 (by simp) rfl]
    simp only [show ([0x61, 0xFF] : List UInt8).drop 1 = [0xFF] by rfl, show (1 - 1) = 0 by rfl, h2]
    rfl
  exact convPart_x1_ign { capa := 32, legacy := true } 1 { buf := [0x61, 0xFF] } 1 [0x61] h1 rfl (Or.inl rfl)

/-- the repaired code leaves the illegal byte for the next call instead -/
theorem repaired_keeps_within_room :
    convPart { capa := 32 } 1 { buf := [0x61, 0xFF] } = .done { buf := [0x61, 0xFF], cur := 1 } (.n [0x61]) := by
  have h2 : convUpto T 0x0A 0 [0xFF] = .ok (-1, 0, []) := by
    rw [convUpto_step T 0x0A 0 [0xFF] 0 0 (by simp) rfl]; rfl
  have h1 : convUpto T 0x0A 1 [0x61, 0xFF] = .ok (-1, 1, [0x61]) := by
    rw [convUpto_step T 0x0A 1 [0x61, 0xFF] 1 0x61 (by simp) rfl]
    simp only [show ([0x61, 0xFF] : List UInt8).drop 1 = [0xFF] by rfl, show (1 - 1) = 0 by rfl, h2]
    rfl
  exact convPart_x1_full { capa := 32 } 1 { buf := [0x61, 0xFF] } 1 [0x61] h1 rfl rfl (by simp)

/-- the unrepaired code moved an incomplete tail with memcpy over overlapping ranges: "\n" consumed, E2 82 waiting -/
theorem legacy_overlapping_copy :
    convPart { capa := 32, legacy := true } 8 { buf := [0x0A, 0xE2, 0x82], cur := 1 } =
      .done { buf := [0x0A, 0xE2, 0x82], cur := 1 } (.fault .overlap) := by
  have h1 : convUpto T 0x0A 8 [0xE2, 0x82] = .ok (-3, 0, []) := by
    rw [convUpto_step T 0x0A 8 [0xE2, 0x82] 3 0 (by simp) rfl]; rfl
  unfold convPart
  simp only [show ([0x0A, 0xE2, 0x82] : List UInt8).drop 1 = [0xE2, 0x82] by rfl]
  rw [h1]
  rfl

/-! ## tio write side -/

/-- **write-side round trip**: any sequence of `hawk_tio_writeuchars` calls with BMP characters succeeds; the bytes handed
to the output handler followed by the bytes still staged are the encoding of all characters in order, whatever the
segmentation, the capacity (≥ 3) and the flush policy; every handler call is within the capacity -/
theorem tio_write_roundtrip (cfg : Cfg) (hT : cfg.tbl = T) (hc : 3 ≤ cfg.capa) (segs : List (List Nat)) (hb : BMP segs.flatten) :
    (writeMany cfg segs {}).2 = true ∧ (writeMany cfg segs {}).1.all = encodeAll T segs.flatten ∧
    ∀ ch ∈ (writeMany cfg segs {}).1.sink, ch.length ≤ cfg.capa := by
  obtain ⟨h1, h2, h3⟩ := writeMany_bmp cfg hT hc segs {} hb (by simp; omega) (by intro ch h; simp at h)
  exact ⟨h1, by simpa [OutSt.all] using h2, h3⟩

/-- written text read back, through any chunking of the written bytes, is the text -/
theorem tio_write_then_read (wcfg rcfg : Cfg) (hwT : wcfg.tbl = T) (hwc : 3 ≤ wcfg.capa) (hrT : rcfg.tbl = T)
    (hrl : rcfg.legacy = false) (hrc : 3 ≤ rcfg.capa) (size : Nat) (hs : 1 ≤ size) (segs : List (List Nat))
    (hb : BMP segs.flatten) (chunks : List (List UInt8)) (hne : ∀ c ∈ chunks, c ≠ [])
    (hj : chunks.flatten = (writeMany wcfg segs {}).1.all) :
    readAll rcfg size (start chunks) = (segs.flatten, .eof) :=
  tio_read_chunk_independent rcfg hrT hrl hrc size hs segs.flatten hb chunks hne
    (hj.trans (tio_write_roundtrip wcfg hwT hwc segs hb).2.1)

/-! ## bytes -/

/-- byte-mode reads (`hawk_tio_readbchars`, behind byte-mode getline) return exactly the bytes supplied, for every
chunking, capacity ≥ 1 and request size ≥ 1 -/
theorem tio_read_bytes_identity (cfg : Cfg) (hc : 1 ≤ cfg.capa) (size : Nat) (hs : 1 ≤ size) (chunks : List (List UInt8))
    (hne : ∀ c ∈ chunks, c ≠ []) : readAllBytes cfg size (start chunks) = (chunks.flatten, true) := by
  have := readAllBytes_spec cfg hc size hs _ (start chunks) (Nat.le_refl _) hne
  simpa [remaining, start] using this

/-- byte output (`hawk_tio_writebchars`): any sequence of byte writes hands out / stages exactly the bytes written, in order,
every handler call within the capacity, whatever the capacity (≥ 1), the segmentation and the flush policy -/
theorem tio_write_bytes_identity (cfg : Cfg) (hc : 1 ≤ cfg.capa) (segs : List (List UInt8)) :
    (segs.foldl (fun o bs => (writeBchars cfg bs o).1) ({} : OutSt)).all = segs.flatten ∧
    ∀ ch ∈ (segs.foldl (fun o bs => (writeBchars cfg bs o).1) ({} : OutSt)).sink, ch.length ≤ cfg.capa := by
  have key : ∀ (segs : List (List UInt8)) (o : OutSt), SinkOk cfg o → o.buf.length < cfg.capa →
      (segs.foldl (fun o bs => (writeBchars cfg bs o).1) o).all = o.all ++ segs.flatten ∧
      SinkOk cfg (segs.foldl (fun o bs => (writeBchars cfg bs o).1) o) := by
    intro segs
    induction segs with
    | nil => intro o hs _; simp [hs]
    | cons bs rest ih =>
      intro o hs hl
      obtain ⟨_, h2, h3, h4⟩ := writeBchars_spec cfg bs o hs hl
      obtain ⟨h5, h6⟩ := ih _ h3 h4
      simp only [List.foldl_cons]
      exact ⟨by rw [h5, h2]; simp, h6⟩
  obtain ⟨h1, h2⟩ := key segs {} (by intro ch h; simp at h) (by simp; omega)
  exact ⟨by simpa [OutSt.all] using h1, h2⟩

/-- the byte-string value operations are list operations in the model (tied to val.c/run.c/fnc.c only by the language-level
runs): the concatenation / substr program of the check returns its operands -/
theorem bytes_concat_substr_identity (x sep : List UInt8) :
    ((x ++ sep ++ x).take x.length = x) ∧ ((x ++ sep ++ x).drop (x.length + sep.length) = x) := by
  constructor
  · simp
  · rw [← List.length_append, List.drop_left]

/-! ## the hypotheses are satisfiable (non-vacuity) -/

/-- "\n€\n" delivered as "\n E2 82" + "AC \n": the situation in which the unrepaired code made the overlapping copy -/
example : readAll { capa := 32 } 8 (start [[0x0A, 0xE2, 0x82], [0xAC, 0x0A]]) = ([0x0A, 0x20AC, 0x0A], .eof) :=
  tio_read_chunk_independent { capa := 32 } rfl rfl (by decide) 8 (by decide) [0x0A, 0x20AC, 0x0A]
    (by intro c hc; simp at hc; rcases hc with rfl | rfl | rfl <;> decide)
    [[0x0A, 0xE2, 0x82], [0xAC, 0x0A]] (by intro c hc; simp at hc; rcases hc with rfl | rfl <;> simp) rfl

/-- a surrogate is an ordinary character for this codec -/
example : encode T 0xD800 = [0xED, 0xA0, 0x80] ∧ utf8ToUc T [0xED, 0xA0, 0x80] = .ok (3, 0xD800) := ⟨rfl, rfl⟩

example : (writeMany { capa := 32 } [[0x41, 0x20AC], [0x0A]] {}).1.all = [0x41, 0xE2, 0x82, 0xAC, 0x0A] :=
  (tio_write_roundtrip { capa := 32 } rfl (by decide) [[0x41, 0x20AC], [0x0A]]
    (by intro c hc; simp at hc; rcases hc with rfl | rfl | rfl <;> decide)).2.1

end Hawk.C15
