import HawkModel.OomLemmas
import HawkModel.Gen.Unwind
import HawkModel.Gen.UnwindWide
import HawkModel.OomRelLemmas
import HawkModel.Props.C19
/-!
# C10 — Running out of memory is an error, never a crash or a leak

Property theorems only (helpers: OomLemmas).  Models: `HawkModel/Oom.lean`; the constructor tables in
`HawkModel/Gen/Unwind.lean` are regenerated from the C sources by extract/unwind.py on every check.

* generic, proved once for every table: a table that passes the decidable check `Table.wf`
  (each failure target releases exactly what is held at that point) is balanced under EVERY pattern
  of failing steps — in particular "the k-th fails" and "everything from the k-th on fails";
  no failure of an acquisition or fallible step is swallowed; on success everything is owned.
* instance: the tables generated from hawk_init, init_rtx, hawk_open, hawk_rtx_open,
  hawk_openstdwithmmgr and the container/string constructors pass the check (`decide`).
* gc_calloc_val / makemapval: collect-then-retry is bounded, ends in a block or ENOMEM, and a failed
  container construction gives its value block back.
* ecs: an operation that reports failure left the string untouched (`ecs_oom_atomic`), the
  representation invariant survives every operation, a refused growth is reported.
* arr: corollary of C19's `insert_spec`.

* every other function of lib/*.c with two or more acquisition sites that extract/unwind_wide.py can express
  (`Gen.Wide.all`, `Gen.Wide.allFt`: one table per acyclic path; the second table language `Ft` has releases
  of temporaries on the main path): same law, `wide_balanced`, `wide_ft_balanced`, `ft_unwind_balanced`.
  The functions it cannot express are listed by name in `Gen.Wide.unhandled` and in the evidence.
* retry and error-number plumbing over whole call trees: `Props/C10b.lean`.

What is NOT carried here: the `if (!p)` branches of the functions listed in `Gen.Wide.unhandled` and of the
functions with a single acquisition site; they are enumerated by the fault-injection harness
(harness/oom_h.c), which supports but does not replace these theorems.
-/
namespace Hawk.Oom

/-- nothing leaks, nothing is released twice, nothing never-acquired is released -/
def Balanced (o : Outcome) : Prop :=
  o.acquired.Nodup ∧ o.released.Perm o.acquired

/-- **unwind_balanced** — for a table that passes the check, for every pattern of failing steps:
    if the constructor fails, what it released is exactly (a permutation without repetition of)
    what it had acquired. -/
theorem unwind_balanced (t : Table) (hwf : t.wf = true) (fail : Nat → Bool) :
    (run t fail).ok = false → Balanced (run t fail) := by
  intro hk
  obtain ⟨h1, h2, _⟩ := runFrom_spec t fail t.ops 0 [] _ hwf Inv.empty
  obtain ⟨hn, hm⟩ := h2 hk
  exact ⟨h1, (List.perm_ext_iff_of_nodup hn h1).mpr hm⟩

/-- the two fault patterns of the property: exactly the k-th step fails -/
theorem unwind_balanced_failAt (t : Table) (hwf : t.wf = true) (k : Nat) :
    (run t (failAt k)).ok = false → Balanced (run t (failAt k)) :=
  unwind_balanced t hwf (failAt k)

/-- … and every step from the k-th on fails -/
theorem unwind_balanced_failFrom (t : Table) (hwf : t.wf = true) (k : Nat) :
    (run t (failFrom k)).ok = false → Balanced (run t (failFrom k)) :=
  unwind_balanced t hwf (failFrom k)

/-- **success_all_owned** — a successful run released nothing and holds exactly the resources the
    table can acquire, each once. -/
theorem success_all_owned (t : Table) (hwf : t.wf = true) (fail : Nat → Bool) :
    (run t fail).ok = true →
      (run t fail).released = [] ∧ (run t fail).acquired.Nodup ∧
      ∀ r, r ∈ (run t fail).acquired ↔ r ∈ t.resources := by
  intro hk
  obtain ⟨h1, _, h3⟩ := runFrom_spec t fail t.ops 0 [] _ hwf Inv.empty
  obtain ⟨hr, hm⟩ := h3 hk
  refine ⟨hr, h1, ?_⟩
  intro r
  show r ∈ (runFrom t fail t.ops 0 []).acquired ↔ r ∈ t.resources
  rw [hm r]
  simp [Table.resources]

/-- **failure_reported** — no refusal is swallowed: if the constructor reports success then no
    acquisition and no fallible step failed (also for results that are stored first and tested later). -/
theorem failure_reported (t : Table) (hwf : t.wf = true) (fail : Nat → Bool)
    (hk : (run t fail).ok = true) (j : Nat) (op : Op) (hj : t.ops[j]? = some op) (hh : op.hard = true) :
    fail j = false := by
  have := ok_no_hard_failure t fail t.ops 0 [] _ hwf Inv.empty hk j op hj hh
  simpa using this

/-- the k-th step failing makes the constructor fail when that step is an acquisition or a fallible step -/
theorem failAt_fails (t : Table) (hwf : t.wf = true) (k : Nat) (op : Op)
    (hj : t.ops[k]? = some op) (hh : op.hard = true) : (run t (failAt k)).ok = false := by
  cases hk : (run t (failAt k)).ok with
  | false => rfl
  | true =>
    have := failure_reported t hwf (failAt k) hk k op hj hh
    simp [failAt] at this

/-- … and so does "everything from the k-th on fails" -/
theorem failFrom_fails (t : Table) (hwf : t.wf = true) (k : Nat) (op : Op)
    (hj : t.ops[k]? = some op) (hh : op.hard = true) : (run t (failFrom k)).ok = false := by
  cases hk : (run t (failFrom k)).ok with
  | false => rfl
  | true =>
    have := failure_reported t hwf (failFrom k) hk k op hj hh
    simp [failFrom] at this

/-! ### the generated tables -/

/-- **generated_tables_wf** — every table extracted from the working tree passes the check
    (finite computation: this is the whole quantifier). -/
theorem generated_tables_wf : Gen.all.all (fun c => c.table.wf) = true := by decide

/-- hence every extracted constructor is balanced under every failure pattern -/
theorem generated_balanced (c : Ctor) (hc : c ∈ Gen.all) (fail : Nat → Bool) :
    (run c.table fail).ok = false → Balanced (run c.table fail) := by
  have := List.all_eq_true.mp generated_tables_wf c hc
  exact unwind_balanced c.table this fail

theorem generated_success_all_owned (c : Ctor) (hc : c ∈ Gen.all) (fail : Nat → Bool) :
    (run c.table fail).ok = true →
      (run c.table fail).released = [] ∧ ∀ r, r ∈ (run c.table fail).acquired ↔ r ∈ c.table.resources := by
  intro hk
  have hw := List.all_eq_true.mp generated_tables_wf c hc
  have := success_all_owned c.table hw fail hk
  exact ⟨this.1, this.2.2⟩

/-- the step ↔ callee bookkeeping the driver relies on is well-formed -/
theorem generated_callees_aligned : Gen.all.all (fun c => c.callees.length == c.table.ops.length) = true := by decide

/-- non-vacuity: init_rtx really has fifteen acquisitions, and failing the eighth releases the seven
    held ones in reverse order -/
example : (run Gen.init_rtx.table (failAt 7)).released = [6, 5, 4, 3, 2, 1, 0] ∧
          (run Gen.init_rtx.table (failAt 7)).acquired = [0, 1, 2, 3, 4, 5, 6] := by decide

/-- non-vacuity: the check rejects a table that leaks (label of step 1 forgets resource 0) … -/
example : Table.wf { ops := [.acq 0 (some 0), .acq 1 (some 1)], labels := [[], []] } = false := by decide
/-- … one that frees twice … -/
example : Table.wf { ops := [.acq 0 (some 0), .acq 1 (some 1)], labels := [[], [.always 0, .always 0]] } = false := by decide
/-- … and one that frees what is not held yet -/
example : Table.wf { ops := [.acq 0 (some 0), .acq 1 (some 1)], labels := [[.always 0], [.always 0]] } = false := by decide

/-- non-vacuity of the deferred form (hawk_init): the third `*_open` failing alone is noticed by the
    later test, and the seven other containers plus tokens and log buffer are released -/
example : (run Gen.hawk_init.table (failAt 7)).ok = false ∧
          (run Gen.hawk_init.table (failAt 7)).acquired = [0, 1, 2, 3, 4, 5, 7, 8, 9, 10, 11] := by decide

/-! ### gc_calloc_val -/

/-- **gc_calloc_retry** — gc_calloc_val makes at most two requests and at most two collections,
    never loops (it is a total, non-recursive function), returns a block exactly when one of the
    (at most two) requests was granted, counts the allocation only then, and before giving up it has
    run a full collection. -/
theorem gc_calloc_retry (g : Gc) (o : Oracle) :
    let r := gcCallocVal g o
    requests r.evs ≤ 2 ∧ collects r.evs ≤ 2 ∧
    (r.granted = true ↔ grants r.evs = 1) ∧ (r.granted = false ↔ grants r.evs = 0) ∧
    (r.granted = false → requests r.evs = 2 ∧ GcEv.collect 2 ∈ r.evs ∧ r.gc.p0 = 0) ∧
    (r.granted = true → r.gc.p0 ≥ 1) := by
  intro r
  simp only [r, gcCallocVal]
  rcases o with _ | ⟨b1, o1⟩
  · by_cases h0 : g.p0 ≥ g.t0 <;> simp [Oracle.next, h0, requests, grants, collects]
  · cases b1 with
    | true => by_cases h0 : g.p0 ≥ g.t0 <;> simp [Oracle.next, h0, requests, grants, collects]
    | false =>
      rcases o1 with _ | ⟨b2, o2⟩
      · by_cases h0 : g.p0 ≥ g.t0 <;> by_cases h2 : g.p2 ≥ g.t2 <;> by_cases h1 : g.p1 ≥ g.t1 <;>
          simp [Oracle.next, h0, h1, h2, Gc.autoGen, requests, grants, collects]
      · cases b2 <;> by_cases h0 : g.p0 ≥ g.t0 <;> by_cases h2 : g.p2 ≥ g.t2 <;> by_cases h1 : g.p1 ≥ g.t1 <;>
          simp [Oracle.next, h0, h1, h2, Gc.autoGen, Gc.collected, requests, grants, collects]

/-- a single refusal never makes gc_calloc_val fail: the retry after the collection is served -/
theorem gc_calloc_single_refusal (g : Gc) (o : Oracle) (b : Bool) (h : o = [b]) :
    (gcCallocVal g o).granted = true := by
  subst h
  cases b <;> by_cases h0 : g.p0 ≥ g.t0 <;> simp [gcCallocVal, Oracle.next, h0]

/-- **makeval_retry_bounded** — hawk_rtx_makemapval/makearrval: the `goto retry` is taken at most
    once, so at most six requests are made; on failure every granted value block was given back
    (`gc_free_val`), on success exactly the value block and the container's table are kept. -/
theorem makeval_retry_bounded (g : Gc) (o : Oracle) :
    let r := makeContainerVal g false o
    requests r.evs ≤ 6 ∧
    (r.granted = false → grants r.evs = frees r.evs) ∧
    (r.granted = true → grants r.evs = frees r.evs + 2) := by
  -- one attempt: gc_calloc_val (≤ 2 requests) + the container's own table (1 request)
  have second : ∀ (g : Gc) (o : Oracle),
      requests (makeContainerVal g true o).evs ≤ 3 ∧
      ((makeContainerVal g true o).granted = false →
        grants (makeContainerVal g true o).evs = frees (makeContainerVal g true o).evs) ∧
      ((makeContainerVal g true o).granted = true →
        grants (makeContainerVal g true o).evs = frees (makeContainerVal g true o).evs + 2) := by
    intro g o
    have hc := gc_calloc_retry g o
    simp only at hc
    have hf := gcCallocVal_no_frees g o
    unfold makeContainerVal
    simp only
    cases hg : (gcCallocVal g o).granted with
    | false =>
      simp only [Bool.not_false, ↓reduceIte, hg]
      have h0 := (hc.2.2.2.1).mp hg
      exact ⟨by omega, fun _ => by omega, fun h => absurd h (by simp)⟩
    | true =>
      simp only [Bool.not_true, Bool.false_eq_true, ↓reduceIte]
      have h1 := (hc.2.2.1).mp hg
      cases hn : (gcCallocVal g o).rest.next with
      | mk b o2 =>
        cases b with
        | true =>
          simp only [hg, requests_append, grants_append, frees_append, requests_cons, grants_cons, frees_cons,
            requests_nil, grants_nil, frees_nil]
          exact ⟨by omega, fun h => absurd h (by simp), fun _ => by omega⟩
        | false =>
          simp only [↓reduceIte, requests_append, grants_append, frees_append, requests_cons, grants_cons,
            frees_cons, requests_nil, grants_nil, frees_nil]
          exact ⟨by omega, fun _ => by omega, fun h => absurd h (by simp)⟩
  intro r
  have hc := gc_calloc_retry g o
  simp only at hc
  have hf := gcCallocVal_no_frees g o
  simp only [r]
  unfold makeContainerVal
  simp only
  cases hg : (gcCallocVal g o).granted with
  | false =>
    simp only [Bool.not_false, ↓reduceIte, hg]
    have h0 := (hc.2.2.2.1).mp hg
    exact ⟨by omega, fun _ => by omega, fun h => absurd h (by simp)⟩
  | true =>
    simp only [Bool.not_true, Bool.false_eq_true, ↓reduceIte]
    have h1 := (hc.2.2.1).mp hg
    cases hn : (gcCallocVal g o).rest.next with
    | mk b o2 =>
      cases b with
      | true =>
        simp only [hg, requests_append, grants_append, frees_append, requests_cons, grants_cons, frees_cons,
          requests_nil, grants_nil, frees_nil]
        exact ⟨by omega, fun h => absurd h (by simp), fun _ => by omega⟩
      | false =>
        have s := second ((gcCallocVal g o).gc.collected 2) o2
        simp only [Bool.false_eq_true, ↓reduceIte, requests_append, grants_append, frees_append, requests_cons,
          grants_cons, frees_cons, requests_nil, grants_nil, frees_nil]
        refine ⟨by omega, ?_, ?_⟩
        · intro h; have := s.2.1 h; omega
        · intro h; have := s.2.2 h; omega

/-! ### ecs -/

/-- FN(setcapa): either the capacity is what was asked for, or ENOMEM and nothing changed -/
theorem ecs_setcapa_cases (e : Ecs) (c : Nat) (o : Oracle) :
    ((e.setcapa c o).ret = .ok c ∧
      (((e.setcapa c o).ecs = e ∧ c = e.capa) ∨
       (e.setcapa c o).ecs = { chars := if c < e.len then e.chars.take c else e.chars, capa := c, hasPtr := true }))
    ∨ ((e.setcapa c o).ret = .error .enomem ∧ (e.setcapa c o).ecs = e) := by
  unfold Ecs.setcapa
  by_cases h : c = e.capa
  · simp [h]
  · simp only [h, ↓reduceIte]
    cases hn : o.next with
    | mk b o1 => cases b <;> simp

/-- **ecs_oom_atomic** — whichever requests are refused, an ecs operation that reports failure has
    left the string exactly as it was (contents, capacity, buffer). -/
theorem ecs_oom_atomic (e : Ecs) (o : Oracle) :
    (∀ c x, (e.setcapa c o).ret = .error x → (e.setcapa c o).ecs = e) ∧
    (∀ n x, (e.setlen n o).ret = .error x → (e.setlen n o).ecs = e) ∧
    (∀ s x, (e.ncpy s o).ret = .error x → (e.ncpy s o).ecs = e) ∧
    (∀ s x, (e.ncat s o).ret = .error x → (e.ncat s o).ecs = e) := by
  refine ⟨?_, ?_, ?_, ?_⟩
  · intro c x h
    rcases ecs_setcapa_cases e c o with ⟨hr, _⟩ | ⟨_, he⟩
    · rw [hr] at h; cases h
    · exact he
  · intro n x
    unfold Ecs.setlen
    by_cases h1 : n = e.len
    · simp [h1]
    · by_cases h2 : n < e.len
      · simp [h1, h2]
      · simp only [h1, h2, ↓reduceIte]
        generalize (if n > e.capa then e.setcapa n o else { ecs := e, ret := .ok e.capa, rest := o }) = r
        cases hr : r.ret <;> simp
  · intro s x h
    unfold Ecs.ncpy at h ⊢
    simp only at h ⊢
    split <;> simp_all
  · intro s x h
    unfold Ecs.ncat at h ⊢
    simp only at h ⊢
    split <;> simp_all

/-- the back-off loop of resize_for_ncat ends (accepted by the termination checker with measure
    `ncapa - mincapa`) and either obtains a capacity between mincapa and the first wish, keeping the
    contents, or fails with ENOMEM leaving the string untouched -/
theorem ecs_growLoop_spec (e : Ecs) (mincapa : Nat) (hlen : e.len ≤ mincapa) :
    ∀ (n ncapa : Nat) (o : Oracle), ncapa - mincapa = n → mincapa ≤ ncapa →
      (∃ c, (e.growLoop ncapa mincapa o).ret = .ok c ∧ mincapa ≤ c ∧ c ≤ ncapa ∧
            (((e.growLoop ncapa mincapa o).ecs = e ∧ c = e.capa) ∨
             (e.growLoop ncapa mincapa o).ecs = { chars := e.chars, capa := c, hasPtr := true }))
      ∨ ((e.growLoop ncapa mincapa o).ret = .error .enomem ∧ (e.growLoop ncapa mincapa o).ecs = e) := by
  intro n
  induction n with
  | zero =>
    intro ncapa o h hle
    rw [Ecs.growLoop]
    rcases ecs_setcapa_cases e ncapa o with ⟨hr, he⟩ | ⟨hr, he⟩
    · left
      simp only [hr]
      refine ⟨ncapa, rfl, hle, Nat.le_refl _, ?_⟩
      rcases he with he | he
      · exact Or.inl he
      · right; rw [he]; have : ¬ ncapa < e.len := by omega
        simp [this]
    · right
      have : ncapa ≤ mincapa := by omega
      simp [hr, this]
  | succ n ih =>
    intro ncapa o h hle
    rw [Ecs.growLoop]
    rcases ecs_setcapa_cases e ncapa o with ⟨hr, he⟩ | ⟨hr, he⟩
    · left
      simp only [hr]
      refine ⟨ncapa, rfl, hle, Nat.le_refl _, ?_⟩
      rcases he with he | he
      · exact Or.inl he
      · right; rw [he]; have : ¬ ncapa < e.len := by omega
        simp [this]
    · have hgt : ¬ ncapa ≤ mincapa := by omega
      simp only [hr, hgt, ↓reduceDIte]
      rcases ih (ncapa - 1) (e.setcapa ncapa o).rest (by omega) (by omega) with ⟨c, h1, h2, h3, h4⟩ | h1
      · left; exact ⟨c, h1, h2, by omega, h4⟩
      · right; exact h1

/-- **ecs_refused_grow_fails** — appending needs room and every request is refused: ncat reports
    ENOMEM and the string is unchanged.  (`List.replicate k false` refuses the next k requests;
    the loop makes at most `ncapa - mincapa + 1 ≤ e.capa + 1` of them.) -/
theorem ecs_refused_grow_fails (e : Ecs) (s : List Nat) (hneed : s.length > e.capa - e.len) (hwf : e.len ≤ e.capa) :
    (e.ncat s (List.replicate (e.capa + 1) false)).ret = .error .enomem ∧
    (e.ncat s (List.replicate (e.capa + 1) false)).ecs = e := by
  -- the loop with k+1 refusals in stock and at most k steps to go fails
  have loop : ∀ (k ncapa : Nat) (extra : Nat), ncapa - (e.len + s.length) = k → e.len + s.length ≤ ncapa →
      ncapa ≠ e.capa → (∀ c, e.len + s.length ≤ c → c ≠ e.capa) →
      (e.growLoop ncapa (e.len + s.length) (List.replicate (k + 1 + extra) false)).ret = .error .enomem := by
    intro k
    induction k with
    | zero =>
      intro ncapa extra h hle hne _
      rw [Ecs.growLoop]
      have hle' : ncapa ≤ e.len + s.length := by omega
      have hrep : List.replicate (0 + 1 + extra) false = false :: List.replicate extra false := by
        rw [show 0 + 1 + extra = extra + 1 by omega, List.replicate_succ]
      simp [Ecs.setcapa, hne, Oracle.next, hrep, hle']
    | succ k ih =>
      intro ncapa extra h hle hne hall
      rw [Ecs.growLoop]
      have hgt : ¬ ncapa ≤ e.len + s.length := by omega
      have hrep : List.replicate (k + 1 + 1 + extra) false = false :: List.replicate (k + 1 + extra) false := by
        rw [show k + 1 + 1 + extra = (k + 1 + extra) + 1 by omega, List.replicate_succ]
      simp only [Ecs.setcapa, hne, ↓reduceIte, hrep, Oracle.next, hgt, ↓reduceDIte]
      exact ih (ncapa - 1) extra (by omega) (by omega) (hall _ (by omega)) hall
  have hall : ∀ c, e.len + s.length ≤ c → c ≠ e.capa := by intro c hc; omega
  have hr : (e.resizeForNcat s.length (List.replicate (e.capa + 1) false)).ret = .error .enomem := by
    unfold Ecs.resizeForNcat
    simp only [hneed, ↓reduceIte]
    by_cases hd : e.len + s.length < e.capa * 2
    · simp only [hd, ↓reduceIte]
      have hk : e.capa * 2 - (e.len + s.length) + 1 ≤ e.capa + 1 := by omega
      obtain ⟨extra, hx⟩ : ∃ extra, e.capa + 1 = (e.capa * 2 - (e.len + s.length)) + 1 + extra := ⟨e.capa + 1 - ((e.capa * 2 - (e.len + s.length)) + 1), by omega⟩
      rw [hx]
      exact loop _ (e.capa * 2) extra rfl (by omega) (hall _ (by omega)) hall
    · simp only [hd, ↓reduceIte]
      obtain ⟨extra, hx⟩ : ∃ extra, e.capa + 1 = 0 + 1 + extra := ⟨e.capa, by omega⟩
      rw [hx]
      exact loop 0 (e.len + s.length) extra (by omega) (Nat.le_refl _) (hall _ (Nat.le_refl _)) hall
  unfold Ecs.ncat
  simp only [hr]
  exact ⟨trivial, trivial⟩

/-- successful append: the contents are the old contents followed by the new characters (no sizer,
    so nothing is truncated), the length is reported, and the representation invariant holds -/
theorem ecs_ncat_ok (e : Ecs) (s : List Nat) (o : Oracle) (hwf : e.WF) (n : Nat)
    (hok : (e.ncat s o).ret = .ok n) :
    (e.ncat s o).ecs.chars = e.chars ++ s ∧ n = e.len + s.length ∧ (e.ncat s o).ecs.WF := by
  have hl := hwf.1
  -- what resize_for_ncat leaves behind when it succeeds
  have key : ∀ v, (e.resizeForNcat s.length o).ret = .ok v →
      (e.resizeForNcat s.length o).ecs.chars = e.chars ∧
      e.len + s.length ≤ (e.resizeForNcat s.length o).ecs.capa ∧
      ((e.resizeForNcat s.length o).ecs.capa > 0 → (e.resizeForNcat s.length o).ecs.hasPtr = true) := by
    intro v hv
    unfold Ecs.resizeForNcat at hv ⊢
    by_cases hneed : s.length > e.capa - e.len
    · simp only [hneed, ↓reduceIte] at hv ⊢
      have hmin : e.len + s.length ≤ (if e.len + s.length < e.capa * 2 then e.capa * 2 else e.len + s.length) := by
        split <;> omega
      rcases ecs_growLoop_spec e (e.len + s.length) (by omega) _ _ o rfl hmin with ⟨c, h1, h2, _, h4⟩ | ⟨h1, _⟩
      · rcases h4 with ⟨h4, hc⟩ | h4
        · rw [h4]; exact ⟨rfl, by omega, hwf.2⟩
        · rw [h4]; exact ⟨rfl, h2, fun _ => rfl⟩
      · rw [h1] at hv; cases hv
    · simp only [hneed, ↓reduceIte] at hv ⊢
      by_cases hz : e.capa = 0 ∧ s.length = 0
      · simp only [hz, and_self, ↓reduceIte] at hv ⊢
        have hlen0 : e.len = 0 := by omega
        rcases ecs_setcapa_cases e 1 o with ⟨_, he⟩ | ⟨hr, _⟩
        · rcases he with ⟨_, hc⟩ | he
          · omega
          · rw [he]; simp [hlen0]
        · rw [hr] at hv; cases hv
      · simp only [hz, ↓reduceIte]
        exact ⟨trivial, by omega, hwf.2⟩
  unfold Ecs.ncat at hok ⊢
  simp only at hok ⊢
  cases hr : (e.resizeForNcat s.length o).ret with
  | error x => rw [hr] at hok; simp at hok
  | ok v =>
    obtain ⟨k1, k2, k3⟩ := key v hr
    rw [hr] at hok
    simp only [hr]
    have hlen : (e.resizeForNcat s.length o).ecs.len = e.len := by simp [Ecs.len, k1]
    have hroom : ¬ s.length > (e.resizeForNcat s.length o).ecs.capa - e.len := by omega
    simp only [hlen, hroom, ↓reduceIte] at hok ⊢
    refine ⟨by rw [k1], ?_, ?_, ?_⟩
    · simp at hok; omega
    · simp only [Ecs.len, List.length_append, k1]
      simp only [Ecs.len] at k2; omega
    · exact k3

/-- **ecs_oom_atomic_more** — the remaining growing operations: a failed nrcat or amend leaves the string
    exactly as it was (amend shrinks in place and grows through setlen before it moves anything). -/
theorem ecs_oom_atomic_more (e : Ecs) (o : Oracle) :
    (∀ s x, (e.nrcat s o).ret = .error x → (e.nrcat s o).ecs = e) ∧
    (∀ pos len repl x, (e.amend pos len repl o).ret = .error x → (e.amend pos len repl o).ecs = e) := by
  refine ⟨?_, ?_⟩
  · intro s x h
    unfold Ecs.nrcat at h ⊢
    simp only at h ⊢
    split <;> simp_all
  · intro pos len repl x
    unfold Ecs.amend
    simp only
    generalize (if pos ≥ e.len then e.len else pos) = p
    generalize (if len > e.len - p then e.len - p else len) = l
    by_cases h1 : l > repl.length
    · simp [h1]
    · by_cases h2 : l < repl.length
      · simp only [h1, h2, ↓reduceIte]
        generalize e.setlen (e.len + repl.length - l) o = r
        cases hr : r.ret <;> simp
      · simp [h1, h2]

/-- non-vacuity: a refused growth inside amend is reported and changes nothing -/
example : (Ecs.amend { chars := [1, 2, 3], capa := 3, hasPtr := true } 1 1 [7, 8, 9] [false]).ret = .error .enomem ∧
          (Ecs.amend { chars := [1, 2, 3], capa := 3, hasPtr := true } 1 1 [7, 8, 9] [false]).ecs
            = { chars := [1, 2, 3], capa := 3, hasPtr := true } := by constructor <;> rfl

/-- what amend computes when it succeeds, on concrete instances of its three branches
    (shrinking, growing, same length): old[0,pos) ++ repl ++ old[pos+len, ..) -/
example : (Ecs.amend { chars := [1, 2, 3, 4, 5], capa := 8, hasPtr := true } 1 3 [9] []).ecs.chars = [1, 9, 5] ∧
          (Ecs.amend { chars := [1, 2, 3, 4, 5], capa := 8, hasPtr := true } 1 1 [7, 8, 9] []).ecs.chars = [1, 7, 8, 9, 3, 4, 5] ∧
          (Ecs.amend { chars := [1, 2, 3, 4, 5], capa := 8, hasPtr := true } 3 2 [7, 8] []).ecs.chars = [1, 2, 3, 7, 8] := by decide

/-- **ecs_nccat_prefix** — nccat appends character by character: when it succeeds the string is the old one
    followed by `n` copies; when a growth is refused on the way the string is the old one followed by
    fewer than `n` copies (it is never damaged, but the operation is NOT all-or-nothing), and the
    representation invariant holds either way. -/
theorem ecs_nccat_prefix (c : Nat) : ∀ (n : Nat) (e : Ecs) (o : Oracle), e.WF →
    (∃ j, j ≤ n ∧ (e.nccat c n o).ecs.chars = e.chars ++ List.replicate j c ∧
          ((e.nccat c n o).ret = .ok (e.len + n) ∧ j = n ∨ (e.nccat c n o).ret = .error .enomem ∧ j < n)) ∧
    (e.nccat c n o).ecs.WF := by
  intro n
  induction n with
  | zero => intro e o hwf; exact ⟨⟨0, Nat.le_refl _, by simp [Ecs.nccat], Or.inl ⟨by simp [Ecs.nccat], rfl⟩⟩, by simpa [Ecs.nccat] using hwf⟩
  | succ n ih =>
    intro e o hwf
    unfold Ecs.nccat
    simp only
    cases hr : (e.ncat [c] o).ret with
    | error x =>
      have hat := (ecs_oom_atomic e o).2.2.2 [c] x hr
      cases x
      simp only [hat]
      exact ⟨⟨0, Nat.zero_le _, by simp, Or.inr ⟨by simp, Nat.succ_pos _⟩⟩, hwf⟩
    | ok v =>
      obtain ⟨h1, h2, h3⟩ := ecs_ncat_ok e [c] o hwf v hr
      simp only
      obtain ⟨⟨j, hj, hc, hcase⟩, hw⟩ := ih (e.ncat [c] o).ecs (e.ncat [c] o).rest h3
      refine ⟨⟨j + 1, by omega, ?_, ?_⟩, hw⟩
      · rw [hc, h1, List.replicate_succ]; simp
      · have hlen : (e.ncat [c] o).ecs.len = e.len + 1 := by simp [Ecs.len, h1]
        rcases hcase with ⟨hk, hjn⟩ | ⟨hk, hjn⟩
        · left; refine ⟨?_, by omega⟩; rw [hk, hlen]; congr 1; omega
        · right; exact ⟨hk, by omega⟩

/-- non-vacuity: an empty string without a buffer, the only growth request refused -/
example : (Ecs.nccat { chars := [], capa := 0, hasPtr := false } 9 3 [false]).ret = .error .enomem := by
  simp [Ecs.nccat, Ecs.ncat, Ecs.resizeForNcat, Ecs.growLoop, Ecs.setcapa, Oracle.next, Ecs.len]

/-! ### every multi-acquisition function of lib/*.c that extract/unwind_wide.py can express

  `Gen.Wide.all` (first table language) and `Gen.Wide.allFt` (second language, with releases of temporaries on
  the main path; one table per acyclic path through the function) are regenerated on every check.  The functions
  the translator cannot express and the ones whose table does not pass the law are listed by name in
  `Gen.Wide.unhandled` / `Gen.Wide.notEstablished` and in the evidence (measured coverage). -/

/-- every wide table of the first language passes the check, hence is balanced under every failure pattern -/
theorem wide_balanced (c : Ctor) (hc : c ∈ Gen.Wide.all) (fail : Nat → Bool) :
    (run c.table fail).ok = false → Balanced (run c.table fail) :=
  unwind_balanced c.table (List.all_eq_true.mp Gen.Wide.all_wf c hc) fail

/-- … and reports every failing acquisition / fallible step (no success return) -/
theorem wide_failure_reported (c : Ctor) (hc : c ∈ Gen.Wide.all) (k : Nat) (op : Op)
    (hj : c.table.ops[k]? = some op) (hh : op.hard = true) :
    (run c.table (failAt k)).ok = false ∧ (run c.table (failFrom k)).ok = false :=
  ⟨failAt_fails c.table (List.all_eq_true.mp Gen.Wide.all_wf c hc) k op hj hh,
   failFrom_fails c.table (List.all_eq_true.mp Gen.Wide.all_wf c hc) k op hj hh⟩

/-- nothing leaks, nothing is released twice, nothing that is not held is released, and nothing that was already
    released on the main path is released again -/
def Ft.Balanced (o : Ft.Outcome) : Prop :=
  o.held.Nodup ∧ o.released.Perm o.held ∧ ∀ r, r ∈ o.freed → r ∉ o.released

/-- **ft_unwind_balanced** — second table language (functions that release temporaries on the main path): for a
    table that passes the check and EVERY pattern of failing steps, a failing run releases exactly what is
    still held at the failing step, each once, and never again what the main path had already released. -/
theorem ft_unwind_balanced (t : Ft.Table) (hwf : t.wf = true) (fail : Nat → Bool) :
    (Ft.run t fail).ok = false → Ft.Balanced (Ft.run t fail) := by
  intro hk
  obtain ⟨h1, h2, h3, _⟩ := Ft.runFrom_spec t fail t.ops 0 [] [] hwf List.nodup_nil (by simp)
  obtain ⟨hn, hm⟩ := h3 hk
  refine ⟨h1, (List.perm_ext_iff_of_nodup hn h1).mpr hm, ?_⟩
  intro r hr hrel
  exact h2 r hr ((hm r).mp hrel)

/-- **ft_failure_reported** — no refusal is swallowed: a run that reports success had no failing acquisition and no
    failing fallible step; in particular "the k-th step fails" and "every step from the k-th on fails" make the
    function fail when step k is an acquisition or a fallible step. -/
theorem ft_failure_reported (t : Ft.Table) (fail : Nat → Bool) (hk : (Ft.run t fail).ok = true)
    (j : Nat) (op : Ft.Op) (hj : t.ops[j]? = some op) (hh : op.hard = true) : fail j = false := by
  have := Ft.ok_no_hard_failure t fail t.ops 0 [] [] hk j op hj hh
  simpa using this

theorem ft_failAt_fails (t : Ft.Table) (k : Nat) (op : Ft.Op) (hj : t.ops[k]? = some op) (hh : op.hard = true) :
    (Ft.run t (failAt k)).ok = false ∧ (Ft.run t (failFrom k)).ok = false := by
  constructor
  · cases hk : (Ft.run t (failAt k)).ok with
    | false => rfl
    | true => have := ft_failure_reported t (failAt k) hk k op hj hh; simp [failAt] at this
  · cases hk : (Ft.run t (failFrom k)).ok with
    | false => rfl
    | true => have := ft_failure_reported t (failFrom k) hk k op hj hh; simp [failFrom] at this

/-- a successful run released nothing on a failure exit (what it still holds belongs to its result) -/
theorem ft_success_no_unwind (t : Ft.Table) (hwf : t.wf = true) (fail : Nat → Bool) :
    (Ft.run t fail).ok = true → (Ft.run t fail).released = [] ∧ (Ft.run t fail).held.Nodup ∧
      ∀ r, r ∈ (Ft.run t fail).freed → r ∉ (Ft.run t fail).held := by
  intro hk
  obtain ⟨h1, h2, _, h4⟩ := Ft.runFrom_spec t fail t.ops 0 [] [] hwf List.nodup_nil (by simp)
  exact ⟨h4 hk, h1, h2⟩

/-- **wide_ft_balanced** — every function table extracted from lib/*.c in the second language is balanced under
    every failure pattern (the generated file decides `wf` for each of them). -/
theorem wide_ft_balanced (f : Ft.Fn) (hf : f ∈ Gen.Wide.allFt) (fail : Nat → Bool) :
    (Ft.run f.table fail).ok = false → Ft.Balanced (Ft.run f.table fail) :=
  ft_unwind_balanced f.table (List.all_eq_true.mp Gen.Wide.allFt_wf f hf) fail

/-- non-vacuity: the check of the second language rejects a leak of a temporary (the failure exit of the second
    acquisition forgets the first), a double release (the temporary is released on the main path AND by a later
    failure exit) and accepts the correct function -/
example : Ft.Table.wf { ops := [.acq 0 0, .acq 1 1, .rel 0], labels := [[], []] } = false := by decide
example : Ft.Table.wf { ops := [.acq 0 0, .rel 0, .acq 1 1], labels := [[], [0]] } = false := by decide
example : Ft.Table.wf { ops := [.acq 0 0, .acq 1 1, .rel 0, .guard 2], labels := [[], [0], [1]] } = true := by decide
example : (Ft.run { ops := [.acq 0 0, .acq 1 1, .rel 0, .guard 2], labels := [[], [0], [1]] } (failAt 3)).released = [1] ∧
          (Ft.run { ops := [.acq 0 0, .acq 1 1, .rel 0, .guard 2], labels := [[], [0], [1]] } (failAt 3)).freed = [0] := by decide

/-- **ft_partial_fill_released** — the element-wise filled object (`Op.acqp`, the `for (i..) { x[i] = make(); if (!x[i]) goto oops; }`
    shape of hawk_rtx_callwith*strarr): in a table that passes the check, when the filling step itself fails the
    failure exit releases the elements filled so far (`r`) together with everything acquired before. -/
theorem ft_partial_fill_released (t : Ft.Table) (fail : Nat → Bool) :
    ∀ (ops : List Ft.Op) (i : Nat) (held freed : List Nat) (r l : Nat) (rest : List Ft.Op),
      ops = .acqp r l :: rest → Ft.wfFrom t ops held freed = true → held.Nodup → (∀ q, q ∈ freed → q ∉ held) →
      fail i = true →
      (Ft.runFrom t fail ops i held freed).ok = false ∧
      r ∈ (Ft.runFrom t fail ops i held freed).released ∧
      ∀ q, q ∈ held → q ∈ (Ft.runFrom t fail ops i held freed).released := by
  intro ops i held freed r l rest hops hw hn hd hf
  subst hops
  have hs := Ft.runFrom_spec t fail (.acqp r l :: rest) i held freed hw hn hd
  have hrun : Ft.runFrom t fail (.acqp r l :: rest) i held freed = Ft.exit t (held ++ [r]) freed l := by
    simp [Ft.runFrom, hf]
  rw [hrun] at hs ⊢
  obtain ⟨_, _, h3, _⟩ := hs
  have hk : (Ft.exit t (held ++ [r]) freed l).ok = false := rfl
  obtain ⟨_, hm⟩ := h3 hk
  refine ⟨rfl, (hm r).mpr (by simp [Ft.exit]), ?_⟩
  intro q hq
  exact (hm q).mpr (by simp [Ft.exit, hq])

/-- non-vacuity (the table of hawk_rtx_callwithbcstrarr: block `v`, its elements, the call): the check accepts it,
    rejects the variant whose failure exit forgets the elements, and a failure while filling releases both -/
example : Ft.Table.wf { ops := [.acq 0 0, .acqp 1 1, .guard 1], labels := [[], [1, 0]] } = true := by decide
example : Ft.Table.wf { ops := [.acq 0 0, .acqp 1 1, .guard 1], labels := [[], [0]] } = false := by decide
example : (Ft.run { ops := [.acq 0 0, .acqp 1 1, .guard 1], labels := [[], [1, 0]] } (failAt 1)).released = [1, 0] ∧
          (Ft.run { ops := [.acq 0 0, .acqp 1 1, .guard 1], labels := [[], [1, 0]] } (failAt 1)).held = [0, 1] := by decide

/-! ### arr (C19's model) -/

/-- **arr_insert_oom_atomic** — hawk_arr_insert under any allocator behaviour: an insert that does
    not report success left size, tally, capacity and every cell as they were
    (corollary of `Hawk.Arr.insert_spec`). -/
theorem arr_insert_oom_atomic (a : Hawk.Arr.Arr) (pos v : Nat) (o : Hawk.Arr.Oracle) (h : Hawk.Arr.WF a)
    (hfail : (Hawk.Arr.insert a pos v o).ret ≠ .ok pos) : (Hawk.Arr.insert a pos v o).arr = a := by
  have := Hawk.Arr.insert_spec a pos v o h
  simp only at this
  rcases this with h1 | h2 | h3
  · exact absurd h1.1 hfail
  · exact h2.2.1
  · exact h3.2.1

end Hawk.Oom
