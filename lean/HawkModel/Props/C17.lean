import HawkModel.DeparseStable
import HawkModel.DeparseGlueTable
/-!
  C17 — "Deparsed source is equivalent to the original", expression language, token level.

  Model: `HawkModel/Deparse.lean` (`print` = lib/tree.c print_expr as repaired, `parse` = lib/parse.c
  parse_expr … parse_primary over the generated tables of `Gen/Precedence.lean`).
  `WFparse a`  : `a` is a tree the parser can return (`DeparseLemmas.lean`; inductive conditions: retained literal
                 text only on non-negative numbers, no unfolded constant operands, operands of `in`, `++`, `--`,
                 assignment are variables; NO condition on grouping: the parser keeps no node for parentheses).
  `norm a`     : the tree `parse (print a)` returns;  `Equiv` : equality up to the retained spelling of integer
                 literals and folding of unary operators over integer literals (`canon`).
  Not covered here (correspondence only): statements, getline and print redirection forms, regular expression
  literals, string/char escapes, re-rendered floating-point constants, `__gN/__lN/__pN` renaming, nesting depth.
-/
namespace Hawk.Props.C17
open Hawk.Deparse Hawk.Gen.Precedence

/-- the deparsed text of every tree the parser can return is accepted by the parser, and the tree read back is
    exactly `norm a` -/
theorem roundtrip_exact (a : Ast) (h : WFparse a) : parse (print a) = .ok (norm a) :=
  parse_print a h

/-- ... and that tree is equivalent to the original one -/
theorem roundtrip (a : Ast) (h : WFparse a) : ∃ a', parse (print a) = .ok a' ∧ Equiv a' a :=
  ⟨norm a, parse_print a h, canon_norm a⟩

/-- every tree satisfying the inductive characterisation is (up to `norm`) in the image of `parse` -/
theorem wf_in_image (a : Ast) (h : WFparse a) : ∃ ts, parse ts = .ok (norm a) :=
  ⟨print a, parse_print a h⟩

/-- the same holds again for the deparse of the deparse: it is accepted, the tree read back is equivalent to the
    original, and the text of the third generation is identical to that of the second (deparsing is stable from the
    second generation on).  The first and the second text can differ in one way only: parse_unary_exp does not fold
    what parse_unary folds, so `2 ** -1` is first printed `(2 ** (-(1)))`, read back folded and printed `(2 ** (-1))`. -/
theorem roundtrip_twice (a : Ast) (h : WFparse a) :
    ∃ a' a'', parse (print a) = .ok a' ∧ parse (print a') = .ok a'' ∧ Equiv a'' a ∧
      print a'' = print a' ∧ printStr a'' = printStr a' := by
  refine ⟨norm a, norm (norm a), parse_print a h, parse_print (norm a) (WFparse_norm a h), ?_, ?_, ?_⟩
  · show canon (norm (norm a)) = canon a
    rw [canon_norm, canon_norm]
  · simp only [print, printP_norm_norm]
  · simp only [printStr, printP_norm_norm]

/-- the spelling the deparser writes for a binary operator is a token that exactly one ladder level maps back to the
    same operator, the levels below it leave that token alone, and `)` stops every level - including the level itself
    when it parses its own right operand (right-associative `**`, generated flag `rassoc`).  Per operator, evaluated on
    the generated tables.  Because print_expr parenthesises both operands, the round trip does not depend on the
    associativity of any level: `(a ** b) ** c` and `a ** (b ** c)` are both read back as written. -/
theorem ladder_reads_back_every_operator (op : BinOp) : binOK op = true := binOK_all op

/-- assignment, unary and increment operators: spelling -> token -> same opcode -/
theorem assign_spelling_reads_back (op : AssOp) : assignToks.lookup (assTok op).k = some op := assign_lookup op
theorem unary_spelling_reads_back (op : UnrOp) : unaryToks.lookup (unrTok op).k = some op := unary_lookup op
theorem incdec_spelling_reads_back (op : IncOp) : incToks.lookup (incTok op).k = some op := inc_lookup op

/-- no token gluing: in the text print_expr writes for a tree, any two neighbouring tokens with no blank between them
    pass `cutOK` (the first one, followed by the first character of the second, is not the beginning of a longer
    symbol of get_symbols()'s table, resp. the second one starts with a character that ends an identifier / number);
    the text starts with a token of the start class and ends with one of the end class.
    E.g. `a - -b` is written `(a - (-(b)))`, `a - --b` is `(a - --(b))`: the blanks and parentheses of print_expr
    keep `-` `-` from becoming `--`. -/
theorem print_no_glue (a : Ast) (h : WFparse a) : adjOK (printP a) = true := (shape_print a h).ok

theorem print_starts_and_ends_cleanly (a : Ast) (h : WFparse a) :
    (∃ t, firstT (printP a) = some t ∧ startTok t = true) ∧ (∃ u, lastT (printP a) = some u ∧ endTok u = true) :=
  ⟨(shape_print a h).first, (shape_print a h).last⟩

/-- `cutOK` against the C lexer: for every symbol print_expr writes directly before another token and every symbol of the
    table as follower, either `cutOK`'s extension test fires or the C's walk over `ops[]` cuts exactly after the first -/
theorem cutOK_agrees_with_get_symbols :
    gluePrinted.all (fun s1 => symTable.all (fun e2 =>
      match e2.1.toList with
      | c :: _ => extendsCC s1 (.ch c) ||
          (symWalk symTable 0 (s1.toList ++ e2.1.toList) == some (s1, tkOfSpelling s1, e2.1.toList))
      | [] => true)) = true := cut_sound_symbols

/-- the hazard the blanks guard against is real: without the blank, `-` followed by `-` is one token `--` -/
theorem minus_minus_glues : cutOK tMINUS tMINUS = false ∧
    symWalk symTable 0 ['-', '-', 'b'] = some ("--", .MINUSMINUS, ['b']) := by decide +kernel

/-- finding `deparse-nesting-depth` stated on the model: a left-leaning chain with `n` operators, which parse_binary
    reads in a loop at constant nesting depth, is printed with `n` nested parentheses - one parse_expr_withdc level each
    when the text is read again (the CLI limits that depth to 50) -/
theorem deparse_nesting_grows (n : Nat) : parenDepth (print (chain n)) = n := by
  simp [parenDepth, chain_depth n 0 0 (Nat.le_refl 0)]

/-! non-vacuity: trees with every node kind satisfy `WFparse`, and the round trip gives the expected concrete trees -/

/-- `x = (c ? a[1,y] : -z) ** f(2, "s") %% (q += $(i)++) in m` -/
example : WFparse
    (.ass .NONE (.var "x")
      (.bin .IN
        (.bin .CONCAT
          (.bin .EXP (.cnd (.var "c") (.idx "a" (.cons (.int 1 (some "1")) (.cons (.var "y") .nil))) (.unr .MINUS (.var "z")))
            (.call "f" (.cons (.int 2 (some "0x2")) (.cons (.lit .STR "\"s\"") .nil))))
          (.ass .PLUS (.var "q") (.incpst .PLUS (.pos (.var "i")))))
        (.var "m"))) := by
  simp [WFparse, WFparseL, litKinds, Ast.isVar, Ast.isPos, Ast.isFlt, foldable]

example : WFparse (.bin .EXP (.int (-1) none) (.unr .MINUS (.int 1 (some "1")))) := by
  simp [WFparse, foldable, Ast.isFlt]

example : WFparse (.grp (.cons (.int 1 (some "1")) (.cons (.int 2 (some "2")) .nil))) := by
  simp [WFparse, WFparseL, AstL.length]

/-- `(-1) ** -1`: the negative constant stays one operand; the unfolded unary minus is folded on the way back -/
example : parse (print (.bin .EXP (.int (-1) none) (.unr .MINUS (.int 1 (some "1")))))
    = .ok (.bin .EXP (.int (-1) none) (.int (-1) none)) := by
  rw [roundtrip_exact _ (by simp [WFparse, foldable, Ast.isFlt])]
  simp [norm, foldUnrInt, wrap64]

/-- `a %% (-1)`: printed with the explicit operator and a parenthesised constant, read back unchanged -/
example : parse (print (.bin .CONCAT (.var "a") (.int (-1) none))) = .ok (.bin .CONCAT (.var "a") (.int (-1) none)) := by
  rw [roundtrip_exact _ (by simp [WFparse, foldable])]
  simp [norm]

end Hawk.Props.C17
