import HawkModel.DeparseStable
import HawkModel.DeparseGlueTable
import HawkModel.DeparseStmtStable
import HawkModel.DeparseProgLemmas
/-!
  C17 — "Deparsed source is equivalent to the original", expression language, token level.

  Model: `HawkModel/Deparse.lean` (`print` = lib/tree.c print_expr as repaired, `parse` = lib/parse.c
  parse_expr … parse_primary over the generated tables of `Gen/Precedence.lean`).
  `WFparse a`  : `a` is a tree the parser can return (`DeparseLemmas.lean`; inductive conditions: retained literal
                 text only on non-negative numbers, no unfolded constant operands, operands of `in`, `++`, `--`,
                 assignment are variables; NO condition on grouping: the parser keeps no node for parentheses).
  `norm a`     : the tree `parse (print a)` returns;  `Equiv` : equality up to the retained spelling of integer
                 literals and folding of unary operators over integer literals (`canon`).
  Statement level (`HawkModel/DeparseStmt.lean`): `printS` = lib/tree.c print_stmt, `parseStmt` = lib/parse.c
  parse_statement ... parse_print, keyword and redirection spellings from the generated `Gen/Keywords.lean`;
  `WFS` = the statement trees the parser can return, `normS` / `EquivS` = `norm` / `Equiv` in every expression position.
  Not covered here (correspondence only): getline forms,
  the top level (globals, functions, pattern-action chains), regular expression literals, string/char escapes,
  re-rendered floating-point constants, nesting depth.
-/
namespace Hawk.Props.C17
open Hawk.Deparse Hawk.Gen.Precedence

/-- the deparsed text of every tree the parser can return is accepted by the parser, and the tree read back is
    exactly `norm a` -/
theorem roundtrip_exact (a : Ast) (h : WFparse a) : parse (print a) = .ok (norm a) :=
  parse_print a h

/-- ... and that tree is equivalent to the original one -/
theorem roundtrip (a : Ast) (h : WFparse a) : ∃ a', parse (print a) = .ok a' ∧ Equiv a' a :=
  ⟨norm a, parse_print a h, canon_norm a⟩

/-- every tree satisfying the inductive characterisation is (up to `norm`) in the image of `parse` -/
theorem wf_in_image (a : Ast) (h : WFparse a) : ∃ ts, parse ts = .ok (norm a) :=
  ⟨print a, parse_print a h⟩

/-- the same holds again for the deparse of the deparse: it is accepted, the tree read back is equivalent to the
    original, and the text of the third generation is identical to that of the second (deparsing is stable from the
    second generation on).  The first and the second text can differ in one way only: parse_unary_exp does not fold
    what parse_unary folds, so `2 ** -1` is first printed `(2 ** (-(1)))`, read back folded and printed `(2 ** (-1))`. -/
theorem roundtrip_twice (a : Ast) (h : WFparse a) :
    ∃ a' a'', parse (print a) = .ok a' ∧ parse (print a') = .ok a'' ∧ Equiv a'' a ∧
      print a'' = print a' ∧ printStr a'' = printStr a' := by
  refine ⟨norm a, norm (norm a), parse_print a h, parse_print (norm a) (WFparse_norm a h), ?_, ?_, ?_⟩
  · show canon (norm (norm a)) = canon a
    rw [canon_norm, canon_norm]
  · simp only [print, printP_norm_norm]
  · simp only [printStr, printP_norm_norm]

/-- the spelling the deparser writes for a binary operator is a token that exactly one ladder level maps back to the
    same operator, the levels below it leave that token alone, and `)` stops every level - including the level itself
    when it parses its own right operand (right-associative `**`, generated flag `rassoc`).  Per operator, evaluated on
    the generated tables.  Because print_expr parenthesises both operands, the round trip does not depend on the
    associativity of any level: `(a ** b) ** c` and `a ** (b ** c)` are both read back as written. -/
theorem ladder_reads_back_every_operator (op : BinOp) : binOK op = true := binOK_all op

/-- assignment, unary and increment operators: spelling -> token -> same opcode -/
theorem assign_spelling_reads_back (op : AssOp) : assignToks.lookup (assTok op).k = some op := assign_lookup op
theorem unary_spelling_reads_back (op : UnrOp) : unaryToks.lookup (unrTok op).k = some op := unary_lookup op
theorem incdec_spelling_reads_back (op : IncOp) : incToks.lookup (incTok op).k = some op := inc_lookup op

/-- no token gluing: in the text print_expr writes for a tree, any two neighbouring tokens with no blank between them
    pass `cutOK` (the first one, followed by the first character of the second, is not the beginning of a longer
    symbol of get_symbols()'s table, resp. the second one starts with a character that ends an identifier / number);
    the text starts with a token of the start class and ends with one of the end class.
    E.g. `a - -b` is written `(a - (-(b)))`, `a - --b` is `(a - --(b))`: the blanks and parentheses of print_expr
    keep `-` `-` from becoming `--`. -/
theorem print_no_glue (a : Ast) (h : WFparse a) : adjOK (printP a) = true := (shape_print a h).ok

theorem print_starts_and_ends_cleanly (a : Ast) (h : WFparse a) :
    (∃ t, firstT (printP a) = some t ∧ startTok t = true) ∧ (∃ u, lastT (printP a) = some u ∧ endTok u = true) :=
  ⟨(shape_print a h).first, (shape_print a h).last⟩

/-- `cutOK` against the C lexer: for every symbol print_expr writes directly before another token and every symbol of the
    table as follower, either `cutOK`'s extension test fires or the C's walk over `ops[]` cuts exactly after the first -/
theorem cutOK_agrees_with_get_symbols :
    gluePrinted.all (fun s1 => symTable.all (fun e2 =>
      match e2.1.toList with
      | c :: _ => extendsCC s1 (.ch c) ||
          (symWalk symTable 0 (s1.toList ++ e2.1.toList) == some (s1, tkOfSpelling s1, e2.1.toList))
      | [] => true)) = true := cut_sound_symbols

/-- the hazard the blanks guard against is real: without the blank, `-` followed by `-` is one token `--` -/
theorem minus_minus_glues : cutOK tMINUS tMINUS = false ∧
    symWalk symTable 0 ['-', '-', 'b'] = some ("--", .MINUSMINUS, ['b']) := by decide +kernel

/-- finding `deparse-nesting-depth` stated on the model: a left-leaning chain with `n` operators, which parse_binary
    reads in a loop at constant nesting depth, is printed with `n` nested parentheses - one parse_expr_withdc level each
    when the text is read again (the CLI limits that depth to 50) -/
theorem deparse_nesting_grows (n : Nat) : parenDepth (print (chain n)) = n := by
  simp [parenDepth, chain_depth n 0 0 (Nat.le_refl 0)]

/-! non-vacuity: trees with every node kind satisfy `WFparse`, and the round trip gives the expected concrete trees -/

/-- `x = (c ? a[1,y] : -z) ** f(2, "s") %% (q += $(i)++) in m` -/
example : WFparse
    (.ass .NONE (.var "x")
      (.bin .IN
        (.bin .CONCAT
          (.bin .EXP (.cnd (.var "c") (.idx "a" (.cons (.int 1 (some "1")) (.cons (.var "y") .nil))) (.unr .MINUS (.var "z")))
            (.call "f" (.cons (.int 2 (some "0x2")) (.cons (.lit .STR "\"s\"") .nil))))
          (.ass .PLUS (.var "q") (.incpst .PLUS (.pos (.var "i")))))
        (.var "m"))) := by
  simp [WFparse, WFparseL, litKinds, Ast.isVar, Ast.isPos, Ast.isFlt, foldable]

example : WFparse (.bin .EXP (.int (-1) none) (.unr .MINUS (.int 1 (some "1")))) := by
  simp [WFparse, foldable, Ast.isFlt]

example : WFparse (.grp (.cons (.int 1 (some "1")) (.cons (.int 2 (some "2")) .nil))) := by
  simp [WFparse, WFparseL, AstL.length]

/-- `(-1) ** -1`: the negative constant stays one operand; the unfolded unary minus is folded on the way back -/
example : parse (print (.bin .EXP (.int (-1) none) (.unr .MINUS (.int 1 (some "1")))))
    = .ok (.bin .EXP (.int (-1) none) (.int (-1) none)) := by
  rw [roundtrip_exact _ (by simp [WFparse, foldable, Ast.isFlt])]
  simp [norm, foldUnrInt, wrap64]

/-- `a %% (-1)`: printed with the explicit operator and a parenthesised constant, read back unchanged -/
example : parse (print (.bin .CONCAT (.var "a") (.int (-1) none))) = .ok (.bin .CONCAT (.var "a") (.int (-1) none)) := by
  rw [roundtrip_exact _ (by simp [WFparse, foldable])]
  simp [norm]

/-! ## statement level -/

/-- every statement tree the parser can return, printed by print_stmt at any depth with any number of enclosing locals,
    is accepted by the statement parser, which returns exactly `normS s` (the same tree with every expression read back as the
    expression theorems say) and consumes the whole text up to newlines.  Hence acceptance and, equal trees running equally,
    identical behaviour.  Covers: null statement, blocks with @local declarations (the count is read back), if / if-else
    including else-if ladders (`WFS` states the dangling-else condition the parser guarantees: the then-part of an if-else
    does not end in an open if), while, do-while, for with every combination of empty parts, for-in, break, continue,
    return, exit, @abort, next, nextfile, nextofile, delete, @reset, print / printf with argument lists, expression statements.
    A last argument that is itself a `>`, `>>`, `|`, `||` node - `print (a > b);` - is covered: parse_print would take it apart
    again, but its parenthesis bookkeeping (`closesAtEnd`: the closing parenthesis before the terminator closes the one the
    argument began with) says the argument was parenthesised; that is proved from the balance of printed expressions (`balA`).
    print / printf WITH a redirection (`>`, `>>`, `|`, `||`, also with no argument) is covered: the last argument and the target
    are read as ONE binary node up to the `;` (`bin_inner_semi`, `pExpr_redir`), parse_print's parenthesis bookkeeping is NOT
    confirmed because the parenthesis the argument may begin with is closed before the end of what was consumed
    (`inParens_early`, from `paren_shape` / `balA`), and the node is taken apart again into argument and target (`splitLast_resR`).
    `_partial` only because getline (an expression node the expression model answers `unsupported` for) is not in the model. -/
theorem stmt_roundtrip_partial (s : Stmt) (h : WFS s) (outer d : Nat) :
    ∃ r, parseStmt (sz s) outer (toksS (printS outer d s)) = .ok (normS s, r) ∧ dropNl r = [] := by
  have := rtS s h outer d (sz s) [] (Nat.le_refl _) (by intro _; simp [dropNl, k1])
  simpa [dropNl] using this

/-- the same with more text behind the statement: nothing of it is consumed but newlines, unless the statement ends in an
    open `if` and an `else` follows (the dangling else) -/
theorem stmt_roundtrip_in_context_partial (s : Stmt) (h : WFS s) (outer d n : Nat) (rest : List Tok) (hn : sz s ≤ n)
    (hd : openIf s = true → k1 (dropNl rest) ≠ some .ELSE) :
    ∃ r, parseStmt n outer (toksS (printS outer d s) ++ rest) = .ok (normS s, r) ∧ dropNl r = dropNl rest :=
  rtS s h outer d n rest hn hd

/-- the dangling else is real: `if (a) if (b) x; else y;` printed from the tree whose OUTER if owns the else is read back
    with the else on the inner if - which is why the parser never returns such a tree and `WFS` excludes it -/
theorem dangling_else_witness :
    toksS (printS 0 0 (.ife (.var "a") (.ift (.var "b") (.expr (.var "x"))) (.expr (.var "y"))))
      = toksS (printS 0 0 (.ift (.var "a") (.ife (.var "b") (.expr (.var "x")) (.expr (.var "y"))))) ∧
    ∃ r, parseStmt 4 0 (toksS (printS 0 0 (.ife (.var "a") (.ift (.var "b") (.expr (.var "x"))) (.expr (.var "y")))))
      = .ok (.ift (.var "a") (.ife (.var "b") (.expr (.var "x")) (.expr (.var "y"))), r) := by
  have e : toksS (printS 0 0 (.ife (.var "a") (.ift (.var "b") (.expr (.var "x"))) (.expr (.var "y"))))
      = toksS (printS 0 0 (.ift (.var "a") (.ife (.var "b") (.expr (.var "x")) (.expr (.var "y"))))) := by decide +kernel
  refine ⟨e, ?_⟩
  rw [e]
  obtain ⟨r, h, _⟩ := stmt_roundtrip_partial (.ift (.var "a") (.ife (.var "b") (.expr (.var "x")) (.expr (.var "y"))))
    (by simp [WFS, WFparse, openIf]) 0 0
  exact ⟨r, by simpa [normS, norm, sz] using h⟩

/-- the tree read back is equivalent to the original one -/
theorem stmt_equiv (s : Stmt) : EquivS (normS s) s := canon_normS s

/-- printer idempotence: the text of the tree read back from the printed text does not change any more when it is printed,
    read and printed again (`print (parse (print (parse (print s)))) = print (parse (print s))`, with `parse ∘ print = normS`) -/
theorem stmt_print_stable (s : Stmt) (outer d : Nat) :
    renderS (printS outer d (normS (normS s))) = renderS (printS outer d (normS s)) := by
  rw [printS_norm_norm]

/-- the same again for the deparse of the deparse: the second text is accepted too, the tree read back from it is equivalent to
    the original, and the third text is the second one (`n` = any fuel that is enough for the tree) -/
theorem stmt_roundtrip_twice_partial (s : Stmt) (h : WFS s) (outer d n : Nat) (hn : sz s ≤ n) :
    ∃ r r', parseStmt n outer (toksS (printS outer d s)) = .ok (normS s, r) ∧
      parseStmt n outer (toksS (printS outer d (normS s))) = .ok (normS (normS s), r') ∧
      EquivS (normS (normS s)) s ∧
      renderS (printS outer d (normS (normS s))) = renderS (printS outer d (normS s)) := by
  obtain ⟨r, h1, _⟩ := rtS s h outer d n [] hn (by intro _; simp [dropNl, k1])
  obtain ⟨r', h2, _⟩ := rtS (normS s) (WFS_norm s h) outer d n [] (by rw [sz_normS]; exact hn) (by intro _; simp [dropNl, k1])
  refine ⟨r, r', by simpa using h1, by simpa using h2, ?_, by rw [printS_norm_norm]⟩
  show canonS (normS (normS s)) = canonS s
  rw [canon_normS, canon_normS]

/-- keyword spellings: what print_stmt writes for a keyword (hawk_getkwname = the generated `kwtab[]`) is classified back
    as that keyword by the lexer's table lookup - for every keyword print_stmt / the top level writes -/
theorem keyword_spelling_reads_back :
    [TK.XLOCAL, .XGLOBAL, .XRESET, .XABORT, .IF, .ELSE, .WHILE, .DO, .FOR, .BREAK, .CONTINUE, .RETURN, .EXIT, .NEXT, .NEXTFILE,
      .NEXTOFILE, .DELETE, .PRINT, .PRINTF, .GETLINE, .GETBLINE, .IN, .FUNCTION, .BEGIN, .END].all
      (fun k => kwKind (kwSpelling k) == k || (Hawk.Gen.Keywords.kwtab.lookup (kwSpelling k) == some k)) = true := by decide +kernel

/-- redirection spellings: what print_printx writes for an output type (`print_outop_str[]`, generated) is one symbol of
    the lexer's table, and parse_print maps that token back to the same output type -/
theorem redirection_spelling_reads_back (r : Redir) : redirOfTok (tkOfSpelling r.str) = some r := by
  cases r <;> decide +kernel

/-- renaming: the names `__g<i>` / `__l<i>` / `__p<i>` the deparser gives to globals, locals and parameters determine kind and
    number (injective), so the renamed program is the original one up to a bijective renaming of its variables -/
theorem renaming_injective (c c' : Char) (i i' : Nat) (h : renName c i = renName c' i') : c = c' ∧ i = i' :=
  renName_injective c c' i i' h

/-- the renaming is consistent over a whole program unit: with the declarations the deparser writes (`@global __g<gb>, ...;` for
    `nG` globals numbered from the first non-builtin index `gb`, `(__p0, ...)` for `nP` parameters, `@local __l0, ...;` for `nL`
    locals, in declaration order), every name it writes for a variable resolves - locals first, then parameters, then globals, as
    parse_primary_ident does - back to the same kind and the same number; no canonical name is shadowed by another one.  So the
    deparsed program is the original one with its variables renamed one-to-one (alpha-equivalent). -/
theorem canonical_names_resolve (nL nP gb nG : Nat) :
    (∀ i, i < nL → resolveName nL nP gb nG (renName 'l' i) = some ('l', i)) ∧
    (∀ i, i < nP → resolveName nL nP gb nG (renName 'p' i) = some ('p', i)) ∧
    (∀ i, i < nG → resolveName nL nP gb nG (renName 'g' (gb + i)) = some ('g', gb + i)) :=
  ⟨fun i h => resolve_local nL nP gb nG i h, fun i h => resolve_param nL nP gb nG i h, fun i h => resolve_global nL nP gb nG i h⟩

/-- ... and the @local line print_stmt writes uses exactly these names, numbered from the count of the enclosing blocks -/
theorem local_names_are_renamed (i : Nat) : (lclTok i).s = renName 'l' i := lclTok_is_renName i

/-! non-vacuity of `WFS`: a block with locals, an else-if ladder with a null statement and an empty block as arms, loops, and
    simple statements of every kind -/
example : WFS
    (.blk 2 (.cons (.ife (.var "a") (.expr (.ass .NONE (.var "x") (.int 1 (some "1"))))
        (.ife (.var "c") .null (.ife (.var "d") (.blk 0 .nil) (.expr (.var "z")))))
      (.cons (.whl (.bin .LT (.var "i") (.int 3 (some "3"))) (.expr (.incpst .PLUS (.var "i"))))
      (.cons (.dowhl (.blk 0 (.cons .brk .nil)) (.var "j"))
      (.cons (.for_ none none none .cont)
      (.cons (.forin (.bin .IN (.var "k") (.var "A")) (.del (.idx "A" (.cons (.var "k") .nil))))
      (.cons (.prt false (.cons (.int 1 (some "1")) (.cons (.bin .GT (.var "y") (.var "z")) .nil)) none)
      (.cons (.prt true (.cons (.lit .STR "\"%d\"") (.cons (.var "y") .nil)) (some (.apfile, .bin .CONCAT (.var "p") (.lit .STR "\".txt\""))))
      (.cons (.prt false .nil (some (.pipe, .lit .STR "\"cat\"")))
      (.cons (.reset (.var "A")) (.cons (.ret none) (.cons (.exit_ true (some (.var "q"))) (.cons (.nextfile true) .nil))))))))))))) := by
  simp [WFS, WFSL, WFO, WFparse, WFparseL, Stmt.dropped, openIf, isForinHead, Ast.isVar, grpAlone, WFout, litKinds, foldable]

/-! ## the top level -/

/-- a whole program as `deparse` / `deparse_func` write it - the `@global` line with the globals numbered from the number of
    built-in ones, functions with their `__p<i>` parameter lists, BEGIN and END blocks, pattern-less actions, patterns and ranges
    with or without an action, in any order and number - is accepted by parse_progunit's loop, which returns exactly the same units
    with every statement and expression read back as the statement and expression theorems say (`normI`).  Not in the model:
    by-reference and variadic parameters, @pragma lines, globals printed under their own names (HAWK_IMPLICIT off), getline. -/
theorem prog_roundtrip_partial (gb : Nat) (l : List Item) (h : ∀ i ∈ l, WFI gb i) (n : Nat) (hn : szP l ≤ n) :
    parseProg n gb (toksS (printProg l)) = .ok (l.map normI) :=
  rtP gb l h n hn

/-- one unit in context: whatever follows it is left alone, up to newlines -/
theorem unit_roundtrip_partial (gb : Nat) (i : Item) (h : WFI gb i) (n : Nat) (rest : List Tok) (hn : szI i ≤ n) :
    ∃ r, parseItem n gb (toksS (printItem i) ++ rest) = .ok (normI i, r) ∧ dropNl r = dropNl rest :=
  rtI gb i h n rest hn

example : ∀ i ∈ [Item.glob 22 2, .func "f" 2 (.blk 1 (.cons (.ret (some (.var "__p0"))) .nil)), .begin_ (.blk 0 .nil),
    .pat (.var "a") (some (.var "b")) (some (.blk 0 (.cons .next .nil))), .pat (.var "c") none none, .act (.blk 0 .nil),
    .end_ (.blk 0 (.cons (.exit_ false none) .nil))], WFI 22 i := by
  intro i hi
  simp only [List.mem_cons, List.not_mem_nil, or_false] at hi
  rcases hi with rfl | rfl | rfl | rfl | rfl | rfl | rfl <;>
    simp [WFI, WFact, isBlkP, WFS, WFSL, WFO, WFparse, Stmt.dropped]

end Hawk.Props.C17
