import HawkModel.CtxRc
import HawkModel.CtxExit
/-!
# C09 — Runtime contexts are isolated and the embedding API keeps its ownership contract

Property theorems only (helpers: `CtxLemmas`, `CtxRc`, `CtxExit`).  Model: `HawkModel/Ctx.lean`
— the state machine of one interpreter (`Interp`: parsed program + the call-site function cache,
the only interpreter-level field written at run time) and its runtime contexts (`Ctx`: value heap
with reference counts, the flat run-time stack with its frames, `stack_base`, `exit_level`, error
number, rio chain and files, console, input, `$0`, `NR`, and the references the embedding
application holds), driven by API operations (`open`, `call`, `loop`, `exec`, `setgbl`, `getgbl`,
`halt`, handle operations, `close`, `clear`, `parse`).

All statements quantify over every abstract program, every context state satisfying the stated
invariant (which `reachable_ok` shows every reachable state satisfies) and every operation /
history.  Interleaving is at API-call granularity; thread-level concurrency is not modelled.
-/
namespace Hawk.Ctx

/-! ## 1. the shared call-site cache -/

/-- what a call site resolves to is a function of the program alone, whatever (consistent) cache
    content it finds — so a write by another context cannot change any observation -/
theorem cache_value_determined (p : Prog) (k : Cache) (hk : Consistent p k) (site : Nat) :
    (resolve p k site).2 = p.lookup (p.siteName site) ∧ Consistent p (resolve p k site).1 :=
  ⟨resolve_snd hk site, resolve_consistent hk site⟩

/-- resolving a call site a second time (by the same or by another context) neither changes the
    cache nor the answer: the write `call->u.fun.fun = fun` is idempotent -/
theorem cache_write_idempotent (p : Prog) (k : Cache) (site : Nat) :
    resolve p (resolve p k site).1 site = ((resolve p k site).1, (resolve p k site).2) := by
  unfold resolve
  cases hk : k site with
  | some fid => simp [hk]
  | none =>
    cases hl : p.lookup (p.siteName site) with
    | none => simp [hk, hl]
    | some fid => simp [Cache.set]

/-- every operation on a context leaves the shared cache consistent with the program, and the
    context's new state and its observation do not depend on which consistent cache it started from:
    the cache is the only shared state and it carries no information -/
theorem op_touches_only_own_ctx_and_cache (p : Prog) (k₁ k₂ : Cache) (hk₁ : Consistent p k₁) (hk₂ : Consistent p k₂)
    (c : Ctx) (op : Op) :
    (stepCtx p k₁ c op).1 = (stepCtx p k₂ c op).1 ∧ (stepCtx p k₁ c op).2.2 = (stepCtx p k₂ c op).2.2 ∧
    Consistent p (stepCtx p k₁ c op).2.1 :=
  ⟨(stepCtx_nc hk₁ hk₂ c op).1, (stepCtx_nc hk₁ hk₂ c op).2, stepCtx_consistent p k₁ c op hk₁⟩

/-- an operation on one context does not touch any other context -/
theorem other_contexts_untouched (w : World) (o : WOp) (cid : Nat) (h : o.cid ≠ cid) :
    (w.step o).1.ctxs cid = w.ctxs cid := step_other w o cid h

/-! ## 2. non-interference -/

/-- for any interleaving `h` of API operations on any number of contexts of one interpreter, the
    observation sequence of context `cid` (return values, reference counts, argument values,
    error number, exit level, stack height, open streams, NR, console output, file contents) is
    the one obtained by running only `cid`'s own operations on a fresh interpreter -/
theorem noninterference (p : Prog) (h : List WOp) (cid : Nat) :
    obsOf cid ((World.init p).run h).2 =
    obsOf cid ((World.init p).run (h.filter (fun o => o.cid == cid))).2 := by
  apply run_isolated
  exact ⟨rfl, consistent_empty p, consistent_empty p, rfl⟩

/-- the same for two arbitrary interleavings that contain the same operations of `cid` in the same order -/
theorem noninterference_two_schedules (p : Prog) (h₁ h₂ : List WOp) (cid : Nat)
    (hsame : h₁.filter (fun o => o.cid == cid) = h₂.filter (fun o => o.cid == cid)) :
    obsOf cid ((World.init p).run h₁).2 = obsOf cid ((World.init p).run h₂).2 := by
  rw [noninterference p h₁ cid, noninterference p h₂ cid, hsame]

/-! ## 3. reachable states -/

/-- the invariant of a context between API calls -/
structure CtxOK (c : Ctx) : Prop where
  clean : Clean c          -- only the globals on the stack, base 0, no temporaries outstanding
  sound : Sound c          -- every reference count is exact, no fault

def WorldOK (w : World) : Prop :=
  Consistent w.interp.prog w.interp.cache ∧ ∀ cid c, w.ctxs cid = some c → CtxOK c

theorem step_ok (w : World) (o : WOp) (h : WorldOK w) : WorldOK (w.step o).1 := by
  refine ⟨by rw [step_prog]; exact step_consistent w o h.1, ?_⟩
  intro cid c hc
  cases o with
  | «open» c0 =>
    simp only [World.step] at hc
    split at hc
    · exact h.2 cid c hc
    · simp only [World.setCtx] at hc
      split at hc
      · cases hc; exact ⟨fresh_clean _ _, fresh_sound _ _⟩
      · exact h.2 cid c hc
  | close c0 =>
    simp only [World.step] at hc
    split at hc
    · exact h.2 cid c hc
    · simp only [World.setCtx] at hc
      split at hc
      · cases hc
      · exact h.2 cid c hc
  | op c0 op =>
    simp only [World.step] at hc
    split at hc
    · exact h.2 cid c hc
    · next cx hcx =>
      simp only [World.setCtx] at hc
      split at hc
      · cases hc
        have hx := h.2 c0 cx hcx
        exact ⟨(stepCtx_clean _ _ cx op h.1 hx.clean).1, stepCtx_sound _ _ cx op h.1 hx.sound⟩
      · exact h.2 cid c hc

theorem run_ok (ops : List WOp) : ∀ (w : World), WorldOK w → WorldOK (w.run ops).1 := by
  induction ops with
  | nil => intro w h; exact h
  | cons o os ih => intro w h; simp only [World.run]; exact ih _ (step_ok w o h)

/-- every state reachable from a freshly parsed interpreter by any history satisfies the invariant -/
theorem reachable_ok (p : Prog) (h : List WOp) : WorldOK ((World.init p).run h).1 :=
  run_ok h _ ⟨consistent_empty p, fun cid c hc => by simp [World.init, Interp.parse, Interp.clear] at hc⟩

/-! ## 4. a context stays usable after a failed call -/

/-- the stack is restored on every path of every operation: between API calls only the globals
    are on the stack (`stack_top` = number of globals) and `stack_base` is 0 -/
theorem stack_restored (p : Prog) (k : Cache) (hk : Consistent p k) (c : Ctx) (hc : Clean c) (op : Op) :
    let c' := (stepCtx p k c op).1
    c'.stack.length = c'.ng ∧ c'.base = 0 ∧ c'.tmps = [] := by
  have h := (stepCtx_clean p k c op hk hc).1
  refine ⟨?_, h.base, h.tmps⟩
  have := congrArg List.length h.stack
  simpa using this

/-- a call that fails (run-time error, stack exhaustion at any depth, unknown function, too many
    arguments, a by-reference copy-back rejected after the callee already executed `return`) on a context that has not exited leaves `exit_level` at NONE, the stack restored, the
    application's handles untouched and every reference count exact: the context differs from the
    one before the call only by the documented effects of the statements that did run (globals,
    streams, records, the sticky error number), so the next call is admitted and behaves as if the
    failed one had never been made on a context with those effects. -/
theorem usable_after_failed_call (p : Prog) (k : Cache) (hk : Consistent p k) (c : Ctx)
    (hc : Clean c) (hs : Sound c) (hx : c.exitLevel = xlNone) (fname : String) (args : List Arg)
    (hf : (stepCtx p k c (.call fname args)).2.2.failed = true) :
    let c' := (stepCtx p k c (.call fname args)).1
    Clean c' ∧ Sound c' ∧ c'.exitLevel = xlNone ∧ c'.core = c.core ∧ c'.handles.length = c.handles.length := by
  refine ⟨(stepCtx_clean p k c _ hk hc).1, stepCtx_sound p k c _ hk hs,
          stepCtx_call_failed_xl p k c fname args hk hx hf, ?_, ?_⟩
  · have h1 := (stepCtx_clean p k c (.call fname args) hk hc).1
    simp only [Ctx.core]
    have hng : (stepCtx p k c (.call fname args)).1.ng = c.ng ∧ (stepCtx p k c (.call fname args)).1.offset = c.offset := by
      simp only [stepCtx]
      have e1 := core_mkArgs c args
      generalize mkArgs c args = r1 at e1
      obtain ⟨c1, vs⟩ := r1
      have e2 := core_of_skel (skel_callByName p c1 k fname vs hk).1
      generalize callByName p c1 k fname vs = r2 at e2
      obtain ⟨c2, k1, r⟩ := r2
      simp only at e1 e2 ⊢
      cases r with
      | none =>
        have e3 := (core_dropTmps c2 c2.tmps).1
        have := e3.trans (e2.trans e1)
        simp only [Ctx.core, Prod.mk.injEq] at this
        exact ⟨this.2.2.1, this.2.2.2⟩
      | some v =>
        have e3 := (core_dropTmps (c2.refdown v) (c2.refdown v).tmps).1
        have e4 : (c2.refdown v).core = c2.core := rfl
        have := e3.trans (e4.trans (e2.trans e1))
        simp only [Ctx.core, Prod.mk.injEq] at this
        exact ⟨this.2.2.1, this.2.2.2⟩
    rw [h1.stack, hc.stack, h1.base, hc.base, hng.1, hng.2]
  · rw [(stepCtx_sound p k c _ hk hs).hlen, hs.hlen]

/-- `exit` and `hawk_rtx_halt` are the documented exceptions: once the exit level is GLOBAL or ABORT
    every further call is refused with EPERM and changes nothing else ... -/
theorem latched_call_refused (p : Prog) (c : Ctx) (k : Cache) (f : Fun) (args : List Val)
    (h : xlGlobal ≤ c.exitLevel) : callFun p c k f args = (c.setErr .eperm, k, none) := by
  unfold callFun; simp [h]

/-- ... until `hawk_rtx_loop` runs, which always ends with the exit level reset -/
theorem loop_unlatches (p : Prog) (c : Ctx) (k : Cache) : (loop p c k).1.exitLevel = xlNone := by
  unfold loop
  simp only
  split
  · rfl
  · rfl

/-! ## 5. ownership -/

/-- for every operation — in particular `call`, on its success, failure and exit paths, with
    by-reference and map arguments — once the caller has dropped the result once (and its own
    temporaries), every reference count equals the number of references that exist, nothing is
    in flight, no count was dropped below zero or touched after being freed (`fault`), and the
    application's handle table is as large as before: the ledger is balanced -/
theorem ownership_balanced (p : Prog) (k : Cache) (hk : Consistent p k) (c : Ctx) (hs : Sound c) (op : Op) :
    let r := stepCtx p k c op
    (∀ id, r.1.heap.rc id = r.1.refs id) ∧ r.1.heap.fault = false ∧ r.1.handles.length = c.handles.length := by
  have h := stepCtx_sound p k c op hk hs
  refine ⟨fun id => by simpa [occL] using h.inv.2 id, h.inv.1.nofault, by rw [h.hlen, hs.hlen]⟩

/-- a `call` leaves the application's handles exactly as they were: arguments are left to the caller
    (the patched `push_arg_from_vals` never writes to the caller's array) -/
theorem call_leaves_arguments (p : Prog) (k : Cache) (hk : Consistent p k) (c : Ctx) (fname : String) (args : List Arg) :
    (stepCtx p k c (.call fname args)).1.handles = c.handles := by
  simp only [stepCtx]
  have h1 : (mkArgs c args).1.handles = c.handles := by
    have : ∀ (as : List Arg) (c : Ctx), (mkArgs c as).1.handles = c.handles := by
      intro as
      induction as with
      | nil => intro c; rfl
      | cons a as ih =>
        intro c
        cases a with
        | nil => simp only [mkArgs]; exact ih c
        | hnd k => simp only [mkArgs]; exact ih c
        | tmp s => simp only [mkArgs]; rw [ih]; rfl
    exact this args c
  generalize mkArgs c args = r1 at h1
  obtain ⟨c1, vs⟩ := r1
  have h2 := handles_of_skel (skel_callByName p c1 k fname vs hk).1
  generalize callByName p c1 k fname vs = r2 at h2
  obtain ⟨c2, k1, r⟩ := r2
  simp only at h1 h2 ⊢
  cases r with
  | none => rw [handles_dropTmps]; exact h2.trans h1
  | some v => rw [handles_dropTmps]; exact h2.trans h1

/-- no dangling reference: whatever a sound context or the application refers to is live, with
    exactly the count of those references -/
theorem no_dangling (c : Ctx) (hs : Sound c) (j : Nat) (h : 1 ≤ c.refs j) :
    ∃ cell, c.heap.cells j = some cell ∧ cell.rc = c.refs j := by
  have e := hs.inv.2 j
  simp only [occL, Nat.add_zero] at e
  obtain ⟨cell, h1, h2⟩ := live_of_rc (h := c.heap) (j := j) (by omega)
  exact ⟨cell, h1, by omega⟩

/-- nothing leaks: when the application has dropped its handles and the context is closed, the
    heap is empty and no count ever went wrong -/
theorem close_releases_all (c : Ctx) (hc : Clean c) (hs : Sound c) :
    (releaseAll c).heap.fault = false ∧ ∀ id, (releaseAll c).heap.cells id = none :=
  releaseAll_empty hs hc.tmps

/-- consequently the model never predicts a FAULT flag, a non-zero stack height or base in any
    observation of any reachable history (these are the lines the C harness must reproduce) -/
theorem observations_clean (ops : List WOp) : ∀ (w : World), WorldOK w →
    ∀ x, x ∈ (w.run ops).2 → x.2.top = 0 ∧ x.2.base = 0 ∧ x.2.fault = false := by
  induction ops with
  | nil => intro w _ x hx; simp [World.run] at hx
  | cons o os ih =>
    intro w hw x hx
    simp only [World.run, List.mem_cons] at hx
    rcases hx with rfl | hx
    · simp only
      have top0 : ∀ c : Ctx, Clean c → c.stack.length - c.ng = 0 := by
        intro c hc
        have := congrArg List.length hc.stack
        simp at this; omega
      cases o with
      | «open» c0 =>
        simp only [World.step]
        split
        · exact ⟨rfl, rfl, rfl⟩
        · have hc := fresh_clean w.interp.prog c0
          exact ⟨top0 _ hc, hc.base, rfl⟩
      | close c0 =>
        simp only [World.step]
        split
        · exact ⟨rfl, rfl, rfl⟩
        · next cx hcx =>
          have hx := hw.2 c0 cx hcx
          exact ⟨rfl, rfl, (releaseAll_empty hx.sound hx.clean.tmps).1⟩
      | op c0 op =>
        simp only [World.step]
        split
        · exact ⟨rfl, rfl, rfl⟩
        · next cx hcx =>
          have hx := hw.2 c0 cx hcx
          have hcl := (stepCtx_clean _ _ cx op hw.1 hx.clean).1
          have hso := stepCtx_sound _ _ cx op hw.1 hx.sound
          cases op with
          | call fname args =>
            simp only [stepCtx] at hcl hso ⊢
            exact ⟨top0 _ hcl, hcl.base, hso.inv.1.nofault⟩
          | calls fname texts =>
            simp only [stepCtx] at hcl hso ⊢
            exact ⟨top0 _ hcl, hcl.base, hso.inv.1.nofault⟩
          | loop =>
            simp only [stepCtx] at hcl hso ⊢
            exact ⟨top0 _ hcl, hcl.base, hso.inv.1.nofault⟩
          | exec =>
            simp only [stepCtx] at hcl hso ⊢
            exact ⟨top0 _ hcl, hcl.base, hso.inv.1.nofault⟩
          | setgbl n a =>
            simp only [stepCtx] at hcl hso ⊢
            split
            · exact ⟨rfl, rfl, rfl⟩
            · next hn =>
              simp only [hn, ↓reduceIte] at hcl hso
              exact ⟨top0 _ hcl, hcl.base, hso.inv.1.nofault⟩
          | getgbl n =>
            simp only [stepCtx]
            split
            · exact ⟨rfl, rfl, rfl⟩
            · exact ⟨top0 _ hx.clean, hx.clean.base, hx.sound.inv.1.nofault⟩
          | halt => exact ⟨top0 cx hx.clean, hx.clean.base, hx.sound.inv.1.nofault⟩
          | mkstr h s => simp only [stepCtx]; split <;> exact ⟨rfl, rfl, rfl⟩
          | mkmap h => simp only [stepCtx]; split <;> exact ⟨rfl, rfl, rfl⟩
          | drop h => simp only [stepCtx]; split <;> exact ⟨rfl, rfl, rfl⟩
          | showh h => simp only [stepCtx]; split <;> (try split) <;> exact ⟨rfl, rfl, rfl⟩
    · exact ih _ (step_ok w o hw) x hx

/-! ## 6. the explicit stack budget is the context's own `HAWK_RTX_STACK_AVAIL` -/

/-- `runBody` carries the free stack space as an explicit argument (that is what makes it a total
    function: the C recursion is bounded by `rtx_stack_limit` in the same way).  Entering a frame
    reduces `HAWK_RTX_STACK_AVAIL` of the context by exactly what `runBody` subtracts ... -/
theorem avail_enter (c : Ctx) (f : Fun) (args : List Expr) (nl : Nat) (h : args.length ≤ f.nargs) :
    (pushNils (enterCall c f args) nl).avail = c.avail - stackReq f args.length - nl := by
  have hs := skel_enterCall c f args nl h
  have hl : (pushNils (enterCall c f args) nl).stack.length = c.stack.length + 4 + (f.nargs + nl) := by
    have := congrArg (fun s => s.stack.length) hs
    simp [frameSkel_stack] at this
    omega
  have ho : (pushNils (enterCall c f args) nl).offset = c.offset := by
    have := congrArg Skel.offset hs; simpa [Ctx.skel, frameSkel] using this
  unfold Ctx.avail stackReq
  rw [hl, ho]
  have : max args.length f.nargs = f.nargs := Nat.max_eq_right h
  omega

/-- ... and a body hands the context back with the stack height it found, so the budget passed on
    to the rest of the calling body is again the context's own free space: by induction every
    HAWK_ESTACK decision of `runBody p c.avail c ..` is the one the C code takes from `stack_top` -/
theorem avail_after (p : Prog) (k : Cache) (hk : Consistent p k) (avail : Nat) (c : Ctx) (body : List Action) :
    (runBody p avail c k body).2.1.avail = c.avail := by
  have hs := runBody_skel p avail c k body hk
  have hl := skel_stack_len hs
  have ho : (runBody p avail c k body).2.1.offset = c.offset := by
    have := congrArg Skel.offset hs; simpa [Ctx.skel] using this
  unfold Ctx.avail
  rw [hl, ho]

/-! ## 7. reset and reuse of the interpreter -/

/-- `hawk_clear` followed by `hawk_parse` of program `p` — on an interpreter with any past (any
    earlier program, any cache contents) whose contexts have all been closed — gives a world that is
    the freshly created interpreter that parsed `p`: every later history is observed identically -/
theorem clear_then_parse_eq_fresh (w : World) (hclosed : ∀ cid, w.ctxs cid = none) (p : Prog) (h : List WOp) :
    ({ w with interp := w.interp.clear.parse p } : World).run h = (World.init p).run h := by
  have : ({ w with interp := w.interp.clear.parse p } : World) = World.init p := by
    have hc : w.ctxs = fun _ => none := funext hclosed
    cases w with
    | mk interp ctxs =>
      simp only at hc
      subst hc
      rfl
  rw [this]

/-- `hawk_parse` alone clears first, so it has the same effect -/
theorem parse_eq_fresh (w : World) (hclosed : ∀ cid, w.ctxs cid = none) (p : Prog) (h : List WOp) :
    ({ w with interp := w.interp.parse p } : World).run h = (World.init p).run h :=
  clear_then_parse_eq_fresh w hclosed p h

/-- after a reset nothing of the earlier program is left: no function, no global, no cached pointer -/
theorem clear_forgets (i : Interp) : i.clear.prog.funs = [] ∧ i.clear.prog.ng = 0 ∧ ∀ s, i.clear.cache s = none :=
  ⟨rfl, rfl, fun _ => rfl⟩

/-! ## non-vacuity -/

/-- the hypotheses of `usable_after_failed_call` are satisfiable: a fresh context of any program is
    clean, sound and at exit level NONE, and a call of an unknown function fails on it -/
example (p : Prog) : Clean (Ctx.fresh p 0) ∧ Sound (Ctx.fresh p 0) ∧ (Ctx.fresh p 0).exitLevel = xlNone :=
  ⟨fresh_clean p 0, fresh_sound p 0, rfl⟩

example : (stepCtx {} Cache.empty (Ctx.fresh {} 0) (.call "nosuch" [])).2.2.failed = true := by
  simp [stepCtx, mkArgs, callByName, Prog.lookup, Ctx.snapIO, Ctx.snap]

/-- a world with two open contexts is reachable and satisfies the invariant -/
example (p : Prog) : WorldOK ((World.init p).run [.open 0, .open 1, .op 0 .halt, .op 1 (.mkstr 0 "a")]).1 :=
  reachable_ok p _

/-- the hypothesis of `clear_then_parse_eq_fresh` holds after every context has been closed -/
example (p : Prog) : ∀ cid, ((World.init p).run [.open 0, .close 0]).1.ctxs cid = none := by
  intro cid
  simp [World.run, World.step, World.init, World.setCtx, Interp.parse, Interp.clear]

end Hawk.Ctx
