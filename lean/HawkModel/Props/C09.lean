import HawkModel.CtxRc
import HawkModel.CtxExit
import HawkModel.CtxApiLemmas
/-!
# C09 — Runtime contexts are isolated and the embedding API keeps its ownership contract

Property theorems only (helpers: `CtxLemmas`, `CtxRc`, `CtxExit`).  Model: `HawkModel/Ctx.lean`
— the state machine of one interpreter (`Interp`: parsed program + the call-site function cache,
the only interpreter-level field written at run time) and its runtime contexts (`Ctx`: value heap
with reference counts, the flat run-time stack with its frames, `stack_base`, `exit_level`, error
number, rio chain and files, console, input, `$0`, `NR`, and the references the embedding
application holds), driven by API operations (`open`, `call`, `loop`, `exec`, `setgbl`, `getgbl`,
`halt`, handle operations, `close`, `clear`, `parse`).

All statements quantify over every abstract program, every context state satisfying the stated
invariant (which `reachable_ok` shows every reachable state satisfies) and every operation /
history.  Interleaving is at API-call granularity; thread-level concurrency is not modelled.
-/
namespace Hawk.Ctx

/-! ## 1. the shared call-site cache -/

/-- what a call site resolves to is a function of the program alone, whatever (consistent) cache
    content it finds — so a write by another context cannot change any observation -/
theorem cache_value_determined (p : Prog) (k : Cache) (hk : Consistent p k) (site : Nat) :
    (resolve p k site).2 = p.lookup (p.siteName site) ∧ Consistent p (resolve p k site).1 :=
  ⟨resolve_snd hk site, resolve_consistent hk site⟩

/-- resolving a call site a second time (by the same or by another context) neither changes the
    cache nor the answer: the write `call->u.fun.fun = fun` is idempotent -/
theorem cache_write_idempotent (p : Prog) (k : Cache) (site : Nat) :
    resolve p (resolve p k site).1 site = ((resolve p k site).1, (resolve p k site).2) := by
  unfold resolve
  cases hk : k site with
  | some fid => simp [hk]
  | none =>
    cases hl : p.lookup (p.siteName site) with
    | none => simp [hk, hl]
    | some fid => simp [Cache.set]

/-- every operation on a context leaves the shared cache consistent with the program, and the
    context's new state and its observation do not depend on which consistent cache it started from:
    the cache is the only shared state and it carries no information -/
theorem op_touches_only_own_ctx_and_cache (p : Prog) (k₁ k₂ : Cache) (hk₁ : Consistent p k₁) (hk₂ : Consistent p k₂)
    (c : Ctx) (op : Op) :
    (stepCtx p k₁ c op).1 = (stepCtx p k₂ c op).1 ∧ (stepCtx p k₁ c op).2.2 = (stepCtx p k₂ c op).2.2 ∧
    Consistent p (stepCtx p k₁ c op).2.1 :=
  ⟨(stepCtx_nc hk₁ hk₂ c op).1, (stepCtx_nc hk₁ hk₂ c op).2, stepCtx_consistent p k₁ c op hk₁⟩

/-- an operation on one context does not touch any other context -/
theorem other_contexts_untouched (w : World) (o : WOp) (cid : Nat) (h : o.cid ≠ cid) :
    (w.step o).1.ctxs cid = w.ctxs cid := step_other w o cid h

/-! ## 2. non-interference -/

/-- for any interleaving `h` of API operations on any number of contexts of one interpreter, the
    observation sequence of context `cid` (return values, reference counts, argument values,
    error number, exit level, stack height, open streams, NR, console output, file contents) is
    the one obtained by running only `cid`'s own operations on a fresh interpreter -/
theorem noninterference (p : Prog) (h : List WOp) (cid : Nat) :
    obsOf cid ((World.init p).run h).2 =
    obsOf cid ((World.init p).run (h.filter (fun o => o.cid == cid))).2 := by
  apply run_isolated
  exact ⟨rfl, consistent_empty p, consistent_empty p, rfl⟩

/-- the same for two arbitrary interleavings that contain the same operations of `cid` in the same order -/
theorem noninterference_two_schedules (p : Prog) (h₁ h₂ : List WOp) (cid : Nat)
    (hsame : h₁.filter (fun o => o.cid == cid) = h₂.filter (fun o => o.cid == cid)) :
    obsOf cid ((World.init p).run h₁).2 = obsOf cid ((World.init p).run h₂).2 := by
  rw [noninterference p h₁ cid, noninterference p h₂ cid, hsame]

/-! ## 3. reachable states -/

/-- the invariant of a context between API calls -/
structure CtxOK (c : Ctx) : Prop where
  clean : Clean c          -- only the globals on the stack, base 0, no temporaries outstanding
  sound : Sound c          -- every reference count is exact, no fault

def WorldOK (w : World) : Prop :=
  Consistent w.interp.prog w.interp.cache ∧ ∀ cid c, w.ctxs cid = some c → CtxOK c

theorem step_ok (w : World) (o : WOp) (h : WorldOK w) : WorldOK (w.step o).1 := by
  refine ⟨by rw [step_prog]; exact step_consistent w o h.1, ?_⟩
  intro cid c hc
  cases o with
  | «open» c0 =>
    simp only [World.step] at hc
    split at hc
    · exact h.2 cid c hc
    · simp only [World.setCtx] at hc
      split at hc
      · cases hc; exact ⟨fresh_clean _ _, fresh_sound _ _⟩
      · exact h.2 cid c hc
  | close c0 =>
    simp only [World.step] at hc
    split at hc
    · exact h.2 cid c hc
    · simp only [World.setCtx] at hc
      split at hc
      · cases hc
      · exact h.2 cid c hc
  | op c0 op =>
    simp only [World.step] at hc
    split at hc
    · exact h.2 cid c hc
    · next cx hcx =>
      simp only [World.setCtx] at hc
      split at hc
      · cases hc
        have hx := h.2 c0 cx hcx
        exact ⟨(stepCtx_clean _ _ cx op h.1 hx.clean).1, stepCtx_sound _ _ cx op h.1 hx.sound⟩
      · exact h.2 cid c hc

theorem run_ok (ops : List WOp) : ∀ (w : World), WorldOK w → WorldOK (w.run ops).1 := by
  induction ops with
  | nil => intro w h; exact h
  | cons o os ih => intro w h; simp only [World.run]; exact ih _ (step_ok w o h)

/-- every state reachable from a freshly parsed interpreter by any history satisfies the invariant -/
theorem reachable_ok (p : Prog) (h : List WOp) : WorldOK ((World.init p).run h).1 :=
  run_ok h _ ⟨consistent_empty p, fun cid c hc => by simp [World.init, Interp.parse, Interp.clear] at hc⟩

/-! ## 4. a context stays usable after a failed call -/

/-- the stack is restored on every path of every operation: between API calls only the globals
    are on the stack (`stack_top` = number of globals) and `stack_base` is 0 -/
theorem stack_restored (p : Prog) (k : Cache) (hk : Consistent p k) (c : Ctx) (hc : Clean c) (op : Op) :
    let c' := (stepCtx p k c op).1
    c'.stack.length = c'.ng ∧ c'.base = 0 ∧ c'.tmps = [] := by
  have h := (stepCtx_clean p k c op hk hc).1
  refine ⟨?_, h.base, h.tmps⟩
  have := congrArg List.length h.stack
  simpa using this

/-- a call that fails (run-time error, stack exhaustion at any depth, unknown function, too many
    arguments, a by-reference copy-back rejected after the callee already executed `return`) on a context that has not exited leaves `exit_level` at NONE, the stack restored, the
    application's handles untouched and every reference count exact: the context differs from the
    one before the call only by the documented effects of the statements that did run (globals,
    streams, records, the sticky error number), so the next call is admitted and behaves as if the
    failed one had never been made on a context with those effects. -/
theorem usable_after_failed_call (p : Prog) (k : Cache) (hk : Consistent p k) (c : Ctx)
    (hc : Clean c) (hs : Sound c) (hx : c.exitLevel = xlNone) (fname : String) (args : List Arg)
    (hf : (stepCtx p k c (.call fname args)).2.2.failed = true) :
    let c' := (stepCtx p k c (.call fname args)).1
    Clean c' ∧ Sound c' ∧ c'.exitLevel = xlNone ∧ c'.core = c.core ∧ c'.handles.length = c.handles.length := by
  refine ⟨(stepCtx_clean p k c _ hk hc).1, stepCtx_sound p k c _ hk hs,
          stepCtx_call_failed_xl p k c fname args hk hx hf, ?_, ?_⟩
  · have h1 := (stepCtx_clean p k c (.call fname args) hk hc).1
    simp only [Ctx.core]
    have hng : (stepCtx p k c (.call fname args)).1.ng = c.ng ∧ (stepCtx p k c (.call fname args)).1.offset = c.offset := by
      simp only [stepCtx]
      have e1 := core_mkArgs c args
      generalize mkArgs c args = r1 at e1
      obtain ⟨c1, vs⟩ := r1
      have e2 := core_of_skel (skel_callByName p c1 k fname vs hk).1
      generalize callByName p c1 k fname vs = r2 at e2
      obtain ⟨c2, k1, r⟩ := r2
      simp only at e1 e2 ⊢
      cases r with
      | none =>
        have e3 := (core_dropTmps c2 c2.tmps).1
        have := e3.trans (e2.trans e1)
        simp only [Ctx.core, Prod.mk.injEq] at this
        exact ⟨this.2.2.1, this.2.2.2⟩
      | some v =>
        have e3 := (core_dropTmps (c2.refdown v) (c2.refdown v).tmps).1
        have e4 : (c2.refdown v).core = c2.core := rfl
        have := e3.trans (e4.trans (e2.trans e1))
        simp only [Ctx.core, Prod.mk.injEq] at this
        exact ⟨this.2.2.1, this.2.2.2⟩
    rw [h1.stack, hc.stack, h1.base, hc.base, hng.1, hng.2]
  · rw [(stepCtx_sound p k c _ hk hs).hlen, hs.hlen]

/-- `exit` and `hawk_rtx_halt` are the documented exceptions: once the exit level is GLOBAL or ABORT
    every further call is refused with EPERM and changes nothing else ... -/
theorem latched_call_refused (p : Prog) (c : Ctx) (k : Cache) (f : Fun) (args : List Val)
    (h : xlGlobal ≤ c.exitLevel) : callFun p c k f args = (c.setErr .eperm, k, none) := by
  unfold callFun; simp [h]

/-- ... until `hawk_rtx_loop` runs, which always ends with the exit level reset -/
theorem loop_unlatches (p : Prog) (c : Ctx) (k : Cache) : (loop p c k).1.exitLevel = xlNone := by
  unfold loop
  simp only
  split
  · rfl
  · rfl

/-! ## 5. ownership -/

/-- for every operation — in particular `call`, on its success, failure and exit paths, with
    by-reference and map arguments — once the caller has dropped the result once (and its own
    temporaries), every reference count equals the number of references that exist, nothing is
    in flight, no count was dropped below zero or touched after being freed (`fault`), and the
    application's handle table is as large as before: the ledger is balanced -/
theorem ownership_balanced (p : Prog) (k : Cache) (hk : Consistent p k) (c : Ctx) (hs : Sound c) (op : Op) :
    let r := stepCtx p k c op
    (∀ id, r.1.heap.rc id = r.1.refs id) ∧ r.1.heap.fault = false ∧ r.1.handles.length = c.handles.length := by
  have h := stepCtx_sound p k c op hk hs
  refine ⟨fun id => by simpa [occL] using h.inv.2 id, h.inv.1.nofault, by rw [h.hlen, hs.hlen]⟩

/-- a `call` leaves the application's handles exactly as they were: arguments are left to the caller
    (the patched `push_arg_from_vals` never writes to the caller's array) -/
theorem call_leaves_arguments (p : Prog) (k : Cache) (hk : Consistent p k) (c : Ctx) (fname : String) (args : List Arg) :
    (stepCtx p k c (.call fname args)).1.handles = c.handles := by
  simp only [stepCtx]
  have h1 : (mkArgs c args).1.handles = c.handles := by
    have : ∀ (as : List Arg) (c : Ctx), (mkArgs c as).1.handles = c.handles := by
      intro as
      induction as with
      | nil => intro c; rfl
      | cons a as ih =>
        intro c
        cases a with
        | nil => simp only [mkArgs]; exact ih c
        | hnd k => simp only [mkArgs]; exact ih c
        | tmp s => simp only [mkArgs]; rw [ih]; rfl
    exact this args c
  generalize mkArgs c args = r1 at h1
  obtain ⟨c1, vs⟩ := r1
  have h2 := handles_of_skel (skel_callByName p c1 k fname vs hk).1
  generalize callByName p c1 k fname vs = r2 at h2
  obtain ⟨c2, k1, r⟩ := r2
  simp only at h1 h2 ⊢
  cases r with
  | none => rw [handles_dropTmps]; exact h2.trans h1
  | some v => rw [handles_dropTmps]; exact h2.trans h1

/-- no dangling reference: whatever a sound context or the application refers to is live, with
    exactly the count of those references -/
theorem no_dangling (c : Ctx) (hs : Sound c) (j : Nat) (h : 1 ≤ c.refs j) :
    ∃ cell, c.heap.cells j = some cell ∧ cell.rc = c.refs j := by
  have e := hs.inv.2 j
  simp only [occL, Nat.add_zero] at e
  obtain ⟨cell, h1, h2⟩ := live_of_rc (h := c.heap) (j := j) (by omega)
  exact ⟨cell, h1, by omega⟩

/-- nothing leaks: when the application has dropped its handles and the context is closed, the
    heap is empty and no count ever went wrong -/
theorem close_releases_all (c : Ctx) (hc : Clean c) (hs : Sound c) :
    (releaseAll c).heap.fault = false ∧ ∀ id, (releaseAll c).heap.cells id = none :=
  releaseAll_empty hs hc.tmps

/-- consequently the model never predicts a FAULT flag, a non-zero stack height or base in any
    observation of any reachable history (these are the lines the C harness must reproduce) -/
theorem observations_clean (ops : List WOp) : ∀ (w : World), WorldOK w →
    ∀ x, x ∈ (w.run ops).2 → x.2.top = 0 ∧ x.2.base = 0 ∧ x.2.fault = false := by
  induction ops with
  | nil => intro w _ x hx; simp [World.run] at hx
  | cons o os ih =>
    intro w hw x hx
    simp only [World.run, List.mem_cons] at hx
    rcases hx with rfl | hx
    · simp only
      have top0 : ∀ c : Ctx, Clean c → c.stack.length - c.ng = 0 := by
        intro c hc
        have := congrArg List.length hc.stack
        simp at this; omega
      cases o with
      | «open» c0 =>
        simp only [World.step]
        split
        · exact ⟨rfl, rfl, rfl⟩
        · have hc := fresh_clean w.interp.prog c0
          exact ⟨top0 _ hc, hc.base, rfl⟩
      | close c0 =>
        simp only [World.step]
        split
        · exact ⟨rfl, rfl, rfl⟩
        · next cx hcx =>
          have hx := hw.2 c0 cx hcx
          exact ⟨rfl, rfl, (releaseAll_empty hx.sound hx.clean.tmps).1⟩
      | op c0 op =>
        simp only [World.step]
        split
        · exact ⟨rfl, rfl, rfl⟩
        · next cx hcx =>
          have hx := hw.2 c0 cx hcx
          have hcl := (stepCtx_clean _ _ cx op hw.1 hx.clean).1
          have hso := stepCtx_sound _ _ cx op hw.1 hx.sound
          cases op with
          | call fname args =>
            simp only [stepCtx] at hcl hso ⊢
            exact ⟨top0 _ hcl, hcl.base, hso.inv.1.nofault⟩
          | calls fname texts =>
            simp only [stepCtx] at hcl hso ⊢
            exact ⟨top0 _ hcl, hcl.base, hso.inv.1.nofault⟩
          | loop =>
            simp only [stepCtx] at hcl hso ⊢
            exact ⟨top0 _ hcl, hcl.base, hso.inv.1.nofault⟩
          | exec =>
            simp only [stepCtx] at hcl hso ⊢
            exact ⟨top0 _ hcl, hcl.base, hso.inv.1.nofault⟩
          | setgbl n a =>
            simp only [stepCtx] at hcl hso ⊢
            split
            · exact ⟨rfl, rfl, rfl⟩
            · next hn =>
              simp only [hn, ↓reduceIte] at hcl hso
              exact ⟨top0 _ hcl, hcl.base, hso.inv.1.nofault⟩
          | getgbl n =>
            simp only [stepCtx]
            split
            · exact ⟨rfl, rfl, rfl⟩
            · exact ⟨top0 _ hx.clean, hx.clean.base, hx.sound.inv.1.nofault⟩
          | halt => exact ⟨top0 cx hx.clean, hx.clean.base, hx.sound.inv.1.nofault⟩
          | mkstr h s => simp only [stepCtx]; split <;> exact ⟨rfl, rfl, rfl⟩
          | mkmap h => simp only [stepCtx]; split <;> exact ⟨rfl, rfl, rfl⟩
          | drop h => simp only [stepCtx]; split <;> exact ⟨rfl, rfl, rfl⟩
          | showh h => simp only [stepCtx]; split <;> (try split) <;> exact ⟨rfl, rfl, rfl⟩
    · exact ih _ (step_ok w o hw) x hx

/-! ## 6. the explicit stack budget is the context's own `HAWK_RTX_STACK_AVAIL` -/

/-- `runBody` carries the free stack space as an explicit argument (that is what makes it a total
    function: the C recursion is bounded by `rtx_stack_limit` in the same way).  Entering a frame
    reduces `HAWK_RTX_STACK_AVAIL` of the context by exactly what `runBody` subtracts ... -/
theorem avail_enter (c : Ctx) (f : Fun) (args : List Expr) (nl : Nat) (h : args.length ≤ f.nargs) :
    (pushNils (enterCall c f args) nl).avail = c.avail - stackReq f args.length - nl := by
  have hs := skel_enterCall c f args nl h
  have hl : (pushNils (enterCall c f args) nl).stack.length = c.stack.length + 4 + (f.nargs + nl) := by
    have := congrArg (fun s => s.stack.length) hs
    simp [frameSkel_stack] at this
    omega
  have ho : (pushNils (enterCall c f args) nl).offset = c.offset := by
    have := congrArg Skel.offset hs; simpa [Ctx.skel, frameSkel] using this
  unfold Ctx.avail stackReq
  rw [hl, ho]
  have : max args.length f.nargs = f.nargs := Nat.max_eq_right h
  omega

/-- ... and a body hands the context back with the stack height it found, so the budget passed on
    to the rest of the calling body is again the context's own free space: by induction every
    HAWK_ESTACK decision of `runBody p c.avail c ..` is the one the C code takes from `stack_top` -/
theorem avail_after (p : Prog) (k : Cache) (hk : Consistent p k) (avail : Nat) (c : Ctx) (body : List Action) :
    (runBody p avail c k body).2.1.avail = c.avail := by
  have hs := runBody_skel p avail c k body hk
  have hl := skel_stack_len hs
  have ho : (runBody p avail c k body).2.1.offset = c.offset := by
    have := congrArg Skel.offset hs; simpa [Ctx.skel] using this
  unfold Ctx.avail
  rw [hl, ho]

/-! ## 7. reset and reuse of the interpreter -/

/-- `hawk_clear` followed by `hawk_parse` of program `p` — on an interpreter with any past (any
    earlier program, any cache contents) whose contexts have all been closed — gives a world that is
    the freshly created interpreter that parsed `p`: every later history is observed identically -/
theorem clear_then_parse_eq_fresh (w : World) (hclosed : ∀ cid, w.ctxs cid = none) (p : Prog) (h : List WOp) :
    ({ w with interp := w.interp.clear.parse p } : World).run h = (World.init p).run h := by
  have : ({ w with interp := w.interp.clear.parse p } : World) = World.init p := by
    have hc : w.ctxs = fun _ => none := funext hclosed
    cases w with
    | mk interp ctxs =>
      simp only at hc
      subst hc
      rfl
  rw [this]

/-- `hawk_parse` alone clears first, so it has the same effect -/
theorem parse_eq_fresh (w : World) (hclosed : ∀ cid, w.ctxs cid = none) (p : Prog) (h : List WOp) :
    ({ w with interp := w.interp.parse p } : World).run h = (World.init p).run h :=
  clear_then_parse_eq_fresh w hclosed p h

/-- after a reset nothing of the earlier program is left: no function, no global, no cached pointer -/
theorem clear_forgets (i : Interp) : i.clear.prog.funs = [] ∧ i.clear.prog.ng = 0 ∧ ∀ s, i.clear.cache s = none :=
  ⟨rfl, rfl, fun _ => rfl⟩

/-! ## non-vacuity -/

/-- the hypotheses of `usable_after_failed_call` are satisfiable: a fresh context of any program is
    clean, sound and at exit level NONE, and a call of an unknown function fails on it -/
example (p : Prog) : Clean (Ctx.fresh p 0) ∧ Sound (Ctx.fresh p 0) ∧ (Ctx.fresh p 0).exitLevel = xlNone :=
  ⟨fresh_clean p 0, fresh_sound p 0, rfl⟩

example : (stepCtx {} Cache.empty (Ctx.fresh {} 0) (.call "nosuch" [])).2.2.failed = true := by
  simp [stepCtx, mkArgs, callByName, Prog.lookup, Ctx.snapIO, Ctx.snap]

/-- a world with two open contexts is reachable and satisfies the invariant -/
example (p : Prog) : WorldOK ((World.init p).run [.open 0, .open 1, .op 0 .halt, .op 1 (.mkstr 0 "a")]).1 :=
  reachable_ok p _

/-- the hypothesis of `clear_then_parse_eq_fresh` holds after every context has been closed -/
example (p : Prog) : ∀ cid, ((World.init p).run [.open 0, .close 0]).1.ctxs cid = none := by
  intro cid
  simp [World.run, World.step, World.init, World.setCtx, Interp.parse, Interp.clear]

end Hawk.Ctx

/-!
## 8. several `hawk_t`: the object level of the embedding API (model: `HawkModel/CtxApi.lean`)

A world is any number of `hawk_t` objects, each with its runtimes.  One API call is `World.step`; by construction
it reads and writes only the `hawk_t` it is made on (`stepHawk`), which is what the correspondence harness
`harness/ctxapi_h.c` checks on the real code with one counting memory manager per `hawk_t`.
-/
namespace Hawk.CtxApi

/-! ### non-interference and commutation -/

/-- a call on one `hawk_t` leaves every other `hawk_t` (with all its runtimes) exactly as it was -/
theorem api_other_hawk_untouched (w : World) (o : Op) (j : Nat) (h : o.hawk ≠ j) : (w.step o).1 j = w j :=
  World.set_other w _ h

/-- the result of a call and the new state of its `hawk_t` depend on that `hawk_t` alone -/
theorem api_step_local (w w' : World) (o : Op) (h : w o.hawk = w' o.hawk) :
    (w.step o).2 = (w'.step o).2 ∧ (w.step o).1 o.hawk = (w'.step o).1 o.hawk := by
  simp [World.step, h]

/-- calls on different `hawk_t` commute: same final world, and each call returns what it returns alone -/
theorem api_commute (w : World) (a b : Op) (h : a.hawk ≠ b.hawk) :
    ((w.step a).1.step b).1 = ((w.step b).1.step a).1 ∧
    ((w.step a).1.step b).2 = (w.step b).2 ∧ ((w.step b).1.step a).2 = (w.step a).2 := by
  have hab : (w.step a).1 b.hawk = w b.hawk := api_other_hawk_untouched w a _ h
  have hba : (w.step b).1 a.hawk = w a.hawk := api_other_hawk_untouched w b _ (Ne.symm h)
  refine ⟨?_, (api_step_local _ _ b hab).1, (api_step_local _ _ a hba).1⟩
  funext j
  by_cases hja : j = a.hawk
  · subst hja
    rw [api_other_hawk_untouched _ b _ (Ne.symm h)]
    exact ((api_step_local _ _ a hba).2).symm
  · by_cases hjb : j = b.hawk
    · subst hjb
      rw [api_other_hawk_untouched ((w.step b).1) a _ h]
      exact (api_step_local _ _ b hab).2
    · rw [api_other_hawk_untouched _ b _ (Ne.symm hjb), api_other_hawk_untouched _ a _ (Ne.symm hja),
          api_other_hawk_untouched _ a _ (Ne.symm hja), api_other_hawk_untouched _ b _ (Ne.symm hjb)]

/-- what is observable of `hawk_t` number `i` along a history: for each call made on `i`, its result (return
    text, callback events) and the whole state of `i` afterwards (from which `dumpHawk` prints the harness line) -/
def World.trace (w : World) (i : Nat) : List Op → List (Res × Option HawkS)
  | [] => []
  | o :: os =>
    if o.hawk = i then ((w.step o).2, (w.step o).1 i) :: (w.step o).1.trace i os else (w.step o).1.trace i os

theorem api_trace_congr (i : Nat) (ops : List Op) : ∀ w w' : World, w i = w' i → w.trace i ops = w'.trace i ops := by
  induction ops with
  | nil => intro w w' _; rfl
  | cons o os ih =>
    intro w w' h
    simp only [World.trace]
    by_cases ho : o.hawk = i
    · have hl := api_step_local w w' o (by rw [ho]; exact h)
      have h2 : (w.step o).1 i = (w'.step o).1 i := by have := hl.2; rw [ho] at this; exact this
      rw [if_pos ho, if_pos ho, hl.1, h2, ih _ _ h2]
    · rw [if_neg ho, if_neg ho]
      exact ih _ _ (by rw [api_other_hawk_untouched w o i ho, api_other_hawk_untouched w' o i ho]; exact h)

/-- non-interference over any number of `hawk_t`: for every interleaving, what is observable of `hawk_t` `i`
    is what the history's projection on `i` (its own calls alone, in order) produces -/
theorem api_noninterference (i : Nat) (ops : List Op) : ∀ w : World,
    w.trace i ops = w.trace i (ops.filter (fun o => o.hawk == i)) := by
  induction ops with
  | nil => intro w; rfl
  | cons o os ih =>
    intro w
    by_cases ho : o.hawk = i
    · have e : (o :: os).filter (fun o => o.hawk == i) = o :: os.filter (fun o => o.hawk == i) :=
        List.filter_cons_of_pos (by simpa using ho)
      rw [e]; simp only [World.trace, if_pos ho]; rw [ih]
    · have e : (o :: os).filter (fun o => o.hawk == i) = os.filter (fun o => o.hawk == i) :=
        List.filter_cons_of_neg (by simpa using ho)
      rw [e]; simp only [World.trace, if_neg ho]
      rw [ih, api_trace_congr i _ _ w (api_other_hawk_untouched w o i ho)]

/-- two interleavings with the same calls of `i` in the same order are indistinguishable on `i` -/
theorem api_noninterference_two_schedules (i : Nat) (h₁ h₂ : List Op) (w : World)
    (hsame : h₁.filter (fun o => o.hawk == i) = h₂.filter (fun o => o.hawk == i)) :
    w.trace i h₁ = w.trace i h₂ := by
  rw [api_noninterference i h₁ w, api_noninterference i h₂ w, hsame]

/-! ### inside one `hawk_t`: runtimes are isolated from each other, error state is per object -/

/-- a call on runtime `r` leaves every sibling runtime (values, handles, error number, exit level, callback chain,
    extension area) and everything of the `hawk_t` but its error number exactly as it was -/
theorem api_rtx_call_siblings_untouched (w : World) (h r q : Nat) (op : ROp) (s : HawkS) (hs : w h = some s) (hq : q ≠ r) :
    ∃ s', (w.step (.rcall h r op)).1 h = some s' ∧ s'.rtxs q = s.rtxs q ∧ s'.frame = s.frame := by
  refine ⟨(stepRtxIn h r s op).1, ?_, stepRtxIn_sibling h r q s op hq, stepRtxIn_frame h r s op⟩
  simp [World.step, Op.hawk, stepHawk, hs]

/-- the error number of the `hawk_t` after a call on one of its runtimes: `hawk_rtx_open` clears it; a call that
    looks a function up by name and misses stores ENOENT there (the one place where a runtime call writes the
    interpreter's error number: `res.herr`); every other runtime call leaves it alone -/
theorem api_rtx_call_hawk_err (w : World) (h r : Nat) (op : ROp) (s : HawkS) (hs : w h = some s) :
    ∃ s', (w.step (.rcall h r op)).1 h = some s' ∧
      s'.err = match s.rtxs r, op with
               | none, .«open» => .noerr
               | none, _ => s.err
               | some _, _ => ((w.step (.rcall h r op)).2.herr).getD s.err := by
  refine ⟨(stepRtxIn h r s op).1, by simp [World.step, Op.hawk, stepHawk, hs], ?_⟩
  have e : (w.step (.rcall h r op)).2 = (stepRtxIn h r s op).2 := by simp [World.step, Op.hawk, stepHawk, hs]
  rw [e]
  exact stepRtxIn_err h r s op

/-- only a function call writes the interpreter's error number, and only with ENOENT -/
theorem api_herr_only_lookup (tag : String) (v : View) (x : Rtx) (op : ROp) :
    (stepR tag v x op).2.herr = none ∨ ((stepR tag v x op).2.herr = some .enoent ∧ ∃ f a, op = .call f a) := by
  cases op with
  | call f a =>
    simp only [stepR]
    unfold stepCall
    repeat' split
    all_goals first | (left; rfl) | (right; exact ⟨rfl, f, a, rfl⟩)
  | loop => left; simp only [stepR]; unfold stepLoop; (repeat' split) <;> rfl
  | _ => left; simp only [stepR]; all_goals ((repeat' split) <;> rfl)

/-- a call on the `hawk_t` itself (options, callbacks, globals, functions, error number, halt-all, clear, parse)
    never touches the state of a runtime -/
theorem api_hawk_call_runtimes_untouched (w : World) (h : Nat) (op : HOp) (s s' : HawkS) (hs : w h = some s)
    (hs' : (w.step (.hcall h op)).1 h = some s') : s'.rtxs = s.rtxs := by
  simp [World.step, Op.hawk, stepHawk, hs] at hs'
  exact stepH_rtxs h s s' op hs'

/-! ### halting -/

/-- `hawk_rtx_halt` stops its own runtime only: the siblings and the halt-all flag are untouched -/
theorem api_halt_one (w : World) (h r : Nat) (s : HawkS) (x : Rtx) (hs : w h = some s) (hx : s.rtxs r = some x) :
    ∃ s', (w.step (.rcall h r .halt)).1 h = some s' ∧ (∃ x', s'.rtxs r = some x' ∧ x'.xl = 6) ∧
      (∀ q, q ≠ r → s'.rtxs q = s.rtxs q) ∧ s'.haltall = s.haltall := by
  refine ⟨(stepRtxIn h r s .halt).1, by simp [World.step, Op.hawk, stepHawk, hs], ?_, fun q hq => stepRtxIn_sibling h r q s .halt hq, ?_⟩
  · simp [stepRtxIn, hx, stepR]
  · have := stepRtxIn_frame h r s .halt
    exact congrArg Frame.haltall this

/-- `hawk_haltall` reaches every runtime of its `hawk_t` (they all read the flag) and no other `hawk_t` -/
theorem api_haltall_reaches_every_runtime (w : World) (h : Nat) (s : HawkS) (hs : w h = some s) :
    ∃ s', (w.step (.hcall h .haltall)).1 h = some s' ∧ s'.view.haltall = true ∧ s'.rtxs = s.rtxs ∧
      ∀ j, j ≠ h → (w.step (.hcall h .haltall)).1 j = w j := by
  refine ⟨{ s with haltall := true }, by simp [World.step, Op.hawk, stepHawk, hs, stepH], rfl, rfl, ?_⟩
  intro j hj
  exact api_other_hawk_untouched w _ j (by simpa [Op.hawk] using Ne.symm hj)

/-- under halt-all every admitted function call ends with the runtime aborted and nothing else of it changed -/
theorem api_haltall_aborts (tag : String) (v : View) (r : Rtx) (f a : String) (p : Nat) (hp : v.prog = some p)
    (hf : f ∈ progFuns p) (hh : v.haltall = true) (hx : r.xl < 5) :
    (stepCall tag v r f a).1.xl = 6 ∧ (stepCall tag v r f a).1.heap = r.heap ∧
    (stepCall tag v r f a).1.g0 = r.g0 ∧ (stepCall tag v r f a).1.hnd = r.hnd := by
  unfold stepCall
  simp only [hp, hf, not_true_eq_false, if_false, Nat.not_le.mpr hx, hh, if_true]
  split <;> exact ⟨rfl, rfl, rfl, rfl⟩

/-- a runtime that exited or was halted refuses every further call with EPERM and changes nothing else ... -/
theorem api_latched_refused (tag : String) (v : View) (r : Rtx) (f a : String) (p : Nat) (hp : v.prog = some p)
    (hf : f ∈ progFuns p) (hx : 5 ≤ r.xl) :
    stepCall tag v r f a = ({ r with err := .eperm }, { out := "fail:EPERM" }) := by
  unfold stepCall
  simp [hp, hf, hx]

/-- ... until `hawk_rtx_loop`, which always ends with the exit level reset -/
theorem api_loop_unlatches (tag : String) (v : View) (r : Rtx) : (stepLoop tag v r).1.xl = 0 := by
  unfold stepLoop
  repeat' split
  all_goals rfl

/-! ### callbacks: exactly once, top first -/

/-- `hawk_close` runs the `clear` callback of every pushed set, top first, then the `close` callback of every
    pushed set, top first, and the object is gone -/
theorem api_hclose_callbacks (h : Nat) (s : HawkS) (hb : s.busy = false) :
    stepH h s .close =
      (none, { out := "ok", log := cbLog "hclear" (toString h) s.ecbs ++ cbLog "hclose" (toString h) s.ecbs }) := by
  simp [stepH, hb]

/-- `hawk_rtx_close` runs the `close` callback of every pushed runtime set, top first -/
theorem api_rclose_callbacks (tag : String) (v : View) (r : Rtx) :
    (stepR tag v r .close).1 = none ∧ (stepR tag v r .close).2.log = cbLog "rclose" tag r.ecbs := ⟨rfl, rfl⟩

/-- one event per set of the chain, in chain order -/
theorem api_cbLog_once (what tag : String) (ecbs : List Nat) :
    (cbLog what tag ecbs).length = ecbs.length ∧
    ∀ k (hk : k < ecbs.length), (cbLog what tag ecbs)[k]? = some (what ++ tag ++ ":" ++ toString ecbs[k]) := by
  refine ⟨by simp [cbLog], ?_⟩
  intro k hk
  simp [cbLog, hk]

/-- push puts a set on top, pop takes the top one off: the chain is the stack of pushed-and-not-popped sets -/
theorem api_ecb_stack (h : Nat) (s : HawkS) (e : Nat) (he : e < 4) (hn : e ∉ s.ecbs) :
    (stepH h s (.pushecb e)).1 = some { s with ecbs := e :: s.ecbs } ∧
    (stepH h { s with ecbs := e :: s.ecbs } .popecb).1 = some s := by
  constructor
  · simp [stepH, Nat.not_le.mpr he, hn]
  · simp [stepH]

/-! ### ledger: nothing of a closed object is touched, close is refused while runtimes exist -/

/-- a call on a `hawk_t` that is closed (or was never opened) changes nothing anywhere -/
theorem api_closed_hawk_untouched (w : World) (o : Op) (hn : w o.hawk = none) (hno : ∀ x, o ≠ .hopen x) :
    (w.step o).1 = w ∧ (w.step o).2.out = "nohawk" := by
  have key : stepHawk o.hawk none o = (none, { out := "nohawk" }) := by
    cases o with
    | hopen x => exact absurd rfl (hno x)
    | hcall x op => rfl
    | rcall x r op => rfl
  constructor
  · funext j
    simp only [World.step, hn, key]
    by_cases hj : j = o.hawk
    · subst hj; simp [hn]
    · exact World.set_other w _ (Ne.symm hj)
  · simp [World.step, hn, key]

/-- a call on a runtime that is closed changes nothing (only `hawk_rtx_open` may name it) -/
theorem api_closed_rtx_untouched (w : World) (h r : Nat) (s : HawkS) (hs : w h = some s) (hr : s.rtxs r = none)
    (op : ROp) (hop : op ≠ .«open») :
    (w.step (.rcall h r op)).1 = w ∧ (w.step (.rcall h r op)).2.out = "nortx" := by
  have key : stepRtxIn h r s op = (s, { out := "nortx" }) := by
    unfold stepRtxIn
    cases op <;> simp_all
  constructor
  · funext j
    simp only [World.step, Op.hawk, stepHawk, hs, key]
    by_cases hj : j = h
    · subst hj; simp [hs]
    · exact World.set_other w _ (Ne.symm hj)
  · simp [World.step, Op.hawk, stepHawk, hs, key]

/-- `hawk_close`, `hawk_clear` and `hawk_parse` are refused while a runtime of the `hawk_t` exists, so no runtime
    ever outlives its interpreter or its program -/
theorem api_refused_while_busy (h : Nat) (s : HawkS) (hb : s.busy = true) (p : Nat) :
    stepH h s .close = (some s, { out := "busy" }) ∧ stepH h s .clear = (some s, { out := "busy" }) ∧
    stepH h s (.parse p) = (some s, { out := "busy" }) := by
  simp [stepH, hb]

/-- after `hawk_close` the object does not exist any more -/
theorem api_hclose_removes (w : World) (h : Nat) (s : HawkS) (hs : w h = some s) (hb : s.busy = false) :
    (w.step (.hcall h .close)).1 h = none := by
  simp [World.step, Op.hawk, stepHawk, hs, stepH, hb]

/-! ### non-vacuity -/

/-- two interpreters with a runtime each are reachable; the hypotheses of the theorems above hold there -/
example : ∃ s, ((World.empty.run [.hopen 0, .hopen 1, .hcall 0 (.parse 0), .rcall 0 0 .open, .rcall 0 1 .open]).1 0) = some s ∧
    (∃ x, s.rtxs 0 = some x ∧ x.xl < 5) ∧ s.rtxs 2 = none ∧ s.busy = true ∧ s.view.prog = some 0 := by
  refine ⟨_, rfl, ⟨_, rfl, by decide⟩, rfl, rfl, rfl⟩

example : (World.empty.run [.hopen 0, .hcall 0 (.pushecb 1), .hcall 0 (.pushecb 3), .hcall 0 .close]).2.map (·.log) =
    [[], [], [], ["hclear0:3", "hclear0:1", "hclose0:3", "hclose0:1"]] := by
  rfl

example : "getg" ∈ progFuns 0 := by decide

end Hawk.CtxApi
