import HawkModel.Xma
import HawkModel.XmaLemmas
import HawkModel.XmaClass
import HawkModel.XmaLive
/-!
  C20 - "The zone allocator never corrupts or loses memory" (lib/xma.c, modelled in HawkModel/Xma.lean).

  Vocabulary
  * `WF s` (HawkModel/Xma.lean) is the bookkeeping invariant; `wf_meaning` spells it out without the recursive helpers:
    the blocks tile `[0, zone)`, every header starts at a multiple of ALIGN (so every block but the last of the zone has an
    aligned size; the zone may be a caller-supplied buffer of ANY size >= FBLKMINSIZE and keeps exactly that size: a block
    can never reach beyond the bytes the caller handed over), sizes are at least MINALLOCSIZE, every `prev_size` equals the size
    of the physical predecessor (0 for the first block), no two neighbours are both free, and chain `xfree[i]` holds - without
    duplicates - exactly the header offsets of the free blocks of class `i`.
  * `Live s o sz d`: an allocated block has its header at zone offset `o` (the user pointer is `o + HDR`), `sz` usable bytes
    and payload `d`; `live_meaning` spells it out.
  * `alloc`/`realloc`/`free` return `Except Err _`; `Err` stands for what is undefined behaviour in C (a pointer that is not
    a live block, a dangling free-list entry).  The `*_total` theorems show that no call on a well-formed state with a live
    pointer ever ends there.
  Every theorem is for all states/histories; `reachable_*` are by induction over arbitrary op lists from `initx z`/`init z`.
-/
namespace Hawk.Xma.C20
open Hawk.Xma

def Live (s : Xma) (o sz : Nat) (d : List Nat) : Prop := (o, sz, d) ∈ liveOffs 0 s.blks

instance (s : Xma) (o sz : Nat) (d : List Nat) : Decidable (Live s o sz d) := by unfold Live; infer_instance

/-- the states reachable from a fresh allocator over a zone of exactly `z` bytes (any `z` hawk_xma_init accepts, aligned
    or not) by any history of calls -/
def Reachable (z : Nat) (s : Xma) : Prop :=
  ∃ s0 ops, initx z = some s0 ∧ s = run s0 ops

/-! ## the invariant in plain terms -/

theorem wf_meaning {s : Xma} (h : WF s) :
    total s.blks = s.zone ∧
    (∀ p b q, s.blks = p ++ b :: q → total p % ALIGN = 0 ∧ MINALLOC ≤ b.size) ∧
    (∀ b, s.blks.head? = some b → b.prev = 0) ∧
    (∀ p a b q, s.blks = p ++ a :: b :: q → b.prev = a.size ∧ ¬(a.free = true ∧ b.free = true)) ∧
    (∀ i, (fl s.xfree i).Nodup) ∧
    (∀ i o, o ∈ fl s.xfree i ↔ ∃ p b q, s.blks = p ++ b :: q ∧ total p = o ∧ b.free = true ∧ getxfi b.size = i) := by
  refine ⟨h.tile, fun p b q e => by simpa using chainOK_sizes h.chain p b q e, ?_,
    fun p a b q e => chainOK_adjacent h.chain e, h.nodup, ?_⟩
  · intro b hb
    have := h.chain
    cases hl : s.blks with
    | nil => rw [hl] at hb; simp at hb
    | cons a l =>
      rw [hl] at hb this
      simp only [List.head?_cons, Option.some.injEq] at hb
      subst hb
      simp only [ChainOK] at this
      exact this.1
  · intro i o
    rw [h.mem]
    constructor
    · rintro ⟨sz, hm, hc⟩
      obtain ⟨p, b, q, e1, e2, e3, e4⟩ := freeOffs_mem_iff.1 hm
      exact ⟨p, b, q, e1, by omega, e3, by rw [e4]; exact hc⟩
    · rintro ⟨p, b, q, e1, e2, e3, e4⟩
      exact ⟨b.size, freeOffs_mem_iff.2 ⟨p, b, q, e1, by omega, e3, rfl⟩, e4⟩

theorem live_meaning {s : Xma} {o sz : Nat} {d : List Nat} :
    Live s o sz d ↔ ∃ p b q, s.blks = p ++ b :: q ∧ total p = o ∧ b.free = false ∧ b.size = sz ∧ b.data = d := by
  unfold Live
  rw [liveOffs_mem_iff]
  constructor
  · rintro ⟨p, b, q, e1, e2, e3⟩; exact ⟨p, b, q, e1, by omega, e3⟩
  · rintro ⟨p, b, q, e1, e2, e3⟩; exact ⟨p, b, q, e1, by omega, e3⟩

/-! ## the invariant holds initially and is preserved by every call -/

/-- hawk_xma_init over a caller-supplied zone of `z` bytes, for EVERY size it accepts (no alignment assumed): the zone
    the allocator works with has exactly `z` bytes - not one more - and is one free block, linked into its class chain -/
theorem init_wf {z : Nat} (hz2 : FBLKMIN ≤ z) :
    ∃ s, initx z = some s ∧ WF s ∧ s.zone = z ∧ s.blks = [{ size := z - HDR, free := true, prev := 0 }] :=
  initx_wf hz2

/-- a zone too small for one block is refused -/
theorem init_too_small {z : Nat} (hz : z < FBLKMIN) : initx z = none := by
  unfold initx; rw [if_pos hz]

/-- hawk_xma_init with zoneptr = NULL (the `hawk -m N` path): any requested size gives a well-formed allocator -/
theorem init_internal_wf (z : Nat) : ∃ s, init z = some s ∧ WF s ∧ s.zone = initSize z ∧ Reachable (initSize z) s := by
  obtain ⟨s, h1, h2, h3, _⟩ := initx_wf (initSize_ok z).2
  exact ⟨s, h1, h2, h3, s, [], h1, rfl⟩

theorem alloc_wf {s s' : Xma} {n : Nat} {r : Option Nat} (h : WF s) (ha : alloc s n = .ok (r, s')) : WF s' :=
  alloc_wf' h ha

theorem free_wf {s s' : Xma} {o : Nat} (h : WF s) (hf : free s o = .ok s') : WF s' :=
  free_wf' h hf

theorem realloc_wf {s s' : Xma} {o n : Nat} {r : Option Nat} (h : WF s) (hr : realloc s o n = .ok (r, s')) : WF s' :=
  realloc_wf' h hr

/-- every history of alloc/realloc/free (and user writes) keeps the bookkeeping consistent -/
theorem calloc_wf {s s' : Xma} {n : Nat} {r : Option Nat} (h : WF s) (hc : calloc s n = .ok (r, s')) : WF s' :=
  calloc_wf' h hc

/-- every history of alloc/calloc/realloc/free (and user writes) keeps the bookkeeping consistent -/
theorem reachable_wf {z : Nat} {s : Xma} (h : Reachable z s) : WF s := by
  obtain ⟨s0, ops, h0, rfl⟩ := h
  have hz2 : FBLKMIN ≤ z := by
    unfold initx at h0
    by_cases c : z < FBLKMIN
    · rw [if_pos c] at h0; simp at h0
    · omega
  obtain ⟨s1, e1, hw, _⟩ := initx_wf hz2
  rw [e1] at h0
  simp only [Option.some.injEq] at h0
  subst h0
  exact run_wf hw ops

theorem reachable_step {z : Nat} {s : Xma} (h : Reachable z s) (op : Op) : Reachable z (step s op) := by
  obtain ⟨s0, ops, h0, rfl⟩ := h
  exact ⟨s0, ops ++ [op], h0, by simp [run, List.foldl_append]⟩

/-- the allocator never changes its idea of the zone: after any history it is still the `z` bytes given to init -/
theorem reachable_zone {z : Nat} {s : Xma} (h : Reachable z s) : s.zone = z := by
  obtain ⟨s0, ops, h0, rfl⟩ := h
  rw [run_zone]
  unfold initx at h0
  by_cases c : z < FBLKMIN
  · rw [if_pos c] at h0; simp at h0
  · rw [if_neg c] at h0
    simp only [Option.some.injEq] at h0
    subst h0
    rfl

/-! ## no call on a consistent heap reads a dangling pointer -/

theorem alloc_total {s : Xma} (h : WF s) (n : Nat) : ∃ r s', alloc s n = .ok (r, s') :=
  Hawk.Xma.alloc_total h n

theorem free_total {s : Xma} {o sz : Nat} {d : List Nat} (hl : Live s o sz d) : ∃ s', free s o = .ok s' :=
  Hawk.Xma.free_total hl

theorem realloc_total {s : Xma} {o sz n : Nat} {d : List Nat} (h : WF s) (hl : Live s o sz d) :
    ∃ r s', realloc s o n = .ok (r, s') :=
  Hawk.Xma.realloc_total h hl

/-! ## returned blocks: aligned, inside the zone, disjoint -/

/-- in a consistent heap every live block is aligned (header and user pointer), lies inside the zone, ends at a multiple
    of ALIGN or exactly at the zone end, and the byte ranges (header included) of two different live blocks do not overlap -/
theorem live_aligned_inside_disjoint {s : Xma} (h : WF s) {o sz : Nat} {d : List Nat} (hl : Live s o sz d) :
    (o + HDR) % ALIGN = 0 ∧ MINALLOC ≤ sz ∧ o + HDR + sz ≤ s.zone ∧ (sz % ALIGN = 0 ∨ o + HDR + sz = s.zone) ∧
    ∀ o2 sz2 d2, Live s o2 sz2 d2 → o2 ≠ o → o + HDR + sz ≤ o2 ∨ o2 + HDR + sz2 ≤ o := by
  have f := wf_live_facts h hl
  refine ⟨?_, f.2.1, f.2.2.1, ?_, ?_⟩
  · have := f.1; simp only [ALIGN, HDR] at *; omega
  · rcases f.2.2.2 with e | e
    · left; have := f.1; simp only [ALIGN, HDR] at *; omega
    · exact Or.inr e
  · intro o2 sz2 d2 hl2 hne
    exact live_disjoint hl hl2 (fun e => hne e.symm)

/-- for every history over a zone of `z` bytes: a live block lies inside those `z` bytes -/
theorem reachable_inside {z : Nat} {s : Xma} (hr : Reachable z s) {o sz : Nat} {d : List Nat} (hl : Live s o sz d) :
    o + HDR + sz ≤ z := by
  have := (live_aligned_inside_disjoint (reachable_wf hr) hl).2.2.1
  rw [reachable_zone hr] at this
  exact this

/-- over a zone whose size is a multiple of ALIGN all live blocks have aligned sizes -/
theorem live_size_aligned {s : Xma} (h : WF s) (hz : s.zone % ALIGN = 0) {o sz : Nat} {d : List Nat} (hl : Live s o sz d) :
    sz % ALIGN = 0 := by
  have f := live_aligned_inside_disjoint h hl
  rcases f.2.2.2.1 with e | e
  · exact e
  · have := f.1; simp only [ALIGN, HDR] at *; omega

/-- hawk_xma_alloc returning a pointer: the block is fresh (no live block had this address), has at least the requested
    `n` bytes, and every block that was live is still live at the same address with the same size and contents
    (and nothing else is).  With `live_aligned_inside_disjoint` on `s'`: aligned, inside the zone, disjoint from all others. -/
theorem alloc_returns {s s' : Xma} {n o : Nat} (h : WF s) (hz : s.zone < WORD) (hn : n < WORD)
    (ha : alloc s n = .ok (some o, s')) :
    ∃ sz, Live s' o sz [] ∧ n ≤ sz ∧ (∀ o2 sz2 d2, Live s o2 sz2 d2 → o2 ≠ o) ∧
      (∀ o2 sz2 d2, Live s' o2 sz2 d2 ↔ Live s o2 sz2 d2 ∨ (o2, sz2, d2) = (o, sz, [])) := by
  rcases alloc_spec h hz hn ha with ⟨hnone, _⟩ | ⟨o', sz, ho, hle, m1, m2⟩
  · simp at hnone
  · simp only [Option.some.injEq] at ho; subst ho
    exact ⟨sz, (m1 _).2 (Or.inr rfl), hle, fun o2 sz2 d2 hl => m2 _ hl, fun o2 sz2 d2 => m1 _⟩

/-- hawk_xma_calloc returning a pointer: as hawk_xma_alloc, and the `n` requested bytes are zero -/
theorem calloc_returns {s s' : Xma} {n o : Nat} (h : WF s) (hz : s.zone < WORD) (hn : n < WORD)
    (hc : calloc s n = .ok (some o, s')) :
    ∃ sz, Live s' o sz (List.replicate n 0) ∧ n ≤ sz ∧ (∀ o2 sz2 d2, Live s o2 sz2 d2 → o2 ≠ o) ∧
      (∀ o2 sz2 d2, Live s' o2 sz2 d2 ↔ Live s o2 sz2 d2 ∨ (o2, sz2, d2) = (o, sz, List.replicate n 0)) := by
  rcases calloc_spec h hz hn hc with ⟨hnone, _⟩ | ⟨o', sz, ho, hle, m1, m2⟩
  · simp at hnone
  · simp only [Option.some.injEq] at ho; subst ho
    exact ⟨sz, (m1 _).2 (Or.inr rfl), hle, fun o2 sz2 d2 hl => m2 _ hl, fun o2 sz2 d2 => m1 _⟩

/-- hawk_xma_alloc returning NULL changes nothing -/
theorem alloc_null_unchanged {s s' : Xma} {n : Nat} (ha : alloc s n = .ok (none, s')) : s' = s := by
  rcases alloc_cases ha with ⟨_, e⟩ | ⟨o, ho, _⟩
  · exact e
  · simp at ho

/-- the best-fit branch takes the head of a fixed class without looking at its size: a block filed in the fixed class of
    an aligned request size has at least that many bytes, also when the block itself is not aligned (odd external zone) -/
theorem bestfit_enough {a b : Nat} (ha2 : ALIGN ≤ a) (ha3 : a < WORD)
    (hb1 : b % ALIGN = 0) (hb2 : ALIGN ≤ b) (hb3 : b < WORD) (h : getxfi a = getxfi b) (hf : getxfi b < FIXED) : b ≤ a :=
  fixed_class_ge ha2 ha3 hb1 hb2 hb3 h hf

/-- the best-fit branch relies on `HAWK_ASSERT(cand->size == size)`: in a consistent heap over a zone smaller than the
    address space two aligned sizes of the same fixed class are indeed equal -/
theorem bestfit_exact {a b : Nat} (ha1 : a % ALIGN = 0) (ha2 : ALIGN ≤ a) (ha3 : a < WORD)
    (hb1 : b % ALIGN = 0) (hb2 : ALIGN ≤ b) (hb3 : b < WORD) (h : getxfi a = getxfi b) (hf : getxfi b < FIXED) : a = b :=
  fixed_class_exact ha1 ha2 ha3 hb1 hb2 hb3 h hf

/-- szlog2() of xma.c is floor(log2 n) on non-zero machine words -/
theorem szlog2_floor_log2 (n : Nat) (h1 : n < 2 ^ 64) (h2 : 1 ≤ n) : 2 ^ szlog2 n ≤ n ∧ n < 2 ^ (szlog2 n + 1) :=
  szlog2_spec n h1 h2

/-! ## contents are kept -/

/-- hawk_xma_free removes exactly the freed block from the live set; all other blocks keep address, size and contents -/
theorem free_keeps_others {s s' : Xma} {o : Nat} (hf : free s o = .ok s') :
    (∃ sz d, Live s o sz d) ∧ ∀ o2 sz2 d2, Live s' o2 sz2 d2 ↔ Live s o2 sz2 d2 ∧ o2 ≠ o := by
  obtain ⟨sz, d, hl, m⟩ := free_spec hf
  exact ⟨⟨sz, d, hl⟩, fun o2 sz2 d2 => m _⟩

/-- a user write into a live block changes the payload of that block only -/
theorem write_keeps_others {s : Xma} {o sz : Nat} {d d' : List Nat} (hl : Live s o sz d) (hlen : d'.length ≤ sz) :
    ∀ o2 sz2 d2, Live (step s (.write o d')) o2 sz2 d2 ↔ (Live s o2 sz2 d2 ∧ o2 ≠ o) ∨ (o2, sz2, d2) = (o, sz, d') := by
  obtain ⟨⟨rp, b, q⟩, hf⟩ := findBlk_live_exists s.blks 0 [] hl
  obtain ⟨hbf, e1, e2⟩ := findBlk_live hf hl
  have hb : blkAt s o = some b := by unfold blkAt; rw [hf]
  have := (liveStep_repl (setData_live (d := d') hf hbf)).2
  intro o2 sz2 d2
  simp only [step, hb, hbf, e1, hlen, Bool.not_false, and_self, if_true]
  rw [e1] at this
  exact this _

/-- hawk_xma_realloc returning a pointer `o'` (header offset; equal to `o` when done in place): the block has at least `n`
    bytes, its first `min n sz` bytes are those of the old block, the old address is no longer live unless `o' = o`, a moved
    block lands on an address that was not live, and every other live block keeps address, size and contents. -/
theorem realloc_contents {s s' : Xma} {o n sz o' : Nat} {d : List Nat} (h : WF s) (hz : s.zone < WORD) (hn : n < WORD)
    (hl : Live s o sz d) (hr : realloc s o n = .ok (some o', s')) :
    ∃ sz' d', Live s' o' sz' d' ∧ n ≤ sz' ∧ (∀ k, k ≤ n → k ≤ sz → d'.take k = d.take k) ∧
      (o' ≠ o → ∀ o2 sz2 d2, Live s o2 sz2 d2 → o2 ≠ o') ∧
      (∀ o2 sz2 d2, Live s' o2 sz2 d2 ↔ (Live s o2 sz2 d2 ∧ o2 ≠ o) ∨ (o2, sz2, d2) = (o', sz', d')) := by
  rcases realloc_spec h hz hn hl hr with ⟨hnone, _⟩ | ⟨o2, sz', d', ho, hle, hd, m1, m2⟩
  · simp at hnone
  · simp only [Option.some.injEq] at ho; subst ho
    exact ⟨sz', d', (m1 _).2 (Or.inr rfl), hle, hd, fun hne o2 sz2 d2 hl2 => m2 hne _ hl2, fun o2 sz2 d2 => m1 _⟩

/-- hawk_xma_realloc returning NULL changes nothing: the old block stays live with its contents -/
theorem realloc_null_unchanged {s s' : Xma} {o n sz : Nat} {d : List Nat} (h : WF s) (hz : s.zone < WORD) (hn : n < WORD)
    (hl : Live s o sz d) (hr : realloc s o n = .ok (none, s')) : s' = s := by
  rcases realloc_spec h hz hn hl hr with ⟨_, e⟩ | ⟨o2, sz', d', ho, _⟩
  · exact e
  · simp at ho

/-- the alloc-copy-free fallback (repaired code) copies no more than the old block holds and no more than was requested
    (so no more than the new block holds, by `alloc_returns`) -/
theorem copy_within_blocks (n osize : Nat) : copyLen n osize ≤ osize ∧ copyLen n osize ≤ n := by
  unfold copyLen; split <;> omega

/-! ## nothing is lost -/

/-- once no block is live, the chain is a single free block covering the whole zone, and it is the only entry of the
    free lists (in the chain of its class) - the zone is available again exactly as after init -/
theorem all_freed_single_block {s : Xma} (h : WF s) (hz : FBLKMIN ≤ s.zone) (hnone : ∀ o sz d, ¬ Live s o sz d) :
    ∃ b, s.blks = [b] ∧ b.free = true ∧ b.size = s.zone - HDR ∧ b.prev = 0 ∧
      fl s.xfree (getxfi b.size) = [0] ∧ ∀ i, i ≠ getxfi b.size → fl s.xfree i = [] := by
  have hl0 : liveOffs 0 s.blks = [] := by
    cases hl : liveOffs 0 s.blks with
    | nil => rfl
    | cons x l => exact absurd (show Live s x.1 x.2.1 x.2.2 by unfold Live; rw [hl]; simp) (hnone _ _ _)
  have hlen := all_free_single h.chain (liveOffs_nil_shift hl0)
  have ht := h.tile
  have hc := h.chain
  cases hb : s.blks with
  | nil => rw [hb] at ht; simp only [total_nil, FBLKMIN, HDR, MINALLOC] at *; omega
  | cons b l =>
    cases l with
    | cons b2 l2 => rw [hb] at hlen; simp at hlen
    | nil =>
      rw [hb] at ht hc hl0
      simp only [ChainOK] at hc
      have hbf : b.free = true := by
        rw [liveOffs_cons] at hl0
        cases hf : b.free with
        | true => rfl
        | false => simp [hf] at hl0
      have hfo : ∀ o sz, (o, sz) ∈ freeOffs 0 s.blks ↔ o = 0 ∧ sz = b.size := by
        intro o sz; rw [hb]; simp [freeOffs, hbf]
      refine ⟨b, rfl, hbf, by simp at ht; omega, hc.1, ?_, ?_⟩
      · have hmem : ∀ o, o ∈ fl s.xfree (getxfi b.size) ↔ o = 0 := by
          intro o
          rw [h.mem]
          constructor
          · rintro ⟨sz, hm, _⟩; exact ((hfo _ _).1 hm).1
          · rintro rfl; exact ⟨b.size, (hfo _ _).2 ⟨rfl, rfl⟩, rfl⟩
        have hnd := h.nodup (getxfi b.size)
        cases hx : fl s.xfree (getxfi b.size) with
        | nil => have := (hmem 0).2 rfl; rw [hx] at this; simp at this
        | cons a l =>
          rw [hx] at hmem hnd
          have ha : a = 0 := (hmem a).1 (by simp)
          subst ha
          cases l with
          | nil => rfl
          | cons a2 l2 =>
            have ha2 : a2 = 0 := (hmem a2).1 (by simp)
            subst ha2
            simp at hnd
      · intro i hi
        cases hx : fl s.xfree i with
        | nil => rfl
        | cons a l =>
          have : a ∈ fl s.xfree i := by rw [hx]; simp
          obtain ⟨sz, hm, hcl⟩ := (h.mem i a).1 this
          have := ((hfo _ _).1 hm).2
          subst this
          exact absurd hcl.symm hi

/-- for every history from init: when everything has been freed the whole zone is one free block again -/
theorem reachable_all_freed {z : Nat} {s : Xma} (hr : Reachable z s) (hnone : ∀ o sz d, ¬ Live s o sz d) :
    ∃ b, s.blks = [b] ∧ b.free = true ∧ b.size = s.zone - HDR ∧ b.prev = 0 ∧ fl s.xfree (getxfi b.size) = [0] := by
  have hw := reachable_wf hr
  have hz : FBLKMIN ≤ s.zone := by
    obtain ⟨s0, ops, h0, rfl⟩ := hr
    rw [run_zone]
    unfold initx at h0
    by_cases c : z < FBLKMIN
    · rw [if_pos c] at h0; simp at h0
    · rw [if_neg c] at h0
      simp only [Option.some.injEq] at h0
      subst h0
      simp only
      omega
  obtain ⟨b, h1, h2, h3, h4, h5, _⟩ := all_freed_single_block hw hz hnone
  exact ⟨b, h1, h2, h3, h4, h5⟩


/-! ## non-vacuity: the hypotheses above are met by non-trivial reachable states -/

/-- a history that splits (alloc x4), frees with no / one / two free neighbours, reallocs in place (grow into the free
    next block, with a split) and reallocs again -/
def demo : List Op :=
  [.alloc 16, .alloc 16, .alloc 16, .alloc 16, .write 96 [7, 7, 7], .free 0, .free 64, .free 32, .realloc 96 100, .realloc 96 600]

example : ∃ s0, initx 1024 = some s0 ∧ Reachable 1024 (run s0 demo) ∧
    (run s0 demo).blks.map (fun b => (b.size, b.free, b.prev)) = [(80, true, 0), (608, false, 80), (288, true, 608)] ∧
    Live (run s0 demo) 96 608 [7, 7, 7] ∧ fl (run s0 demo).xfree 4 = [0] ∧ fl (run s0 demo).xfree 17 = [720] :=
  ⟨_, rfl, ⟨_, demo, rfl, rfl⟩, by decide, by decide, by decide, by decide⟩

/-- realloc that has to move (next block live): contents travel with the block, the old address is free again -/
example : ∃ s0, initx 1024 = some s0 ∧
    (realloc (run s0 [.alloc 16, .alloc 16, .write 0 [1, 2, 3]]) 0 40).toOption.map (fun r => (r.1, liveOffs 0 r.2.blks)) =
      some (some 64, [(32, 16, []), (64, 48, [1, 2, 3])]) :=
  ⟨_, rfl, by decide⟩

/-- hypotheses of `reachable_all_freed` are satisfiable after real work -/
example : ∃ s0, initx 1024 = some s0 ∧ liveOffs 0 (run s0 (demo ++ [.free 96])).blks = [] ∧
    (run s0 (demo ++ [.free 96])).blks = [{ size := 1008, free := true, prev := 0 }] :=
  ⟨_, rfl, by decide, by decide⟩

/-- a caller-supplied zone of 1000 bytes (not a multiple of ALIGN): the residue stays with the last block, the tail of the
    zone is handed out up to its last byte (968 + 16 + 16 = 1000) and never beyond; everything freed = one block of 984 -/
example : ∃ s0, initx 1000 = some s0 ∧ s0.zone = 1000 ∧
    liveOffs 0 (run s0 [.alloc 944, .calloc 3]).blks = [(0, 944, []), (960, 24, [0, 0, 0])] ∧
    (run s0 [.alloc 944, .calloc 3, .free 0, .free 960]).blks = [{ size := 984, free := true, prev := 0 }] :=
  ⟨_, rfl, rfl, by decide, by decide⟩

/-- a request that cannot be rounded (the machine word would wrap) is refused -/
example : ∃ s0, initx 1024 = some s0 ∧ (alloc s0 (2 ^ 64 - 1)).toOption.map (·.1) = some none := ⟨_, rfl, by decide⟩

end Hawk.Xma.C20
