import HawkModel.GcLemmas
import HawkModel.GcGen
import HawkModel.GcCallLemmas
import HawkModel.Gen.GcConst
import HawkModel.GcValLemmas
/-!
# C07 — values live exactly as long as they are reachable

Theorems about `Hawk.Gc` (lean/HawkModel/Gc.lean), the model of the reference counting and of the
generational cycle collector of lib/val.c **as repaired by patches/gc-stale-gcrefs.diff**
(`legacy = false`, the default of the initial state).  All of them are about *every* history
`run ops`, `ops : List Op` any sequence of client operations (allocation incl. the collection by
pressure inside it, storing/deleting/overwriting container elements, clearing a container, taking and
dropping external references, explicit collections of any generation incl. `-1`/out of range,
threshold changes); an operation whose precondition fails is a no-op.

`Reach s o` = `o` can be reached from an external holder (`s.roots`) through container elements.
`inDeg h o` = number of container elements, over all live containers of `h`, that are `o`.
-/
namespace Hawk.Gc.C07
open Hawk.Gc

/-- the C never runs into `HAWK_ASSERT (val->v_refs > 0)` and never follows a pointer to a freed container -/
theorem no_fault (ops : List Op) : (run ops).fault = false := (inv_run ops).c.nofault

/-- **LedgerInv**: the reference count of every live container is exactly the number of external holders
plus the number of elements of live containers referring to it -/
theorem ledger (ops : List Op) (i : Id) (o : Obj) (h : (run ops).heap.get i = some o) :
    o.refs = (run ops).roots.count i + inDeg (run ops).heap i := by
  have := (inv_run ops).c.ledger i o h ((inv_run ops).unmarked h)
  simpa using this

/-- the ledger (with the rest of the invariant) is kept by every single operation from any state satisfying it;
this includes a collection freeing an unreachable container whose elements live in an older generation
(`inv_collectGen`: their counts are decremented, nothing is skipped because of a stale sentinel) -/
theorem ledger_preserved (s : St) (op : Op) (h : Inv s) :
    Inv (step s op) ∧ ∀ i o, (step s op).heap.get i = some o →
      o.refs = (step s op).roots.count i + inDeg (step s op).heap i := by
  have h' := inv_step s op h
  refine ⟨h', fun i o hi => ?_⟩
  have := h'.c.ledger i o hi (h'.unmarked hi)
  simpa using this

/-- no container holds a freed container (not even garbage does: later collections walk it) -/
theorem no_dangling (ops : List Op) (i : Id) (o : Obj) (c : Id) (h : (run ops).heap.get i = some o)
    (hc : c ∈ o.children) : ((run ops).heap.get c).isSome := (inv_run ops).c.closed i o h c hc

/-- **safety**: whatever an external holder can reach has not been freed -/
theorem safety (ops : List Op) (o : Id) (h : Reach (run ops) o) : ((run ops).heap.get o).isSome :=
  reach_live (inv_run ops) h

/-- safety, step form: a container that an operation frees (by a refdown cascade or by a collection) is
unreachable when the operation is over -/
theorem freed_unreachable (ops : List Op) (op : Op) (o : Id)
    (hfreed : (run (ops ++ [op])).heap.get o = none) : ¬ Reach (run (ops ++ [op])) o := by
  intro hr
  have := safety (ops ++ [op]) o hr
  rw [hfreed] at this
  cases this

/-- safety of a collection, in terms of the state *before* it: everything reachable when `hawk_rtx_gc (gen)`
is called (any `gen`) is still there and still reachable when it returns; holders and the elements of the
survivors are unchanged -/
theorem collect_keeps_reachable (ops : List Op) (gen : Int) (o : Id) (h : Reach (run ops) o) :
    ((run (ops ++ [.gc gen])).heap.get o).isSome ∧ Reach (run (ops ++ [.gc gen])) o := by
  have hrun : run (ops ++ [.gc gen]) = (gc (run ops) gen).1 := by simp [run, step]
  rw [hrun]
  obtain ⟨g, hg, he, _⟩ := gc_eq (run ops) gen
  rw [he]
  obtain ⟨hinv', hroots, hframe, _⟩ := inv_collectGen (run ops) g hg (inv_run ops)
  exact reach_survives hinv' hroots hframe h

/-- **acyclic_immediate**, count form: a live container never has count 0 (a count that reaches 0 frees the
container within the same operation, recursively through its elements), and it is held or referred to -/
theorem acyclic_immediate (ops : List Op) (o : Id) (ob : Obj) (h : (run ops).heap.get o = some ob) :
    0 < ob.refs ∧ (o ∈ (run ops).roots ∨ ∃ p op, (run ops).heap.get p = some op ∧ o ∈ op.children) := by
  have hpos := (inv_run ops).c.pos o ob h ((inv_run ops).unmarked h)
  refine ⟨hpos, ?_⟩
  have hl := ledger ops o ob h
  by_cases hr : 0 < (run ops).roots.count o
  · exact Or.inl (List.count_pos_iff.mp hr)
  · right
    have : 0 < inDeg (run ops).heap o := by omega
    obtain ⟨p, op, hp, hm⟩ := exists_parent_of_inDeg_pos this
    exact ⟨p, op, hp, hm⟩

/-- **acyclic_immediate**, graph form: garbage that is still in the heap after an operation is referred to by
other garbage — so every chain of referrers stays inside the (finite) garbage: it is on or behind a cycle.
Acyclic garbage does not survive the operation that made it garbage. -/
theorem garbage_is_cyclic (ops : List Op) (o : Id) (ob : Obj) (h : (run ops).heap.get o = some ob)
    (hu : ¬ Reach (run ops) o) :
    ∃ p op, (run ops).heap.get p = some op ∧ ¬ Reach (run ops) p ∧ o ∈ op.children := by
  rcases (acyclic_immediate ops o ob h).2 with hr | ⟨p, op, hp, hm⟩
  · exact absurd (Reach.root hr) hu
  · exact ⟨p, op, hp, fun hrp => hu (Reach.step hrp hp hm), hm⟩

/-- **cyclic_by_full_gc**: after a full collection (`hawk_rtx_gc (2)`, or any larger argument, which the C
clamps — `HAWK_RTX_GC_GEN_FULL` is `INT_MAX`) every container left in the heap is reachable from a holder -/
theorem cyclic_by_full_gc (ops : List Op) (gen : Int) (hfull : 2 ≤ gen) (o : Id) (ob : Obj)
    (h : (run (ops ++ [.gc gen])).heap.get o = some ob) : Reach (run (ops ++ [.gc gen])) o := by
  have hrun : run (ops ++ [.gc gen]) = (gc (run ops) gen).1 := by simp [run, step]
  rw [hrun] at h ⊢
  obtain ⟨g, _, he, h3, h2⟩ := gc_eq (run ops) gen
  have hg2 : g = 2 := by
    by_cases e : gen = 2
    · exact h2 e
    · exact h3 (by omega)
  subst hg2
  rw [he] at h ⊢
  exact full_collect_reach (run ops) (inv_run ops) o ob h

/-- **teardown_empty**: after `fini_rtx` (every holder lets go, then a full collection) no container is left:
every block obtained for a container has gone back to the host allocator; and no assertion was hit on the way -/
theorem teardown_empty (ops : List Op) :
    (∀ i, (teardown (run ops)).heap.get i = none) ∧ (teardown (run ops)).fault = false := by
  obtain ⟨hinv, hroots⟩ := dropAll_spec (run ops).roots (run ops) (inv_run ops) rfl
  unfold teardown
  obtain ⟨g, _, he, h3, _⟩ := gc_eq ((run ops).roots.foldl (fun s r => (dropRoot s r).getD s) (run ops)) 2147483647
  have hg2 : g = 2 := h3 (by omega)
  subst hg2
  rw [he]
  obtain ⟨hinv', hroots', _, _⟩ := inv_collectGen _ 2 (by omega) hinv
  refine ⟨?_, hinv'.c.nofault⟩
  intro i
  cases hi : (collectGen ((run ops).roots.foldl (fun s r => (dropRoot s r).getD s) (run ops)) 2).heap.get i with
  | none => rfl
  | some o =>
    exfalso
    have hr := full_collect_reach _ hinv i o hi
    exact no_reach_of_no_roots (by rw [hroots', hroots]) hr

/-- between operations no container carries the `GCH_UNREACHABLE` sentinel (the element freeers' test can only
fire inside `gc_free_unreachables`): a container is in generation 0 with the `gc_refs` it was allocated with, or
in generation 1 or 2 with `GCH_MOVED` -/
theorem gcrefs_clean (ops : List Op) (i : Id) (o : Obj) (h : (run ops).heap.get i = some o) :
    o.gcRefs ≠ GCH_UNREACHABLE ∧ o.gen ≤ 2 ∧ ((o.gen = 0 ∧ o.gcRefs = 0) ∨ (1 ≤ o.gen ∧ o.gcRefs = GCH_MOVED)) := by
  have hg := (inv_run ops).gc i o h
  refine ⟨hg.unmarked, ?_, ?_⟩
  · rcases hg with ⟨_, _, h2⟩ | ⟨_, h0⟩ <;> omega
  · rcases hg with ⟨hm, h1, _⟩ | ⟨hz, h0⟩
    · exact Or.inr ⟨h1, hm⟩
    · exact Or.inl ⟨h0, hz⟩

/-- the encoding of the sentinels is the C's: one decrement of a stale `GCH_MOVED` is `GCH_UNREACHABLE`
(the aliasing behind the defect repaired by patches/gc-stale-gcrefs.diff) -/
theorem sentinel_alias : GCH_MOVED - 1 = GCH_UNREACHABLE := rfl

/-! ## round 5: holders, soundness/completeness per generation, promotion, the pressure counters -/

/-- **never released while held**: a container with an external holder (variable, stack slot, API holder) is
in the heap, and its count is at least the number of its holders -/
theorem held_never_released (ops : List Op) (i : Id) (h : i ∈ (run ops).roots) :
    ∃ o, (run ops).heap.get i = some o ∧ (run ops).roots.count i ≤ o.refs ∧ 0 < o.refs := by
  obtain ⟨o, ho, _⟩ := (inv_run ops).c.rootsLive i h
  refine ⟨o, ho, ?_, (acyclic_immediate ops i o ho).1⟩
  have := ledger ops i o ho
  omega

/-- **released at once when the last holder goes**: if the only reference to a container is one external holder
(count 1, so by the ledger no container element refers to it), the `refdownval` of that holder frees it within
the same operation -/
theorem last_holder_releases (ops : List Op) (o : Id) (ob : Obj) (h : (run ops).heap.get o = some ob)
    (h1 : ob.refs = 1) (hr : o ∈ (run ops).roots) : (run (ops ++ [.dropRoot o])).heap.get o = none := by
  rw [run_snoc]
  simp only [step, dropRoot, hr, if_true, Option.getD_some]
  exact refdown_last _ o ob h h1

/-- … and a container that keeps another holder or a referring element is not freed by that `refdownval` -/
theorem other_reference_keeps (ops : List Op) (o : Id) (ob : Obj) (h : (run ops).heap.get o = some ob)
    (h2 : 2 ≤ ob.refs) (hr : o ∈ (run ops).roots) :
    (run (ops ++ [.dropRoot o])).heap.get o = some { ob with refs := ob.refs - 1 } := by
  rw [run_snoc]
  simp only [step, dropRoot, hr, if_true, Option.getD_some]
  exact refdown_other _ o ob h h2

/-- **collector soundness**: a container that `hawk_rtx_gc (gen)` (any `gen`) removes from the heap was not
reachable from any holder when the collection started -/
theorem collect_sound (ops : List Op) (gen : Int) (o : Id) (ob : Obj) (h : (run ops).heap.get o = some ob)
    (hfreed : (run (ops ++ [.gc gen])).heap.get o = none) : ¬ Reach (run ops) o := by
  intro hr
  have := (collect_keeps_reachable ops gen o hr).1
  rw [hfreed] at this
  cases this

/-- a collection changes no holder and no element of a surviving container, and creates nothing -/
theorem collect_frame (ops : List Op) (gen : Int) :
    (run (ops ++ [.gc gen])).roots = (run ops).roots ∧
    ∀ i o', (run (ops ++ [.gc gen])).heap.get i = some o' →
      ∃ o, (run ops).heap.get i = some o ∧ o'.children = o.children := by
  have hrun : run (ops ++ [.gc gen]) = (gc (run ops) gen).1 := by simp [run, step]
  rw [hrun]
  obtain ⟨g, hg, he, _⟩ := gc_eq (run ops) gen
  rw [he]
  obtain ⟨_, hroots, hframe, _⟩ := inv_collectGen (run ops) g hg (inv_run ops)
  exact ⟨hroots, hframe⟩

/-- **promotion**: after `hawk_rtx_gc (n)`, `n ∈ {0,1,2}`, a survivor that was in one of the collected lists
(generation `≤ n`) is chained in generation `min (n+1) 2`; a container of an older generation stays where it was;
every survivor carries `GCH_MOVED` (no count of `gc_trace_refs`, no `GCH_UNREACHABLE` is left behind) and the
ledger holds for it (`ledger`) -/
theorem promotion (ops : List Op) (n : Nat) (hn : n ≤ 2) (i : Id) (o9 : Obj)
    (h : (run (ops ++ [.gc (n : Int)])).heap.get i = some o9) :
    ∃ o, (run ops).heap.get i = some o ∧ o9.gcRefs = GCH_MOVED ∧
      ((o.gen ≤ n ∧ o9.gen = (if n < 2 then n + 1 else n)) ∨ (n < o.gen ∧ o9.gen = o.gen)) := by
  have hclean := gcrefs_clean (ops ++ [.gc (n : Int)]) i o9 h
  rw [run_snoc] at h
  have h' : ((gc (run ops) (n : Int)).1).heap.get i = some o9 := h
  rw [(gc_explicit (run ops) n hn).1] at h'
  obtain ⟨o, ho, hcase⟩ := collectGen_gen (run ops) n hn (inv_run ops) i o9 h'
  have hgen1 : 1 ≤ o9.gen := by
    rcases hcase with ⟨_, hg, _⟩ | ⟨hlt, hg⟩
    · rw [hg]; split <;> omega
    · omega
  refine ⟨o, ho, ?_, ?_⟩
  · rcases hclean.2.2 with ⟨h0, _⟩ | ⟨_, hm⟩
    · omega
    · exact hm
  · rcases hcase with ⟨hle, hg, _⟩ | ⟨hlt, hg⟩
    · exact Or.inl ⟨hle, hg⟩
    · exact Or.inr ⟨hlt, hg⟩

/-- … in particular the collected lists are empty afterwards: no container is left in a generation `≤ n`
(for `n < 2`) -/
theorem collected_lists_empty (ops : List Op) (n : Nat) (hn : n < 2) (i : Id) (o9 : Obj)
    (h : (run (ops ++ [.gc (n : Int)])).heap.get i = some o9) : n < o9.gen := by
  obtain ⟨o, _, _, hcase⟩ := promotion ops n (by omega) i o9 h
  rcases hcase with ⟨_, hg⟩ | ⟨hlt, hg⟩
  · rw [hg]; simp [hn]
  · omega

/-- **completeness of a collection of generation `n`** (arbitrary object graph across the generations): a
container of a collected list (generation `≤ n`) that cannot be reached from an external holder nor from an
element of a container of an older generation is freed by `hawk_rtx_gc (n)` — cycles included.
(`cyclic_by_full_gc` is the case `n = 2`, where no older generation exists.) -/
theorem young_collect_complete (ops : List Op) (n : Nat) (hn : n ≤ 2) (i : Id) (o : Obj)
    (h0 : (run ops).heap.get i = some o) (hle : o.gen ≤ n) (hu : ¬ ReachG (run ops) n i) :
    (run (ops ++ [.gc (n : Int)])).heap.get i = none := by
  rw [run_snoc]
  show ((gc (run ops) (n : Int)).1).heap.get i = none
  rw [(gc_explicit (run ops) n hn).1]
  cases h9 : (collectGen (run ops) n).heap.get i with
  | none => rfl
  | some o9 => exact absurd (young_collect_reach (run ops) n hn (inv_run ops) i o o9 h0 hle h9) hu

/-- the converse, soundness per generation: what a collection of generation `n` can reach from a holder or from
an older generation is kept -/
theorem young_collect_sound (ops : List Op) (n : Nat) (hn : n ≤ 2) (i : Id) (h : ReachG (run ops) n i) :
    ((run ops).heap.get i).isSome ∧ ((run (ops ++ [.gc (n : Int)])).heap.get i).isSome ∨
    (∃ p ob, (run ops).heap.get p = some ob ∧ n < ob.gen ∧ ¬ Reach (run ops) p) := by
  -- either the whole chain starts at a holder (then `collect_keeps_reachable` applies) or at an old container
  -- that is itself garbage (and may be released, together with what it holds, by the cascade of this collection)
  by_cases hex : ∃ p ob, (run ops).heap.get p = some ob ∧ n < ob.gen ∧ ¬ Reach (run ops) p
  · exact Or.inr hex
  · left
    have hreach : Reach (run ops) i := by
      induction h with
      | root hm => exact Reach.root hm
      | @old p c ob hp hlt hc =>
        have : Reach (run ops) p := by
          cases Classical.em (Reach (run ops) p) with
          | inl hr => exact hr
          | inr hnr => exact absurd ⟨p, ob, hp, hlt, hnr⟩ hex
        exact Reach.step this hp hc
      | step _ hp hc ih => exact Reach.step ih hp hc
    exact ⟨safety ops i hreach, (collect_keeps_reachable ops (n : Int) i hreach).1⟩

/-- **the counters after a collection**: `pressure[n+1]++, pressure[n] = 0, pressure[0] = 0`, thresholds untouched —
whatever the refcount cascades inside the collection did -/
theorem gc_counters (ops : List Op) (n : Nat) (hn : n ≤ 2) :
    (run (ops ++ [.gc (n : Int)])).p0 = 0 ∧
    ((run (ops ++ [.gc (n : Int)])).t0, (run (ops ++ [.gc (n : Int)])).t1, (run (ops ++ [.gc (n : Int)])).t2) =
      ((run ops).t0, (run ops).t1, (run ops).t2) ∧
    (n = 0 → (run (ops ++ [.gc (n : Int)])).p1 = (run ops).p1 + 1 ∧ (run (ops ++ [.gc (n : Int)])).p2 = (run ops).p2 ∧
             (run (ops ++ [.gc (n : Int)])).p3 = (run ops).p3) ∧
    (n = 1 → (run (ops ++ [.gc (n : Int)])).p1 = 0 ∧ (run (ops ++ [.gc (n : Int)])).p2 = (run ops).p2 + 1 ∧
             (run (ops ++ [.gc (n : Int)])).p3 = (run ops).p3) ∧
    (n = 2 → (run (ops ++ [.gc (n : Int)])).p1 = (run ops).p1 ∧ (run (ops ++ [.gc (n : Int)])).p2 = 0 ∧
             (run (ops ++ [.gc (n : Int)])).p3 = (run ops).p3 + 1) := by
  have hrun : run (ops ++ [.gc (n : Int)]) = collectGen (run ops) n := by
    rw [run_snoc]; exact (gc_explicit (run ops) n hn).1
  rw [hrun]
  have hc := collectGen_counters (run ops) n
  simp only [St.counters, Prod.mk.injEq] at hc
  obtain ⟨c0, c1, c2, c3, c4, c5, c6⟩ := hc
  have : n = 0 ∨ n = 1 ∨ n = 2 := by omega
  rcases this with rfl | rfl | rfl <;> simp_all [bumpPressure]

/-- **which generation a collection by pressure takes** (`gc_collect_garbage_auto`, also `hawk_rtx_gc (-1)`):
the oldest generation whose pressure has reached its threshold, generation 0 otherwise -/
theorem auto_collect_choice (s : St) (gen : Int) (hneg : gen < 0) :
    (gc s gen).2 = (if s.t2 ≤ s.p2 then 2 else if s.t1 ≤ s.p1 then 1 else 0) ∧
    (gc s gen).1 = collectGen s (gc s gen).2 := by
  unfold gc collectAuto
  simp only [hneg, if_true]
  by_cases h2 : s.p2 ≥ s.t2
  · simp [h2]
  · by_cases h1 : s.p1 ≥ s.t1
    · simp [h2, h1]
    · simp [h2, h1]

/-- **the trigger in `gc_calloc_val`**: below the threshold an allocation collects nothing (heap unchanged but for the
new container, `pressure[0]++`); at or above it a collection by pressure runs first, so `pressure[0]` restarts at 1 -/
theorem alloc_trigger (ops : List Op) :
    ((run ops).p0 < (run ops).t0 →
      (run (ops ++ [.alloc])).heap = (run ops).heap ++ [some { refs := 1, gcRefs := 0, gen := 0, children := [] }] ∧
      (run (ops ++ [.alloc])).p0 = (run ops).p0 + 1 ∧ (run (ops ++ [.alloc])).p1 = (run ops).p1) ∧
    ((run ops).t0 ≤ (run ops).p0 →
      (run (ops ++ [.alloc])).heap =
        (collectAuto (run ops)).1.heap ++ [some { refs := 1, gcRefs := 0, gen := 0, children := [] }] ∧
      (run (ops ++ [.alloc])).p0 = 1) := by
  rw [run_snoc]
  refine ⟨fun hlt => ?_, fun hge => ?_⟩
  · have : ¬ (run ops).p0 ≥ (run ops).t0 := by omega
    simp [step, alloc, this]
  · have hge' : (run ops).p0 ≥ (run ops).t0 := hge
    simp only [step, alloc, hge', if_true]
    have hc : (collectAuto (run ops)).1.p0 = 0 := by
      unfold collectAuto
      split
      · have := collectGen_counters (run ops) 2
        simp only [St.counters, Prod.mk.injEq] at this
        rw [this.1]; rfl
      · split
        · have := collectGen_counters (run ops) 1
          simp only [St.counters, Prod.mk.injEq] at this
          rw [this.1]; rfl
        · have := collectGen_counters (run ops) 0
          simp only [St.counters, Prod.mk.injEq] at this
          rw [this.1]; rfl
    simp [hc]

/-- the counters move only in allocations, collections and threshold changes: storing, deleting, overwriting,
clearing, taking and dropping references — with all the cascades of releases they start — leave all seven alone -/
theorem refcount_ops_keep_counters (s : St) (op : Op)
    (hop : match op with | .alloc | .gc _ | .setThr _ _ => False | _ => True) :
    (step s op).counters = s.counters := by
  cases op with
  | alloc => cases hop
  | gc _ => cases hop
  | setThr _ _ => cases hop
  | link p c =>
    show ((link s p c).getD s).counters = _
    cases hl : link s p c with
    | none => rfl
    | some s' => exact link_counters hl
  | unlink p c =>
    show ((unlink s p c).getD s).counters = _
    cases hl : unlink s p c with
    | none => rfl
    | some s' => exact unlink_counters hl
  | relink p c d =>
    show ((relink s p c d).getD s).counters = _
    cases hl : relink s p c d with
    | none => rfl
    | some s' => exact relink_counters hl
  | clear p =>
    show ((clear s p).getD s).counters = _
    cases hl : clear s p with
    | none => rfl
    | some s' => exact clear_counters hl
  | addRoot o =>
    show ((addRoot s o).getD s).counters = _
    cases hl : addRoot s o with
    | none => rfl
    | some s' => exact addRoot_counters hl
  | take p c =>
    show ((take s p c).getD s).counters = _
    cases hl : take s p c with
    | none => rfl
    | some s' => exact take_counters hl
  | dropRoot o =>
    show ((dropRoot s o).getD s).counters = _
    cases hl : dropRoot s o with
    | none => rfl
    | some s' => exact dropRoot_counters hl

/-- **close returns every block after any history** — `teardown_empty` started from ANY state satisfying the
invariant, not only from the states `run ops` (a program cut short by `exit` or by a run-time error leaves such a
state: every prefix of a history is a history, and the frames unwound on the way are `dropRoot`s) -/
theorem teardown_empty_inv (s : St) (h : Inv s) :
    (∀ i, (teardown s).heap.get i = none) ∧ (teardown s).fault = false ∧ (teardown s).roots = [] := by
  obtain ⟨hinv, hroots⟩ := dropAll_spec s.roots s h rfl
  unfold teardown
  obtain ⟨g, _, he, h3, _⟩ := gc_eq (s.roots.foldl (fun s r => (dropRoot s r).getD s) s) 2147483647
  have hg2 : g = 2 := h3 (by omega)
  subst hg2
  rw [he]
  obtain ⟨hinv', hroots', _, _⟩ := inv_collectGen _ 2 (by omega) hinv
  refine ⟨?_, hinv'.c.nofault, by rw [hroots', hroots]⟩
  intro i
  cases hi : (collectGen (s.roots.foldl (fun s r => (dropRoot s r).getD s) s) 2).heap.get i with
  | none => rfl
  | some o =>
    exfalso
    have hr := full_collect_reach _ hinv i o hi
    exact no_reach_of_no_roots (by rw [hroots', hroots]) hr

/-! ### call frames (lib/run.c `hawk_rtx_callfun`/`hawk_rtx_evalcall`/`run_block`; model: HawkModel/GcCall.lean) -/

/-- a history in which the host also calls hawk functions (arguments, locals and the return-value slot of the frame
are holders; bodies end by `return`, `exit` or a run-time error) reaches a state that a history of core operations
reaches: **every theorem of this file about `run ops` holds for it** -/
theorem calls_are_histories (xs : List XOp) : ∃ ops, xrun xs = run ops := xrun_is_run xs

/-- **a call is balanced**: after `hawk_rtx_callfun` the external holders are those from before the call plus the
host's one reference to a returned container; the frame has let go of everything — and the ledger is exact again -/
theorem call_balanced (xs : List XOp) (f : Fn) (a b : Id) (s' : St) (h : call (xrun xs) f a b = some s') :
    s'.roots = retHolder f a (xrun xs).heap.length ++ (xrun xs).roots ∧
    s'.fault = false ∧
    ∀ i o, s'.heap.get i = some o → o.refs = s'.roots.count i + inDeg s'.heap i := by
  obtain ⟨ops, hops⟩ := xrun_is_run xs
  have hinv : Inv (xrun xs) := by rw [hops]; exact inv_run ops
  obtain ⟨hinv', hroots⟩ := call_roots (xrun xs) hinv f a b s' h
  refine ⟨hroots, hinv'.c.nofault, fun i o hi => ?_⟩
  have := hinv'.c.ledger i o hi (hinv'.unmarked hi)
  simpa using this

/-- **close gives back every container after any history with calls** — also when called functions ended by a
run-time error or by `exit` with containers in their frames -/
theorem teardown_empty_calls (xs : List XOp) :
    (∀ i, (teardown (xrun xs)).heap.get i = none) ∧ (teardown (xrun xs)).fault = false := by
  obtain ⟨ops, hops⟩ := xrun_is_run xs
  rw [hops]
  exact teardown_empty ops

/-- a call whose frame held the last references: `cyc`/`fail`/`quit` leave their local container behind as cyclic
garbage (it refers to itself), which the next collection of generation 0 frees — unless … nothing: it has no holder
and nothing older refers to it (`young_collect_complete` applies to the state after the call) -/
example : (call (xrun [.core .alloc]) .cyc 0 0).isSome = true := by decide

/-- **tie to the source**: the sentinels, the number of generations (`TMP`, the local list `reachable`, is the first
index that is not a generation) and the initial thresholds of the hand-written model are the values
extract/gc_const.py reads from lib/val.c, lib/hawk-prv.h and lib/run.c of the checked tree on every run
(lean/HawkModel/Gen/GcConst.lean is regenerated; the extractor also checks the order of the collector's phases, the
promotion rule, the counter updates and the `>=` of the two pressure tests, and fails closed) -/
theorem consts_match_source :
    GCH_MOVED = Gen.gchMoved ∧ GCH_UNREACHABLE = Gen.gchUnreachable ∧ TMP = Gen.numGens ∧
    ({} : St).t0 = Gen.thr0 ∧ ({} : St).t1 = Gen.thr1 ∧ ({} : St).t2 = Gen.thr2 ∧
    ({} : St).p0 = 0 ∧ ({} : St).p1 = 0 ∧ ({} : St).p2 = 0 ∧ ({} : St).p3 = 0 := by decide

/-! ### both element freeers on an element that survived a collection (class of seed C07-r5s1) -/

/-- **an element carrying `GCH_MOVED` is still refdown'ed when it leaves its container**: the freeer's skip test is
for `GCH_UNREACHABLE` only.  The model's `unlink` (→ `cascade`) is the one transcription of the twins `free_mapval`
and `free_arrval`; the harness drives every history with maps and with arrays as holders and as elements (all
exhaustive prefixes in both kinds and mixed), so a twin that deviates (`>=` instead of `==`) differs from this. -/
theorem moved_element_refdown (ops : List Op) (p c : Id) (op oc : Obj) (hp : (run ops).heap.get p = some op)
    (hmem : c ∈ op.children) (hne : p ≠ c) (hc : (run ops).heap.get c = some oc) (hm : oc.gcRefs = GCH_MOVED) :
    (run (ops ++ [.unlink p c])).heap.get c = if oc.refs = 1 then none else some { oc with refs := oc.refs - 1 } := by
  rw [run_snoc]
  simp only [step, unlink, hp, hmem, if_true, Option.getD_some]
  have hc' : Heap.get ((run ops).heap.set p (some { op with children := op.children.erase c })) c = some oc := by
    rw [Heap.get_set_ne _ _ _ _ hne]; exact hc
  rw [cascade_cons_some _ c [] oc hc']
  have hU : ¬ oc.gcRefs = GCH_UNREACHABLE := by rw [hm]; decide
  have hpos := (acyclic_immediate ops c oc hc).1
  have h0 : ¬ oc.refs = 0 := by omega
  rw [if_neg hU, if_neg h0]
  have hlt : c < ((run ops).heap.set p (some { op with children := op.children.erase c })).length := by
    simp; exact Heap.get_lt hc
  by_cases h1 : oc.refs = 1
  · rw [if_pos h1, if_pos h1]
    cases hr : (cascade { run ops with heap := ((run ops).heap.set p (some { op with children := op.children.erase c })).set c none }
        (oc.children ++ [])).heap.get c with
    | none => rfl
    | some o' =>
      obtain ⟨o0, ho0, _⟩ := cascade_get _ _ c o' hr
      simp only at ho0
      rw [Heap.get_set_eq _ _ _ hlt] at ho0
      cases ho0
  · rw [if_neg h1, if_neg h1, cascade_nil]
    exact Heap.get_set_eq _ _ _ hlt

/-- the hypotheses are satisfiable: an element that survived `gc 0` inside a container carries `GCH_MOVED` -/
example : ∃ oc, (run ([.alloc, .alloc, .link 1 0] ++ [.gc ((0 : Nat) : Int)])).heap.get 0 = some oc ∧ oc.gcRefs = GCH_MOVED := by
  have hl := (collect_keeps_reachable [.alloc, .alloc, .link 1 0] 0 0 (Reach.root (by decide))).1
  obtain ⟨oc, hoc⟩ := Option.isSome_iff_exists.mp hl
  obtain ⟨_, _, hm, _⟩ := promotion [.alloc, .alloc, .link 1 0] 0 (by omega) 0 oc hoc
  exact ⟨oc, hoc, hm⟩

/-! ### leaf values: the host blocks behind boxed numbers and strings (model: HawkModel/GcVal.lean) -/

/-- **cache blocks + live blocks + chunk (free-list) blocks = blocks obtained from the host** after every history of
leaf-value operations; every slot of every chunk is in use or on its free list -/
theorem blocks_accounting (ops : List VOp) :
    (vrun ops).host = (vrun ops).ichunks + (vrun ops).fchunks + (vrun ops).slive + (vrun ops).scache.sum ∧
    (vrun ops).ilive + (vrun ops).ifree = CHUNKSIZE * (vrun ops).ichunks ∧
    (vrun ops).flive + (vrun ops).ffree = CHUNKSIZE * (vrun ops).fchunks ∧
    (vrun ops).slive = leafCount isStr (vrun ops).tab :=
  ⟨(vinv_run ops).blocks, (vinv_run ops).ints, (vinv_run ops).flts, (vinv_run ops).scnt⟩

/-- **close returns all of them**: once the host has released its strings, `fini_rtx` (cache emptied, chunks freed
— whatever is still on or off the free lists) leaves no block of the leaf allocators with the runtime -/
theorem close_returns_leaf_blocks (ops : List VOp) (h : (vrun ops).slive = 0) : (flush (vrun ops)).host = 0 := by
  have hb := (vinv_run ops).blocks
  show (vrun ops).host - (vrun ops).scache.sum - (vrun ops).ichunks - (vrun ops).fchunks = 0
  omega

/-- non-vacuity: a history that obtains a chunk and a string block, caches the string, and has no string in use -/
example : (vrun [.int, .str 5, .rel 1]).slive = 0 ∧ (vrun [.int, .str 5, .rel 1]).host = 2 ∧
    (vrun [.int, .str 5, .rel 1]).scache.sum = 1 := by decide

/-! ### non-vacuity of the round-5 theorems -/

/-- `last_holder_releases`: one holder, count 1 -/
example : (run [.alloc]).heap.get 0 = some { refs := 1, gcRefs := 0, gen := 0, children := [] } ∧ 0 ∈ (run [.alloc]).roots :=
  ⟨rfl, by decide⟩
/-- `other_reference_keeps`: a holder and a referring element, count 2 -/
example : (run [.alloc, .alloc, .link 1 0]).heap.get 0 = some { refs := 2, gcRefs := 0, gen := 0, children := [] } ∧
    0 ∈ (run [.alloc, .alloc, .link 1 0]).roots := ⟨rfl, by decide⟩
/-- `young_collect_complete`: a young self-referring container without holder is not `ReachG … 0` (no holder at all,
no container of an older generation), it has generation `0 ≤ 0` — the theorem frees it in `gc 0` -/
example : ¬ ReachG (run [.alloc, .link 0 0, .dropRoot 0]) 0 0 := by
  intro h
  have hall : ∀ i o, (run [.alloc, .link 0 0, .dropRoot 0]).heap.get i = some o → o.gen ≤ 0 := by
    intro i o hi
    have : (run [.alloc, .link 0 0, .dropRoot 0]).heap = [some { refs := 1, gcRefs := 0, gen := 0, children := [0] }] := rfl
    rw [this] at hi
    match i, hi with
    | 0, hi => simp [Heap.get] at hi; subst hi; simp
    | (k+1), hi => simp [Heap.get] at hi
  exact no_reach_of_no_roots rfl (reachG_reach hall h)
/-- `promotion` / `young_collect_sound`: a held container is `ReachG` and is promoted, not freed, by `gc 0` -/
example : ReachG (run [.alloc]) 0 0 := ReachG.root (by decide)
/-- `promotion` / `collected_lists_empty`: a held young container survives `gc 0` (so there are survivors to speak of) -/
example : ((run ([.alloc] ++ [.gc 0])).heap.get 0).isSome :=
  (collect_keeps_reachable [.alloc] 0 0 (Reach.root (by decide))).1
/-- `alloc_trigger`: both branches occur (default threshold 100; threshold 0 collects in every allocation) -/
example : (run []).p0 < (run []).t0 ∧ (run [.setThr 0 0]).t0 ≤ (run [.setThr 0 0]).p0 := by decide

/-! ## non-vacuity -/

/-- there are histories with live, held containers -/
example : (run [.alloc, .alloc, .link 1 0]).heap =
    [some { refs := 2, gcRefs := 0, gen := 0, children := [] }, some { refs := 1, gcRefs := 0, gen := 0, children := [0] }] ∧
    (run [.alloc, .alloc, .link 1 0]).roots = [1, 0] := ⟨rfl, rfl⟩

/-- there are histories that leave cyclic garbage behind: a container holding itself, no holder left;
it is live, has count 1, is unreachable — the hypotheses of `garbage_is_cyclic` are satisfiable -/
example : (run [.alloc, .link 0 0, .dropRoot 0]).heap = [some { refs := 1, gcRefs := 0, gen := 0, children := [0] }] ∧
    (run [.alloc, .link 0 0, .dropRoot 0]).roots = [] := ⟨rfl, rfl⟩

example : ¬ Reach (run [.alloc, .link 0 0, .dropRoot 0]) 0 := fun h => no_reach_of_no_roots rfl h

/-- ... and the full collection really removes it (`cyclic_by_full_gc` is not about an empty set of histories) -/
example : (run ([.alloc, .link 0 0, .dropRoot 0] ++ [.gc 2])).heap.get 0 = none := by
  cases h : (run ([.alloc, .link 0 0, .dropRoot 0] ++ [.gc 2])).heap.get 0 with
  | none => rfl
  | some ob =>
    exfalso
    have hr := cyclic_by_full_gc [.alloc, .link 0 0, .dropRoot 0] 2 (by omega) 0 ob h
    have hroots : (run ([.alloc, .link 0 0, .dropRoot 0] ++ [.gc 2])).roots = [] := by
      have hrun : run ([.alloc, .link 0 0, .dropRoot 0] ++ [.gc 2]) = (gc (run [.alloc, .link 0 0, .dropRoot 0]) 2).1 := by
        simp [run, step]
      rw [hrun]
      obtain ⟨g, hg, he, _⟩ := gc_eq (run [.alloc, .link 0 0, .dropRoot 0]) 2
      rw [he, (inv_collectGen _ g hg (inv_run _)).2.1]
      rfl
    exact no_reach_of_no_roots hroots hr

/-- a held container survives a full collection (`collect_keeps_reachable` has satisfiable hypotheses and the
heap after a full collection is not always empty) -/
example : ((run ([.alloc] ++ [.gc 2])).heap.get 0).isSome :=
  (collect_keeps_reachable [.alloc] 2 0 (Reach.root (by decide))).1

/-- an element fetched through a container and held by the host (`take`) survives the container's owner letting go of it:
the history is accepted (not a no-op) and leaves two holders -/
example : (run [.alloc, .alloc, .link 1 0, .dropRoot 0, .take 1 0]).roots = [0, 1] ∧
    (run [.alloc, .alloc, .link 1 0, .dropRoot 0, .take 1 0]).heap.get 0 = some { refs := 2, gcRefs := 0, gen := 0, children := [] } :=
  ⟨rfl, rfl⟩

/-! ## the defect that was repaired, on the model of the unrepaired code (`legacy = true`) -/

/-- `x[1]=1; hawk::gc(0); y[1]=x; y[2]=y; y=@nil; hawk::gc(0)`:
0 = `x` (promoted by the first collection), 1 = `y` (young, cyclic, refers to `x`) -/
def reproducer : List Op := [.alloc, .gc 0, .alloc, .link 1 0, .link 1 1, .dropRoot 1, .gc 0]

/-- with the unguarded decrement of `gc_trace_refs` the ledger breaks on the reproducer: `y` is collected but
`x` keeps count 2 with one holder and nothing referring to it, and is left carrying `GCH_UNREACHABLE`
(so the hypothesis `legacy = false` of the theorems above cannot be dropped, and the C before the patch —
which this variant of the model matches line by line on every generated history — violates the property) -/
theorem legacy_breaks_ledger :
    ∃ o, (reproducer.foldl step { legacy := true }).heap.get 0 = some o ∧ o.refs = 2 ∧
      (reproducer.foldl step { legacy := true }).roots.count 0 = 1 ∧
      inDeg (reproducer.foldl step { legacy := true }).heap 0 = 0 ∧ o.gcRefs = GCH_UNREACHABLE ∧
      (reproducer.foldl step { legacy := true }).heap.get 1 = none := by
  refine ⟨{ refs := 2, gcRefs := -2, gen := 1, children := [] }, ?_⟩
  simp [reproducer, step, alloc, gc, collectGen, mergeYounger, tracePhase1, tracePhase2, moveReachables, moveRoots,
    freeUnreachables, markUnreachable, promote, bumpPressure, Heap.upd, Heap.edgesWhere, Heap.idsWhere, Heap.get,
    decChild, link, refup, dropRoot, refdown, moveLoop_nil, cascade_cons, cascade_nil, finalizePreserve, dropShells,
    GCH_MOVED, GCH_UNREACHABLE, TMP, List.range, List.range.loop, inDeg, cnt]

/-- the repaired code on the same history: `x` is back to count 1 with `GCH_MOVED`, `y` is gone
(a collection that frees an unreachable container whose element lives in an older generation) -/
example : (run reproducer).heap = [some { refs := 1, gcRefs := GCH_MOVED, gen := 1, children := [] }, none] := by
  simp [reproducer, run, step, alloc, gc, collectGen, mergeYounger, tracePhase1, tracePhase2, moveReachables, moveRoots,
    freeUnreachables, markUnreachable, promote, bumpPressure, Heap.upd, Heap.edgesWhere, Heap.idsWhere, Heap.get,
    decChild, link, refup, dropRoot, refdown, moveLoop_nil, cascade_cons, cascade_nil, finalizePreserve, dropShells,
    GCH_MOVED, GCH_UNREACHABLE, TMP, List.range, List.range.loop]

end Hawk.Gc.C07
