import HawkModel.GcLemmas
/-!
# C07 — values live exactly as long as they are reachable

Theorems about `Hawk.Gc` (lean/HawkModel/Gc.lean), the model of the reference counting and of the
generational cycle collector of lib/val.c **as repaired by patches/gc-stale-gcrefs.diff**
(`legacy = false`, the default of the initial state).  All of them are about *every* history
`run ops`, `ops : List Op` any sequence of client operations (allocation incl. the collection by
pressure inside it, storing/deleting/overwriting container elements, clearing a container, taking and
dropping external references, explicit collections of any generation incl. `-1`/out of range,
threshold changes); an operation whose precondition fails is a no-op.

`Reach s o` = `o` can be reached from an external holder (`s.roots`) through container elements.
`inDeg h o` = number of container elements, over all live containers of `h`, that are `o`.
-/
namespace Hawk.Gc.C07
open Hawk.Gc

/-- the C never runs into `HAWK_ASSERT (val->v_refs > 0)` and never follows a pointer to a freed container -/
theorem no_fault (ops : List Op) : (run ops).fault = false := (inv_run ops).c.nofault

/-- **LedgerInv**: the reference count of every live container is exactly the number of external holders
plus the number of elements of live containers referring to it -/
theorem ledger (ops : List Op) (i : Id) (o : Obj) (h : (run ops).heap.get i = some o) :
    o.refs = (run ops).roots.count i + inDeg (run ops).heap i := by
  have := (inv_run ops).c.ledger i o h ((inv_run ops).unmarked h)
  simpa using this

/-- the ledger (with the rest of the invariant) is kept by every single operation from any state satisfying it;
this includes a collection freeing an unreachable container whose elements live in an older generation
(`inv_collectGen`: their counts are decremented, nothing is skipped because of a stale sentinel) -/
theorem ledger_preserved (s : St) (op : Op) (h : Inv s) :
    Inv (step s op) ∧ ∀ i o, (step s op).heap.get i = some o →
      o.refs = (step s op).roots.count i + inDeg (step s op).heap i := by
  have h' := inv_step s op h
  refine ⟨h', fun i o hi => ?_⟩
  have := h'.c.ledger i o hi (h'.unmarked hi)
  simpa using this

/-- no container holds a freed container (not even garbage does: later collections walk it) -/
theorem no_dangling (ops : List Op) (i : Id) (o : Obj) (c : Id) (h : (run ops).heap.get i = some o)
    (hc : c ∈ o.children) : ((run ops).heap.get c).isSome := (inv_run ops).c.closed i o h c hc

/-- **safety**: whatever an external holder can reach has not been freed -/
theorem safety (ops : List Op) (o : Id) (h : Reach (run ops) o) : ((run ops).heap.get o).isSome :=
  reach_live (inv_run ops) h

/-- safety, step form: a container that an operation frees (by a refdown cascade or by a collection) is
unreachable when the operation is over -/
theorem freed_unreachable (ops : List Op) (op : Op) (o : Id)
    (hfreed : (run (ops ++ [op])).heap.get o = none) : ¬ Reach (run (ops ++ [op])) o := by
  intro hr
  have := safety (ops ++ [op]) o hr
  rw [hfreed] at this
  cases this

/-- safety of a collection, in terms of the state *before* it: everything reachable when `hawk_rtx_gc (gen)`
is called (any `gen`) is still there and still reachable when it returns; holders and the elements of the
survivors are unchanged -/
theorem collect_keeps_reachable (ops : List Op) (gen : Int) (o : Id) (h : Reach (run ops) o) :
    ((run (ops ++ [.gc gen])).heap.get o).isSome ∧ Reach (run (ops ++ [.gc gen])) o := by
  have hrun : run (ops ++ [.gc gen]) = (gc (run ops) gen).1 := by simp [run, step]
  rw [hrun]
  obtain ⟨g, hg, he, _⟩ := gc_eq (run ops) gen
  rw [he]
  obtain ⟨hinv', hroots, hframe, _⟩ := inv_collectGen (run ops) g hg (inv_run ops)
  exact reach_survives hinv' hroots hframe h

/-- **acyclic_immediate**, count form: a live container never has count 0 (a count that reaches 0 frees the
container within the same operation, recursively through its elements), and it is held or referred to -/
theorem acyclic_immediate (ops : List Op) (o : Id) (ob : Obj) (h : (run ops).heap.get o = some ob) :
    0 < ob.refs ∧ (o ∈ (run ops).roots ∨ ∃ p op, (run ops).heap.get p = some op ∧ o ∈ op.children) := by
  have hpos := (inv_run ops).c.pos o ob h ((inv_run ops).unmarked h)
  refine ⟨hpos, ?_⟩
  have hl := ledger ops o ob h
  by_cases hr : 0 < (run ops).roots.count o
  · exact Or.inl (List.count_pos_iff.mp hr)
  · right
    have : 0 < inDeg (run ops).heap o := by omega
    obtain ⟨p, op, hp, hm⟩ := exists_parent_of_inDeg_pos this
    exact ⟨p, op, hp, hm⟩

/-- **acyclic_immediate**, graph form: garbage that is still in the heap after an operation is referred to by
other garbage — so every chain of referrers stays inside the (finite) garbage: it is on or behind a cycle.
Acyclic garbage does not survive the operation that made it garbage. -/
theorem garbage_is_cyclic (ops : List Op) (o : Id) (ob : Obj) (h : (run ops).heap.get o = some ob)
    (hu : ¬ Reach (run ops) o) :
    ∃ p op, (run ops).heap.get p = some op ∧ ¬ Reach (run ops) p ∧ o ∈ op.children := by
  rcases (acyclic_immediate ops o ob h).2 with hr | ⟨p, op, hp, hm⟩
  · exact absurd (Reach.root hr) hu
  · exact ⟨p, op, hp, fun hrp => hu (Reach.step hrp hp hm), hm⟩

/-- **cyclic_by_full_gc**: after a full collection (`hawk_rtx_gc (2)`, or any larger argument, which the C
clamps — `HAWK_RTX_GC_GEN_FULL` is `INT_MAX`) every container left in the heap is reachable from a holder -/
theorem cyclic_by_full_gc (ops : List Op) (gen : Int) (hfull : 2 ≤ gen) (o : Id) (ob : Obj)
    (h : (run (ops ++ [.gc gen])).heap.get o = some ob) : Reach (run (ops ++ [.gc gen])) o := by
  have hrun : run (ops ++ [.gc gen]) = (gc (run ops) gen).1 := by simp [run, step]
  rw [hrun] at h ⊢
  obtain ⟨g, _, he, h3, h2⟩ := gc_eq (run ops) gen
  have hg2 : g = 2 := by
    by_cases e : gen = 2
    · exact h2 e
    · exact h3 (by omega)
  subst hg2
  rw [he] at h ⊢
  exact full_collect_reach (run ops) (inv_run ops) o ob h

/-- **teardown_empty**: after `fini_rtx` (every holder lets go, then a full collection) no container is left:
every block obtained for a container has gone back to the host allocator; and no assertion was hit on the way -/
theorem teardown_empty (ops : List Op) :
    (∀ i, (teardown (run ops)).heap.get i = none) ∧ (teardown (run ops)).fault = false := by
  obtain ⟨hinv, hroots⟩ := dropAll_spec (run ops).roots (run ops) (inv_run ops) rfl
  unfold teardown
  obtain ⟨g, _, he, h3, _⟩ := gc_eq ((run ops).roots.foldl (fun s r => (dropRoot s r).getD s) (run ops)) 2147483647
  have hg2 : g = 2 := h3 (by omega)
  subst hg2
  rw [he]
  obtain ⟨hinv', hroots', _, _⟩ := inv_collectGen _ 2 (by omega) hinv
  refine ⟨?_, hinv'.c.nofault⟩
  intro i
  cases hi : (collectGen ((run ops).roots.foldl (fun s r => (dropRoot s r).getD s) (run ops)) 2).heap.get i with
  | none => rfl
  | some o =>
    exfalso
    have hr := full_collect_reach _ hinv i o hi
    exact no_reach_of_no_roots (by rw [hroots', hroots]) hr

/-- between operations no container carries the `GCH_UNREACHABLE` sentinel (the element freeers' test can only
fire inside `gc_free_unreachables`): a container is in generation 0 with the `gc_refs` it was allocated with, or
in generation 1 or 2 with `GCH_MOVED` -/
theorem gcrefs_clean (ops : List Op) (i : Id) (o : Obj) (h : (run ops).heap.get i = some o) :
    o.gcRefs ≠ GCH_UNREACHABLE ∧ o.gen ≤ 2 ∧ ((o.gen = 0 ∧ o.gcRefs = 0) ∨ (1 ≤ o.gen ∧ o.gcRefs = GCH_MOVED)) := by
  have hg := (inv_run ops).gc i o h
  refine ⟨hg.unmarked, ?_, ?_⟩
  · rcases hg with ⟨_, _, h2⟩ | ⟨_, h0⟩ <;> omega
  · rcases hg with ⟨hm, h1, _⟩ | ⟨hz, h0⟩
    · exact Or.inr ⟨h1, hm⟩
    · exact Or.inl ⟨h0, hz⟩

/-- the encoding of the sentinels is the C's: one decrement of a stale `GCH_MOVED` is `GCH_UNREACHABLE`
(the aliasing behind the defect repaired by patches/gc-stale-gcrefs.diff) -/
theorem sentinel_alias : GCH_MOVED - 1 = GCH_UNREACHABLE := rfl

/-! ## non-vacuity -/

/-- there are histories with live, held containers -/
example : (run [.alloc, .alloc, .link 1 0]).heap =
    [some { refs := 2, gcRefs := 0, gen := 0, children := [] }, some { refs := 1, gcRefs := 0, gen := 0, children := [0] }] ∧
    (run [.alloc, .alloc, .link 1 0]).roots = [1, 0] := ⟨rfl, rfl⟩

/-- there are histories that leave cyclic garbage behind: a container holding itself, no holder left;
it is live, has count 1, is unreachable — the hypotheses of `garbage_is_cyclic` are satisfiable -/
example : (run [.alloc, .link 0 0, .dropRoot 0]).heap = [some { refs := 1, gcRefs := 0, gen := 0, children := [0] }] ∧
    (run [.alloc, .link 0 0, .dropRoot 0]).roots = [] := ⟨rfl, rfl⟩

example : ¬ Reach (run [.alloc, .link 0 0, .dropRoot 0]) 0 := fun h => no_reach_of_no_roots rfl h

/-- ... and the full collection really removes it (`cyclic_by_full_gc` is not about an empty set of histories) -/
example : (run ([.alloc, .link 0 0, .dropRoot 0] ++ [.gc 2])).heap.get 0 = none := by
  cases h : (run ([.alloc, .link 0 0, .dropRoot 0] ++ [.gc 2])).heap.get 0 with
  | none => rfl
  | some ob =>
    exfalso
    have hr := cyclic_by_full_gc [.alloc, .link 0 0, .dropRoot 0] 2 (by omega) 0 ob h
    have hroots : (run ([.alloc, .link 0 0, .dropRoot 0] ++ [.gc 2])).roots = [] := by
      have hrun : run ([.alloc, .link 0 0, .dropRoot 0] ++ [.gc 2]) = (gc (run [.alloc, .link 0 0, .dropRoot 0]) 2).1 := by
        simp [run, step]
      rw [hrun]
      obtain ⟨g, hg, he, _⟩ := gc_eq (run [.alloc, .link 0 0, .dropRoot 0]) 2
      rw [he, (inv_collectGen _ g hg (inv_run _)).2.1]
      rfl
    exact no_reach_of_no_roots hroots hr

/-- a held container survives a full collection (`collect_keeps_reachable` has satisfiable hypotheses and the
heap after a full collection is not always empty) -/
example : ((run ([.alloc] ++ [.gc 2])).heap.get 0).isSome :=
  (collect_keeps_reachable [.alloc] 2 0 (Reach.root (by decide))).1

/-- an element fetched through a container and held by the host (`take`) survives the container's owner letting go of it:
the history is accepted (not a no-op) and leaves two holders -/
example : (run [.alloc, .alloc, .link 1 0, .dropRoot 0, .take 1 0]).roots = [0, 1] ∧
    (run [.alloc, .alloc, .link 1 0, .dropRoot 0, .take 1 0]).heap.get 0 = some { refs := 2, gcRefs := 0, gen := 0, children := [] } :=
  ⟨rfl, rfl⟩

/-! ## the defect that was repaired, on the model of the unrepaired code (`legacy = true`) -/

/-- `x[1]=1; hawk::gc(0); y[1]=x; y[2]=y; y=@nil; hawk::gc(0)`:
0 = `x` (promoted by the first collection), 1 = `y` (young, cyclic, refers to `x`) -/
def reproducer : List Op := [.alloc, .gc 0, .alloc, .link 1 0, .link 1 1, .dropRoot 1, .gc 0]

/-- with the unguarded decrement of `gc_trace_refs` the ledger breaks on the reproducer: `y` is collected but
`x` keeps count 2 with one holder and nothing referring to it, and is left carrying `GCH_UNREACHABLE`
(so the hypothesis `legacy = false` of the theorems above cannot be dropped, and the C before the patch —
which this variant of the model matches line by line on every generated history — violates the property) -/
theorem legacy_breaks_ledger :
    ∃ o, (reproducer.foldl step { legacy := true }).heap.get 0 = some o ∧ o.refs = 2 ∧
      (reproducer.foldl step { legacy := true }).roots.count 0 = 1 ∧
      inDeg (reproducer.foldl step { legacy := true }).heap 0 = 0 ∧ o.gcRefs = GCH_UNREACHABLE ∧
      (reproducer.foldl step { legacy := true }).heap.get 1 = none := by
  refine ⟨{ refs := 2, gcRefs := -2, gen := 1, children := [] }, ?_⟩
  simp [reproducer, step, alloc, gc, collectGen, mergeYounger, tracePhase1, tracePhase2, moveReachables, moveRoots,
    freeUnreachables, markUnreachable, promote, bumpPressure, Heap.upd, Heap.edgesWhere, Heap.idsWhere, Heap.get,
    decChild, link, refup, dropRoot, refdown, moveLoop_nil, cascade_cons, cascade_nil, finalizePreserve, dropShells,
    GCH_MOVED, GCH_UNREACHABLE, TMP, List.range, List.range.loop, inDeg, cnt]

/-- the repaired code on the same history: `x` is back to count 1 with `GCH_MOVED`, `y` is gone
(a collection that frees an unreachable container whose element lives in an older generation) -/
example : (run reproducer).heap = [some { refs := 1, gcRefs := GCH_MOVED, gen := 1, children := [] }, none] := by
  simp [reproducer, run, step, alloc, gc, collectGen, mergeYounger, tracePhase1, tracePhase2, moveReachables, moveRoots,
    freeUnreachables, markUnreachable, promote, bumpPressure, Heap.upd, Heap.edgesWhere, Heap.idsWhere, Heap.get,
    decChild, link, refup, dropRoot, refdown, moveLoop_nil, cascade_cons, cascade_nil, finalizePreserve, dropShells,
    GCH_MOVED, GCH_UNREACHABLE, TMP, List.range, List.range.loop]

end Hawk.Gc.C07
