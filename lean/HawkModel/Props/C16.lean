import HawkModel.RbtLemmasInv
import HawkModel.RbtLemmasItr
/-!
# C16 (red-black tree half) — maps behave as ordered dictionaries and stay balanced

Property theorems only; helpers live in `RbtLemmas*.lean`.  Model: `HawkModel/Rbt.lean`, a
shape-exact transcription of lib/rbt.c (`insert` + `adjust`, `delete_pair` + `adjust_for_delete`
as REPAIRED by patches/rbt-delete-fixup.diff, `get_next_pair`, `hawk_rbt_walk/rwalk/clear`).

* `Inv t` = binary-search-tree order ∧ black root ∧ no red pair with a red child ∧ the same
  number of black pairs on every path (`Bal`, restated over explicit paths in
  `bal_iff_all_paths_equal`).
* the ideal dictionary is an association list sorted by key (`insList`, `delList`, `alookup`);
  every entry point is proved to return what that dictionary returns (pair / EEXIST / ENOENT)
  and to leave a tree whose in-order list is the dictionary's new list.
* iteration: the stateful iterator returns exactly the in-order list (forward) or its reverse
  (backward), call by call, then NULL; `hawk_rbt_walk` / `hawk_rbt_rwalk` are total functions
  (their loop is accepted with a decreasing measure) and visit exactly those lists.
-/
namespace Hawk.Rbt
open Color T

variable {V : Type}

inductive Op (V : Type) where
  | insert (k : Nat) (v : V)
  | upsert (k : Nat) (v : V)
  | update (k : Nat) (v : V)
  | ensert (k : Nat) (v : V)
  /-- `hawk_rbt_cbsert` with a callback that decides as `f` (see `Hawk.Rbt.cbsert`) -/
  | cbsert (k : Nat) (f : Option V → Option V)
  | delete (k : Nat)
  | clear

def step (t : T V) : Op V → T V
  | .insert k v => (insert t k v).1
  | .upsert k v => (upsert t k v).1
  | .update k v => (update t k v).1
  | .ensert k v => (ensert t k v).1
  | .cbsert k f => (cbsert t k f).1
  | .delete k => (delete t k).1
  | .clear => clear t

/-- the tree reached from the empty tree by any history of mutating calls
    (lookups and iteration do not change the tree) -/
def run (ops : List (Op V)) : T V := ops.foldl step nil

/-- the ideal dictionary run on the same history -/
def specStep (xs : List (Nat × V)) : Op V → List (Nat × V)
  | .insert k v => if (alookup k xs).isSome then xs else insList k v xs
  | .upsert k v => insList k v xs
  | .update k v => if (alookup k xs).isSome then insList k v xs else xs
  | .ensert k v => if (alookup k xs).isSome then xs else insList k v xs
  | .cbsert k f => match f (alookup k xs) with
    | some v' => insList k v' xs
    | none => xs
  | .delete k => delList k xs
  | .clear => []

def specRun (ops : List (Op V)) : List (Nat × V) := ops.foldl specStep []

/-! ## what the invariant says -/

/-- `Bal` is "every path from the root to a sentinel has the same number of black pairs" -/
theorem bal_iff_all_paths_equal (t : T V) :
    Bal t ↔ ∀ a ∈ blackPaths t, ∀ b ∈ blackPaths t, a = b :=
  ⟨fun h a ha b hb => by rw [bal_paths t h a ha, bal_paths t h b hb], paths_bal t⟩

/-- `Ordered` (strictly ascending in-order keys) is the recursive search-tree order -/
theorem ordered_iff_bst (t : T V) : Ordered t ↔ BST t := ordered_iff_BST t

/-! ## the invariants are kept -/

/-- insert / upsert / update / ensert keep the red-black invariants -/
theorem insert_inv (opt : Opt) (t : T V) (k : Nat) (v : V) (h : Inv t) : Inv (insertOp opt t k v).1 := by
  obtain ⟨ho, hc, hn, hb⟩ := h
  have hset : search t k ≠ none → Inv (setVal k v t) := by
    intro hs
    have sh := setVal_shape k v t
    refine ⟨?_, by rw [sh.1]; exact hc, sh.2.2.1 hn, sh.2.2.2.1 hb⟩
    unfold Ordered; rw [toList_setVal k v t ho hs]; exact sorted_insList _ _ _ ho
  have hins : Inv (setBlack (ins k v t)) := by
    obtain ⟨a, _, b, _⟩ := ins_inv k v t hn hb
    refine ⟨?_, col_setBlack _, NoRR_setBlack a, Bal_setBlack b⟩
    unfold Ordered; rw [toList_setBlack, toList_ins k v t ho]; exact sorted_insList _ _ _ ho
  unfold insertOp
  split
  · rename_i v0 hs
    have hs' : search t k ≠ none := by rw [hs]; simp
    split
    · exact hset hs'
    · exact hset hs'
    · exact ⟨ho, hc, hn, hb⟩
    · exact ⟨ho, hc, hn, hb⟩
  · split
    · exact ⟨ho, hc, hn, hb⟩
    · exact hins

/-- `hawk_rbt_cbsert` keeps the red-black invariants whatever the callback decides
    (keep, change in place, re-allocate, create, fail) -/
theorem cbsert_inv (t : T V) (k : Nat) (f : Option V → Option V) (h : Inv t) : Inv (cbsert t k f).1 := by
  unfold cbsert
  split
  · rename_i v0 hs
    split
    · exact h
    · rename_i v' _
      have := insert_inv .upsert t k v' h
      simpa [insertOp, hs] using this
  · rename_i hs
    split
    · exact h
    · rename_i v' _
      have := insert_inv .upsert t k v' h
      simpa [insertOp, hs] using this

/-- delete keeps the red-black invariants (all cases of `delete_pair` / `adjust_for_delete`) -/
theorem delete_inv (t : T V) (k : Nat) (h : Inv t) : Inv (delete t k).1 := by
  obtain ⟨ho, hc, hn, hb⟩ := h
  unfold delete
  split
  · exact ⟨ho, hc, hn, hb⟩
  · obtain ⟨h1, h2, _, h4⟩ := del_inv k t hn hb
    refine ⟨?_, h4 hc, h1, h2⟩
    unfold Ordered; rw [toList_del k t ho]; exact sorted_delList _ _ ho

/-- `hawk_rbt_clear` terminates (its loop is a total function) and leaves the empty tree -/
theorem clear_empty (t : T V) : clear t = nil := clear_eq t

theorem empty_inv : Inv (nil : T V) := by simp [Inv, Ordered]

theorem step_inv (t : T V) (op : Op V) (h : Inv t) : Inv (step t op) := by
  cases op with
  | insert k v => exact insert_inv .insert t k v h
  | upsert k v => exact insert_inv .upsert t k v h
  | update k v => exact insert_inv .update t k v h
  | ensert k v => exact insert_inv .ensert t k v h
  | cbsert k f => exact cbsert_inv t k f h
  | delete k => exact delete_inv t k h
  | clear => simp only [step, clear_empty]; exact empty_inv

/-- every tree reachable from the empty tree by any history satisfies the invariants -/
theorem reachable_inv (ops : List (Op V)) : Inv (run ops) := by
  unfold run
  suffices ∀ t : T V, Inv t → Inv (ops.foldl step t) from this nil empty_inv
  induction ops with
  | nil => intro t h; exact h
  | cons op ops ih => intro t h; exact ih _ (step_inv t op h)

/-! ## balance: height ≤ 2·log2(n+1) -/

theorem height_bound (t : T V) (h : Inv t) : 2 ^ ((height t + 1) / 2) ≤ size t + 1 := by
  obtain ⟨_, hc, hn, hb⟩ := h
  have h1 := height_le_bh t hn hb
  rw [hc] at h1
  simp at h1
  have h2 := pow_bh_le_size t hb
  have h3 : (height t + 1) / 2 ≤ bh t := by omega
  exact Nat.le_trans (Nat.pow_le_pow_right (by omega) h3) h2

theorem height_le_two_log2 (t : T V) (h : Inv t) : height t ≤ 2 * Nat.log2 (size t + 1) := by
  obtain ⟨_, hc, hn, hb⟩ := h
  have h1 := height_le_bh t hn hb
  rw [hc] at h1
  simp at h1
  have h2 := pow_bh_le_size t hb
  have h3 : bh t ≤ Nat.log2 (size t + 1) := (Nat.le_log2 (by omega)).2 h2
  omega

/-- after any history the height never exceeds 2·log2(n+1) -/
theorem reachable_height_bound (ops : List (Op V)) :
    height (run ops) ≤ 2 * Nat.log2 (size (run ops) + 1) :=
  height_le_two_log2 _ (reachable_inv ops)

/-! ## dictionary refinement (return values included) -/

/-- lookup returns what the dictionary holds -/
theorem search_spec (t : T V) (k : Nat) (h : Inv t) : search t k = alookup k (toList t) :=
  search_eq_alookup k t h.1

/-- `hawk_rbt_insert`: EEXIST and no change on a present key, otherwise the new pair is returned
    and the dictionary gains it -/
theorem insert_spec (t : T V) (k : Nat) (v : V) (h : Inv t) :
    (∀ v0, alookup k (toList t) = some v0 → insert t k v = (t, .eexist)) ∧
    (alookup k (toList t) = none →
      toList (insert t k v).1 = insList k v (toList t) ∧ (insert t k v).2 = .pair k v) := by
  rw [← search_spec t k h]
  unfold insert insertOp
  refine ⟨fun v0 hs => by simp [hs], fun hs => ?_⟩
  simp [hs, toList_ins k v t h.1]

/-- `hawk_rbt_upsert`: the pair is returned and the dictionary maps `k` to `v` afterwards -/
theorem upsert_spec (t : T V) (k : Nat) (v : V) (h : Inv t) :
    toList (upsert t k v).1 = insList k v (toList t) ∧ (upsert t k v).2 = .pair k v := by
  unfold upsert insertOp
  split
  · rename_i v0 hs
    have hs' : search t k ≠ none := by rw [hs]; simp
    simp [toList_setVal k v t h.1 hs']
  · simp [toList_ins k v t h.1]

/-- `hawk_rbt_update`: ENOENT and no change on an absent key, otherwise the value is replaced -/
theorem update_spec (t : T V) (k : Nat) (v : V) (h : Inv t) :
    (alookup k (toList t) = none → update t k v = (t, .enoent)) ∧
    (∀ v0, alookup k (toList t) = some v0 →
      toList (update t k v).1 = insList k v (toList t) ∧ (update t k v).2 = .pair k v) := by
  rw [← search_spec t k h]
  unfold update insertOp
  refine ⟨fun hs => by simp [hs], fun v0 hs => ?_⟩
  have hs' : search t k ≠ none := by rw [hs]; simp
  simp [hs, toList_setVal k v t h.1 hs']

/-- `hawk_rbt_ensert`: the existing pair (with its old value) is returned unchanged for a present
    key, otherwise the new pair is inserted and returned -/
theorem ensert_spec (t : T V) (k : Nat) (v : V) (h : Inv t) :
    (∀ v0, alookup k (toList t) = some v0 → ensert t k v = (t, .pair k v0)) ∧
    (alookup k (toList t) = none →
      toList (ensert t k v).1 = insList k v (toList t) ∧ (ensert t k v).2 = .pair k v) := by
  rw [← search_spec t k h]
  unfold ensert insertOp
  refine ⟨fun v0 hs => by simp [hs], fun hs => ?_⟩
  simp [hs, toList_ins k v t h.1]

/-- `hawk_rbt_cbsert`: the callback sees the dictionary's current value for the key (or none);
    if it fails nothing changes and NULL is returned, otherwise the pair it answers is returned
    and the dictionary maps the key to the answered value -/
theorem cbsert_spec (t : T V) (k : Nat) (f : Option V → Option V) (h : Inv t) :
    (f (alookup k (toList t)) = none → cbsert t k f = (t, .failed)) ∧
    (∀ v', f (alookup k (toList t)) = some v' →
      toList (cbsert t k f).1 = insList k v' (toList t) ∧ (cbsert t k f).2 = .pair k v') := by
  rw [← search_spec t k h]
  unfold cbsert
  constructor
  · intro hf
    cases hs : search t k with
    | none => rw [hs] at hf; simp [hf]
    | some v0 => rw [hs] at hf; simp [hf]
  · intro v' hf
    cases hs : search t k with
    | none => rw [hs] at hf; simp [hf, toList_ins k v' t h.1]
    | some v0 =>
      rw [hs] at hf
      have hs' : search t k ≠ none := by rw [hs]; simp
      simp [hf, toList_setVal k v' t h.1 hs']

/-- `hawk_rbt_delete`: -1/ENOENT and no change on an absent key, otherwise 0 and the pair is gone -/
theorem delete_spec (t : T V) (k : Nat) (h : Inv t) :
    (alookup k (toList t) = none → delete t k = (t, false)) ∧
    (∀ v0, alookup k (toList t) = some v0 →
      toList (delete t k).1 = delList k (toList t) ∧ (delete t k).2 = true) := by
  rw [← search_spec t k h]
  unfold delete
  refine ⟨fun hs => by simp [hs], fun v0 hs => ?_⟩
  simp [hs, toList_del k t h.1]

/-- the tree after any history holds exactly the pairs of the ideal dictionary after the same
    history, in key order -/
theorem reachable_refines (ops : List (Op V)) : toList (run ops) = specRun ops := by
  unfold run specRun
  suffices ∀ (t : T V), Inv t → toList (ops.foldl step t) = ops.foldl specStep (toList t) from
    this nil empty_inv
  induction ops with
  | nil => intro t _; rfl
  | cons op ops ih =>
    intro t h
    simp only [List.foldl_cons]
    rw [ih _ (step_inv t op h)]
    congr 1
    cases op with
    | insert k v =>
      simp only [step, specStep]
      cases hs : alookup k (toList t) with
      | none => simpa using ((insert_spec t k v h).2 hs).1
      | some v0 => simp [(insert_spec t k v h).1 v0 hs]
    | upsert k v => exact (upsert_spec t k v h).1
    | update k v =>
      simp only [step, specStep]
      cases hs : alookup k (toList t) with
      | none => simp [(update_spec t k v h).1 hs]
      | some v0 => simpa using ((update_spec t k v h).2 v0 hs).1
    | ensert k v =>
      simp only [step, specStep]
      cases hs : alookup k (toList t) with
      | none => simpa using ((ensert_spec t k v h).2 hs).1
      | some v0 => simp [(ensert_spec t k v h).1 v0 hs]
    | cbsert k f =>
      simp only [step, specStep]
      cases hf : f (alookup k (toList t)) with
      | none => simp [(cbsert_spec t k f h).1 hf]
      | some v' => simpa using ((cbsert_spec t k f h).2 v' hf).1
    | delete k =>
      simp only [step, specStep]
      cases hs : alookup k (toList t) with
      | none =>
        rw [(delete_spec t k h).1 hs]
        exact (delList_not_mem k _ (alookup_none_not_mem k _ hs)).symm
      | some v0 => exact ((delete_spec t k h).2 v0 hs).1
    | clear => simp [step, specStep, clear_empty]

/-- lookups after any history agree with the ideal dictionary -/
theorem reachable_search (ops : List (Op V)) (k : Nat) : search (run ops) k = alookup k (specRun ops) := by
  rw [search_spec _ _ (reachable_inv ops), reachable_refines]

/-- the laws of a finite map, read through `search`: after upsert -/
theorem search_upsert (t : T V) (k k' : Nat) (v : V) (h : Inv t) :
    search (upsert t k v).1 k' = if k' = k then some v else search t k' := by
  have hi : Inv (upsert t k v).1 := insert_inv .upsert t k v h
  rw [search_spec _ _ hi, (upsert_spec t k v h).1, alookup_insList, search_spec t k' h]

/-- after a successful delete the key is absent and every other key is untouched -/
theorem search_delete (t : T V) (k k' : Nat) (h : Inv t) :
    search (delete t k).1 k' = if k' = k then none else search t k' := by
  rw [search_spec _ _ (delete_inv t k h), search_spec t k' h]
  cases hs : alookup k (toList t) with
  | none =>
    rw [(delete_spec t k h).1 hs]
    split
    · rename_i e; subst e; exact hs
    · rfl
  | some v0 => rw [((delete_spec t k h).2 v0 hs).1, alookup_delList _ _ _ h.1]

/-! ## iteration in comparator order, both directions -/

/-- `hawk_rbt_walk` visits exactly the in-order list -/
theorem walk_forward (t : T V) : walk t = toList t := walk_eq t

/-- `hawk_rbt_rwalk` visits exactly the reversed in-order list -/
theorem walk_backward (t : T V) : rwalk t = (toList t).reverse := rwalk_eq t

/-- forward iteration yields strictly ascending keys, backward iteration strictly descending -/
theorem walk_sorted (t : T V) (h : Inv t) :
    (walk t).Pairwise (fun a b => a.1 < b.1) ∧ (rwalk t).Pairwise (fun a b => a.1 > b.1) := by
  rw [walk_forward, walk_backward]
  exact ⟨h.1, List.pairwise_reverse.2 h.1⟩

/-- every key of the dictionary is visited exactly once: the walk is a duplicate-free list whose
    members are exactly the stored pairs -/
theorem walk_exactly_once (t : T V) (h : Inv t) (k : Nat) (v : V) :
    ((k, v) ∈ walk t ↔ search t k = some v) ∧ ((walk t).map (·.1)).Nodup := by
  rw [walk_forward, search_spec t k h]
  have hs : SortedKV (toList t) := h.1
  constructor
  · generalize toList t = xs at hs
    induction xs with
    | nil => simp [alookup]
    | cons y ys ih =>
      obtain ⟨y1, y2⟩ := y
      have hy : ∀ z ∈ ys, y1 < z.1 := (List.pairwise_cons.1 hs).1
      simp only [alookup, List.mem_cons, Prod.mk.injEq]
      split
      · rename_i e; subst e
        constructor
        · rintro (⟨_, rfl⟩ | hm)
          · rfl
          · have := hy _ hm; simp at this
        · intro e; simp at e; exact Or.inl ⟨rfl, e.symm⟩
      · rename_i ne
        rw [← ih (List.pairwise_cons.1 hs).2]
        constructor
        · rintro (⟨e, _⟩ | hm)
          · exact absurd e ne
          · exact hm
        · exact Or.inr
  · have : ((toList t).map (·.1)).Pairwise (· < ·) := by
      rw [List.pairwise_map]; exact hs
    exact this.imp (fun h => Nat.ne_of_lt h)

/-- the stateful iterator (`hawk_rbt_getfirstpair`, then `i` calls of `hawk_rbt_getnextpair`)
    returns the `i`-th pair of the walk in the chosen direction and NULL from the end on -/
theorem iterator_enumerates (t : T V) (dir : Bool) (i : Nat) :
    (nextN i (getFirst t dir)).cur = (if dir then (toList t).reverse else toList t)[i]? := by
  rw [nextN_cur _ (getFirst_ok t dir), getFirst_dir, getFirst_posAll]
  rfl

/-! ## whole histories, return values included -/

/-- a call of the public interface -/
inductive Call (V : Type) where
  | op (o : Op V)
  | search (k : Nat)
  | walk
  | rwalk

/-- what a call hands back to the caller -/
inductive Ret (V : Type) where
  | res (r : Res V)            -- insert / upsert / update / ensert: the pair or the error number
  | deleted (ok : Bool)        -- delete: 0 or -1
  | cleared
  | found (v : Option V)       -- search: the value or NULL/ENOENT
  | walked (l : List (Nat × V))  -- the pairs handed to the walker, in order

/-- the real tree's answer -/
def callTree (t : T V) : Call V → T V × Ret V
  | .op (.insert k v) => ((insert t k v).1, .res (insert t k v).2)
  | .op (.upsert k v) => ((upsert t k v).1, .res (upsert t k v).2)
  | .op (.update k v) => ((update t k v).1, .res (update t k v).2)
  | .op (.ensert k v) => ((ensert t k v).1, .res (ensert t k v).2)
  | .op (.cbsert k f) => ((cbsert t k f).1, .res (cbsert t k f).2)
  | .op (.delete k) => ((delete t k).1, .deleted (delete t k).2)
  | .op .clear => (clear t, .cleared)
  | .search k => (t, .found (search t k))
  | .walk => (t, .walked (walk t))
  | .rwalk => (t, .walked (rwalk t))

/-- the ideal dictionary's answer -/
def callSpec (xs : List (Nat × V)) : Call V → List (Nat × V) × Ret V
  | .op (.insert k v) => match alookup k xs with
    | some _ => (xs, .res .eexist)
    | none => (insList k v xs, .res (.pair k v))
  | .op (.upsert k v) => (insList k v xs, .res (.pair k v))
  | .op (.update k v) => match alookup k xs with
    | some _ => (insList k v xs, .res (.pair k v))
    | none => (xs, .res .enoent)
  | .op (.ensert k v) => match alookup k xs with
    | some v0 => (xs, .res (.pair k v0))
    | none => (insList k v xs, .res (.pair k v))
  | .op (.cbsert k f) => match f (alookup k xs) with
    | some v' => (insList k v' xs, .res (.pair k v'))
    | none => (xs, .res .failed)
  | .op (.delete k) => (delList k xs, .deleted (alookup k xs).isSome)
  | .op .clear => ([], .cleared)
  | .search k => (xs, .found (alookup k xs))
  | .walk => (xs, .walked xs)
  | .rwalk => (xs, .walked xs.reverse)

/-- everything a client observes during a history -/
def observe {σ : Type} (call : σ → Call V → σ × Ret V) : σ → List (Call V) → List (Ret V)
  | _, [] => []
  | s, c :: cs => (call s c).2 :: observe call (call s c).1 cs

theorem call_refines (t : T V) (c : Call V) (h : Inv t) :
    Inv (callTree t c).1 ∧ toList (callTree t c).1 = (callSpec (toList t) c).1 ∧
    (callTree t c).2 = (callSpec (toList t) c).2 := by
  cases c with
  | op op =>
    cases op with
    | insert k v =>
      refine ⟨insert_inv .insert t k v h, ?_⟩
      simp only [callTree, callSpec]
      cases hs : alookup k (toList t) with
      | none => have := (insert_spec t k v h).2 hs; simp [this.1, this.2]
      | some v0 => have := (insert_spec t k v h).1 v0 hs; simp [this]
    | upsert k v =>
      refine ⟨insert_inv .upsert t k v h, ?_⟩
      have := upsert_spec t k v h
      simp [callTree, callSpec, this.1, this.2]
    | update k v =>
      refine ⟨insert_inv .update t k v h, ?_⟩
      simp only [callTree, callSpec]
      cases hs : alookup k (toList t) with
      | none => have := (update_spec t k v h).1 hs; simp [this]
      | some v0 => have := (update_spec t k v h).2 v0 hs; simp [this.1, this.2]
    | ensert k v =>
      refine ⟨insert_inv .ensert t k v h, ?_⟩
      simp only [callTree, callSpec]
      cases hs : alookup k (toList t) with
      | none => have := (ensert_spec t k v h).2 hs; simp [this.1, this.2]
      | some v0 => have := (ensert_spec t k v h).1 v0 hs; simp [this]
    | cbsert k f =>
      refine ⟨cbsert_inv t k f h, ?_⟩
      simp only [callTree, callSpec]
      cases hf : f (alookup k (toList t)) with
      | none => have := (cbsert_spec t k f h).1 hf; simp [this]
      | some v' => have := (cbsert_spec t k f h).2 v' hf; simp [this.1, this.2]
    | delete k =>
      refine ⟨delete_inv t k h, ?_⟩
      simp only [callTree, callSpec]
      cases hs : alookup k (toList t) with
      | none =>
        have := (delete_spec t k h).1 hs
        simp [this, delList_not_mem k _ (alookup_none_not_mem k _ hs)]
      | some v0 => have := (delete_spec t k h).2 v0 hs; simp [this.1, this.2]
    | clear => simp [callTree, callSpec, clear_empty, empty_inv]
  | search k => simp [callTree, callSpec, h, search_spec t k h]
  | walk => simp [callTree, callSpec, h, walk_forward]
  | rwalk => simp [callTree, callSpec, h, walk_backward]

/-- **the dictionary half of C16 for the red-black map**: under any sequence of insert, upsert,
    update, ensert, delete, clear, lookup and (forward / backward) iteration calls, starting
    from the empty map, every call returns exactly what the ideal dictionary returns -/
theorem history_refines (cs : List (Call V)) :
    observe callTree (nil : T V) cs = observe callSpec ([] : List (Nat × V)) cs := by
  suffices ∀ t : T V, Inv t → observe callTree t cs = observe callSpec (toList t) cs from
    this nil empty_inv
  induction cs with
  | nil => intro t _; rfl
  | cons c cs ih =>
    intro t h
    obtain ⟨h1, h2, h3⟩ := call_refines t c h
    simp only [observe]
    rw [ih _ h1, h2, h3]

/-! ## non-vacuity: the invariant holds of, and the theorems speak about, non-trivial trees -/

/-- the witness history of the repaired defect (insert 0,1,2,3; delete 0): the fix-up now runs
    with the sentinel as `x` and produces a balanced tree -/
example : run [Op.insert 0 10, .insert 1 11, .insert 2 12, .insert 3 13, .delete 0]
    = node B (node B nil 1 11 nil) 2 12 (node B nil 3 13 nil) := by rfl

example : Inv (run [Op.insert 0 10, .insert 1 11, .insert 2 12, .insert 3 13, .delete 0]) :=
  reachable_inv _

/-- a history that needs a double rotation on insert and the red-sibling case (rotation at the
    root, then re-colouring) on delete -/
example : run [Op.insert 5 0, .insert 3 0, .insert 4 0, .insert 6 0, .insert 7 0, .insert 8 0, .delete 3]
    = node B (node B nil 4 0 (node R nil 5 0 nil)) 6 0 (node B nil 7 0 (node R nil 8 0 nil)) := by rfl

/-- `cbsert` with an accumulating callback (existing value + 5, else 7): create, then change -/
example : run [Op.insert 1 10, .insert 0 11, .cbsert 2 (fun o => some (o.getD 2 + 5)),
      .cbsert 1 (fun o => some (o.getD 2 + 5)), .cbsert 0 (fun _ => none)]
    = node B (node R nil 0 11 nil) 1 15 (node R nil 2 7 nil) := by rfl

example : specRun [Op.insert 1 10, .insert 0 11, .cbsert 2 (fun o => some (o.getD 2 + 5)),
      .cbsert 1 (fun o => some (o.getD 2 + 5)), .cbsert 0 (fun _ => none)]
    = [(0, 11), (1, 15), (2, 7)] := by rfl

end Hawk.Rbt
