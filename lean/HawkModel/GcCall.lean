import HawkModel.Gc
/-!
# C07 — call frames as holders (lib/run.c `hawk_rtx_callfun` → `hawk_rtx_evalcall` → `run_block`)

A call of a hawk function by an embedding host, `hawk_rtx_callfun (rtx, fun, args, nargs)`, seen from the
reference-count ledger.  `hawk_rtx_evalcall` pushes a frame; `push_arg_from_vals` stores every argument in its
stack slot and takes a reference (`refupval`); `run_block` pushes the `@local` variables (nil), runs the body and,
**however the body ends** (normally, by `return`, by `exit`, by a run-time error), takes the references of the
locals back (`refdownval`) when it pops them; `rtx_return` evaluates the return expression and stores it into the
return-value slot with a reference; `hawk_rtx_evalcall` then takes the references of the arguments back in the
order `arg0 … argn`, hands the return value out (`refdownval_nofree` + the `refupval` of `hawk_rtx_callfun`: one
reference stays, owned by the host) or, on error, releases it.

Every one of these steps is an operation of `Hawk.Gc` (a stack slot is an external holder), so a call is a
**sequence of `Op`s determined by the state it starts in** (`callOps`; the identity of a container the body
allocates is the length of the heap).  The functions are the ones harness/gc_h.c compiles:

```
function keep (a, b, k) { return a; }
function drop2(a, b, k) { return 0; }
function dropr(a, &b, k) { return 0; }                               # a by-reference parameter, called from C: as drop2
function store(a, b, k) { a[k] = b; return 0; }                       # k: a free index/key of a, chosen by the host
function wrap (a, b, k) { @local t; t["k0"] = a; t["k1"] = b; return t; }
function cyc  (a, b, k) { @local t; t["k0"] = a; t["k1"] = t; return 0; }
function fail (a, b, k) { @local t, z; t["k0"] = a; t["k1"] = t; z = 0; return 1 / z; }   # ends by a run-time error
function quit (a, b, k) { @local t; t["k0"] = a; t["k1"] = t; exit 3; }                   # ends by exit
```
`fail` and `quit` run through other code of run.c than `cyc` (error path of `run_block`/`hawk_rtx_evalcall`,
`capture_retval_on_exit`) but must do the same to the ledger: the model has one `Fn.cyc` for the three, and the
correspondence check compares all three with it.
-/
namespace Hawk.Gc

inductive Fn where
  | keep | drop2 | store | wrap | cyc
deriving Repr, DecidableEq

/-- what the body of the function does, `n` = identity of the container it allocates (if it does) -/
def bodyOps (f : Fn) (a b n : Id) : List Op :=
  match f with
  | .keep => [.addRoot a]                                              -- `return a`: the return-value slot holds `a`
  | .drop2 => []
  | .store => [.link a b]
  | .wrap => [.alloc, .link n a, .link n b, .addRoot n, .dropRoot n]   -- local `t` = n … `return t` … local popped
  | .cyc => [.alloc, .link n a, .link n n, .dropRoot n]               -- local `t` = n, self-referring … local popped

/-- the operations of one call in state `s` -/
def callOps (s : St) (f : Fn) (a b : Id) : List Op :=
  [.addRoot a, .addRoot b] ++ bodyOps f a b s.heap.length ++ [.dropRoot a, .dropRoot b]

/-- `hawk_rtx_callfun`; both arguments must be live containers (the host holds or can reach them) -/
def call (s : St) (f : Fn) (a b : Id) : Option St :=
  if s.live a ∧ s.live b then some ((callOps s f a b).foldl step s) else none

/-- the reference to a returned container that `hawk_rtx_callfun` hands to the host (`n` = the container the body
allocated) -/
def retHolder (f : Fn) (a n : Id) : List Id :=
  match f with
  | .keep => [a]
  | .wrap => [n]
  | _ => []

/-- histories with calls -/
inductive XOp where
  | core (op : Op)
  | call (f : Fn) (a b : Id)
deriving Repr

def xexpand (s : St) : XOp → List Op
  | .core op => [op]
  | .call f a b => if s.live a ∧ s.live b then callOps s f a b else []

def xstep (s : St) (x : XOp) : St := (xexpand s x).foldl step s

def xrun (xs : List XOp) : St := xs.foldl xstep {}

end Hawk.Gc
