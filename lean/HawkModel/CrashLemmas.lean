import HawkModel.Crash
/-! helper lemmas for Props/C01.lean -/
namespace Hawk.Crash

/-! ### machine operations are defined once the two guards hold -/
theorem machMod_some {n d : Int} (h0 : d ≠ 0) (h1 : ¬(n = INT_MIN ∧ d = -1)) :
    machMod n d = some (Int.tmod n d) := by
  simp [machMod, h0, h1]

theorem machDiv_some {n d : Int} (h0 : d ≠ 0) (h1 : ¬(n = INT_MIN ∧ d = -1)) :
    machDiv n d = some (Int.tdiv n d) := by
  simp [machDiv, h0, h1]

theorem machDiv_isSome_iff (n d : Int) : (machDiv n d).isSome ↔ Safe n d := by
  unfold machDiv Safe
  by_cases h0 : d = 0
  · simp [h0]
  · by_cases h1 : n = INT_MIN ∧ d = -1
    · simp [h1]
    · simp [h0, h1]

theorem machMod_isSome_iff (n d : Int) : (machMod n d).isSome ↔ Safe n d := by
  unfold machMod Safe
  by_cases h0 : d = 0
  · simp [h0]
  · by_cases h1 : n = INT_MIN ∧ d = -1
    · simp [h1]
    · simp [h0, h1]

theorem neg_one_case {n d : Int} (h : ¬ d = -1) : ¬(n = INT_MIN ∧ d = -1) := fun ⟨_, h'⟩ => h h'

/-! ### evaluators and folder never reach the trap -/
theorem evalDiv_ne_trap (l1 l2 : Int) : evalDiv l1 l2 ≠ .trap := by
  unfold evalDiv
  by_cases h0 : l2 = 0
  · simp [h0]
  · by_cases h1 : l1 = INT_MIN ∧ l2 = -1
    · simp [h1]
    · simp only [h0, h1, if_false, machMod_some h0 h1, machDiv_some h0 h1]
      split <;> simp

theorem evalIdiv_ne_trap (l1 l2 : Int) : evalIdiv l1 l2 ≠ .trap := by
  unfold evalIdiv
  by_cases h0 : l2 = 0
  · simp [h0]
  · by_cases h1 : l2 = -1
    · simp [h1]
    · simp [h0, h1, machDiv_some h0 (neg_one_case h1)]

theorem evalMod_ne_trap (l1 l2 : Int) : evalMod l1 l2 ≠ .trap := by
  unfold evalMod
  by_cases h0 : l2 = 0
  · simp [h0]
  · by_cases h1 : l2 = -1
    · simp [h1]
    · simp [h0, h1, machMod_some h0 (neg_one_case h1)]

theorem foldDiv_ne_trap (l r : Int) : foldDiv l r ≠ .trap := by
  unfold foldDiv
  by_cases h0 : r = 0
  · simp [h0]
  · by_cases h1 : l = INT_MIN ∧ r = -1
    · simp [h1]
    · simp only [h0, h1, if_false, machMod_some h0 h1, machDiv_some h0 h1]
      split <;> simp

theorem foldIdiv_ne_trap (l r : Int) : foldIdiv l r ≠ .trap := by
  unfold foldIdiv
  by_cases h0 : r = 0
  · simp [h0]
  · by_cases h1 : r = -1
    · simp [h1]
    · simp [h0, h1, machDiv_some h0 (neg_one_case h1)]

theorem foldMod_ne_trap (l r : Int) : foldMod l r ≠ .trap := by
  unfold foldMod
  by_cases h0 : r = 0
  · simp [h0]
  · by_cases h1 : r = -1
    · simp [h1]
    · simp [h0, h1, machMod_some h0 (neg_one_case h1)]

/-- the folder computes what the evaluator computes (integer operands) -/
theorem foldDiv_eq_evalDiv (l r : Int) : foldDiv l r = evalDiv l r := by
  unfold foldDiv evalDiv
  by_cases h0 : r = 0
  · simp [h0]
  · by_cases h1 : l = INT_MIN ∧ r = -1
    · simp [h1]
    · simp only [h0, h1, if_false, machMod_some h0 h1, machDiv_some h0 h1]
      by_cases hm : Int.tmod l r = 0 <;> simp [hm]

theorem foldIdiv_eq_evalIdiv (l r : Int) : foldIdiv l r = evalIdiv l r := rfl
theorem foldMod_eq_evalMod (l r : Int) : foldMod l r = evalMod l r := rfl

/-! ### the extracted guard facts are sufficient -/
open Hawk.Gen.DivSites

theorem factNonzero_sound {n d : Int} {f : Fact} (hs : factNonzero f = true) (hh : factHolds n d f = true) : d ≠ 0 := by
  unfold factNonzero at hs
  unfold factHolds at hh
  by_cases hp : f.pol = true
  · simp only [hp, if_true] at hs hh
    rw [List.any_eq_true] at hs
    obtain ⟨a, ha, hk⟩ := hs
    rw [List.all_eq_true] at hh
    have := hh a ha
    cases a <;> simp [atomHolds] at this hk <;> omega
  · simp only [hp] at hs hh
    simp at hs
    rw [hs] at hh
    simp [atomHolds] at hh
    exact hh

theorem factNoOverflow_sound {n d : Int} {f : Fact} (hs : factNoOverflow f = true) (hh : factHolds n d f = true) :
    ¬(n = INT_MIN ∧ d = -1) := by
  unfold factNoOverflow at hs
  unfold factHolds at hh
  by_cases hp : f.pol = true
  · simp only [hp, if_true] at hs hh
    rw [List.any_eq_true] at hs
    obtain ⟨a, ha, hk⟩ := hs
    rw [List.all_eq_true] at hh
    have := hh a ha
    cases a <;> simp [atomHolds] at this hk <;> omega
  · simp only [hp] at hs hh
    simp only [Bool.false_eq_true, if_false, Bool.or_eq_true, beq_iff_eq] at hs
    rcases hs with ((hs | hs) | hs) | hs <;> rw [hs] at hh <;> simp [atomHolds] at hh <;> omega

theorem guardsOk_sound {n d : Int} {fs : List Fact} (hg : guardsOk fs = true)
    (hh : ∀ f ∈ fs, factHolds n d f = true) : Safe n d := by
  unfold guardsOk at hg
  rw [Bool.and_eq_true, List.any_eq_true, List.any_eq_true] at hg
  obtain ⟨⟨f1, hf1, h1⟩, ⟨f2, hf2, h2⟩⟩ := hg
  exact ⟨factNonzero_sound h1 (hh f1 hf1), factNoOverflow_sound h2 (hh f2 hf2)⟩

/-! ### IGNORECASE -/
open Hawk.Gen.FlagSites in
/-- all values a store of the given shape can write -/
def storedValues : Shape → List Int
  | .zero => [0]
  | .intNe0 => [0, 1]
  | .fltNe0 => [0, 1]
  | .intSign => [-1, 0, 1]
  | .fltSign => [-1, 0, 1]

open Hawk.Gen.FlagSites in
theorem storeValue_mem : ∀ (s : Shape) (v : Num), storeValue s v ∈ storedValues s
  | .zero, .int _ => by simp [storeValue, storedValues]
  | .zero, .flt _ => by simp [storeValue, storedValues]
  | .intNe0, .int l => by simp only [storeValue, storedValues]; split <;> simp
  | .intNe0, .flt _ => by simp [storeValue, storedValues]
  | .fltNe0, .flt s => by simp only [storeValue, storedValues]; split <;> simp
  | .fltNe0, .int _ => by simp [storeValue, storedValues]
  | .intSign, .int l => by
      simp only [storeValue, storedValues]
      split
      · simp
      · split <;> simp
  | .intSign, .flt _ => by simp [storeValue, storedValues]
  | .fltSign, .flt s => by cases s <;> simp [storeValue, storedValues]
  | .fltSign, .int _ => by simp [storeValue, storedValues]

instance (i : Int) (len : Nat) : Decidable (IndexOk i len) := by unfold IndexOk; exact inferInstance

/-! ### wrap-around arithmetic -/
theorem wrap_inRange (x : Int) : InRange (wrap x) := by
  unfold wrap InRange INT_MIN INT_MAX TWO64
  omega

theorem wrap_id {x : Int} (h : InRange x) : wrap x = x := by
  unfold wrap InRange INT_MIN INT_MAX TWO64 at *
  omega

theorem toS_inRange (u : Nat) : InRange (toS u) := wrap_inRange _

theorem toU_of_pos {x : Int} (h : InRange x) (hp : 0 < x) : toU x = x.toNat := by
  unfold toU InRange INT_MIN INT_MAX TWO64 at *
  have : x % 18446744073709551616 = x := by omega
  rw [this]

/-! ### substr -/
theorem substrRegion_bounds (len : Nat) (lindex : Int) (lcount : Option Int) (hl : Int.ofNat len ≤ INT_MAX) :
    0 ≤ (substrRegion len lindex lcount).1 ∧ 0 ≤ (substrRegion len lindex lcount).2 ∧
    (substrRegion len lindex lcount).1 + (substrRegion len lindex lcount).2 ≤ Int.ofNat len := by
  unfold substrRegion
  generalize wrap (lindex - 1) = i1
  have hc : (0 : Int) ≤ (match lcount with | some c => if c < 0 then 0 else c | none => INT_MAX) := by
    cases lcount with
    | none => simp [INT_MAX]
    | some c => simp only []; split <;> omega
  generalize (match lcount with | some c => if c < 0 then 0 else c | none => INT_MAX) = cnt0 at hc
  simp only []
  have : (0 : Int) ≤ Int.ofNat len := Int.natCast_nonneg len
  split <;> split <;> split <;> omega

/-! ### index / rindex / match -/
theorem indexBoundary_inRange (len0 : Nat) (b : Option Int) (rindex : Bool)
    (hb : ∀ x, b = some x → InRange x) : InRange (indexBoundary len0 b rindex) := by
  unfold indexBoundary
  cases b with
  | none =>
    simp only []
    split
    · exact toS_inRange _
    · unfold InRange INT_MIN INT_MAX; omega
  | some x =>
    simp only []
    split
    · unfold InRange INT_MIN INT_MAX; omega
    · split
      · exact toS_inRange _
      · exact hb x rfl

theorem indexRegion_bounds (len0 : Nat) (b : Option Int) (rindex : Bool)
    (hb : ∀ x, b = some x → InRange x) :
    ∀ off n, indexRegion len0 b rindex = some (off, n) → off + n ≤ len0 := by
  intro off n h
  unfold indexRegion at h
  have hr := indexBoundary_inRange len0 b rindex hb
  generalize indexBoundary len0 b rindex = b1 at h hr
  simp only [] at h
  by_cases hc : toU b1 > len0 ∨ b1 ≤ 0
  · simp [hc] at h
  · simp only [hc, if_false] at h
    have hp : 0 < b1 := by omega
    have hu := toU_of_pos hr hp
    have hle : b1.toNat ≤ len0 := by omega
    have h1 : 1 ≤ b1.toNat := by omega
    cases rindex with
    | true => simp at h; omega
    | false => simp at h; omega

theorem matchStart_inRange (len0 : Nat) (start : Int) (hs : InRange start) : InRange (matchStart len0 start) := by
  unfold matchStart
  split
  · unfold InRange INT_MIN INT_MAX; omega
  · split
    · exact toS_inRange _
    · exact hs

theorem matchRegion_bounds (len0 : Nat) (start : Int) (hs : InRange start) :
    ∀ off n, matchRegion len0 start = some (off, n) → off + n ≤ len0 := by
  intro off n h
  unfold matchRegion at h
  generalize matchStart len0 start = s1 at h
  simp only [Int.ofNat_eq_natCast] at h
  by_cases hc : s1 > (len0 : Int) + 1 ∨ s1 ≤ 0
  · simp [hc] at h
  · simp only [hc, if_false, Option.some.injEq, Prod.mk.injEq] at h
    omega

/-! ### tagged words -/
namespace Vtr
theorem typeBits_of_mod4 (w r : Nat) (hr : r < 3) (h : w % 4 = r) : typeBits w = r := by
  unfold typeBits
  split <;> omega

theorem typeBits_encodeInt (i : Int) : typeBits (encodeInt i) = 1 := by
  apply typeBits_of_mod4 _ 1 (by omega)
  unfold encodeInt SIGN
  split <;> omega

theorem typeBits_encodeChar (c : Nat) : typeBits (encodeChar c) = 2 := by
  apply typeBits_of_mod4 _ 2 (by omega)
  unfold encodeChar; omega

theorem typeBits_encodeBchr (b : Nat) : typeBits (encodeBchr b) = 3 := by
  unfold typeBits encodeBchr
  split <;> omega

theorem typeBits_aligned (w : Nat) (h : w % 4 = 0) : typeBits w = 0 :=
  typeBits_of_mod4 w 0 (by omega) h

theorem decode_encode (i : Int) (h : -INTMAX ≤ i ∧ i ≤ INTMAX) : decodeInt (encodeInt i) = i := by
  unfold decodeInt encodeInt SIGN INTMAX at *
  simp only [Int.ofNat_eq_natCast]
  split <;> split <;> omega
end Vtr

/-! ### exponentiation loop -/
theorem powLoop_iters (k : Nat) : ∀ v b e, e < 2 ^ k → (powLoop v b e).2 ≤ k := by
  induction k with
  | zero => intro v b e h; have : e = 0 := by simpa using h
            subst this; unfold powLoop; simp
  | succ k ih =>
    intro v b e h
    unfold powLoop
    by_cases he : e = 0
    · simp [he]
    · simp only [he, dite_false]
      have : e / 2 < 2 ^ k := by rw [Nat.pow_succ] at h; omega
      have := ih (if e % 2 = 1 then v * b % M64 else v) (b * b % M64) (e / 2) this
      omega

/-- the loop computes `v * b ^ e` modulo 2^64 -/
theorem powLoop_val : ∀ e v b, (powLoop v b e).1 % M64 = (v * b ^ e) % M64 := by
  intro e
  induction e using Nat.strongRecOn with
  | _ e ih =>
    intro v b
    unfold powLoop
    by_cases he : e = 0
    · simp [he]
    · simp only [he, dite_false]
      have hlt : e / 2 < e := by omega
      rw [ih (e / 2) hlt]
      have hsplit : b ^ e = (b * b) ^ (e / 2) * b ^ (e % 2) := by
        rw [← Nat.pow_two, ← Nat.pow_mul, ← Nat.pow_add]
        congr 1; omega
      rw [hsplit]
      have hpm : ((b * b) % M64) ^ (e / 2) % M64 = (b * b) ^ (e / 2) % M64 := by
        rw [← Nat.pow_mod]
      by_cases ho : e % 2 = 1
      · simp only [ho, if_true, Nat.pow_one]
        rw [Nat.mul_mod, hpm, Nat.mod_mod, ← Nat.mul_mod]
        congr 1
        rw [Nat.mul_comm ((b * b) ^ (e / 2)) b, Nat.mul_assoc]
      · have h0 : e % 2 = 0 := by omega
        simp only [h0, Nat.zero_ne_one, if_false, Nat.pow_zero, Nat.mul_one]
        rw [Nat.mul_mod, hpm, ← Nat.mul_mod]

end Hawk.Crash
