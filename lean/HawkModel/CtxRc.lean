import HawkModel.CtxLemmas
/-! reference counting: every count equals the number of references that exist (C09 ownership) -/
namespace Hawk.Ctx

/-! ## counting references -/

def occ (id : Nat) : Val → Nat
  | .ref j => if j = id then 1 else 0
  | _ => 0

def occL (id : Nat) : List Val → Nat
  | [] => 0
  | v :: vs => occ id v + occL id vs

def occS (id : Nat) : List Slot → Nat
  | [] => 0
  | s :: ss => occ id s.toVal + occS id ss

theorem occL_append (id : Nat) (a b : List Val) : occL id (a ++ b) = occL id a + occL id b := by
  induction a with
  | nil => simp [occL]
  | cons v vs ih => simp [occL, ih]; omega

theorem occS_append (id : Nat) (a b : List Slot) : occS id (a ++ b) = occS id a + occS id b := by
  induction a with
  | nil => simp [occS]
  | cons v vs ih => simp [occS, ih]; omega

theorem occS_take_drop (id : Nat) (st : List Slot) (n : Nat) : occS id (st.take n) + occS id (st.drop n) = occS id st := by
  rw [← occS_append, List.take_append_drop]

theorem occS_set {id : Nat} {st : List Slot} {i : Nat} {old : Val} (h : st[i]? = some (.val old)) (v : Val) :
    occS id (st.set i (.val v)) + occ id old = occS id st + occ id v := by
  induction st generalizing i with
  | nil => simp at h
  | cons s ss ih =>
    cases i with
    | zero =>
      simp at h; subst h
      simp [occS, Slot.toVal]; omega
    | succ i =>
      simp at h
      have := ih h
      simp [occS]; omega

theorem occS_getD_le {id : Nat} {st : List Slot} {i : Nat} : occ id (st.getD i (.val .nil)).toVal ≤ occS id st := by
  induction st generalizing i with
  | nil => simp [occ, Slot.toVal]
  | cons s ss ih =>
    cases i with
    | zero => simp [occS]
    | succ i =>
      have := ih (i := i)
      simp [occS] at this ⊢; omega

theorem occS_replicate_nil (id : Nat) (n : Nat) : occS id (List.replicate n (.val .nil)) = 0 := by
  induction n with
  | zero => rfl
  | succ n ih => simp [List.replicate_succ, occS, ih, occ, Slot.toVal]

/-! ## the heap -/

def Heap.rc (h : Heap) (id : Nat) : Nat :=
  match h.cells id with
  | some c => c.rc
  | none => 0

structure HeapOK (h : Heap) : Prop where
  nofault : h.fault = false
  pos : ∀ id c, h.cells id = some c → 1 ≤ c.rc
  fresh : ∀ id, h.next ≤ id → h.cells id = none

theorem rc_upd (h : Heap) (id j : Nat) (c : Option Cell) :
    (h.upd j c).rc id = if id = j then (match c with | some c => c.rc | none => 0) else h.rc id := by
  unfold Heap.rc Heap.upd
  by_cases hj : id = j <;> simp [hj]

theorem live_of_rc {h : Heap} {j : Nat} (hl : 1 ≤ h.rc j) : ∃ c, h.cells j = some c ∧ c.rc = h.rc j := by
  unfold Heap.rc at hl ⊢
  cases hc : h.cells j with
  | none => simp [hc] at hl
  | some c => exact ⟨c, rfl, rfl⟩

theorem refup_ok {h : Heap} (ok : HeapOK h) (v : Val) (hl : ∀ j, v = .ref j → 1 ≤ h.rc j) :
    HeapOK (h.refup v) ∧ ∀ id, (h.refup v).rc id = h.rc id + occ id v := by
  cases v with
  | nil => exact ⟨ok, fun id => by simp [Heap.refup, occ]⟩
  | zls => exact ⟨ok, fun id => by simp [Heap.refup, occ]⟩
  | int n => exact ⟨ok, fun id => by simp [Heap.refup, occ]⟩
  | ref j =>
    obtain ⟨c, hc, hrc⟩ := live_of_rc (hl j rfl)
    simp only [Heap.refup, hc]
    refine ⟨⟨ok.nofault, ?_, ?_⟩, ?_⟩
    · intro id c' h'
      simp only [Heap.upd] at h'
      split at h'
      · cases h'; simp
      · exact ok.pos id c' h'
    · intro id hid
      simp only [Heap.upd]
      split
      · next heq => subst heq; have := ok.fresh id hid; simp [hc] at this
      · exact ok.fresh id hid
    · intro id
      rw [rc_upd]
      by_cases hid : id = j
      · subst hid; simp [occ, ← hrc]
      · simp [hid, occ, Ne.symm hid]

theorem refdown_ok {h : Heap} (ok : HeapOK h) (v : Val) (hl : ∀ j, v = .ref j → 1 ≤ h.rc j) :
    HeapOK (h.refdown v) ∧ ∀ id, (h.refdown v).rc id + occ id v = h.rc id := by
  cases v with
  | nil => exact ⟨ok, fun id => by simp [Heap.refdown, occ]⟩
  | zls => exact ⟨ok, fun id => by simp [Heap.refdown, occ]⟩
  | int n => exact ⟨ok, fun id => by simp [Heap.refdown, occ]⟩
  | ref j =>
    obtain ⟨c, hc, hrc⟩ := live_of_rc (hl j rfl)
    have hpos := ok.pos j c hc
    simp only [Heap.refdown, hc]
    have h0 : ¬ c.rc = 0 := by omega
    simp only [h0, ↓reduceIte]
    by_cases h1 : c.rc = 1
    · simp only [h1, ↓reduceIte]
      refine ⟨⟨ok.nofault, ?_, ?_⟩, ?_⟩
      · intro id c' h'
        simp only [Heap.upd] at h'
        split at h'
        · cases h'
        · exact ok.pos id c' h'
      · intro id hid
        simp only [Heap.upd]
        split
        · rfl
        · exact ok.fresh id hid
      · intro id
        rw [rc_upd]
        by_cases hid : id = j
        · subst hid; simp [occ]; omega
        · simp [hid, occ, Ne.symm hid]
    · simp only [h1, ↓reduceIte]
      refine ⟨⟨ok.nofault, ?_, ?_⟩, ?_⟩
      · intro id c' h'
        simp only [Heap.upd] at h'
        split at h'
        · cases h'; simp; omega
        · exact ok.pos id c' h'
      · intro id hid
        simp only [Heap.upd]
        split
        · next heq => subst heq; have := ok.fresh id hid; simp [hc] at this
        · exact ok.fresh id hid
      · intro id
        rw [rc_upd]
        by_cases hid : id = j
        · subst hid; simp [occ]; omega
        · simp [hid, occ, Ne.symm hid]

theorem alloc_ok {h : Heap} (ok : HeapOK h) (d : Data) :
    HeapOK (h.alloc d).1 ∧ (h.alloc d).2 = .ref h.next ∧ h.rc h.next = 0 ∧
    ∀ id, (h.alloc d).1.rc id = h.rc id + occ id (h.alloc d).2 := by
  have hn : h.cells h.next = none := ok.fresh h.next (Nat.le_refl _)
  refine ⟨⟨ok.nofault, ?_, ?_⟩, rfl, by simp [Heap.rc, hn], ?_⟩
  · intro id c' h'
    simp only [Heap.alloc, Heap.upd] at h'
    split at h'
    · cases h'; simp
    · exact ok.pos id c' h'
  · intro id hid
    have hid' : h.next + 1 ≤ id := hid
    show (if id = h.next then _ else h.cells id) = none
    split
    · omega
    · exact ok.fresh id (by omega)
  · intro id
    simp only [Heap.alloc]
    unfold Heap.rc Heap.upd
    by_cases hid : id = h.next
    · subst hid; simp [hn, occ]
    · simp [hid, occ, Ne.symm hid]

/-! ## the invariant -/

/-- references held by the context and by the application -/
def Ctx.refs (c : Ctx) (id : Nat) : Nat :=
  occS id c.stack + occ id c.rec0 + occL id c.handles + occL id c.tmps

/-- `Inv c vs`: the heap is well formed and every count is the number of references from the
    context's roots plus those in flight (`vs`: values the evaluator currently owns) -/
def Inv (c : Ctx) (vs : List Val) : Prop :=
  HeapOK c.heap ∧ ∀ id, c.heap.rc id = c.refs id + occL id vs

theorem Inv.perm {c : Ctx} {vs vs' : List Val} (h : Inv c vs) (hp : ∀ id, occL id vs = occL id vs') : Inv c vs' :=
  ⟨h.1, fun id => by rw [← hp]; exact h.2 id⟩

theorem occ_slot_le (c : Ctx) (i : Nat) (id : Nat) : occ id (c.slot i) ≤ occS id c.stack := by
  unfold Ctx.slot; exact occS_getD_le

/-- a value that is referenced somewhere is live -/
theorem Inv.live {c : Ctx} {vs : List Val} (h : Inv c vs) {j : Nat} (hr : 1 ≤ c.refs j + occL j vs) : 1 ≤ c.heap.rc j := by
  rw [h.2 j]; exact hr

theorem inv_refup {c : Ctx} {vs : List Val} (h : Inv c vs) (v : Val) (hr : ∀ j, v = .ref j → 1 ≤ c.refs j + occL j vs) :
    Inv (c.refup v) (v :: vs) := by
  have := refup_ok h.1 v (fun j hj => h.live (hr j hj))
  refine ⟨this.1, fun id => ?_⟩
  have e := this.2 id
  have e2 := h.2 id
  simp only [Ctx.refup, Ctx.refs, occL] at e e2 ⊢
  omega

theorem inv_refdown {c : Ctx} {vs : List Val} {v : Val} (h : Inv c (v :: vs)) : Inv (c.refdown v) vs := by
  have := refdown_ok h.1 v (fun j hj => h.live (by subst hj; simp [occL, occ]; omega))
  refine ⟨this.1, fun id => ?_⟩
  have e := this.2 id
  have e2 := h.2 id
  simp only [Ctx.refdown, Ctx.refs, occL] at e e2 ⊢
  omega

theorem inv_alloc {c : Ctx} {vs : List Val} (h : Inv c vs) (d : Data) : Inv (c.alloc d).1 ((c.alloc d).2 :: vs) := by
  have := alloc_ok h.1 d
  refine ⟨this.1, fun id => ?_⟩
  have e := this.2.2.2 id
  have e2 := h.2 id
  simp only [Ctx.alloc, Ctx.refs, occL] at e e2 ⊢
  omega

/-! ## slots -/

theorem slot_of_getElem? {c : Ctx} {i : Nat} {s : Slot} (h : c.stack[i]? = some s) : c.slot i = s.toVal := by
  unfold Ctx.slot
  rw [List.getD_eq_getElem?_getD, h]; rfl

theorem slot_setSlot_same {c : Ctx} {i : Nat} (h : c.isVal i = true) (v : Val) : (c.setSlot i v).slot i = v := by
  obtain ⟨w, hw⟩ := isVal_iff.mp h
  have hlt : i < c.stack.length := by
    rcases Nat.lt_or_ge i c.stack.length with h | h
    · exact h
    · simp [List.getElem?_eq_none h] at hw
  unfold Ctx.setSlot
  simp only [h, ↓reduceIte]
  apply slot_of_getElem? (s := .val v)
  simp [hlt]

theorem refs_setSlot {c : Ctx} {i : Nat} (h : c.isVal i = true) (v : Val) (id : Nat) :
    (c.setSlot i v).refs id + occ id (c.slot i) = c.refs id + occ id v := by
  obtain ⟨w, hw⟩ := isVal_iff.mp h
  have hs : c.slot i = w := slot_of_getElem? hw
  have := occS_set (id := id) hw v
  unfold Ctx.setSlot
  simp only [h, ↓reduceIte, Ctx.refs, hs]
  omega

theorem inv_setSlot {c : Ctx} {vs : List Val} {v : Val} {i : Nat} (hv : c.isVal i = true) (h : Inv c (v :: vs)) :
    Inv (c.setSlot i v) (c.slot i :: vs) := by
  refine ⟨by unfold Ctx.setSlot; simp only [hv, ↓reduceIte]; exact h.1, fun id => ?_⟩
  have e := refs_setSlot hv v id
  have e2 := h.2 id
  have hh : (c.setSlot i v).heap = c.heap := by unfold Ctx.setSlot; simp [hv]
  rw [hh]
  simp only [occL] at e2 ⊢
  omega

theorem setSlot_refdown_comm (c : Ctx) (i : Nat) (v w : Val) : (c.refdown w).setSlot i v = (c.setSlot i v).refdown w := by
  unfold Ctx.setSlot Ctx.refdown Ctx.isVal
  simp only
  split <;> rfl

theorem inv_assign {c : Ctx} {vs : List Val} {v : Val} (i : Nat) (h : Inv c (v :: vs)) : Inv (c.assign i v) (v :: vs) := by
  unfold Ctx.assign
  split
  · next hv =>
    rw [setSlot_refdown_comm]
    have h1 := inv_setSlot hv h
    have h2 := inv_refdown h1
    apply inv_refup h2
    intro j hj
    subst hj
    have : occ j ((c.setSlot i (.ref j)).slot i) ≤ occS j (c.setSlot i (.ref j)).stack := occ_slot_le _ _ _
    rw [slot_setSlot_same hv] at this
    simp only [occ, ↓reduceIte] at this
    simp only [Ctx.refdown, Ctx.refs]
    omega
  · exact h

theorem inv_assignGbl {c : Ctx} {vs : List Val} {v : Val} (i : Nat) (h : Inv c (v :: vs)) : Inv (c.assignGbl i v) (v :: vs) := by
  unfold Ctx.assignGbl
  split
  · exact h
  · exact inv_assign i h

theorem inv_replaceOwned {c : Ctx} {vs : List Val} {v : Val} (i : Nat) (h : Inv c (v :: vs)) : Inv (c.replaceOwned i v) vs := by
  unfold Ctx.replaceOwned
  split
  · next hv =>
    rw [setSlot_refdown_comm]
    exact inv_refdown (inv_setSlot hv h)
  · exact inv_refdown h

theorem inv_evalOwned {c : Ctx} {vs : List Val} (h : Inv c vs) (e : Expr) :
    Inv (evalOwned c e).1 ((evalOwned c e).2 :: vs) := by
  have hslot : ∀ i, Inv (c.refup (c.slot i)) (c.slot i :: vs) := by
    intro i
    apply inv_refup h
    intro j hj
    have := occ_slot_le c i j
    rw [hj] at this
    simp only [occ, ↓reduceIte] at this
    simp only [Ctx.refs]; omega
  cases e with
  | glob n => exact hslot n
  | arg n => exact hslot _
  | loc n => exact hslot _
  | rec0 =>
    simp only [evalOwned]
    apply inv_refup h
    intro j hj
    simp only [Ctx.refs, hj, occ, ↓reduceIte]; omega
  | nr => exact ⟨h.1, fun id => by simpa [evalOwned, occL, occ] using h.2 id⟩
  | mlen n => exact ⟨h.1, fun id => by simpa [evalOwned, occL, occ] using h.2 id⟩
  | lit s => exact inv_alloc h _
  | app e s => exact inv_alloc h _
  | cat a b => exact inv_alloc h _

theorem inv_doAssign {c : Ctx} {vs : List Val} (h : Inv c vs) (i : Nat) (e : Expr) (g : Bool) : Inv (doAssign c i e g) vs := by
  unfold doAssign
  have h1 := inv_evalOwned h e
  generalize evalOwned c e = r at h1
  obtain ⟨c1, v⟩ := r
  simp only at h1 ⊢
  cases g
  · exact inv_refdown (inv_assign i h1)
  · exact inv_refdown (inv_assignGbl i h1)

theorem inv_congr {c c' : Ctx} {vs : List Val} (hh : c'.heap = c.heap) (hs : c'.stack = c.stack)
    (hr : c'.rec0 = c.rec0) (hhd : c'.handles = c.handles) (ht : c'.tmps = c.tmps) (h : Inv c vs) : Inv c' vs := by
  refine ⟨by rw [hh]; exact h.1, fun id => ?_⟩
  have := h.2 id
  simp only [Ctx.refs, hh, hs, hr, hhd, ht] at this ⊢
  exact this

theorem mapCellOf_spec {c : Ctx} {v : Val} {id rc : Nat} {kv : List (String × String)}
    (h : mapCellOf c v = some (id, rc, kv)) : c.heap.cells id = some ⟨rc, .map kv⟩ := by
  unfold mapCellOf at h
  split at h
  · next j =>
    split at h
    · next rc' kv' hc => simp at h; obtain ⟨rfl, rfl, rfl⟩ := h; exact hc
    · simp at h
  · simp at h

theorem inv_stepSimple {c : Ctx} {vs : List Val} (h : Inv c vs) (a : Action) : Inv (stepSimple c a).2 vs := by
  cases a with
  | setg n e => exact inv_doAssign h _ e true
  | setl n e => exact inv_doAssign h _ e false
  | seta n e => exact inv_doAssign h _ e false
  | print e =>
    simp only [stepSimple]
    have h1 := inv_evalOwned h e
    generalize evalOwned c e = r at h1
    obtain ⟨c1, v⟩ := r
    simp only at h1 ⊢
    exact inv_refdown (inv_congr (c := c1) rfl rfl rfl rfl rfl h1)
  | printf k e =>
    simp only [stepSimple]
    have h1 := inv_evalOwned h e
    generalize evalOwned c e = r at h1
    obtain ⟨c1, v⟩ := r
    simp only at h1 ⊢
    apply inv_refdown
    split
    · exact inv_congr (c := c1) rfl rfl rfl rfl rfl h1
    · exact inv_congr (c := c1) rfl rfl rfl rfl rfl h1
  | closef k =>
    simp only [stepSimple]
    split
    · exact inv_congr (c := c) rfl rfl rfl rfl rfl h
    · exact inv_congr (c := c) rfl rfl rfl rfl rfl h
  | getline =>
    simp only [stepSimple]
    split
    · exact h
    · next r rest hin =>
      have hlive : ∀ j, c.rec0 = .ref j → 1 ≤ c.heap.rc j := by
        intro j hj
        apply h.live
        simp only [Ctx.refs, hj, occ, ↓reduceIte]; omega
      have e1 := refdown_ok h.1 c.rec0 hlive
      have e2 := alloc_ok e1.1 (.str r)
      refine ⟨e2.1, fun id => ?_⟩
      have a1 := e1.2 id
      have a2 := e2.2.2.2 id
      have a3 := h.2 id
      simp only [Ctx.refs, Ctx.alloc, Ctx.refdown] at a1 a2 a3 ⊢
      omega
  | fail => exact inv_congr (c := c) rfl rfl rfl rfl rfl h
  | exit e =>
    cases e with
    | none => exact inv_congr (c := c) rfl rfl rfl rfl rfl h
    | some e =>
      simp only [stepSimple]
      have h1 := inv_evalOwned h e
      generalize evalOwned c e = r at h1
      obtain ⟨c1, v⟩ := r
      simp only at h1 ⊢
      exact inv_congr (c := c1.replaceOwned c1.retGblIdx v) rfl rfl rfl rfl rfl (inv_replaceOwned _ h1)
  | ret e =>
    cases e with
    | none => exact inv_congr (c := c) rfl rfl rfl rfl rfl h
    | some e =>
      simp only [stepSimple]
      have h1 := inv_evalOwned h e
      generalize evalOwned c e = r at h1
      obtain ⟨c1, v⟩ := r
      simp only at h1 ⊢
      exact inv_congr (c := c1.replaceOwned c1.retIdx v) rfl rfl rfl rfl rfl (inv_replaceOwned _ h1)
  | call dst site args => exact h
  | mapset n key e =>
    simp only [stepSimple]
    split
    · next id rc kv hm =>
      have hc := mapCellOf_spec hm
      refine ⟨⟨h.1.nofault, ?_, ?_⟩, fun j => ?_⟩
      · intro j c' h'
        simp only [Heap.upd] at h'
        split at h'
        · next heq => cases h'; subst heq; exact h.1.pos _ ⟨rc, .map kv⟩ hc
        · exact h.1.pos j c' h'
      · intro j hj
        simp only [Heap.upd]
        split
        · next heq => subst heq; have := h.1.fresh _ hj; simp [hc] at this
        · exact h.1.fresh j hj
      · have := h.2 j
        simp only [Ctx.refs] at this ⊢
        rw [rc_upd]
        split
        · next heq => subst heq; simp only [Heap.rc, hc] at this; exact this
        · exact this
    · split
      · next hnone hv =>
        have hlive : ∀ j, c.slot (c.argIdx n) = .ref j → 1 ≤ c.heap.rc j := by
          intro j hj
          apply h.live
          have := occ_slot_le c (c.argIdx n) j
          rw [hj] at this
          simp only [occ, ↓reduceIte] at this
          simp only [Ctx.refs]; omega
        have e1 := refdown_ok h.1 (c.slot (c.argIdx n)) hlive
        have e2 := alloc_ok e1.1 (.map [(key, textOf c e)])
        have hv' : ((c.refdown (c.slot (c.argIdx n))).alloc (.map [(key, textOf c e)])).1.isVal (c.argIdx n) = true := hv
        have e3 := fun id => refs_setSlot hv' ((c.refdown (c.slot (c.argIdx n))).alloc (.map [(key, textOf c e)])).2 id
        refine ⟨by unfold Ctx.setSlot; simp only [hv', ↓reduceIte]; exact e2.1, fun id => ?_⟩
        have a1 := e1.2 id
        have a2 := e2.2.2.2 id
        have a3 := h.2 id
        have a4 := e3 id
        have hh : (((c.refdown (c.slot (c.argIdx n))).alloc (.map [(key, textOf c e)])).1.setSlot (c.argIdx n)
            ((c.refdown (c.slot (c.argIdx n))).alloc (.map [(key, textOf c e)])).2).heap
            = ((c.refdown (c.slot (c.argIdx n))).alloc (.map [(key, textOf c e)])).1.heap := by
          unfold Ctx.setSlot; simp only [hv', ↓reduceIte]
        rw [hh]
        simp only [Ctx.refs, Ctx.alloc, Ctx.refdown, Ctx.slot] at a1 a2 a3 a4 ⊢
        omega
      · exact h

/-! ## frames -/

theorem inv_nil_intro {c : Ctx} {vs : List Val} (h : Inv c vs) : Inv c (.nil :: vs) :=
  h.perm (fun id => by simp [occL, occ])

theorem inv_nil_elim {c : Ctx} {vs : List Val} (h : Inv c (.nil :: vs)) : Inv c vs :=
  h.perm (fun id => by simp [occL, occ])

theorem inv_push_val {c : Ctx} {vs : List Val} {v : Val} (h : Inv c (v :: vs)) : Inv (c.push (.val v)) vs := by
  refine ⟨h.1, fun id => ?_⟩
  have := h.2 id
  simp only [Ctx.push, Ctx.refs, occS_append, occS, occL, Slot.toVal] at this ⊢
  omega

theorem inv_push_raw {c : Ctx} {vs : List Val} (n : Nat) (h : Inv c vs) : Inv (c.push (.raw n)) vs := by
  refine ⟨h.1, fun id => ?_⟩
  have := h.2 id
  simp only [Ctx.push, Ctx.refs, occS_append, occS, Slot.toVal, occ] at this ⊢
  omega

theorem inv_pushPrologue {c : Ctx} {vs : List Val} (h : Inv c vs) : Inv (pushPrologue c) vs := by
  unfold pushPrologue
  exact inv_push_raw _ (inv_push_val (inv_nil_intro (inv_push_raw _ (inv_push_raw _ h))))

theorem inv_pushArgsFromExprs {c : Ctx} {vs : List Val} (h : Inv c vs) (es : List Expr) : Inv (pushArgsFromExprs c es) vs := by
  induction es generalizing c with
  | nil => exact h
  | cons e es ih =>
    simp only [pushArgsFromExprs]
    exact ih (inv_push_val (inv_evalOwned h e))

theorem inv_pushNils {c : Ctx} {vs : List Val} (h : Inv c vs) (n : Nat) : Inv (pushNils c n) vs := by
  induction n generalizing c with
  | zero => exact h
  | succ n ih => simp only [pushNils]; exact ih (inv_push_val (inv_nil_intro h))

theorem occS_set_raw {id : Nat} {st : List Slot} {i m : Nat} (h : st[i]? = some (.raw m)) (n : Nat) :
    occS id (st.set i (.raw n)) = occS id st := by
  induction st generalizing i with
  | nil => simp at h
  | cons s ss ih =>
    cases i with
    | zero => simp at h; subst h; simp [occS, Slot.toVal]
    | succ i => simp at h; simp [occS, ih h]

theorem inv_enterFrame {c : Ctx} {vs : List Val} (h : Inv c vs) (t n : Nat) : Inv (enterFrame c t n) vs := by
  unfold enterFrame Ctx.setRaw
  simp only
  split
  · next m hm =>
    refine ⟨h.1, fun id => ?_⟩
    have := h.2 id
    simp only [Ctx.refs, occS_set_raw hm] at this ⊢
    exact this
  · exact inv_congr (c := c) rfl rfl rfl rfl rfl h

theorem inv_enterCall {c : Ctx} {vs : List Val} (h : Inv c vs) (f : Fun) (args : List Expr) : Inv (enterCall c f args) vs := by
  unfold enterCall
  exact inv_enterFrame (inv_pushNils (inv_pushArgsFromExprs (inv_pushPrologue h) args) _) _ _

theorem occS_take_pred (id : Nat) (st : List Slot) :
    occS id (st.take (st.length - 1)) + occ id (st.getD (st.length - 1) (.val .nil)).toVal = occS id st := by
  rcases List.eq_nil_or_concat st with rfl | ⟨init, last, rfl⟩
  · simp [occS, occ, Slot.toVal]
  · rw [List.concat_eq_append]
    have h1 : (init ++ [last]).length - 1 = init.length := by simp
    rw [h1, List.take_left' rfl, occS_append, List.getD_eq_getElem?_getD]
    simp [occS]

theorem inv_popVals {c : Ctx} {vs : List Val} (h : Inv c vs) (n : Nat) : Inv (popVals c n) vs := by
  induction n generalizing c with
  | zero => exact h
  | succ n ih =>
    simp only [popVals]
    apply ih
    have hlive : ∀ j, c.slot (c.stack.length - 1) = .ref j → 1 ≤ c.heap.rc j := by
      intro j hj
      apply h.live
      have := occ_slot_le c (c.stack.length - 1) j
      rw [hj] at this
      simp only [occ, ↓reduceIte] at this
      simp only [Ctx.refs]; omega
    have e1 := refdown_ok h.1 _ hlive
    refine ⟨e1.1, fun id => ?_⟩
    have a1 := e1.2 id
    have a2 := h.2 id
    have a3 := occS_take_pred id c.stack
    simp only [Ctx.refs, Ctx.refdown, Ctx.slot] at a1 a2 a3 ⊢
    omega

theorem slot_of_not_isVal {c : Ctx} {i : Nat} (h : ¬ c.isVal i = true) : c.slot i = .nil := by
  unfold Ctx.slot
  rw [List.getD_eq_getElem?_getD]
  cases hs : c.stack[i]? with
  | none => rfl
  | some s =>
    cases s with
    | raw n => rfl
    | val v => exact absurd (isVal_iff.mpr ⟨v, hs⟩) h

theorem inv_clearSlot {c : Ctx} {vs : List Val} (h : Inv c vs) (i : Nat) :
    Inv ((c.refdown (c.slot i)).setSlot i .nil) vs := by
  rw [setSlot_refdown_comm]
  by_cases hv : c.isVal i = true
  · exact inv_refdown (inv_setSlot hv (inv_nil_intro h))
  · rw [slot_of_not_isVal hv]
    have : c.setSlot i .nil = c := by unfold Ctx.setSlot; simp [hv]
    rw [this]
    exact inv_congr (c := c) rfl rfl rfl rfl rfl h

theorem inv_refdownArgs {c : Ctx} {vs : List Val} (h : Inv c vs) (nargs k : Nat) : Inv (refdownArgs c nargs k) vs := by
  induction k generalizing c with
  | zero => exact h
  | succ k ih => simp only [refdownArgs]; exact ih (inv_clearSlot h _)

/-! ### leaving a frame: what is above the restored top holds no reference -/

theorem slot_setSlot_nil (c : Ctx) (i j : Nat) : (c.setSlot i .nil).slot j = if j = i then .nil else c.slot j := by
  by_cases hv : c.isVal i = true
  · by_cases hj : j = i
    · subst hj; simp [slot_setSlot_same hv]
    · simp only [hj, ↓reduceIte]
      unfold Ctx.setSlot Ctx.slot
      simp only [hv, ↓reduceIte, List.getD_eq_getElem?_getD]
      rw [List.getElem?_set_ne (Ne.symm hj)]
  · have : c.setSlot i .nil = c := by unfold Ctx.setSlot; simp [hv]
    rw [this]
    by_cases hj : j = i
    · subst hj; simp [slot_of_not_isVal hv]
    · simp [hj]

theorem base_refdownArgs (c : Ctx) (n k : Nat) : (refdownArgs c n k).base = c.base :=
  base_skel (skel_refdownArgs c n k)

theorem slot_refdownArgs (c : Ctx) (n k : Nat) (hk : k ≤ n) (i : Nat) :
    (refdownArgs c n k).slot i = if c.base + 4 + (n - k) ≤ i ∧ i < c.base + 4 + n then .nil else c.slot i := by
  induction k generalizing c with
  | zero =>
    simp only [refdownArgs]
    have : ¬ (c.base + 4 + (n - 0) ≤ i ∧ i < c.base + 4 + n) := by omega
    rw [if_neg this]
  | succ k ih =>
    simp only [refdownArgs]
    rw [ih _ (by omega)]
    have hb : ((c.refdown (c.slot (c.argIdx (n - (k + 1))))).setSlot (c.argIdx (n - (k + 1))) Val.nil).base = c.base :=
      base_skel (by simp)
    rw [hb, slot_setSlot_nil]
    have hs : (c.refdown (c.slot (c.argIdx (n - (k + 1))))).slot i = c.slot i := rfl
    rw [hs]
    unfold Ctx.argIdx
    by_cases h1 : c.base + 4 + (n - k) ≤ i ∧ i < c.base + 4 + n
    · have : c.base + 4 + (n - (k + 1)) ≤ i ∧ i < c.base + 4 + n := by omega
      simp [h1, this]
    · by_cases h2 : i = c.base + 4 + (n - (k + 1))
      · have : c.base + 4 + (n - (k + 1)) ≤ i ∧ i < c.base + 4 + n := by omega
        simp [h1, h2, this]
        intro h; omega
      · have : ¬ (c.base + 4 + (n - (k + 1)) ≤ i ∧ i < c.base + 4 + n) := by omega
        simp [h1, h2, this]

theorem occS_zero_of_dead (id : Nat) (l : List Slot) (h : ∀ k, occ id (l.getD k (.val .nil)).toVal = 0) : occS id l = 0 := by
  induction l with
  | nil => rfl
  | cons s ss ih =>
    have h0 := h 0
    have := ih (fun k => by have := h (k + 1); simpa using this)
    simp at h0
    simp [occS, h0, this]

theorem occS_take_of_dead (id : Nat) (st : List Slot) (t : Nat)
    (h : ∀ i, t ≤ i → occ id (st.getD i (.val .nil)).toVal = 0) : occS id (st.take t) = occS id st := by
  have h1 := occS_take_drop id st t
  have h2 : occS id (st.drop t) = 0 := by
    apply occS_zero_of_dead
    intro k
    have := h (t + k) (by omega)
    simpa [List.getD_eq_getElem?_getD, List.getElem?_drop] using this
  omega

theorem inv_popFrame {c : Ctx} {vs : List Val} (h : Inv c vs)
    (hd : ∀ i, c.rawAt (c.base + 1) ≤ i → c.slot i = .nil) : Inv (popFrame c) vs := by
  refine ⟨h.1, fun id => ?_⟩
  have := h.2 id
  have ht := occS_take_of_dead id c.stack (c.rawAt (c.base + 1)) (by
    intro i hi
    have := hd i hi
    unfold Ctx.slot at this
    rw [this]; rfl)
  simp only [popFrame, Ctx.refs, ht] at this ⊢
  exact this

theorem slot_nil_of_skel_some {c : Ctx} {i m : Nat} (h : c.skel.stack[i]? = some (some m)) : c.slot i = .nil := by
  simp only [Ctx.skel, List.getElem?_map] at h
  cases hs : c.stack[i]? with
  | none => simp [hs] at h
  | some s =>
    cases s with
    | raw n => exact slot_of_getElem? hs
    | val v => simp [hs, Slot.skel] at h

theorem slot_nil_of_ge {c : Ctx} {i : Nat} (h : c.stack.length ≤ i) : c.slot i = .nil := by
  unfold Ctx.slot
  rw [List.getD_eq_getElem?_getD, List.getElem?_eq_none h]; rfl

/-- in a frame whose skeleton is `frameSkel c0 n n` (prologue + n argument slots, locals gone),
    once the return-value slot and the argument slots are cleared nothing from the frame's start
    upwards holds a value -/
theorem dead_above {d c0 : Ctx} {n : Nat} (hs : d.skel = frameSkel c0 n n)
    (h2 : d.slot (c0.stack.length + 2) = .nil)
    (h3 : ∀ i, c0.stack.length + 4 ≤ i → i < c0.stack.length + 4 + n → d.slot i = .nil) :
    ∀ i, c0.stack.length ≤ i → d.slot i = .nil := by
  intro i hi
  have hlen : d.stack.length = c0.stack.length + 4 + n := by
    have := congrArg (fun s => s.stack.length) hs
    simp [frameSkel_stack] at this
    omega
  have hl0 : c0.skel.stack.length = c0.stack.length := by simp
  by_cases h4 : c0.stack.length + 4 ≤ i
  · by_cases h5 : i < c0.stack.length + 4 + n
    · exact h3 i h4 h5
    · exact slot_nil_of_ge (by omega)
  · have : i = c0.stack.length ∨ i = c0.stack.length + 1 ∨ i = c0.stack.length + 2 ∨ i = c0.stack.length + 3 := by omega
    rcases this with rfl | rfl | rfl | rfl
    · apply slot_nil_of_skel_some (m := c0.base)
      rw [hs, frameSkel_stack]; simp [List.getElem?_append, hl0]
    · apply slot_nil_of_skel_some (m := c0.stack.length)
      rw [hs, frameSkel_stack]; simp [List.getElem?_append, hl0]
    · exact h2
    · apply slot_nil_of_skel_some (m := n)
      rw [hs, frameSkel_stack]; simp [List.getElem?_append, hl0]

theorem frame_facts {d c0 : Ctx} {n m : Nat} (hs : d.skel = frameSkel c0 n m) :
    d.base = c0.stack.length ∧ d.nargs = n ∧ d.rawAt (d.base + 1) = c0.stack.length := by
  have hb : d.base = c0.stack.length := by
    have := congrArg Skel.base hs; simpa [Ctx.skel, frameSkel] using this
  have hl0 : c0.skel.stack.length = c0.stack.length := by simp
  refine ⟨hb, ?_, ?_⟩
  · unfold Ctx.nargs
    rw [rawAt_eq, hs, hb, frameSkel_stack]; simp [List.getElem?_append, hl0]
  · rw [rawAt_eq, hs, hb, frameSkel_stack]; simp [List.getElem?_append, hl0]

theorem inv_takeSlot {c : Ctx} {vs : List Val} (h : Inv c vs) (i : Nat) : Inv (c.setSlot i .nil) (c.slot i :: vs) := by
  by_cases hv : c.isVal i = true
  · exact inv_setSlot hv (inv_nil_intro h)
  · rw [slot_of_not_isVal hv]
    have : c.setSlot i .nil = c := by unfold Ctx.setSlot; simp [hv]
    rw [this]; exact inv_nil_intro h

/-- the state right before `popFrame` in every branch of `leaveFrame`: arguments and return-value
    slot cleared -/
theorem cleared_dead {c c0 d : Ctx} {n : Nat} (hs : c.skel = frameSkel c0 n n)
    (hd : d.stack = ((refdownArgs c n n).setSlot (c0.stack.length + 2) .nil).stack)
    (hb : d.base = c0.stack.length) (hds : d.skel = frameSkel c0 n n) :
    ∀ i, d.rawAt (d.base + 1) ≤ i → d.slot i = .nil := by
  have hf := frame_facts hds
  rw [hf.2.2]
  have hslot : ∀ i, d.slot i = ((refdownArgs c n n).setSlot (c0.stack.length + 2) .nil).slot i := by
    intro i; unfold Ctx.slot; rw [hd]
  have hcb := (frame_facts hs).1
  apply dead_above hds
  · rw [hslot, slot_setSlot_nil]; simp
  · intro i h1 h2
    rw [hslot, slot_setSlot_nil]
    have : i ≠ c0.stack.length + 2 := by omega
    simp only [this, ↓reduceIte]
    rw [slot_refdownArgs c n n (Nat.le_refl _), hcb]
    have : c0.stack.length + 4 + (n - n) ≤ i ∧ i < c0.stack.length + 4 + n := by omega
    rw [if_pos this]

theorem stack_setSlot_congr {c c' : Ctx} (h : c'.stack = c.stack) (i : Nat) (v : Val) :
    (c'.setSlot i v).stack = (c.setSlot i v).stack := by
  unfold Ctx.setSlot Ctx.isVal
  rw [h]
  split <;> simp [h]

theorem inv_leaveFrame {c c0 : Ctx} {n : Nat} {vs : List Val} (hs : c.skel = frameSkel c0 n n) (h : Inv c vs)
    (ok api : Bool) :
    Inv (leaveFrame c ok api).1 ((leaveFrame c ok api).2.1.toList ++ (leaveFrame c ok api).2.2.toList ++ vs) := by
  have hf := frame_facts hs
  have hn : c.nargs = n := hf.2.1
  unfold leaveFrame
  simp only [hn]
  have h1 := inv_refdownArgs h n n
  have hs1 : (refdownArgs c n n).skel = frameSkel c0 n n := by rw [skel_refdownArgs]; exact hs
  have hr : (refdownArgs c n n).retIdx = c0.stack.length + 2 := by
    unfold Ctx.retIdx; rw [base_refdownArgs, hf.1]
  split
  · -- success: the slot's reference becomes the result's
    simp only [Option.toList, List.nil_append, List.cons_append]
    apply inv_popFrame (inv_takeSlot h1 _)
    apply cleared_dead hs
    · rw [hr]
    · have : ((refdownArgs c n n).setSlot (refdownArgs c n n).retIdx .nil).base = (refdownArgs c n n).base := base_skel (by simp)
      rw [this, base_refdownArgs, hf.1]
    · simp [hs1]
  · split
    · -- failure by exit: the value is captured first
      simp only [Option.toList, List.nil_append, List.cons_append]
      have h2 : Inv ((refdownArgs c n n).refup ((refdownArgs c n n).slot (refdownArgs c n n).retIdx))
          ((refdownArgs c n n).slot (refdownArgs c n n).retIdx :: vs) := by
        apply inv_refup h1
        intro j hj
        have := occ_slot_le (refdownArgs c n n) (refdownArgs c n n).retIdx j
        rw [hj] at this
        simp only [occ, ↓reduceIte] at this
        simp only [Ctx.refs]; omega
      have h3 := inv_clearSlot h2 (refdownArgs c n n).retIdx
      apply inv_popFrame h3
      apply cleared_dead hs
      · rw [hr]; apply stack_setSlot_congr; rfl
      · have : ((((refdownArgs c n n).refup ((refdownArgs c n n).slot (refdownArgs c n n).retIdx)).refdown
            (((refdownArgs c n n).refup ((refdownArgs c n n).slot (refdownArgs c n n).retIdx)).slot (refdownArgs c n n).retIdx)).setSlot
            (refdownArgs c n n).retIdx .nil).base = (refdownArgs c n n).base := base_skel (by simp)
        rw [this, base_refdownArgs, hf.1]
      · simp [hs1]
    · simp only [Option.toList, List.nil_append]
      have h3 := inv_clearSlot h1 (refdownArgs c n n).retIdx
      apply inv_popFrame h3
      apply cleared_dead hs
      · rw [hr]; apply stack_setSlot_congr; rfl
      · have : (((refdownArgs c n n).refdown ((refdownArgs c n n).slot (refdownArgs c n n).retIdx)).setSlot
            (refdownArgs c n n).retIdx .nil).base = (refdownArgs c n n).base := base_skel (by simp)
        rw [this, base_refdownArgs, hf.1]
      · simp [hs1]

theorem leaveFrame_cap_none (c : Ctx) (ok : Bool) : (leaveFrame c ok false).2.2 = none := by
  unfold leaveFrame
  simp only
  split
  · rfl
  · simp

/-- assignment (with the same-object check) of a value that is referenced somewhere -/
theorem inv_assignGbl_ref {c : Ctx} {vs : List Val} {v : Val} (i : Nat) (h : Inv c vs)
    (hv : ∀ j, v = .ref j → 1 ≤ c.refs j + occL j vs) : Inv (c.assignGbl i v) vs := by
  unfold Ctx.assignGbl
  split
  · exact h
  · next hne =>
    unfold Ctx.assign
    split
    · next hval =>
      rw [setSlot_refdown_comm]
      have hlive : ∀ j, c.slot i = .ref j → 1 ≤ c.heap.rc j := by
        intro j hj
        apply h.live
        have := occ_slot_le c i j
        rw [hj] at this
        simp only [occ, ↓reduceIte] at this
        simp only [Ctx.refs]; omega
      have e1 := refdown_ok h.1 (c.slot i) hlive
      have hlive2 : ∀ j, v = .ref j → 1 ≤ (c.heap.refdown (c.slot i)).rc j := by
        intro j hj
        have a1 := e1.2 j
        have a2 := h.2 j
        have a3 := hv j hj
        have a5 : occ j (c.slot i) = 0 := by
          cases hs : c.slot i with
          | ref k =>
            simp only [occ]
            split
            · next hk => subst hk; rw [hj] at hne; exact absurd hs hne
            · rfl
          | _ => rfl
        omega
      have e2 := refup_ok e1.1 v hlive2
      have hh : (((c.setSlot i v).refdown (c.slot i)).refup v).heap = (c.heap.refdown (c.slot i)).refup v := by
        unfold Ctx.setSlot; simp [hval, Ctx.refdown, Ctx.refup]
      refine ⟨by rw [hh]; exact e2.1, fun id => ?_⟩
      rw [hh]
      have a1 := e1.2 id
      have a2 := e2.2 id
      have a3 := h.2 id
      have a4 := refs_setSlot hval v id
      have hr : (((c.setSlot i v).refdown (c.slot i)).refup v).refs id = (c.setSlot i v).refs id := rfl
      rw [hr]
      omega
    · exact h

theorem inv_setRec0 {c : Ctx} {vs : List Val} (h : Inv c vs) (t : String) : Inv (setRec0 c t) vs := by
  have hlive : ∀ j, c.rec0 = .ref j → 1 ≤ c.heap.rc j := by
    intro j hj
    apply h.live
    simp only [Ctx.refs, hj, occ, ↓reduceIte]; omega
  have e1 := refdown_ok h.1 c.rec0 hlive
  unfold setRec0
  simp only
  split
  · refine ⟨e1.1, fun id => ?_⟩
    have a1 := e1.2 id
    have a3 := h.2 id
    simp only [Ctx.refs, Ctx.refdown, occ] at a1 a3 ⊢
    omega
  · have e2 := alloc_ok e1.1 (.str t)
    refine ⟨e2.1, fun id => ?_⟩
    have a1 := e1.2 id
    have a2 := e2.2.2.2 id
    have a3 := h.2 id
    simp only [Ctx.refs, Ctx.alloc, Ctx.refdown] at a1 a2 a3 ⊢
    omega

theorem inv_copyBackOne {c : Ctx} {vs : List Val} (h : Inv c vs) (e : Expr) (av : Val)
    (hv : ∀ j, av = .ref j → 1 ≤ c.refs j + occL j vs) : Inv (copyBackOne c e av).2 vs := by
  unfold copyBackOne
  cases e with
  | glob g => exact inv_assignGbl_ref _ h hv
  | arg j => exact inv_assignGbl_ref _ h hv
  | loc j => exact inv_assignGbl_ref _ h hv
  | rec0 =>
    simp only
    split
    · exact inv_congr (c := c) rfl rfl rfl rfl rfl h
    · split
      · exact h
      · split
        · exact inv_congr (c := c) rfl rfl rfl rfl rfl h
        · exact inv_setRec0 h _
  | nr => exact h
  | lit s => exact inv_congr (c := c) rfl rfl rfl rfl rfl h
  | app e s => exact inv_congr (c := c) rfl rfl rfl rfl rfl h
  | cat a b => exact inv_congr (c := c) rfl rfl rfl rfl rfl h
  | mlen n => exact inv_congr (c := c) rfl rfl rfl rfl rfl h

theorem inv_copyBack {c : Ctx} {vs : List Val} (h : Inv c vs) (bs : List Bool) (es : List Expr) (i : Nat) :
    Inv (copyBack c bs es i).2 vs := by
  induction bs generalizing c es i with
  | nil => simpa [copyBack] using h
  | cons b bs ih =>
    cases es with
    | nil => simpa [copyBack] using h
    | cons e es =>
      simp only [copyBack]
      split
      · have h1 := inv_copyBackOne h e (c.slot (c.argIdx i)) (by
          intro j hj
          have := occ_slot_le c (c.argIdx i) j
          rw [hj] at this
          simp only [occ, ↓reduceIte] at this
          simp only [Ctx.refs]; omega)
        generalize copyBackOne c e (c.slot (c.argIdx i)) = r at h1
        obtain ⟨b1, c1⟩ := r
        cases b1
        · exact h1
        · exact ih h1 _ _
      · exact ih h _ _

theorem inv_afterCall {c c3 : Ctx} {n nl : Nat} {vs : List Val} (hs : c3.skel = frameSkel c n (n + nl))
    (h : Inv c3 vs) (ok : Bool) (dst : Nat) (spec : List Bool) (args : List Expr) :
    Inv (afterCall c3 ok nl dst spec args).2 vs := by
  have hp := skel_popVals_frameSkel hs
  have hip := inv_popVals h nl
  have hcb : (if ok = true then copyBack (popVals c3 nl) spec args 0 else (false, popVals c3 nl)).2.skel = frameSkel c n n ∧
      Inv (if ok = true then copyBack (popVals c3 nl) spec args 0 else (false, popVals c3 nl)).2 vs := by
    split
    · exact ⟨by rw [skel_copyBack]; exact hp, inv_copyBack hip _ _ _⟩
    · exact ⟨hp, hip⟩
  unfold afterCall
  generalize (if ok = true then copyBack (popVals c3 nl) spec args 0 else (false, popVals c3 nl)) = rb at hcb
  obtain ⟨ok1, c3a⟩ := rb
  simp only at hcb ⊢
  have hl := inv_leaveFrame hcb.1 hcb.2 ok1 false
  have hc := leaveFrame_cap_none c3a ok1
  generalize leaveFrame c3a ok1 false = r at hl hc
  obtain ⟨c4, r, cap⟩ := r
  simp only at hl hc ⊢
  subst hc
  cases r with
  | none => simpa using hl
  | some v =>
    simp only [Option.toList, List.cons_append, List.nil_append] at hl
    simp only
    split
    · exact inv_congr (c := c4.refdown v) rfl rfl rfl rfl rfl (inv_refdown hl)
    · exact inv_refdown (inv_assign _ hl)

/-- a body preserves the skeleton and the reference-count invariant, whatever is in flight -/
theorem runPure_inv (p : Prog) (avail : Nat) (c : Ctx) (body : List Action) :
    (runPure p avail c body).2.skel = c.skel ∧ ∀ vs, Inv c vs → Inv (runPure p avail c body).2 vs := by
  apply runPure_rel p (fun c c' => c'.skel = c.skel ∧ ∀ vs, Inv c vs → Inv c' vs)
  · intro c; exact ⟨rfl, fun _ h => h⟩
  · intro a b c h1 h2; exact ⟨h2.1.trans h1.1, fun vs h => h2.2 vs (h1.2 vs h)⟩
  · intro c e; exact ⟨by simp, fun vs h => inv_congr (c := c) rfl rfl rfl rfl rfl h⟩
  · intro c a b c' h
    have h1 := skel_stepSimple c a
    have h2 := fun vs (hi : Inv c vs) => inv_stepSimple hi a
    rw [h] at h1 h2; exact ⟨h1, h2⟩
  · intro c f args nl ok c3 dst hle h
    have hs := skel_enterCall c f args nl hle
    rw [hs] at h
    refine ⟨skel_afterCall h.1 ok dst f.spec args, fun vs hi => ?_⟩
    exact inv_afterCall h.1 (h.2 vs (inv_pushNils (inv_enterCall hi f args) nl)) ok dst f.spec args

theorem runBody_inv (p : Prog) (avail : Nat) (c : Ctx) (k : Cache) (body : List Action) (hk : Consistent p k)
    {vs : List Val} (h : Inv c vs) : Inv (runBody p avail c k body).2.1 vs := by
  have h1 := (runBody_eq_pure p avail c k body hk).1
  have h2 := (runPure_inv p avail c body).2 vs h
  rw [← h1] at h2
  exact h2

/-! ## the API entry points -/

theorem inv_runBlock (p : Prog) (c : Ctx) (k : Cache) (nl : Nat) (body : List Action) (hk : Consistent p k)
    {vs : List Val} (h : Inv c vs) : Inv (runBlock p c k nl body).2.1 vs := by
  unfold runBlock
  split
  · exact inv_congr (c := c) rfl rfl rfl rfl rfl h
  · exact inv_popVals (runBody_inv p _ _ k body hk (inv_pushNils h nl)) nl

/-- the application holds every argument it passes -/
def Held (c : Ctx) (args : List Val) : Prop :=
  ∀ v, v ∈ args → ∀ j, v = .ref j → 1 ≤ occL j c.handles + occL j c.tmps

theorem inv_pushArgsFromVals {c : Ctx} {vs : List Val} (h : Inv c vs) (args : List Val) (ha : Held c args) :
    Inv (pushArgsFromVals c args) vs := by
  induction args generalizing c with
  | nil => exact h
  | cons v as ih =>
    simp only [pushArgsFromVals]
    apply ih
    · have h1 : Inv (c.refup v) (v :: vs) := by
        apply inv_refup h
        intro j hj
        have := ha v (List.mem_cons_self) j hj
        simp only [Ctx.refs]; omega
      exact inv_push_val h1
    · intro w hw j hj
      exact ha w (List.mem_cons_of_mem _ hw) j hj

theorem leaveFrame_some_cap {c : Ctx} {ok api : Bool} {v : Val} (h : (leaveFrame c ok api).2.1 = some v) :
    (leaveFrame c ok api).2.2 = none := by
  unfold leaveFrame at h ⊢
  simp only at h ⊢
  split
  · rfl
  · next hok => simp [hok] at h

theorem inv_callFun (p : Prog) (c : Ctx) (k : Cache) (f : Fun) (args : List Val) (hk : Consistent p k)
    {vs : List Val} (h : Inv c vs) (ha : Held c args) :
    Inv (callFun p c k f args).1 ((callFun p c k f args).2.2.toList ++ vs) := by
  unfold callFun
  split
  · exact inv_congr (c := c) rfl rfl rfl rfl rfl h
  · split
    · exact inv_congr (c := c) rfl rfl rfl rfl rfl h
    · split
      · exact inv_congr (c := c) rfl rfl rfl rfl rfl h
      · next h1 h2 h3 =>
        simp only
        have he := skel_enterVals c f args (by omega)
        have hi : Inv (enterFrame (pushNils (pushArgsFromVals (pushPrologue c) args) (f.nargs - args.length)) c.stack.length f.nargs) vs := by
          apply inv_enterFrame
          apply inv_pushNils
          apply inv_pushArgsFromVals (inv_pushPrologue h)
          intro v hv j hj
          exact ha v hv j hj
        generalize enterFrame (pushNils (pushArgsFromVals (pushPrologue c) args) (f.nargs - args.length)) c.stack.length f.nargs = c2 at he hi
        have hb := skel_runBlock p c2 k f.nlcls f.body hk
        have hib := inv_runBlock p c2 k f.nlcls f.body hk hi
        generalize runBlock p c2 k f.nlcls f.body = r at hb hib
        obtain ⟨ok, c3, k1⟩ := r
        simp only at hb hib ⊢
        have hl := inv_leaveFrame (hb.trans he) hib ok true
        have hcap := @leaveFrame_some_cap c3 ok true
        generalize leaveFrame c3 ok true = r2 at hl hcap
        obtain ⟨c4, r, cap⟩ := r2
        simp only at hl hcap ⊢
        cases r with
        | none => simpa using hl
        | some v =>
          have := hcap (v := v) rfl
          subst this
          simpa using hl

theorem inv_callByName (p : Prog) (c : Ctx) (k : Cache) (name : String) (args : List Val) (hk : Consistent p k)
    {vs : List Val} (h : Inv c vs) (ha : Held c args) :
    Inv (callByName p c k name args).1 ((callByName p c k name args).2.2.toList ++ vs) := by
  unfold callByName
  split
  · exact inv_congr (c := c) rfl rfl rfl rfl rfl h
  · exact inv_callFun p c k _ args hk h ha

theorem inv_runBegin (p : Prog) (c : Ctx) (k : Cache) (hk : Consistent p k) {vs : List Val} (h : Inv c vs) :
    Inv (runBegin p c k).2.1 vs := by
  unfold runBegin
  split
  · split
    · exact inv_runBlock p _ k _ _ hk (inv_congr (c := c) rfl rfl rfl rfl rfl h)
    · exact h
  · exact h

theorem inv_runEnd (p : Prog) (ok : Bool) (c : Ctx) (k : Cache) (hk : Consistent p k) {vs : List Val} (h : Inv c vs) :
    Inv (runEnd p ok c k).2.1 vs := by
  unfold runEnd
  split
  · split
    · exact inv_runBlock p _ k _ _ hk (inv_congr (c := c) rfl rfl rfl rfl rfl h)
    · exact h
  · exact h

theorem inv_consumeInput {c : Ctx} {vs : List Val} (h : Inv c vs) : Inv (consumeInput c) vs := by
  unfold consumeInput
  split
  · exact inv_congr (c := c) rfl rfl rfl rfl rfl h
  · next r hr =>
    have hlive : ∀ j, c.rec0 = .ref j → 1 ≤ c.heap.rc j := by
      intro j hj
      apply h.live
      simp only [Ctx.refs, hj, occ, ↓reduceIte]; omega
    have e1 := refdown_ok h.1 c.rec0 hlive
    have e2 := alloc_ok e1.1 (.str r)
    refine ⟨e2.1, fun id => ?_⟩
    have a1 := e1.2 id
    have a2 := e2.2.2.2 id
    have a3 := h.2 id
    simp only [Ctx.refs, Ctx.alloc, Ctx.refdown] at a1 a2 a3 ⊢
    omega

theorem inv_finishLoop {c c4 : Ctx} {vs : List Val} (hs : c4.skel = frameSkel c 0 0) (h : Inv c4 vs) (ok : Bool) :
    Inv (finishLoop c4 ok).1 ((finishLoop c4 ok).2.toList ++ vs) := by
  have hf := frame_facts hs
  have hr : c4.retIdx = c.stack.length + 2 := by unfold Ctx.retIdx; rw [hf.1]
  unfold finishLoop
  simp only
  split
  · simp only [Option.toList, List.cons_append, List.nil_append]
    have h1 := inv_takeSlot h c4.retIdx
    have h2 : Inv (popFrame (c4.setSlot c4.retIdx .nil)) (c4.slot c4.retIdx :: vs) := by
      apply inv_popFrame h1
      apply cleared_dead hs
      · rw [hr]; apply stack_setSlot_congr; rfl
      · have : (c4.setSlot c4.retIdx .nil).base = c4.base := base_skel (by simp)
        rw [this, hf.1]
      · simp [hs]
    exact inv_congr (c := popFrame (c4.setSlot c4.retIdx .nil)) rfl rfl rfl rfl rfl h2
  · simp only [Option.toList, List.nil_append]
    have h1 := inv_clearSlot h c4.retIdx
    have h2 : Inv (popFrame ((c4.refdown (c4.slot c4.retIdx)).setSlot c4.retIdx .nil)) vs := by
      apply inv_popFrame h1
      apply cleared_dead hs
      · rw [hr]; apply stack_setSlot_congr; rfl
      · have : ((c4.refdown (c4.slot c4.retIdx)).setSlot c4.retIdx .nil).base = c4.base := base_skel (by simp)
        rw [this, hf.1]
      · simp [hs]
    exact inv_congr (c := popFrame ((c4.refdown (c4.slot c4.retIdx)).setSlot c4.retIdx .nil)) rfl rfl rfl rfl rfl h2

theorem inv_loop (p : Prog) (c : Ctx) (k : Cache) (hk : Consistent p k) {vs : List Val} (h : Inv c vs) :
    Inv (loop p c k).1 ((loop p c k).2.2.toList ++ vs) := by
  unfold loop
  simp only
  split
  · exact inv_congr (c := c) rfl rfl rfl rfl rfl h
  · have he : (enterFrame (pushPrologue { c with exitLevel := xlNone }) c.stack.length 0).skel = frameSkel c 0 0 := by
      have := skel_enterFrame_aux { c with exitLevel := xlNone } (pushPrologue { c with exitLevel := xlNone }) 0 0
        (by simp [pushPrologue, Slot.skel])
      exact this
    have hi : Inv (enterFrame (pushPrologue { c with exitLevel := xlNone }) c.stack.length 0) vs :=
      inv_enterFrame (inv_pushPrologue (inv_congr (c := c) (c' := { c with exitLevel := xlNone }) rfl rfl rfl rfl rfl h)) _ _
    generalize enterFrame (pushPrologue { c with exitLevel := xlNone }) c.stack.length 0 = c1 at he hi
    have hb := skel_runBegin p c1 k hk
    have hib := inv_runBegin p c1 k hk hi
    generalize runBegin p c1 k = rb at hb hib
    obtain ⟨ok1, c2, k1⟩ := rb
    simp only at hb hib ⊢
    have h3 : (if (ok1 || c2.err == Err.enoerr) = true ∧ p.end_.isSome = true ∧ c2.exitLevel < xlGlobal then consumeInput c2 else c2).skel = c2.skel := by
      split
      · exact skel_consumeInput c2
      · rfl
    have hi3 : Inv (if (ok1 || c2.err == Err.enoerr) = true ∧ p.end_.isSome = true ∧ c2.exitLevel < xlGlobal then consumeInput c2 else c2) vs := by
      split
      · exact inv_consumeInput hib
      · exact hib
    generalize (if (ok1 || c2.err == Err.enoerr) = true ∧ p.end_.isSome = true ∧ c2.exitLevel < xlGlobal then consumeInput c2 else c2) = c3 at h3 hi3
    have hn := skel_runEnd p (ok1 || c2.err == Err.enoerr) c3 k1 hb.2
    have hin := inv_runEnd p (ok1 || c2.err == Err.enoerr) c3 k1 hb.2 hi3
    generalize runEnd p (ok1 || c2.err == Err.enoerr) c3 k1 = re at hn hin
    obtain ⟨ok2, c4, k2⟩ := re
    simp only at hn hin ⊢
    exact inv_finishLoop (c := c) (hn.1.trans (h3.trans (hb.1.trans he))) hin (ok2 || c4.err == Err.enoerr)

/-! ## what the application does around a call -/

theorem occL_getD_le (id : Nat) (l : List Val) (k : Nat) : occ id (l.getD k .nil) ≤ occL id l := by
  induction l generalizing k with
  | nil => simp [occ]
  | cons v vs ih =>
    cases k with
    | zero => simp [occL]
    | succ k => have := ih k; simp [occL] at this ⊢; omega

theorem occL_set {id : Nat} {l : List Val} {k : Nat} (h : k < l.length) (v : Val) :
    occL id (l.set k v) + occ id (l.getD k .nil) = occL id l + occ id v := by
  induction l generalizing k with
  | nil => simp at h
  | cons w ws ih =>
    cases k with
    | zero => simp [occL]; omega
    | succ k =>
      have := ih (k := k) (by simpa using h)
      simp [occL] at this ⊢; omega

theorem mkArgs_spec (c : Ctx) (as : List Arg) {vs : List Val} (h : Inv c vs) :
    Inv (mkArgs c as).1 vs ∧ (mkArgs c as).1.handles = c.handles ∧
    (∀ j, occL j c.tmps ≤ occL j (mkArgs c as).1.tmps) ∧ Held (mkArgs c as).1 (mkArgs c as).2 := by
  induction as generalizing c with
  | nil => exact ⟨h, rfl, fun _ => Nat.le_refl _, fun v hv => by simp [mkArgs] at hv⟩
  | cons a as ih =>
    cases a with
    | nil =>
      simp only [mkArgs]
      obtain ⟨h1, h2, h3, h4⟩ := ih c h
      refine ⟨h1, h2, h3, ?_⟩
      intro v hv j hj
      simp only [List.mem_cons] at hv
      rcases hv with rfl | hv
      · cases hj
      · exact h4 v hv j hj
    | hnd k =>
      simp only [mkArgs]
      obtain ⟨h1, h2, h3, h4⟩ := ih c h
      refine ⟨h1, h2, h3, ?_⟩
      intro v hv j hj
      simp only [List.mem_cons] at hv
      rcases hv with rfl | hv
      · have := occL_getD_le j c.handles k
        rw [hj] at this
        simp only [occ, ↓reduceIte] at this
        rw [h2]; omega
      · exact h4 v hv j hj
    | tmp s =>
      simp only [mkArgs]
      have ha := inv_alloc h (.str s)
      have et : (c.alloc (.str s)).1.tmps = c.tmps := rfl
      have eh : (c.alloc (.str s)).1.handles = c.handles := rfl
      generalize c.alloc (.str s) = r at ha et eh
      obtain ⟨c0, v⟩ := r
      simp only at ha et eh ⊢
      have h0 : Inv { c0 with tmps := v :: c0.tmps } vs := by
        refine ⟨ha.1, fun id => ?_⟩
        have := ha.2 id
        simp only [Ctx.refs, occL] at this ⊢
        omega
      obtain ⟨h1, h2, h3, h4⟩ := ih _ h0
      generalize mkArgs { c0 with tmps := v :: c0.tmps } as = r2 at h1 h2 h3 h4
      obtain ⟨c1, ws⟩ := r2
      simp only at h1 h2 h3 h4 ⊢
      refine ⟨h1, h2.trans eh, ?_, ?_⟩
      · intro j
        have := h3 j
        simp only [occL, et] at this
        omega
      · intro w hw j hj
        simp only [List.mem_cons] at hw
        rcases hw with rfl | hw
        · have := h3 j
          simp only [occL, hj, occ, ↓reduceIte] at this
          omega
        · exact h4 w hw j hj

theorem inv_dropTmps_aux (c : Ctx) (l : List Val) {vs : List Val} (h : Inv { c with tmps := [] } (l ++ vs)) :
    Inv (dropTmps c l) vs := by
  induction l generalizing c with
  | nil => exact h
  | cons v l ih =>
    simp only [dropTmps]
    apply ih
    exact inv_refdown (c := { c with tmps := [] }) h

theorem inv_dropTmps {c : Ctx} {vs : List Val} (h : Inv c vs) : Inv (dropTmps c c.tmps) vs := by
  apply inv_dropTmps_aux
  refine ⟨h.1, fun id => ?_⟩
  have := h.2 id
  simp only [Ctx.refs, occL_append, occL] at this ⊢
  omega

theorem handles_dropTmps (c : Ctx) (l : List Val) : (dropTmps c l).handles = c.handles := by
  induction l generalizing c with
  | nil => rfl
  | cons v l ih => simp only [dropTmps]; exact ih _

/-- assignment of a value the application (or anything but the stack) holds -/
theorem inv_assign_held {c : Ctx} {vs : List Val} {v : Val} (i : Nat) (h : Inv c vs)
    (hv : ∀ j, v = .ref j → 1 ≤ occ j c.rec0 + occL j c.handles + occL j c.tmps + occL j vs) :
    Inv (c.assign i v) vs := by
  have h1 : Inv (c.refup v) (v :: vs) := by
    apply inv_refup h
    intro j hj
    have := hv j hj
    simp only [Ctx.refs]; omega
  unfold Ctx.assign
  split
  · next hval =>
    rw [setSlot_refdown_comm]
    have hlive : ∀ j, c.slot i = .ref j → 1 ≤ c.heap.rc j := by
      intro j hj
      apply h.live
      have := occ_slot_le c i j
      rw [hj] at this
      simp only [occ, ↓reduceIte] at this
      simp only [Ctx.refs]; omega
    have e1 := refdown_ok h.1 (c.slot i) hlive
    have hlive2 : ∀ j, v = .ref j → 1 ≤ (c.heap.refdown (c.slot i)).rc j := by
      intro j hj
      have a1 := e1.2 j
      have a2 := h.2 j
      have a3 := hv j hj
      have a4 := occ_slot_le c i j
      simp only [Ctx.refs] at a2
      omega
    have e2 := refup_ok e1.1 v hlive2
    refine ⟨by
      have : (((c.setSlot i v).refdown (c.slot i)).refup v).heap = (c.heap.refdown (c.slot i)).refup v := by
        unfold Ctx.setSlot; simp [hval, Ctx.refdown, Ctx.refup]
      rw [this]; exact e2.1, fun id => ?_⟩
    have hh : (((c.setSlot i v).refdown (c.slot i)).refup v).heap = (c.heap.refdown (c.slot i)).refup v := by
      unfold Ctx.setSlot; simp [hval, Ctx.refdown, Ctx.refup]
    rw [hh]
    have a1 := e1.2 id
    have a2 := e2.2 id
    have a3 := h.2 id
    have a4 := refs_setSlot hval v id
    have hr : (((c.setSlot i v).refdown (c.slot i)).refup v).refs id = (c.setSlot i v).refs id := rfl
    rw [hr]
    omega
  · exact h

theorem inv_setHandle {c : Ctx} {vs : List Val} {v : Val} {k : Nat} (hk : k < c.handles.length) (h : Inv c (v :: vs)) :
    Inv (setHandle c k v) vs := by
  have hlive : ∀ j, c.handles.getD k .nil = .ref j → 1 ≤ c.heap.rc j := by
    intro j hj
    apply h.live
    have := occL_getD_le j c.handles k
    rw [hj] at this
    simp only [occ, ↓reduceIte] at this
    simp only [Ctx.refs]; omega
  have e1 := refdown_ok h.1 _ hlive
  refine ⟨e1.1, fun id => ?_⟩
  have a1 := e1.2 id
  have a3 := h.2 id
  have a4 := occL_set (id := id) hk v
  simp only [setHandle, Ctx.refs, Ctx.refdown, occL] at a1 a3 ⊢
  omega

/-! ## one API operation -/

theorem handles_of_skel {c c' : Ctx} (h : c'.skel = c.skel) : c'.handles = c.handles := by
  have := congrArg Skel.handles h; simpa [Ctx.skel] using this

/-- the invariant of a context at rest, as the application sees it: counts are exact with nothing in
    flight, and the handle table has its fixed size -/
structure Sound (c : Ctx) : Prop where
  inv : Inv c []
  hlen : c.handles.length = maxHandles

theorem stepCtx_sound (p : Prog) (k : Cache) (c : Ctx) (op : Op) (hk : Consistent p k) (h : Sound c) :
    Sound (stepCtx p k c op).1 := by
  cases op with
  | call fname args =>
    simp only [stepCtx]
    obtain ⟨h1, h2, _, h4⟩ := mkArgs_spec c args h.inv
    generalize mkArgs c args = r1 at h1 h2 h4
    obtain ⟨c1, vs⟩ := r1
    simp only at h1 h2 h4
    have hc := inv_callByName p c1 k fname vs hk h1 h4
    have hs := (skel_callByName p c1 k fname vs hk).1
    generalize callByName p c1 k fname vs = r2 at hc hs
    obtain ⟨c2, k1, r⟩ := r2
    simp only at hc hs ⊢
    have hh : c2.handles = c.handles := (handles_of_skel hs).trans h2
    cases r with
    | none =>
      simp only [Option.toList, List.nil_append] at hc
      exact ⟨inv_dropTmps hc, by rw [handles_dropTmps, hh]; exact h.hlen⟩
    | some v =>
      simp only [Option.toList, List.cons_append, List.nil_append] at hc
      exact ⟨inv_dropTmps (inv_refdown hc), by rw [handles_dropTmps]; show c2.handles.length = _; rw [hh]; exact h.hlen⟩
  | calls fname texts =>
    simp only [stepCtx]
    obtain ⟨h1, h2, _, h4⟩ := mkArgs_spec c (texts.map Arg.tmp) h.inv
    generalize mkArgs c (texts.map Arg.tmp) = r1 at h1 h2 h4
    obtain ⟨c1, vs⟩ := r1
    simp only at h1 h2 h4
    have hc := inv_callByName p c1 k fname vs hk h1 h4
    have hs := (skel_callByName p c1 k fname vs hk).1
    generalize callByName p c1 k fname vs = r2 at hc hs
    obtain ⟨c2, k1, r⟩ := r2
    simp only at hc hs ⊢
    have hh : c2.handles = c.handles := (handles_of_skel hs).trans h2
    have hd := inv_dropTmps hc
    cases r with
    | none =>
      simp only [Option.toList, List.nil_append] at hd
      exact ⟨hd, by rw [handles_dropTmps, hh]; exact h.hlen⟩
    | some v =>
      simp only [Option.toList, List.cons_append, List.nil_append] at hd
      exact ⟨inv_refdown hd, by show (dropTmps c2 c2.tmps).handles.length = _; rw [handles_dropTmps, hh]; exact h.hlen⟩
  | loop =>
    simp only [stepCtx]
    have hc := inv_loop p c k hk h.inv
    have hs := (skel_loop p c k hk).1
    generalize loop p c k = r2 at hc hs
    obtain ⟨c2, k1, r⟩ := r2
    simp only at hc hs ⊢
    have hh : c2.handles = c.handles := handles_of_skel hs
    cases r with
    | none => exact ⟨by simpa using hc, by rw [hh]; exact h.hlen⟩
    | some v => exact ⟨inv_refdown (by simpa using hc), by show c2.handles.length = _; rw [hh]; exact h.hlen⟩
  | exec =>
    simp only [stepCtx]
    have hc := inv_loop p c k hk h.inv
    have hs := (skel_loop p c k hk).1
    generalize loop p c k = r2 at hc hs
    obtain ⟨c2, k1, r⟩ := r2
    simp only at hc hs ⊢
    have hh : c2.handles = c.handles := handles_of_skel hs
    cases r with
    | none => exact ⟨by simpa using hc, by rw [hh]; exact h.hlen⟩
    | some v => exact ⟨inv_refdown (by simpa using hc), by show c2.handles.length = _; rw [hh]; exact h.hlen⟩
  | setgbl n a =>
    simp only [stepCtx]
    split
    · exact h
    · obtain ⟨h1, h2, _, h4⟩ := mkArgs_spec c [a] h.inv
      generalize mkArgs c [a] = r1 at h1 h2 h4
      obtain ⟨c1, vs⟩ := r1
      simp only at h1 h2 h4 ⊢
      have hg : Inv (c1.assignGbl n (vs.headD .nil)) [] := by
        unfold Ctx.assignGbl
        split
        · exact h1
        · apply inv_assign_held n h1
          intro j hj
          cases vs with
          | nil => simp at hj
          | cons w ws =>
            have := h4 w List.mem_cons_self j (by simpa using hj)
            simp only [occL]; omega
      refine ⟨inv_dropTmps hg, ?_⟩
      rw [handles_dropTmps]
      have : (c1.assignGbl n (vs.headD .nil)).handles = c1.handles := handles_of_skel (by simp)
      rw [this, h2]; exact h.hlen
  | getgbl n => simp only [stepCtx]; split <;> exact h
  | halt => exact ⟨inv_congr (c := c) rfl rfl rfl rfl rfl h.inv, h.hlen⟩
  | mkstr hd s =>
    simp only [stepCtx]; split
    · exact h
    · next hlt =>
      have ha := inv_alloc h.inv (.str s)
      have hl : hd < (c.alloc (.str s)).1.handles.length := by
        show hd < c.handles.length; rw [h.hlen]; omega
      exact ⟨inv_setHandle hl ha, by simp only [setHandle, List.length_set]; exact h.hlen⟩
  | mkmap hd =>
    simp only [stepCtx]; split
    · exact h
    · next hlt =>
      have ha := inv_alloc h.inv (.map [])
      have hl : hd < (c.alloc (.map [])).1.handles.length := by
        show hd < c.handles.length; rw [h.hlen]; omega
      exact ⟨inv_setHandle hl ha, by simp only [setHandle, List.length_set]; exact h.hlen⟩
  | drop hd =>
    simp only [stepCtx]; split
    · exact h
    · next hlt =>
      have hl : hd < c.handles.length := by rw [h.hlen]; omega
      exact ⟨inv_setHandle hl (inv_nil_intro h.inv), by simp only [setHandle, List.length_set]; exact h.hlen⟩
  | showh hd => simp only [stepCtx]; split <;> exact h

theorem fresh_sound (p : Prog) (cid : Nat) : Sound (Ctx.fresh p cid) := by
  refine ⟨⟨⟨rfl, ?_, ?_⟩, fun id => ?_⟩, by simp [Ctx.fresh, maxHandles]⟩
  · intro id c h; simp [Ctx.fresh] at h
  · intro id _; rfl
  · have h1 : occS id (List.replicate p.ng (Slot.val Val.nil)) = 0 := occS_replicate_nil id p.ng
    have h2 : occL id (List.replicate maxHandles Val.nil) = 0 := by
      simp [maxHandles, List.replicate, occL, occ]
    simp only [Ctx.fresh, Ctx.refs, Heap.rc, occL, occ, h1, h2]

/-! ## closing a context releases everything -/

theorem inv_dropVals (c : Ctx) (l : List Val) {vs : List Val} (h : Inv c (l ++ vs)) : Inv (dropVals c l) vs := by
  induction l generalizing c with
  | nil => exact h
  | cons v l ih => simp only [dropVals]; exact ih _ (inv_refdown h)

theorem dropVals_fields (c : Ctx) (l : List Val) :
    (dropVals c l).stack = c.stack ∧ (dropVals c l).rec0 = c.rec0 ∧ (dropVals c l).handles = c.handles ∧
    (dropVals c l).tmps = c.tmps := by
  induction l generalizing c with
  | nil => exact ⟨rfl, rfl, rfl, rfl⟩
  | cons v l ih => simp only [dropVals]; exact ih _

theorem popVals_fields (c : Ctx) (n : Nat) :
    (popVals c n).stack = c.stack.take (c.stack.length - n) ∧ (popVals c n).rec0 = c.rec0 ∧
    (popVals c n).handles = c.handles ∧ (popVals c n).tmps = c.tmps := by
  induction n generalizing c with
  | zero => exact ⟨by simp [popVals], rfl, rfl, rfl⟩
  | succ n ih =>
    simp only [popVals]
    obtain ⟨h1, h2, h3, h4⟩ := ih { (c.refdown (c.slot (c.stack.length - 1))) with stack := c.stack.take (c.stack.length - 1) }
    refine ⟨?_, h2, h3, h4⟩
    rw [h1]
    simp only [List.length_take, List.take_take]
    congr 1
    omega

/-- after the application has dropped its handles and the context is closed, no value is left:
    nothing leaks, and no count went wrong on the way (`fault` stays false) -/
theorem releaseAll_empty {c : Ctx} (h : Sound c) (ht : c.tmps = []) :
    (releaseAll c).heap.fault = false ∧ ∀ id, (releaseAll c).heap.cells id = none := by
  unfold releaseAll
  simp only
  have h0 : Inv { c with handles := [] } (c.handles ++ []) := by
    refine ⟨h.inv.1, fun id => ?_⟩
    have := h.inv.2 id
    simp only [Ctx.refs, occL, occL_append] at this ⊢
    omega
  have h1 := inv_dropVals _ _ h0
  have f1 := dropVals_fields { c with handles := [] } c.handles
  generalize dropVals { c with handles := [] } c.handles = c1 at h1 f1
  have h2 := inv_popVals h1 c1.stack.length
  have f2 := popVals_fields c1 c1.stack.length
  generalize popVals c1 c1.stack.length = c2 at h2 f2
  have hlive : ∀ j, c2.rec0 = .ref j → 1 ≤ c2.heap.rc j := by
    intro j hj
    apply h2.live
    simp only [Ctx.refs, hj, occ, ↓reduceIte]; omega
  have e1 := refdown_ok h2.1 c2.rec0 hlive
  refine ⟨e1.1.nofault, fun id => ?_⟩
  have a1 := e1.2 id
  have a2 := h2.2 id
  have hs : c2.stack = [] := by rw [f2.1]; simp
  have hh : c2.handles = [] := by rw [f2.2.2.1, f1.2.2.1]
  have htm : c2.tmps = [] := by rw [f2.2.2.2, f1.2.2.2]; exact ht
  simp only [Ctx.refs, hs, hh, htm, occS, occL] at a2
  have hz : (c2.heap.refdown c2.rec0).rc id = 0 := by omega
  cases hc : (c2.heap.refdown c2.rec0).cells id with
  | none => exact hc
  | some cell =>
    have := e1.1.pos id cell hc
    simp only [Heap.rc, hc] at hz
    omega

end Hawk.Ctx
