import HawkModel.CmgrLemmas
import HawkModel.Tio
/-!
# Lemmas about the tio staging model (C15)

Part 1: on a well-formed BMP stream the read side returns exactly the characters, whatever the chunking
(`readAll_wf`).  The invariant `Inv cm dom st cs` says that the unread staged bytes followed by everything the
handler will still deliver are the encoding of `cs`.
-/
open Hawk.Gen Hawk.Utf8
namespace Hawk.Tio

def NoEmpty (src : List (List UInt8)) : Prop := ∀ c ∈ src, c ≠ []

theorem srcBytes_eq (src : List (List UInt8)) : srcBytes src = src.flatten.length := by
  simp [srcBytes, List.length_flatten]

theorem pull_flatten (src : List (List UInt8)) (room : Nat) :
    (pull src room).1 ++ (pull src room).2.flatten = src.flatten := by
  cases src with
  | nil => simp [pull]
  | cons c rest =>
    simp only [pull]
    split
    · simp
    · simp [← List.append_assoc]

theorem pull_noEmpty (src : List (List UInt8)) (room : Nat) (h : NoEmpty src) : NoEmpty (pull src room).2 := by
  cases src with
  | nil => simp [pull, NoEmpty]
  | cons c rest =>
    simp only [pull]
    split
    · exact fun x hx => h x (by simp [hx])
    · rename_i hlt
      intro x hx
      simp at hx
      rcases hx with rfl | hx
      · intro h0
        have := congrArg List.length h0
        simp at this; omega
      · exact h x (by simp [hx])

theorem pull_ne (c : List UInt8) (rest : List (List UInt8)) (room : Nat) (hc : c ≠ []) (hr : 1 ≤ room) :
    (pull (c :: rest) room).1 ≠ [] := by
  simp only [pull]
  split
  · exact hc
  · intro h0
    have h1 : (c.take room).length = 0 := by
      have h0' : c.take room = [] := h0
      rw [h0']; rfl
    have : 0 < c.length := List.length_pos_iff.mpr hc
    rw [List.length_take] at h1; omega

/-- the invariant of the read side on a well-formed stream: what is still unread (the staged bytes from
the cursor on, then everything the handler will deliver) is the encoding of `cs` -/
structure Inv (cm : Cmgr) (dom : Nat → Prop) (st : InSt) (cs : List Nat) : Prop where
  illseq : st.illseq = false
  cur_le : st.cur ≤ st.buf.length
  eof_src : st.eof = true → st.src = []
  noEmpty : NoEmpty st.src
  stream : st.buf.drop st.cur ++ st.src.flatten = encodeAllC cm cs
  bmp : Dom dom cs

structure Good (cfg : Cfg) (cm : Cmgr) (maxlen : Nat) : Prop where
  tbl : cfg.cm = cm
  legacy : cfg.legacy = false
  capa : maxlen ≤ cfg.capa

theorem convPart_x0 (cfg : Cfg) (bufsize : Nat) (st : InSt) (mlen : Nat) (out : List Nat)
    (h : convUpto cfg.cm 0x0A bufsize (st.buf.drop st.cur) = .ok (0, mlen, out)) :
    convPart cfg bufsize st = .done { st with cur := st.cur + mlen } (.n out) := by
  unfold convPart; rw [h]; simp

theorem convPart_x3_done (cfg : Cfg) (bufsize : Nat) (st : InSt) (mlen : Nat) (out : List Nat)
    (h : convUpto cfg.cm 0x0A bufsize (st.buf.drop st.cur) = .ok (-3, mlen, out)) (ho : out ≠ []) :
    convPart cfg bufsize st = .done { st with cur := st.cur + mlen } (.n out) := by
  unfold convPart; rw [h]; simp [ho]

theorem convPart_x3_more (cfg : Cfg) (hl : cfg.legacy = false) (bufsize : Nat) (st : InSt) (mlen : Nat)
    (h : convUpto cfg.cm 0x0A bufsize (st.buf.drop st.cur) = .ok (-3, mlen, [])) :
    convPart cfg bufsize st = .more (st.buf.drop (st.cur + mlen)) := by
  unfold convPart; rw [h]; simp [hl]

theorem convPart_wf {cm : Cmgr} {dom : Nat → Prop} {maxlen : Nat} (hok : CodecOk cm dom maxlen) (cfg : Cfg) (hg : Good cfg cm maxlen) (bufsize : Nat) (hb : 1 ≤ bufsize) (st : InSt) (cs : List Nat)
    (hi : Inv cm dom st cs) (hne : st.cur < st.buf.length) :
    (∃ st' out cs', convPart cfg bufsize st = .done st' (.n out) ∧ out ≠ [] ∧ cs = out ++ cs' ∧ Inv cm dom st' cs' ∧
        out.length ≤ bufsize) ∨
    (∃ tail, convPart cfg bufsize st = .more tail ∧ tail ++ st.src.flatten = encodeAllC cm cs ∧
        ∃ c cs'', cs = c :: cs'' ∧ tail.length < (encodeC cm c).length) := by
  obtain ⟨x, mlen, out, cs', hconv, hcs, hml, hdrop, hout, hx, hx3, hx0⟩ :=
    convUpto_wf hok 0x0A cs hi.bmp (st.buf.drop st.cur) st.src.flatten bufsize hi.stream
  rw [← hg.tbl] at hconv
  have hmne : st.buf.drop st.cur ≠ [] := by
    intro h0; have := congrArg List.length h0; simp at this; omega
  have hml' : st.cur + mlen ≤ st.buf.length := by simp at hml; omega
  have hbmp' : Dom dom cs' := fun c hc => hi.bmp c (by rw [hcs]; simp [hc])
  have hinv : Inv cm dom { st with cur := st.cur + mlen } cs' :=
    ⟨hi.illseq, hml', hi.eof_src, hi.noEmpty, by simpa [List.drop_drop, Nat.add_comm] using hdrop, hbmp'⟩
  rcases hx with rfl | rfl
  · -- x = 0
    have hon : out ≠ [] := by
      intro h0
      rcases hx0 rfl h0 with h | h
      · exact hmne h
      · omega
    exact Or.inl ⟨_, out, cs', convPart_x0 _ _ _ _ _ hconv, hon, hcs, hinv, hout⟩
  · -- x = -3
    by_cases hon : out = []
    · right
      subst hon
      obtain ⟨c, cs'', h1, h2, h3⟩ := hx3 rfl
      simp at hcs
      subst hcs
      refine ⟨st.buf.drop (st.cur + mlen), convPart_x3_more _ hg.legacy _ _ _ hconv, ?_, c, cs'', h1, ?_⟩
      · simpa [List.drop_drop, Nat.add_comm] using hdrop
      · simpa [List.drop_drop, Nat.add_comm] using h3
    · exact Or.inl ⟨_, out, cs', convPart_x3_done _ _ _ _ _ hconv hon, hon, hcs, hinv, hout⟩

/-- what the handler call at `getc_conv` yields -/
def fillP (cfg : Cfg) (st : InSt) : List UInt8 × List (List UInt8) :=
  if st.eof then ([], st.src) else pull st.src (cfg.capa - st.buf.length)

theorem fill_eof (cfg : Cfg) (bufsize : Nat) (st : InSt) (h : (fillP cfg st).1 = []) :
    fill cfg bufsize st =
      (let st1 : InSt := { st with eof := true, src := (fillP cfg st).2 }
       if st1.cur < st1.buf.length then
         if cfg.ignoreEcerr then ({ st1 with cur := st1.cur + 1 }, .n [0x3F]) else (st1, .err .eecerr)
       else (st1, .n [])) := by
  rw [fill]
  simp only [fillP] at h ⊢
  rw [dif_pos h]

theorem fill_data (cfg : Cfg) (bufsize : Nat) (st : InSt) (h : (fillP cfg st).1 ≠ []) :
    fill cfg bufsize st =
      match convPart cfg bufsize { st with buf := st.buf ++ (fillP cfg st).1, src := (fillP cfg st).2 } with
      | .done st' r => (st', r)
      | .more tail => fill cfg bufsize { buf := tail, cur := 0, eof := st.eof, illseq := st.illseq, src := (fillP cfg st).2 } := by
  rw [fill]
  simp only [fillP] at h ⊢
  rw [dif_neg h]
  rfl

theorem encodeAll_length_pos (cm : Cmgr) (c : Nat) (cs : List Nat) :
    (encodeC cm c).length ≤ (encodeAllC cm (c :: cs)).length := by
  rw [encodeAllC_cons]; simp

theorem fill_wf {cm : Cmgr} {dom : Nat → Prop} {maxlen : Nat} (hok : CodecOk cm dom maxlen) (cfg : Cfg) (hg : Good cfg cm maxlen) (bufsize : Nat) (hb : 1 ≤ bufsize) :
    ∀ (n : Nat) (st : InSt) (cs : List Nat), srcBytes st.src < n →
      st.cur = 0 → st.illseq = false → (st.eof = true → st.src = []) → NoEmpty st.src →
      st.buf ++ st.src.flatten = encodeAllC cm cs → Dom dom cs →
      (∀ c cs'', cs = c :: cs'' → st.buf.length < (encodeC cm c).length) →
      ∃ st' out cs', fill cfg bufsize st = (st', .n out) ∧ cs = out ++ cs' ∧ Inv cm dom st' cs' ∧ (out = [] → cs = []) ∧
        out.length ≤ bufsize := by
  intro n
  induction n with
  | zero => intro st cs h; omega
  | succ n ih =>
    intro st cs hn hcur hill heof hnoe hstream hbmp hshort
    cases hsrc : st.src with
    | nil =>
      have hp1 : (fillP cfg st).1 = [] := by
        unfold fillP; split <;> simp [hsrc, pull]
      have hp2 : (fillP cfg st).2 = [] := by
        unfold fillP; split <;> simp [hsrc, pull]
      rw [hsrc] at hstream
      simp at hstream
      have hcs : cs = [] := by
        cases cs with
        | nil => rfl
        | cons c cs'' =>
          exfalso
          have h1 := hshort c cs'' rfl
          have h2 := encodeAll_length_pos cm c cs''
          rw [← hstream] at h2
          omega
      subst hcs
      have hbuf : st.buf = [] := by simpa [encodeAllC_nil] using hstream
      refine ⟨{ st with eof := true, src := (fillP cfg st).2 }, [], [], ?_, by simp, ?_, by simp, by simp⟩
      · rw [fill_eof cfg bufsize st hp1]
        simp [hcur, hbuf]
      · exact ⟨hill, by simp [hcur], fun _ => hp2, by simp [hp2, NoEmpty], by simp [hbuf, hp2, encodeAllC_nil], hbmp⟩
    | cons ch rest =>
      have heof' : st.eof = false := by
        cases he : st.eof with
        | false => rfl
        | true => have := heof he; rw [hsrc] at this; simp at this
      have hch : ch ≠ [] := hnoe ch (by rw [hsrc]; simp)
      obtain ⟨c, cs'', hcs⟩ : ∃ c cs'', cs = c :: cs'' := by
        cases cs with
        | nil =>
          exfalso
          rw [hsrc] at hstream
          simp [encodeAllC_nil] at hstream
          exact hch hstream.2.1
        | cons c cs'' => exact ⟨c, cs'', rfl⟩
      have hc : dom c := hbmp c (by rw [hcs]; simp)
      have hroom : 1 ≤ cfg.capa - st.buf.length := by
        have := hshort c cs'' hcs
        have := (hok.enc_len c hc).2
        have := hg.capa
        omega
      have hP : fillP cfg st = pull (ch :: rest) (cfg.capa - st.buf.length) := by
        unfold fillP; simp [heof', hsrc]
      have hp1 : (fillP cfg st).1 ≠ [] := by rw [hP]; exact pull_ne ch rest _ hch hroom
      have hpf : (fillP cfg st).1 ++ (fillP cfg st).2.flatten = st.src.flatten := by
        rw [hP, hsrc]; exact pull_flatten _ _
      have hpn : NoEmpty (fillP cfg st).2 := by
        rw [hP]; exact pull_noEmpty _ _ (by rw [← hsrc]; exact hnoe)
      have hpb : srcBytes (fillP cfg st).2 < srcBytes st.src := by
        have := pull_bytes (ch :: rest) (cfg.capa - st.buf.length)
        rw [← hP, ← hsrc] at this
        have : 0 < (fillP cfg st).1.length := List.length_pos_iff.mpr hp1
        omega
      let st1 : InSt := { st with buf := st.buf ++ (fillP cfg st).1, src := (fillP cfg st).2 }
      have hinv1 : Inv cm dom st1 cs := by
        refine ⟨hill, by simp [st1, hcur], ?_, hpn, ?_, hbmp⟩
        · intro he; simp [st1, heof'] at he
        · simp only [st1, hcur, List.drop_zero, List.append_assoc, hpf]; exact hstream
      have hne1 : st1.cur < st1.buf.length := by
        have : 0 < (fillP cfg st).1.length := List.length_pos_iff.mpr hp1
        simp [st1, hcur]; omega
      rw [fill_data cfg bufsize st hp1]
      rcases convPart_wf hok cfg hg bufsize hb st1 cs hinv1 hne1 with
        ⟨st', out, cs', hconv, hon, hcs', hinv', hout⟩ | ⟨tail, hconv, htail, c2, cs2, hcs2, hlt⟩
      · refine ⟨st', out, cs', ?_, hcs', hinv', fun h => absurd h hon, hout⟩
        show (match convPart cfg bufsize st1 with | .done st' r => (st', r) | .more tail => _) = _
        rw [hconv]
      · have := ih { buf := tail, cur := 0, eof := st.eof, illseq := st.illseq, src := (fillP cfg st).2 } cs
          (by simp; omega) rfl hill (by intro he; simp [heof'] at he) hpn htail hbmp
          (by intro c3 cs3 h3; rw [hcs2] at h3; cases h3; exact hlt)
        obtain ⟨st', out, cs', hf, hrest⟩ := this
        refine ⟨st', out, cs', ?_, hrest⟩
        show (match convPart cfg bufsize st1 with | .done st' r => (st', r) | .more tail => _) = _
        rw [hconv]
        exact hf

theorem readU_wf {cm : Cmgr} {dom : Nat → Prop} {maxlen : Nat} (hok : CodecOk cm dom maxlen) (cfg : Cfg) (hg : Good cfg cm maxlen) (bufsize : Nat) (hb : 1 ≤ bufsize) (st : InSt) (cs : List Nat) (hi : Inv cm dom st cs) :
    ∃ st' out cs', readU cfg bufsize st = (st', .n out) ∧ cs = out ++ cs' ∧ Inv cm dom st' cs' ∧ (out = [] → cs = []) ∧
      out.length ≤ bufsize := by
  have hshort0 : ∀ c cs'', cs = c :: cs'' → ([] : List UInt8).length < (encodeC cm c).length := by
    intro c cs'' h
    have := (hok.enc_len c (hi.bmp c (by rw [h]; simp))).1
    simp; omega
  unfold readU
  by_cases hge : st.cur ≥ st.buf.length
  · rw [if_pos hge]
    have hd : st.buf.drop st.cur = [] := List.drop_eq_nil_of_le hge
    have hs := hi.stream
    rw [hd] at hs
    exact fill_wf hok cfg hg bufsize hb (srcBytes st.src + 1) { st with cur := 0, buf := [] } cs (by simp) rfl hi.illseq
      hi.eof_src hi.noEmpty (by simpa using hs) hi.bmp hshort0
  · rw [if_neg hge]
    rcases convPart_wf hok cfg hg bufsize hb st cs hi (by omega) with
      ⟨st', out, cs', hconv, hon, hcs', hinv', hout⟩ | ⟨tail, hconv, htail, c2, cs2, hcs2, hlt⟩
    · rw [hconv]
      exact ⟨st', out, cs', rfl, hcs', hinv', fun h => absurd h hon, hout⟩
    · rw [hconv]
      exact fill_wf hok cfg hg bufsize hb (srcBytes st.src + 1) { st with buf := tail, cur := 0 } cs (by simp) rfl hi.illseq
        hi.eof_src hi.noEmpty htail hi.bmp (by intro c3 cs3 h3; rw [hcs2] at h3; cases h3; exact hlt)

theorem readLoop_wf {cm : Cmgr} {dom : Nat → Prop} {maxlen : Nat} (hok : CodecOk cm dom maxlen) (cfg : Cfg) (hg : Good cfg cm maxlen) (size : Nat) :
    ∀ (k : Nat) (st : InSt) (acc : List Nat) (cs : List Nat), size - acc.length ≤ k → Inv cm dom st cs →
      ∃ st' out cs', readLoop cfg size st acc = (st', .n (acc ++ out)) ∧ cs = out ++ cs' ∧ Inv cm dom st' cs' ∧
        (acc.length < size → out = [] → cs = []) := by
  intro k
  induction k with
  | zero =>
    intro st acc cs hk hi
    rw [readLoop, dif_neg (by omega)]
    exact ⟨st, [], cs, by simp, by simp, hi, by omega⟩
  | succ k ih =>
    intro st acc cs hk hi
    rw [readLoop]
    by_cases hlt : acc.length < size
    · rw [dif_pos hlt]
      simp only [hi.illseq, Bool.false_eq_true, if_false]
      obtain ⟨st', out, cs', hr, hcs, hinv, h0, hout⟩ := readU_wf hok cfg hg (size - acc.length) (by omega) st cs hi
      cases out with
      | nil =>
        refine ⟨st', [], cs', ?_, hcs, hinv, fun _ _ => h0 rfl⟩
        split <;> simp_all
      | cons o out =>
        by_cases hnl : (acc ++ o :: out).getLast? = some 0x0A
        · refine ⟨st', o :: out, cs', ?_, hcs, hinv, by simp⟩
          split <;> simp_all
        · obtain ⟨st2, out2, cs2, hr2, hcs2, hinv2, _⟩ := ih st' (acc ++ o :: out) cs' (by simp; omega) hinv
          refine ⟨st2, o :: out ++ out2, cs2, ?_, by rw [hcs, hcs2]; simp, hinv2, by simp⟩
          split <;> simp_all
    · rw [dif_neg hlt]
      exact ⟨st, [], cs, by simp, by simp, hi, by omega⟩

theorem encodeAll_ne_nil {cm : Cmgr} {dom : Nat → Prop} {maxlen : Nat} (hok : CodecOk cm dom maxlen) (cs : List Nat) (hb : Dom dom cs) (h : cs ≠ []) : 0 < (encodeAllC cm cs).length := by
  cases cs with
  | nil => exact absurd rfl h
  | cons c cs' =>
    have := encodeAll_length_pos cm c cs'
    have := (hok.enc_len c (hb c (by simp))).1
    omega

theorem pending_inv {cm : Cmgr} {dom : Nat → Prop} (st : InSt) (cs : List Nat) (hi : Inv cm dom st cs) : pending st = (encodeAllC cm cs).length := by
  unfold pending
  rw [← hi.stream, srcBytes_eq]
  simp

theorem readAll_wf {cm : Cmgr} {dom : Nat → Prop} {maxlen : Nat} (hok : CodecOk cm dom maxlen) (cfg : Cfg) (hg : Good cfg cm maxlen) (size : Nat) (hs : 1 ≤ size) :
    ∀ (k : Nat) (st : InSt) (cs : List Nat), cs.length ≤ k → Inv cm dom st cs → readAll cfg size st = (cs, .eof) := by
  intro k
  induction k with
  | zero =>
    intro st cs hk hi
    have hcs : cs = [] := List.eq_nil_of_length_eq_zero (by omega)
    subst hcs
    obtain ⟨st', out, cs', hr, hcs, hinv, h0⟩ := readLoop_wf hok cfg hg size size st [] [] (by simp) hi
    have : out = [] := by
      have := congrArg List.length hcs; simp at this; exact List.eq_nil_of_length_eq_zero (by omega)
    subst this
    simp only [List.nil_append] at hr
    rw [readAll]
    unfold readUchars
    rw [hr]
  | succ k ih =>
    intro st cs hk hi
    obtain ⟨st', out, cs', hr, hcs, hinv, h0⟩ := readLoop_wf hok cfg hg size size st [] cs (by simp) hi
    simp only [List.nil_append] at hr
    rw [readAll]
    unfold readUchars
    rw [hr]
    cases out with
    | nil =>
      have : cs = [] := h0 (by simp; omega) rfl
      subst this
      rfl
    | cons o out =>
      have hp : pending st' < pending st := by
        rw [pending_inv st cs hi, pending_inv st' cs' hinv, hcs, encodeAllC_append]
        have := encodeAll_ne_nil hok (o :: out) (fun c hc => hi.bmp c (by rw [hcs]; exact List.mem_append_left _ hc)) (by simp)
        simp; omega
      have hrec := ih st' cs' (by rw [hcs] at hk; simp at hk; omega) hinv
      simp only
      rw [dif_pos hp, hrec, hcs]

/-- initial state of a stream delivered in the chunks `src` -/
def start (src : List (List UInt8)) : InSt := { src := src }

theorem inv_start {cm : Cmgr} {dom : Nat → Prop} (chunks : List (List UInt8)) (cs : List Nat) (hb : Dom dom cs) (hne : NoEmpty chunks)
    (hj : chunks.flatten = encodeAllC cm cs) : Inv cm dom (start chunks) cs :=
  ⟨rfl, by simp [start], by simp [start], hne, by simpa [start] using hj, hb⟩

/-! ## Part 2: arbitrary bytes — no fault, nothing stored beyond the caller's room, the staging buffer within its capacity, progress -/

theorem pull_le (src : List (List UInt8)) (room : Nat) : (pull src room).1.length ≤ room := by
  cases src with
  | nil => simp [pull]
  | cons c rest =>
    simp only [pull]
    split
    · assumption
    · simp [List.length_take]; omega

/-- the staging buffer is used within its bounds -/
def Safe (cfg : Cfg) (st : InSt) : Prop := st.cur ≤ st.buf.length ∧ st.buf.length ≤ cfg.capa

/-- the call did not misbehave and stored no more than `bufsize` characters -/
def RetOk (bufsize : Nat) : Ret → Prop
  | .n out => out.length ≤ bufsize
  | .err _ => True
  | .fault _ => False

theorem convPart_x1_ign (cfg : Cfg) (bufsize : Nat) (st : InSt) (mlen : Nat) (out : List Nat)
    (h : convUpto cfg.cm 0x0A bufsize (st.buf.drop st.cur) = .ok (-1, mlen, out)) (hi : cfg.ignoreEcerr = true)
    (hr : cfg.legacy = true ∨ out.length < bufsize) :
    convPart cfg bufsize st = .done { st with cur := st.cur + mlen + 1 } (.n (out ++ [0x3F])) := by
  unfold convPart; rw [h]; simp [hi, hr]

theorem convPart_x1_full (cfg : Cfg) (bufsize : Nat) (st : InSt) (mlen : Nat) (out : List Nat)
    (h : convUpto cfg.cm 0x0A bufsize (st.buf.drop st.cur) = .ok (-1, mlen, out)) (hi : cfg.ignoreEcerr = true)
    (hl : cfg.legacy = false) (hr : ¬ out.length < bufsize) :
    convPart cfg bufsize st = .done { st with cur := st.cur + mlen } (.n out) := by
  unfold convPart; rw [h]; simp [hi, hr, hl]

theorem convPart_x1_err (cfg : Cfg) (bufsize : Nat) (st : InSt) (mlen : Nat)
    (h : convUpto cfg.cm 0x0A bufsize (st.buf.drop st.cur) = .ok (-1, mlen, [])) (hi : cfg.ignoreEcerr = false) :
    convPart cfg bufsize st = .done { st with cur := st.cur + mlen } (.err .eecerr) := by
  unfold convPart; rw [h]; simp [hi]

theorem convPart_x1_defer (cfg : Cfg) (bufsize : Nat) (st : InSt) (mlen : Nat) (out : List Nat)
    (h : convUpto cfg.cm 0x0A bufsize (st.buf.drop st.cur) = .ok (-1, mlen, out)) (hi : cfg.ignoreEcerr = false)
    (ho : out ≠ []) :
    convPart cfg bufsize st = .done { st with cur := st.cur + mlen, illseq := true } (.n out) := by
  unfold convPart; rw [h]; simp [hi, ho]

/-- number of characters a call handed to its caller -/
def Ret.count : Ret → Nat
  | .n out => out.length
  | _ => 0

theorem convUpto_mlen0 (cm : Cmgr) (hdec : DecTotal cm) (stopper wcap : Nat) (s : List UInt8) (x : Int) (mlen : Nat)
    (h : convUpto cm stopper wcap s = .ok (x, mlen, [])) : mlen = 0 := by
  by_cases hs : s = []
  · subst hs; rw [convUpto_nil] at h; simp at h; exact h.2.symm
  · obtain ⟨⟨n, w⟩, hd⟩ := hdec s hs
    rw [convUpto_step cm stopper wcap s n w hs hd] at h
    split at h
    · simp at h; exact h.2.symm
    · split at h
      · simp at h; exact h.2.symm
      · split at h
        · simp at h; exact h.2.symm
        · split at h
          · simp at h
          · split at h <;> simp at h

theorem convPart_safe (cfg : Cfg) (hdec : DecTotal cfg.cm) (hl : cfg.legacy = false) (bufsize : Nat) (st : InSt) (hs : Safe cfg st) :
    (∃ st' r, convPart cfg bufsize st = .done st' r ∧ Safe cfg st' ∧ RetOk bufsize r ∧ st'.src = st.src ∧
        st'.eof = st.eof ∧ pending st' + r.count ≤ pending st) ∨
    (convPart cfg bufsize st = .more (st.buf.drop st.cur)) := by
  obtain ⟨x, mlen, out, hc, ho1, ho2, hm, hx, hxn, hx0⟩ :=
    convUpto_total cfg.cm hdec 0x0A (st.buf.drop st.cur).length (st.buf.drop st.cur) bufsize (Nat.le_refl _)
  have hm' : st.cur + mlen ≤ st.buf.length := by simp at hm; have := hs.1; omega
  have hpend : ∀ (il : Bool), pending { st with cur := st.cur + mlen, illseq := il } + out.length ≤ pending st := by
    intro il; simp [pending]; omega
  rcases hx with rfl | rfl | rfl
  · exact Or.inl ⟨_, _, convPart_x0 _ _ _ _ _ hc, ⟨hm', hs.2⟩, ho1, rfl, rfl, hpend st.illseq⟩
  · -- illegal sequence
    have hlt : st.cur + mlen < st.buf.length := by have := hxn (by decide); simp at this; omega
    left
    cases hi : cfg.ignoreEcerr with
    | true =>
      by_cases hroom : out.length < bufsize
      · refine ⟨_, _, convPart_x1_ign _ _ _ _ _ hc hi (Or.inr hroom), ⟨by simp; omega, hs.2⟩, ?_, rfl, rfl, ?_⟩
        · simp [RetOk]; omega
        · simp [pending, Ret.count]; omega
      · exact ⟨_, _, convPart_x1_full _ _ _ _ _ hc hi hl hroom, ⟨hm', hs.2⟩, ho1, rfl, rfl, hpend st.illseq⟩
    | false =>
      by_cases ho : out = []
      · subst ho
        refine ⟨_, _, convPart_x1_err _ _ _ _ hc hi, ⟨hm', hs.2⟩, trivial, rfl, rfl, ?_⟩
        simp [pending, Ret.count]; omega
      · exact ⟨_, _, convPart_x1_defer _ _ _ _ _ hc hi ho, ⟨hm', hs.2⟩, ho1, rfl, rfl, hpend true⟩
  · -- incomplete sequence
    by_cases ho : out = []
    · right
      subst ho
      have hml : mlen = 0 := convUpto_mlen0 _ hdec _ _ _ _ _ hc
      subst hml
      simpa using convPart_x3_more _ hl _ _ _ hc
    · exact Or.inl ⟨_, _, convPart_x3_done _ _ _ _ _ hc ho, ⟨hm', hs.2⟩, ho1, rfl, rfl, hpend st.illseq⟩

theorem fillP_facts (cfg : Cfg) (st : InSt) :
    (fillP cfg st).1.length + srcBytes (fillP cfg st).2 = srcBytes st.src ∧
    (fillP cfg st).1.length ≤ cfg.capa - st.buf.length := by
  unfold fillP
  split
  · simp
  · exact ⟨pull_bytes _ _, pull_le _ _⟩

theorem fill_safe (cfg : Cfg) (hdec : DecTotal cfg.cm) (hl : cfg.legacy = false) (bufsize : Nat) (hb : 1 ≤ bufsize) :
    ∀ (n : Nat) (st : InSt), srcBytes st.src < n → Safe cfg st →
      ∃ st' r, fill cfg bufsize st = (st', r) ∧ Safe cfg st' ∧ RetOk bufsize r ∧ pending st' + r.count ≤ pending st := by
  intro n
  induction n with
  | zero => intro st h; omega
  | succ n ih =>
    intro st hn hs
    obtain ⟨hpb, hpl⟩ := fillP_facts cfg st
    by_cases hp1 : (fillP cfg st).1 = []
    · rw [fill_eof cfg bufsize st hp1]
      have hlen0 : (fillP cfg st).1.length = 0 := by rw [hp1]; rfl
      simp only
      by_cases hlt : st.cur < st.buf.length
      · rw [if_pos hlt]
        cases hi : cfg.ignoreEcerr with
        | true =>
          refine ⟨_, _, rfl, ⟨by simp; omega, hs.2⟩, by simp [RetOk]; omega, ?_⟩
          simp [pending, Ret.count]; omega
        | false =>
          refine ⟨_, _, rfl, ⟨hs.1, hs.2⟩, trivial, ?_⟩
          simp [pending, Ret.count]; omega
      · rw [if_neg hlt]
        refine ⟨_, _, rfl, ⟨hs.1, hs.2⟩, by simp [RetOk], ?_⟩
        simp [pending, Ret.count]; omega
    · rw [fill_data cfg bufsize st hp1]
      have hpos : 0 < (fillP cfg st).1.length := List.length_pos_iff.mpr hp1
      let st1 : InSt := { st with buf := st.buf ++ (fillP cfg st).1, src := (fillP cfg st).2 }
      have hs1 : Safe cfg st1 := ⟨by simp [st1]; have := hs.1; omega, by simp [st1]; have := hs.2; omega⟩
      have hp1' : pending st1 = pending st := by
        have := hs.1
        simp [pending, st1]; omega
      rcases convPart_safe cfg hdec hl bufsize st1 hs1 with ⟨st', r, hc, hs', hr, _, _, hpend⟩ | hc
      · refine ⟨st', r, ?_, hs', hr, by omega⟩
        show (match convPart cfg bufsize st1 with | .done st' r => (st', r) | .more tail => _) = _
        rw [hc]
      · have hs2 : Safe cfg { buf := st1.buf.drop st1.cur, cur := 0, eof := st.eof, illseq := st.illseq, src := (fillP cfg st).2 } :=
          ⟨by simp, by have := hs1.2; simp; omega⟩
        obtain ⟨st', r, hf, hs', hr, hpend⟩ := ih _ (by simp; omega) hs2
        refine ⟨st', r, ?_, hs', hr, ?_⟩
        · show (match convPart cfg bufsize st1 with | .done st' r => (st', r) | .more tail => _) = _
          rw [hc]; exact hf
        · have : pending { buf := st1.buf.drop st1.cur, cur := 0, eof := st.eof, illseq := st.illseq, src := (fillP cfg st).2 } = pending st1 := by
            simp [pending, st1]
          omega

theorem readU_safe (cfg : Cfg) (hdec : DecTotal cfg.cm) (hl : cfg.legacy = false) (bufsize : Nat) (hb : 1 ≤ bufsize) (st : InSt) (hs : Safe cfg st) :
    ∃ st' r, readU cfg bufsize st = (st', r) ∧ Safe cfg st' ∧ RetOk bufsize r ∧ pending st' + r.count ≤ pending st := by
  unfold readU
  by_cases hge : st.cur ≥ st.buf.length
  · rw [if_pos hge]
    obtain ⟨st', r, hf, hs', hr, hp⟩ := fill_safe cfg hdec hl bufsize hb (srcBytes st.src + 1) { st with cur := 0, buf := [] } (by simp)
      ⟨by simp, by simp⟩
    refine ⟨st', r, hf, hs', hr, ?_⟩
    have : pending { st with cur := 0, buf := [] } = pending st := by simp [pending]; omega
    omega
  · rw [if_neg hge]
    rcases convPart_safe cfg hdec hl bufsize st hs with ⟨st', r, hc, hs', hr, _, _, hpend⟩ | hc
    · rw [hc]; exact ⟨st', r, rfl, hs', hr, hpend⟩
    · rw [hc]
      obtain ⟨st', r, hf, hs', hr, hp⟩ := fill_safe cfg hdec hl bufsize hb (srcBytes st.src + 1)
        { st with buf := st.buf.drop st.cur, cur := 0 } (by simp) ⟨by simp, by have := hs.2; simp; omega⟩
      refine ⟨st', r, hf, hs', hr, ?_⟩
      have : pending { st with buf := st.buf.drop st.cur, cur := 0 } = pending st := by simp [pending]
      omega

theorem readLoop_safe (cfg : Cfg) (hdec : DecTotal cfg.cm) (hl : cfg.legacy = false) (size : Nat) :
    ∀ (k : Nat) (st : InSt) (acc : List Nat), size - acc.length ≤ k → Safe cfg st → acc.length ≤ size →
      ∃ st' r, readLoop cfg size st acc = (st', r) ∧ Safe cfg st' ∧ RetOk size r ∧
        pending st' + r.count ≤ pending st + acc.length ∧ (∀ out, r = .n out → acc.length ≤ out.length) := by
  intro k
  induction k with
  | zero =>
    intro st acc hk hs ha
    rw [readLoop, dif_neg (by omega)]
    exact ⟨st, _, rfl, hs, ha, by simp [Ret.count], by intro out h; cases h; exact Nat.le_refl _⟩
  | succ k ih =>
    intro st acc hk hs ha
    rw [readLoop]
    by_cases hlt : acc.length < size
    · rw [dif_pos hlt]
      cases hill : st.illseq with
      | true =>
        simp only [if_true]
        refine ⟨_, _, rfl, ⟨hs.1, hs.2⟩, trivial, by simp [pending, Ret.count], by intro out h; cases h⟩
      | false =>
        simp only [Bool.false_eq_true, if_false]
        obtain ⟨st', r, hr, hs', hok, hp⟩ := readU_safe cfg hdec hl (size - acc.length) (by omega) st hs
        cases r with
        | n out =>
          cases out with
          | nil =>
            refine ⟨st', .n acc, ?_, hs', ha, ?_, by intro out h; cases h; exact Nat.le_refl _⟩
            · split <;> simp_all
            · simp [Ret.count] at hp ⊢; omega
          | cons o out =>
            have hlen : (acc ++ o :: out).length ≤ size := by simp [RetOk] at hok; simp; omega
            by_cases hnl : (acc ++ o :: out).getLast? = some 0x0A
            · refine ⟨st', .n (acc ++ o :: out), ?_, hs', hlen, ?_, by intro o2 h; cases h; simp⟩
              · split <;> simp_all
              · simp [Ret.count] at hp ⊢; omega
            · obtain ⟨st2, r2, hr2, hs2, hok2, hp2, hmono⟩ := ih st' (acc ++ o :: out) (by simp; omega) hs' hlen
              refine ⟨st2, r2, ?_, hs2, hok2, ?_, ?_⟩
              · split <;> simp_all
              · simp [Ret.count] at hp hp2 ⊢; omega
              · intro o2 h; have := hmono o2 h; simp at this; omega
        | err e =>
          refine ⟨st', .err e, ?_, hs', trivial, ?_, by intro out h; cases h⟩
          · split <;> simp_all
          · simp [Ret.count] at hp ⊢; omega
        | fault f => exact absurd hok (by simp [RetOk])
    · rw [dif_neg hlt]
      exact ⟨st, _, rfl, hs, ha, by simp [Ret.count], by intro out h; cases h; exact Nat.le_refl _⟩

/-- the caller's loop over arbitrary bytes always ends in `eof` or `err`: no fault, never stuck -/
theorem readAll_safe (cfg : Cfg) (hdec : DecTotal cfg.cm) (hl : cfg.legacy = false) (size : Nat) :
    ∀ (k : Nat) (st : InSt), pending st ≤ k → Safe cfg st →
      (readAll cfg size st).2 = .eof ∨ ∃ e, (readAll cfg size st).2 = .err e := by
  intro k
  induction k with
  | zero =>
    intro st hk hs
    obtain ⟨st', r, hr, hs', hok, hp, _⟩ := readLoop_safe cfg hdec hl size size st [] (by simp) hs (by simp)
    rw [readAll]; unfold readUchars; rw [hr]
    cases r with
    | n out =>
      cases out with
      | nil => exact Or.inl rfl
      | cons o out => simp [Ret.count] at hp; omega
    | err e => exact Or.inr ⟨e, rfl⟩
    | fault f => exact absurd hok (by simp [RetOk])
  | succ k ih =>
    intro st hk hs
    obtain ⟨st', r, hr, hs', hok, hp, _⟩ := readLoop_safe cfg hdec hl size size st [] (by simp) hs (by simp)
    rw [readAll]; unfold readUchars; rw [hr]
    cases r with
    | n out =>
      cases out with
      | nil => exact Or.inl rfl
      | cons o out =>
        have hpl : pending st' < pending st := by simp [Ret.count] at hp; omega
        simp only
        rw [dif_pos hpl]
        exact ih st' (by omega) hs'
    | err e => exact Or.inr ⟨e, rfl⟩
    | fault f => exact absurd hok (by simp [RetOk])

/-! ## Part 3: byte-mode reads -/

theorem copyBytes_spec : ∀ (l : List UInt8) (room : Nat),
    (copyBytes l room).1 <+: l ∧ (copyBytes l room).1.length ≤ room ∧
    ((copyBytes l room).1 = [] → l = [] ∨ room = 0) := by
  intro l
  induction l with
  | nil => intro room; simp [copyBytes]
  | cons b rest ih =>
    intro room
    cases room with
    | zero => simp [copyBytes]
    | succ room =>
      rw [copyBytes]
      split
      · simp
      · obtain ⟨h1, h2, _⟩ := ih room
        refine ⟨?_, by simp; omega, by simp⟩
        simpa using h1



/-- the bytes not yet handed to the caller -/
def remaining (st : InSt) : List UInt8 := st.buf.drop st.cur ++ st.src.flatten

theorem pending_remaining (st : InSt) : pending st = (remaining st).length := by
  simp [pending, remaining, srcBytes_eq]

theorem pull_nil_of_noEmpty (src : List (List UInt8)) (room : Nat) (hr : 1 ≤ room) (hne : NoEmpty src)
    (h : (pull src room).1 = []) : src = [] := by
  cases src with
  | nil => rfl
  | cons c rest => exact absurd h (pull_ne c rest room (hne c (by simp)) hr)

theorem readBLoop_spec (cfg : Cfg) (hc : 1 ≤ cfg.capa) (size : Nat) :
    ∀ (k : Nat) (st : InSt) (acc : List UInt8), size - acc.length ≤ k → NoEmpty st.src →
      ∃ st' out, readBLoop cfg size st acc = (st', acc ++ out) ∧ remaining st = out ++ remaining st' ∧ NoEmpty st'.src ∧
        (acc.length < size → out = [] → remaining st = []) := by
  intro k
  induction k with
  | zero =>
    intro st acc hk hne
    rw [readBLoop, dif_neg (by omega)]
    exact ⟨st, [], by simp, by simp, hne, by omega⟩
  | succ k ih =>
    intro st acc hk hne
    rw [readBLoop]
    by_cases hlt : acc.length < size
    · rw [dif_pos hlt]
      -- the state after the optional refill
      have key : ∀ st1 : InSt, remaining st1 = remaining st → NoEmpty st1.src → st1.cur < st1.buf.length →
          ∃ st' out, (let r := copyBytes (st1.buf.drop st1.cur) (size - acc.length)
                      let st2 : InSt := { st1 with cur := st1.cur + r.1.length }
                      if r.2 = true ∨ r.1 = [] then (st2, acc ++ r.1) else readBLoop cfg size st2 (acc ++ r.1)) = (st', acc ++ out) ∧
            remaining st = out ++ remaining st' ∧ NoEmpty st'.src ∧ (out = [] → remaining st = []) := by
        intro st1 hrem hne1 hcur
        obtain ⟨hpre, hlen, hnil⟩ := copyBytes_spec (st1.buf.drop st1.cur) (size - acc.length)
        rcases hcb : copyBytes (st1.buf.drop st1.cur) (size - acc.length) with ⟨r1, r2⟩
        rw [hcb] at hpre hlen hnil
        simp only at hpre hlen hnil ⊢
        have hr1 : r1 ≠ [] := by
          intro h0
          rcases hnil h0 with h | h
          · have := congrArg List.length h; simp at this; omega
          · omega
        obtain ⟨t, ht⟩ := hpre
        have hdrop : st1.buf.drop (st1.cur + r1.length) = t := by
          have h1 : List.drop r1.length (r1 ++ t) = t := List.drop_left ..
          rw [ht] at h1
          rw [← List.drop_drop]; exact h1
        have hrem2 : remaining st = r1 ++ remaining { st1 with cur := st1.cur + r1.length } := by
          rw [← hrem]
          simp only [remaining, hdrop]
          rw [← List.append_assoc, ht]
        by_cases hstop : r2 = true ∨ r1 = []
        · rw [if_pos hstop]
          exact ⟨_, _, rfl, hrem2, hne1, fun h => absurd h hr1⟩
        · rw [if_neg hstop]
          have hpos : 0 < r1.length := List.length_pos_iff.mpr hr1
          obtain ⟨st', out, hrec, hrem3, hne3, _⟩ := ih { st1 with cur := st1.cur + r1.length } (acc ++ r1) (by simp; omega) hne1
          refine ⟨st', r1 ++ out, ?_, ?_, hne3, ?_⟩
          · rw [hrec]; simp
          · rw [hrem2, hrem3]; simp
          · intro h; simp at h; exact absurd h.1 hr1
      by_cases hge : st.cur ≥ st.buf.length
      · simp only [hge, if_true]
        by_cases hp : (pull st.src cfg.capa).1 = []
        · simp only [hp, if_true]
          have hsrc := pull_nil_of_noEmpty st.src cfg.capa hc hne hp
          refine ⟨{ st with src := (pull st.src cfg.capa).2 }, [], by simp, ?_, ?_, fun _ _ => ?_⟩
          · simp [remaining, hsrc, pull, List.drop_eq_nil_of_le hge]
          · simp [hsrc, pull, NoEmpty]
          · simp [remaining, hsrc, List.drop_eq_nil_of_le hge]
        · simp only [hp, if_false]
          obtain ⟨st', out, h1, h2, h3, h4⟩ := key { st with buf := (pull st.src cfg.capa).1, cur := 0, src := (pull st.src cfg.capa).2 }
            (by simp [remaining, pull_flatten, List.drop_eq_nil_of_le hge]) (pull_noEmpty _ _ hne)
            (by simpa using List.length_pos_iff.mpr hp)
          exact ⟨st', out, h1, h2, h3, fun _ => h4⟩
      · simp only [hge, if_false]
        obtain ⟨st', out, h1, h2, h3, h4⟩ := key st rfl hne (by omega)
        exact ⟨st', out, h1, h2, h3, fun _ => h4⟩
    · rw [dif_neg hlt]
      exact ⟨st, [], by simp, by simp, hne, by omega⟩

/-- byte-mode reads hand the caller exactly the bytes supplied, whatever the chunking -/
theorem readAllBytes_spec (cfg : Cfg) (hc : 1 ≤ cfg.capa) (size : Nat) (hs : 1 ≤ size) :
    ∀ (k : Nat) (st : InSt), (remaining st).length ≤ k → NoEmpty st.src → readAllBytes cfg size st = (remaining st, true) := by
  intro k
  induction k with
  | zero =>
    intro st hk hne
    obtain ⟨st', out, hr, hrem, hne', h0⟩ := readBLoop_spec cfg hc size size st [] (by simp) hne
    have : out = [] := by
      have := congrArg List.length hrem; simp at this; exact List.eq_nil_of_length_eq_zero (by omega)
    subst this
    rw [readAllBytes]; unfold readBchars; rw [hr]
    simp [h0 (by simp; omega) rfl]
  | succ k ih =>
    intro st hk hne
    obtain ⟨st', out, hr, hrem, hne', h0⟩ := readBLoop_spec cfg hc size size st [] (by simp) hne
    rw [readAllBytes]; unfold readBchars; rw [hr]
    cases out with
    | nil => simp [h0 (by simp; omega) rfl]
    | cons b bs =>
      have hp : pending st' < pending st := by
        rw [pending_remaining, pending_remaining, hrem]; simp; omega
      simp only [List.nil_append]
      rw [dif_pos hp, ih st' (by rw [hrem] at hk; simp at hk; omega) hne', hrem]

end Hawk.Tio
