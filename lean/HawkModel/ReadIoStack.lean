import HawkModel.ReadIo
import HawkModel.Tio
import HawkModel.Gen.RioSizes
/-!
# The layers below `rio.c`, composed: what the std console / file handler returns to `hawk_rtx_readio`

`std.c:hawk_rio_console` (and `hawk_rio_file`) READ asks `hawk_sio_getoochars (sio, buf, size)` = `hawk_tio_readuchars`
once per call (`size` = the 2048 characters of `hawk_rio_arg_t.in.u.buf`; tio's staging buffer is `hawk_sio_t.inbuf`,
2048 bytes); READ_BYTES asks `hawk_sio_getbchars` = `hawk_tio_readbchars`.  The tio model is `HawkModel/Tio.lean` (C15's);
here it is only iterated, keeping the result of every call apart: these are the chunks the record reader sees.

Core Lean only.
-/
namespace Hawk.ReadIo

/-- what rio's READ calls receive from the handler over one file: one `hawk_tio_readuchars (tio, buf, size)` per call,
until it returns 0 (end of the file) or fails -/
def tioChunks (cfg : Tio.Cfg) (size : Nat) (st : Tio.InSt) : List (List Nat) × Tio.End :=
  match Tio.readUchars cfg size st with
  | (_, .n []) => ([], .eof)
  | (st', .n (o :: out)) =>
    if _h : Tio.pending st' < Tio.pending st then
      let r := tioChunks cfg size st'
      ((o :: out) :: r.1, r.2)
    else ([o :: out], .stuck)
  | (_, .err e) => ([], .err e)
  | (_, .fault f) => ([], .fault f)
termination_by Tio.pending st

/-- the same for READ_BYTES: one `hawk_tio_readbchars` per call -/
def tioByteChunks (cfg : Tio.Cfg) (size : Nat) (st : Tio.InSt) : List (List UInt8) × Bool :=
  match Tio.readBchars cfg size st with
  | (_, []) => ([], true)
  | (st', b :: bs) =>
    if _h : Tio.pending st' < Tio.pending st then
      let r := tioByteChunks cfg size st'
      ((b :: bs) :: r.1, r.2)
    else ([b :: bs], false)
termination_by Tio.pending st

/-- the characters as the record reader sees them -/
def toChars (cs : List Nat) : List Char := cs.map Char.ofNat

/-- the bytes as the byte record reader sees them (one unit per byte) -/
def byteUnits (bs : List UInt8) : List Char := bs.map fun b => Char.ofNat b.toNat

/-- tio's staging buffer is `hawk_sio_t.inbuf`; its size, and the sizes `hawk_rtx_readio` / `hawk_rtx_readiobytes` pass to the
handler (`countof(in.u.buf)`, `countof(in.u.bbuf)`), are extracted from the headers of the checked tree (extract/rio_sizes.py) -/
def sioCfg : Tio.Cfg := { capa := Gen.sioInbufBytes }

/-- the stream of a file (or of standard input) whose bytes arrive in the given pieces, as `hawk_rtx_readio` sees it -/
def stdStream (pieces : List (List UInt8)) : Stream :=
  (tioChunks sioCfg Gen.rioBufChars { src := pieces }).1.map toChars

/-- … as `hawk_rtx_readiobytes` sees it -/
def stdByteStream (pieces : List (List UInt8)) : Stream :=
  (tioByteChunks sioCfg Gen.rioBufBytes { src := pieces }).1.map byteUnits

end Hawk.ReadIo
