import HawkModel.DeparseLemmas
/-! facts about the generated tables (ladder order, operator maps, spellings), all by evaluation -/
namespace Hawk.Deparse
open Hawk.Gen.Precedence

/-! ### facts about the generated tables (all by evaluation) -/

/-- levels `pre` (above parse_increment) pass every operand that is followed by kinds `a`, `b`; so do the two bottom levels -/
def opOK (pre : List Level) (a b : Option TK) : Bool :=
  startKs.all (fun s => passK pre (some s) a b) && noContK .incLv a b && noContK .primLv a b

theorem opOK_pass {pre : List Level} {a b : Option TK} (h : opOK pre a b = true) {s : TK} (hs : s ∈ startKs) :
    passK pre (some s) a b = true := by
  simp only [opOK, Bool.and_eq_true, List.all_eq_true] at h
  exact h.1.1 s hs

theorem opOK_inc {pre : List Level} {a b : Option TK} (h : opOK pre a b = true) : noContK .incLv a b = true := by
  simp only [opOK, Bool.and_eq_true] at h; exact h.1.2

theorem opOK_prim {pre : List Level} {a b : Option TK} (h : opOK pre a b = true) : noContK .primLv a b = true := by
  simp only [opOK, Bool.and_eq_true] at h; exact h.2

theorem noContK_indep (L : Level) (a b b' : Option TK) (h1 : a ≠ some .BOR) (h2 : a ≠ some .LOR) :
    noContK L a b = noContK L a b' := by
  have e1 : (a == some TK.BOR) = false := by simpa using h1
  have e2 : (a == some TK.LOR) = false := by simpa using h2
  cases L <;> simp [noContK, e1, e2]

theorem opOK_indep (pre : List Level) (a b b' : Option TK) (h1 : a ≠ some .BOR) (h2 : a ≠ some .LOR) :
    opOK pre a b = opOK pre a b' := by
  simp only [opOK, passK, noContK_indep _ a b b' h1 h2]

/-- the ladder above parse_increment / parse_primary -/
def ladderPre : List Level := ladder.dropLast.dropLast
theorem ladder_split : ladder = ladderPre ++ [.incLv, .primLv] := by decide +kernel

/-- ... below parse_expr -/
def tailPre : List Level := ladderPre.tail
theorem ladderPre_ass : ladderPre = .assLv :: tailPre := by decide +kernel

/-- ... below parse_expr_basic -/
def cndPre : List Level := tailPre.tail
theorem tailPre_cnd : tailPre = .cndLv :: cndPre := by decide +kernel

/-- the levels above / below parse_unary -/
def unPre : List Level := ladderPre.takeWhile (fun L => L != .unaryLv)
def unBelowPre : List Level := (ladderPre.dropWhile (fun L => L != .unaryLv)).tail
theorem ladderPre_unary : ladderPre = unPre ++ .unaryLv :: unBelowPre := by decide +kernel

theorem stop_RPAREN : opOK ladderPre (some .RPAREN) none = true := by decide +kernel
theorem stop_RBRACK : opOK ladderPre (some .RBRACK) none = true := by decide +kernel
theorem stop_COMMA : opOK ladderPre (some .COMMA) none = true := by decide +kernel
theorem stop_COLON : opOK ladderPre (some .COLON) none = true := by decide +kernel
theorem stop_end : opOK ladderPre none none = true := by decide +kernel
theorem stop_QUEST : opOK cndPre (some .QUEST) none = true := by decide +kernel
theorem stop_unBelow_RPAREN : opOK unBelowPre (some .RPAREN) none = true := by decide +kernel
theorem stop_inc (op : IncOp) : noContK .primLv (some (incTok op).k) none = true := by cases op <;> decide +kernel

theorem assign_lookup (op : AssOp) : assignToks.lookup (assTok op).k = some op := by cases op <;> decide +kernel
theorem unary_lookup (op : UnrOp) : unaryToks.lookup (unrTok op).k = some op := by cases op <;> decide +kernel
theorem inc_lookup (op : IncOp) : incToks.lookup (incTok op).k = some op := by cases op <;> decide +kernel
theorem minus_lookup : unaryToks.lookup tMINUS.k = some .MINUS := by decide +kernel

theorem stop_ass (op : AssOp) : startKs.all (fun s => opOK tailPre (some (assTok op).k) (some s)) = true := by
  cases op <;> decide +kernel

/-- the levels above parse_unary pass a unary operator token down and `)` up -/
theorem unPre_pass (op : UnrOp) : passK unPre (some (unrTok op).k) (some .RPAREN) none = true := by cases op <;> decide +kernel
theorem ladder_ass : ladder = .assLv :: (tailPre ++ [.incLv, .primLv]) := by decide +kernel
theorem ladder_cnd : ladder = .assLv :: .cndLv :: (cndPre ++ [.incLv, .primLv]) := by decide +kernel
theorem rp_not_assign : assignToks.lookup tRP.k = none := by decide +kernel
theorem lp_not_inc : incToks.lookup tLP.k = none := by decide +kernel
theorem stop_inc' (op : IncOp) (b : Option TK) : noContK .primLv (some (incTok op).k) b = true := by
  rw [noContK_indep _ _ b none (by cases op <;> decide) (by cases op <;> decide)]; exact stop_inc op
theorem stop_QUEST' (b : Option TK) : opOK cndPre (some .QUEST) b = true := by
  rw [opOK_indep _ _ b none (by decide) (by decide)]; exact stop_QUEST
theorem unBelow_pass : startKs.all (fun s => passK (.unaryLv :: unBelowPre) (some s) (some .RPAREN) none) = true := by decide +kernel
theorem unPre_pass_minus : passK unPre (some tMINUS.k) (some .RPAREN) none = true := by decide +kernel

/-- does level `L` map token kind `k` to `op`? -/
def handlesK (L : Level) (k : TK) (op : BinOp) : Bool :=
  match L with
  | .binary _ _ _ map => map.lookup k == some op
  | .inLv => k == .IN && op == .IN
  | .concatLv => k == concatTok && op == .CONCAT
  | _ => false

/-- is the level a right-associative `parse_binary` level? -/
def isRassoc : Level → Bool
  | .binary _ _ ra _ => ra
  | _ => false

/-- the levels that parse the right operand of an operator handled by level `L` (`below` = the levels under `L`):
    the next level, or `L` itself when it is right-associative -/
def rightLevels (L : Level) (below : List Level) : List Level := if isRassoc L then L :: below else below

/-- split a ladder at the first level that handles `k` as `op` -/
def splitAtOp (k : TK) (op : BinOp) : List Level → Option (List Level × Level × List Level)
  | [] => none
  | L :: r =>
    if handlesK L k op then some ([], L, r) else
    match splitAtOp k op r with
    | some (p, l, b) => some (L :: p, l, b)
    | none => none

theorem splitAtOp_eq (k : TK) (op : BinOp) (lv p b : List Level) (L : Level) (h : splitAtOp k op lv = some (p, L, b)) :
    lv = p ++ L :: b ∧ handlesK L k op = true := by
  induction lv generalizing p with
  | nil => simp [splitAtOp] at h
  | cons M r ih =>
    simp only [splitAtOp] at h
    split at h
    · next hh => simp only [Option.some.injEq, Prod.mk.injEq] at h; obtain ⟨rfl, rfl, rfl⟩ := h; exact ⟨rfl, hh⟩
    · split at h
      · next p' l' b' he =>
        simp only [Option.some.injEq, Prod.mk.injEq] at h; obtain ⟨rfl, rfl, rfl⟩ := h
        have := ih p' he
        exact ⟨by rw [this.1]; rfl, this.2⟩
      · simp at h

/-- everything the round trip of `( l op r )` needs from the tables, for one operator -/
def binOK (op : BinOp) : Bool :=
  match splitAtOp (binTok op).k op ladderPre with
  | none => false
  | some (pre, L, bp) =>
    startKs.all (fun s => passK pre (some s) (some .RPAREN) none) &&     -- the node passes up to the top, followed by `)`
    startKs.all (fun s => opOK bp (some (binTok op).k) (some s)) &&      -- left operand, followed by the operator and the right operand
    opOK (rightLevels L bp) (some .RPAREN) none &&                       -- right operand (read by the next level, or by the
                                                                         -- level itself if right-associative), followed by `)`
    noContK L (some .RPAREN) none                                        -- the loop stops at `)`

theorem binOK_all (op : BinOp) : binOK op = true := by cases op <;> decide +kernel

end Hawk.Deparse
