import HawkModel.Expr
/-! helper lemmas for property C08 (fold soundness, the storage simulation, the environment laws) -/
set_option linter.unusedSectionVars false
set_option linter.unusedSimpArgs false
namespace Hawk.Expr
open FloatOps
variable {F : Type} [FloatOps F]

@[simp] theorem ok_bind {α β : Type} (a : α) (f : α → Except Err β) : (Except.ok a >>= f) = f a := rfl
@[simp] theorem error_bind {α β : Type} (e : Err) (f : α → Except Err β) : ((Except.error e : Except Err α) >>= f) = .error e := rfl
@[simp] theorem map_ok {α β : Type} (f : α → β) (a : α) : f <$> (Except.ok a : Except Err α) = .ok (f a) := rfl
@[simp] theorem map_error {α β : Type} (f : α → β) (e : Err) : f <$> (Except.error e : Except Err α) = .error e := rfl
@[simp] theorem pure_eq_ok {α : Type} (a : α) : (pure a : Except Err α) = .ok a := rfl
@[simp] theorem emap_ok {α β : Type} (f : α → β) (a : α) : (Except.ok a : Except Err α).map f = .ok (f a) := rfl
@[simp] theorem emap_error {α β : Type} (f : α → β) (e : Err) : (Except.error e : Except Err α).map f = .error e := rfl

theorem cmod_isSome (a b : Int) (h : b ≠ 0) (h1 : ¬(a = INT_MIN ∧ b = -1)) : ∃ m, cmod a b = some m := by
  unfold cmod
  simp [h, h1]

theorem cdiv_isSome (a b : Int) (h : b ≠ 0) (h1 : ¬(a = INT_MIN ∧ b = -1)) : ∃ q, cdiv a b = some q := by
  unfold cdiv
  simp [h, h1]

theorem cmod_isSome' (a b : Int) (h : b ≠ 0) (h1 : b ≠ -1) : ∃ m, cmod a b = some m :=
  cmod_isSome a b h (fun hh => h1 hh.2)

theorem cdiv_isSome' (a b : Int) (h : b ≠ 0) (h1 : b ≠ -1) : ∃ q, cdiv a b = some q :=
  cdiv_isSome a b h (fun hh => h1 hh.2)

def FoldSpec (X : Ext F) (op : BinOp) (a b : LitNode F) : FoldResult F → Prop
  | .int v => evalBinop X op a.val b.val = .ok (.int v)
  | .flt r => evalBinop X op a.val b.val = .ok (.flt r)
  | .error e => evalBinop X op a.val b.val = .error e
  | .nofold => True
  | .crash => False

theorem foldBinop_spec (X : Ext F) (op : BinOp) (a b : LitNode F) : FoldSpec X op a b (foldBinop op a b) := by
  rcases a with ⟨ta, ia, fa⟩
  rcases b with ⟨tb, ib, fb⟩
  cases ta <;> cases tb <;> cases op <;>
    simp [foldBinop, FoldSpec, evalBinop, LitNode.val, toNum, evalPlus, evalMinus, evalMul, evalDiv, evalIdiv, evalMod,
          divIntInt, idivIntInt, modIntInt]
  all_goals
    by_cases hb : ib = 0
    · simp [hb]
    · by_cases h1 : ib = -1
      · by_cases h2 : ia = INT_MIN
        · simp [hb, h1, h2]
        · obtain ⟨m, hm⟩ := cmod_isSome ia ib hb (fun hh => h2 hh.1)
          obtain ⟨q, hq⟩ := cdiv_isSome ia ib hb (fun hh => h2 hh.1)
          rw [h1] at hm hq
          by_cases hm0 : m = 0 <;> simp [h1, h2, hm, hq, hm0, ofOpt]
      · obtain ⟨m, hm⟩ := cmod_isSome' ia ib hb h1
        obtain ⟨q, hq⟩ := cdiv_isSome' ia ib hb h1
        by_cases hm0 : m = 0 <;> simp [hb, h1, hm, hq, hm0, ofOpt]
end Hawk.Expr

namespace Hawk.Expr
open FloatOps
variable {F : Type} [FloatOps F]

/-- the folder never executes a trapping division -/
theorem foldBinop_ne_crash (op : BinOp) (a b : LitNode F) : foldBinop op a b ≠ .crash := by
  rcases a with ⟨ta, ia, fa⟩
  rcases b with ⟨tb, ib, fb⟩
  cases ta <;> cases tb <;> cases op <;> simp [foldBinop]
  all_goals
    by_cases hb : ib = 0
    · simp [hb]
    · by_cases h1 : ib = -1
      · by_cases h2 : ia = INT_MIN
        · simp [hb, h1, h2]
        · obtain ⟨m, hm⟩ := cmod_isSome ia ib hb (fun hh => h2 hh.1)
          obtain ⟨q, hq⟩ := cdiv_isSome ia ib hb (fun hh => h2 hh.1)
          rw [h1] at hm hq
          by_cases hm0 : m = 0 <;> simp [h1, h2, hm, hq, hm0]
      · obtain ⟨m, hm⟩ := cmod_isSome' ia ib hb h1
        obtain ⟨q, hq⟩ := cdiv_isSome' ia ib hb h1
        by_cases hm0 : m = 0 <;> simp [hb, h1, hm, hq, hm0]

def FoldUSpec (X : Ext F) (op : UnrOp) (a : LitNode F) : FoldResult F → Prop
  | .int v => evalUnary X op a.val = .ok (.int v)
  | .flt r => evalUnary X op a.val = .ok (.flt r)
  | .error _ => False
  | .nofold => False
  | .crash => False

theorem foldUnary_spec (X : Ext F) (op : UnrOp) (a : LitNode F) : FoldUSpec X op a (foldUnary op a) := by
  rcases a with ⟨ta, ia, fa⟩
  cases ta <;> cases op <;> simp [foldUnary, FoldUSpec, evalUnary, LitNode.val, toNum, toInt]

variable {S R : Type}

theorem eval_bin_congr (X : Ext F) (st : Storage S R F) (op : BinOp) (l l' r r' : Expr R F)
    (hl : ∀ s, eval X st l' s = eval X st l s) (hr : ∀ s, eval X st r' s = eval X st r s) (s : S) :
    eval X st (.bin op l' r') s = eval X st (.bin op l r) s := by
  cases op <;> simp [eval, hl, hr]

theorem eval_lit_mkInt (X : Ext F) (st : Storage S R F) (v : Int) (s : S) :
    eval X st (.lit (LitNode.mkInt v)) s = .ok (.int v, s) := by
  simp [eval, LitNode.mkInt, LitNode.val]

theorem eval_lit_mkFlt (X : Ext F) (st : Storage S R F) (v : F) (s : S) :
    eval X st (.lit (LitNode.mkFlt v)) s = .ok (.flt v, s) := by
  simp [eval, LitNode.mkFlt, LitNode.val]

theorem foldBinNode_sound (X : Ext F) (st : Storage S R F) (op : BinOp) (l r e' : Expr R F)
    (h : foldBinNode op l r = .ok e') (s : S) : eval X st e' s = eval X st (.bin op l r) s := by
  unfold foldBinNode at h
  split at h
  · rename_i a b
    by_cases hv : op.viaParseBinary = true
    · simp only [hv, if_true] at h
      have hs := foldBinop_spec X op a b
      cases hf : foldBinop op a b with
      | nofold => rw [hf] at h; injection h with h; rw [← h]
      | int v =>
        rw [hf] at h hs; injection h with h; subst h
        simp only [FoldSpec] at hs
        rw [eval_lit_mkInt]
        cases op <;> simp_all [eval, BinOp.viaParseBinary] <;> simp [evalBinop] at hs
      | flt v =>
        rw [hf] at h hs; injection h with h; subst h
        simp only [FoldSpec] at hs
        rw [eval_lit_mkFlt]
        cases op <;> simp_all [eval, BinOp.viaParseBinary] <;> simp [evalBinop] at hs
      | error e => rw [hf] at h; cases h
      | crash => rw [hf] at h; cases h
    · simp only [hv] at h
      injection h with h; rw [← h]
  · injection h with h; rw [← h]
end Hawk.Expr

namespace Hawk.Expr
open FloatOps
variable {F : Type} [FloatOps F] {S R : Type}

theorem foldUnNode_sound (X : Ext F) (st : Storage S R F) (op : UnrOp) (e e' : Expr R F)
    (h : foldUnNode op e = .ok e') (s : S) : eval X st e' s = eval X st (.un op e) s := by
  unfold foldUnNode at h
  split at h
  · rename_i a
    have hs := foldUnary_spec X op a
    cases hf : foldUnary op a with
    | nofold => rw [hf] at hs; exact hs.elim
    | int v =>
      rw [hf] at h hs; injection h with h; subst h
      simp only [FoldUSpec] at hs
      rw [eval_lit_mkInt]; simp [eval, hs]
    | flt v =>
      rw [hf] at h hs; injection h with h; subst h
      simp only [FoldUSpec] at hs
      rw [eval_lit_mkFlt]; simp [eval, hs]
    | error e => rw [hf] at hs; exact hs.elim
    | crash => rw [hf] at hs; exact hs.elim
  · injection h with h; rw [← h]

theorem bind_eq_ok {α β : Type} {x : Except Err α} {f : α → Except Err β} {b : β}
    (h : (x >>= f) = .ok b) : ∃ a, x = .ok a ∧ f a = .ok b := by
  cases x with
  | error e => cases h
  | ok a => exact ⟨a, rfl, h⟩

theorem foldExpr_sound (X : Ext F) (st : Storage S R F) (e : Expr R F) :
    ∀ e', foldExpr e = .ok e' → ∀ s, eval X st e' s = eval X st e s := by
  induction e with
  | un op e ih =>
    intro e' h s
    simp only [foldExpr] at h
    obtain ⟨e1, h1, h2⟩ := bind_eq_ok h
    rw [foldUnNode_sound X st op e1 e' h2 s]
    simp [eval, ih e1 h1]
  | bin op l r ihl ihr =>
    intro e' h s
    simp only [foldExpr] at h
    obtain ⟨l1, h1, h2⟩ := bind_eq_ok h
    obtain ⟨r1, h3, h4⟩ := bind_eq_ok h2
    rw [foldBinNode_sound X st op l1 r1 e' h4 s]
    exact eval_bin_congr X st op l l1 r r1 (ihl l1 h1) (ihr r1 h3) s
  | cnd c t f ihc iht ihf =>
    intro e' h s
    simp only [foldExpr] at h
    obtain ⟨c1, h1, h2⟩ := bind_eq_ok h
    obtain ⟨t1, h3, h4⟩ := bind_eq_ok h2
    obtain ⟨f1, h5, h6⟩ := bind_eq_ok h4
    injection h6 with h6; subst h6
    simp [eval, ihc c1 h1, iht t1 h3, ihf f1 h5]
  | asg op x y ih =>
    intro e' h s
    simp only [foldExpr] at h
    obtain ⟨y1, h1, h2⟩ := bind_eq_ok h
    injection h2 with h2; subst h2
    simp [eval, ih y1 h1]
  | _ =>
    intro e' h s
    simp only [foldExpr] at h
    injection h with h; rw [← h]
end Hawk.Expr

namespace Hawk.Expr
open FloatOps
variable {F : Type} [FloatOps F] {S R : Type}

/-- while parsing `e` the folder is applied to operator `op` with the literal operands `a`, `b`
(the folded forms of two sub-expressions `l`, `r` of `e`) and reports the error `err` -/
inductive FoldFails : Expr R F → BinOp → Expr R F → Expr R F → LitNode F → LitNode F → Err → Prop where
  | here {op l r a b err} : foldExpr l = .ok (.lit a) → foldExpr r = .ok (.lit b) →
      foldBinop op a b = .error err → FoldFails (.bin op l r) op l r a b err
  | un {uop e op l r a b err} : FoldFails e op l r a b err → FoldFails (.un uop e) op l r a b err
  | binL {op' x y op l r a b err} : FoldFails x op l r a b err → FoldFails (.bin op' x y) op l r a b err
  | binR {op' x y op l r a b err} : FoldFails y op l r a b err → FoldFails (.bin op' x y) op l r a b err
  | cndC {c t f op l r a b err} : FoldFails c op l r a b err → FoldFails (.cnd c t f) op l r a b err
  | cndT {c t f op l r a b err} : FoldFails t op l r a b err → FoldFails (.cnd c t f) op l r a b err
  | cndF {c t f op l r a b err} : FoldFails f op l r a b err → FoldFails (.cnd c t f) op l r a b err
  | asg {aop x y op l r a b err} : FoldFails y op l r a b err → FoldFails (.asg aop x y) op l r a b err

theorem bind_eq_error {α β : Type} {x : Except Err α} {f : α → Except Err β} {e : Err}
    (h : (x >>= f) = .error e) : x = .error e ∨ ∃ a, x = .ok a ∧ f a = .error e := by
  cases x with
  | error e' => left; injection h with h; rw [h]
  | ok a => right; exact ⟨a, rfl, h⟩

theorem foldUnNode_no_error (op : UnrOp) (e : Expr R F) (err : Err) : foldUnNode op e ≠ .error err := by
  unfold foldUnNode
  split
  · rename_i a
    rcases a with ⟨ta, ia, fa⟩
    cases ta <;> cases op <;> simp [foldUnary]
  · simp

theorem foldBinNode_error (op : BinOp) (l r : Expr R F) (err : Err) (h : foldBinNode op l r = .error err) :
    ∃ a b, l = .lit a ∧ r = .lit b ∧ foldBinop op a b = .error err := by
  unfold foldBinNode at h
  split at h
  · rename_i a b
    refine ⟨a, b, rfl, rfl, ?_⟩
    by_cases hv : op.viaParseBinary = true
    · simp only [hv, if_true] at h
      have hs := foldBinop_ne_crash op a b
      cases hf : foldBinop op a b with
      | nofold => rw [hf] at h; cases h
      | int v => rw [hf] at h; cases h
      | flt v => rw [hf] at h; cases h
      | error e => rw [hf] at h; injection h with h; rw [h]
      | crash => exact absurd hf hs
    · simp only [hv] at h; cases h
  · cases h

theorem foldExpr_error (e : Expr R F) : ∀ err, foldExpr e = .error err →
    ∃ op l r a b, FoldFails e op l r a b err := by
  induction e with
  | un uop e ih =>
    intro err h
    simp only [foldExpr] at h
    rcases bind_eq_error h with h1 | ⟨e1, _, h2⟩
    · obtain ⟨op, l, r, a, b, hf⟩ := ih err h1
      exact ⟨op, l, r, a, b, .un hf⟩
    · exact absurd h2 (foldUnNode_no_error uop e1 err)
  | bin op' x y ihx ihy =>
    intro err h
    simp only [foldExpr] at h
    rcases bind_eq_error h with h1 | ⟨x1, hx1, h2⟩
    · obtain ⟨op, l, r, a, b, hf⟩ := ihx err h1
      exact ⟨op, l, r, a, b, .binL hf⟩
    · rcases bind_eq_error h2 with h3 | ⟨y1, hy1, h4⟩
      · obtain ⟨op, l, r, a, b, hf⟩ := ihy err h3
        exact ⟨op, l, r, a, b, .binR hf⟩
      · obtain ⟨a, b, ha, hb, hf⟩ := foldBinNode_error op' x1 y1 err h4
        subst ha; subst hb
        exact ⟨op', x, y, a, b, .here hx1 hy1 hf⟩
  | cnd c t f ihc iht ihf =>
    intro err h
    simp only [foldExpr] at h
    rcases bind_eq_error h with h1 | ⟨c1, _, h2⟩
    · obtain ⟨op, l, r, a, b, hf⟩ := ihc err h1
      exact ⟨op, l, r, a, b, .cndC hf⟩
    · rcases bind_eq_error h2 with h3 | ⟨t1, _, h4⟩
      · obtain ⟨op, l, r, a, b, hf⟩ := iht err h3
        exact ⟨op, l, r, a, b, .cndT hf⟩
      · rcases bind_eq_error h4 with h5 | ⟨f1, _, h6⟩
        · obtain ⟨op, l, r, a, b, hf⟩ := ihf err h5
          exact ⟨op, l, r, a, b, .cndF hf⟩
        · cases h6
  | asg aop x y ih =>
    intro err h
    simp only [foldExpr] at h
    rcases bind_eq_error h with h1 | ⟨y1, _, h2⟩
    · obtain ⟨op, l, r, a, b, hf⟩ := ih err h1
      exact ⟨op, l, r, a, b, .asg hf⟩
    · cases h2
  | _ =>
    intro err h
    simp only [foldExpr] at h
    cases h
end Hawk.Expr

namespace Hawk.Expr
open FloatOps
variable {F : Type} [FloatOps F]

variable {S₁ S₂ R₁ R₂ : Type}

/-- the result of the concrete run `r₂` matches the result of the reference run `r₁`:
same value and related final states, or the same error -/
def Sim (Rel : S₂ → S₁ → Prop) (r₂ : Except Err (Val F × S₂)) (r₁ : Except Err (Val F × S₁)) : Prop :=
  match r₁ with
  | .ok (v, s₁') => ∃ s₂', r₂ = .ok (v, s₂') ∧ Rel s₂' s₁'
  | .error e => r₂ = .error e

def SimW (Rel : S₂ → S₁ → Prop) (r₂ : Except Err S₂) (r₁ : Except Err S₁) : Prop :=
  match r₁ with
  | .ok s₁' => ∃ s₂', r₂ = .ok s₂' ∧ Rel s₂' s₁'
  | .error e => r₂ = .error e

/-- storage `st₂` accessed through `π` behaves like storage `st₁`, as long as the states are related by `Rel` -/
structure Simulates (st₂ : Storage S₂ R₂ F) (st₁ : Storage S₁ R₁ F) (π : R₁ → R₂) (Rel : S₂ → S₁ → Prop) : Prop where
  read : ∀ r s₂ s₁, Rel s₂ s₁ → Sim Rel (st₂.read (π r) s₂) (st₁.read r s₁)
  write : ∀ r v s₂ s₁, Rel s₂ s₁ → SimW Rel (st₂.write (π r) v s₂) (st₁.write r v s₁)

theorem Sim.bind {Rel : S₂ → S₁ → Prop} {r₂ : Except Err (Val F × S₂)} {r₁ : Except Err (Val F × S₁)}
    {f₂ : Val F × S₂ → Except Err (Val F × S₂)} {f₁ : Val F × S₁ → Except Err (Val F × S₁)}
    (h : Sim Rel r₂ r₁) (hf : ∀ v s₂ s₁, Rel s₂ s₁ → Sim Rel (f₂ (v, s₂)) (f₁ (v, s₁))) :
    Sim Rel (r₂ >>= f₂) (r₁ >>= f₁) := by
  cases r₁ with
  | error e => simp only [Sim] at h; subst h; simp [Sim]
  | ok p =>
    obtain ⟨v, s₁⟩ := p
    simp only [Sim] at h
    obtain ⟨s₂, h2, hr⟩ := h
    subst h2
    simpa using hf v s₂ s₁ hr

theorem SimW.bind {Rel : S₂ → S₁ → Prop} {r₂ : Except Err S₂} {r₁ : Except Err S₁}
    {f₂ : S₂ → Except Err (Val F × S₂)} {f₁ : S₁ → Except Err (Val F × S₁)}
    (h : SimW Rel r₂ r₁) (hf : ∀ s₂ s₁, Rel s₂ s₁ → Sim Rel (f₂ s₂) (f₁ s₁)) :
    Sim Rel (r₂ >>= f₂) (r₁ >>= f₁) := by
  cases r₁ with
  | error e => simp only [SimW] at h; subst h; simp [Sim]
  | ok s₁ =>
    simp only [SimW] at h
    obtain ⟨s₂, h2, hr⟩ := h
    subst h2
    simpa using hf s₂ s₁ hr

theorem Sim.ok {Rel : S₂ → S₁ → Prop} {v : Val F} {s₂ : S₂} {s₁ : S₁} (h : Rel s₂ s₁) :
    Sim Rel (.ok (v, s₂)) (.ok (v, s₁)) := ⟨s₂, rfl, h⟩

/-- pure step in both runs: same computation on the value, states untouched -/
theorem Sim.pureBind {Rel : S₂ → S₁ → Prop} {s₂ : S₂} {s₁ : S₁} (x : Except Err (Val F)) (h : Rel s₂ s₁) :
    Sim Rel (x >>= fun res => pure (res, s₂)) (x >>= fun res => pure (res, s₁)) := by
  cases x with
  | error e => simp [Sim]
  | ok v => simpa using Sim.ok h

theorem Sim.pureBindG {α : Type} {Rel : S₂ → S₁ → Prop} {s₂ : S₂} {s₁ : S₁} (x : Except Err α) (g : α → Val F) (h : Rel s₂ s₁) :
    Sim Rel (x >>= fun a => pure (g a, s₂)) (x >>= fun a => pure (g a, s₁)) := by
  cases x with
  | error e => simp [Sim]
  | ok v => simpa using Sim.ok h

theorem eval_sim (X : Ext F) {st₂ : Storage S₂ R₂ F} {st₁ : Storage S₁ R₁ F} {π : R₁ → R₂} {Rel : S₂ → S₁ → Prop}
    (H : Simulates st₂ st₁ π Rel) (e : Expr R₁ F) :
    ∀ s₂ s₁, Rel s₂ s₁ → Sim Rel (eval X st₂ (e.map π) s₂) (eval X st₁ e s₁) := by
  induction e with
  | lit n => intro s₂ s₁ h; simpa [eval, Expr.map] using Sim.ok h
  | str x => intro s₂ s₁ h; simpa [eval, Expr.map] using Sim.ok h
  | mbs x => intro s₂ s₁ h; simpa [eval, Expr.map] using Sim.ok h
  | chr x => intro s₂ s₁ h; simpa [eval, Expr.map] using Sim.ok h
  | bchr x => intro s₂ s₁ h; simpa [eval, Expr.map] using Sim.ok h
  | xnil => intro s₂ s₁ h; simpa [eval, Expr.map] using Sim.ok h
  | var r => intro s₂ s₁ h; simpa [eval, Expr.map] using H.read r s₂ s₁ h
  | un op e ih =>
    intro s₂ s₁ h
    simp only [eval, Expr.map]
    exact Sim.bind (ih s₂ s₁ h) (fun v t₂ t₁ ht => Sim.pureBind _ ht)
  | bin op l r ihl ihr =>
    intro s₂ s₁ h
    cases op <;> simp only [eval, Expr.map] <;>
    first
    | exact Sim.bind (ihl s₂ s₁ h) (fun lv t₂ t₁ ht => Sim.bind (ihr t₂ t₁ ht) (fun rv u₂ u₁ hu => Sim.pureBind _ hu))
    | (refine Sim.bind (ihl s₂ s₁ h) (fun lv t₂ t₁ ht => ?_)
       by_cases hb : toBool lv = true
       · first
         | simpa [hb] using Sim.ok ht
         | (simp only [hb]
            exact Sim.bind (ihr t₂ t₁ ht) (fun rv u₂ u₁ hu => by simpa using Sim.ok hu))
       · first
         | simpa [hb] using Sim.ok ht
         | (simp only [hb]
            exact Sim.bind (ihr t₂ t₁ ht) (fun rv u₂ u₁ hu => by simpa using Sim.ok hu)))
    | exact Sim.bind (ihl s₂ s₁ h) (fun lv t₂ t₁ ht => Sim.bind (ihr t₂ t₁ ht) (fun rv u₂ u₁ hu => Sim.pureBindG _ (fun m => boolVal m) hu))
    | exact Sim.bind (ihl s₂ s₁ h) (fun lv t₂ t₁ ht => Sim.bind (ihr t₂ t₁ ht) (fun rv u₂ u₁ hu => Sim.pureBindG _ (fun m => boolVal (!m)) hu))
    | simp [Sim]
  | cnd c t f ihc iht ihf =>
    intro s₂ s₁ h
    simp only [eval, Expr.map]
    refine Sim.bind (ihc s₂ s₁ h) (fun v t₂ t₁ ht => ?_)
    by_cases hb : toBool v = true
    · simpa [hb] using iht t₂ t₁ ht
    · simpa [hb] using ihf t₂ t₁ ht
  | asg op x y ih =>
    intro s₂ s₁ h
    cases op <;> simp only [eval, Expr.map] <;>
    first
    | exact Sim.bind (ih s₂ s₁ h) (fun v t₂ t₁ ht => SimW.bind (H.write x v t₂ t₁ ht) (fun u₂ u₁ hu => by simpa using Sim.ok hu))
    | (refine Sim.bind (ih s₂ s₁ h) (fun v t₂ t₁ ht => Sim.bind (H.read x t₂ t₁ ht) (fun v2 u₂ u₁ hu => ?_))
       cases hx : evalBinop X _ v2 v with
       | error e => simp [Sim]
       | ok tmp => simpa using SimW.bind (H.write x tmp u₂ u₁ hu) (fun w₂ w₁ hw => by simpa using Sim.ok hw))
  | incpre op x =>
    intro s₂ s₁ h
    simp only [eval, Expr.map]
    refine Sim.bind (H.read x s₂ s₁ h) (fun v t₂ t₁ ht => ?_)
    exact SimW.bind (H.write x _ t₂ t₁ ht) (fun u₂ u₁ hu => by simpa using Sim.ok hu)
  | incpst op x =>
    intro s₂ s₁ h
    simp only [eval, Expr.map]
    refine Sim.bind (H.read x s₂ s₁ h) (fun v t₂ t₁ ht => ?_)
    exact SimW.bind (H.write x _ t₂ t₁ ht) (fun u₂ u₁ hu => by simpa using Sim.ok hu)
end Hawk.Expr

namespace Hawk.Expr
open FloatOps
variable {F : Type} [FloatOps F]

/-- the value a reference denotes, without the side effect `eval_indexed` has on a nil variable -/
def Env.peek (e : Env F) : Ref → Val F
  | .plain b => match e.top b with | .sc v => v | _ => .nil
  | .idx b k => match e.top b with
      | .map m => (m k.str).getD .nil
      | .arr a => (match k with | .i n => (a n).getD .nil | .s _ => .nil)
      | .sc _ => .nil

/-- the variable under a reference has a shape the reference can be used with:
a plain variable holds a scalar; a subscripted one holds nil (not yet a map), a map, or an array (integer subscript) -/
def Kinded (e : Env F) : Ref → Prop
  | .plain b => ∃ v, e.top b = .sc v
  | .idx b k => e.top b = .sc .nil ∨ (∃ m, e.top b = .map m) ∨ (∃ a n, e.top b = .arr a ∧ k = .i n)

/-- two references never denote the same storage cell, nor is one the container of the other -/
def Indep : Ref → Ref → Prop
  | .plain b, r' => b ≠ r'.base
  | .idx b _, .plain b' => b ≠ b'
  | .idx b k, .idx b' k' => b ≠ b' ∨ (k.str ≠ k'.str ∧ k ≠ k')

def Good (e : Env F) (r : Ref) (v : Val F) : Prop := e.peek r = v ∧ Kinded e r

omit [FloatOps F] in
theorem top_setTop_same (e : Env F) (b : Base) (c : Cell F) : (e.setTop b c).top b = c := by
  cases b <;> simp [Env.top, Env.setTop]

omit [FloatOps F] in
theorem top_setTop_ne (e : Env F) (b b' : Base) (c : Cell F) (h : b' ≠ b) : (e.setTop b c).top b' = e.top b' := by
  cases b <;> cases b' <;> simp_all [Env.top, Env.setTop]

omit [FloatOps F] in
theorem good_setTop_ne (e : Env F) (b : Base) (c : Cell F) (r : Ref) (v : Val F) (h : r.base ≠ b)
    (hg : Good e r v) : Good (e.setTop b c) r v := by
  cases r with
  | plain b' =>
    simp only [Ref.base] at h
    simpa [Good, Env.peek, Kinded, top_setTop_ne e b b' c h] using hg
  | idx b' k =>
    simp only [Ref.base] at h
    simpa [Good, Env.peek, Kinded, top_setTop_ne e b b' c h] using hg

/-- reading through a well-kinded reference yields the denoted value; every reference that was good stays good -/
theorem envRead_good (e : Env F) (r : Ref) (v : Val F) (hg : Good e r v) :
    ∃ e', envRead r e = .ok (v, e') ∧ Good e' r v ∧
      ∀ r' v', Indep r r' → Good e r' v' → Good e' r' v' := by
  obtain ⟨hp, hk⟩ := hg
  cases r with
  | plain b =>
    obtain ⟨w, hw⟩ := hk
    refine ⟨e, ?_, ⟨hp, ⟨w, hw⟩⟩, fun _ _ _ h => h⟩
    simp [Env.peek, hw] at hp
    simp [envRead, hw, hp]
  | idx b k =>
    rcases hk with hn | ⟨m, hm⟩ | ⟨a, n, ha, hkn⟩
    · -- nil variable: becomes an empty map
      simp [Env.peek, hn] at hp
      subst hp
      refine ⟨e.setTop b (.map emptyMap), by simp [envRead, hn], ?_, ?_⟩
      · simp [Good, Env.peek, Kinded, top_setTop_same, emptyMap]
      · intro r' v' hi hg'
        cases r' with
        | plain b' => exact good_setTop_ne e b _ _ _ (by simpa [Ref.base] using (Ne.symm hi)) hg'
        | idx b' k' =>
          by_cases hb : b' = b
          · subst hb
            obtain ⟨hp', _⟩ := hg'
            simp [Env.peek, hn] at hp'
            simp [Good, Env.peek, Kinded, top_setTop_same, emptyMap, hp']
          · exact good_setTop_ne e b _ _ _ (by simpa [Ref.base] using hb) hg'
    · refine ⟨e, ?_, ⟨hp, Or.inr (Or.inl ⟨m, hm⟩)⟩, fun _ _ _ h => h⟩
      simp [Env.peek, hm] at hp
      simp [envRead, hm, hp]
    · subst hkn
      refine ⟨e, ?_, ⟨hp, Or.inr (Or.inr ⟨a, n, ha, rfl⟩)⟩, fun _ _ _ h => h⟩
      simp [Env.peek, ha] at hp
      simp [envRead, ha, hp]
end Hawk.Expr

namespace Hawk.Expr
variable {F : Type}

/-- same-container frame: another subscript of the same variable keeps its value -/
theorem good_idx_same_base_write (e : Env F) (b : Base) (k k' : Key) (v v' : Val F) (c : Cell F)
    (hstr : k.str ≠ k'.str) (hne : k ≠ k') (hg' : Good e (.idx b k') v')
    (hc : (e.top b = .sc .nil ∧ c = .map (mapSet emptyMap k.str v)) ∨
          (∃ m, e.top b = .map m ∧ c = .map (mapSet m k.str v)) ∨
          (∃ a n, e.top b = .arr a ∧ k = .i n ∧ c = .arr (arrSet a n v))) :
    Good (e.setTop b c) (.idx b k') v' := by
  obtain ⟨hp', hk'⟩ := hg'
  rcases hc with ⟨hn, hc⟩ | ⟨m, hm, hc⟩ | ⟨a, n, ha, hkn, hc⟩
  · subst hc
    simp [Env.peek, hn] at hp'
    simp [Good, Env.peek, Kinded, top_setTop_same, mapSet, emptyMap, Ne.symm hstr, hp']
  · subst hc
    simp [Env.peek, hm] at hp'
    simp [Good, Env.peek, Kinded, top_setTop_same, mapSet, Ne.symm hstr, hp']
  · subst hc; subst hkn
    rcases hk' with h1 | ⟨m, h1⟩ | ⟨a', n', h1, h2⟩
    · rw [ha] at h1; cases h1
    · rw [ha] at h1; cases h1
    · subst h2
      rw [ha] at h1; injection h1 with h1; subst h1
      have hnn : n' ≠ n := fun h => hne (by rw [h])
      simp [Env.peek, ha] at hp'
      simp [Good, Env.peek, Kinded, top_setTop_same, arrSet, hnn, hp']

/-- writing through a well-kinded reference succeeds, the reference then denotes the written value,
and every independent reference that was good stays good with its value -/
theorem envWrite_good (flex : Bool) (e : Env F) (r : Ref) (v₀ v : Val F) (hg : Good e r v₀) :
    ∃ e', envWrite flex r v e = .ok e' ∧ Good e' r v ∧
      ∀ r' v', Indep r r' → Good e r' v' → Good e' r' v' := by
  obtain ⟨_, hk⟩ := hg
  cases r with
  | plain b =>
    obtain ⟨w, hw⟩ := hk
    refine ⟨e.setTop b (.sc v), by simp [envWrite, hw], ?_, ?_⟩
    · simp [Good, Env.peek, Kinded, top_setTop_same]
    · intro r' v' hi hg'
      exact good_setTop_ne e b _ r' v' (Ne.symm hi) hg'
  | idx b k =>
    have frame : ∀ c, ((e.top b = .sc .nil ∧ c = .map (mapSet emptyMap k.str v)) ∨
          (∃ m, e.top b = .map m ∧ c = .map (mapSet m k.str v)) ∨
          (∃ a n, e.top b = .arr a ∧ k = .i n ∧ c = .arr (arrSet a n v))) →
        ∀ r' v', Indep (.idx b k) r' → Good e r' v' → Good (e.setTop b c) r' v' := by
      intro c hc r' v' hi hg'
      cases r' with
      | plain b' => exact good_setTop_ne e b _ _ _ (by simpa [Ref.base] using (Ne.symm hi)) hg'
      | idx b' k' =>
        by_cases hb : b' = b
        · subst hb
          rcases hi with hi | ⟨h1, h2⟩
          · exact absurd rfl hi
          · exact good_idx_same_base_write e b' k k' v v' c h1 h2 hg' hc
        · exact good_setTop_ne e b _ _ _ (by simpa [Ref.base] using hb) hg'
    rcases hk with hn | ⟨m, hm⟩ | ⟨a, n, ha, hkn⟩
    · refine ⟨e.setTop b (.map (mapSet emptyMap k.str v)), by simp [envWrite, hn], ?_, frame _ (Or.inl ⟨hn, rfl⟩)⟩
      simp [Good, Env.peek, Kinded, top_setTop_same, mapSet]
    · refine ⟨e.setTop b (.map (mapSet m k.str v)), by simp [envWrite, hm], ?_, frame _ (Or.inr (Or.inl ⟨m, hm, rfl⟩))⟩
      simp [Good, Env.peek, Kinded, top_setTop_same, mapSet]
    · subst hkn
      refine ⟨e.setTop b (.arr (arrSet a n v)), by simp [envWrite, ha], ?_, frame _ (Or.inr (Or.inr ⟨a, n, ha, rfl, rfl⟩))⟩
      simp [Good, Env.peek, Kinded, top_setTop_same, arrSet]
end Hawk.Expr

namespace Hawk.Expr
open FloatOps
variable {F : Type} [FloatOps F]

/-- the environment `e` stores the slot values `σ` under the placement `π` -/
def Holds (π : Nat → Ref) (e : Env F) (σ : Store F) : Prop := ∀ i, Good e (π i) (σ i)

/-- no two slots are placed on interfering references -/
def NoAlias (π : Nat → Ref) : Prop := ∀ i j, i ≠ j → Indep (π i) (π j)

theorem env_simulates (X : Ext F) (π : Nat → Ref) (hπ : NoAlias π) :
    Simulates (envStorage X) (slotStorage (F := F)) π (Holds π) := by
  constructor
  · intro i e σ h
    obtain ⟨e', h1, h2, h3⟩ := envRead_good e (π i) (σ i) (h i)
    refine ⟨e', h1, fun j => ?_⟩
    by_cases hj : j = i
    · subst hj; exact h2
    · exact h3 _ _ (hπ i j (Ne.symm hj)) (h j)
  · intro i v e σ h
    obtain ⟨e', h1, h2, h3⟩ := envWrite_good X.flexmap e (π i) (σ i) v (h i)
    refine ⟨e', h1, fun j => ?_⟩
    by_cases hj : j = i
    · subst hj; simpa [Store.set] using h2
    · simpa [Store.set, hj] using h3 _ _ (hπ i j (Ne.symm hj)) (h j)

/-! ### expressions leave the slots they do not assign alone -/

theorem eval_untargeted (X : Ext F) (x : Nat) (e : Expr Nat F) :
    ∀ σ v σ', x ∉ e.targets → eval X slotStorage e σ = .ok (v, σ') → σ' x = σ x := by
  induction e with
  | un op e ih =>
    intro σ v σ' hx h
    simp only [eval] at h
    obtain ⟨⟨v1, s1⟩, h1, h2⟩ := bind_eq_ok h
    obtain ⟨res, _, h4⟩ := bind_eq_ok h2
    injection h4 with h4; injection h4 with _ h4; subst h4
    exact ih σ v1 _ (by simpa [Expr.targets] using hx) h1
  | bin op l r ihl ihr =>
    intro σ v σ' hx h
    simp only [Expr.targets, List.mem_append, not_or] at hx
    cases op <;> simp only [eval] at h <;>
    first
    | cases h
    | (obtain ⟨⟨lv, s1⟩, h1, h2⟩ := bind_eq_ok h
       obtain ⟨⟨rv, s2⟩, h3, h4⟩ := bind_eq_ok h2
       obtain ⟨res, _, h6⟩ := bind_eq_ok h4
       injection h6 with h6; injection h6 with _ h6; subst h6
       exact (ihr s1 rv s2 hx.2 h3).trans (ihl σ lv s1 hx.1 h1))
    | (obtain ⟨⟨lv, s1⟩, h1, h2⟩ := bind_eq_ok h
       have e1 := ihl σ lv s1 hx.1 h1
       by_cases hb : toBool lv = true
       · simp only [hb] at h2
         first
         | (injection h2 with h2; injection h2 with _ h2; subst h2; exact e1)
         | (obtain ⟨⟨rv, s2⟩, h3, h4⟩ := bind_eq_ok h2
            injection h4 with h4; injection h4 with _ h4; subst h4
            exact (ihr s1 rv s2 hx.2 h3).trans e1)
       · simp only [hb] at h2
         first
         | (injection h2 with h2; injection h2 with _ h2; subst h2; exact e1)
         | (obtain ⟨⟨rv, s2⟩, h3, h4⟩ := bind_eq_ok h2
            injection h4 with h4; injection h4 with _ h4; subst h4
            exact (ihr s1 rv s2 hx.2 h3).trans e1))
  | cnd c t f ihc iht ihf =>
    intro σ v σ' hx h
    simp only [Expr.targets, List.mem_append, not_or] at hx
    simp only [eval] at h
    obtain ⟨⟨v1, s1⟩, h1, h2⟩ := bind_eq_ok h
    have e1 := ihc σ v1 s1 hx.1.1 h1
    by_cases hb : toBool v1 = true
    · simp only [hb, if_true] at h2
      rw [iht s1 v σ' hx.1.2 h2, e1]
    · simp only [hb] at h2
      rw [ihf s1 v σ' hx.2 h2, e1]
  | asg op y e ih =>
    intro σ v σ' hx h
    simp only [Expr.targets, List.mem_cons, not_or] at hx
    cases op <;> simp only [eval] at h <;>
    first
    | (obtain ⟨⟨val, s1⟩, h1, h2⟩ := bind_eq_ok h
       have e1 := ih σ val s1 hx.2 h1
       simp [slotStorage] at h2
       rw [← h2.2]; simp [Store.set, hx.1, e1])
    | (obtain ⟨⟨val, s1⟩, h1, h2⟩ := bind_eq_ok h
       have e1 := ih σ val s1 hx.2 h1
       simp only [slotStorage, ok_bind] at h2
       obtain ⟨tmp, _, h4⟩ := bind_eq_ok h2
       simp at h4
       rw [← h4.2]; simp [Store.set, hx.1, e1])
  | incpre op y =>
    intro σ v σ' hx h
    simp only [Expr.targets, List.mem_cons, List.not_mem_nil, or_false] at hx
    simp [eval, slotStorage] at h
    rw [← h.2]; simp [Store.set, hx]
  | incpst op y =>
    intro σ v σ' hx h
    simp only [Expr.targets, List.mem_cons, List.not_mem_nil, or_false] at hx
    simp [eval, slotStorage] at h
    rw [← h.2]; simp [Store.set, hx]
  | var r => intro σ v σ' _ h; simp [eval, slotStorage] at h; rw [h.2]
  | _ => intro σ v σ' _ h; simp [eval] at h; rw [h.2]
end Hawk.Expr

namespace Hawk.Expr
open FloatOps
variable {F : Type} [FloatOps F]

/-! ### compound assignment -/

@[simp] theorem slotStorage_read (i : Nat) (σ : Store F) : (slotStorage (F := F)).read i σ = .ok (σ i, σ) := rfl
@[simp] theorem slotStorage_write (i : Nat) (v : Val F) (σ : Store F) : (slotStorage (F := F)).write i v σ = .ok (σ.set i v) := rfl

theorem compound_assign_slots (X : Ext F) (op : AssOp) (hop : op ≠ .none) (x : Nat) (y : Expr Nat F)
    (hx : x ∉ y.targets) (σ : Store F) :
    eval X slotStorage (.asg op x y) σ =
      eval X slotStorage (.asg .none x (.bin (assopToBinop op) (.var x) y)) σ := by
  cases hy : eval X slotStorage y σ with
  | error e => cases op <;> simp [eval, hy, assopToBinop] at hop ⊢
  | ok p =>
    obtain ⟨val, s1⟩ := p
    have e1 := eval_untargeted X x y σ val s1 hx hy
    cases op <;> simp [eval, hy, assopToBinop, e1] at hop ⊢ <;>
    (cases evalBinop X _ (σ x) val <;> simp)

/-! ### increment / decrement -/

theorem evalPlus_inc (X : Ext F) (op : IncOp) (left : Val F) :
    evalBinop X .plus left (.int (incDelta op)) = .ok (incNew X op left) := by
  cases left <;> simp [evalBinop, evalPlus, incNew, toNum] <;> split <;> simp_all

theorem evalUnary_plus_incOld (X : Ext F) (left : Val F) :
    evalUnary X .plus left = .ok (incOld X left) := by
  cases left <;> simp [evalUnary, incOld, toNum] <;> split <;> simp_all
end Hawk.Expr

namespace Hawk.Expr
open FloatOps
variable {F : Type} [FloatOps F]

/-! ### literal placement -/

/-- the literal node denoting a value -/
def litOf (v : Val F) : Expr Nat F :=
  match v with
  | .nil => .xnil
  | .int i => .lit (LitNode.mkInt i)
  | .flt f => .lit (LitNode.mkFlt f)
  | .str s => .str s
  | .mbs b => .mbs b
  | .char c => .chr c
  | .bchr b => .bchr b

/-- write the slots selected by `L` as literals of their values in `σ₀` -/
def substLit (L : Nat → Bool) (σ₀ : Store F) : Expr Nat F → Expr Nat F
  | .var i => if L i then litOf (σ₀ i) else .var i
  | .un op e => .un op (substLit L σ₀ e)
  | .bin op l r => .bin op (substLit L σ₀ l) (substLit L σ₀ r)
  | .cnd c t f => .cnd (substLit L σ₀ c) (substLit L σ₀ t) (substLit L σ₀ f)
  | .asg op x y => .asg op x (substLit L σ₀ y)
  | e => e

theorem eval_litOf (X : Ext F) (v : Val F) (σ : Store F) :
    eval X slotStorage (litOf v) σ = .ok (v, σ) := by
  cases v <;> simp [litOf, eval, LitNode.mkInt, LitNode.mkFlt, LitNode.val]

theorem eval_bin_congr2 (X : Ext F) {S R : Type} (st : Storage S R F) (op : BinOp) (l l' r r' : Expr R F) (s : S)
    (hl : eval X st l' s = eval X st l s)
    (hr : ∀ lv s1, eval X st l s = .ok (lv, s1) → eval X st r' s1 = eval X st r s1) :
    eval X st (.bin op l' r') s = eval X st (.bin op l r) s := by
  cases h : eval X st l s with
  | error e => cases op <;> simp [eval, hl, h]
  | ok p =>
    obtain ⟨lv, s1⟩ := p
    have := hr lv s1 h
    cases op <;> simp [eval, hl, h, this]

theorem substLit_sound (X : Ext F) (L : Nat → Bool) (σ₀ : Store F) (e : Expr Nat F) :
    (∀ i, L i = true → i ∉ e.targets) → ∀ σ, (∀ i, L i = true → σ i = σ₀ i) →
    eval X slotStorage (substLit L σ₀ e) σ = eval X slotStorage e σ := by
  induction e with
  | var i =>
    intro _ σ hσ
    by_cases hL : L i = true
    · simp [substLit, hL, eval_litOf, eval, hσ i hL]
    · simp [substLit, hL]
  | un op e ih =>
    intro ht σ hσ
    simp [substLit, eval, ih (by simpa [Expr.targets] using ht) σ hσ]
  | bin op l r ihl ihr =>
    intro ht σ hσ
    have htl : ∀ i, L i = true → i ∉ l.targets := fun i h hm => ht i h (by simp [Expr.targets, hm])
    have htr : ∀ i, L i = true → i ∉ r.targets := fun i h hm => ht i h (by simp [Expr.targets, hm])
    simp only [substLit]
    apply eval_bin_congr2 X slotStorage op l _ r _ σ (ihl htl σ hσ)
    intro lv s1 h1
    exact ihr htr s1 (fun i hi => (eval_untargeted X i l σ lv s1 (htl i hi) h1).trans (hσ i hi))
  | cnd c t f ihc iht ihf =>
    intro ht σ hσ
    have htc : ∀ i, L i = true → i ∉ c.targets := fun i h hm => ht i h (by simp [Expr.targets, hm])
    have htt : ∀ i, L i = true → i ∉ t.targets := fun i h hm => ht i h (by simp [Expr.targets, hm])
    have htf : ∀ i, L i = true → i ∉ f.targets := fun i h hm => ht i h (by simp [Expr.targets, hm])
    simp only [substLit, eval, ihc htc σ hσ]
    cases h1 : eval X slotStorage c σ with
    | error e => simp
    | ok p =>
      obtain ⟨cv, s1⟩ := p
      have hs1 : ∀ i, L i = true → s1 i = σ₀ i :=
        fun i hi => (eval_untargeted X i c σ cv s1 (htc i hi) h1).trans (hσ i hi)
      simp [iht htt s1 hs1, ihf htf s1 hs1]
  | asg op x y ih =>
    intro ht σ hσ
    have hty : ∀ i, L i = true → i ∉ y.targets := fun i h hm => ht i h (by simp [Expr.targets, hm])
    simp [substLit, eval, ih hty σ hσ]
  | _ => intro _ σ _; simp [substLit]
end Hawk.Expr

namespace Hawk.Expr
open FloatOps
variable {F : Type} [FloatOps F]

/-! ### by-reference parameters -/

/-- the parameters of the callee: slot `i` is argument `i` -/
def argπ : Nat → Ref := fun i => .plain (.arg i)

theorem noAlias_argπ : NoAlias argπ := by
  intro i j h
  simp [argπ, Indep, Ref.base, h]

theorem pushArgs_holds (π : Nat → Ref) (hπ : NoAlias π) (σ : Store F) (is : List Nat) :
    ∀ e, Holds π e σ → ∃ e', pushArgs (is.map π) e = .ok (is.map σ, e') ∧ Holds π e' σ := by
  induction is with
  | nil => intro e h; exact ⟨e, by simp [pushArgs], h⟩
  | cons i rest ih =>
    intro e h
    obtain ⟨e1, h1, h2, h3⟩ := envRead_good e (π i) (σ i) (h i)
    have hh : Holds π e1 σ := fun j => by
      by_cases hj : j = i
      · subst hj; exact h2
      · exact h3 _ _ (hπ i j (Ne.symm hj)) (h j)
    obtain ⟨e2, h4, h5⟩ := ih e1 hh
    exact ⟨e2, by simp [pushArgs, h1, h4], h5⟩

theorem copyBack_eq_envWrite (flex : Bool) (e : Env F) (r : Ref) (v : Val F) (hk : Kinded e r) :
    copyBack flex r v e = envWrite flex r v e := by
  cases r with
  | plain b => rfl
  | idx b k =>
    rcases hk with hn | ⟨m, hm⟩ | ⟨a, n, ha, hkn⟩
    · simp [copyBack, envWrite, hn]
    · simp [copyBack, envWrite, hm]
    · subst hkn; simp [copyBack, envWrite, ha]

/-- the copy-back loop writes the callee's final parameter values into the argument variables, one after the other -/
theorem copyBackAll_holds (flex : Bool) (π : Nat → Ref) (hπ : NoAlias π) (σ σ' : Store F) (A : Nat → Cell F)
    (hA : ∀ i, A i = .sc (σ' i)) (m : Nat) :
    ∀ k e, (∀ i, i < k → Good e (π i) (σ' i)) → (∀ i, k ≤ i → Good e (π i) (σ i)) →
      ∃ e', copyBackAll flex A ((List.range' k m).map π) k e = .ok e' ∧
        (∀ i, i < k + m → Good e' (π i) (σ' i)) ∧ (∀ i, k + m ≤ i → Good e' (π i) (σ i)) := by
  induction m with
  | zero => intro k e h1 h2; exact ⟨e, by simp [copyBackAll], by simpa using h1, by simpa using h2⟩
  | succ m ih =>
    intro k e h1 h2
    obtain ⟨e1, w1, w2, w3⟩ := envWrite_good flex e (π k) (σ k) (σ' k) (h2 k (Nat.le_refl k))
    have g1 : ∀ i, i < k + 1 → Good e1 (π i) (σ' i) := fun i hi => by
      by_cases hik : i = k
      · subst hik; exact w2
      · exact w3 _ _ (hπ k i (Ne.symm hik)) (h1 i (by omega))
    have g2 : ∀ i, k + 1 ≤ i → Good e1 (π i) (σ i) := fun i hi =>
      w3 _ _ (hπ k i (by omega)) (h2 i (by omega))
    obtain ⟨e2, c1, c2, c3⟩ := ih (k + 1) e1 g1 g2
    refine ⟨e2, ?_, fun i hi => c2 i (by omega), fun i hi => c3 i (by omega)⟩
    simp [List.range'_succ, copyBackAll, hA k,
      copyBack_eq_envWrite flex e (π k) (σ' k) (h2 k (Nat.le_refl k)).2, w1, c1]

/-- the relation between the callee's frame and the slot store: parameters hold the slots, the shared parts are untouched -/
def CalleeRel (N : String → Option (Cell F)) (G L : Nat → Cell F) (c : Env F) (σ : Store F) : Prop :=
  Holds argπ c σ ∧ c.named = N ∧ c.gbl = G ∧ c.lcl = L

theorem callee_simulates (X : Ext F) (N : String → Option (Cell F)) (G L : Nat → Cell F) :
    Simulates (envStorage X) (slotStorage (F := F)) argπ (CalleeRel N G L) := by
  have base := env_simulates X argπ noAlias_argπ
  constructor
  · intro i c σ h
    obtain ⟨hh, hN, hG, hL⟩ := h
    have := base.read i c σ hh
    simp only [Sim, slotStorage_read] at this ⊢
    obtain ⟨c', hc, hh'⟩ := this
    obtain ⟨w, hw⟩ := (hh i).2
    have : c' = c := by
      simp [envStorage, envRead, argπ, hw] at hc
      exact hc.2.symm
    subst this
    exact ⟨c', hc, hh', hN, hG, hL⟩
  · intro i v c σ h
    obtain ⟨hh, hN, hG, hL⟩ := h
    have := base.write i v c σ hh
    simp only [SimW, slotStorage_write] at this ⊢
    obtain ⟨c', hc, hh'⟩ := this
    obtain ⟨w, hw⟩ := (hh i).2
    have : c' = c.setTop (.arg i) (.sc v) := by
      simp [envStorage, envWrite, argπ, hw] at hc
      exact hc.symm
    subst this
    exact ⟨_, hc, hh', by simpa [Env.setTop] using hN, by simpa [Env.setTop] using hG, by simpa [Env.setTop] using hL⟩
end Hawk.Expr

namespace Hawk.Expr
open FloatOps
variable {F : Type} [FloatOps F]

theorem getD_map_range (σ : Store F) (n i : Nat) (hnil : ∀ i, n ≤ i → σ i = .nil) :
    ((List.range n).map σ).getD i .nil = σ i := by
  by_cases hi : i < n
  · simp [List.getD_eq_getElem?_getD, hi]
  · simp [List.getD_eq_getElem?_getD, hi, hnil i (by omega)]

theorem arg_of_good (c : Env F) (i : Nat) (v : Val F) (h : Good c (argπ i) v) : c.arg i = .sc v := by
  obtain ⟨hp, ⟨w, hw⟩⟩ := h
  simp [argπ, Env.peek, hw] at hp
  simpa [Env.top, hp] using hw

theorem byref_sim (X : Ext F) (π : Nat → Ref) (hπ : NoAlias π) (n : Nat) (e : Expr Nat F)
    (env : Env F) (σ : Store F) (h : Holds π env σ) (hnil : ∀ i, n ≤ i → σ i = .nil) :
    match eval X slotStorage e σ with
    | .ok (v, σ') => ∃ env', evalCallByRef X ((List.range n).map π) (e.map argπ) env = .ok (v, env') ∧
        (∀ i, i < n → Good env' (π i) (σ' i)) ∧ (∀ i, n ≤ i → Good env' (π i) (σ i))
    | .error err => evalCallByRef X ((List.range n).map π) (e.map argπ) env = .error err := by
  obtain ⟨e1, hp, hh1⟩ := pushArgs_holds π hπ σ (List.range n) env h
  let callee : Env F :=
    { named := e1.named, gbl := e1.gbl, lcl := fun _ => .sc .nil,
      arg := fun i => .sc (((List.range n).map σ).getD i .nil) }
  have hrel : CalleeRel e1.named e1.gbl (fun _ => .sc .nil) callee σ := by
    refine ⟨fun i => ?_, rfl, rfl, rfl⟩
    have ha : callee.arg i = .sc (σ i) := by
      show Cell.sc (((List.range n).map σ).getD i .nil) = _
      rw [getD_map_range σ n i hnil]
    simp [Good, argπ, Env.peek, Kinded, Env.top, ha]
  have sim := eval_sim X (callee_simulates X e1.named e1.gbl (fun _ => .sc .nil)) e callee σ hrel
  cases hres : eval X slotStorage e σ with
  | error err =>
    rw [hres] at sim
    simp only [Sim] at sim
    unfold evalCallByRef
    rw [hp]
    simp only [ok_bind]
    rw [show eval X (envStorage X) (Expr.map argπ e) _ = _ from sim]
    rfl
  | ok p =>
    obtain ⟨v, σ'⟩ := p
    rw [hres] at sim
    simp only [Sim] at sim
    obtain ⟨c', hc, hh', hN, hG, _⟩ := sim
    have hA : ∀ i, c'.arg i = .sc (σ' i) := fun i => arg_of_good c' i (σ' i) (hh' i)
    obtain ⟨e2, cb, g1, g2⟩ := copyBackAll_holds X.flexmap π hπ σ σ' c'.arg hA n 0 e1
      (fun i hi => absurd hi (Nat.not_lt_zero i)) (fun i _ => hh1 i)
    have hback : ({ named := c'.named, gbl := c'.gbl, lcl := e1.lcl, arg := e1.arg } : Env F) = e1 := by
      rw [hN, hG]
    refine ⟨e2, ?_, fun i hi => g1 i (by omega), fun i hi => g2 i (by omega)⟩
    rw [← List.range_eq_range'] at cb
    unfold evalCallByRef
    rw [hp]
    simp only [ok_bind]
    rw [show eval X (envStorage X) (Expr.map argπ e) _ = _ from hc]
    simp only [ok_bind]
    rw [hback, cb]
    rfl
end Hawk.Expr

namespace Hawk.Expr
open FloatOps
variable {F : Type} [FloatOps F]

theorem divIntInt_ne_crash (l1 l2 : Int) : (divIntInt l1 l2 : Except Err (Val F)) ≠ .error .crash := by
  unfold divIntInt
  by_cases hb : l2 = 0
  · simp [hb]
  · by_cases h1 : l1 = INT_MIN ∧ l2 = -1
    · simp [hb, h1]
    · obtain ⟨m, hm⟩ := cmod_isSome l1 l2 hb h1
      obtain ⟨q, hq⟩ := cdiv_isSome l1 l2 hb h1
      by_cases hm0 : m = 0 <;> simp [hb, h1, hm, hq, hm0, ofOpt]

theorem idivIntInt_ne_crash (l1 l2 : Int) : (idivIntInt l1 l2 : Except Err (Val F)) ≠ .error .crash := by
  unfold idivIntInt
  by_cases hb : l2 = 0
  · simp [hb]
  · by_cases h1 : l2 = -1
    · simp [h1]
    · obtain ⟨q, hq⟩ := cdiv_isSome' l1 l2 hb h1
      simp [hb, h1, hq, ofOpt]

theorem modIntInt_ne_crash (l1 l2 : Int) : (modIntInt l1 l2 : Except Err (Val F)) ≠ .error .crash := by
  unfold modIntInt
  by_cases hb : l2 = 0
  · simp [hb]
  · by_cases h1 : l2 = -1
    · simp [h1]
    · obtain ⟨m, hm⟩ := cmod_isSome' l1 l2 hb h1
      simp [hb, h1, hm, ofOpt]

theorem evalBinop_ne_crash (X : Ext F) (op : BinOp) (l r : Val F)
    (hcmp : ∀ c, X.cmp c l r ≠ .error .crash) : evalBinop X op l r ≠ .error .crash := by
  have hc : ∀ c, (X.cmp c l r).map (boolVal (F := F)) ≠ .error .crash := fun c h => by
    cases hx : X.cmp c l r with
    | ok b => rw [hx] at h; simp at h
    | error e => rw [hx] at h; simp at h; exact hcmp c (by rw [hx, h])
  cases op <;> simp only [evalBinop, evalPlus, evalMinus, evalMul, evalDiv, evalIdiv, evalMod, evalExp, evalConcat]
  any_goals exact hc _
  any_goals (intro h; cases h; done)
  all_goals
    first
    | (cases toNum X l <;> cases toNum X r <;>
        simp [divIntInt_ne_crash, idivIntInt_ne_crash, modIntInt_ne_crash] <;>
        (repeat' split) <;> simp)
    | (cases l <;> simp)
end Hawk.Expr
